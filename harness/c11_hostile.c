// C11: hostile or broken peers cannot crash, wedge or bypass size limits.
//
// Victim: a real nng socket of every protocol (cooked and raw) listening on
// socket://, tcp, ipc, ws or udp - or dialing a raw tcp / ipc / websocket /
// udp listener of this harness, again after every session - with
// NNG_OPT_RECVMAXSZ in {0, 64, 1 MiB} set on the socket, on the endpoint
// itself (the socket says something else) or changed on the live endpoint.
// Attacker: a raw peer driven by this harness that plays a grammar based
// session (valid handshake + valid frames) with ONE seeded mutation, or a
// truncation of a valid session at a byte offset, and then closes (FIN, RST,
// half close) or keeps the connection open while bystanders are checked.
//
// Oracles:
//  (1) sanitizers / NNI_ASSERT / watchdog (driver),
//  (2) a reference decoder of the bytes that were really written computes the
//      frames that are complete, within RECVMAXSZ and carry a protocol header
//      the receiving protocol accepts; what the application receives must be
//      an in-order subsequence of that list,
//  (3) after an oversize length the raw peer sees EOF/RST (udp: DISC) in 5 s,
//  (4) a control client connected BEFORE the session still performs one
//      exchange afterwards, was not disconnected, and a NEW client can
//      connect and do the same,
//      (dialing victim: the bystander is a second dialer of the same socket
//      to a well-behaved nng listener; the hostile server's dialer must come
//      back within 8 s after every session),
//  (5) CPU time of the process in a 150 ms idle window < 30 % of one core
//      (sampled sessions, every victim of the truncation sweep, and whenever
//      a 30-40 ms probe - every 16th cut, every victim's end, every time the
//      library does not get quiet - sees more than 25 %),
//  (6) the limit read back from the endpoint and from every new pipe is the
//      one that was configured (udp: at most 65000),
//  (7) connections that send 0..7 bytes of an SP handshake and go silent are
//      closed by the library (10 s bound; looked at after >= 25 s).
#include "vfh.h"
#include "core/nng_impl.h"
#include "supplemental/websocket/base64.h"
#include "supplemental/websocket/sha1.h"
#include <dlfcn.h>

#include <arpa/inet.h>
#include <errno.h>
#include <fcntl.h>
#include <netinet/in.h>
#include <netinet/tcp.h>
#include <poll.h>
#include <sched.h>
#include <stdatomic.h>
#include <sys/resource.h>
#include <sys/socket.h>
#include <sys/un.h>
#include <unistd.h>

// A hostile length with RECVMAXSZ 0 makes the library ask for petabytes; the
// allocation must fail (NNG_ENOMEM, connection closed), not abort the
// sanitizer run.  ASAN_OPTIONS from the driver already says so; TSan's do not.
const char *__tsan_default_options(void);
const char *
__tsan_default_options(void)
{
	return "allocator_may_return_null=1";
}

// ---------------------------------------------------------------- tables
enum { T_SOCKFD = 0, T_TCP, T_IPC, T_WS, T_UDP, T_N };
static const char *tnames[T_N] = { "sockfd", "tcp", "ipc", "ws", "udp" };

typedef enum {
	HM_NONE,     // no protocol header: every frame is a message
	HM_BT,       // backtrace, at most ttl words, last has the high bit
	HM_BT_NOTTL, // backtrace bounded only by the header capacity (16 words)
	HM_ID4,      // one word that must equal the outstanding request id
	HM_HOP,      // pair1 hop word <= 255 (malformed above), <= ttl (drop)
	HM_SINK,     // received frames are discarded (push)
	HM_KILLANY,  // any received frame closes the pipe (pub)
} hdrmodel;

typedef enum {
	CK_C2V_1W, // control sends, victim receives
	CK_V2C_1W, // victim sends, control receives
	CK_C2V_RR, // control requests/surveys, victim replies
	CK_V2C_RR, // victim requests/surveys, control replies
} ctlkind;

typedef struct {
	const char *name;
	vf_open_fn  open;
	uint16_t    self, peer; // SP ids: victim, attacker
	const char *wsname;     // <wsname>.sp.nanomsg.org offered by the listener
	hdrmodel    hm;
	bool        raw;      // application sees the header: compare it
	int         hdr_skip; // leading received header words not on the wire
	vf_open_fn  ctl_open;
	ctlkind     ck;
	bool        single; // one peer at a time (pair)
	bool        can_recv;
	bool        id_once; // HM_ID4: at most one delivery (req)
} vproto;

static const vproto vprotos[] = {
	{ "rep", nng_rep0_open, 0x31, 0x30, "rep", HM_BT, false, 0, nng_req0_open, CK_C2V_RR, false, true, false },
	{ "xrep", nng_rep0_open_raw, 0x31, 0x30, "rep", HM_BT, true, 1, nng_req0_open, CK_C2V_RR, false, true, false },
	{ "req", nng_req0_open, 0x30, 0x31, "req", HM_ID4, false, 0, nng_rep0_open, CK_V2C_RR, false, true, true },
	{ "xreq", nng_req0_open_raw, 0x30, 0x31, "req", HM_BT_NOTTL, true, 0, nng_rep0_open, CK_V2C_RR, false, true, false },
	{ "sub", nng_sub0_open, 0x21, 0x20, "sub", HM_NONE, false, 0, nng_pub0_open, CK_C2V_1W, false, true, false },
	{ "xsub", nng_sub0_open_raw, 0x21, 0x20, "sub", HM_NONE, true, 0, nng_pub0_open, CK_C2V_1W, false, true, false },
	{ "pull", nng_pull0_open, 0x51, 0x50, "pull", HM_NONE, false, 0, nng_push0_open, CK_C2V_1W, false, true, false },
	{ "xpull", nng_pull0_open_raw, 0x51, 0x50, "pull", HM_NONE, true, 0, nng_push0_open, CK_C2V_1W, false, true, false },
	{ "pair0", nng_pair0_open, 0x10, 0x10, "pair", HM_NONE, false, 0, nng_pair0_open, CK_C2V_1W, true, true, false },
	{ "xpair0", nng_pair0_open_raw, 0x10, 0x10, "pair", HM_NONE, true, 0, nng_pair0_open, CK_C2V_1W, true, true, false },
	{ "pair1", nng_pair1_open, 0x11, 0x11, "pair1", HM_HOP, false, 0, nng_pair1_open, CK_C2V_1W, true, true, false },
	{ "xpair1", nng_pair1_open_raw, 0x11, 0x11, "pair1", HM_HOP, true, 0, nng_pair1_open, CK_C2V_1W, true, true, false },
	{ "pair1poly", nng_pair1_open_poly, 0x11, 0x11, "pair1", HM_HOP, false, 0, nng_pair1_open, CK_C2V_1W, false, true, false },
	{ "bus", nng_bus0_open, 0x70, 0x70, "bus", HM_NONE, false, 0, nng_bus0_open, CK_C2V_1W, false, true, false },
	{ "xbus", nng_bus0_open_raw, 0x70, 0x70, "bus", HM_NONE, true, 1, nng_bus0_open, CK_C2V_1W, false, true, false },
	{ "surveyor", nng_surveyor0_open, 0x62, 0x63, "surveyor", HM_ID4, false, 0, nng_respondent0_open, CK_V2C_RR, false, true, false },
	{ "xsurveyor", nng_surveyor0_open_raw, 0x62, 0x63, "surveyor", HM_BT_NOTTL, true, 0, nng_respondent0_open, CK_V2C_RR, false, true, false },
	{ "respondent", nng_respondent0_open, 0x63, 0x62, "respondent", HM_BT, false, 0, nng_surveyor0_open, CK_C2V_RR, false, true, false },
	{ "xrespondent", nng_respondent0_open_raw, 0x63, 0x62, "respondent", HM_BT, true, 1, nng_surveyor0_open, CK_C2V_RR, false, true, false },
	{ "push", nng_push0_open, 0x50, 0x51, "push", HM_SINK, false, 0, nng_pull0_open, CK_V2C_1W, false, false, false },
	{ "pub", nng_pub0_open, 0x20, 0x21, "pub", HM_KILLANY, false, 0, nng_sub0_open, CK_V2C_1W, false, false, false },
};
#define NVPROTO ((int) (sizeof(vprotos) / sizeof(vprotos[0])))

static const size_t recvmaxes[3] = { 0, 64, 1u << 20 };

#define MAGIC_DATA 0x43313164u // "C11d"
#define MAGIC_CTL 0x43313163u  // "C11c"
#define TAGLEN 12

// 28 bits of a serial number in four bytes that all have the high bit clear
static uint32_t
enc7(uint32_t s)
{
	return (((s >> 21) & 0x7f) << 24) | (((s >> 14) & 0x7f) << 16) | (((s >> 7) & 0x7f) << 8) | (s & 0x7f);
}

static uint32_t
be32(const uint8_t *p)
{
	return ((uint32_t) p[0] << 24) | ((uint32_t) p[1] << 16) | ((uint32_t) p[2] << 8) | p[3];
}
static void
put_be32(uint8_t *p, uint32_t v)
{
	p[0] = (uint8_t) (v >> 24); p[1] = (uint8_t) (v >> 16); p[2] = (uint8_t) (v >> 8); p[3] = (uint8_t) v;
}
static void
put_be64(uint8_t *p, uint64_t v)
{
	for (int i = 0; i < 8; i++) p[i] = (uint8_t) (v >> (8 * (7 - i)));
}
static uint64_t
be64(const uint8_t *p)
{
	uint64_t v = 0;
	for (int i = 0; i < 8; i++) v = (v << 8) | p[i];
	return v;
}

// Deadlines are counted on a clock that only runs while this thread runs: the
// waiting loops below come round every few ms, so a long gap between two
// rounds means the process was not scheduled (stopped, starved, reclaim stall)
// and that gap is not charged to the library.
typedef struct {
	uint64_t last, used;
} pclock;
static void
pc_start(pclock *p)
{
	p->last = vf_now_ns();
	p->used = 0;
}
static uint64_t
pc_ms(pclock *p)
{
	uint64_t now = vf_now_ns(), gap = now - p->last;
	p->last = now;
	p->used += gap > 100000000ULL ? 100000000ULL : gap;
	return p->used / 1000000ULL;
}

// growable byte buffer
typedef struct {
	uint8_t *p;
	size_t   n, cap;
} bbuf;
static void
bb_add(bbuf *b, const void *d, size_t n)
{
	if (b->n + n > b->cap) {
		size_t nc = b->cap ? b->cap * 2 : 256;
		while (nc < b->n + n) nc *= 2;
		b->p = realloc(b->p, nc);
		if (!b->p) vf_harness_fail("oom");
		b->cap = nc;
	}
	if (n) memcpy(b->p + b->n, d, n);
	b->n += n;
}
static void
bb_u8(bbuf *b, uint8_t v)
{
	bb_add(b, &v, 1);
}


// ---------------------------------------------------------------- diagnostics: library log + scheduling latency
// The udp transport says in its log why it gave a peer up ("timed out due to
// inactivity", "Received disconnect ... reason N"); a well-behaved client that
// loses its connection on udp is judged by that reason, not by the clock.
#include <pthread.h>
#define LOGRING 64
static struct {
	uint64_t t_ns;
	char     text[150];
} logring[LOGRING];
static _Atomic unsigned long logpos;
static _Atomic long log_udp_inactive;    // NNG-UDP-INACTIVE events
#define INACT_RING 256
static struct {
	int      port; // the peer that was given up for silence
	uint64_t t_ns;
} inact_ring[INACT_RING];

// did a udp endpoint of this process give up the peer with that port for
// inactivity since t?
static bool
udp_inactive_seen(int port, uint64_t since_ns)
{
	for (int i = 0; i < INACT_RING; i++) {
		if (inact_ring[i].port == port && port != 0 && inact_ring[i].t_ns >= since_ns) return true;
	}
	return false;
}

static _Atomic long log_udp_disc[16];    // received DISC by reason
static _Atomic long log_pair_busy, log_mismatch;

static void
c11_logger(nng_log_level level, nng_log_facility fac, const char *id, const char *msg)
{
	(void) level;
	(void) fac;
	if (id == NULL) return;
	if (!strcmp(id, "NNG-UDP-INACTIVE")) {
		// "Pipe peer 127.0.0.1:PORT timed out due to inactivity"
		const char *c = strstr(msg, " timed out");
		int         port = 0;
		if (c != NULL) {
			const char *q = c;
			while (q > msg && q[-1] >= '0' && q[-1] <= '9') q--;
			port = atoi(q);
		}
		unsigned long k = atomic_fetch_add(&log_udp_inactive, 1) % INACT_RING;
		inact_ring[k].port = port;
		inact_ring[k].t_ns = vf_now_ns();
	} else if (!strcmp(id, "NNG-UDP-DISC")) {
		const char *r = strstr(msg, "reason ");
		int         n = r ? atoi(r + 7) : 15;
		atomic_fetch_add(&log_udp_disc[n >= 0 && n < 16 ? n : 15], 1);
	} else if (!strcmp(id, "NNG-PAIR-BUSY")) {
		atomic_fetch_add(&log_pair_busy, 1);
	} else if (!strcmp(id, "NNG-PEER-MISMATCH")) {
		atomic_fetch_add(&log_mismatch, 1);
	} else {
		return;
	}
	unsigned long i = atomic_fetch_add(&logpos, 1) % LOGRING;
	logring[i].t_ns = vf_now_ns();
	snprintf(logring[i].text, sizeof(logring[i].text), "%s: %s", id, msg);
}

static void
log_dump(uint64_t since_ns)
{
	unsigned long end = atomic_load(&logpos), beg = end > LOGRING ? end - LOGRING : 0;
	uint64_t      now = vf_now_ns();
	for (unsigned long k = beg; k < end; k++) {
		if (logring[k % LOGRING].t_ns >= since_ns) fprintf(stderr, "  DIAG log -%.3f s %s\n", (double) (now - logring[k % LOGRING].t_ns) / 1e9, logring[k % LOGRING].text);
	}
}

// scheduling latency probe: a thread that sleeps 1 ms at a time and records
// by how much it overslept; a process that is not being run shows it here
static _Atomic uint64_t tick_max_over_ns; // since the last reset
static _Atomic uint64_t tick_count;
static _Atomic uint64_t tick_last_ns;
static void *
ticker(void *arg)
{
	(void) arg;
	for (;;) {
		uint64_t a = vf_now_ns();
		vf_usleep(1000);
		uint64_t d = vf_now_ns() - a;
		uint64_t o = d > 1000000 ? d - 1000000 : 0;
		if (o > atomic_load(&tick_max_over_ns)) atomic_store(&tick_max_over_ns, o);
		atomic_fetch_add(&tick_count, 1);
		atomic_store(&tick_last_ns, vf_now_ns());
	}
	return NULL;
}
static void
ticker_start(void)
{
	pthread_t      t;
	pthread_attr_t at;
	pthread_attr_init(&at);
	pthread_attr_setdetachstate(&at, PTHREAD_CREATE_DETACHED);
	pthread_create(&t, &at, ticker, NULL);
}

// ---------------------------------------------------------------- expectations
enum { FR_DELIVER = 0, FR_TTLDROP, FR_KILL, FR_IDMISS, FR_SINK, FR_OVERSIZE, FR_AFTER };
static const char *fr_reason[] = { "deliverable", "ttl-exceeded", "malformed-header", "wrong-id", "sink", "oversize", "after-close" };

typedef struct {
	size_t  poff, plen; // payload (protocol header + body) inside se->buf
	size_t  hlen;       // protocol header bytes consumed on the wire
	int     status;
	bool    delivered;
} frame_exp;

typedef struct sess_exp {
	struct sess_exp *next;
	uint32_t         serial;
	uint8_t         *buf; // copy of the payload bytes (all frames, back to back)
	size_t           buflen;
	frame_exp       *fr;
	int              nfr, capfr;
	int              cursor;
	int              ndeliverable, ndelivered;
	int              closeexp; // 0 none, 1 the implementation closes, 2 the property demands close
	char             mut[48];
} sess_exp;

enum { CE_NONE = 0, CE_SOFT, CE_HARD };

typedef struct {
	nng_socket  s;
	bool        open;
	atomic_int  rem; // pipes removed on the control socket
	atomic_int  add;
	uint32_t    seen_seq; // highest control sequence number received
	int         rem_base; // removals seen while the connection was being established
	_Atomic int lport;    // local port of its (udp) pipe
	_Atomic int pport;    // and the peer's
	uint64_t    t_conn;   // when it was connected
	long        disc_base[16];
	// dialing victim: the control client is an nng listener and the victim's
	// socket has a second, well-behaved dialer to it
	bool        has_vd;
	nng_dialer  vd;
	char        ipcpath[120];
} ctlsock;

typedef struct {
	const vproto *vp;
	int           tran;
	size_t        recvmax;
	size_t        efflimit; // what the transport enforces (udp: <= 65000), 0 = none
	int           ttl;
	uint32_t      inst; // unique per victim in this process
	nng_socket    s;
	nng_listener  l;
	char          url[160];
	char          ipcpath[120];
	int           port;
	atomic_int    pre, post, rem;
	ctlsock       ctl[2]; // ctl[oldk] connected before the session, the other: new client
	int           oldk;
	uint32_t      serial;
	uint32_t      ctl_seq;
	uint32_t      ctl_gen;
	uint32_t      req_seq;
	sess_exp     *sessions;
	const char   *cur_mut;
	char          last_mut[48]; // mutation of the previous session
	long          rx_total;
	int           lingering; // pipes known to stay: udp peers that vanished without DISC, zombies
	bool          vanished;  // the current udp session ended without DISC
	uint64_t      sess_t0;   // start of the current session and log counters then
	long          inact0, disc0[16];
	bool          wedged;    // a new client could not connect: stop using this victim
	uint32_t      nblitz;    // sessions of this victim that were candidates for a blitz
	// dialing victim: the hostile peer is a raw listener of this harness that
	// the victim's socket dials (and dials again after every session)
	bool          dial;
	nng_dialer    d;
	int           lfd;        // raw listening socket (udp: the bound datagram socket)
	uint64_t      idle_since; // when the last hostile connection was given up
	bool          upeer_known; // udp: lfd is connected to the dialer's address
	// where the limit in force comes from
	size_t        sockmax;    // NNG_OPT_RECVMAXSZ of the socket
	const char   *limsrc;     // "sock", "ep" (set on the endpoint), "chg" (changed on the live endpoint)
	_Atomic int   pipe_limit_bad; // a pipe reported another RECVMAXSZ than the one in force
	_Atomic unsigned long pipe_limit_got, pipe_limit_want;
	_Atomic int   pipe_limit_checked;
	_Atomic unsigned long want_ep, want_sock; // what pipes of the hostile endpoint / of other dialers must report
	_Atomic int   d_id;
	uint64_t      t_open;
	bool          in_probe;
} victim;

static uint32_t g_inst;
static long     g_case;
static bool     g_trunc; // truncation sweep (stats are kept per mode)

// transport name of a victim as used in violation keys and classes
static const char *
vtn(const victim *v)
{
	static const char *dn[T_N] = { "dial-sockfd", "dial-tcp", "dial-ipc", "dial-ws", "dial-udp" };
	return v->dial ? dn[v->tran] : tnames[v->tran];
}
static void     fd_nonblock(int fd);

// ---------------------------------------------------------------- protocol header model
static int
sp_model(const victim *v, const uint8_t *p, size_t n, uint32_t want_id, size_t *hlen)
{
	size_t off = 0;
	*hlen      = 0;
	switch (v->vp->hm) {
	case HM_NONE:
		return FR_DELIVER;
	case HM_SINK:
		return FR_SINK;
	case HM_KILLANY:
		return FR_KILL;
	case HM_BT:
		for (int k = 1;; k++) {
			if (k > v->ttl) return FR_TTLDROP;
			if (n - off < 4) return FR_KILL;
			bool end = (p[off] & 0x80) != 0;
			off += 4;
			if (end) break;
		}
		*hlen = off;
		return FR_DELIVER;
	case HM_BT_NOTTL:
		for (int words = 0;; words++) {
			if (n - off < 4) return FR_KILL;
			if (words == 16) return FR_KILL; // header buffer full
			bool end = (p[off] & 0x80) != 0;
			off += 4;
			if (end) break;
		}
		*hlen = off;
		return FR_DELIVER;
	case HM_ID4:
		if (n < 4) return FR_KILL;
		*hlen = 4;
		if (want_id == 0 || be32(p) != want_id) return FR_IDMISS;
		return FR_DELIVER;
	case HM_HOP:
		if (n < 4) return FR_KILL;
		if (be32(p) > 0xff) return FR_KILL;
		if ((int) be32(p) > v->ttl) return FR_TTLDROP;
		*hlen = 4;
		return FR_DELIVER;
	}
	return FR_KILL;
}

static sess_exp *
se_new(victim *v, const char *mut)
{
	sess_exp *se = calloc(1, sizeof(*se));
	se->serial   = ++v->serial;
	snprintf(se->mut, sizeof(se->mut), "%s", mut);
	se->next    = v->sessions;
	v->sessions = se;
	v->sess_t0  = vf_now_ns();
	v->inact0   = atomic_load(&log_udp_inactive);
	for (int i = 0; i < 16; i++) v->disc0[i] = atomic_load(&log_udp_disc[i]);
	atomic_store(&tick_max_over_ns, 0);
	return se;
}

static void
se_free_all(victim *v)
{
	sess_exp *se;
	while ((se = v->sessions) != NULL) {
		v->sessions = se->next;
		free(se->buf);
		free(se->fr);
		free(se);
	}
}

// add one decoded transport-level message (payload) to the session
static int
se_add_payload(victim *v, sess_exp *se, bbuf *store, const uint8_t *p, size_t n, uint32_t id, bool dead)
{
	size_t hl = 0;
	int    st = dead ? FR_AFTER : sp_model(v, p, n, id, &hl);
	if (se->nfr == se->capfr) {
		se->capfr = se->capfr ? se->capfr * 2 : 16;
		se->fr    = realloc(se->fr, sizeof(frame_exp) * (size_t) se->capfr);
	}
	frame_exp *f = &se->fr[se->nfr++];
	f->poff      = store->n;
	f->plen      = n;
	f->hlen      = hl;
	f->status    = st;
	f->delivered = false;
	bb_add(store, p, n);
	if (st == FR_DELIVER) se->ndeliverable++;
	return st;
}

// Reference decoder for SP over a byte stream (tcp, socket://; ipc has a
// leading type octet per frame).  b[0..n) is what the peer really wrote.
// pipe_ok: the pipe can be accepted by the socket at all (pair not busy).
static void
decode_stream(victim *v, sess_exp *se, const uint8_t *b, size_t n, uint32_t id, bool pipe_ok)
{
	bbuf   store = { 0 };
	bool   ipc   = v->tran == T_IPC;
	size_t fh    = ipc ? 9 : 8;
	size_t off   = 8;
	bool   dead  = false;

	se->closeexp = CE_NONE;
	if (n < 8) goto done;
	if (b[0] != 0 || b[1] != 'S' || b[2] != 'P' || b[3] != 0 || b[6] != 0 || b[7] != 0) {
		se->closeexp = CE_SOFT;
		goto done;
	}
	if ((uint16_t) ((b[4] << 8) | b[5]) != v->vp->peer || !pipe_ok) {
		se->closeexp = CE_SOFT;
		dead         = true; // the pipe is rejected: nothing is read
	}
	while (n - off >= fh) {
		if (ipc && b[off] != 1) {
			if (!dead) se->closeexp = CE_SOFT;
			break;
		}
		uint64_t len = be64(b + off + (ipc ? 1 : 0));
		if (len > UINT64_C(0x0fffffffffffffff) || (v->recvmax > 0 && len > v->recvmax)) {
			if (!dead) {
				se->closeexp = v->recvmax > 0 ? CE_HARD : CE_SOFT;
				// remember it for classification if the data is there
				if (len <= n - off - fh) {
					se_add_payload(v, se, &store, b + off + fh, (size_t) len, id, true);
					se->fr[se->nfr - 1].status = FR_OVERSIZE;
				}
			}
			break;
		}
		if (len > n - off - fh) break; // incomplete
		int st = se_add_payload(v, se, &store, b + off + fh, (size_t) len, id, dead);
		if (st == FR_KILL && !dead) {
			dead         = true;
			se->closeexp = CE_SOFT;
		}
		off += fh + (size_t) len;
	}
done:
	// an oversize frame recorded above must not count as deliverable
	se->ndeliverable = 0;
	for (int i = 0; i < se->nfr; i++) {
		if (se->fr[i].status == FR_DELIVER) se->ndeliverable++;
	}
	se->buf    = store.p;
	se->buflen = store.n;
}

// ---------------------------------------------------------------- oracle on application receipts
static const frame_exp *
find_any(victim *v, const uint8_t *body, size_t blen, sess_exp **sep)
{
	for (sess_exp *se = v->sessions; se; se = se->next) {
		for (int i = 0; i < se->nfr; i++) {
			frame_exp *f = &se->fr[i];
			if (f->plen >= blen && (blen == 0 || memcmp(se->buf + f->poff + f->plen - blen, body, blen) == 0)) {
				*sep = se;
				return f;
			}
		}
	}
	return NULL;
}

static void
oracle_rx(victim *v, nng_msg *m)
{
	const uint8_t *body = nng_msg_body(m);
	size_t         blen = nng_msg_len(m);
	const uint8_t *hdr  = nng_msg_header(m);
	size_t         hlen = nng_msg_header_len(m);
	const vproto  *vp   = v->vp;
	char           key[160];

	if (blen >= TAGLEN && be32(body) == MAGIC_CTL) {
		vf_stat("stale_control_msgs", 1);
		nng_msg_free(m);
		return;
	}
	v->rx_total++;
	vf_stat("app_received", 1);
	if (v->efflimit > 0 && blen > v->efflimit) {
		snprintf(key, sizeof(key), "C11/oversize-delivered/%s/%s", vtn(v), vp->name);
		vf_violation(key, "application received a message of %zu body bytes although RECVMAXSZ is %zu (mutation %s)", blen, v->recvmax, v->cur_mut);
		nng_msg_free(m);
		return;
	}
	size_t skip         = (size_t) vp->hdr_skip * 4;
	bool   hdr_mismatch = false;
	size_t mm_hlen      = 0;
	for (sess_exp *se = v->sessions; se; se = se->next) {
		if (blen >= TAGLEN && be32(body) == MAGIC_DATA && be32(body + 4) != enc7(se->serial)) {
			continue; // tagged for another session
		}
		for (int i = se->cursor; i < se->nfr; i++) {
			frame_exp *f = &se->fr[i];
			if (f->status != FR_DELIVER || f->delivered) continue;
			if (f->plen - f->hlen != blen) continue;
			if (blen && memcmp(se->buf + f->poff + f->hlen, body, blen) != 0) continue;
			if (vp->raw) {
				if (hlen != skip + f->hlen || (f->hlen && memcmp(hdr + skip, se->buf + f->poff, f->hlen) != 0)) {
					hdr_mismatch = true;
					mm_hlen      = f->hlen;
					continue;
				}
			}
			f->delivered = true;
			if (blen >= 4) se->cursor = i + 1; // tiny bodies are not unique: no ordering claim
			se->ndelivered++;
			vf_stat("delivered_matched", 1);
			if (vp->id_once && se->ndelivered > 1) {
				snprintf(key, sizeof(key), "C11/delivered/duplicate-reply/%s", vp->name);
				vf_violation(key, "%s/%s: a second reply to one request was delivered (session %u, %s)", vtn(v), vp->name, se->serial, se->mut);
			}
			nng_msg_free(m);
			return;
		}
	}
	if (hdr_mismatch) {
		snprintf(key, sizeof(key), "C11/raw-header-mismatch/%s", vp->name);
		vf_violation(key, "%s/%s: the delivered body (%zu bytes) matches a deliverable frame but the header (%zu bytes, %zu of them local) is not the %zu header bytes of the wire (mutation %s)", vtn(v), vp->name, blen, hlen, skip, mm_hlen, v->cur_mut);
		nng_msg_free(m);
		return;
	}
	// not deliverable: say why
	sess_exp        *se = NULL;
	const frame_exp *f  = find_any(v, body, blen, &se);
	const char      *why = "unknown";
	if (f != NULL) {
		if (f->status == FR_DELIVER && blen < 4) {
			// bodies of 0..3 bytes are not unique across frames and sessions:
			// being deliverable at all is what can be claimed
			vf_stat("tiny_bodies_unordered", 1);
			nng_msg_free(m);
			return;
		}
		if (f->status == FR_DELIVER) why = f->delivered ? "duplicate" : "reordered";
		else why = fr_reason[f->status];
	}
	snprintf(key, sizeof(key), "C11/delivered/%s/%s", why, vp->name);
	vf_violation(key, "%s/%s recvmax=%zu ttl=%d: application received a message (header %zu, body %zu bytes, first bytes %02x%02x%02x%02x) that the reference decoder does not allow: %s (session %u mutation %s; current mutation %s)",
	    vtn(v), vp->name, v->recvmax, v->ttl, hlen, blen, blen > 0 ? body[0] : 0, blen > 1 ? body[1] : 0, blen > 2 ? body[2] : 0, blen > 3 ? body[3] : 0, why, se ? se->serial : 0, se ? se->mut : "?", v->cur_mut);
	nng_msg_free(m);
}

static int
pump(victim *v)
{
	int n = 0;
	if (!v->vp->can_recv) return 0;
	for (;;) {
		nng_msg *m = NULL;
		if (nng_recvmsg(v->s, &m, NNG_FLAG_NONBLOCK) != 0) break;
		oracle_rx(v, m);
		n++;
	}
	return n;
}

// ---------------------------------------------------------------- victim + control clients
static void
v_pipe_cb(nng_pipe p, nng_pipe_ev ev, void *arg)
{
	victim *v = arg;
	if (ev == NNG_PIPE_EV_ADD_PRE) {
		// "per-endpoint size limits copied to each pipe": what the pipe reports
		// must be the limit in force on the endpoint that made it (udp keeps a
		// copy per pipe; the stream transports answer from their endpoint)
		size_t got = 0;
		if (nng_pipe_get_size(p, NNG_OPT_RECVMAXSZ, &got) == 0) {
			bool   own  = v->dial ? nng_dialer_id(nng_pipe_dialer(p)) == atomic_load(&v->d_id) : true;
			size_t want = own ? atomic_load(&v->want_ep) : atomic_load(&v->want_sock);
			atomic_fetch_add(&v->pipe_limit_checked, 1);
			if (got != want && !atomic_load(&v->pipe_limit_bad)) {
				atomic_store(&v->pipe_limit_got, (unsigned long) got);
				atomic_store(&v->pipe_limit_want, (unsigned long) want);
				atomic_store(&v->pipe_limit_bad, 1);
			}
		}
		atomic_fetch_add(&v->pre, 1);
	} else if (ev == NNG_PIPE_EV_ADD_POST) atomic_fetch_add(&v->post, 1);
	else if (ev == NNG_PIPE_EV_REM_POST) atomic_fetch_add(&v->rem, 1);
}

static void
c_pipe_cb(nng_pipe p, nng_pipe_ev ev, void *arg)
{
	ctlsock *c = arg;
	if (ev == NNG_PIPE_EV_ADD_POST) {
		nng_sockaddr sa;
		if (nng_pipe_self_addr(p, &sa) == 0 && sa.s_family == NNG_AF_INET) atomic_store(&c->lport, (int) ntohs(sa.s_in.sa_port));
		if (nng_pipe_peer_addr(p, &sa) == 0 && sa.s_family == NNG_AF_INET) atomic_store(&c->pport, (int) ntohs(sa.s_in.sa_port));
		atomic_fetch_add(&c->add, 1);
	} else if (ev == NNG_PIPE_EV_REM_POST) {
		atomic_fetch_add(&c->rem, 1);
	}
}

static bool
wait_atomic_ge(atomic_int *a, int want, int timeout_ms, victim *v)
{
	pclock pc;
	pc_start(&pc);
	while (atomic_load(a) < want) {
		if (pc_ms(&pc) > (uint64_t) timeout_ms) return false;
		if (v) pump(v);
		vf_usleep(500);
	}
	return true;
}

static void settle(victim *v, int ms);
static void spin_probe(victim *v, const char *when, int ms);
static int
live_ctl(const victim *v)
{
	return (v->ctl[0].open ? 1 : 0) + (v->ctl[1].open ? 1 : 0);
}

// hand one end of a fresh socketpair to the victim's socket:// listener
static int
sockfd_pair_to_victim(victim *v)
{
	int sv[2];
	if (socketpair(AF_UNIX, SOCK_STREAM | SOCK_CLOEXEC, 0, sv) != 0) vf_harness_fail("socketpair: %s", strerror(errno));
	int rv = nng_listener_set_int(v->l, NNG_OPT_SOCKET_FD, sv[0]);
	if (rv != 0) vf_harness_fail("NNG_OPT_SOCKET_FD: %s", nng_strerror(rv));
	return sv[1];
}

static size_t
udp_clamp(size_t v)
{
	return v == 0 || v > 65000 ? 65000 : v;
}

// what the endpoint (and every pipe it makes) must enforce when RECVMAXSZ is val
static size_t
limit_for(int tran, size_t val)
{
	return tran == T_UDP ? udp_clamp(val) : val;
}

static void
limit_violation(victim *v, const char *what, size_t got, size_t want)
{
	char key[160];
	snprintf(key, sizeof(key), "C11/limit-not-applied/%s/%s", tnames[v->tran], what);
	vf_violation(key, "%s/%s %s: NNG_OPT_RECVMAXSZ reads %zu although the value in force (%s) is %zu (socket %zu): the size limit configured by the application is not the one that protects this connection",
	    tnames[v->tran], v->vp->name, what, got, v->limsrc, want, v->sockmax);
}

// the endpoint that faces the hostile peer
static int
ep_get_size(victim *v, size_t *got)
{
	return v->dial ? nng_dialer_get_size(v->d, NNG_OPT_RECVMAXSZ, got) : nng_listener_get_size(v->l, NNG_OPT_RECVMAXSZ, got);
}
static int
ep_set_size(victim *v, size_t val)
{
	return v->dial ? nng_dialer_set_size(v->d, NNG_OPT_RECVMAXSZ, val) : nng_listener_set_size(v->l, NNG_OPT_RECVMAXSZ, val);
}

static void
ep_check_limit(victim *v)
{
	size_t got = 12345, want = limit_for(v->tran, v->recvmax);
	v->efflimit = want;
	atomic_store(&v->want_ep, (unsigned long) want);
	atomic_store(&v->want_sock, (unsigned long) limit_for(v->tran, v->sockmax));
	int rv = ep_get_size(v, &got);
	if (rv != 0) vf_harness_fail("get RECVMAXSZ of the %s endpoint: %s", vtn(v), nng_strerror(rv));
	vf_stat("limit_checks_endpoint", 1);
	if (got != want) limit_violation(v, v->dial ? "dialer" : "listener", got, want);
}

// sockmax: NNG_OPT_RECVMAXSZ of the socket; recvmax: the value in force on the
// endpoint that faces the hostile peer (set on the endpoint itself when the
// two differ); dial: the victim dials a raw listener of this harness
static void
victim_open(victim *v, const vproto *vp, int tran, size_t sockmax, size_t recvmax, int ttl, bool dial)
{
	int rv;
	memset(v, 0, sizeof(*v));
	v->vp      = vp;
	v->tran    = tran;
	v->recvmax = recvmax;
	v->sockmax = sockmax;
	v->limsrc  = sockmax == recvmax ? "sock" : "ep";
	v->dial    = dial;
	v->lfd     = -1;
	v->inst    = ++g_inst;
	v->cur_mut = "-";
	v->t_open  = vf_now_ns();
	if (dial && tran == T_SOCKFD) vf_harness_fail("socket:// cannot dial");
	if ((rv = vp->open(&v->s)) != 0) vf_harness_fail("open %s: %s", vp->name, nng_strerror(rv));
	if ((rv = nng_socket_set_size(v->s, NNG_OPT_RECVMAXSZ, sockmax)) != 0) vf_harness_fail("recvmaxsz: %s", nng_strerror(rv));
	nng_socket_set_ms(v->s, NNG_OPT_RECVTIMEO, 3);
	nng_socket_set_ms(v->s, NNG_OPT_SENDTIMEO, 200);
	nng_socket_set_ms(v->s, NNG_OPT_RECONNMINT, 1);
	nng_socket_set_ms(v->s, NNG_OPT_RECONNMAXT, 5);
	(void) nng_socket_set_int(v->s, NNG_OPT_MAXTTL, ttl);
	if (nng_socket_get_int(v->s, NNG_OPT_MAXTTL, &v->ttl) != 0) v->ttl = 8;
	if (!strcmp(vp->name, "sub")) nng_sub0_socket_subscribe(v->s, "", 0);
	if (!strcmp(vp->name, "surveyor")) nng_socket_set_ms(v->s, NNG_OPT_SURVEYOR_SURVEYTIME, 20000);
	if (!strcmp(vp->name, "req")) nng_socket_set_ms(v->s, NNG_OPT_REQ_RESENDTIME, NNG_DURATION_INFINITE);
	atomic_store(&v->want_ep, (unsigned long) limit_for(tran, recvmax));
	atomic_store(&v->want_sock, (unsigned long) limit_for(tran, sockmax));
	if (nng_pipe_notify(v->s, NNG_PIPE_EV_ADD_PRE, v_pipe_cb, v) != 0 ||
	    nng_pipe_notify(v->s, NNG_PIPE_EV_ADD_POST, v_pipe_cb, v) != 0 ||
	    nng_pipe_notify(v->s, NNG_PIPE_EV_REM_POST, v_pipe_cb, v) != 0) vf_harness_fail("pipe_notify");
	if (dial) {
		// the raw listener first, then a dialer that keeps coming back to it
		uint16_t port = 0;
		switch (tran) {
		case T_TCP:
		case T_WS:
			if ((v->lfd = vf_tcp_listen(&port)) < 0) vf_harness_fail("raw tcp listener: %s", strerror(errno));
			v->port = port;
			snprintf(v->url, sizeof(v->url), tran == T_TCP ? "tcp://127.0.0.1:%d" : "ws://127.0.0.1:%d/c11", v->port);
			break;
		case T_IPC:
			snprintf(v->ipcpath, sizeof(v->ipcpath), "/tmp/vf-c11-%d-%u.sock", (int) getpid(), v->inst);
			if ((v->lfd = vf_unix_listen(v->ipcpath)) < 0) vf_harness_fail("raw ipc listener: %s", strerror(errno));
			snprintf(v->url, sizeof(v->url), "ipc://%s", v->ipcpath);
			break;
		case T_UDP: {
			struct sockaddr_in sa;
			socklen_t          sl = sizeof(sa);
			memset(&sa, 0, sizeof(sa));
			sa.sin_family      = AF_INET;
			sa.sin_addr.s_addr = htonl(INADDR_LOOPBACK);
			if ((v->lfd = socket(AF_INET, SOCK_DGRAM | SOCK_CLOEXEC, 0)) < 0 || bind(v->lfd, (struct sockaddr *) &sa, sizeof(sa)) != 0 ||
			    getsockname(v->lfd, (struct sockaddr *) &sa, &sl) != 0) vf_harness_fail("raw udp socket: %s", strerror(errno));
			v->port = ntohs(sa.sin_port);
			snprintf(v->url, sizeof(v->url), "udp://127.0.0.1:%d", v->port);
			break;
		}
		}
		fd_nonblock(v->lfd);
		if ((rv = nng_dialer_create(&v->d, v->s, v->url)) != 0) vf_harness_fail("dialer_create %s: %s", v->url, nng_strerror(rv));
		atomic_store(&v->d_id, nng_dialer_id(v->d));
		if (sockmax != recvmax && (rv = ep_set_size(v, recvmax)) != 0) vf_harness_fail("dialer RECVMAXSZ %zu: %s", recvmax, nng_strerror(rv));
		ep_check_limit(v);
		if ((rv = nng_dialer_start(v->d, NNG_FLAG_NONBLOCK)) != 0) vf_harness_fail("dialer_start %s: %s", v->url, nng_strerror(rv));
		v->idle_since = vf_now_ns();
		return;
	}
	switch (tran) {
	case T_SOCKFD: snprintf(v->url, sizeof(v->url), "socket://"); break;
	case T_TCP: snprintf(v->url, sizeof(v->url), "tcp://127.0.0.1:0"); break;
	case T_IPC:
		snprintf(v->ipcpath, sizeof(v->ipcpath), "/tmp/vf-c11-%d-%u.sock", (int) getpid(), v->inst);
		snprintf(v->url, sizeof(v->url), "ipc://%s", v->ipcpath);
		break;
	case T_WS: snprintf(v->url, sizeof(v->url), "ws://127.0.0.1:0/c11"); break;
	case T_UDP: snprintf(v->url, sizeof(v->url), "udp://127.0.0.1:0"); break;
	}
	for (int attempt = 0;; attempt++) {
		if ((rv = nng_listener_create(&v->l, v->s, v->url)) != 0) vf_harness_fail("listener_create %s: %s", v->url, nng_strerror(rv));
		if (sockmax != recvmax && (rv = ep_set_size(v, recvmax)) != 0) vf_harness_fail("listener RECVMAXSZ %zu: %s", recvmax, nng_strerror(rv));
		if ((rv = nng_listener_start(v->l, 0)) == 0) break;
		// the shared machine can run out of ephemeral ports (TIME_WAIT):
		// fall back to explicit ports below the ephemeral range
		if (rv != NNG_EADDRINUSE || attempt > 60 || (tran != T_TCP && tran != T_WS && tran != T_UDP)) vf_harness_fail("listener_start %s: %s", v->url, nng_strerror(rv));
		nng_listener_close(v->l);
		int port = 10000 + (int) (vf_mix64(vf_now_ns() ^ ((uint64_t) getpid() << 20) ^ (uint64_t) attempt) % 22000);
		snprintf(v->url, sizeof(v->url), "%s://127.0.0.1:%d%s", tran == T_TCP ? "tcp" : tran == T_WS ? "ws" : "udp", port, tran == T_WS ? "/c11" : "");
		vf_stat("listen_port_retries", 1);
	}
	// The limit the decoder works with is the one the application asked for,
	// never what the library says it uses (udp: at most 65000 per datagram)
	ep_check_limit(v);
	if (tran == T_TCP || tran == T_WS || tran == T_UDP) {
		if ((rv = nng_listener_get_int(v->l, NNG_OPT_BOUND_PORT, &v->port)) != 0) vf_harness_fail("bound port: %s", nng_strerror(rv));
	}
}

// Change NNG_OPT_RECVMAXSZ on the live endpoint: connections made from now on
// get the new value, the ones that exist keep theirs.
static void
victim_change_limit(victim *v, size_t val)
{
	if (v->tran == T_UDP) return; // refused once started (NNG_EBUSY): nothing to observe
	int rv = ep_set_size(v, val);
	if (rv != 0) {
		vf_stat("limit_change_refused", 1);
		return;
	}
	v->recvmax = val;
	v->limsrc  = "chg";
	ep_check_limit(v);
	// a connection the dialer has already made (it waits in the raw listener's
	// queue) may carry the old value: it is given up before the next session
	v->idle_since = 0;
	vf_stat("limit_changes", 1);
}

static void
ctl_close(victim *v, int k)
{
	if (v->ctl[k].open) {
		// (a dialer left behind on the victim would dial the dead address for ever)
		if (v->ctl[k].has_vd) nng_dialer_close(v->ctl[k].vd);
		v->ctl[k].has_vd = false;
		nng_socket_close(v->ctl[k].s);
		if (v->ctl[k].ipcpath[0]) unlink(v->ctl[k].ipcpath);
		v->ctl[k].open = false;
	}
}

// Connect a well-behaved nng client to the victim's listener.  Returns false
// if it cannot get a pipe within 8 s.
static bool
ctl_connect(victim *v, int k)
{
	ctlsock *c = &v->ctl[k];
	int      rv;
	char     durl[160];
	memset(c, 0, sizeof(*c));
	if ((rv = v->vp->ctl_open(&c->s)) != 0) vf_harness_fail("ctl open: %s", nng_strerror(rv));
	c->open = true;
	nng_socket_set_ms(c->s, NNG_OPT_RECVTIMEO, 3);
	nng_socket_set_ms(c->s, NNG_OPT_SENDTIMEO, 200);
	nng_socket_set_ms(c->s, NNG_OPT_RECONNMINT, 5);
	nng_socket_set_ms(c->s, NNG_OPT_RECONNMAXT, 20);
	if (v->vp->ctl_open == nng_sub0_open) nng_sub0_socket_subscribe(c->s, "", 0);
	if (v->vp->ctl_open == nng_surveyor0_open) nng_socket_set_ms(c->s, NNG_OPT_SURVEYOR_SURVEYTIME, 2000);
	if (v->vp->ctl_open == nng_req0_open) nng_socket_set_ms(c->s, NNG_OPT_REQ_RESENDTIME, NNG_DURATION_INFINITE);
	nng_pipe_notify(c->s, NNG_PIPE_EV_ADD_POST, c_pipe_cb, c);
	nng_pipe_notify(c->s, NNG_PIPE_EV_REM_POST, c_pipe_cb, c);
	int post0 = atomic_load(&v->post);
	if (v->dial) {
		// the well-behaved peer listens and the victim's socket gets a second
		// dialer: "the other connections" of a dialing socket
		nng_listener cl;
		int          cport = 0;
		switch (v->tran) {
		case T_TCP: snprintf(durl, sizeof(durl), "tcp://127.0.0.1:0"); break;
		case T_WS: snprintf(durl, sizeof(durl), "ws://127.0.0.1:0/c11"); break;
		case T_UDP: snprintf(durl, sizeof(durl), "udp://127.0.0.1:0"); break;
		default:
			snprintf(c->ipcpath, sizeof(c->ipcpath), "/tmp/vf-c11-%d-%u-c%u.sock", (int) getpid(), v->inst, ++v->ctl_gen);
			snprintf(durl, sizeof(durl), "ipc://%s", c->ipcpath);
			break;
		}
		if ((rv = nng_listener_create(&cl, c->s, durl)) != 0 || (rv = nng_listener_start(cl, 0)) != 0) vf_harness_fail("ctl listen %s: %s", durl, nng_strerror(rv));
		if (v->tran != T_IPC) {
			if ((rv = nng_listener_get_int(cl, NNG_OPT_BOUND_PORT, &cport)) != 0) vf_harness_fail("ctl bound port: %s", nng_strerror(rv));
			snprintf(durl, sizeof(durl), "%s://127.0.0.1:%d%s", v->tran == T_TCP ? "tcp" : v->tran == T_WS ? "ws" : "udp", cport, v->tran == T_WS ? "/c11" : "");
		}
		if ((rv = nng_dialer_create(&c->vd, v->s, durl)) != 0 || (rv = nng_dialer_start(c->vd, NNG_FLAG_NONBLOCK)) != 0) vf_harness_fail("victim's dialer to the control listener %s: %s", durl, nng_strerror(rv));
		c->has_vd = true;
		if (!wait_atomic_ge(&c->add, 1, 8000, v)) return false;
		// (the hostile dialer gets no pipe unless a session is being played)
		if (!wait_atomic_ge(&v->post, post0 + 1, v->tran == T_UDP ? 300 : 8000, v)) return v->tran == T_UDP;
		return true;
	}
	if (v->tran == T_SOCKFD) {
		// socket:// has no dialer that would try again: when a single-peer
		// victim refuses the connection because a (dead, not yet noticed)
		// earlier peer still holds the slot, hand over a new socketpair
		nng_listener cl;
		pclock       cpc;
		pc_start(&cpc);
#define CC_LEFT() ((int64_t) 8000 - (int64_t) pc_ms(&cpc))
		if ((rv = nng_listener_create(&cl, c->s, "socket://")) != 0 || (rv = nng_listener_start(cl, 0)) != 0) vf_harness_fail("ctl sockfd: %s", nng_strerror(rv));
		for (;;) {
			int sv[2];
			int adds0 = atomic_load(&c->add), rems0 = atomic_load(&c->rem);
			if (socketpair(AF_UNIX, SOCK_STREAM | SOCK_CLOEXEC, 0, sv) != 0) vf_harness_fail("socketpair");
			if ((rv = nng_listener_set_int(cl, NNG_OPT_SOCKET_FD, sv[1])) != 0 ||
			    (rv = nng_listener_set_int(v->l, NNG_OPT_SOCKET_FD, sv[0])) != 0) vf_harness_fail("ctl sockfd: %s", nng_strerror(rv));
			int64_t left = CC_LEFT();
			if (left <= 0 || !wait_atomic_ge(&c->add, adds0 + 1, (int) left, v)) return false;
			// accepted by the victim's socket, or refused (its end is closed)?
			bool refused = false;
			for (;;) {
				if (atomic_load(&c->rem) != rems0) {
					refused = true;
					break;
				}
				if (atomic_load(&v->post) > post0) break;
				if (CC_LEFT() <= 0) return false;
				pump(v);
				vf_usleep(300);
			}
			if (!refused) {
				if (!v->vp->single) return true;
				// the ADD_POST may have been another (late) pipe's: a refusal
				// follows the acceptance at once
				uint64_t g = vf_now_ns() + 15ULL * 1000000ULL;
				while (vf_now_ns() < g && atomic_load(&c->rem) == rems0) vf_usleep(300);
				if (atomic_load(&c->rem) == rems0) return true;
			}
			if (CC_LEFT() <= 0) return false;
			vf_stat("control_refused_slot_taken_retry", 1);
			post0 = atomic_load(&v->post);
			settle(v, 300);
		}
	}
	switch (v->tran) {
	case T_TCP: snprintf(durl, sizeof(durl), "tcp://127.0.0.1:%d", v->port); break;
	case T_WS: snprintf(durl, sizeof(durl), "ws://127.0.0.1:%d/c11", v->port); break;
	case T_UDP: snprintf(durl, sizeof(durl), "udp://127.0.0.1:%d", v->port); break;
	default: snprintf(durl, sizeof(durl), "%s", v->url); break;
	}
	if ((rv = nng_dial(c->s, durl, NULL, NNG_FLAG_NONBLOCK)) != 0) vf_harness_fail("ctl dial %s: %s", durl, nng_strerror(rv));
	if (!wait_atomic_ge(&c->add, 1, 8000, v)) return false;
	if (v->tran == T_UDP) {
		// a dialer that happens to get the source port of an earlier client
		// whose pipe the victim still keeps (its DISC was not sent) is taken
		// for that peer refreshing: no new pipe on the victim's side.  The
		// exchange that follows decides whether the connection works.
		(void) wait_atomic_ge(&v->post, post0 + 1, 300, v);
		return true;
	}
	if (!wait_atomic_ge(&v->post, post0 + 1, 8000, v)) return false;
	return true;
}

static nng_msg *
ctl_msg(victim *v, uint32_t seq)
{
	nng_msg *m;
	uint8_t  b[16];
	if (nng_msg_alloc(&m, 0) != 0) vf_harness_fail("msg alloc");
	put_be32(b, MAGIC_CTL);
	put_be32(b + 4, v->inst);
	put_be32(b + 8, seq);
	put_be32(b + 12, 0x600df00d);
	nng_msg_append(m, b, 16);
	return m;
}

static bool
is_ctl(victim *v, nng_msg *m, uint32_t *seq)
{
	const uint8_t *b = nng_msg_body(m);
	if (nng_msg_len(m) != 16 || be32(b) != MAGIC_CTL || be32(b + 4) != v->inst) return false;
	*seq = be32(b + 8);
	return true;
}

// victim side: receive until the control message 'seq' shows up (hostile
// traffic met on the way goes through the oracle).  Returns it or NULL.
static nng_msg *
v_wait_ctl2(victim *v, uint32_t minseq, uint32_t seq, int ms);
static nng_msg *
v_wait_ctl(victim *v, uint32_t seq, int ms)
{
	return v_wait_ctl2(v, seq, seq, ms);
}
static nng_msg *
v_wait_ctl2(victim *v, uint32_t minseq, uint32_t seq, int ms)
{
	uint64_t end = vf_now_ns() + (uint64_t) ms * 1000000ULL;
	for (;;) {
		nng_msg *m = NULL;
		// never a timed receive: on REQ an expired receive abandons the request
		int      rv = v->vp->can_recv ? nng_recvmsg(v->s, &m, NNG_FLAG_NONBLOCK) : NNG_ENOTSUP;
		if (rv == 0) {
			uint32_t s;
			if (is_ctl(v, m, &s)) {
				if (s >= minseq && s <= seq) return m;
				nng_msg_free(m);
			} else {
				oracle_rx(v, m);
			}
			continue;
		}
		if (vf_now_ns() > end) return NULL;
		vf_usleep(150);
	}
}

// control side: drain; reply to requests when the victim is the requester.
static void
ctl_service(victim *v, int k)
{
	ctlsock *c = &v->ctl[k];
	if (!c->open) return;
	for (;;) {
		nng_msg *m = NULL;
		if (nng_recvmsg(c->s, &m, NNG_FLAG_NONBLOCK) != 0) return;
		uint32_t s;
		if (is_ctl(v, m, &s)) {
			if (s > c->seen_seq) c->seen_seq = s;
			if (v->vp->ck == CK_V2C_RR) {
				if (nng_sendmsg(c->s, m, 0) == 0) continue; // reply with the same body
			}
		}
		nng_msg_free(m);
	}
}

static int
v_send(victim *v, nng_msg *m)
{
	if (v->vp->raw && v->vp->ck == CK_V2C_RR) {
		nng_msg_header_append_u32(m, 0x80000000u | (++v->req_seq & 0x7fffffffu));
	}
	int rv = nng_sendmsg(v->s, m, NNG_FLAG_NONBLOCK);
	if (rv != 0) {
		if (vf_verbose) fprintf(stderr, "  v_send: %s\n", nng_strerror(rv));
		nng_msg_free(m);
	}
	return rv;
}

// One application level exchange that involves control client k and the
// victim.  Retries (lossy protocols, load balancing over two controls) for
// up to 6 s.
static bool exchange_(victim *v, int k, int *triesp);
static bool
exchange(victim *v, int k)
{
	uint64_t t0 = vf_now_ns();
	int      tries = 0;
	bool     ok = exchange_(v, k, &tries);
	vf_stat("exchange_tries", tries);
	vf_stat("exchanges", 1);
	if (vf_verbose > 1) fprintf(stderr, "  exchange k=%d ok=%d tries=%d %.1f ms\n", k, ok, tries, (double) (vf_now_ns() - t0) / 1e6);
	return ok;
}
static bool
exchange_(victim *v, int k, int *triesp)
{
	ctlsock *c   = &v->ctl[k];
	pclock   xpc;
	int      tries = 0;
	pc_start(&xpc);
	// udp: the transport hands a datagram that arrived while no receive was
	// pending to the protocol only when the next one arrives, so a message
	// may surface one retry late; any message of this exchange proves that
	// the connection works, and the reply leg is not demanded
	bool     udp  = v->tran == T_UDP;
	uint32_t seq0 = v->ctl_seq + 1;
	// the deadline is attempts as much as time: a slow machine gets its 12 tries
	uint64_t xms;
	while (((xms = pc_ms(&xpc)) < 6000 || tries < 12) && xms < 30000) {
		uint32_t seq = ++v->ctl_seq;
		uint32_t lo  = udp ? seq0 : seq;
		nng_msg *m;
		tries++;
		*triesp = tries;
		switch (v->vp->ck) {
		case CK_C2V_1W:
			m = ctl_msg(v, seq);
			if (nng_sendmsg(c->s, m, NNG_FLAG_NONBLOCK) != 0) nng_msg_free(m);
			if (udp) { // a second datagram flushes one that got parked in the transport
				m = ctl_msg(v, seq = ++v->ctl_seq);
				if (nng_sendmsg(c->s, m, NNG_FLAG_NONBLOCK) != 0) nng_msg_free(m);
			}
			if ((m = v_wait_ctl2(v, lo, seq, 15 + 15 * tries)) != NULL) {
				nng_msg_free(m);
				return true;
			}
			break;
		case CK_C2V_RR:
			m = ctl_msg(v, seq);
			if (nng_sendmsg(c->s, m, NNG_FLAG_NONBLOCK) != 0) nng_msg_free(m);
			if (udp) {
				m = ctl_msg(v, seq = ++v->ctl_seq);
				if (nng_sendmsg(c->s, m, NNG_FLAG_NONBLOCK) != 0) nng_msg_free(m);
			}
			if ((m = v_wait_ctl2(v, lo, seq, 15 + 15 * tries)) != NULL) {
				if (udp) {
					nng_msg_free(m);
					return true;
				}
				if (nng_sendmsg(v->s, m, 0) != 0) {
					nng_msg_free(m);
					break;
				}
				uint64_t e2 = vf_now_ns() + 1000ULL * 1000000ULL;
				while (vf_now_ns() < e2) {
					nng_msg *r = NULL;
					uint32_t s;
					if (nng_recvmsg(c->s, &r, NNG_FLAG_NONBLOCK) == 0) {
						bool ok = is_ctl(v, r, &s) && s == seq;
						nng_msg_free(r);
						if (ok) return true;
						continue;
					}
					pump(v);
					vf_usleep(150);
				}
			}
			break;
		case CK_V2C_1W: {
			(void) v_send(v, ctl_msg(v, seq));
			if (udp) (void) v_send(v, ctl_msg(v, seq = ++v->ctl_seq));
			uint64_t e2 = vf_now_ns() + (uint64_t) (15 + 15 * tries) * 1000000ULL;
			while (vf_now_ns() < e2) {
				ctl_service(v, 0);
				ctl_service(v, 1);
				if (c->seen_seq >= lo) return true;
				vf_usleep(300);
			}
			break;
		}
		case CK_V2C_RR: {
			(void) v_send(v, ctl_msg(v, seq));
			if (udp) (void) v_send(v, ctl_msg(v, seq = ++v->ctl_seq));
			uint64_t e2 = vf_now_ns() + (uint64_t) (15 + 15 * tries) * 1000000ULL;
			bool     replied = false;
			while (vf_now_ns() < e2) {
				ctl_service(v, 0);
				ctl_service(v, 1);
				if (udp && c->seen_seq >= lo) return true;
				if ((m = v_wait_ctl(v, seq, 3)) != NULL) {
					nng_msg_free(m);
					replied = true;
					break;
				}
			}
			if (vf_verbose) fprintf(stderr, "  xchg V2C_RR k=%d seq=%u replied=%d seen=%u/%u pre=%d rem=%d\n", k, seq, replied, v->ctl[0].seen_seq, v->ctl[1].seen_seq, atomic_load(&v->pre), atomic_load(&v->rem));
			if (replied && c->seen_seq >= seq) return true;
			if (udp && c->seen_seq >= lo) return true;
			break;
		}
		}
	}
	return false;
}

static void
victim_close(victim *v)
{
	pump(v);
	ctl_close(v, 0);
	ctl_close(v, 1);
	nng_socket_close(v->s);
	if (v->lfd >= 0) close(v->lfd);
	v->lfd = -1;
	if (v->ipcpath[0]) unlink(v->ipcpath);
	se_free_all(v);
}

// wait until the victim has digested everything that was sent so far: the
// library is quiescent and every pipe that was started for a connection the
// raw peer has closed is gone again.  A pipe that stays although its peer is
// gone ("zombie") is counted; once a transport has shown one, the wait for
// the others is short (the consequences - e.g. a PAIR socket that can never
// be paired again - are what the bystander oracle reports).
static bool zombie_seen[T_N];

static void
settle(victim *v, int ms)
{
	if (zombie_seen[v->tran] && ms > 150) ms = 150;
	if (v->tran == T_UDP && ms > 30) ms = 30;
	uint64_t end = vf_now_ns() + (uint64_t) ms * 1000000ULL;
	for (;;) {
		pump(v);
		// the socket's own pipe count is authoritative (ADD_PRE can fire for
		// a pipe whose removal was never announced when the peer left
		// before the pipe was started)
		int extra = 0;
		if (vf_quiesce(1, 30)) {
			extra = vf_pipe_count(v->s) - live_ctl(v) - v->lingering;
			if (extra < 0 && v->tran == T_UDP) {
				v->lingering += extra; // kept peers have expired meanwhile
				if (v->lingering < 0) v->lingering = 0;
			}
			if (extra <= 0) {
				pump(v);
				return;
			}
		}
		if (vf_now_ns() > end) {
			if (v->tran == T_UDP) {
				// udp peers that left without a DISC that arrived (the raw
				// peer on purpose, an nng client because its DISC is dropped
				// when the endpoint closes) stay until their keep-alive
				// expires: not judged, just accounted for
				if (extra > 0) vf_stat("udp_peers_kept_after_leaving", extra);
				v->lingering += extra;
				if (v->lingering < 0) v->lingering = 0;
			} else if (extra > 0) {
				vf_stat("zombie_pipes", extra);
				vf_class("zombie-pipe/%s/%s/%s", vtn(v), v->vp->name, v->cur_mut);
				v->lingering += extra;
				zombie_seen[v->tran] = true;
			} else {
				vf_stat("settle_timeouts", 1);
			}
			// not quiet, or a pipe without a peer: is something going round in circles?
			if ((v->tran != T_UDP || extra <= 0) && !v->in_probe) {
				v->in_probe = true;
				spin_probe(v, "settle-timeout", 40);
				v->in_probe = false;
			}
			if (vf_verbose) fprintf(stderr, "  settle timeout: pipes=%d pre=%d rem=%d live=%d inflight=%ld mut=%s\n", vf_pipe_count(v->s), atomic_load(&v->pre), atomic_load(&v->rem), live_ctl(v), vf_inflight(), v->cur_mut);
			return;
		}
		vf_usleep(500);
	}
}

static double
cpu_seconds(void)
{
	struct rusage ru;
	getrusage(RUSAGE_SELF, &ru);
	return (double) ru.ru_utime.tv_sec + (double) ru.ru_stime.tv_sec + ((double) ru.ru_utime.tv_usec + (double) ru.ru_stime.tv_usec) / 1e6;
}

// (5) no spin: CPU time used by the whole process while everything is idle.
// While the window is open the expire-loop events are sampled so that a
// violation can name the timer that keeps firing.
static _Atomic(uintptr_t) spin_last_cb;
static _Atomic long        spin_expired;
static void
spin_ev(int ev, const void *obj, uintptr_t a, uintptr_t b)
{
	(void) a;
	(void) b;
	if (ev == NNI_VE_AIO_EXPIRE) {
		const nni_aio *aio = obj;
		atomic_fetch_add(&spin_expired, 1);
#ifdef NNG_VERIF
		atomic_store(&spin_last_cb, (uintptr_t) aio->a_v_cb);
#else
		(void) aio;
#endif
	}
}

static void
spin_window(victim *v, const char *when)
{
	// the window must not start while the victim is still working off what
	// was sent (a flood read in small pieces keeps it busy for a while); if
	// it never gets quiet within 2 s the window measures exactly that
	uint64_t qend = vf_now_ns() + 2000ULL * 1000000ULL;
	while (vf_now_ns() < qend) {
		pump(v);
		if (vf_quiesce(3, 40)) break;
	}
	long e0 = vf_ev_count(NNI_VE_AIO_EXPIRE), t0e = vf_ev_count(NNI_VE_TASK_ENQ), p0 = vf_ev_count(NNI_VE_POLL_BEGIN);
	atomic_store(&spin_expired, 0);
#if !defined(__SANITIZE_THREAD__)
	vf_ev_hook(spin_ev);
#endif
	double   c0 = cpu_seconds();
	uint64_t t0 = vf_now_ns();
	vf_msleep(150);
	double c1   = cpu_seconds();
	double wall = (double) (vf_now_ns() - t0) / 1e9;
#if !defined(__SANITIZE_THREAD__)
	vf_ev_hook(NULL);
#endif
	vf_stat("spin_windows", 1);
	vf_stat(g_trunc ? "spin_windows_trunc" : "spin_windows_mut", 1);
	if (c1 - c0 > 0.30 * 0.150 && c1 - c0 > 0.30 * wall) {
		char    key[160], who[128] = "?";
		Dl_info di;
		uintptr_t cb = atomic_load(&spin_last_cb);
		if (cb != 0 && dladdr((void *) cb, &di) != 0) {
			snprintf(who, sizeof(who), "%s+0x%lx", di.dli_sname ? di.dli_sname : "exe", (unsigned long) (cb - (uintptr_t) (di.dli_sname ? di.dli_saddr : di.dli_fbase)));
		}
		long nexp = vf_ev_count(NNI_VE_AIO_EXPIRE) - e0, npoll = vf_ev_count(NNI_VE_POLL_BEGIN) - p0;
		snprintf(key, sizeof(key), "C11/spin/%s/%s", vtn(v), nexp > 500 ? "timer-storm" : npoll > 500 ? "poller-storm" : "other");
		vf_class("spin/%s/%s/%s/%s", vtn(v), v->vp->name, when, v->cur_mut);
		vf_violation(key, "%s: process used %.0f ms of CPU in a %.0f ms idle window %s (mutation %s); meanwhile %ld timers expired (last callback %s), %ld tasks were dispatched, the pollers woke %ld times",
		    v->vp->name, (c1 - c0) * 1e3, wall * 1e3, when, v->cur_mut, vf_ev_count(NNI_VE_AIO_EXPIRE) - e0, who, vf_ev_count(NNI_VE_TASK_ENQ) - t0e, vf_ev_count(NNI_VE_POLL_BEGIN) - p0);
	}
	pump(v);
}

// Cheap look for the same thing: a short idle window whose only consequence is
// that the real one (above) is opened.  It is more sensitive than the verdict
// (25 % of a core) so that it never hides what the window would report.
static void
spin_probe(victim *v, const char *when, int ms)
{
	uint64_t qend = vf_now_ns() + 500ULL * 1000000ULL;
	while (vf_now_ns() < qend) {
		pump(v);
		if (vf_quiesce(2, 20)) break;
	}
	double   c0 = cpu_seconds();
	uint64_t t0 = vf_now_ns();
	vf_msleep(ms);
	double c1   = cpu_seconds();
	double wall = (double) (vf_now_ns() - t0) / 1e9;
	vf_stat("spin_probes", 1);
	vf_stat(g_trunc ? "spin_probes_trunc" : "spin_probes_mut", 1);
	if (c1 - c0 > 0.25 * wall) {
		vf_stat("spin_probes_suspicious", 1);
		spin_window(v, when);
	}
	pump(v);
}

static void
diag(victim *v, const char *what)
{
	fprintf(stderr, "  DIAG %s: %s/%s mut=%s session age %.2f s, max scheduling delay %.0f ms, udp inactivity expiries +%ld, DISC received by reason:", what, vtn(v), v->vp->name, v->cur_mut,
	    (double) (vf_now_ns() - v->sess_t0) / 1e9, (double) atomic_load(&tick_max_over_ns) / 1e6, atomic_load(&log_udp_inactive) - v->inact0);
	for (int i = 0; i < 16; i++) {
		long d = atomic_load(&log_udp_disc[i]) - v->disc0[i];
		if (d) fprintf(stderr, " %d:+%ld", i, d);
	}
	fprintf(stderr, "; victim pipes %d (own clients %d, kept %d) pre=%d rem=%d ctl add/rem %d/%d %d/%d\n", vf_pipe_count(v->s), live_ctl(v), v->lingering, atomic_load(&v->pre), atomic_load(&v->rem),
	    atomic_load(&v->ctl[0].add), atomic_load(&v->ctl[0].rem), atomic_load(&v->ctl[1].add), atomic_load(&v->ctl[1].rem));
	log_dump(v->sess_t0 > 3000000000ULL ? v->sess_t0 - 3000000000ULL : 0);
	if (getenv("C11_DIAG_STACKS") != NULL) {
		char cmd[256];
		nng_stat *st = NULL;
		if (nng_stats_get(&st) == 0) {
			const nng_stat *ss = nng_stat_find_socket(st, v->s);
			if (ss != NULL) nng_stats_dump(ss);
			fflush(stdout);
			nng_stats_free(st);
		}
		snprintf(cmd, sizeof(cmd), "gdb -q -batch -p %d -ex 'thread apply all bt 12' 2>&1 | grep -v '^\\[New\\|^Reading\\|^warning' | head -300 >&2", (int) getpid());
		int rc = system(cmd);
		(void) rc;
	}
}

// from now on this client is a bystander that must stay connected
static void
ctl_mark_established(ctlsock *c)
{
	c->rem_base = atomic_load(&c->rem);
	c->t_conn   = vf_now_ns();
	for (int i = 0; i < 16; i++) c->disc_base[i] = atomic_load(&log_udp_disc[i]);
}

// The process was not being run for a long stretch during this session (the
// 1 ms ticker overslept by more than 0.7 s): a missed wall-clock deadline then
// says nothing about the library.
static long g_starved, g_sessions;
static void
note_starved(void)
{
	g_starved++;
	vf_stat("starved_observations_discarded", 1);
}

static bool
starved(void)
{
	uint64_t last = atomic_load(&tick_last_ns), now = vf_now_ns();
	if (last != 0 && now > last && now - last > 700000000ULL) return true; // the ticker has not even run again yet
	return atomic_load(&tick_max_over_ns) > 700000000ULL;
}

// udp only: why did a well-behaved client lose its connection?  The transport
// logs it.  Keep-alive expiry (either side gave the other up for silence:
// lost or late datagrams, which udp does not promise to deliver) is not the
// victim dropping a bystander; a DISC with a protocol reason is.
static int
udp_loss_reason(victim *v, ctlsock *c, char *why, size_t sz)
{
	long bad = 0;
	static const int badr[] = { 1, 3, 4, 5, 7, 8 }; // TYPE, REFUSED, MSGSIZE, NEGO, PROTO, NOBUF
	for (int i = 0; i < 6; i++) bad += atomic_load(&log_udp_disc[badr[i]]) - c->disc_base[badr[i]];
	bool ka = udp_inactive_seen(atomic_load(&c->lport), c->t_conn) || udp_inactive_seen(v->dial ? atomic_load(&c->pport) : v->port, c->t_conn) ||
	    atomic_load(&log_udp_disc[6]) - c->disc_base[6] > 0;
	snprintf(why, sz, "inactivity expiry of this connection %s, DISC with a protocol reason received by a client: %ld", ka ? "logged" : "not logged", bad);
	if (bad > 0) return 2;
	return ka ? 0 : 1;
}

// (4) bystanders: the old control still works and was not disconnected; a
// new client can connect and work.  attacker_present: a hostile connection is
// still open (hold sessions).
static void
check_bystanders(victim *v, bool do_new, bool attacker_present)
{
	char          key[160], why[200];
	const vproto *vp  = v->vp;
	int           o   = v->oldk;
	bool          udp = v->tran == T_UDP;
	if (v->ctl[o].open) {
		ctlsock *c = &v->ctl[o];
		if (atomic_load(&c->rem) != c->rem_base) {
			int r = udp ? udp_loss_reason(v, c, why, sizeof(why)) : 2;
			if (udp && r == 0) {
				// keep-alive expiry: inconclusive, go on with a fresh client
				vf_stat("udp_bystander_lost_to_keepalive_expiry", 1);
				vf_class("inconclusive/udp-keepalive-expiry/%s", vp->name);
			} else if (udp && starved()) {
				note_starved();
			} else {
				snprintf(key, sizeof(key), "C11/bystander-dropped/%s/%s", vtn(v), vp->name);
				vf_violation(key, "the well-behaved control connection was disconnected (mutation %s)%s%s", v->cur_mut, udp ? "; " : "", udp ? why : "");
				diag(v, "bystander-dropped");
			}
			ctl_close(v, o);
			if (udp && !attacker_present) do_new = true;
		} else if (!exchange(v, o)) {
			bool judged = false;
			if (udp) {
				// the datagrams of this connection do not get through: is it
				// the connection (udp may lose it) or the listener?
				int r = udp_loss_reason(v, c, why, sizeof(why));
				if (r == 2) {
					snprintf(key, sizeof(key), "C11/bystander-dropped/%s/%s", vtn(v), vp->name);
					vf_violation(key, "the well-behaved control connection was refused by the victim (mutation %s); %s", v->cur_mut, why);
					diag(v, "bystander-refused");
					judged = true;
				}
				ctl_close(v, o);
				if (!judged && !(vp->single && attacker_present)) {
					if (ctl_connect(v, o) && exchange(v, o)) {
						vf_stat("udp_bystander_stalled_fresh_client_ok", 1);
						vf_class("inconclusive/udp-connection-stalled/%s", vp->name);
						ctl_mark_established(&v->ctl[o]);
						judged = true;
					} else if (starved()) {
						note_starved();
						ctl_close(v, o);
						judged = true;
					}
				} else if (!judged) {
					vf_stat("udp_bystander_stalled_not_retried", 1);
					judged = true;
				}
				if (!judged) {
					snprintf(key, sizeof(key), "C11/control-old/%s/%s", vtn(v), vp->name);
					vf_violation(key, "neither the control client connected before the session nor a fresh one can complete an exchange (12+ attempts, 6+ s each) after mutation %s; %s", v->cur_mut, why);
					diag(v, "control-old");
					ctl_close(v, o);
					v->wedged = true;
				}
			} else if (starved()) {
				note_starved();
				ctl_close(v, o);
			} else {
				snprintf(key, sizeof(key), "C11/control-old/%s/%s", vtn(v), vp->name);
				vf_violation(key, "control client connected before the session cannot complete an exchange (12+ attempts in 6+ s) after mutation %s", v->cur_mut);
				diag(v, "control-old");
				ctl_close(v, o);
			}
		} else {
			vf_stat("control_old_ok", 1);
		}
	}
	if (!do_new) return;
	if (vp->single && udp && v->ctl[o].open) return; // a closing nng udp client's DISC is not reliably sent: the slot stays taken for its keep-alive time
	if (vp->single) {
		if (attacker_present) return; // the slot is legitimately taken
		ctl_close(v, o);
		settle(v, 5000);
	}
	int k = v->ctl[o].open ? 1 - o : o;
	uint64_t tc0 = vf_now_ns();
	bool     cok = ctl_connect(v, k);
	vf_stat("us_ctl_connect", (long) ((vf_now_ns() - tc0) / 1000));
	if (!cok) {
		ctl_close(v, k);
		if (starved()) {
			note_starved();
			return;
		}
		snprintf(key, sizeof(key), "C11/control-new/connect/%s/%s", vtn(v), vp->name);
		vf_violation(key, "a new well-behaved client cannot connect within 8 s after mutation %s (pipes started %d, removed %d, own clients %d)", v->cur_mut, atomic_load(&v->pre), atomic_load(&v->rem), live_ctl(v));
		diag(v, "control-new/connect");
		v->wedged = true;
		return;
	}
	tc0 = vf_now_ns();
	bool xok = exchange(v, k);
	vf_stat("us_ctl_new_exchange", (long) ((vf_now_ns() - tc0) / 1000));
	if (!xok && udp && !starved()) {
		// one more fresh connection before the listener is blamed: this one
		// may have lost its first datagrams
		ctl_close(v, k);
		xok = ctl_connect(v, k) && exchange(v, k);
		if (xok) vf_stat("udp_new_client_second_attempt_ok", 1);
	}
	if (!xok) {
		ctl_close(v, k);
		if (starved()) {
			note_starved();
			return;
		}
		snprintf(key, sizeof(key), "C11/control-new/exchange/%s/%s", vtn(v), vp->name);
		vf_violation(key, "a new well-behaved client connected but cannot complete an exchange (12+ attempts in 6+ s) after mutation %s", v->cur_mut);
		diag(v, "control-new/exchange");
		return;
	}
	vf_stat("control_new_ok", 1);
	// the new client replaces the old one; from now on it must stay connected
	ctl_mark_established(&v->ctl[k]);
	if (k != o) {
		ctl_close(v, o);
		v->oldk = k;
	}
}

// ---------------------------------------------------------------- session plans
enum { H_NAT = 0, H_NONE, H_TRUNC, H_NOTERM, H_HOPS, H_ALLHI, H_WORD };
enum { L_EXACT = 0, L_VALUE, L_PLUS, L_MINUS };
enum { END_FIN = 0, END_RST, END_SHUTWR, END_HOLD, END_N };
static const char *endnames[END_N] = { "fin", "rst", "shutwr", "hold" };

typedef struct {
	int      hk, n;
	uint32_t w;
	size_t   blen;
	bool     body7;
	int      lk;
	uint64_t lv;
	bool     nodata;
	uint8_t  ipc_type;
	bool     id_wrong, id_low;
	// websocket / udp specific knobs (see the transport sections)
	int      x_kind;
	uint32_t x_arg;
} fspec;

#define MAXFR 260
typedef struct {
	uint8_t hs[16];
	size_t  hslen;
	fspec   fr[MAXFR];
	int     nfr;
	size_t  garbage;
	long    cut; // -1: none
	int     endact;
	int     chunk; // 0 one write, 1 random pieces, 2 byte by byte
	bool    wait_pipe_first;
	char    mut[48];
	int     x_http; // ws: http level mutation; udp: UM_ mutation
	int     x_dgram; // udp truncation: 0 = the CREQ, j+1 = data datagram j
	size_t  x_dglen;
	bool    big;
	int     halfopen; // stream: that many more connections that never finish their handshake
} plan;

static void
render_payload(const victim *v, const fspec *f, uint32_t serial, int j, uint32_t id, vf_rng *r, bbuf *out)
{
	uint8_t w4[4];
	switch (f->hk) {
	case H_NAT:
		switch (v->vp->hm) {
		case HM_BT:
		case HM_BT_NOTTL: {
			int lim = v->ttl < 3 ? v->ttl : 3;
			int k   = 1 + (j % (lim > 0 ? lim : 1));
			for (int i = 0; i < k; i++) {
				uint32_t w = (uint32_t) vf_rand(r);
				w = i == k - 1 ? (w | 0x80000000u) : (w & 0x7fffffffu);
				put_be32(w4, w);
				bb_add(out, w4, 4);
			}
			break;
		}
		case HM_ID4: {
			uint32_t w = id ? id : 0x80000001u;
			if (f->id_wrong) w ^= 0x00010001u;
			if (f->id_low) w &= 0x7fffffffu;
			put_be32(w4, w);
			bb_add(out, w4, 4);
			break;
		}
		case HM_HOP:
			put_be32(w4, 1);
			bb_add(out, w4, 4);
			break;
		default:
			break;
		}
		break;
	case H_NONE:
		break;
	case H_TRUNC:
		for (int i = 0; i < f->n; i++) bb_u8(out, (uint8_t) (0x80 | i));
		return;
	case H_NOTERM:
		for (int i = 0; i < f->n; i++) {
			put_be32(w4, (uint32_t) vf_rand(r) & 0x7fffffffu);
			bb_add(out, w4, 4);
		}
		break;
	case H_HOPS:
		for (int i = 0; i <= f->n; i++) {
			uint32_t w = (uint32_t) vf_rand(r);
			w = i == f->n ? (w | 0x80000000u) : (w & 0x7fffffffu);
			put_be32(w4, w);
			bb_add(out, w4, 4);
		}
		break;
	case H_ALLHI:
		for (int i = 0; i < f->n; i++) {
			put_be32(w4, (uint32_t) vf_rand(r) | 0x80000000u);
			bb_add(out, w4, 4);
		}
		break;
	case H_WORD:
		put_be32(w4, f->w);
		bb_add(out, w4, 4);
		break;
	}
	if (f->blen > 0) {
		size_t   start = out->n;
		uint8_t  tag[TAGLEN];
		uint8_t *tmp = malloc(f->blen);
		put_be32(tag, MAGIC_DATA);
		put_be32(tag + 4, enc7(serial));
		tag[8]  = (uint8_t) ((j >> 8) & 0x7f);
		tag[9]  = (uint8_t) (j & 0x7f);
		tag[10] = (uint8_t) ((f->blen >> 8) & 0x7f);
		tag[11] = (uint8_t) (f->blen & 0x7f);
		vf_fill(tmp, f->blen, ((uint64_t) v->inst << 40) ^ ((uint64_t) serial << 12) ^ (uint64_t) j);
		if (f->blen >= TAGLEN) {
			memcpy(tmp, tag, TAGLEN);
		} else if (f->blen >= 4) {
			// short tag: still unique per (session, frame)
			tmp[0] = 'C';
			tmp[1] = (uint8_t) ((serial >> 7) & 0x7f);
			tmp[2] = (uint8_t) (serial & 0x7f);
			tmp[3] = (uint8_t) (j & 0x7f);
		} else {
			memcpy(tmp, tag, f->blen); // 0..3 bytes: ambiguous, matched without ordering
		}
		if (f->body7) {
			for (size_t i = 0; i < f->blen; i++) tmp[i] &= 0x7f;
		}
		bb_add(out, tmp, f->blen);
		free(tmp);
		(void) start;
	}
}

static uint64_t
frame_len_field(const fspec *f, size_t plen)
{
	switch (f->lk) {
	case L_VALUE: return f->lv;
	case L_PLUS: return (uint64_t) plen + f->lv;
	case L_MINUS: return f->lv >= plen ? 0 : (uint64_t) plen - f->lv;
	default: return (uint64_t) plen;
	}
}

// bytes of a stream session after the handshake
static void
render_stream(const victim *v, const plan *pl, uint32_t serial, uint32_t id, vf_rng *r, bbuf *out)
{
	bb_add(out, pl->hs, pl->hslen);
	if (pl->garbage) {
		for (size_t i = 0; i < pl->garbage; i++) bb_u8(out, (uint8_t) vf_rand(r));
	}
	for (int j = 0; j < pl->nfr; j++) {
		const fspec *f = &pl->fr[j];
		bbuf         pay = { 0 };
		uint8_t      l8[8];
		render_payload(v, f, serial, j, id, r, &pay);
		if (v->tran == T_IPC) bb_u8(out, f->ipc_type);
		put_be64(l8, frame_len_field(f, pay.n));
		bb_add(out, l8, 8);
		if (!f->nodata) bb_add(out, pay.p, pay.n);
		free(pay.p);
	}
}

// the mutation catalogue for SP stream sessions
enum {
	M_VALID = 0,
	M_HS_MAGIC0, M_HS_MAGICS, M_HS_MAGICP, M_HS_MAGIC3, M_HS_RSVD6, M_HS_RSVD7,
	M_HS_PROTO_WRONG, M_HS_PROTO_SELF, M_HS_PROTO_ZERO, M_HS_ZERO, M_HS_RANDOM, M_HS_TWICE,
	M_LEN_0, M_LEN_1, M_LEN_MAXM1, M_LEN_MAX, M_LEN_MAXP1, M_LEN_MAXP1_NODATA,
	M_LEN_2_32, M_LEN_2_60M1, M_LEN_2_60, M_LEN_2_63, M_LEN_2_64M1, M_LEN_MORE, M_LEN_LESS,
	M_HDR_MISSING, M_HDR_TRUNC, M_HDR_NOTERM, M_HDR_HOPS, M_HDR_ALLHI, M_HDR_FFFFFFFF,
	M_HDR_80000000, M_HDR_7FFFFFFF, M_HDR_HOP0, M_HDR_HOPTTL, M_HDR_HOPTTLP1, M_HDR_HOP255,
	M_HDR_HOP256, M_HDR_HOPBIG, M_HDR_ID_WRONG, M_HDR_ID_LOW, M_HDR_ID_DUP,
	M_IPC_TYPE0, M_IPC_TYPE2, M_IPC_TYPEFF,
	M_GARBAGE, M_FLOOD_EMPTY, M_FLOOD_SMALL, M_BIG_VALID, M_TRUNC_RANDOM, M_HALFOPEN,
	M_STREAM_N
};
static const char *mutnames[M_STREAM_N] = {
	"valid",
	"hs-magic0", "hs-magicS", "hs-magicP", "hs-magic3", "hs-rsvd6", "hs-rsvd7",
	"hs-proto-wrong", "hs-proto-self", "hs-proto-zero", "hs-zero", "hs-random", "hs-twice",
	"len-0", "len-1", "len-max-1", "len-max", "len-max+1", "len-max+1-nodata",
	"len-2^32", "len-2^60-1", "len-2^60", "len-2^63", "len-2^64-1", "len-more-than-sent", "len-less-than-sent",
	"hdr-missing", "hdr-trunc", "hdr-noterm", "hdr-hops", "hdr-allhigh", "hdr-ffffffff",
	"hdr-80000000", "hdr-7fffffff", "hdr-hop0", "hdr-hop-ttl", "hdr-hop-ttl+1", "hdr-hop255",
	"hdr-hop256", "hdr-hop-big", "hdr-id-wrong", "hdr-id-lowbit", "hdr-id-dup",
	"ipc-type0", "ipc-type2", "ipc-typeff",
	"garbage", "flood-empty", "flood-small", "big-valid", "trunc-random", "halfopen-crowd",
};

// largest header the natural frames of this victim carry
static size_t
nat_hdr_max(const victim *v)
{
	switch (v->vp->hm) {
	case HM_BT:
	case HM_BT_NOTTL: return 12;
	case HM_ID4:
	case HM_HOP: return 4;
	default: return 0;
	}
}

static void
plan_valid(const victim *v, plan *pl, vf_rng *r, int nfr)
{
	memset(pl, 0, sizeof(*pl));
	vf_sp_hello(pl->hs, v->vp->peer);
	pl->hslen = 8;
	pl->nfr   = nfr;
	pl->cut   = -1;
	size_t room = v->efflimit ? v->efflimit - nat_hdr_max(v) : 4096;
	for (int j = 0; j < nfr; j++) {
		fspec *f    = &pl->fr[j];
		f->hk       = H_NAT;
		f->ipc_type = 1;
		f->blen     = vf_chance(r, 1, 6) ? vf_below(r, TAGLEN) : TAGLEN + vf_below(r, 29);
		if (f->blen > room) f->blen = room;
	}
	pl->endact          = (int) vf_below(r, END_N);
	pl->chunk           = (int) vf_below(r, 3);
	pl->wait_pipe_first = vf_chance(r, 1, 2);
	snprintf(pl->mut, sizeof(pl->mut), "valid");
}

// Apply stream mutation m.  Returns false if it does not apply to this
// victim (caller picks another).
static bool
plan_mutate(const victim *v, plan *pl, vf_rng *r, int m)
{
	int      nfr = 3;
	size_t   mx  = v->tran == T_UDP ? v->efflimit : v->recvmax;
	const vproto *vp = v->vp;
	plan_valid(v, pl, r, nfr);
	int    j = (int) vf_below(r, (uint32_t) nfr);
	fspec *f = &pl->fr[j];
	snprintf(pl->mut, sizeof(pl->mut), "%s", mutnames[m]);
	switch (m) {
	case M_VALID: break;
	case M_HS_MAGIC0: pl->hs[0] = (uint8_t) (1 + vf_below(r, 255)); break;
	case M_HS_MAGICS: pl->hs[1] = 'X'; break;
	case M_HS_MAGICP: pl->hs[2] = 'Q'; break;
	case M_HS_MAGIC3: pl->hs[3] = 1; break;
	case M_HS_RSVD6: pl->hs[6] = (uint8_t) (1 + vf_below(r, 255)); break;
	case M_HS_RSVD7: pl->hs[7] = (uint8_t) (1 + vf_below(r, 255)); break;
	case M_HS_PROTO_WRONG: {
		uint16_t p = (uint16_t) vf_rand(r);
		if (p == vp->peer) p ^= 0x100;
		pl->hs[4] = (uint8_t) (p >> 8);
		pl->hs[5] = (uint8_t) p;
		break;
	}
	case M_HS_PROTO_SELF:
		if (vp->self == vp->peer) return false;
		pl->hs[4] = (uint8_t) (vp->self >> 8);
		pl->hs[5] = (uint8_t) vp->self;
		break;
	case M_HS_PROTO_ZERO: pl->hs[4] = pl->hs[5] = 0; break;
	case M_HS_ZERO: memset(pl->hs, 0, 8); break;
	case M_HS_RANDOM:
		for (int i = 0; i < 8; i++) pl->hs[i] = (uint8_t) vf_rand(r);
		if (pl->hs[1] == 'S') pl->hs[1] = 's';
		break;
	case M_HS_TWICE:
		memcpy(pl->hs + 8, pl->hs, 8);
		pl->hslen = 16;
		break;
	// A length smaller than what follows desynchronises the stream: the next
	// "length" is made of payload bytes (e.g. 00 00 00 0e 43 31 31 64 = 60 GB
	// after a pair1 hop word).  With RECVMAXSZ 0 the library rightly tries to
	// allocate that, and the accounting allocator touches it: only with a limit.
	case M_LEN_0: if (!mx && v->tran <= T_IPC) return false; f->lk = L_VALUE; f->lv = 0; break;
	case M_LEN_1: if (!mx && v->tran <= T_IPC) return false; f->lk = L_VALUE; f->lv = 1; break;
	case M_LEN_MAXM1:
	case M_LEN_MAX:
	case M_BIG_VALID: {
		// a complete frame of exactly that size
		size_t want = mx ? mx : 8192;
		if (m == M_LEN_MAXM1) want -= 1;
		if (m == M_BIG_VALID) want = mx ? mx - vf_below(r, 8) : 60000 + vf_below(r, 20000);
		if (v->tran == T_UDP && want > 65000) want = 65000 - (m == M_LEN_MAXM1);
		f->hk   = H_NAT;
		f->blen = want - (vp->hm == HM_BT || vp->hm == HM_BT_NOTTL ? 4 * (1 + (size_t) (j % (v->ttl < 3 ? v->ttl : 3))) : nat_hdr_max(v));
		pl->big = want > 100000;
		if (pl->big) pl->chunk = 0;
		break;
	}
	case M_LEN_MAXP1: {
		// one byte too many, all of it really sent
		size_t want = (mx ? mx : 0) + 1;
		if (!mx) return false;
		if (v->tran == T_UDP && mx > 65000) return false;
		f->hk   = H_NAT;
		f->blen = want - (vp->hm == HM_BT || vp->hm == HM_BT_NOTTL ? 4 * (1 + (size_t) (j % (v->ttl < 3 ? v->ttl : 3))) : nat_hdr_max(v));
		pl->big = want > 100000;
		if (pl->big) pl->chunk = 0;
		break;
	}
	case M_LEN_MAXP1_NODATA:
		if (!mx) return false;
		f->lk = L_VALUE; f->lv = (uint64_t) mx + 1; f->nodata = true;
		pl->nfr = j + 1;
		break;
	case M_LEN_2_32: if (!mx) return false; f->lk = L_VALUE; f->lv = UINT64_C(1) << 32; break;
	case M_LEN_2_60M1: if (!mx) return false; f->lk = L_VALUE; f->lv = (UINT64_C(1) << 60) - 1; break;
	case M_LEN_2_60: f->lk = L_VALUE; f->lv = UINT64_C(1) << 60; break;
	case M_LEN_2_63: f->lk = L_VALUE; f->lv = UINT64_C(1) << 63; break;
	case M_LEN_2_64M1: f->lk = L_VALUE; f->lv = UINT64_MAX; break;
	case M_LEN_MORE:
		f->lk = L_PLUS; f->lv = 1 + vf_below(r, mx ? 20 : 60000);
		pl->nfr = j + 1; // nothing follows: the frame stays incomplete
		break;
	case M_LEN_LESS: if (!mx && v->tran <= T_IPC) return false; f->lk = L_MINUS; f->lv = 1 + vf_below(r, 12); break;
	case M_HDR_MISSING: f->hk = H_NONE; break;
	case M_HDR_TRUNC: f->hk = H_TRUNC; f->n = 1 + (int) vf_below(r, 3); f->blen = 0; break;
	case M_HDR_NOTERM: {
		// boundary biased: around the ttl, around the header capacity (16 words)
		int c[] = { 1, v->ttl - 1, v->ttl, v->ttl + 1, 15, 16, 17, 20, 1 + (int) vf_below(r, 20) };
		f->hk = H_NOTERM; f->n = c[vf_below(r, 9)]; if (f->n < 1) f->n = 1; f->body7 = true;
		break;
	}
	case M_HDR_HOPS: {
		// n non-terminal words + the terminal one: n+1 == ttl is the last accepted
		int c[] = { 0, 1, v->ttl - 2, v->ttl - 1, v->ttl, v->ttl + 1, 14, 15, 16, 20, (int) vf_below(r, 21) };
		f->hk = H_HOPS; f->n = c[vf_below(r, 11)]; if (f->n < 0) f->n = 0;
		break;
	}
	case M_HDR_ALLHI: f->hk = H_ALLHI; f->n = 1 + (int) vf_below(r, 5); break;
	case M_HDR_FFFFFFFF: f->hk = H_WORD; f->w = 0xffffffffu; break;
	case M_HDR_80000000: f->hk = H_WORD; f->w = 0x80000000u; break;
	case M_HDR_7FFFFFFF: f->hk = H_WORD; f->w = 0x7fffffffu; f->body7 = true; break;
	case M_HDR_HOP0: f->hk = H_WORD; f->w = 0; break;
	case M_HDR_HOPTTL: f->hk = H_WORD; f->w = (uint32_t) v->ttl; break;
	case M_HDR_HOPTTLP1: f->hk = H_WORD; f->w = (uint32_t) v->ttl + 1; break;
	case M_HDR_HOP255: f->hk = H_WORD; f->w = 255; break;
	case M_HDR_HOP256: f->hk = H_WORD; f->w = 256; break;
	case M_HDR_HOPBIG: f->hk = H_WORD; f->w = 0x100u << vf_below(r, 23); break;
	case M_HDR_ID_WRONG: if (vp->hm != HM_ID4) return false; f->id_wrong = true; break;
	case M_HDR_ID_LOW: if (vp->hm != HM_ID4) return false; f->id_low = true; break;
	case M_HDR_ID_DUP: if (vp->hm != HM_ID4) return false; break; // all three frames carry the id
	case M_IPC_TYPE0: if (v->tran != T_IPC) return false; f->ipc_type = 0; break;
	case M_IPC_TYPE2: if (v->tran != T_IPC) return false; f->ipc_type = 2; break;
	case M_IPC_TYPEFF: if (v->tran != T_IPC) return false; f->ipc_type = 0xff; break;
	case M_GARBAGE: pl->garbage = 1 + vf_below(r, 64); break;
	case M_FLOOD_EMPTY:
		pl->nfr = 200;
		for (int i = 0; i < pl->nfr; i++) { pl->fr[i] = pl->fr[0]; pl->fr[i].hk = H_NONE; pl->fr[i].blen = 0; }
		break;
	case M_FLOOD_SMALL:
		pl->nfr = 100;
		for (int i = 3; i < pl->nfr; i++) pl->fr[i] = pl->fr[i % 3];
		break;
	case M_TRUNC_RANDOM: pl->cut = -2; break; // resolved after rendering
	case M_HALFOPEN:
		// other connections that stop inside their handshake while this
		// (valid) one negotiates and talks; some go away meanwhile
		if (v->dial || v->tran > T_IPC) return false;
		pl->halfopen = 2 + (int) vf_below(r, 5);
		break;
	default: return false;
	}
	// frames that must fit the limit when they are meant to be valid
	size_t cap = v->efflimit;
	if (cap) {
		for (int i = 0; i < pl->nfr; i++) {
			fspec *g = &pl->fr[i];
			size_t h = g->hk == H_NOTERM || g->hk == H_ALLHI ? 4 * (size_t) g->n : g->hk == H_HOPS ? 4 * ((size_t) g->n + 1) : g->hk == H_WORD ? 4 : g->hk == H_NAT ? nat_hdr_max(v) : 0;
			if ((m == M_LEN_MAXP1 || m == M_LEN_MAX || m == M_LEN_MAXM1 || m == M_BIG_VALID) && i == j) continue;
			if (h >= cap) { g->blen = 0; continue; }
			if (g->blen + h > cap) g->blen = cap - h;
		}
	}
	return true;
}

// ---------------------------------------------------------------- raw peer I/O
static void
fd_nonblock(int fd)
{
	int fl = fcntl(fd, F_GETFL, 0);
	fcntl(fd, F_SETFL, fl | O_NONBLOCK);
}

// write with pumping of the victim application; returns bytes written
// (short if the victim closed or stopped reading for 10 s)
static size_t
fd_write_pump(victim *v, int fd, const uint8_t *b, size_t n, int chunk, vf_rng *r)
{
	size_t   done  = 0;
	uint64_t stall = 0;
	while (done < n) {
		size_t want = n - done;
		if (chunk == 1) {
			size_t c = 1 + vf_below(r, 48);
			if (c < want) want = c;
		} else if (chunk == 2) {
			want = 1;
		}
		ssize_t w = write(fd, b + done, want);
		if (w > 0) {
			done += (size_t) w;
			stall = 0;
			if (chunk == 2 && (done & 7) == 0) sched_yield();
			continue;
		}
		if (w < 0 && errno == EINTR) continue;
		if (w < 0 && (errno == EAGAIN || errno == EWOULDBLOCK)) {
			struct pollfd p = { fd, POLLOUT, 0 };
			if (stall == 0) stall = vf_now_ns();
			if (vf_now_ns() - stall > 10000000000ULL) {
				vf_stat("write_stalls", 1);
				break;
			}
			pump(v);
			poll(&p, 1, 2);
			continue;
		}
		break; // EPIPE / ECONNRESET: the victim closed
	}
	return done;
}

// wait for EOF/RST on the raw fd while keeping the victim application
// draining; bytes the victim sends are discarded.  1 closed, 0 timeout.
static int
fd_wait_eof_pump(victim *v, int fd, int ms)
{
	pclock  pc;
	uint8_t tmp[2048];
	pc_start(&pc);
	for (;;) {
		struct pollfd p = { fd, POLLIN, 0 };
		int           pr = poll(&p, 1, 2);
		if (pr > 0) {
			ssize_t n = read(fd, tmp, sizeof(tmp));
			if (n == 0) return 1;
			if (n < 0 && errno != EAGAIN && errno != EINTR) return 1;
		}
		pump(v);
		if (pc_ms(&pc) > (uint64_t) ms) return 0;
	}
}

static void
fd_close_rst(int fd)
{
	struct linger lg = { 1, 0 };
	setsockopt(fd, SOL_SOCKET, SO_LINGER, &lg, sizeof(lg));
	close(fd);
}

// Dialing victim: take the connection its dialer has made to the raw listener.
// The dialer has at most one connection outstanding; one that has been waiting
// in the listen queue for a while may be past the victim's negotiation timeout
// (10 s; websocket 2 s) or carry a limit that has been changed since, so it is
// given up (a peer that accepts and closes without a byte) and the next one is
// taken.  Returns -1 if the dialer does not come back within 8 s.
static int
attacker_accept(victim *v)
{
	pclock pc;
	int    fd = -1;
	bool   fresh = v->idle_since != 0 && vf_now_ns() - v->idle_since < 700000000ULL;
	pc_start(&pc);
	for (;;) {
		int nfd = accept4(v->lfd, NULL, NULL, SOCK_CLOEXEC);
		if (nfd >= 0) {
			if (fd >= 0) {
				close(fd);
				vf_stat("dial_stale_connections_dropped", 1);
			}
			fd = nfd;
			continue;
		}
		if (errno == EINTR) continue;
		if (fd >= 0 && !fresh) {
			close(fd);
			fd    = -1;
			fresh = true;
			vf_stat("dial_stale_connections_dropped", 1);
			continue;
		}
		if (fd >= 0) break;
		if (pc_ms(&pc) > 8000) return -1;
		pump(v);
		struct pollfd p = { v->lfd, POLLIN, 0 };
		poll(&p, 1, 2);
	}
	vf_stat("dial_accepts", 1);
	v->idle_since = vf_now_ns(); // the victim may close (and dial again) any time from now on
	fd_nonblock(fd);
	return fd;
}

// the dialer did not come back after the last session
static void
no_redial(victim *v)
{
	char key[160];
	if (starved()) {
		note_starved();
		return;
	}
	snprintf(key, sizeof(key), "C11/dialer-stopped/%s/%s", vtn(v), v->vp->name);
	vf_violation(key, "the victim's dialer has not tried to connect again for 8 s after the session with mutation %s: a hostile server stops the dialer for good, not just the offending connection", v->last_mut);
	diag(v, "dialer-stopped");
	v->wedged = true;
}

static int
attacker_connect_stream(victim *v)
{
	int fd = -1;
	if (v->dial) return attacker_accept(v);
	switch (v->tran) {
	case T_SOCKFD: fd = sockfd_pair_to_victim(v); break;
	case T_TCP:
	case T_WS: fd = vf_tcp_connect((uint16_t) v->port, 5000); break;
	case T_IPC: fd = vf_unix_connect(v->ipcpath, 5000); break;
	}
	if (fd < 0) vf_harness_fail("attacker cannot connect to %s: %s", v->url, strerror(errno));
	fd_nonblock(fd);
	return fd;
}

// Let the victim application issue a request / survey and read it on the
// raw fd to learn the id the victim is waiting for.  0 if not learnt.
static uint32_t
learn_id_stream(victim *v, int fd, int post0)
{
	size_t fh = v->tran == T_IPC ? 9 : 8;
	if (!wait_atomic_ge(&v->post, post0 + 1, 2000, v)) return 0;
	for (int attempt = 0; attempt < 5; attempt++) {
		uint32_t seq = ++v->ctl_seq;
		(void) v_send(v, ctl_msg(v, seq));
		uint64_t end = vf_now_ns() + 120ULL * 1000000ULL;
		while (vf_now_ns() < end) {
			struct pollfd p = { fd, POLLIN, 0 };
			ctl_service(v, 0);
			ctl_service(v, 1);
			if (v->vp->id_once && (v->ctl[0].seen_seq >= seq || v->ctl[1].seen_seq >= seq)) break; // a control got it
			if (poll(&p, 1, 2) > 0) {
				uint8_t h[9], pay[64];
				if (vf_fd_read_full(fd, h, fh, 1000) != (long) fh) return 0;
				uint64_t len = be64(h + fh - 8);
				if (len < 4 || len > sizeof(pay)) return 0;
				if (vf_fd_read_full(fd, pay, (size_t) len, 1000) != (long) len) return 0;
				vf_stat("ids_learnt", 1);
				return be32(pay);
			}
		}
		pump(v);
	}
	return 0;
}

// (3) held: per transport, direction and origin of the limit
static void
oversize_closed_stat(victim *v)
{
	char k[64];
	vf_stat("oversize_closed", 1);
	snprintf(k, sizeof(k), "oversize_closed_%s", tnames[v->tran]);
	vf_stat(k, 1);
	if (v->dial) vf_stat("oversize_closed_dial", 1);
	snprintf(k, sizeof(k), "oversize_closed_limit_%s", v->limsrc);
	vf_stat(k, 1);
	vf_class("oversize-closed/%s/rm=%zu/%s", vtn(v), v->recvmax, v->limsrc);
}

#define PHASE(name) do { uint64_t n_ = vf_now_ns(); vf_stat("us_" name, (long) ((n_ - tph) / 1000)); tph = n_; } while (0)

static void
session_report(victim *v, sess_exp *se, const plan *pl, int vclosed, size_t written, size_t total)
{
	const char *out = se->ndeliverable == 0 ? "nothing-deliverable" : se->ndelivered == 0 ? "none-delivered" : se->ndelivered == se->ndeliverable ? "all-delivered" : "some-delivered";
	vf_stat("sessions", 1);
	g_sessions++;
	char k[64];
	snprintf(k, sizeof(k), "sessions_%s", tnames[v->tran]);
	vf_stat(k, 1);
	if (v->dial) {
		snprintf(k, sizeof(k), "sessions_dial_%s", tnames[v->tran]);
		vf_stat(k, 1);
	}
	snprintf(v->last_mut, sizeof(v->last_mut), "%s", pl->mut);
	vf_stat("frames_deliverable", se->ndeliverable);
	vf_stat("frames_decoded", se->nfr);
	if (pl->cut >= 0) vf_stat("truncated_sessions", 1);
	vf_class("%s/%s/%s/%s/%s%s", vtn(v), v->vp->name, pl->mut, endnames[pl->endact], out, vclosed == 1 ? "/victim-closed" : vclosed == 0 ? "/victim-kept-open" : "");
	(void) written;
	(void) total;
}

// common end of a session on a connection oriented transport: close
// expectations, end action, settle, idle window, bystander checks, report
static void
session_tail(victim *v, sess_exp *se, plan *pl, int fd, bool hs_ok, int pre0, bool do_new, bool do_spin, size_t written, bbuf *bytesp, uint64_t *tphp)
{
	const vproto *vp = v->vp;
	char          key[160];
	uint64_t      tph = *tphp;
	bbuf          bytes = *bytesp;
	if (hs_ok && pl->endact != END_RST) {
		if (!wait_atomic_ge(&v->pre, pre0 + 1, 3000, v)) vf_stat("valid_handshake_no_pipe_3s", 1);
	}
	PHASE("write_waitpipe");
	int vclosed = -1;
	if (se->closeexp == CE_HARD) {
		vf_stat("oversize_probes", 1);
		vclosed = fd_wait_eof_pump(v, fd, 5000);
		if (vclosed) {
			oversize_closed_stat(v);
		} else if (starved()) {
			note_starved();
		} else {
			snprintf(key, sizeof(key), "C11/oversize-not-closed/%s/%s", vtn(v), vp->name);
			vf_violation(key, "recvmax=%zu: the connection is still open 5 s after a frame length beyond the limit (mutation %s, %zu bytes written)", v->recvmax, pl->mut, written);
		}
	} else if (se->closeexp == CE_SOFT) {
		vclosed = fd_wait_eof_pump(v, fd, 1500);
		vf_stat(vclosed ? "malformed_closed" : "malformed_not_closed_1500ms", 1);
		if (!vclosed) vf_class("malformed-not-closed/%s/%s/%s", vtn(v), vp->name, pl->mut);
	}

	if (se->closeexp == CE_NONE && v->vp->can_recv) {
		// give the victim a moment to deliver what it may deliver
		uint64_t dend = vf_now_ns() + 30ULL * 1000000ULL;
		while (se->ndelivered < se->ndeliverable && vf_now_ns() < dend) {
			if (pump(v) == 0) vf_usleep(300);
		}
	}
	PHASE("closewait");
	bool held = false;
	switch (pl->endact) {
	case END_HOLD:
		if (vclosed != 1) {
			held = true;
			if (do_spin) spin_window(v, "connection-held");
			check_bystanders(v, do_new, true);
			vf_stat("held_checks", 1);
		}
		close(fd);
		break;
	case END_SHUTWR:
		shutdown(fd, SHUT_WR);
		if (vclosed != 1) {
			int c = fd_wait_eof_pump(v, fd, 3000);
			vf_stat(c ? "halfclose_answered" : "halfclose_ignored_3s", 1);
		}
		close(fd);
		break;
	case END_RST:
		fd_close_rst(fd);
		break;
	default:
		close(fd);
		break;
	}
	PHASE("endact");
	settle(v, 5000);
	PHASE("settle");
	if (do_spin) spin_window(v, "after-session");
	check_bystanders(v, do_new && !(held && !vp->single), false);
	pump(v);
	PHASE("bystanders");
	if (vf_verbose) fprintf(stderr, "  session %u %s end=%s written=%zu deliverable=%d delivered=%d vclosed=%d pre=%d rem=%d\n", se->serial, pl->mut, endnames[pl->endact], written, se->ndeliverable, se->ndelivered, vclosed, atomic_load(&v->pre), atomic_load(&v->rem));
	session_report(v, se, pl, vclosed, written, bytes.n);
	if ((se->serial & 63) == 1 || (se->closeexp == CE_HARD && (se->serial & 7) == 0)) {
		char hex[100];
		size_t hn = written < 40 ? written : 40;
		for (size_t i = 0; i < hn; i++) snprintf(hex + 2 * i, 3, "%02x", bytes.p[i]);
		hex[2 * hn] = 0;
		vf_sample("{\"tran\":\"%s\",\"proto\":\"%s\",\"recvmax\":%zu,\"ttl\":%d,\"mutation\":\"%s\",\"end\":\"%s\",\"bytes_written\":%zu,\"first_bytes\":\"%s\",\"frames_decoded\":%d,\"deliverable\":%d,\"delivered\":%d,\"victim_closed\":%d}",
		    vtn(v), vp->name, v->recvmax, v->ttl, pl->mut, endnames[pl->endact], written, hex, se->nfr, se->ndeliverable, se->ndelivered, vclosed);
	}
}

// ---------------------------------------------------------------- one SP stream session
static void
run_stream_session(victim *v, plan *pl, vf_rng *r, bool do_new, bool do_spin)
{
	const vproto *vp   = v->vp;
	sess_exp     *se   = se_new(v, pl->mut);
	int           pre0 = atomic_load(&v->pre), post0 = atomic_load(&v->post);
	bool          slot_busy = vp->single && live_ctl(v) > 0;
	bbuf          bytes = { 0 };
	uint8_t       vhs[8];
	v->cur_mut = pl->mut;

	uint64_t tph = vf_now_ns();
	int fd = attacker_connect_stream(v);
	if (fd < 0) {
		no_redial(v);
		return;
	}

	// the crowd: connections that send a part of a valid handshake and wait
	int xfd[8], nx = 0;
	for (int i = 0; i < pl->halfopen && i < 8 && !v->dial; i++) {
		uint8_t hello[8];
		size_t  k = vf_below(r, 8);
		vf_sp_hello(hello, vp->peer);
		xfd[nx] = attacker_connect_stream(v);
		if (k > 0) (void) fd_write_pump(v, xfd[nx], hello, k, 0, r);
		nx++;
		vf_stat("halfopen_connections", 1);
	}

	// the first bytes: our handshake (possibly cut short)
	size_t hs_send = pl->hslen;
	if (pl->cut >= 0 && (size_t) pl->cut < hs_send) hs_send = (size_t) pl->cut;
	size_t w0 = fd_write_pump(v, fd, pl->hs, hs_send, 0, r);
	// the victim sends its own header first; seeing it means the
	// connection has been taken up by the transport
	long got = vf_fd_read_full(fd, vhs, 8, 5000);
	if (got == 8) {
		vf_stat("victim_handshakes_seen", 1);
	} else {
		vf_stat("victim_handshakes_missing", 1);
	}
	PHASE("handshake");
	bool hs_ok = w0 >= 8 && pl->hs[0] == 0 && pl->hs[1] == 'S' && pl->hs[2] == 'P' && pl->hs[3] == 0 && pl->hs[6] == 0 && pl->hs[7] == 0;
	bool proto_ok = hs_ok && (uint16_t) ((pl->hs[4] << 8) | pl->hs[5]) == vp->peer;
	uint32_t id = 0;
	if (vp->hm == HM_ID4 && proto_ok && !slot_busy && (pl->cut < 0 || pl->cut > 16)) id = learn_id_stream(v, fd, post0);

	render_stream(v, pl, se->serial, id, r, &bytes);
	size_t total = bytes.n;
	if (pl->cut == -2) pl->cut = (long) vf_below(r, (uint32_t) total + 1);
	if (pl->cut >= 0 && (size_t) pl->cut < total) total = (size_t) pl->cut;
	if (pl->wait_pipe_first && hs_ok) (void) wait_atomic_ge(&v->pre, pre0 + 1, 2000, v);

	PHASE("learn_render_waitpipe");
	// what the victim may deliver is decided before anything can arrive
	decode_stream(v, se, bytes.p, total < w0 ? w0 : total, id, !slot_busy);
	size_t written = w0;
	// half of the crowd leaves while the data of this connection is on its way
	for (int i = 0; i < nx / 2; i++) {
		if (vf_chance(r, 1, 2)) fd_close_rst(xfd[i]);
		else close(xfd[i]);
	}
	if (total > w0 && w0 == hs_send) {
		written += fd_write_pump(v, fd, bytes.p + w0, total - w0, pl->chunk, r);
	}
	for (int i = nx / 2; i < nx; i++) {
		if (vf_chance(r, 1, 2)) fd_close_rst(xfd[i]);
		else close(xfd[i]);
	}
	vf_stat("bytes_written", (long) written);
	if (written < total) vf_stat("writes_cut_by_victim_close", 1);

	session_tail(v, se, pl, fd, hs_ok, pre0, do_new, do_spin, written, &bytes, &tph);
	free(bytes.p);
}

//@@WS@@
// ---------------------------------------------------------------- websocket sessions
enum {
	WX_NONE = 0, WX_UNMASKED, WX_RSV, WX_OPCODE_BAD, WX_TEXT, WX_PING_BEFORE, WX_PING_BIG, WX_PING_FRAG,
	WX_CONT_NOSTART, WX_BIN_IN_MSG, WX_CLOSE_BEFORE, WX_NONMIN16, WX_NONMIN64, WX_LEN63, WX_LEN_OVER_NODATA,
	WX_FRAG2, WX_FRAG3, WX_FRAG_EMPTY, WX_PONG_UNSOL, WX_FRAG_OVER, WX_N
};
static const char *wxnames[WX_N] = {
	"", "ws-unmasked", "ws-rsv", "ws-opcode-bad", "ws-text", "ws-ping-before", "ws-ping-126", "ws-ping-fragmented",
	"ws-cont-nostart", "ws-binary-in-message", "ws-close-before", "ws-len16-nonminimal", "ws-len64-nonminimal", "ws-len-2^63", "ws-len-over-nodata",
	"ws-frag2", "ws-frag3", "ws-frag-empty", "ws-pong-unsolicited", "ws-frag-oversize",
};
enum {
	HX_NONE = 0, HX_PATH, HX_METHOD, HX_HTTP10, HX_NOUPGRADE, HX_NOKEY, HX_VERSION, HX_SUBPROTO_WRONG, HX_SUBPROTO_NONE,
	HX_LONGLINE, HX_NOCOLON, HX_LF, HX_GARBAGE, HX_MANYHDR, HX_BODY,
	// token lists in Connection / Upgrade (valid HTTP; whether nng takes them as
	// an upgrade is C16's business - here they must not wedge anything)
	HX_CONN_LIST, HX_CONN_LIST_NOSP, HX_CONN_LIST_LAST_OTHER, HX_CONN_OTHERS_ONLY, HX_UPG_LIST, HX_UPG_LIST_EMPTY_ELEMS, HX_N
};
static const char *hxnames[HX_N] = {
	"", "http-path", "http-method", "http-1.0", "http-no-upgrade", "http-no-key", "http-version-12", "http-subproto-wrong", "http-subproto-none",
	"http-long-line", "http-no-colon", "http-lf-only", "http-garbage", "http-many-headers", "http-body",
	"http-connection-list", "http-connection-list-no-blank", "http-connection-list-upgrade-first", "http-connection-others-only", "http-upgrade-list", "http-list-empty-elements",
};

static void
bb_str(bbuf *b, const char *s)
{
	bb_add(b, s, strlen(s));
}

static void
render_http(const victim *v, int hx, vf_rng *r, bbuf *out)
{
	char        line[256];
	const char *nl = hx == HX_LF ? "\n" : "\r\n";
	if (hx == HX_GARBAGE) {
		size_t n = 20 + vf_below(r, 200);
		for (size_t i = 0; i < n; i++) bb_u8(out, (uint8_t) vf_rand(r));
		bb_str(out, "\r\n\r\n");
		return;
	}
	snprintf(line, sizeof(line), "%s %s HTTP/%s%s", hx == HX_METHOD ? "POST" : "GET", hx == HX_PATH ? "/nothere" : "/c11", hx == HX_HTTP10 ? "1.0" : "1.1", nl);
	bb_str(out, line);
	snprintf(line, sizeof(line), "Host: 127.0.0.1:%d%s", v->port, nl);
	bb_str(out, line);
	if (hx == HX_LONGLINE) {
		bb_str(out, "X-Long: ");
		for (int i = 0; i < 9000; i++) bb_u8(out, (uint8_t) ('a' + i % 26));
		bb_str(out, nl);
	}
	if (hx == HX_NOCOLON) { bb_str(out, "this header has no colon"); bb_str(out, nl); }
	if (hx == HX_MANYHDR) {
		for (int i = 0; i < 300; i++) {
			snprintf(line, sizeof(line), "X-H%d: v%d%s", i, i, nl);
			bb_str(out, line);
		}
	}
	if (hx != HX_NOUPGRADE) { bb_str(out, hx == HX_UPG_LIST ? "Upgrade: h2c, websocket" : hx == HX_UPG_LIST_EMPTY_ELEMS ? "Upgrade: , ,websocket, " : "Upgrade: websocket"); bb_str(out, nl); }
	bb_str(out, hx == HX_CONN_LIST ? "Connection: keep-alive, Upgrade" : hx == HX_CONN_LIST_NOSP ? "Connection: keep-alive,Upgrade" : hx == HX_CONN_LIST_LAST_OTHER ? "Connection: Upgrade, keep-alive" :
	    hx == HX_CONN_OTHERS_ONLY ? "Connection: keep-alive, close, TE" : hx == HX_UPG_LIST_EMPTY_ELEMS ? "Connection: ,, keep-alive , ,Upgrade" : "Connection: Upgrade");
	bb_str(out, nl);
	if (hx != HX_NOKEY) { bb_str(out, "Sec-WebSocket-Key: dGhlIHNhbXBsZSBub25jZQ=="); bb_str(out, nl); }
	snprintf(line, sizeof(line), "Sec-WebSocket-Version: %s%s", hx == HX_VERSION ? "12" : "13", nl);
	bb_str(out, line);
	if (hx != HX_SUBPROTO_NONE) {
		snprintf(line, sizeof(line), "Sec-WebSocket-Protocol: %s.sp.nanomsg.org%s", hx == HX_SUBPROTO_WRONG ? "bogus" : v->vp->wsname, nl);
		bb_str(out, line);
	}
	if (hx == HX_BODY) { bb_str(out, "Content-Length: 5"); bb_str(out, nl); }
	bb_str(out, nl);
	if (hx == HX_BODY) bb_str(out, "hello");
}

// Dialing victim: the raw peer is the HTTP server.  One defect per response.
enum {
	RX_NONE = 0, RX_STATUS_200, RX_STATUS_404, RX_STATUS_400, RX_STATUS_500, RX_STATUS_TEXT, RX_HTTP10, RX_NO_ACCEPT, RX_BAD_ACCEPT, RX_DUP_ACCEPT,
	RX_NO_UPGRADE, RX_NO_CONNECTION, RX_SUBPROTO_WRONG, RX_SUBPROTO_NONE, RX_LONGLINE, RX_NOCOLON, RX_LF, RX_GARBAGE, RX_MANYHDR,
	RX_BODY, RX_CHUNKED, RX_NO_REASON, RX_CONN_LIST, RX_UPG_LIST, RX_N
};
static const char *rxnames[RX_N] = {
	"", "http-resp-200", "http-resp-404", "http-resp-400", "http-resp-500", "http-resp-status-text", "http-resp-1.0", "http-resp-no-accept", "http-resp-bad-accept", "http-resp-dup-accept",
	"http-resp-no-upgrade", "http-resp-no-connection", "http-resp-subproto-wrong", "http-resp-subproto-none", "http-resp-long-line", "http-resp-no-colon", "http-resp-lf-only", "http-resp-garbage", "http-resp-many-headers",
	"http-resp-body", "http-resp-chunked", "http-resp-no-reason", "http-resp-connection-list", "http-resp-upgrade-list",
};

static void
render_http_response(int rx, const char *key, const char *subproto, vf_rng *r, bbuf *out)
{
	char         line[256], accept[32];
	uint8_t      digest[20];
	nni_sha1_ctx ctx;
	const char  *nl = rx == RX_LF ? "\n" : "\r\n";
	if (rx == RX_GARBAGE) {
		size_t n = 20 + vf_below(r, 200);
		for (size_t i = 0; i < n; i++) bb_u8(out, (uint8_t) vf_rand(r));
		bb_str(out, "\r\n\r\n");
		return;
	}
	nni_sha1_init(&ctx);
	nni_sha1_update(&ctx, key, strlen(key));
	nni_sha1_update(&ctx, "258EAFA5-E914-47DA-95CA-C5AB0DC85B11", 36);
	nni_sha1_final(&ctx, digest);
	nni_base64_encode(digest, 20, accept, 28);
	accept[28] = 0;
	if (rx == RX_BAD_ACCEPT) accept[5] = accept[5] == 'A' ? 'B' : 'A';
	const char *status = rx == RX_STATUS_200 ? "200 OK" : rx == RX_STATUS_404 ? "404 Not Found" : rx == RX_STATUS_400 ? "400 Bad Request" : rx == RX_STATUS_500 ? "500 Internal Server Error" :
	    rx == RX_STATUS_TEXT ? "abc Switching Protocols" : rx == RX_NO_REASON ? "101" : "101 Switching Protocols";
	snprintf(line, sizeof(line), "HTTP/%s %s%s", rx == RX_HTTP10 ? "1.0" : "1.1", status, nl);
	bb_str(out, line);
	if (rx == RX_LONGLINE) {
		bb_str(out, "X-Long: ");
		for (int i = 0; i < 9000; i++) bb_u8(out, (uint8_t) ('a' + i % 26));
		bb_str(out, nl);
	}
	if (rx == RX_NOCOLON) { bb_str(out, "this header has no colon"); bb_str(out, nl); }
	if (rx == RX_MANYHDR) {
		for (int i = 0; i < 300; i++) {
			snprintf(line, sizeof(line), "X-H%d: v%d%s", i, i, nl);
			bb_str(out, line);
		}
	}
	if (rx != RX_NO_UPGRADE) { bb_str(out, rx == RX_UPG_LIST ? "Upgrade: h2c, websocket" : "Upgrade: websocket"); bb_str(out, nl); }
	if (rx != RX_NO_CONNECTION) { bb_str(out, rx == RX_CONN_LIST ? "Connection: keep-alive, Upgrade" : "Connection: Upgrade"); bb_str(out, nl); }
	if (rx != RX_NO_ACCEPT) {
		snprintf(line, sizeof(line), "Sec-WebSocket-Accept: %s%s", accept, nl);
		bb_str(out, line);
		if (rx == RX_DUP_ACCEPT) { bb_str(out, "Sec-WebSocket-Accept: AAAAAAAAAAAAAAAAAAAAAAAAAAA="); bb_str(out, nl); }
	}
	if (rx != RX_SUBPROTO_NONE) {
		snprintf(line, sizeof(line), "Sec-WebSocket-Protocol: %s%s", rx == RX_SUBPROTO_WRONG ? "bogus.sp.nanomsg.org" : subproto, nl);
		bb_str(out, line);
	}
	if (rx == RX_BODY) { bb_str(out, "Content-Length: 5"); bb_str(out, nl); }
	if (rx == RX_CHUNKED) { bb_str(out, "Transfer-Encoding: chunked"); bb_str(out, nl); }
	bb_str(out, nl);
	if (rx == RX_BODY) bb_str(out, "hello");
	if (rx == RX_CHUNKED) bb_str(out, "5\r\nhello\r\n0\r\n\r\n");
}

// value of a request header (case-insensitive name), copied without the line end
static bool
http_header_value(const char *req, const char *name, char *out, size_t sz)
{
	size_t      nl = strlen(name);
	const char *p  = req;
	while ((p = strchr(p, '\n')) != NULL) {
		p++;
		if (strncasecmp(p, name, nl) == 0 && p[nl] == ':') {
			const char *q = p + nl + 1;
			while (*q == ' ' || *q == '\t') q++;
			size_t n = 0;
			while (q[n] && q[n] != '\r' && q[n] != '\n' && n + 1 < sz) n++;
			memcpy(out, q, n);
			out[n] = 0;
			return true;
		}
	}
	return false;
}

// lenmode: 0 minimal, 1 force 16 bit, 2 force 64 bit
static void
ws_put_frame(bbuf *out, bool fin, uint8_t rsv, uint8_t op, bool masked, int lenmode, const uint8_t *pay, size_t plen, uint64_t declared, bool nodata, vf_rng *r)
{
	uint8_t  h[14];
	size_t   hl = 0;
	uint64_t dl = declared;
	h[hl++]     = (uint8_t) ((fin ? 0x80 : 0) | (rsv & 0x70) | (op & 0x0f));
	if (lenmode == 2 || (lenmode == 0 && dl > 65535)) {
		h[hl++] = (uint8_t) ((masked ? 0x80 : 0) | 127);
		put_be64(h + hl, dl);
		hl += 8;
	} else if (lenmode == 1 || (lenmode == 0 && dl > 125)) {
		h[hl++] = (uint8_t) ((masked ? 0x80 : 0) | 126);
		h[hl++] = (uint8_t) (dl >> 8);
		h[hl++] = (uint8_t) dl;
	} else {
		h[hl++] = (uint8_t) ((masked ? 0x80 : 0) | (uint8_t) dl);
	}
	uint8_t mk[4] = { 0, 0, 0, 0 };
	if (masked) {
		for (int i = 0; i < 4; i++) mk[i] = (uint8_t) vf_rand(r);
		memcpy(h + hl, mk, 4);
		hl += 4;
	}
	bb_add(out, h, hl);
	if (!nodata && plen) {
		size_t at = out->n;
		bb_add(out, pay, plen);
		if (masked) {
			for (size_t i = 0; i < plen; i++) out->p[at + i] ^= mk[i & 3];
		}
	}
}

static void
render_ws_frames(const victim *v, const plan *pl, uint32_t serial, uint32_t id, vf_rng *r, bbuf *out)
{
	static const uint8_t ping[126] = { 'p' };
	const bool           mk = !v->dial; // a client masks its frames, a server must not
	for (int j = 0; j < pl->nfr; j++) {
		const fspec *f   = &pl->fr[j];
		bbuf         pay = { 0 };
		render_payload(v, f, serial, j, id, r, &pay);
		uint64_t decl = frame_len_field(f, pay.n);
		switch (f->x_kind) {
		case WX_UNMASKED: ws_put_frame(out, true, 0, 2, !mk, 0, pay.p, pay.n, decl, f->nodata, r); break;
		case WX_RSV: ws_put_frame(out, true, (uint8_t) (0x10 << vf_below(r, 3)), 2, mk, 0, pay.p, pay.n, decl, f->nodata, r); break;
		case WX_OPCODE_BAD: ws_put_frame(out, true, 0, (uint8_t) (vf_chance(r, 1, 2) ? 3 + vf_below(r, 5) : 11 + vf_below(r, 5)), mk, 0, pay.p, pay.n, decl, f->nodata, r); break;
		case WX_TEXT: ws_put_frame(out, true, 0, 1, mk, 0, pay.p, pay.n, decl, f->nodata, r); break;
		case WX_PING_BEFORE:
			ws_put_frame(out, true, 0, 9, mk, 0, ping, 5, 5, false, r);
			ws_put_frame(out, true, 0, 2, mk, 0, pay.p, pay.n, decl, f->nodata, r);
			break;
		case WX_PONG_UNSOL:
			ws_put_frame(out, true, 0, 10, mk, 0, ping, 9, 9, false, r);
			ws_put_frame(out, true, 0, 2, mk, 0, pay.p, pay.n, decl, f->nodata, r);
			break;
		case WX_PING_BIG:
			ws_put_frame(out, true, 0, 9, mk, 0, ping, 126, 126, false, r);
			ws_put_frame(out, true, 0, 2, mk, 0, pay.p, pay.n, decl, f->nodata, r);
			break;
		case WX_PING_FRAG:
			ws_put_frame(out, false, 0, 9, mk, 0, ping, 5, 5, false, r);
			ws_put_frame(out, true, 0, 2, mk, 0, pay.p, pay.n, decl, f->nodata, r);
			break;
		case WX_CONT_NOSTART: ws_put_frame(out, true, 0, 0, mk, 0, pay.p, pay.n, decl, f->nodata, r); break;
		case WX_BIN_IN_MSG:
			ws_put_frame(out, false, 0, 2, mk, 0, pay.p, pay.n / 2, pay.n / 2, false, r);
			ws_put_frame(out, true, 0, 2, mk, 0, pay.p + pay.n / 2, pay.n - pay.n / 2, pay.n - pay.n / 2, false, r);
			break;
		case WX_CLOSE_BEFORE: {
			uint8_t code[2] = { 0x03, 0xe8 };
			ws_put_frame(out, true, 0, 8, mk, 0, code, 2, 2, false, r);
			ws_put_frame(out, true, 0, 2, mk, 0, pay.p, pay.n, decl, f->nodata, r);
			break;
		}
		case WX_NONMIN16: ws_put_frame(out, true, 0, 2, mk, 1, pay.p, pay.n, decl, f->nodata, r); break;
		case WX_NONMIN64: ws_put_frame(out, true, 0, 2, mk, 2, pay.p, pay.n, decl, f->nodata, r); break;
		case WX_LEN63: ws_put_frame(out, true, 0, 2, mk, 2, pay.p, pay.n, UINT64_C(1) << 63 | f->x_arg, true, r); break;
		case WX_LEN_OVER_NODATA: ws_put_frame(out, true, 0, 2, mk, 0, pay.p, pay.n, (uint64_t) f->x_arg, true, r); break;
		case WX_FRAG2:
		case WX_FRAG3:
		case WX_FRAG_EMPTY: {
			int    parts = f->x_kind == WX_FRAG2 ? 2 : 3;
			size_t at    = 0;
			for (int k = 0; k < parts; k++) {
				size_t n = k == parts - 1 ? pay.n - at : (f->x_kind == WX_FRAG_EMPTY ? 0 : vf_below(r, (uint32_t) (pay.n - at) + 1));
				ws_put_frame(out, k == parts - 1, 0, k == 0 ? 2 : 0, mk, 0, pay.p + at, n, n, false, r);
				at += n;
			}
			break;
		}
		case WX_FRAG_OVER: {
			// a message above the limit made of fragments that each fit,
			// later ones smaller than earlier ones (every per-frame
			// view of the size looks harmless; only the sum is too big)
			size_t lim = v->recvmax ? (size_t) v->recvmax : pay.n;
			size_t at = 0, n = lim - vf_below(r, (uint32_t) (lim / 4) + 1);
			bool   first = true;
			if (n > pay.n) n = pay.n;
			while (at < pay.n) {
				if (n > pay.n - at) n = pay.n - at;
				ws_put_frame(out, at + n == pay.n, 0, first ? 2 : 0, mk, 0, pay.p + at, n, n, false, r);
				at += n;
				first = false;
				if (vf_chance(r, 1, 2) && pay.n - at > 1) n = (pay.n - at + 1) / 2 + vf_below(r, (uint32_t) ((pay.n - at) / 2));
			}
			break;
		}
		default: ws_put_frame(out, true, 0, 2, mk, 0, pay.p, pay.n, decl, f->nodata, r); break;
		}
		free(pay.p);
	}
}

// Lenient reference decoder of websocket frames (everything RFC 6455 level is
// C16's business): assembles whatever a tolerant parser could, and is strict
// only about completeness, the size limit and the SP header.
static void
decode_ws(victim *v, sess_exp *se, const uint8_t *b, size_t n, uint32_t id, bool upgraded, bool pipe_ok)
{
	bbuf   store = { 0 }, msg = { 0 };
	size_t off   = 0;
	bool   inmsg = false, dead = !pipe_ok;
	se->closeexp = CE_NONE;
	if (!upgraded) goto done;
	while (n - off >= 2) {
		uint8_t  op = b[off] & 0x0f;
		bool     fin = (b[off] & 0x80) != 0, masked = (b[off + 1] & 0x80) != 0;
		uint64_t len = b[off + 1] & 0x7f;
		size_t   hl  = 2;
		if (len == 126) {
			if (n - off < 4) break;
			len = ((uint64_t) b[off + 2] << 8) | b[off + 3];
			hl  = 4;
		} else if (len == 127) {
			if (n - off < 10) break;
			len = be64(b + off + 2);
			hl  = 10;
		}
		if (masked) hl += 4;
		if (n - off < hl) break;
		if (op >= 8) {
			// control frame
			if (len > n - off - hl) { if (len > 125 && !dead) se->closeexp = CE_SOFT; break; }
			if (op == 8) { if (!dead) se->closeexp = CE_SOFT; break; }
			off += hl + (size_t) len;
			continue;
		}
		if (op > 2) { if (!dead) se->closeexp = CE_SOFT; break; }
		if ((op != 0) == inmsg) { if (!dead) se->closeexp = CE_SOFT; break; } // cont without start / start inside a message
		if (v->recvmax > 0 && (uint64_t) msg.n + len > v->recvmax) {
			if (!dead) se->closeexp = CE_HARD;
			break;
		}
		if (len > (1u << 20)) { if (!dead) se->closeexp = CE_SOFT; break; } // default frame limit
		if (len > n - off - hl) break; // incomplete
		size_t at = msg.n;
		bb_add(&msg, b + off + hl, (size_t) len);
		if (masked) {
			for (size_t i = 0; i < len; i++) msg.p[at + i] ^= b[off + hl - 4 + (i & 3)];
		}
		inmsg = !fin;
		off += hl + (size_t) len;
		if (fin) {
			int st = se_add_payload(v, se, &store, msg.p, msg.n, id, dead);
			if (st == FR_KILL && !dead) {
				dead         = true;
				se->closeexp = CE_SOFT;
			}
			msg.n = 0;
		}
	}
done:
	free(msg.p);
	se->buf    = store.p;
	se->buflen = store.n;
}

// read the server's first data frame (request / survey) to learn the id
static uint32_t
learn_id_ws(victim *v, int fd, int post0)
{
	if (!wait_atomic_ge(&v->post, post0 + 1, 2000, v)) return 0;
	for (int attempt = 0; attempt < 5; attempt++) {
		uint32_t seq = ++v->ctl_seq;
		(void) v_send(v, ctl_msg(v, seq));
		uint64_t end = vf_now_ns() + 120ULL * 1000000ULL;
		while (vf_now_ns() < end) {
			struct pollfd p = { fd, POLLIN, 0 };
			ctl_service(v, 0);
			ctl_service(v, 1);
			if (v->vp->id_once && (v->ctl[0].seen_seq >= seq || v->ctl[1].seen_seq >= seq)) break;
			if (poll(&p, 1, 2) > 0) {
				uint8_t h[2], pay[125], mk[4] = { 0, 0, 0, 0 };
				if (vf_fd_read_full(fd, h, 2, 1000) != 2) return 0;
				size_t len = h[1] & 0x7f;
				// (a dialing victim is the websocket client: its frames are masked)
				if ((h[0] & 0x0f) != 2 || ((h[1] & 0x80) != 0) != v->dial || len < 4 || len > 125) return 0;
				if (v->dial && vf_fd_read_full(fd, mk, 4, 1000) != 4) return 0;
				if (vf_fd_read_full(fd, pay, len, 1000) != (long) len) return 0;
				for (size_t i = 0; i < len; i++) pay[i] ^= mk[i & 3];
				vf_stat("ids_learnt", 1);
				return be32(pay);
			}
		}
		pump(v);
	}
	return 0;
}

static void
run_ws_session(victim *v, plan *pl, vf_rng *r, bool do_new, bool do_spin)
{
	const vproto *vp   = v->vp;
	sess_exp     *se   = se_new(v, pl->mut);
	int           pre0 = atomic_load(&v->pre), post0 = atomic_load(&v->post);
	bool          slot_busy = vp->single && live_ctl(v) > 0;
	bbuf          bytes = { 0 };
	uint64_t      tph = vf_now_ns();
	v->cur_mut = pl->mut;

	int fd = attacker_connect_stream(v);
	if (fd < 0) {
		no_redial(v);
		return;
	}
	char   resp[2048];
	size_t rn = 0;
	bool   upgraded = false;
	if (v->dial) {
		// the victim's request first: up to the blank line
		char   key[64] = "", sub[96] = "";
		pclock hpc;
		pc_start(&hpc);
		while (rn < sizeof(resp) - 1 && pc_ms(&hpc) < 5000) {
			struct pollfd p = { fd, POLLIN, 0 };
			if (poll(&p, 1, 5) <= 0) { pump(v); continue; }
			ssize_t k = read(fd, resp + rn, 1);
			if (k <= 0) {
				if (k < 0 && (errno == EAGAIN || errno == EINTR)) continue;
				break;
			}
			rn += (size_t) k;
			resp[rn] = 0;
			if (rn >= 4 && !memcmp(resp + rn - 4, "\r\n\r\n", 4)) break;
		}
		bool req_ok = rn >= 4 && !memcmp(resp + rn - 4, "\r\n\r\n", 4) && !strncmp(resp, "GET ", 4) &&
		    http_header_value(resp, "Sec-WebSocket-Key", key, sizeof(key)) && http_header_value(resp, "Sec-WebSocket-Protocol", sub, sizeof(sub));
		vf_stat(req_ok ? "ws_dial_requests_seen" : "ws_dial_requests_missing", 1);
		render_http_response(pl->x_http, key, sub, r, &bytes);
	} else {
		render_http(v, pl->x_http, r, &bytes);
	}
	size_t httplen = bytes.n;
	size_t hsend   = httplen;
	if (pl->cut >= 0 && (size_t) pl->cut < hsend) hsend = (size_t) pl->cut;
	size_t w0 = fd_write_pump(v, fd, bytes.p, hsend, pl->chunk == 2 ? 1 : pl->chunk, r);
	if (v->dial) {
		// Whether the client accepts a response with a defect is C16's business:
		// the decoder allows delivery whenever the whole response went out, and
		// the victim's socket says whether there is a pipe.
		upgraded = w0 == httplen;
		if (upgraded && pl->x_http == RX_NONE) {
			bool got = wait_atomic_ge(&v->pre, pre0 + 1, 3000, v);
			vf_stat(got ? "ws_upgraded" : "ws_dial_valid_response_no_pipe_3s", 1);
			if (got) vf_stat("ws_dial_upgraded", 1);
		} else if (upgraded) {
			bool got = wait_atomic_ge(&v->pre, pre0 + 1, 40, v);
			vf_stat(got ? "ws_dial_defective_response_accepted" : "ws_refused", 1);
			if (got) vf_class("dial-ws/response-accepted/%s", pl->mut);
		}
	} else if (w0 == httplen) {
		// response: up to the blank line, EOF, or timeout
		pclock hpc;
		pc_start(&hpc);
		while (rn < sizeof(resp) - 1 && pc_ms(&hpc) < 8000) {
			struct pollfd p = { fd, POLLIN, 0 };
			if (poll(&p, 1, 5) <= 0) { pump(v); continue; }
			ssize_t k = read(fd, resp + rn, 1); // byte-wise: never eat frames that follow
			if (k <= 0) {
				if (k < 0 && (errno == EAGAIN || errno == EINTR)) continue;
				break;
			}
			rn += (size_t) k;
			resp[rn] = 0;
			if (rn >= 4 && !memcmp(resp + rn - 4, "\r\n\r\n", 4)) break;
		}
		upgraded = rn >= 12 && !strncmp(resp, "HTTP/1.1 101", 12);
		vf_stat(upgraded ? "ws_upgraded" : "ws_refused", 1);
	}
	PHASE("handshake");
	uint32_t id = 0;
	// (a response with a defect may or may not be accepted: no waiting for a pipe)
	bool pipe_expected = upgraded && !(v->dial && pl->x_http != RX_NONE);
	if (pipe_expected) (void) wait_atomic_ge(&v->pre, pre0 + 1, 2000, v);
	if (vp->hm == HM_ID4 && pipe_expected && !slot_busy) id = learn_id_ws(v, fd, post0);
	render_ws_frames(v, pl, se->serial, id, r, &bytes);
	size_t total = bytes.n;
	if (pl->cut == -2) pl->cut = (long) (httplen + vf_below(r, (uint32_t) (total - httplen) + 1));
	if (pl->cut >= 0 && (size_t) pl->cut < total) total = (size_t) pl->cut;
	PHASE("learn_render_waitpipe");
	decode_ws(v, se, bytes.p + httplen, total > httplen ? total - httplen : 0, id, upgraded, !slot_busy);
	size_t written = w0;
	if (total > w0 && w0 == hsend) written += fd_write_pump(v, fd, bytes.p + w0, total - w0, pl->chunk, r);
	vf_stat("bytes_written", (long) written);
	session_tail(v, se, pl, fd, pipe_expected, pre0, do_new, do_spin, written, &bytes, &tph);
	free(bytes.p);
}
//@@UDP@@
// ---------------------------------------------------------------- udp sessions
enum {
	UM_NONE = 0, UM_VER, UM_OPCODE, UM_NOCREQ, UM_CREQ_TYPE, UM_CREQ_REFRESH0, UM_CREQ_RETYPE, UM_LEN_OVER, UM_LEN_UNDER,
	UM_LEN_RCVMAX, UM_SHORT, UM_DISC_MID, UM_CACK_UNSOL, UM_DATA_TYPE, UM_FLOOD, UM_NODISC, UM_NOHS_BADLEN, UM_TRUNC_DGRAM, UM_N
};
static const char *umnames[UM_N] = {
	"", "udp-version", "udp-opcode", "udp-data-without-creq", "udp-creq-type", "udp-creq-refresh0", "udp-creq-retype", "udp-length-over", "udp-length-under",
	"udp-length-beyond-recvmax", "udp-short-datagram", "udp-disc-mid", "udp-cack-unsolicited", "udp-data-type", "udp-flood", "udp-no-disc", "udp-badlen-without-creq", "udp-truncated-datagram",
};

// the same knobs against a dialing victim, where the raw peer answers the
// victim's CREQ with a CACK (the first datagram of the plan)
static const char *dumnames[UM_N] = {
	"", "udp-version", "udp-opcode", "udp-data-without-cack", "udp-cack-type", "udp-cack-refresh0", "udp-cack-retype", "udp-length-over", "udp-length-under",
	"udp-length-beyond-recvmax", "udp-short-datagram", "udp-disc-mid", "udp-creq-to-dialer", "udp-data-type", "udp-flood", "udp-no-disc", "udp-badlen-before-cack", "udp-truncated-datagram",
};

typedef struct {
	uint8_t *p;
	size_t   n;
} dgram;

static void
udp_hdr(uint8_t h[8], uint8_t ver, uint8_t op, uint16_t type, uint16_t p0, uint16_t p1)
{
	h[0] = ver; h[1] = op;
	h[2] = (uint8_t) type; h[3] = (uint8_t) (type >> 8);
	h[4] = (uint8_t) p0; h[5] = (uint8_t) (p0 >> 8);
	h[6] = (uint8_t) p1; h[7] = (uint8_t) (p1 >> 8);
}

static dgram
dg_make(const uint8_t h[8], const uint8_t *pay, size_t n)
{
	dgram d;
	d.n = 8 + n;
	d.p = malloc(d.n ? d.n : 1);
	memcpy(d.p, h, 8);
	if (n) memcpy(d.p + 8, pay, n);
	return d;
}

#define MAXDG (MAXFR + 8)

// build the datagram list of a plan (x_http carries the UM_ mutation, fspec
// x_kind marks the frame it applies to)
static int
render_udp(const victim *v, const plan *pl, uint32_t serial, uint32_t id, vf_rng *r, dgram *dg, int *first_data)
{
	int     n = 0, um = pl->x_http;
	uint8_t h[8];
	// (dialing victim: the handshake datagram is a CACK, and the control
	// datagrams thrown in later are the ones a server would send)
	const uint8_t op_hs = v->dial ? 2 : 1, op_other = v->dial ? 1 : 2;
	if (um != UM_NOCREQ && um != UM_NOHS_BADLEN) {
		udp_hdr(h, 1, op_hs, um == UM_CREQ_TYPE ? (uint16_t) (v->vp->peer ^ 0x101) : v->vp->peer, 65000, um == UM_CREQ_REFRESH0 ? 0 : 5);
		dg[n++] = dg_make(h, NULL, 0);
	}
	*first_data = n;
	for (int j = 0; j < pl->nfr; j++) {
		const fspec *f   = &pl->fr[j];
		bbuf         pay = { 0 };
		bool         hit = f->x_kind != 0;
		render_payload(v, f, serial, j, id, r, &pay);
		uint64_t decl = frame_len_field(f, pay.n);
		uint16_t dl   = decl > 65535 ? 65535 : (uint16_t) decl;
		uint8_t  ver = 1, op = 0;
		uint16_t type = v->vp->peer;
		if (hit) {
			switch (um) {
			case UM_VER: ver = vf_chance(r, 1, 2) ? 0 : (uint8_t) (2 + vf_below(r, 254)); break;
			case UM_OPCODE: op = (uint8_t) (4 + vf_below(r, 252)); break;
			case UM_NOHS_BADLEN: // (dialing victim: the pipe that still waits for its CACK gets it)
			case UM_LEN_OVER: dl = (uint16_t) (pay.n + 1 + vf_below(r, 50)); break;
			case UM_LEN_RCVMAX: dl = 65535; break;
			case UM_LEN_UNDER: dl = (uint16_t) (pay.n > 0 ? vf_below(r, (uint32_t) pay.n) : 0); break;
			case UM_DATA_TYPE: type = (uint16_t) vf_rand(r); break;
			case UM_DISC_MID:
				udp_hdr(h, 1, 3, v->vp->peer, 0, 0);
				dg[n++] = dg_make(h, NULL, 0);
				break;
			case UM_CACK_UNSOL:
				udp_hdr(h, 1, op_other, v->vp->peer, 65000, 5);
				dg[n++] = dg_make(h, NULL, 0);
				break;
			case UM_CREQ_RETYPE:
				udp_hdr(h, 1, op_hs, (uint16_t) (v->vp->peer ^ 0x101), 65000, 5);
				dg[n++] = dg_make(h, NULL, 0);
				break;
			default: break;
			}
		}
		udp_hdr(h, ver, op, type, dl, 0);
		dgram d = dg_make(h, pay.p, f->nodata ? 0 : pay.n);
		if (hit && um == UM_SHORT) d.n = vf_below(r, 8);
		if (hit && um == UM_TRUNC_DGRAM) d.n = f->x_arg < d.n ? f->x_arg : d.n;
		dg[n++] = d;
		free(pay.p);
	}
	return n;
}

// reference decoder for the udp transport's datagram protocol
//
// Dialing victim: its dialer always has a pipe for the raw peer's address
// (waiting for the CACK, established, or - moments after a close - the next
// attempt), and the transport queues DATA on it whatever its state; the queue
// is handed to the socket when a CACK completes the handshake, possibly the
// one of the NEXT session.  So every well-formed DATA datagram within the
// limit may be delivered sooner or later; what the decoder keeps track of
// strictly ("est") is only whether an established pipe surely exists, because
// only then "closes that connection" can be demanded.
static void
decode_udp(victim *v, sess_exp *se, const dgram *dg, int n, uint32_t id, bool pipe_ok)
{
	bbuf store     = { 0 };
	bool connected = false;
	se->closeexp   = CE_NONE;
	for (int i = 0; i < n; i++) {
		const uint8_t *d = dg[i].p;
		if (dg[i].n < 8 || d[0] != 1) continue;
		uint16_t type = (uint16_t) (d[2] | (d[3] << 8)), p0 = (uint16_t) (d[4] | (d[5] << 8)), p1 = (uint16_t) (d[6] | (d[7] << 8));
		switch (d[1]) {
		case 1: // CREQ
			if (v->dial) break; // refused with a DISC, the connection is not touched
			if (!connected) {
				if (p1 == 0) break;
				connected = type == v->vp->peer && pipe_ok;
				if (!connected) se->closeexp = CE_SOFT;
			} else if (type != v->vp->peer || p1 == 0) {
				connected    = false;
				se->closeexp = CE_SOFT;
			}
			break;
		case 2: // CACK
			if (!v->dial) break; // nothing at a listener
			if (type != v->vp->peer || p1 == 0) {
				connected    = false;
				se->closeexp = CE_SOFT;
			} else {
				connected = pipe_ok;
			}
			break;
		case 3: connected = false; break;
		case 0: {
			size_t avail = dg[i].n - 8;
			if (!connected && !v->dial) {
				// remember it so that a delivery can be explained
				if (p0 <= avail) {
					se_add_payload(v, se, &store, d + 8, p0, id, true);
				}
				break;
			}
			if (p0 > avail || p0 > v->efflimit) {
				if (connected) se->closeexp = CE_HARD;
				connected = false;
				if (p0 <= avail) {
					se_add_payload(v, se, &store, d + 8, p0, id, true);
					se->fr[se->nfr - 1].status = FR_OVERSIZE;
				}
				break;
			}
			int st = se_add_payload(v, se, &store, d + 8, p0, id, false);
			if (st == FR_KILL) {
				if (connected && se->closeexp == CE_NONE) se->closeexp = CE_SOFT;
				connected = false;
			}
			break;
		}
		default: break;
		}
	}
	se->buf    = store.p;
	se->buflen = store.n;
}

// drain datagrams from the victim; returns true if one of them is a DISC.
// If idp is set, the first DATA datagram's leading word is stored there.
static bool
udp_drain(int fd, int ms, uint32_t *idp, bool *cack)
{
	uint64_t end = vf_now_ns() + (uint64_t) ms * 1000000ULL;
	uint8_t  buf[2048];
	bool     disc = false;
	for (;;) {
		struct pollfd p = { fd, POLLIN, 0 };
		int64_t left = ((int64_t) end - (int64_t) vf_now_ns()) / 1000000;
		if (poll(&p, 1, left > 0 ? (left > 2 ? 2 : (int) left) : 0) > 0) {
			ssize_t k = recv(fd, buf, sizeof(buf), 0);
			if (k >= 8 && buf[0] == 1) {
				if (buf[1] == 3) disc = true;
				if (buf[1] == 2 && cack) *cack = true;
				if (buf[1] == 0 && idp && k >= 12 && *idp == 0) *idp = be32(buf + 8);
			}
			if (k < 0 && errno != EAGAIN && errno != EINTR) return disc; // ICMP refusal
			continue;
		}
		if (left <= 0 || disc || (cack && *cack) || (idp && *idp)) return disc;
	}
}

// Dialing victim: is a connection request of its dialer at hand?  The dialer
// repeats it every 200 ms while it has no connection, and dials again after a
// connection is lost.  What else has piled up is thrown away.
static bool
udp_wait_creq(victim *v, int fd)
{
	pclock pc;
	bool   have = false;
	pc_start(&pc);
	for (;;) {
		uint8_t            buf[2048];
		struct sockaddr_in from;
		socklen_t          fl = sizeof(from);
		ssize_t            k  = recvfrom(fd, buf, sizeof(buf), 0, (struct sockaddr *) &from, &fl);
		if (k >= 8 && buf[0] == 1 && buf[1] == 1) {
			have = true;
			if (!v->upeer_known) {
				// (its source port stays the same for the dialer's lifetime)
				if (connect(fd, (struct sockaddr *) &from, fl) != 0) vf_harness_fail("udp connect to the dialer: %s", strerror(errno));
				v->upeer_known = true;
			}
			continue;
		}
		if (k >= 0 || errno == EINTR) continue;
		if (have) break;
		if (pc_ms(&pc) > 8000) return false;
		pump(v);
		struct pollfd p = { fd, POLLIN, 0 };
		poll(&p, 1, 2);
	}
	vf_stat("dial_accepts", 1);
	vf_stat("us_udp_wait_creq", (long) (pc_ms(&pc) * 1000));
	v->idle_since = vf_now_ns();
	return true;
}

// a counter of the victim's udp endpoint (rcv_toobig, rcv_nomatch, ...)
static long
udp_listener_stat(victim *v, const char *name)
{
	nng_stat       *root = NULL;
	const nng_stat *ls, *st;
	long            val = -1;
	if (nng_stats_get(&root) != 0) return -1;
	if ((ls = v->dial ? nng_stat_find_dialer(root, v->d) : nng_stat_find_listener(root, v->l)) != NULL && (st = nng_stat_find(ls, name)) != NULL) val = (long) nng_stat_value(st);
	nng_stats_free(root);
	return val;
}

static void
run_udp_session(victim *v, plan *pl, vf_rng *r, bool do_new, bool do_spin)
{
	const vproto *vp   = v->vp;
	sess_exp     *se   = se_new(v, pl->mut);
	int           pre0 = atomic_load(&v->pre), post0 = atomic_load(&v->post);
	bool          slot_busy = vp->single && live_ctl(v) > 0;
	static dgram  dg[MAXDG];
	uint64_t      tph = vf_now_ns();
	char          key[160];
	int           um = pl->x_http;
	v->cur_mut = pl->mut;

	int fd;
	if (v->dial) {
		// the victim's dialer asks (again and again) for a connection
		fd = v->lfd;
		if (!udp_wait_creq(v, fd)) {
			no_redial(v);
			return;
		}
	} else {
		struct sockaddr_in sa;
		fd = socket(AF_INET, SOCK_DGRAM | SOCK_CLOEXEC, 0);
		memset(&sa, 0, sizeof(sa));
		sa.sin_family      = AF_INET;
		sa.sin_addr.s_addr = htonl(INADDR_LOOPBACK);
		sa.sin_port        = htons((uint16_t) v->port);
		if (fd < 0 || connect(fd, (struct sockaddr *) &sa, sizeof(sa)) != 0) vf_harness_fail("udp socket: %s", strerror(errno));
		fd_nonblock(fd);
	}

	// connection request (dialing victim: the answer to its request) first;
	// the id, if any, is learnt before the data is rendered
	uint32_t id = 0;
	bool     creq_ok = um != UM_NOCREQ && um != UM_NOHS_BADLEN && um != UM_CREQ_TYPE && um != UM_CREQ_REFRESH0;
	bool     sent_creq = false, cack = false, disc_seen = false;
	size_t   creq_len = (um == UM_TRUNC_DGRAM && pl->x_dgram == 0) ? pl->x_dglen : 8;
	if (um != UM_NOCREQ && um != UM_NOHS_BADLEN) {
		uint8_t h[8];
		udp_hdr(h, 1, v->dial ? 2 : 1, um == UM_CREQ_TYPE ? (uint16_t) (vp->peer ^ 0x101) : vp->peer, 65000, um == UM_CREQ_REFRESH0 ? 0 : 5);
		(void) send(fd, h, creq_len, 0);
		sent_creq = true;
		if (creq_len < 8) creq_ok = false;
		if (v->dial) {
			// the pipe on the victim's socket is the acknowledgement
			if (creq_ok && !slot_busy) {
				// (the dialer asks again every 200 ms until it has its answer,
				// and like any server this one answers again)
				pclock hpc;
				pc_start(&hpc);
				while (!(cack = atomic_load(&v->pre) > pre0) && pc_ms(&hpc) < 2000) {
					uint8_t b[64];
					ssize_t k = recv(fd, b, sizeof(b), 0);
					if (k >= 8 && b[0] == 1 && b[1] == 1) {
						(void) send(fd, h, 8, 0);
						vf_stat("udp_dial_cack_repeated", 1);
					} else if (k < 0) {
						pump(v);
						vf_usleep(300);
					}
				}
				vf_stat(cack ? "udp_dial_pipe_seen" : "udp_dial_pipe_missing", 1);
			} else {
				disc_seen = udp_drain(fd, 30, NULL, NULL);
			}
		} else {
			disc_seen = udp_drain(fd, creq_ok ? 2000 : 30, NULL, &cack);
			if (creq_ok) vf_stat(cack ? "udp_cack_seen" : "udp_cack_missing", 1);
		}
	}
	PHASE("handshake");
	if (creq_ok && cack && !slot_busy) (void) wait_atomic_ge(&v->pre, pre0 + 1, 2000, v);
	if (vp->hm == HM_ID4 && creq_ok && cack && !slot_busy && wait_atomic_ge(&v->post, post0 + 1, 2000, v)) {
		for (int attempt = 0; attempt < 5 && id == 0; attempt++) {
			uint32_t seq = ++v->ctl_seq;
			(void) v_send(v, ctl_msg(v, seq));
			uint64_t end = vf_now_ns() + 120ULL * 1000000ULL;
			while (vf_now_ns() < end && id == 0) {
				ctl_service(v, 0);
				ctl_service(v, 1);
				if (vp->id_once && (v->ctl[0].seen_seq >= seq || v->ctl[1].seen_seq >= seq)) break;
				(void) udp_drain(fd, 2, &id, NULL);
			}
			pump(v);
		}
		if (id) vf_stat("ids_learnt", 1);
	}
	long toobig0   = udp_listener_stat(v, "rcv_toobig");
	int  rem0      = atomic_load(&v->rem);
	int first_data = 0;
	int n          = render_udp(v, pl, se->serial, id, r, dg, &first_data);
	// the CREQ went out already (or was cut): the decoder sees what was sent
	if (sent_creq) dg[0].n = creq_len;
	PHASE("learn_render_waitpipe");
	// (a control client may have been lost to keep-alive expiry unnoticed: on udp
	// no claim that a busy single-peer victim refuses this peer)
	decode_udp(v, se, dg, n, id, true);
	size_t written = 0;
	for (int i = first_data; i < n; i++) {
		(void) send(fd, dg[i].p, dg[i].n, 0);
		written += dg[i].n;
		if ((i & 7) == 7) {
			pump(v);
			sched_yield();
		}
	}
	vf_stat("bytes_written", (long) written);
	vf_stat("datagrams_sent", n);
	PHASE("write_waitpipe");
	int vclosed = -1;
	if (se->closeexp == CE_HARD) {
		vf_stat("oversize_probes", 1);
		// The DISC may get lost, and so may the offending datagram: the
		// verdict is the victim's own counter of rejected datagrams, and the
		// probe is repeated before silence is taken for "not closed".
		bool rejected = false;
		for (int round = 0; round < 3 && !disc_seen && !rejected; round++) {
			pclock opc;
			pc_start(&opc);
			while (!disc_seen && pc_ms(&opc) < (round == 0 ? 3000u : 1500u)) {
				disc_seen = udp_drain(fd, 3, NULL, NULL);
				pump(v);
			}
			if (disc_seen) break;
			if (udp_listener_stat(v, "rcv_toobig") > toobig0) {
				rejected = true;
				vf_stat("udp_oversize_rejected_disc_not_seen", 1);
				break;
			}
			for (int i = first_data; i < n; i++) {
				// once more, only the offending datagram(s)
				const uint8_t *d = dg[i].p;
				if (dg[i].n >= 8 && d[0] == 1 && d[1] == 0) {
					size_t p0 = (size_t) (d[4] | (d[5] << 8));
					if (p0 > dg[i].n - 8 || p0 > v->efflimit) (void) send(fd, dg[i].p, dg[i].n, 0);
				}
			}
			vf_stat("udp_oversize_probe_repeated", 1);
		}
		vclosed = disc_seen || rejected;
		if (rejected && !disc_seen) {
			// the counter alone does not show that the connection is gone: its
			// pipe must leave the socket (removals since the offending datagram)
			if (!wait_atomic_ge(&v->rem, rem0 + 1, 5000, v) && !starved()) {
				snprintf(key, sizeof(key), "C11/oversize-not-closed/%s/%s", vtn(v), vp->name);
				vf_violation(key, "limit %zu: the listener counted the oversize datagram as rejected but no pipe has left the socket 5 s later and no DISC was seen (mutation %s)", v->efflimit, pl->mut);
				vclosed = 0;
			}
		}
		if (vclosed) {
			oversize_closed_stat(v);
		} else if (starved()) {
			note_starved();
		} else {
			snprintf(key, sizeof(key), "C11/oversize-not-closed/%s/%s", vtn(v), vp->name);
			vf_violation(key, "limit %zu: no DISC and no rejected datagram counted by the listener after three rounds of a DATA datagram whose length field is beyond the limit or the datagram (mutation %s)", v->efflimit, pl->mut);
		}
	} else if (se->closeexp == CE_SOFT) {
		uint64_t end = vf_now_ns() + 300ULL * 1000000ULL;
		while (!disc_seen && vf_now_ns() < end) {
			disc_seen = udp_drain(fd, 3, NULL, NULL);
			pump(v);
		}
		vclosed = disc_seen;
		vf_stat(disc_seen ? "malformed_closed" : "malformed_not_closed_300ms", 1);
	}
	if (se->closeexp == CE_NONE && vp->can_recv) {
		uint64_t dend = vf_now_ns() + 30ULL * 1000000ULL;
		while (se->ndelivered < se->ndeliverable && vf_now_ns() < dend) {
			if (pump(v) == 0) vf_usleep(300);
		}
	}
	PHASE("closewait");
	bool held = false;
	if (pl->endact == END_HOLD && vclosed != 1) {
		held = true;
		settle(v, 200);
		if (do_spin) spin_window(v, "connection-held");
		check_bystanders(v, do_new, true);
		vf_stat("held_checks", 1);
	}
	// leaving without DISC keeps a dead pipe on the victim for the keep-alive
	// time; sockets that distribute their own sends over all pipes would
	// starve the bystanders, so only receiving protocols get such peers
	// (a dialing victim whose peer vanishes keeps its pipe for the keep-alive time
	// and does not dial meanwhile: the raw server always says good-bye)
	bool vanish = !v->dial && (um == UM_NODISC || pl->endact == END_RST) && !vp->single && (vp->ck == CK_C2V_1W || vp->ck == CK_C2V_RR) && v->lingering < 6;
	if (!vanish) {
		uint8_t h[8];
		udp_hdr(h, 1, 3, vp->peer, 0, 0);
		(void) send(fd, h, 8, 0);
	} else {
		v->vanished = true;
	}
	if (!v->dial) close(fd);
	PHASE("endact");
	settle(v, 5000);
	v->vanished = false;
	PHASE("settle");
	if (do_spin) spin_window(v, "after-session");
	check_bystanders(v, do_new && !(held && !vp->single), false);
	pump(v);
	PHASE("bystanders");
	if (vf_verbose) fprintf(stderr, "  session %u %s end=%s dgrams=%d deliverable=%d delivered=%d vclosed=%d cack=%d pre=%d rem=%d ctlrem=%d/%d\n", se->serial, pl->mut, endnames[pl->endact], n, se->ndeliverable, se->ndelivered, vclosed, cack, atomic_load(&v->pre), atomic_load(&v->rem), atomic_load(&v->ctl[0].rem), atomic_load(&v->ctl[1].rem));
	session_report(v, se, pl, vclosed, written, written);
	if ((se->serial & 63) == 1) {
		vf_sample("{\"tran\":\"udp\",\"proto\":\"%s\",\"recvmax\":%zu,\"limit\":%zu,\"ttl\":%d,\"mutation\":\"%s\",\"datagrams\":%d,\"deliverable\":%d,\"delivered\":%d,\"disc_seen\":%d}",
		    vp->name, v->recvmax, v->efflimit, v->ttl, pl->mut, n, se->ndeliverable, se->ndelivered, vclosed);
	}
	for (int i = 0; i < n; i++) free(dg[i].p);
}

//@@PICK@@
static const int ws_generic[] = { M_VALID, M_LEN_0, M_LEN_1, M_LEN_MAXM1, M_LEN_MAX, M_LEN_MAXP1, M_LEN_2_32, M_LEN_2_60, M_LEN_2_63, M_LEN_2_64M1,
	M_LEN_MORE, M_LEN_LESS, M_HDR_MISSING, M_HDR_TRUNC, M_HDR_NOTERM, M_HDR_HOPS, M_HDR_ALLHI, M_HDR_FFFFFFFF, M_HDR_80000000, M_HDR_7FFFFFFF,
	M_HDR_HOP0, M_HDR_HOPTTL, M_HDR_HOPTTLP1, M_HDR_HOP255, M_HDR_HOP256, M_HDR_HOPBIG, M_HDR_ID_WRONG, M_HDR_ID_LOW, M_HDR_ID_DUP,
	M_FLOOD_EMPTY, M_FLOOD_SMALL, M_BIG_VALID, M_TRUNC_RANDOM };
static const int udp_generic[] = { M_VALID, M_LEN_0, M_LEN_1, M_LEN_MAXM1, M_LEN_MAX, M_LEN_MAXP1, M_LEN_MORE, M_LEN_LESS,
	M_HDR_MISSING, M_HDR_TRUNC, M_HDR_NOTERM, M_HDR_HOPS, M_HDR_ALLHI, M_HDR_FFFFFFFF, M_HDR_80000000, M_HDR_7FFFFFFF,
	M_HDR_HOP0, M_HDR_HOPTTL, M_HDR_HOPTTLP1, M_HDR_HOP255, M_HDR_HOP256, M_HDR_HOPBIG, M_HDR_ID_WRONG, M_HDR_ID_LOW, M_HDR_ID_DUP,
	M_FLOOD_EMPTY, M_FLOOD_SMALL, M_BIG_VALID };
#define NEL(a) ((int) (sizeof(a) / sizeof((a)[0])))

// protocol header mutation suited to the victim's header model (the others
// still get a share: every model must reject what is not its header)
static int
hdr_mut_for(const victim *v, vf_rng *r)
{
	static const int bt[]  = { M_HDR_HOPS, M_HDR_HOPS, M_HDR_HOPS, M_HDR_NOTERM, M_HDR_NOTERM, M_HDR_MISSING, M_HDR_TRUNC, M_HDR_ALLHI, M_HDR_FFFFFFFF, M_HDR_80000000, M_HDR_7FFFFFFF };
	static const int hop[] = { M_HDR_HOP0, M_HDR_HOPTTL, M_HDR_HOPTTLP1, M_HDR_HOP255, M_HDR_HOP256, M_HDR_HOPBIG, M_HDR_MISSING, M_HDR_TRUNC, M_HDR_FFFFFFFF, M_HDR_80000000 };
	static const int id4[] = { M_HDR_ID_WRONG, M_HDR_ID_LOW, M_HDR_ID_DUP, M_HDR_MISSING, M_HDR_TRUNC, M_HDR_FFFFFFFF, M_HDR_7FFFFFFF };
	if (vf_chance(r, 1, 5)) return M_HDR_MISSING + (int) vf_below(r, M_HDR_ID_DUP - M_HDR_MISSING + 1);
	switch (v->vp->hm) {
	case HM_BT:
	case HM_BT_NOTTL: return bt[vf_below(r, NEL(bt))];
	case HM_HOP: return hop[vf_below(r, NEL(hop))];
	case HM_ID4: return id4[vf_below(r, NEL(id4))];
	default: return M_HDR_MISSING + (int) vf_below(r, M_HDR_ID_DUP - M_HDR_MISSING + 1);
	}
}

static void
pick_plan(victim *v, plan *pl, vf_rng *r)
{
	const char *force = getenv("C11_FORCE_MUT"); // debugging aid: generic mutation by name
	if (force != NULL) {
		for (int m = 0; m < M_STREAM_N; m++) {
			if (!strcmp(force, mutnames[m]) && plan_mutate(v, pl, r, m)) {
				const char *e = getenv("C11_FORCE_END");
				if (e) pl->endact = atoi(e);
				return;
			}
		}
	}
	for (;;) {
		if (v->tran == T_WS) {
			uint32_t x = vf_below(r, 100);
			if (x < 25) {
				plan_valid(v, pl, r, 3);
				pl->x_http = 1 + (int) vf_below(r, (v->dial ? RX_N : HX_N) - 1);
				snprintf(pl->mut, sizeof(pl->mut), "%s", v->dial ? rxnames[pl->x_http] : hxnames[pl->x_http]);
				return;
			}
			if (x < 60) {
				plan_valid(v, pl, r, 3);
				int    j = (int) vf_below(r, 3);
				fspec *f = &pl->fr[j];
				f->x_kind = 1 + (int) vf_below(r, WX_N - 1);
				if (f->x_kind == WX_LEN_OVER_NODATA) {
					if (!v->recvmax) continue;
					f->x_arg = (uint32_t) v->recvmax + 1;
					pl->nfr  = j + 1;
				}
				if (f->x_kind == WX_LEN63) {
					f->x_arg = vf_below(r, 1000);
					pl->nfr  = j + 1;
				}
				if (f->x_kind == WX_FRAG_OVER) {
					if (!v->recvmax) continue;
					f->blen  = (size_t) v->recvmax + 1 + vf_below(r, (uint32_t) (v->recvmax / 2));
					f->body7 = false;
					pl->nfr  = j + 1;
				}
				snprintf(pl->mut, sizeof(pl->mut), "%s", wxnames[f->x_kind]);
				return;
			}
			if (plan_mutate(v, pl, r, ws_generic[vf_below(r, NEL(ws_generic))])) return;
		} else if (v->tran == T_UDP) {
			if (vf_chance(r, 1, 2)) {
				plan_valid(v, pl, r, 3);
				pl->x_http = 1 + (int) vf_below(r, UM_TRUNC_DGRAM - 1);
				int j = (int) vf_below(r, 3);
				pl->fr[j].x_kind = 1;
				if (pl->x_http == UM_FLOOD) {
					pl->nfr = 200;
					for (int i = 3; i < pl->nfr; i++) pl->fr[i] = pl->fr[i % 3];
				}
				snprintf(pl->mut, sizeof(pl->mut), "%s", v->dial ? dumnames[pl->x_http] : umnames[pl->x_http]);
				return;
			}
			if (plan_mutate(v, pl, r, udp_generic[vf_below(r, NEL(udp_generic))])) return;
		} else {
			// categories: handshake 22 %, length 26 %, protocol header 34 %, rest
			uint32_t x = vf_below(r, 100);
			int      m;
			if (x < 22) m = M_HS_MAGIC0 + (int) vf_below(r, M_HS_TWICE - M_HS_MAGIC0 + 1);
			else if (x < 48) m = M_LEN_0 + (int) vf_below(r, M_LEN_LESS - M_LEN_0 + 1);
			else if (x < 82) m = hdr_mut_for(v, r);
			else if (x < 86 && v->tran == T_IPC) m = M_IPC_TYPE0 + (int) vf_below(r, 3);
			else m = (int[]){ M_VALID, M_GARBAGE, M_FLOOD_EMPTY, M_FLOOD_SMALL, M_BIG_VALID, M_TRUNC_RANDOM, M_TRUNC_RANDOM, M_HALFOPEN, M_HALFOPEN }[vf_below(r, 9)];
			if (plan_mutate(v, pl, r, m)) return;
		}
	}
}

// name under which the victim's peer protocol is asked for by a websocket dialer
static const char *
peer_wsname(const vproto *vp)
{
	switch (vp->peer) {
	case 0x10: return "pair";
	case 0x11: return "pair1";
	case 0x20: return "pub";
	case 0x21: return "sub";
	case 0x30: return "req";
	case 0x31: return "rep";
	case 0x50: return "push";
	case 0x51: return "pull";
	case 0x62: return "surveyor";
	case 0x63: return "respondent";
	case 0x70: return "bus";
	}
	return "x";
}

// number of cut positions of the valid session used by the truncation sweep
static long
truncation_space(victim *v, vf_rng *r, long idx)
{
	vf_rng pr;
	bbuf   b = { 0 };
	long   n;
	static plan tp;
	(void) r;
	vf_rng_seed(&pr, vf_seed, (uint64_t) idx * 7919 + 1);
	plan_valid(v, &tp, &pr, 3);
	if (v->tran == T_UDP) {
		static dgram dg[MAXDG];
		int          fd0, k = render_udp(v, &tp, 1, 0, &pr, dg, &fd0);
		n = 0;
		for (int i = 0; i < k; i++) {
			n += (long) dg[i].n;
			free(dg[i].p);
		}
		return n - 1;
	}
	if (v->tran == T_WS) {
		if (v->dial) {
			char sub[64];
			snprintf(sub, sizeof(sub), "%s.sp.nanomsg.org", peer_wsname(v->vp));
			render_http_response(0, "AAAAAAAAAAAAAAAAAAAAAAAA", sub, &pr, &b);
		} else {
			render_http(v, 0, &pr, &b);
		}
		render_ws_frames(v, &tp, 1, 0, &pr, &b);
	} else {
		render_stream(v, &tp, 1, 0, &pr, &b);
	}
	n = (long) b.n;
	free(b.p);
	return n;
}

// make plan 'pl' (a valid session) the one cut at position off
static void
apply_trunc(victim *v, plan *pl, long off, vf_rng *r)
{
	if (v->tran != T_UDP) {
		pl->cut = off;
		return;
	}
	static dgram dg[MAXDG];
	vf_rng       pr = *r;
	int          fd0, k = render_udp(v, pl, 1, 0, &pr, dg, &fd0);
	long         cum = 0;
	bool         done = false;
	pl->x_http = UM_TRUNC_DGRAM;
	pl->cut    = off;
	for (int i = 0; i < k; i++) {
		if (!done && off < cum + (long) dg[i].n) {
			pl->x_dgram = i;
			pl->x_dglen = (size_t) (off - cum);
			if (i > 0) {
				pl->fr[i - 1].x_kind = 1;
				pl->fr[i - 1].x_arg  = (uint32_t) (off - cum);
			}
			done = true;
		}
		cum += (long) dg[i].n;
		free(dg[i].p);
	}
}

// ---------------------------------------------------------------- driver
// A burst of connections that end before (or while) the victim writes its own
// handshake: closed at once, reset, half-closed and then reset (a reset that
// arrives in CLOSE_WAIT makes the victim's first write fail with EPIPE, which
// the platform layer reports as NNG_ECLOSED - the code a listener uses for
// "I was closed"), with 0..8 bytes of a handshake in front.  Nothing is read.
// Only run in front of sessions that end with the fresh-client probe: a
// listener that stopped accepting shows there.
static const char *blitz_names[] = { "close", "rst", "fin-rst", "fin-wait-rst", "partial-hello-fin-rst", "hello-rst", "hello-fin-rst" };
static void
blitz(victim *v, uint32_t salt)
{
	vf_rng br;
	vf_rng_seed(&br, vf_seed ^ 0xb1172ULL, ((uint64_t) v->tran << 40) ^ salt);
	int n = 1 + (int) vf_below(&br, 6);
	for (int i = 0; i < n; i++) {
		int     kind = (int) vf_below(&br, 7);
		// A burst connection that sends a complete valid handshake becomes a
		// real pipe for a moment.  A single-peer (PAIR) victim is then busy
		// until that pipe has gone, which the harness cannot see while the
		// pipe is still negotiating (the statistics count started pipes), and
		// a socket:// client cannot try again: there the fresh-client probe
		// would judge the harness's own race.  tcp/ipc clients redial.
		if (kind >= 5 && v->vp->single && v->tran == T_SOCKFD) kind -= 3;
		uint8_t hello[8];
		char    k[64];
		int     fd = attacker_connect_stream(v);
		if (fd < 0) return;
		vf_sp_hello(hello, v->vp->peer);
		switch (kind) {
		case 0: close(fd); break;
		case 1: fd_close_rst(fd); break;
		case 2:
			shutdown(fd, SHUT_WR);
			fd_close_rst(fd);
			break;
		case 3:
			shutdown(fd, SHUT_WR);
			vf_usleep((int) vf_below(&br, 400));
			fd_close_rst(fd);
			break;
		case 4: {
			ssize_t w = write(fd, hello, vf_below(&br, 8));
			(void) w;
			shutdown(fd, SHUT_WR);
			fd_close_rst(fd);
			break;
		}
		case 5: {
			ssize_t w = write(fd, hello, 8);
			(void) w;
			fd_close_rst(fd);
			break;
		}
		default: {
			ssize_t w = write(fd, hello, 8);
			(void) w;
			shutdown(fd, SHUT_WR);
			if (vf_chance(&br, 1, 2)) vf_usleep((int) vf_below(&br, 400));
			fd_close_rst(fd);
			break;
		}
		}
		vf_stat("blitz_connections", 1);
		snprintf(k, sizeof(k), "blitz_%s", blitz_names[kind]);
		vf_stat(k, 1);
		vf_class("blitz/%s/%s/%s", vtn(v), v->vp->name, blitz_names[kind]);
	}
	vf_stat("blitz_bursts", 1);
	settle(v, 3000);
}

static void
run_session(victim *v, plan *pl, vf_rng *r, bool do_new, bool do_spin)
{
	if (do_new && !v->dial && v->tran != T_UDP && !v->wedged && ((v->nblitz++ & 1) == 0 || getenv("C11_BLITZ_ALL") != NULL) && getenv("C11_NO_BLITZ") == NULL) blitz(v, v->nblitz);
	switch (v->tran) {
	case T_WS: run_ws_session(v, pl, r, do_new, do_spin); break;
	case T_UDP: run_udp_session(v, pl, r, do_new, do_spin); break;
	default: run_stream_session(v, pl, r, do_new, do_spin); break;
	}
}

static void
open_with_control(victim *v, const vproto *vp, int tran, size_t sockmax, size_t recvmax, int ttl, bool with_ctl, bool dial)
{
	victim_open(v, vp, tran, sockmax, recvmax, ttl, dial);
	if (with_ctl) {
		if (!ctl_connect(v, 0)) vf_harness_fail("control client cannot connect to a fresh %s/%s victim", vtn(v), vp->name);
		if (!exchange(v, 0)) vf_harness_fail("control exchange fails on a fresh %s/%s victim", vtn(v), vp->name);
		ctl_mark_established(&v->ctl[0]);
	}
	vf_class("victim/%s/%s/ttl=%d/rm=%zu/%s", vtn(v), vp->name, v->ttl, recvmax, v->limsrc);
}

// what every victim is asked before it goes
static void
victim_finish(victim *v)
{
	if (atomic_load(&v->pipe_limit_bad)) {
		char key[160];
		snprintf(key, sizeof(key), "C11/limit-not-applied/%s/pipe", tnames[v->tran]);
		vf_violation(key, "%s/%s: a pipe of the %s reports NNG_OPT_RECVMAXSZ %lu, the limit in force for it is %lu (source %s, socket %zu)", vtn(v), v->vp->name, v->dial ? "dialer" : "listener",
		    atomic_load(&v->pipe_limit_got), atomic_load(&v->pipe_limit_want), v->limsrc, v->sockmax);
	}
	vf_stat("limit_checks_pipe", atomic_load(&v->pipe_limit_checked));
	// (the socket's "pipes" statistic is what settle() goes by)
	if (vf_pipe_count(v->s) < live_ctl(v)) {
		char k[64];
		snprintf(k, sizeof(k), "pipes_stat_below_live_%s", vtn(v));
		vf_stat(k, 1);
	}
	if (!v->wedged) {
		// whatever a session left behind (a descriptor still registered, a timer
		// that re-arms at once) has had time to show: every victim is looked at
		// once more before it is closed
		if (g_trunc) spin_window(v, "victim-end");
		else spin_probe(v, "victim-end", 40);
	}
	victim_close(v);
}

static int
pick_tran(vf_rng *r)
{
	uint32_t x = vf_below(r, 100);
	return x < 28 ? T_SOCKFD : x < 48 ? T_TCP : x < 68 ? T_IPC : x < 85 ? T_WS : T_UDP;
}

// another of the three limits
static size_t
other_limit(vf_rng *r, size_t not_this)
{
	size_t c[3];
	int    n = 0;
	for (int i = 0; i < 3; i++) {
		if (recvmaxes[i] != not_this) c[n++] = recvmaxes[i];
	}
	return c[vf_below(r, (uint32_t) n)];
}

// ---------------------------------------------------------------- handshakes that never finish
// One socket with a tcp, an ipc and a websocket listener lives beside the
// victims of this worker.  Eight raw connections per listener send the first
// 0..7 bytes of a valid SP handshake (websocket: a valid upgrade request cut
// at eight places) and then nothing.  The library bounds a negotiation (10 s;
// websocket 2 s), so every one of them must have been closed by the library
// when they are looked at no less than 25 s later (then another 10 s on the
// progress clock are waited).  Without the bound a peer that connects and
// goes silent keeps a descriptor and a pipe for ever.
#define HELD_PER 8
static struct {
	bool         open;
	nng_socket   s;
	char         ipcpath[120];
	int          fd[3 * HELD_PER];
	int          tran[3 * HELD_PER];
	size_t       sent[3 * HELD_PER];
	int          nfd;
	uint64_t     t0;
} H;

static void
held_open(vf_rng *r)
{
	nng_listener l;
	int          rv, port_tcp = 0, port_ws = 0;
	char         url[160];
	uint8_t      hello[8];
	bbuf         req = { 0 };
	victim       fake;
	memset(&H, 0, sizeof(H));
	memset(&fake, 0, sizeof(fake));
	if ((rv = nng_rep0_open(&H.s)) != 0) vf_harness_fail("held: open: %s", nng_strerror(rv));
	if ((rv = nng_listener_create(&l, H.s, "tcp://127.0.0.1:0")) != 0 || (rv = nng_listener_start(l, 0)) != 0 || (rv = nng_listener_get_int(l, NNG_OPT_BOUND_PORT, &port_tcp)) != 0) vf_harness_fail("held: tcp: %s", nng_strerror(rv));
	if ((rv = nng_listener_create(&l, H.s, "ws://127.0.0.1:0/c11")) != 0 || (rv = nng_listener_start(l, 0)) != 0 || (rv = nng_listener_get_int(l, NNG_OPT_BOUND_PORT, &port_ws)) != 0) vf_harness_fail("held: ws: %s", nng_strerror(rv));
	snprintf(H.ipcpath, sizeof(H.ipcpath), "/tmp/vf-c11-%d-held.sock", (int) getpid());
	snprintf(url, sizeof(url), "ipc://%s", H.ipcpath);
	if ((rv = nng_listen(H.s, url, NULL, 0)) != 0) vf_harness_fail("held: ipc: %s", nng_strerror(rv));
	vf_sp_hello(hello, 0x30);
	fake.vp   = &vprotos[0]; // rep
	fake.port = port_ws;
	render_http(&fake, HX_NONE, r, &req);
	for (int t = 0; t < 3; t++) {
		for (int k = 0; k < HELD_PER; k++) {
			int    tran = t == 0 ? T_TCP : t == 1 ? T_IPC : T_WS;
			int    fd   = tran == T_IPC ? vf_unix_connect(H.ipcpath, 5000) : vf_tcp_connect((uint16_t) (tran == T_TCP ? port_tcp : port_ws), 5000);
			size_t n    = (size_t) k;
			if (fd < 0) vf_harness_fail("held: connect: %s", strerror(errno));
			fd_nonblock(fd);
			if (tran == T_WS) {
				// nothing, one byte, inside the request line, ..., all but the last byte
				size_t at[HELD_PER] = { 0, 1, 9, 20, req.n / 2, req.n - 4, req.n - 2, req.n - 1 };
				n = at[k];
				if (n > 0 && write(fd, req.p, n) != (ssize_t) n) vf_harness_fail("held: write");
			} else if (n > 0 && write(fd, hello, n) != (ssize_t) n) {
				vf_harness_fail("held: write");
			}
			H.fd[H.nfd]   = fd;
			H.tran[H.nfd] = tran;
			H.sent[H.nfd] = n;
			H.nfd++;
		}
	}
	free(req.p);
	H.t0   = vf_now_ns();
	H.open = true;
}

// true when the held connections have been dealt with
static bool
held_check(bool final)
{
	if (!H.open) return true;
	uint64_t need = 25000000000ULL;
	if (vf_now_ns() - H.t0 < need) {
		if (!final) return false;
		// the worker has run out of cases early: wait for the time to pass
		while (vf_now_ns() - H.t0 < need) {
			vf_watchdog(120);
			vf_msleep(50);
		}
		vf_stat("held_handshakes_waited_for", 1);
	}
	pclock pc;
	bool   closed[3 * HELD_PER] = { false };
	int    nclosed = 0;
	pc_start(&pc);
	atomic_store(&tick_max_over_ns, 0);
	for (;;) {
		for (int i = 0; i < H.nfd; i++) {
			uint8_t tmp[512];
			if (closed[i]) continue;
			for (;;) {
				ssize_t n = read(H.fd[i], tmp, sizeof(tmp)); // (the listener's own handshake bytes come first)
				if (n > 0) continue;
				if (n == 0 || (errno != EAGAIN && errno != EINTR)) {
					closed[i] = true;
					nclosed++;
				}
				break;
			}
		}
		int sp_open = 0;
		for (int i = 0; i < H.nfd; i++) sp_open += !closed[i] && H.tran[i] != T_WS;
		if (nclosed == H.nfd || pc_ms(&pc) > 10000 || (sp_open == 0 && pc_ms(&pc) > 300)) break;
		vf_msleep(5);
	}
	vf_stat("held_handshakes", H.nfd);
	vf_stat("held_handshakes_expired", nclosed);
	for (int i = 0; i < H.nfd; i++) {
		if (closed[i] && H.tran[i] != T_WS) vf_stat("held_sp_handshakes_expired", 1);
	}
	for (int i = 0; i < H.nfd; i++) {
		if (!closed[i] && H.tran[i] == T_WS) {
			// The property names the bound for the SP negotiation only; the
			// HTTP server in front of the websocket is C16's: observed, not judged.
			vf_stat("held_ws_requests_still_open", 1);
			vf_class("held-handshake-kept-open/ws/%zu-bytes", H.sent[i]);
		} else if (!closed[i]) {
			if (starved()) {
				note_starved();
			} else {
				char key[160];
				snprintf(key, sizeof(key), "C11/handshake-never-times-out/%s", tnames[H.tran[i]]);
				vf_violation(key, "a %s connection that sent %zu bytes of its handshake and then nothing is still open %.0f s later (the negotiation is bounded to %s): silent peers keep descriptors and pipes for ever",
				    tnames[H.tran[i]], H.sent[i], (double) (vf_now_ns() - H.t0) / 1e9, H.tran[i] == T_WS ? "2 s" : "10 s");
			}
		} else {
			vf_class("held-handshake-expired/%s/%zu-bytes", tnames[H.tran[i]], H.sent[i]);
		}
		close(H.fd[i]);
	}
	nng_socket_close(H.s);
	unlink(H.ipcpath);
	H.open = false;
	return true;
}

int
main(int argc, char **argv)
{
	vf_init(argc, argv);
	vf_nng_init(4, 2, 2);
	nng_log_set_logger(vf_verbose >= 2 ? nng_stderr_logger : c11_logger);
	nng_log_set_level(NNG_LOG_DEBUG);
	ticker_start();
	vf_rng r;
	long   ncases = 0, last_fini = 0;
	static victim V;
	static plan   pl;
	int only_tran = -1;
	const char *mode = vf_mode;
	// mode may carry a transport restriction: "mut:ws", "trunc:tcp"
	const char *colon = strchr(mode, ':');
	if (colon) {
		for (int t = 0; t < T_N; t++) if (!strcmp(colon + 1, tnames[t])) only_tran = t;
	}
	bool trunc = !strncmp(mode, "trunc", 5);
	const char *fdial = getenv("C11_FORCE_DIAL"); // debugging aid: 0 / 1
	g_trunc = trunc;

	if (trunc) {
		// every byte offset of a valid session x {FIN, RST} x transport x protocol
		long idx = 0;
		for (int t = 0; t < T_N; t++) {
			for (int p = 0; p < NVPROTO; p++) {
				for (int e = 0; e < 2; e++, idx++) {
					if (only_tran >= 0 && t != only_tran) continue;
					// the two end actions of one (transport, protocol) go to the same worker
					if (((idx >> 1) % vf_nshards) != vf_shard) continue;
					uint64_t h = vf_mix64(vf_seed ^ (uint64_t) (t * 64 + p));
					if (vf_tier == 0) {
						// quick: one end action per (transport, protocol), the
						// datagram / websocket sweeps for a third of the protocols;
						// which ones depends on the (worker's) seed
						if (vf_only < 0 && (int) (h & 1) != e) continue;
						if (vf_only < 0 && (t == T_UDP || t == T_WS) && ((h >> 1) % 3) != 0) continue;
						// (a single-peer victim on udp never gets its control client
						// replaced, and the transport's one-message lag piles up over
						// a hundred sessions: two minutes for one victim; thorough only)
						if (vf_only < 0 && t == T_UDP && vprotos[p].single) continue;
					}
					if (!vf_want_case(idx)) continue;
					const vproto *vp = &vprotos[p];
					vf_rng_seed(&r, vf_seed, (uint64_t) idx);
					size_t rm  = recvmaxes[vf_below(&r, 3)];
					int    ttl = (int[]){ 1, 2, 3, 8, 15 }[vf_below(&r, 5)];
					bool   wc  = !vp->single || vf_chance(&r, 1, 3);
					// who connects to whom: in quick one of the two per (transport,
					// protocol), in thorough the two end actions get one each
					bool   dial = t != T_SOCKFD && (vf_tier == 0 ? ((h >> 8) & 1) != 0 : (((h >> 8) & 1) != 0) == (e == 0));
					size_t sm   = vf_chance(&r, 1, 3) ? other_limit(&r, rm) : rm;
					if (fdial) dial = t != T_SOCKFD && atoi(fdial) != 0;
					vf_case_begin(idx, "trunc tran=%s proto=%s end=%s recvmax=%zu sockmax=%zu ttl=%d ctl=%d dial=%d", tnames[t], vp->name, endnames[e], rm, sm, ttl, wc, dial);
					vf_watchdog(120);
					open_with_control(&V, vp, t, sm, rm, ttl, wc, dial);
					long maxoff = truncation_space(&V, &r, idx);
					long step   = 1;
					long nth    = 0;
					if (t == T_WS && vf_tier == 0) step = 3; // ws sessions are > 200 bytes: sampled in quick
					for (long off = (t == T_WS && vf_tier == 0) ? (long) vf_below(&r, 3) : 0; off <= maxoff; off += step, nth++) {
						vf_rng pr;
						vf_rng_seed(&pr, vf_seed, (uint64_t) idx * 7919 + 1);
						plan_valid(&V, &pl, &pr, 3);
						apply_trunc(&V, &pl, off, &pr);
						pl.endact = e;
						pl.chunk  = (int) (off % 3);
						pl.wait_pipe_first = (off & 1) != 0;
						snprintf(pl.mut, sizeof(pl.mut), "trunc");
						run_session(&V, &pl, &pr, (off % 8) == 3, false);
						vf_stat("trunc_offsets", 1);
						if (V.dial) vf_stat("trunc_offsets_dial", 1);
						vf_watchdog(120);
						if (V.wedged) break;
						// a connection cut inside a length word or a body must not
						// leave anything behind that keeps a thread busy
						if ((nth & 15) == 7) spin_probe(&V, "after-cut", 30);
					}
					victim_finish(&V);
					vf_stat("cases", 1);
					if ((++ncases & 15) == 0) {
						vf_nng_fini("C11");
						vf_nng_init(4, 2, 2);
					}
				}
			}
		}
	} else {
		bool with_held = vf_only < 0 && vf_from == 0 && vf_cases >= 8 && only_tran < 0 && getenv("C11_NO_HELD") == NULL;
		if (with_held) {
			vf_rng_seed(&r, vf_seed, 0x48454c44);
			held_open(&r);
		}
		for (long idx = 0; idx < vf_cases; idx++) {
			if (!vf_want_case(idx)) continue;
			vf_rng_seed(&r, vf_seed, (uint64_t) idx);
			int           t   = only_tran >= 0 ? only_tran : pick_tran(&r);
			const vproto *vp  = &vprotos[((uint64_t) idx + vf_mix64(vf_seed) % NVPROTO + vf_below(&r, NVPROTO) * (vf_chance(&r, 1, 4) ? 1u : 0u)) % NVPROTO];
			size_t        rm  = recvmaxes[vf_below(&r, 3)];
			int           ttl = (int[]){ 1, 2, 3, 8, 15 }[vf_below(&r, 5)];
			if (getenv("C11_FORCE_PROTO")) {
				for (int i = 0; i < NVPROTO; i++) if (!strcmp(vprotos[i].name, getenv("C11_FORCE_PROTO"))) vp = &vprotos[i];
			}
			bool          wc  = !vp->single || vf_chance(&r, 1, 3);
			int           nsess = vf_tier ? 24 : 16;
			bool          dribble = rm != (1u << 20) && vf_chance(&r, 1, 4);
			bool          dial = t != T_SOCKFD && vf_chance(&r, 2, 5);
			// the limit in force set on the endpoint, the socket says something else
			size_t        sm  = vf_chance(&r, 1, 3) ? other_limit(&r, rm) : rm;
			// one change on the live endpoint half way (not to 1 MiB while the
			// library reads a few bytes at a time)
			size_t        rm2 = vf_chance(&r, 1, 3) ? other_limit(&r, rm) : rm;
			if (dribble && rm2 == (1u << 20)) rm2 = rm;
			if (fdial) dial = t != T_SOCKFD && atoi(fdial) != 0;
			vf_case_begin(idx, "mut tran=%s proto=%s recvmax=%zu sockmax=%zu then=%zu ttl=%d ctl=%d dribble=%d dial=%d", tnames[t], vp->name, rm, sm, rm2, ttl, wc, dribble, dial);
			vf_watchdog(120);
			// a reaper that is late: the next connection (the dialer's next attempt,
			// the next accept) meets pipes that are still being taken apart
			bool          lazy_reaper = vf_chance(&r, 1, 3) && getenv("C11_NO_LAZY") == NULL;
			open_with_control(&V, vp, t, sm, rm, ttl, wc, dial);
			if (lazy_reaper) {
				vf_pt_target(NNI_VP_PIPE_REAP_BEFORE_CLOSE, 500, 1000, 9000);
				vf_stat("victims_with_late_reaper", 1);
			}
			if (dribble) vf_io_plan(VF_IO_FULL, 0, VF_IO_RANDOM, 1 + vf_below(&r, 12), vf_rand(&r));
			for (int j = 0; j < nsess; j++) {
				if (j == nsess / 2 && rm2 != rm) {
					victim_change_limit(&V, rm2);
					if (V.recvmax == rm2) vf_class("victim/%s/%s/ttl=%d/rm=%zu/%s", vtn(&V), vp->name, V.ttl, rm2, V.limsrc);
				}
				pick_plan(&V, &pl, &r);
				run_session(&V, &pl, &r, vf_chance(&r, 1, 3), vf_chance(&r, 1, vf_tier ? 24 : 40) || getenv("C11_SPIN_ALL") != NULL);
				vf_watchdog(120);
				if (V.wedged) break;
			}
			vf_io_plan(VF_IO_FULL, 0, VF_IO_FULL, 0, 0);
			vf_pt_off();
			victim_finish(&V);
			vf_stat("cases", 1);
			++ncases;
			if (with_held && held_check(false)) with_held = false;
			// (the library cannot be shut down while the held connections wait)
			if (!H.open && ncases - last_fini >= 16) {
				last_fini = ncases;
				vf_nng_fini("C11");
				vf_nng_init(4, 2, 2);
			}
		}
		if (with_held) (void) held_check(true);
	}
	vf_nng_fini("C11");
	// a worker that was not being scheduled now and then has thrown evidence
	// away; more than 2 % of its sessions makes the run inconclusive (floor on
	// the sum over the workers)
	vf_stat("starvation_margin", g_sessions - 50 * g_starved);
	return vf_finish();
}
