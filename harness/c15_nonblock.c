// C15: non-blocking calls never block; poll descriptors mirror readiness.
// Protocol-agnostic differential oracle, applied at quiescent points of
// random histories on every protocol (cooked and raw):
//  (a) poll fd readable but the NONBLOCK op returns NNG_EAGAIN   (busy loop)
//  (b) NONBLOCK op succeeds although the fd was not readable     (missed wake-up)
//  (c) NONBLOCK op returns NNG_EAGAIN and the same op re-issued at once with a
//      100 ms timeout succeeds with no other stimulus             (could-but-didn't)
//  (d) a NONBLOCK call takes longer than 400 ms                   (blocks)
//  (e) after a failed NONBLOCK send the caller still owns the message (ASan /
//      allocator balance decide: the harness frees it).
// (a)/(b) are only reported if they persist after a further settle period.
#include "vfh.h"
#include <poll.h>
#include <unistd.h>

typedef struct {
	const vf_proto *pr;
	bool            raw;
	int             tran;
	nng_socket      s, peer; // 'peer' = the peer the current step talks to
	nng_socket      peers[3];
	bool            peers_open[3];
	int             npeers;
	nng_pipe        pipes[16]; // live pipes of s (from nng_pipe_notify)
	int             npipes;
	nng_msg        *stash; // last message received locally (for echo sends)
	int             rfd, sfd;
	bool            have_rfd, have_sfd;
	char            name[32];
	uint64_t        seq;
	bool            peer_open;
	nng_listener    lst;
	char            durl[128];
} cx_t;

#include <pthread.h>
static pthread_mutex_t pipes_mtx = PTHREAD_MUTEX_INITIALIZER;

static void
pipe_cb(nng_pipe p, nng_pipe_ev ev, void *arg)
{
	cx_t *c = arg;
	pthread_mutex_lock(&pipes_mtx);
	if (ev == NNG_PIPE_EV_ADD_POST) {
		if (c->npipes < 16) c->pipes[c->npipes++] = p;
	} else if (ev == NNG_PIPE_EV_REM_POST) {
		for (int i = 0; i < c->npipes; i++) {
			if (nng_pipe_id(c->pipes[i]) == nng_pipe_id(p)) {
				c->pipes[i] = c->pipes[--c->npipes];
				break;
			}
		}
	}
	pthread_mutex_unlock(&pipes_mtx);
}

static int
fd_readable(int fd)
{
	struct pollfd p = { fd, POLLIN, 0 };
	int           r = poll(&p, 1, 0);
	return r > 0 && (p.revents & POLLIN);
}

static nng_msg *
fresh_msg(cx_t *c)
{
	nng_msg *m;
	size_t   sz = 32;
	if (nng_msg_alloc(&m, sz) != 0) vf_harness_fail("alloc");
	vf_body_make(nng_msg_body(m), sz, 15, c->seq++);
	return m;
}

static bool
settle(cx_t *c)
{
	bool ok = vf_quiesce(c->tran == VF_T_INPROC ? 1 : 3, 2000);
	if (c->tran != VF_T_INPROC) {
		vf_msleep(3);
		ok = vf_quiesce(3, 2000) && ok;
	}
	return ok;
}

static long
activity(void)
{
	return vf_ev_count(NNI_VE_TASK_ENQ) + vf_ev_count(NNI_VE_POLL_BEGIN) + vf_ev_count(NNI_VE_REAP_BEGIN) + vf_ev_count(NNI_VE_AIO_EXPIRE);
}

// After an NNG_EAGAIN: was the library really idle?  Any task, poller wake-up,
// reap or timer expiry in the next 10 ms means some stimulus was still on its
// way when we probed, and the probe is not judged.
static bool
still_idle(void)
{
	long a = activity();
	vf_msleep(10);
	return activity() == a && vf_inflight() == 0;
}

// one non-blocking receive probe
static void
probe_recv(cx_t *c, const char *after)
{
	nng_msg *m = NULL;
	char     key[128];
	if (!settle(c)) { vf_stat("not_quiescent", 1); return; }
	int      pre = c->have_rfd ? fd_readable(c->rfd) : -1;
	uint64_t t0  = vf_now_ns();
	int      rv  = nng_recvmsg(c->s, &m, NNG_FLAG_NONBLOCK);
	double   ms  = (double) (vf_now_ns() - t0) / 1e6;
	vf_stat("probes", 1);
	vf_class("%s/recv/fd%d/rv=%d/after=%s", c->name, pre, rv == 0 ? 0 : rv == NNG_EAGAIN ? 8 : rv, after);
	if (ms > 400.0) {
		snprintf(key, sizeof(key), "C15/blocked/%s.recv", c->name);
		vf_violation(key, "%s: NONBLOCK receive took %.0f ms (result %s) after %s", c->name, ms, nng_strerror(rv), after);
	}
	if (rv == 0) {
		if (pre == 0) {
			// (b) confirm: was it a transient? nothing to re-sample (message
			// consumed); the fd was sampled at quiescence, so a success means the
			// descriptor missed the readiness.
			snprintf(key, sizeof(key), "C15/missed-wakeup/%s.recv", c->name);
			vf_violation(key, "%s: recv poll fd not readable at quiescence but NONBLOCK receive succeeded (after %s)", c->name, after);
		}
		if (c->stash) nng_msg_free(c->stash);
		c->stash = m;
		return;
	}
	if (rv == NNG_EAGAIN) {
		if (pre == 1) {
			// (a) persistent?
			vf_msleep(200);
			settle(c);
			if (fd_readable(c->rfd)) {
				int rv2 = nng_recvmsg(c->s, &m, NNG_FLAG_NONBLOCK);
				if (rv2 == NNG_EAGAIN) {
					snprintf(key, sizeof(key), "C15/readable-but-eagain/%s.recv", c->name);
					vf_violation(key, "%s: recv poll fd stays readable but NONBLOCK receive returns NNG_EAGAIN (after %s)", c->name, after);
				} else if (rv2 == 0) {
					if (c->stash) nng_msg_free(c->stash);
					c->stash = m;
					return;
				}
			}
		}
		// (c) could it have supplied?
		if (!still_idle()) { vf_stat("unjudged_activity_after_eagain", 1); return; }
		if (nng_recvmsg(c->s, &m, NNG_FLAG_NONBLOCK) == 0) {
			// state changed without visible activity?  keep the message, do not judge
			vf_stat("unjudged_second_try_succeeded", 1);
			if (c->stash) nng_msg_free(c->stash);
			c->stash = m;
			return;
		}
		nng_socket_set_ms(c->s, NNG_OPT_RECVTIMEO, 100);
		int rv3 = nng_recvmsg(c->s, &m, 0);
		if (rv3 == 0) {
			snprintf(key, sizeof(key), "C15/eagain-but-can/%s.recv", c->name);
			vf_violation(key, "%s: NONBLOCK receive returned NNG_EAGAIN at quiescence, the same receive with a 100 ms timeout then succeeded (after %s)", c->name, after);
			if (c->stash) nng_msg_free(c->stash);
			c->stash = m;
		}
	}
}

static void
probe_send(cx_t *c, const char *after)
{
	char     key[128];
	nng_msg *m;
	bool     echo = false;
	if (!settle(c)) { vf_stat("not_quiescent", 1); return; }
	if (c->stash != NULL && c->raw) {
		m        = c->stash; // raw protocols need the routing header back
		c->stash = NULL;
		echo     = true;
	} else {
		m = fresh_msg(c);
	}
	int      pre = c->have_sfd ? fd_readable(c->sfd) : -1;
	uint64_t t0  = vf_now_ns();
	int      rv  = nng_sendmsg(c->s, m, NNG_FLAG_NONBLOCK);
	double   ms  = (double) (vf_now_ns() - t0) / 1e6;
	vf_stat("probes", 1);
	vf_class("%s/send%s/fd%d/rv=%d/after=%s", c->name, echo ? "-echo" : "", pre, rv == 0 ? 0 : rv == NNG_EAGAIN ? 8 : rv, after);
	if (ms > 400.0) {
		snprintf(key, sizeof(key), "C15/blocked/%s.send", c->name);
		vf_violation(key, "%s: NONBLOCK send took %.0f ms (result %s) after %s", c->name, ms, nng_strerror(rv), after);
	}
	if (rv == 0) {
		if (pre == 0) {
			snprintf(key, sizeof(key), "C15/missed-wakeup/%s.send", c->name);
			vf_violation(key, "%s: send poll fd not readable at quiescence but NONBLOCK send succeeded (after %s)", c->name, after);
		}
		return; // library owns the message
	}
	// failed: we still own m (e): if the library freed or kept it, ASan / the
	// allocator balance at fini report it
	if (rv == NNG_EAGAIN) {
		if (pre == 1) {
			vf_msleep(200);
			settle(c);
			if (fd_readable(c->sfd)) {
				int rv2 = nng_sendmsg(c->s, m, NNG_FLAG_NONBLOCK);
				if (rv2 == NNG_EAGAIN) {
					snprintf(key, sizeof(key), "C15/readable-but-eagain/%s.send", c->name);
					vf_violation(key, "%s: send poll fd stays readable but NONBLOCK send returns NNG_EAGAIN (after %s)", c->name, after);
				} else if (rv2 == 0) {
					return;
				}
			}
		}
		if (!still_idle()) { vf_stat("unjudged_activity_after_eagain", 1); nng_msg_free(m); return; }
		if (nng_sendmsg(c->s, m, NNG_FLAG_NONBLOCK) == 0) {
			vf_stat("unjudged_second_try_succeeded", 1);
			return;
		}
		nng_socket_set_ms(c->s, NNG_OPT_SENDTIMEO, 100);
		int rv3 = nng_sendmsg(c->s, m, 0);
		if (rv3 == 0) {
			snprintf(key, sizeof(key), "C15/eagain-but-can/%s.send", c->name);
			vf_violation(key, "%s: NONBLOCK send returned NNG_EAGAIN at quiescence, the same send with a 100 ms timeout then succeeded (after %s)", c->name, after);
			return;
		}
	}
	nng_msg_free(m);
}

static int
open_peer(cx_t *c, int pi)
{
	const vf_proto *pp = vf_proto_by_name(c->pr->peer_name);
	int             rv;
	int             want = 1;
	for (int i = 0; i < 3; i++) want += c->peers_open[i] ? 1 : 0;
	if ((rv = pp->open(&c->peers[pi])) != 0) return rv;
	c->peer = c->peers[pi];
	nng_socket_set_ms(c->peer, NNG_OPT_SENDTIMEO, 60);
	nng_socket_set_ms(c->peer, NNG_OPT_RECVTIMEO, 60);
	nng_socket_set_ms(c->peer, NNG_OPT_REQ_RESENDTIME, 60000);
	nng_socket_set_ms(c->peer, NNG_OPT_SURVEYOR_SURVEYTIME, 5000);
	// fast redial, so that after a pipe loss the connection is back before
	// the next probe (a reconnect during a probe would be an extra stimulus)
	nng_socket_set_ms(c->peer, NNG_OPT_RECONNMINT, 3);
	nng_socket_set_ms(c->peer, NNG_OPT_RECONNMAXT, 3);
	if (!strcmp(pp->name, "sub")) nng_sub0_socket_subscribe(c->peer, "", 0);
	if ((rv = nng_dial(c->peer, c->durl, NULL, 0)) != 0) return rv;
	for (int i = 0; i < 2000; i++) {
		// (a PAIR socket refuses further peers: then only the peer side
		// count can be waited for, briefly)
		if (vf_pipe_count(c->s) >= want && vf_pipe_count(c->peer) >= 1) break;
		if (i > 100 && vf_pipe_count(c->s) >= 1 && !strncmp(c->pr->name, "pair", 4)) break;
		vf_msleep(1);
	}
	c->peers_open[pi] = true;
	c->peer_open      = true;
	return 0;
}

static void
run_case(long idx, vf_rng *r, int pi, bool raw, int tran, int nops)
{
	cx_t c;
	char url[128];
	int  rv;
	memset(&c, 0, sizeof(c));
	c.pr   = &vf_protos[pi];
	c.raw  = raw;
	c.tran = tran;
	snprintf(c.name, sizeof(c.name), "%s%s", raw ? "x" : "", c.pr->name);
	vf_case_begin(idx, "proto=%s tran=%s ops=%d", c.name, vf_tran_names[tran], nops);
	if ((rv = (raw ? c.pr->open_raw : c.pr->open)(&c.s)) != 0) vf_harness_fail("open %s: %s", c.name, nng_strerror(rv));
	// long protocol timers: a call that waits for one of them is unambiguous
	nng_socket_set_ms(c.s, NNG_OPT_REQ_RESENDTIME, 60000);
	nng_socket_set_ms(c.s, NNG_OPT_SURVEYOR_SURVEYTIME, 2000);
	if (!strcmp(c.pr->name, "sub") && !raw) nng_sub0_socket_subscribe(c.s, "", 0);
	c.have_rfd = nng_socket_get_recv_poll_fd(c.s, &c.rfd) == 0;
	c.have_sfd = nng_socket_get_send_poll_fd(c.s, &c.sfd) == 0;
	vf_url(tran, url, sizeof(url));
	if ((rv = nng_listen(c.s, url, &c.lst, 0)) != 0) vf_harness_fail("listen %s", nng_strerror(rv));
	vf_dial_url(c.lst, tran, url, c.durl, sizeof(c.durl));

	nng_pipe_notify(c.s, NNG_PIPE_EV_ADD_POST, pipe_cb, &c);
	nng_pipe_notify(c.s, NNG_PIPE_EV_REM_POST, pipe_cb, &c);
	c.npeers = strncmp(c.pr->name, "pair", 4) == 0 ? 1 : (int) vf_range(r, 1, 3);
	probe_recv(&c, "open");
	probe_send(&c, "open");
	for (int i = 0; i < c.npeers; i++) {
		if ((rv = open_peer(&c, i)) != 0) vf_harness_fail("peer: %s", nng_strerror(rv));
	}
	probe_send(&c, "connect");
	probe_recv(&c, "connect");

	char hist[200];
	size_t hl = 0;
	hist[0] = 0;
	for (int i = 0; i < nops; i++) {
		int         op = (int) vf_below(r, 10);
		const char *what = "?";
		int         pi = (int) vf_below(r, (uint32_t) c.npeers);
		c.peer      = c.peers[pi];
		c.peer_open = c.peers_open[pi];
		switch (op) {
		case 0:
		case 1: { // peer sends k messages
			what = "peer-send";
			if (!c.peer_open) break;
			int k = (int) vf_range(r, 1, 4);
			for (int j = 0; j < k; j++) {
				nng_msg *m = fresh_msg(&c);
				if (nng_sendmsg(c.peer, m, 0) != 0) nng_msg_free(m);
			}
			break;
		}
		case 2: { // peer reads
			what = "peer-recv";
			if (!c.peer_open) break;
			nng_msg *m;
			int      k = (int) vf_range(r, 1, 4);
			for (int j = 0; j < k; j++) {
				if (nng_recvmsg(c.peer, &m, 0) == 0) {
					// a replying peer answers (rep/respondent)
					if (!strcmp(c.pr->peer_name, "rep") || !strcmp(c.pr->peer_name, "respondent")) {
						if (nng_sendmsg(c.peer, m, 0) != 0) nng_msg_free(m);
					} else {
						nng_msg_free(m);
					}
				}
			}
			break;
		}
		case 3:
			what = "resize-recvbuf";
			nng_socket_set_int(c.s, NNG_OPT_RECVBUF, (int) vf_below(r, 6));
			break;
		case 4:
			what = "resize-sendbuf";
			nng_socket_set_int(c.s, NNG_OPT_SENDBUF, (int) vf_below(r, 6));
			break;
		case 5: // peer goes away / comes back
			if (c.peer_open) {
				what = "peer-close";
				nng_socket_close(c.peer);
				c.peers_open[pi] = false;
			} else {
				what = "peer-open";
				if (open_peer(&c, pi) != 0) vf_harness_fail("peer reopen");
			}
			break;
		case 7: { // close one of our own pipes (first / random live pipe)
			what = "local-pipe-close";
			nng_pipe p = NNG_PIPE_INITIALIZER;
			pthread_mutex_lock(&pipes_mtx);
			if (c.npipes > 0) p = c.pipes[vf_chance(r, 1, 2) ? 0 : vf_below(r, (uint32_t) c.npipes)];
			pthread_mutex_unlock(&pipes_mtx);
			if (nng_pipe_id(p) > 0) {
				int want = 0;
				for (int k = 0; k < 3; k++) want += c.peers_open[k] ? 1 : 0;
				if (!strncmp(c.pr->name, "pair", 4)) want = want ? 1 : 0;
				nng_pipe_close(p);
				vf_msleep(2);
				// wait for the peer's dialer to come back
				for (int k = 0; k < 1500 && vf_pipe_count(c.s) < want; k++) vf_msleep(1);
				vf_msleep(5);
			}
			break;
		}
		case 6:
			if (!strcmp(c.pr->name, "sub") && !raw) {
				if (vf_chance(r, 1, 2)) { what = "unsubscribe"; nng_sub0_socket_unsubscribe(c.s, "", 0); }
				else { what = "subscribe"; nng_sub0_socket_subscribe(c.s, "", 0); }
			} else {
				what = "nothing";
			}
			break;
		default:
			what = "probe-only";
			break;
		}
		if (hl + strlen(what) + 2 < sizeof(hist)) hl += (size_t) snprintf(hist + hl, sizeof(hist) - hl, "%s%s", i ? "," : "", what);
		if (vf_chance(r, 1, 2)) { probe_recv(&c, what); probe_send(&c, what); }
		else { probe_send(&c, what); probe_recv(&c, what); }
		vf_watchdog(60);
	}
	if ((idx % 7) == 0) vf_sample("{\"proto\":\"%s\",\"tran\":\"%s\",\"history\":\"%s\"}", c.name, vf_tran_names[tran], hist);
	if (c.stash) nng_msg_free(c.stash);
	for (int i = 0; i < 3; i++) {
		if (c.peers_open[i]) nng_socket_close(c.peers[i]);
	}
	nng_socket_close(c.s);
	vf_stat("cases", 1);
	// allocator balance per case (so a leak is attributed to its case)
	vf_nng_fini("C15");
	vf_nng_init(4, 2, 2);
}


// "parked" scenarios: messages from several peers are pending, then ONE
// disruption (closing pipe j for every j, closing peer j, a buffer resize) and
// probes until everything is drained.  Enumerated, not sampled: the pipe that
// holds the oldest pending message is among the j.
static void
run_parked(long idx, vf_rng *r, int pi, bool raw, int tran, int disruption, int target)
{
	cx_t c;
	char url[128];
	int  rv;
	static const char *dnames[] = { "local-pipe-close", "peer-close", "resize-recvbuf", "resize-sendbuf", "none" };
	memset(&c, 0, sizeof(c));
	c.pr   = &vf_protos[pi];
	c.raw  = raw;
	c.tran = tran;
	snprintf(c.name, sizeof(c.name), "%s%s", raw ? "x" : "", c.pr->name);
	vf_case_begin(idx, "parked proto=%s tran=%s disruption=%s target=%d", c.name, vf_tran_names[tran], dnames[disruption], target);
	if ((rv = (raw ? c.pr->open_raw : c.pr->open)(&c.s)) != 0) vf_harness_fail("open");
	nng_socket_set_ms(c.s, NNG_OPT_REQ_RESENDTIME, 60000);
	nng_socket_set_ms(c.s, NNG_OPT_SURVEYOR_SURVEYTIME, 2000);
	if (!strcmp(c.pr->name, "sub") && !raw) nng_sub0_socket_subscribe(c.s, "", 0);
	c.have_rfd = nng_socket_get_recv_poll_fd(c.s, &c.rfd) == 0;
	c.have_sfd = nng_socket_get_send_poll_fd(c.s, &c.sfd) == 0;
	nng_pipe_notify(c.s, NNG_PIPE_EV_ADD_POST, pipe_cb, &c);
	nng_pipe_notify(c.s, NNG_PIPE_EV_REM_POST, pipe_cb, &c);
	vf_url(tran, url, sizeof(url));
	if ((rv = nng_listen(c.s, url, &c.lst, 0)) != 0) vf_harness_fail("listen");
	vf_dial_url(c.lst, tran, url, c.durl, sizeof(c.durl));
	c.npeers = strncmp(c.pr->name, "pair", 4) == 0 ? 1 : 3;
	for (int i = 0; i < c.npeers; i++) {
		if ((rv = open_peer(&c, i)) != 0) vf_harness_fail("peer");
	}
	// a surveyor / req local must speak first so that peers may answer
	if (!raw && (!strcmp(c.pr->name, "req") || !strcmp(c.pr->name, "surveyor"))) {
		nng_msg *m = fresh_msg(&c);
		if (nng_sendmsg(c.s, m, 0) != 0) nng_msg_free(m);
		for (int i = 0; i < c.npeers; i++) {
			nng_msg *q;
			if (nng_recvmsg(c.peers[i], &q, 0) == 0) {
				if (nng_sendmsg(c.peers[i], q, 0) != 0) nng_msg_free(q);
			}
		}
	} else {
		// every peer sends two messages, in a seeded peer order
		int order[3] = { 0, 1, 2 };
		for (int i = c.npeers - 1; i > 0; i--) { int j = (int) vf_below(r, (uint32_t) i + 1); int t = order[i]; order[i] = order[j]; order[j] = t; }
		for (int round = 0; round < 2; round++) {
			for (int i = 0; i < c.npeers; i++) {
				nng_msg *m = fresh_msg(&c);
				if (nng_sendmsg(c.peers[order[i]], m, 0) != 0) nng_msg_free(m);
				settle(&c);
			}
		}
	}
	settle(&c);
	switch (disruption) {
	case 0: {
		nng_pipe p = NNG_PIPE_INITIALIZER;
		pthread_mutex_lock(&pipes_mtx);
		if (target < c.npipes) p = c.pipes[target];
		pthread_mutex_unlock(&pipes_mtx);
		if (nng_pipe_id(p) > 0) {
			// stop the peers from redialling: the state right after the loss is what we probe
			for (int i = 0; i < c.npeers; i++) { nng_socket_set_ms(c.peers[i], NNG_OPT_RECONNMINT, 10000); nng_socket_set_ms(c.peers[i], NNG_OPT_RECONNMAXT, 10000); }
			nng_pipe_close(p);
			vf_msleep(5);
		}
		break;
	}
	case 1:
		if (target < c.npeers) { nng_socket_close(c.peers[target]); c.peers_open[target] = false; vf_msleep(5); }
		break;
	case 2: nng_socket_set_int(c.s, NNG_OPT_RECVBUF, target); break;
	case 3: nng_socket_set_int(c.s, NNG_OPT_SENDBUF, target); break;
	default: break;
	}
	for (int k = 0; k < 8; k++) {
		probe_recv(&c, dnames[disruption]);
		if (k == 0 || k == 4) probe_send(&c, dnames[disruption]);
		vf_watchdog(60);
	}
	if (c.stash) nng_msg_free(c.stash);
	for (int i = 0; i < 3; i++) {
		if (c.peers_open[i]) nng_socket_close(c.peers[i]);
	}
	nng_socket_close(c.s);
	vf_stat("cases", 1);
	vf_stat("parked_cases", 1);
	vf_nng_fini("C15");
	vf_nng_init(4, 2, 2);
}

int
main(int argc, char **argv)
{
	vf_init(argc, argv);
	vf_nng_init(4, 2, 2);
	vf_rng r;
	// enumerate protocol x raw x transport, several histories each
	long idx = 0;
	int  reps = vf_cases > 0 ? (int) vf_cases : 1;
	if (!strcmp(vf_mode, "parked")) reps = 0;
	for (int rep = 0; rep < reps; rep++) {
		for (int pi = 0; pi < vf_nprotos; pi++) {
			for (int raw = 0; raw < 2; raw++) {
				for (int t = 0; t < 2; t++, idx++) {
					if ((idx % vf_nshards) != vf_shard || !vf_want_case(idx)) continue;
					vf_rng_seed(&r, vf_seed, (uint64_t) idx);
					run_case(idx, &r, pi, raw != 0, t == 0 ? VF_T_INPROC : VF_T_TCP, (int) vf_range(&r, 6, 14));
				}
			}
		}
	}
	// enumerated parked-message scenarios
	if (!strcmp(vf_mode, "parked") || vf_tier == 1) {
		long pidx = 1000000;
		for (int pi = 0; pi < vf_nprotos; pi++) {
			for (int raw = 0; raw < 2; raw++) {
				for (int t = 0; t < 2; t++) {
					for (int d = 0; d < 5; d++) {
						int nt = d == 0 ? 3 : d == 1 ? 3 : d == 4 ? 1 : 3;
						for (int tg = 0; tg < nt; tg++, pidx++) {
							if ((pidx % vf_nshards) != vf_shard || !vf_want_case(pidx)) continue;
							vf_rng_seed(&r, vf_seed, (uint64_t) pidx);
							run_parked(pidx, &r, pi, raw != 0, t == 0 ? VF_T_INPROC : VF_T_TCP, d, d >= 2 ? tg * 2 : tg);
						}
					}
				}
			}
		}
	}
	vf_nng_fini("C15");
	return vf_finish();
}
