// C15: non-blocking calls never block; poll descriptors mirror readiness.
// Protocol-agnostic differential oracle, applied at quiescent points of
// random histories on every protocol (cooked and raw):
//  (a) poll fd readable but the NONBLOCK op returns NNG_EAGAIN   (busy loop)
//  (b) NONBLOCK op succeeds although the fd was not readable     (missed wake-up)
//  (c) NONBLOCK op returns NNG_EAGAIN and the same op re-issued at once with a
//      30 ms timeout (carried by an aio) succeeds with no other stimulus
//                                                                 (could-but-didn't)
//  (d) the calling thread sleeps inside a NONBLOCK call: > 1.5 s (protocol
//      timers are >= 2 s), or > 400 ms twice in a row            (blocks)
//  (e) after a failed NONBLOCK send the caller still owns the message (ASan /
//      allocator balance decide: the harness frees it; a failed zero-timeout
//      aio still carries it), and a flagged call never fails with ETIMEDOUT.
// (a) is only reported if it persists after a further settle period; (b) only
// if, between the sample of the descriptor and the call, nothing happened in
// the library and nothing was in flight in any TCP socket of the process (and,
// where a TCP out-queue is full on purpose, "not readable" held at two
// quiescent points 200 ms apart with the kernel's queues unchanged).
// Every probe is issued in one of the API forms nng_recvmsg/nng_sendmsg,
// nng_recv/nng_send (buffers), zero-timeout aio on the socket, and
// nng_ctx_recvmsg/nng_ctx_sendmsg or zero-timeout aio on an extra context;
// the descriptors describe the socket forms, and socket probes follow context
// activity.  (NNG_FLAG_ALLOC does not exist in this version of the API.)
// Quiescent = hook counters zero AND every other thread of the process asleep
// AND no TCP socket of the process (both ends are ours) has bytes that were
// sent but are not yet acknowledged: no verdict depends on how loaded the
// machine is.
#include "vfh.h"
#include <poll.h>
#include <errno.h>
#include <unistd.h>
#include <fcntl.h>
#include <dirent.h>
#include <sys/ioctl.h>
#include <sys/socket.h>
#include <sys/syscall.h>
#include <netinet/in.h>
#include <netinet/tcp.h>
#include <linux/sockios.h>

typedef struct {
	long     inflight; // sent, not acknowledged
	long     unsent;   // queued behind a closed window
	uint64_t h;
} kq_t;

typedef struct {
	const vf_proto *pr;
	bool            raw;
	int             tran;
	nng_socket      s, peer; // 'peer' = the peer the current step talks to
	nng_socket      peers[3];
	bool            peers_open[3];
	int             npeers;
	nng_pipe        pipes[16]; // live pipes of s (from nng_pipe_notify)
	int             npipes;
	nng_msg        *stash; // last message received locally (for echo sends)
	int             rfd, sfd;
	bool            have_rfd, have_sfd;
	bool            fds_fetched;      // poll descriptors have been asked for
	bool            lazy_r, lazy_s;   // next recv / send probe is the first one on a lazily created descriptor
	nng_ctx         ctx;              // one extra context (req, rep, sub, surveyor, respondent)
	bool            have_ctx;
	bool            send_tried_since_recv; // a socket send was attempted since the last successful socket receive
	size_t          msg_size;         // size of locally made messages (0: 32 bytes)
	bool            confirm_pre;      // a readable send descriptor is confirmed BEFORE the attempt (see probe)
	bool            keep_stash;       // raw sends echo a copy of the stashed message, never the original
	vf_rng         *r;
	char            name[32];
	uint64_t        seq;
	bool            peer_open;
	nng_listener    lst;
	char            durl[128];
	bool            dials;            // role swap: the peers listen, the probed socket dials them
	bool            poly;             // pair1 polyamorous
	nng_dialer      dialers[3];
	char            tname[24];        // transport (and role) as it appears in classes
	kq_t            kq;               // kernel queues of the TCP connections at the last settle
	long            settled_at;       // library event counter at the last settle
	volatile long   pipe_events;      // pipes added / removed so far
} cx_t;

// pair1 POLYAMOROUS is a cooked protocol of its own (own send path, own
// per-pipe queues, descriptors taken from the socket's message queues): it
// gets its own name; its peers are ordinary pair1 sockets, up to three.
static const vf_proto poly_proto = { "pair1poly", nng_pair1_open_poly, NULL, 0x11, 0x11, "pair1" };
#define NPROTOS (vf_nprotos + 1)
static const vf_proto *
proto_at(int pi)
{
	return pi < vf_nprotos ? &vf_protos[pi] : &poly_proto;
}

// one peer only (PAIR, not polyamorous)
static bool
single_peer(const vf_proto *pr)
{
	return strncmp(pr->name, "pair", 4) == 0 && pr != &poly_proto;
}

// API forms of one operation.  The first three act on the socket (and so on
// its default context: the poll descriptors describe them), the last two on
// the extra context.
enum { F_MSG = 0, F_BUF, F_AIO, F_CTX, F_CTXAIO, F_N };
static const char *form_names[F_N] = { "msg", "buf", "aio", "ctx", "ctx-aio" };
#define TIMED_MS 30

#include <pthread.h>
static pthread_mutex_t pipes_mtx = PTHREAD_MUTEX_INITIALIZER;

static void
pipe_cb(nng_pipe p, nng_pipe_ev ev, void *arg)
{
	cx_t *c = arg;
	if (vf_verbose > 1) fprintf(stderr, "   pipe %u %s (dialer %d)\n", nng_pipe_id(p), ev == NNG_PIPE_EV_ADD_POST ? "added" : "removed", nng_dialer_id(nng_pipe_dialer(p)));
	pthread_mutex_lock(&pipes_mtx);
	c->pipe_events++;
	if (ev == NNG_PIPE_EV_ADD_POST) {
		if (c->npipes < 16) c->pipes[c->npipes++] = p;
	} else if (ev == NNG_PIPE_EV_REM_POST) {
		for (int i = 0; i < c->npipes; i++) {
			if (nng_pipe_id(c->pipes[i]) == nng_pipe_id(p)) {
				c->pipes[i] = c->pipes[--c->npipes];
				break;
			}
		}
	}
	pthread_mutex_unlock(&pipes_mtx);
}

static int
fd_readable(int fd)
{
	struct pollfd p = { fd, POLLIN, 0 };
	int           r = poll(&p, 1, 0);
	return r > 0 && (p.revents & POLLIN);
}

static nng_msg *
fresh_msg(cx_t *c)
{
	nng_msg *m;
	size_t   sz = c->msg_size ? c->msg_size : 32;
	if (nng_msg_alloc(&m, sz) != 0) vf_harness_fail("alloc");
	vf_body_make(nng_msg_body(m), sz, 15, c->seq++);
	return m;
}

// Quiescence must not depend on how fast the machine is: with a hundred
// runnable processes per CPU a library thread that has been woken (by a task,
// by the kernel: epoll) may not run for tens of milliseconds, and the hook
// counters know nothing of it until it does.  So, besides the counters:
// every other thread of this process is asleep (state S in /proc: a thread
// that was woken is R whether it has a CPU or not) ...
static bool
threads_all_asleep(void)
{
	DIR           *d = opendir("/proc/self/task");
	struct dirent *e;
	long           me = (long) syscall(SYS_gettid);
	bool           ok = true;
	if (d == NULL) return true;
	while (ok && (e = readdir(d)) != NULL) {
		char path[64], buf[256], *q;
		if (e->d_name[0] < '0' || e->d_name[0] > '9' || atol(e->d_name) == me) continue;
		snprintf(path, sizeof(path), "/proc/self/task/%s/stat", e->d_name);
		int fd = open(path, O_RDONLY | O_CLOEXEC);
		if (fd < 0) continue; // gone
		ssize_t n = read(fd, buf, sizeof(buf) - 1);
		close(fd);
		if (n <= 0) continue;
		buf[n] = 0;
		if ((q = strrchr(buf, ')')) == NULL || q[1] != ' ') continue;
		if (q[2] == 'R' || q[2] == 'D') ok = false;
	}
	closedir(d);
	return ok;
}

// ... and no TCP socket of this process (both ends of every connection are
// ours) has bytes that were sent but are not yet acknowledged: whatever was
// sent has reached the receiving socket (and woken its poller, if that was
// armed), however long the kernel's soft interrupts are delayed.  Bytes that
// are queued but NOT yet sent (the receiver's window is closed because the
// peer does not read: back pressure made on purpose) are not "on their way".
// The snapshot also carries a hash of every queue length, so that "nothing
// moved in the kernel between two points" can be stated.

// the live TCP connections of the process; descriptors are handed out lowest
// first, so a long run of unused numbers ends the scan
static int
tcp_fds(int *out, int max)
{
	int n = 0, bad = 0;
	for (int fd = 3; fd < 1024 && bad < 24 && n < max; fd++) {
		int                     ty;
		socklen_t               l = sizeof(ty);
		struct sockaddr_storage ss;
		socklen_t               sl = sizeof(ss);
		struct tcp_info         ti;
		socklen_t               tl = sizeof(ti);
		if (getsockopt(fd, SOL_SOCKET, SO_TYPE, &ty, &l) != 0) {
			bad = errno == EBADF ? bad + 1 : 0;
			continue;
		}
		bad = 0;
		if (ty != SOCK_STREAM) continue;
		if (getsockname(fd, (struct sockaddr *) &ss, &sl) != 0 || (ss.ss_family != AF_INET && ss.ss_family != AF_INET6)) continue;
		// a connection that was reset (the peer closed with our data unread,
		// or was gone when we sent) keeps its byte counts for ever: it is
		// dead, nothing of it is on its way
		if (getsockopt(fd, IPPROTO_TCP, TCP_INFO, &ti, &tl) == 0 && (ti.tcpi_state == TCP_CLOSE || ti.tcpi_state == TCP_LISTEN)) continue;
		out[n++] = fd;
	}
	return n;
}

static void
kq_sample(kq_t *k)
{
	k->inflight = k->unsent = 0;
	k->h        = 1469598103934665603ULL;
	int fds[64], n = tcp_fds(fds, 64);
	for (int j = 0; j < n; j++) {
		int q = 0, nsd = 0, inq = 0, fd = fds[j];
		if (ioctl(fd, SIOCOUTQ, &q) != 0) q = 0;
		if (ioctl(fd, SIOCOUTQNSD, &nsd) != 0) nsd = 0;
		if (ioctl(fd, SIOCINQ, &inq) != 0) inq = 0;
		if (q > nsd) k->inflight += q - nsd;
		k->unsent += nsd;
		uint64_t v[4] = { (uint64_t) fd, (uint64_t) q, (uint64_t) nsd, (uint64_t) inq };
		for (int i = 0; i < 4; i++) k->h = (k->h ^ v[i]) * 1099511628211ULL;
	}
}

static bool
tcp_nothing_in_flight(void)
{
	kq_t k;
	kq_sample(&k);
	return k.inflight == 0;
}

// Limit what the kernel buffers on every TCP connection of the process, so
// that a few large messages fill the path to a peer that does not read.
static void
tcp_small_buffers(int bytes)
{
	int fds[64], n = tcp_fds(fds, 64);
	for (int j = 0; j < n; j++) {
		setsockopt(fds[j], SOL_SOCKET, SO_SNDBUF, &bytes, sizeof(bytes));
		setsockopt(fds[j], SOL_SOCKET, SO_RCVBUF, &bytes, sizeof(bytes));
	}
}

// An acknowledgement that the receiving kernel holds back (delayed ACK: 40 ms
// and more) is sent at once when TCP_QUICKACK is set on the receiving socket:
// then "not yet acknowledged" means "not yet delivered", and nothing has to
// be waited for that is not really on its way.
static void
tcp_flush_acks(void)
{
	int fds[64], n = tcp_fds(fds, 64), one = 1;
	for (int j = 0; j < n; j++) setsockopt(fds[j], IPPROTO_TCP, TCP_QUICKACK, &one, sizeof(one));
}

static long activity(void);

// The order matters: nothing in flight at t1, then every thread asleep at
// t2 > t1 (whatever a delivery before t1 woke is visible at t2, running or
// runnable), and no library event between before-t1 and after-t2 (a thread
// that ran and went back to sleep in between - and may have sent - shows in
// the counters).  The snapshot of t1 and the counter value are kept for the
// probe that follows.
static bool
settle(cx_t *c)
{
	int flying = 0;
	for (int tries = 0; tries < 300; tries++) {
		if (!vf_quiesce(c->tran == VF_T_INPROC ? 1 : 3, 2000)) return false;
		if (c->tran != VF_T_INPROC) {
			vf_msleep(3);
			if (!vf_quiesce(3, 2000)) return false;
		}
		long a = activity();
		if (c->tran == VF_T_TCP) {
			kq_sample(&c->kq);
			if (c->kq.inflight != 0) {
				tcp_flush_acks();
				if (flying++ == 0) continue; // look again at once
				if (flying == 2) vf_stat("settle_waited_for_tcp_ack", 1);
				if (flying > 100) {
					if (vf_verbose) {
						int fds[64], n = tcp_fds(fds, 64);
						for (int j = 0; j < n; j++) {
							int q = 0, nsd = 0, inq = 0;
							ioctl(fds[j], SIOCOUTQ, &q); ioctl(fds[j], SIOCOUTQNSD, &nsd); ioctl(fds[j], SIOCINQ, &inq);
							fprintf(stderr, "  settle: tcp fd %d outq %d notsent %d inq %d\n", fds[j], q, nsd, inq);
						}
					}
					return false;
				}
				tries--;
				vf_msleep(1);
				continue;
			}
		}
		if (threads_all_asleep() && vf_inflight() == 0 && activity() == a) {
			c->settled_at = a;
			return true;
		}
		vf_stat("settle_retries_thread_runnable", 1);
		vf_msleep(1);
	}
	return false;
}

static long
activity(void)
{
	return vf_ev_count(NNI_VE_TASK_ENQ) + vf_ev_count(NNI_VE_POLL_BEGIN) + vf_ev_count(NNI_VE_REAP_BEGIN) + vf_ev_count(NNI_VE_AIO_EXPIRE);
}

// After an NNG_EAGAIN: was the library really idle?  Any task, poller wake-up,
// reap or timer expiry in the next 10 ms, a thread that is runnable at the
// end of them, or data still on its way through the kernel (waited for: a
// delayed ACK takes 40 ms) means some stimulus was still on its way when we
// probed, and the probe is not judged.
static bool
still_idle(cx_t *c)
{
	for (int round = 0; round < 2; round++) {
		long a = activity();
		kq_t k0, k1;
		if (c->tran == VF_T_TCP) kq_sample(&k0);
		vf_msleep(10);
		if (c->tran == VF_T_TCP) {
			int i = 0;
			for (;;) {
				kq_sample(&k1);
				if (k1.inflight == 0) break;
				if (++i > 300) return false;
				tcp_flush_acks();
				if (i > 1) vf_msleep(1);
			}
			if (i > 0) {
				vf_stat("idle_checks_waited_for_tcp_ack", 1);
				vf_msleep(2);
			}
			// an acknowledgement that arrived meanwhile is a movement too:
			// look once more, over a fresh window
			if (k1.h != k0.h) continue;
		}
		return activity() == a && vf_inflight() == 0 && threads_all_asleep() && activity() == a;
	}
	return false;
}

// The poll descriptors are created lazily by the library, on first request.
static void
fetch_fds(cx_t *c, bool lazy)
{
	if (c->fds_fetched) return;
	c->fds_fetched = true;
	c->have_rfd    = nng_socket_get_recv_poll_fd(c->s, &c->rfd) == 0;
	c->have_sfd    = nng_socket_get_send_poll_fd(c->s, &c->sfd) == 0;
	c->lazy_r      = lazy && c->have_rfd;
	c->lazy_s      = lazy && c->have_sfd;
	if (lazy) vf_stat("lazy_fd_fetches", 1);
}

// A message arrived at the harness through the socket / the context.
static void
keep_msg(cx_t *c, nng_msg *m, bool ctxf)
{
	if (!ctxf) c->send_tried_since_recv = false;
	if (m == NULL) return;
	if (ctxf) { nng_msg_free(m); return; }
	if (c->stash) nng_msg_free(c->stash);
	c->stash = m;
}

// One receive in the given API form: NONBLOCK (zero timeout for the aio
// forms), or with a timeout of tmo ms.  NNG_ETIMEDOUT of a zero-timeout aio
// is what NNG_EAGAIN is for the flag.  *mp is NULL after a successful
// buffer-form receive (the body was copied out).
static int
do_recv(cx_t *c, int form, bool nb, int tmo, nng_msg **mp)
{
	int rv;
	*mp = NULL;
	// The timed retry carries its timeout in an aio: the socket's own
	// timeouts stay at 5 s, so a NONBLOCK call that (wrongly) waits for the
	// socket timeout sleeps long enough for clause (d).
	if (!nb) form = form >= F_CTX ? F_CTXAIO : F_AIO;
	switch (form) {
	case F_MSG:
		return nng_recvmsg(c->s, mp, NNG_FLAG_NONBLOCK);
	case F_BUF: {
		char   buf[256];
		size_t sz = sizeof(buf);
		return nng_recv(c->s, buf, &sz, NNG_FLAG_NONBLOCK);
	}
	case F_CTX:
		return nng_ctx_recvmsg(c->ctx, mp, NNG_FLAG_NONBLOCK);
	default: {
		nng_aio *a;
		if (nng_aio_alloc(&a, NULL, NULL) != 0) vf_harness_fail("aio alloc");
		nng_aio_set_timeout(a, nb ? NNG_DURATION_ZERO : tmo);
		if (form == F_AIO) nng_socket_recv(c->s, a);
		else nng_ctx_recv(c->ctx, a);
		nng_aio_wait(a);
		rv = nng_aio_result(a);
		if (rv == 0) *mp = nng_aio_get_msg(a);
		nng_aio_free(a);
		if (nb && rv == NNG_ETIMEDOUT) rv = NNG_EAGAIN;
		return rv;
	}
	}
}

// One send.  On success the library owns (or has copied) the message and m
// is gone; on failure the caller still owns m (clause e).
static int
do_send(cx_t *c, int form, bool nb, int tmo, nng_msg *m, const char *after)
{
	int rv;
	if (!nb) form = form >= F_CTX ? F_CTXAIO : F_AIO; // see do_recv
	switch (form) {
	case F_MSG:
		return nng_sendmsg(c->s, m, NNG_FLAG_NONBLOCK);
	case F_BUF:
		// the caller's buffer is copied: the library's copy is the library's
		// business in both outcomes (allocator balance decides)
		rv = nng_send(c->s, nng_msg_body(m), nng_msg_len(m), NNG_FLAG_NONBLOCK);
		if (rv == 0) nng_msg_free(m);
		return rv;
	case F_CTX:
		return nng_ctx_sendmsg(c->ctx, m, NNG_FLAG_NONBLOCK);
	default: {
		nng_aio *a;
		if (nng_aio_alloc(&a, NULL, NULL) != 0) vf_harness_fail("aio alloc");
		nng_aio_set_timeout(a, nb ? NNG_DURATION_ZERO : tmo);
		nng_aio_set_msg(a, m);
		if (form == F_AIO) nng_socket_send(c->s, a);
		else nng_ctx_send(c->ctx, a);
		nng_aio_wait(a);
		rv = nng_aio_result(a);
		if (rv != 0 && nng_aio_get_msg(a) != m && nb) {
			// (e) for the aio form: the message stays attached to the aio
			char key[128];
			snprintf(key, sizeof(key), "C15/msg-not-left/%s.%ssend", c->name, form == F_CTXAIO ? "ctx-" : "");
			vf_violation(key, "%s: zero-timeout aio send failed (%s) and the message is no longer attached to the aio (after %s)", c->name, nng_strerror(rv), after);
		}
		nng_aio_free(a);
		if (nb && rv == NNG_ETIMEDOUT) rv = NNG_EAGAIN;
		return rv;
	}
	}
}

// Clause (d) without a wall-clock verdict: how long the calling thread SLEPT
// inside a call - wall time minus the time it was running and minus the time
// it was runnable but waiting for a CPU (/proc/thread-self/schedstat).  On an
// overloaded machine a call can take a second without ever blocking.
typedef struct {
	uint64_t wall, cpu, delay;
} tmark;

static void
tmark_get(tmark *t)
{
	static int fd = -2;
	char       buf[96];
	t->cpu = t->delay = 0;
	if (fd == -2) fd = open("/proc/thread-self/schedstat", O_RDONLY | O_CLOEXEC);
	if (fd >= 0) {
		ssize_t n = pread(fd, buf, sizeof(buf) - 1, 0);
		if (n > 0) {
			unsigned long long a = 0, b = 0;
			buf[n] = 0;
			if (sscanf(buf, "%llu %llu", &a, &b) == 2) { t->cpu = a; t->delay = b; }
		}
	}
	t->wall = vf_now_ns();
}

static double
slept_ms(const tmark *a, const tmark *b)
{
	double w = (double) (b->wall - a->wall), busy = (double) (b->cpu - a->cpu) + (double) (b->delay - a->delay);
	return (w > busy ? w - busy : 0.0) / 1e6;
}

static int
rvclass(int rv)
{
	return rv == 0 ? 0 : rv == NNG_EAGAIN ? 8 : rv;
}

// One non-blocking probe (receive or send) in one API form, judged.
// Returns the result of the first NONBLOCK attempt.
static int
probe(cx_t *c, bool send, int form, const char *after)
{
	char        key[160];
	bool        ctxf = form >= F_CTX;
	const char *op   = send ? (ctxf ? "ctx-send" : "send") : (ctxf ? "ctx-recv" : "recv");
	const char *verb = send ? "send" : "receive";
	nng_msg    *m    = NULL;
	bool        echo = false;
	bool        tried_before = c->send_tried_since_recv;
	if (!settle(c)) {
		vf_stat("not_quiescent", 1);
		if (vf_verbose) fprintf(stderr, "  not quiescent: inflight %ld tasks+polls+reaps+expires %ld\n", vf_inflight(), activity());
		return -1;
	}
	if (send) {
		if (c->stash != NULL && c->raw) {
			// raw protocols need the routing header back; sometimes keep the
			// original so that several sends can be routed
			if (c->keep_stash || vf_chance(c->r, 1, 2)) {
				if (nng_msg_dup(&m, c->stash) != 0) vf_harness_fail("dup");
			} else {
				m        = c->stash;
				c->stash = NULL;
			}
			echo = true;
			if (c->msg_size > nng_msg_len(m)) {
				// a large message with the routing header of the stashed one
				size_t pad = c->msg_size - nng_msg_len(m);
				void  *z   = calloc(1, pad);
				if (z == NULL || nng_msg_append(m, z, pad) != 0) vf_harness_fail("pad");
				free(z);
			}
			if (form == F_BUF) form = F_MSG; // a buffer has no header
		} else {
			m = fresh_msg(c);
			// polyamorous: sometimes address the pipe the last received
			// message came from (otherwise: any connected peer)
			if (c->poly && c->stash != NULL && (c->seq & 1)) nng_msg_set_pipe(m, nng_msg_get_pipe(c->stash));
		}
	}
	int  pre = -1;
	long a0  = c->settled_at;
	if (!ctxf) pre = send ? (c->have_sfd ? fd_readable(c->sfd) : -1) : (c->have_rfd ? fd_readable(c->rfd) : -1);
	bool pre_stable = false;
	if (c->confirm_pre && send && !ctxf && pre == 1) {
		// Where a refused attempt itself changes the state (a REP send
		// that fails consumes the reply state and clears the descriptor),
		// "the descriptor STAYS readable" cannot be established afterwards:
		// it is established before - readable at two quiescent points
		// 200 ms apart, with nothing done in between.
		vf_msleep(200);
		if (!settle(c)) { vf_stat("not_quiescent", 1); nng_msg_free(m); return -1; }
		a0         = c->settled_at;
		pre        = fd_readable(c->sfd);
		pre_stable = pre == 1;
	}
	// "Not readable" is a statement about the library only if nothing was on
	// its way when the descriptor was sampled and nothing happened between
	// the sample and the call: hook counters unchanged, every other thread
	// asleep, nothing sent-but-unacknowledged in any TCP socket.  Where a TCP
	// out-queue is full on purpose (the window is closed; what re-opens it -
	// a window update - is not visible in any queue length) the persistence
	// re-check is made BEFORE the call, because a success changes the state:
	// not readable at two quiescent points 200 ms apart with every kernel
	// queue length unchanged.
	bool pre_sure = true;
	if (pre == 0) {
		if (c->tran == VF_T_TCP && c->kq.unsent > 0) {
			kq_t k0 = c->kq, k1;
			vf_msleep(200);
			if (!settle(c)) { vf_stat("not_quiescent", 1); if (send) nng_msg_free(m); return -1; }
			a0  = c->settled_at;
			pre = send ? fd_readable(c->sfd) : fd_readable(c->rfd);
			kq_sample(&k1);
			if (c->kq.h != k0.h || k1.h != k0.h) pre_sure = false;
			if (pre == 0 && pre_sure) vf_stat("unreadable_confirmed_under_backpressure", 1);
		}
		// (settle: nothing in flight, then every thread asleep; and since then)
		if (vf_inflight() != 0 || activity() != a0) pre_sure = false;
	}
	// (timers and reaps are never the doing of a NONBLOCK call itself: one that
	// fires while the call runs is a stimulus of its own)
	long timers0 = vf_ev_count(NNI_VE_AIO_EXPIRE) + vf_ev_count(NNI_VE_REAP_BEGIN);
	bool lazy = false;
	if (!ctxf && pre >= 0 && (send ? c->lazy_s : c->lazy_r)) {
		// first look at a descriptor that was created after the history so far
		lazy = true;
		if (send) c->lazy_s = false; else c->lazy_r = false;
		vf_stat("lazy_fd_first_probes", 1);
		if (pre == 1) vf_stat("lazy_fd_first_probe_raised", 1);
	}
	tmark t0, t1;
	tmark_get(&t0);
	int rv = send ? do_send(c, form, true, 0, m, after) : do_recv(c, form, true, 0, &m);
	tmark_get(&t1);
	double ms = slept_ms(&t0, &t1);
	char     stat[64];
	vf_stat("probes", 1);
	snprintf(stat, sizeof(stat), "probes_%s", c->name);
	vf_stat(stat, 1);
	snprintf(stat, sizeof(stat), "probes_form_%s", form_names[form]);
	vf_stat(stat, 1);
	if (send && !ctxf) c->send_tried_since_recv = true;
	if (vf_verbose) fprintf(stderr, "  probe %s %s-%s fd%d rv=%d after %s\n", c->name, op, form_names[form], pre, rv, after);
	vf_class("%s/%s/%s%s/fd%d/rv=%d/after=%s", c->name, c->tname, op, echo ? "-echo" : "", pre, rvclass(rv), after);
	vf_class("form:%s/%s-%s/rv=%d", c->name, op, form_names[form], rvclass(rv));
	if (lazy) vf_class("lazy:%s/%s/fd%d/rv=%d", c->name, op, pre, rvclass(rv));
	if (ms > 400.0) {
		// (d) Protocol timers are >= 2 s here, so a call that sleeps longer
		// than 1.5 s waited for one of them (or for its peer).  A shorter
		// sleep counts if the same call, repeated at once, sleeps again
		// (the caller may also have slept on a lock whose holder was kept
		// off the CPU: that does not repeat).
		bool   blocked = ms > 1500.0;
		double ms2     = 0;
		int    rv2     = rv;
		vf_stat("slow_calls", 1);
		if (!blocked && rv != 0) {
			tmark_get(&t0);
			rv2 = send ? do_send(c, form, true, 0, m, after) : do_recv(c, form, true, 0, &m);
			tmark_get(&t1);
			ms2     = slept_ms(&t0, &t1);
			blocked = ms2 > 400.0;
		}
		if (blocked) {
			snprintf(key, sizeof(key), "C15/blocked/%s.%s", c->name, op);
			vf_violation(key, "%s: NONBLOCK %s (%s form) slept %.0f ms inside the call (result %s; repeated: %.0f ms) after %s", c->name, verb, form_names[form], ms, nng_strerror(rv), ms2, after);
		} else {
			vf_stat("slow_calls_not_blocked", 1);
		}
		// not judged any further
		if (send && rv2 != 0) nng_msg_free(m);
		if (!send && rv2 == 0) keep_msg(c, m, ctxf);
		return rv;
	}
	if (rv == 0) {
		if (pre == 0 && vf_ev_count(NNI_VE_AIO_EXPIRE) + vf_ev_count(NNI_VE_REAP_BEGIN) != timers0) pre_sure = false;
		if (pre == 0 && !pre_sure) {
			vf_stat("missed_wakeup_unjudged_not_quiet", 1);
		} else if (pre == 0) {
			// (b) the fd was sampled at quiescence, so a success means the
			// descriptor missed the readiness
			snprintf(key, sizeof(key), "C15/missed-wakeup/%s.%s", c->name, op);
			vf_violation(key, "%s: %s poll fd not readable at quiescence but NONBLOCK %s (%s form) succeeded (after %s%s)", c->name, op, verb, form_names[form], after, lazy ? "; descriptor created lazily just before" : "");
		}
		if (!send) keep_msg(c, m, ctxf);
		return rv; // a sent message is the library's
	}
	if (rv == NNG_ETIMEDOUT && form != F_AIO && form != F_CTXAIO) {
		// a call with NNG_FLAG_NONBLOCK that cannot proceed fails with
		// NNG_EAGAIN (or a state error), it has no time to run out of
		snprintf(key, sizeof(key), "C15/etimedout-not-eagain/%s.%s", c->name, op);
		vf_violation(key, "%s: %s with NNG_FLAG_NONBLOCK (%s form) failed with NNG_ETIMEDOUT instead of NNG_EAGAIN (after %s)", c->name, verb, form_names[form], after);
	}
	if (rv != NNG_EAGAIN) {
		// a state error etc.: failed at once, the message is ours again
		if (send) nng_msg_free(m);
		return rv;
	}
	if (pre_stable) {
		snprintf(key, sizeof(key), "C15/readable-but-eagain/%s.%s", c->name, op);
		vf_violation(key, "%s: %s poll fd readable at two quiescent points 200 ms apart, then NONBLOCK %s (%s form) returns NNG_EAGAIN (after %s)", c->name, op, verb, form_names[form], after);
		nng_msg_free(m);
		return rv;
	}
	if (pre == 1) {
		// (a) persistent?
		vf_msleep(200);
		settle(c);
		if (fd_readable(send ? c->sfd : c->rfd)) {
			int rv2 = send ? do_send(c, form, true, 0, m, after) : do_recv(c, form, true, 0, &m);
			if (rv2 == NNG_EAGAIN) {
				snprintf(key, sizeof(key), "C15/readable-but-eagain/%s.%s", c->name, op);
				vf_violation(key, "%s: %s poll fd stays readable but NONBLOCK %s (%s form) returns NNG_EAGAIN (after %s)", c->name, op, verb, form_names[form], after);
			} else if (rv2 == 0) {
				if (!send) keep_msg(c, m, ctxf);
				return rv;
			}
		}
	}
	// (c) could it have accepted / supplied?
	if (!still_idle(c)) {
		vf_stat("unjudged_activity_after_eagain", 1);
		if (send) nng_msg_free(m);
		return rv;
	}
	int rv2 = send ? do_send(c, form, true, 0, m, after) : do_recv(c, form, true, 0, &m);
	if (rv2 == 0) {
		// state changed without visible activity?  do not judge
		vf_stat("unjudged_second_try_succeeded", 1);
		if (!send) keep_msg(c, m, ctxf);
		return rv;
	}
	int rv3 = send ? do_send(c, form, false, TIMED_MS, m, after) : do_recv(c, form, false, TIMED_MS, &m);
	vf_stat("eagain_judged", 1);
	if (rv3 == 0) {
		// The one known finding (known_findings.json, C15/eagain-but-can/
		// respondent.send: resp0_ctx_send asks nni_aio_start before it tries,
		// pinned by the repository's "respond context send nonblock" test) is
		// a property of the function that serves the socket and the context
		// form alike, so both forms report it under that key.  What it must
		// not hide gets a key of its own: the send descriptor of a
		// RESPONDENT that was NOT readable although the reply could be sent
		// and no failed attempt of ours had cleared it (with that defect a
		// NONBLOCK send never succeeds, so clause (b) can never see it).
		const char *sit = "";
		const char *kop = op;
		if (send && !strcmp(c->name, "respondent")) {
			kop = "send";
			if (!ctxf && pre == 0 && !tried_before) sit = ".fd-unreadable";
		}
		snprintf(key, sizeof(key), "C15/eagain-but-can/%s.%s%s", c->name, kop, sit);
		vf_violation(key, "%s: NONBLOCK %s (%s form) returned NNG_EAGAIN at quiescence (poll fd state %d), the same %s with a %d ms timeout then succeeded (after %s)", c->name, verb, form_names[form], pre, verb, TIMED_MS, after);
		if (!send) keep_msg(c, m, ctxf);
		return rv;
	}
	if (send) nng_msg_free(m);
	return rv;
}

static int
sock_form(cx_t *c)
{
	uint32_t k = vf_below(c->r, 4);
	return k < 2 ? F_MSG : k == 2 ? F_BUF : F_AIO;
}

static int
probe_recv(cx_t *c, const char *after)
{
	return probe(c, false, sock_form(c), after);
}

static int
probe_send(cx_t *c, const char *after)
{
	return probe(c, true, sock_form(c), after);
}

static void
probe_ctx(cx_t *c, bool send, const char *after)
{
	if (!c->have_ctx) return;
	int rv = probe(c, send, vf_chance(c->r, 3, 5) ? F_CTX : F_CTXAIO, after);
	// the socket probes that follow judge the descriptors after this
	if (rv == 0) vf_stat("ctx_ops_succeeded", 1);
}

// all probes of one step, in a seeded order (context probes between, before
// and after the socket probes: mixed use)
static void
probe_all(cx_t *c, const char *after)
{
	int order[4] = { 0, 1, 2, 3 };
	int n        = c->have_ctx ? 4 : 2;
	for (int i = n - 1; i > 0; i--) {
		int j = (int) vf_below(c->r, (uint32_t) i + 1), t = order[i];
		order[i] = order[j];
		order[j] = t;
	}
	for (int i = 0; i < n; i++) {
		switch (order[i]) {
		case 0: probe_recv(c, after); break;
		case 1: probe_send(c, after); break;
		case 2: probe_ctx(c, false, after); break;
		default: probe_ctx(c, true, after); break;
		}
	}
}

// Open the local socket: options, extra context, listener (or, with the
// roles swapped, nothing: every peer listens and the local socket dials it,
// so its pipes come from dialers and, after a loss, from its own redial).
static void
open_local(cx_t *c, int pi, bool raw, int tran, vf_rng *r, bool dials)
{
	int  rv;
	char url[128];
	memset(c, 0, sizeof(*c));
	c->pr    = proto_at(pi);
	c->raw   = raw;
	c->tran  = tran;
	c->r     = r;
	c->dials = dials;
	c->poly  = c->pr == &poly_proto;
	snprintf(c->name, sizeof(c->name), "%s%s", raw ? "x" : "", c->pr->name);
	snprintf(c->tname, sizeof(c->tname), "%s%s", vf_tran_names[tran], dials ? "/role=dial" : "");
	if ((rv = (raw ? c->pr->open_raw : c->pr->open)(&c->s)) != 0) vf_harness_fail("open %s: %s", c->name, nng_strerror(rv));
	// long protocol timers: a call that waits for one of them is unambiguous
	nng_socket_set_ms(c->s, NNG_OPT_REQ_RESENDTIME, 60000);
	nng_socket_set_ms(c->s, NNG_OPT_SURVEYOR_SURVEYTIME, 2000);
	// the socket's own timeouts are never what a NONBLOCK call may wait for
	// (the timed retries carry theirs in an aio): long enough for clause (d)
	nng_socket_set_ms(c->s, NNG_OPT_RECVTIMEO, 5000);
	nng_socket_set_ms(c->s, NNG_OPT_SENDTIMEO, 5000);
	if (!strcmp(c->pr->name, "sub") && !raw) nng_sub0_socket_subscribe(c->s, "", 0);
	if (nng_ctx_open(&c->ctx, c->s) == 0) {
		c->have_ctx = true;
		nng_ctx_set_ms(c->ctx, NNG_OPT_RECVTIMEO, 5000);
		nng_ctx_set_ms(c->ctx, NNG_OPT_SENDTIMEO, 5000);
		nng_ctx_set_ms(c->ctx, NNG_OPT_REQ_RESENDTIME, 60000);
		nng_ctx_set_ms(c->ctx, NNG_OPT_SURVEYOR_SURVEYTIME, 2000);
		if (!strcmp(c->pr->name, "sub")) nng_sub0_ctx_subscribe(c->ctx, "", 0);
	}
	nng_pipe_notify(c->s, NNG_PIPE_EV_ADD_POST, pipe_cb, c);
	nng_pipe_notify(c->s, NNG_PIPE_EV_REM_POST, pipe_cb, c);
	if (dials) {
		// fast redial: after the loss of a pipe the socket's own dialer
		// brings it back before the next probe
		nng_socket_set_ms(c->s, NNG_OPT_RECONNMINT, 3);
		nng_socket_set_ms(c->s, NNG_OPT_RECONNMAXT, 3);
		return;
	}
	vf_url(tran, url, sizeof(url));
	if ((rv = nng_listen(c->s, url, &c->lst, 0)) != 0) vf_harness_fail("listen %s", nng_strerror(rv));
	vf_dial_url(c->lst, tran, url, c->durl, sizeof(c->durl));
}

static void
close_all(cx_t *c)
{
	if (c->stash) nng_msg_free(c->stash);
	c->stash = NULL;
	for (int i = 0; i < 3; i++) {
		if (c->peers_open[i]) nng_socket_close(c->peers[i]);
	}
	nng_socket_close(c->s);
}

static void
peer_reads(cx_t *c, nng_socket peer, int k, bool nb)
{
	bool replies = !strcmp(c->pr->peer_name, "rep") || !strcmp(c->pr->peer_name, "respondent");
	for (int j = 0; j < k; j++) {
		nng_msg *m;
		if (nng_recvmsg(peer, &m, nb ? NNG_FLAG_NONBLOCK : 0) != 0) break;
		// a replying peer answers (rep/respondent)
		if (replies) {
			if (nng_sendmsg(peer, m, 0) != 0) nng_msg_free(m);
		} else {
			nng_msg_free(m);
		}
	}
}

// A blocking aio is posted on the socket or the context and then cancelled,
// left to time out, or left parked while all probes run (and then cancelled).
// The caller's probes follow and see the state this leaves behind.
static void
step_park(cx_t *c, char *label, size_t lsz)
{
	static const char *endings[] = { "cancel", "timeout", "hold" };
	bool     send   = vf_chance(c->r, 1, 2);
	bool     onctx  = c->have_ctx && vf_chance(c->r, 1, 2);
	int      ending = (int) vf_below(c->r, 3);
	nng_aio *a;
	nng_msg *m = NULL;
	char     during[48];
	if (nng_aio_alloc(&a, NULL, NULL) != 0) vf_harness_fail("aio alloc");
	nng_aio_set_timeout(a, ending == 1 ? 20 : 8000);
	if (send) {
		if (c->stash != NULL && c->raw && !onctx) {
			if (nng_msg_dup(&m, c->stash) != 0) vf_harness_fail("dup");
		} else {
			m = fresh_msg(c);
		}
		nng_aio_set_msg(a, m);
		if (onctx) nng_ctx_send(c->ctx, a);
		else { nng_socket_send(c->s, a); c->send_tried_since_recv = true; }
	} else {
		if (onctx) nng_ctx_recv(c->ctx, a);
		else nng_socket_recv(c->s, a);
	}
	settle(c);
	bool parked = nng_aio_busy(a);
	snprintf(label, lsz, "%s%s-%s%s", send ? "asend" : "arecv", onctx ? "-ctx" : "", endings[ending], parked ? "" : "-done");
	if (parked && ending == 2) {
		snprintf(during, sizeof(during), "%s%s-is-parked", send ? "asend" : "arecv", onctx ? "-ctx" : "");
		probe_all(c, during);
		vf_stat("probe_rounds_while_aio_parked", 1);
		// one more event while it waits (a resize must serve the waiter
		// first; traffic completes it), then all probes again
		static const char *evs[] = { "resize-sendbuf", "resize-recvbuf", "peer-send", "peer-recv" };
		int ev = (int) vf_below(c->r, 4);
		switch (ev) {
		case 0: nng_socket_set_int(c->s, NNG_OPT_SENDBUF, (int) vf_below(c->r, 6)); break;
		case 1: nng_socket_set_int(c->s, NNG_OPT_RECVBUF, (int) vf_below(c->r, 6)); break;
		case 2:
			if (c->peer_open) {
				nng_msg *pm = fresh_msg(c);
				if (nng_sendmsg(c->peer, pm, 0) != 0) nng_msg_free(pm);
			}
			break;
		default:
			if (c->peer_open) peer_reads(c, c->peer, 2, true);
			break;
		}
		settle(c);
		snprintf(during, sizeof(during), "%s%s-%s+%s", send ? "asend" : "arecv", onctx ? "-ctx" : "", nng_aio_busy(a) ? "is-parked" : "was-parked", evs[ev]);
		probe_all(c, during);
	}
	if (ending != 1) nng_aio_cancel(a);
	nng_aio_wait(a);
	int rv = nng_aio_result(a);
	if (send) {
		if (rv != 0 && (m = nng_aio_get_msg(a)) != NULL) nng_msg_free(m);
	} else if (rv == 0) {
		keep_msg(c, nng_aio_get_msg(a), onctx);
	}
	nng_aio_free(a);
	vf_class("park/%s/%s/%s/rv=%d", c->name, vf_tran_names[c->tran], label, rv);
	if (parked) {
		char stat[64];
		snprintf(stat, sizeof(stat), "parked_aio_%s_%s", send ? "send" : "recv", rv == NNG_ECANCELED ? "cancelled" : rv == NNG_ETIMEDOUT ? "timedout" : "completed");
		vf_stat(stat, 1);
	}
}

// A survey with a short survey time is sent (socket or context), some
// respondents answer, and the survey time passes.
static void
step_survey_expire(cx_t *c, char *label, size_t lsz)
{
	bool     onctx = c->have_ctx && vf_chance(c->r, 1, 2);
	nng_msg *m     = fresh_msg(c);
	int      rv;
	int      answers = 0;
	if (onctx) {
		nng_ctx_set_ms(c->ctx, NNG_OPT_SURVEYOR_SURVEYTIME, 30);
		nng_ctx_set_ms(c->ctx, NNG_OPT_SENDTIMEO, 1000);
		rv = nng_ctx_sendmsg(c->ctx, m, 0);
		nng_ctx_set_ms(c->ctx, NNG_OPT_SURVEYOR_SURVEYTIME, 2000);
		nng_ctx_set_ms(c->ctx, NNG_OPT_SENDTIMEO, 5000);
	} else {
		nng_socket_set_ms(c->s, NNG_OPT_SURVEYOR_SURVEYTIME, 30);
		nng_socket_set_ms(c->s, NNG_OPT_SENDTIMEO, 1000);
		rv = nng_sendmsg(c->s, m, 0);
		nng_socket_set_ms(c->s, NNG_OPT_SURVEYOR_SURVEYTIME, 2000);
		nng_socket_set_ms(c->s, NNG_OPT_SENDTIMEO, 5000);
		c->send_tried_since_recv = true;
	}
	if (rv != 0) nng_msg_free(m);
	for (int i = 0; i < c->npeers && rv == 0; i++) {
		nng_msg *q;
		if (!c->peers_open[i] || vf_chance(c->r, 1, 3)) continue;
		if (nng_recvmsg(c->peers[i], &q, 0) == 0) {
			if (nng_sendmsg(c->peers[i], q, 0) != 0) nng_msg_free(q);
			else answers++;
		}
	}
	// not earlier than the survey time after the send: the survey has expired
	vf_msleep(45);
	snprintf(label, lsz, "survey%s-expire%s", onctx ? "-ctx" : "", answers ? "-answered" : "");
	if (rv == 0) vf_stat("surveys_expired", 1);
	// the expired survey (with or without unread responses) is looked at
	// before any new survey replaces it
	if (onctx) probe_ctx(c, false, label);
	else probe_recv(c, label);
}

// the peer sends without blocking until it is refused (or 12 messages)
static int
peer_fill(cx_t *c, nng_socket peer, int cap, bool *refused)
{
	int n = 0, rv;
	for (; n < cap; n++) {
		nng_msg *m = fresh_msg(c);
		if ((rv = nng_sendmsg(peer, m, NNG_FLAG_NONBLOCK)) != 0) {
			nng_msg_free(m);
			// (a peer that cannot send at all - PULL, SUB - is not "refused")
			if (rv == NNG_EAGAIN) {
				vf_stat("peer_fill_refused", 1);
				if (refused != NULL) *refused = true;
			}
			break;
		}
		if ((n & 3) == 3) settle(c);
	}
	return n;
}

static int
open_peer(cx_t *c, int pi)
{
	const vf_proto *pp = vf_proto_by_name(c->pr->peer_name);
	int             rv;
	int             want = 1;
	for (int i = 0; i < 3; i++) want += c->peers_open[i] ? 1 : 0;
	if ((rv = pp->open(&c->peers[pi])) != 0) return rv;
	c->peer = c->peers[pi];
	nng_socket_set_ms(c->peer, NNG_OPT_SENDTIMEO, 60);
	nng_socket_set_ms(c->peer, NNG_OPT_RECVTIMEO, 60);
	nng_socket_set_ms(c->peer, NNG_OPT_REQ_RESENDTIME, 60000);
	nng_socket_set_ms(c->peer, NNG_OPT_SURVEYOR_SURVEYTIME, 5000);
	// fast redial, so that after a pipe loss the connection is back before
	// the next probe (a reconnect during a probe would be an extra stimulus)
	nng_socket_set_ms(c->peer, NNG_OPT_RECONNMINT, 3);
	nng_socket_set_ms(c->peer, NNG_OPT_RECONNMAXT, 3);
	if (!strcmp(pp->name, "sub")) nng_sub0_socket_subscribe(c->peer, "", 0);
	if (c->dials) {
		char         url[128], durl[128];
		nng_listener l;
		vf_url(c->tran, url, sizeof(url));
		if ((rv = nng_listen(c->peer, url, &l, 0)) != 0) return rv;
		vf_dial_url(l, c->tran, url, durl, sizeof(durl));
		if ((rv = nng_dial(c->s, durl, &c->dialers[pi], 0)) != 0) return rv;
	} else if ((rv = nng_dial(c->peer, c->durl, NULL, 0)) != 0) return rv;
	for (int i = 0; i < 2000; i++) {
		// (a PAIR socket refuses further peers: then only the peer side
		// count can be waited for, briefly)
		if (vf_pipe_count(c->s) >= want && vf_pipe_count(c->peer) >= 1) break;
		if (i > 100 && vf_pipe_count(c->s) >= 1 && single_peer(c->pr)) break;
		vf_msleep(1);
	}
	c->peers_open[pi] = true;
	c->peer_open      = true;
	return 0;
}

static bool
is_proto(cx_t *c, const char *cooked_name)
{
	return !c->raw && !strcmp(c->pr->name, cooked_name);
}

static void
run_case(long idx, vf_rng *r, int pi, bool raw, int tran, int nops, bool dials)
{
	cx_t c;
	int  rv;
	open_local(&c, pi, raw, tran, r, dials);
	bool defer = vf_chance(r, 1, 2);
	vf_case_begin(idx, "proto=%s tran=%s ops=%d lazyfds=%d", c.name, c.tname, nops, defer);
	// half of the histories ask for the poll descriptors only after the
	// first traffic: the library then creates them for a pollable that may
	// already be raised
	if (!defer) fetch_fds(&c, false);
	c.npeers = single_peer(c.pr) ? 1 : (int) vf_range(r, 1, 3);
	probe_all(&c, "open");
	for (int i = 0; i < c.npeers; i++) {
		if ((rv = open_peer(&c, i)) != 0) vf_harness_fail("peer: %s", nng_strerror(rv));
	}
	probe_all(&c, "connect");

	char hist[240];
	size_t hl = 0;
	hist[0] = 0;
	for (int i = 0; i < nops; i++) {
		int         op = (int) vf_below(r, 13);
		const char *what = "?";
		char        label[64];
		int         pi = (int) vf_below(r, (uint32_t) c.npeers);
		bool        traffic = false;
		c.peer      = c.peers[pi];
		c.peer_open = c.peers_open[pi];
		switch (op) {
		case 0:
		case 1: { // peer sends k messages
			what = "peer-send";
			if (!c.peer_open) break;
			int k = (int) vf_range(r, 1, 4);
			for (int j = 0; j < k; j++) {
				nng_msg *m = fresh_msg(&c);
				if (nng_sendmsg(c.peer, m, 0) != 0) nng_msg_free(m);
			}
			traffic = true;
			break;
		}
		case 2: // peer reads
			what = "peer-recv";
			if (!c.peer_open) break;
			peer_reads(&c, c.peer, (int) vf_range(r, 1, 4), false);
			break;
		case 3:
			what = "resize-recvbuf";
			nng_socket_set_int(c.s, NNG_OPT_RECVBUF, (int) vf_below(r, 6));
			break;
		case 4:
			what = "resize-sendbuf";
			nng_socket_set_int(c.s, NNG_OPT_SENDBUF, (int) vf_below(r, 6));
			break;
		case 5: // peer goes away / comes back
			if (c.peer_open) {
				what = "peer-close";
				nng_socket_close(c.peer);
				c.peers_open[pi] = false;
				if (c.dials) {
					// our dialer tries again a few times and is refused; then
					// it is closed (a dialer that retries every 3 ms for good
					// leaves no quiescent point)
					vf_msleep(8);
					nng_dialer_close(c.dialers[pi]);
				}
			} else {
				what = "peer-open";
				if (open_peer(&c, pi) != 0) vf_harness_fail("peer reopen");
			}
			break;
		case 7: { // close one of our own pipes (first / random live pipe)
			what = "local-pipe-close";
			nng_pipe p = NNG_PIPE_INITIALIZER;
			pthread_mutex_lock(&pipes_mtx);
			if (c.npipes > 0) p = c.pipes[vf_chance(r, 1, 2) ? 0 : vf_below(r, (uint32_t) c.npipes)];
			pthread_mutex_unlock(&pipes_mtx);
			if (nng_pipe_id(p) > 0) {
				int want = 0;
				for (int k = 0; k < 3; k++) want += c.peers_open[k] ? 1 : 0;
				if (single_peer(c.pr)) want = want ? 1 : 0;
				nng_dialer d = nng_pipe_dialer(p);
				nng_pipe_close(p);
				vf_msleep(2);
				// wait for the peer's dialer (or, with the roles swapped, our
				// own) to come back - and to stay: a PAIR peer that listens
				// refuses the new connection as long as it has not noticed
				// that the old one is gone, and it notices only when it
				// reads; until then our dialer is accepted and dropped every
				// few milliseconds.  So: let such a peer read.
				long ev0    = c.pipe_events;
				int  stable = 0, k;
				for (k = 0; k < 1500 && stable < 12; k++) {
					if (c.dials && (k % 20) == 10 && !strncmp(c.pr->peer_name, "pair", 4)) {
						for (int q = 0; q < c.npeers; q++) if (c.peers_open[q]) peer_reads(&c, c.peers[q], 8, true);
					}
					vf_msleep(1);
					long ev1 = c.pipe_events;
					stable   = (vf_pipe_count(c.s) >= want && ev1 == ev0) ? stable + 1 : 0;
					ev0      = ev1;
					if (!c.dials && vf_pipe_count(c.s) >= want) break;
				}
				if (c.dials && stable < 12 && nng_dialer_id(d) > 0) {
					// a dialer that is refused every 3 ms for good leaves no
					// quiescent point
					nng_dialer_close(d);
					vf_stat("redials_given_up", 1);
				}
				vf_msleep(5);
			}
			break;
		}
		case 6: // protocol specific
			if (is_proto(&c, "sub")) {
				bool onctx = vf_chance(r, 1, 2);
				if (vf_chance(r, 1, 2)) {
					what = onctx ? "unsubscribe-ctx" : "unsubscribe";
					if (onctx) nng_sub0_ctx_unsubscribe(c.ctx, "", 0);
					else nng_sub0_socket_unsubscribe(c.s, "", 0);
				} else {
					what = onctx ? "subscribe-ctx" : "subscribe";
					if (onctx) nng_sub0_ctx_subscribe(c.ctx, "", 0);
					else nng_sub0_socket_subscribe(c.s, "", 0);
				}
				break;
			}
			// fall through
		case 9:
			if (is_proto(&c, "surveyor")) {
				step_survey_expire(&c, label, sizeof(label));
				what = label;
				break;
			}
			// fall through
		case 8:
			step_park(&c, label, sizeof(label));
			what = label;
			break;
		case 10: // the peer sends until it is refused
			what = "peer-fill";
			if (!c.peer_open) break;
			peer_fill(&c, c.peer, 12, NULL);
			traffic = true;
			break;
		default:
			what = "probe-only";
			break;
		}
		if (!c.fds_fetched && (traffic || i >= 3)) {
			settle(&c);
			fetch_fds(&c, true);
		}
		if (vf_verbose) fprintf(stderr, " step %d: %s (pipes %d)\n", i, what, vf_pipe_count(c.s));
		if (hl + strlen(what) + 2 < sizeof(hist)) hl += (size_t) snprintf(hist + hl, sizeof(hist) - hl, "%s%s", i ? "," : "", what);
		probe_all(&c, what);
		vf_watchdog(60);
	}
	if ((idx % 7) == 0) vf_sample("{\"proto\":\"%s\",\"tran\":\"%s\",\"lazyfds\":%d,\"history\":\"%s\"}", c.name, c.tname, defer, hist);
	close_all(&c);
	vf_stat("cases", 1);
	if (dials) vf_stat("cases_role_dial", 1);
	// allocator balance per case (so a leak is attributed to its case)
	vf_nng_fini("C15");
	vf_nng_init(4, 2, 2);
}

// "parked" scenarios: messages from several peers are pending, then ONE
// disruption (closing pipe j for every j, closing peer j, a buffer resize,
// an unsubscribe, a resize of a FULL queue, a new request that discards the
// pending reply) and probes until everything is drained.  Enumerated, not
// sampled: the pipe that holds the oldest pending message is among the j.
enum { D_PIPE_CLOSE = 0, D_PEER_CLOSE, D_RESIZE_RECV, D_RESIZE_SEND, D_NONE, D_UNSUB, D_FULL_RECV, D_FULL_SEND, D_NEW_REQUEST, D_SURVEY_EXPIRE, D_FULL_SEND_WAITER, D_WAITER_DRAIN, D_BIG_SEND, D_N };
static const char *dnames[D_N] = { "local-pipe-close", "peer-close", "resize-recvbuf", "resize-sendbuf", "none", "unsubscribe", "resize-full-recvbuf", "resize-full-sendbuf", "new-request", "survey-expire", "resize-full-sendbuf-waiter", "peer-recv-with-sender-waiting", "tcp-path-full" };
static const int   dtargets[D_N] = { 3, 3, 3, 3, 1, 2, 3, 3, 2, 2, 3, 2, 3 };
static const char *big_targets[3] = { "peer-recv-1", "peers-recv-4", "resize-sendbuf-2to0" };
#define BIG_MSG (256 * 1024)
static const int   resize_from[3] = { 4, 1, 0 }, resize_to[3] = { 1, 0, 4 };

static bool
parked_applies(int pi, bool raw, int d)
{
	const char *n = proto_at(pi)->name;
	if (raw && proto_at(pi)->open_raw == NULL) return false;
	// (D_BIG_SEND is enumerated apart: tcp only, sending protocols only)
	if (d == D_BIG_SEND) return false;
	if (d == D_UNSUB) return !raw && !strcmp(n, "sub");
	if (d == D_NEW_REQUEST) return !raw && (!strcmp(n, "req") || !strcmp(n, "surveyor"));
	if (d == D_SURVEY_EXPIRE) return !raw && !strcmp(n, "surveyor");
	return true;
}

static void
run_parked(long idx, vf_rng *r, int pi, bool raw, int tran, int disruption, int target)
{
	cx_t c;
	int  rv;
	char after[64];
	bool asks_first;
	open_local(&c, pi, raw, tran, r, false);
	// when are the poll descriptors created: at open, after the messages are
	// pending (pollable already raised), or only after the disruption
	int fdmode = (int) (idx % 3);
	vf_case_begin(idx, "parked proto=%s tran=%s disruption=%s target=%d fdmode=%d", c.name, vf_tran_names[tran], dnames[disruption], target, fdmode);
	snprintf(after, sizeof(after), "%s", dnames[disruption]);
	// D_BIG_SEND: back pressure of the KERNEL on the send side.  Over tcp
	// small messages never fill anything, so "every pipe has a send in flight
	// that does not complete" needs large messages and peers that do not
	// read; the completion that must raise the send descriptor then arrives
	// from the transport's partial-write path, long after the refusal.
	bool big       = disruption == D_BIG_SEND;
	bool full_send = disruption == D_FULL_SEND || disruption == D_FULL_SEND_WAITER || disruption == D_WAITER_DRAIN || big;
	bool has_waiter = disruption == D_FULL_SEND_WAITER || disruption == D_WAITER_DRAIN;
	bool fill_refused = false, recv_full = false;
	nng_aio *waiter = NULL;
	if (big) {
		snprintf(after, sizeof(after), "%s+%s", dnames[disruption], big_targets[target]);
		nng_socket_set_int(c.s, NNG_OPT_SENDBUF, target == 2 ? 2 : (int) (idx % 2));
	} else if (disruption == D_WAITER_DRAIN) {
		snprintf(after, sizeof(after), "%s-%d", dnames[disruption], target + 1);
		nng_socket_set_int(c.s, NNG_OPT_SENDBUF, 2);
	} else if (disruption == D_FULL_RECV || full_send) {
		// half of these cases (by case index and seed) on a queue that has been
		// deeper before: growing back then stays inside the storage the queue
		// already has, which is a path of its own in the resize code
		bool deeper_before = (vf_mix64(vf_seed ^ ((uint64_t) idx * 0x9e3779b97f4a7c15ULL)) & 1) != 0;
		snprintf(after, sizeof(after), "%s-%dto%d%s", dnames[disruption], resize_from[target], resize_to[target], deeper_before ? "-was16" : "");
		if (deeper_before) {
			nng_socket_set_int(c.s, disruption == D_FULL_RECV ? NNG_OPT_RECVBUF : NNG_OPT_SENDBUF, 16);
			vf_stat("resize_cases_on_queue_that_was_deeper", 1);
		}
		nng_socket_set_int(c.s, disruption == D_FULL_RECV ? NNG_OPT_RECVBUF : NNG_OPT_SENDBUF, resize_from[target]);
	}
	if (fdmode == 0) fetch_fds(&c, false);
	c.npeers = single_peer(c.pr) ? 1 : 3;
	for (int i = 0; i < c.npeers; i++) {
		if ((rv = open_peer(&c, i)) != 0) vf_harness_fail("peer");
	}
	// a surveyor / req local must speak first so that peers may answer
	asks_first = is_proto(&c, "req") || is_proto(&c, "surveyor");
	if (asks_first) {
		bool onctx = (disruption == D_NEW_REQUEST || disruption == D_SURVEY_EXPIRE) && target == 1;
		nng_msg *m = fresh_msg(&c);
		if (disruption == D_SURVEY_EXPIRE) {
			if (onctx) nng_ctx_set_ms(c.ctx, NNG_OPT_SURVEYOR_SURVEYTIME, 30);
			else nng_socket_set_ms(c.s, NNG_OPT_SURVEYOR_SURVEYTIME, 30);
		}
		if ((onctx ? nng_ctx_sendmsg(c.ctx, m, 0) : nng_sendmsg(c.s, m, 0)) != 0) nng_msg_free(m);
		if (!onctx) c.send_tried_since_recv = true;
		for (int i = 0; i < c.npeers; i++) peer_reads(&c, c.peers[i], 1, false);
		if (disruption == D_SURVEY_EXPIRE) {
			if (onctx) nng_ctx_set_ms(c.ctx, NNG_OPT_SURVEYOR_SURVEYTIME, 2000);
			else nng_socket_set_ms(c.s, NNG_OPT_SURVEYOR_SURVEYTIME, 2000);
		}
	} else if (disruption == D_FULL_RECV) {
		// every peer sends until it is refused (inproc) or 12 messages (the
		// kernel takes what the socket does not)
		int got = 0;
		for (int i = 0; i < c.npeers; i++) {
			got += peer_fill(&c, c.peers[i], 12, &recv_full);
		}
		// nobody was refused (tcp): full all the same if more messages have
		// ARRIVED (settle: nothing in flight) than queue and pipes can hold
		settle(&c);
		if (got >= resize_from[target] + 2 * c.npeers) recv_full = true;
	} else if (!full_send) {
		// every peer sends two messages, in a seeded peer order
		int order[3] = { 0, 1, 2 };
		for (int i = c.npeers - 1; i > 0; i--) { int j = (int) vf_below(r, (uint32_t) i + 1); int t = order[i]; order[i] = order[j]; order[j] = t; }
		for (int round = 0; round < 2; round++) {
			for (int i = 0; i < c.npeers; i++) {
				nng_msg *m = fresh_msg(&c);
				if (nng_sendmsg(c.peers[order[i]], m, 0) != 0) nng_msg_free(m);
				settle(&c);
			}
		}
	}
	settle(&c);
	if (fdmode == 1) fetch_fds(&c, true);
	if (full_send) {
		// the local side sends (judged NONBLOCK probes) until it is refused;
		// nobody reads
		int n = 0, cap = big ? 16 : 24;
		fetch_fds(&c, true);
		if (raw) {
			// a routing header to echo, where the protocol wants one
			for (int i = 0; i < c.npeers; i++) { nng_msg *m = fresh_msg(&c); if (nng_sendmsg(c.peers[i], m, 0) != 0) nng_msg_free(m); }
			settle(&c);
			probe(&c, false, F_MSG, "fill");
			c.keep_stash = true;
		}
		if (big) {
			// the kernel keeps little: a few messages fill the path
			settle(&c);
			tcp_small_buffers(32 * 1024);
			c.msg_size = BIG_MSG;
		}
		for (; n < cap; n++) {
			int rv1 = probe(&c, true, n % 3 == 2 ? F_AIO : F_MSG, big ? "tcp-path-fill" : "fill");
			if (rv1 != 0) break;
		}
		if (n < cap) {
			fill_refused = true;
			vf_stat("send_fill_refused", 1);
			if (tran == VF_T_TCP) vf_stat("send_fill_refused_tcp", 1);
			vf_class("sendfill-refused/%s/%s%s", c.name, vf_tran_names[tran], big ? "/big" : "");
		}
		if (big) {
			kq_t k;
			kq_sample(&k);
			if (k.unsent > 0) {
				vf_stat("big_send_cases_kernel_queue_stuck", 1);
				vf_class("tcp-path-full/%s/%s/%s", c.name, big_targets[target], fill_refused ? "refused" : "never-refused");
			}
		}
		if (has_waiter) {
			// and one more sender waits (blocking aio) when the queue is
			// resized / when a peer takes a message or two
			nng_msg *m;
			if (c.raw && c.stash != NULL) { if (nng_msg_dup(&m, c.stash) != 0) vf_harness_fail("dup"); }
			else m = fresh_msg(&c);
			if (nng_aio_alloc(&waiter, NULL, NULL) != 0) vf_harness_fail("aio alloc");
			nng_aio_set_timeout(waiter, 8000);
			nng_aio_set_msg(waiter, m);
			nng_socket_send(c.s, waiter);
			settle(&c);
			if (nng_aio_busy(waiter)) {
				vf_stat("disruptions_with_sender_waiting", 1);
				vf_class("send-waiter/%s/%s/%s", c.name, vf_tran_names[tran], after);
			}
		}
		c.keep_stash = false;
	}
	switch (disruption) {
	case D_PIPE_CLOSE: {
		nng_pipe p = NNG_PIPE_INITIALIZER;
		pthread_mutex_lock(&pipes_mtx);
		if (target < c.npipes) p = c.pipes[target];
		pthread_mutex_unlock(&pipes_mtx);
		if (nng_pipe_id(p) > 0) {
			// stop the peers from redialling: the state right after the loss is what we probe
			for (int i = 0; i < c.npeers; i++) { nng_socket_set_ms(c.peers[i], NNG_OPT_RECONNMINT, 10000); nng_socket_set_ms(c.peers[i], NNG_OPT_RECONNMAXT, 10000); }
			nng_pipe_close(p);
			vf_msleep(5);
		}
		break;
	}
	case D_PEER_CLOSE:
		if (target < c.npeers) { nng_socket_close(c.peers[target]); c.peers_open[target] = false; vf_msleep(5); }
		break;
	case D_RESIZE_RECV: nng_socket_set_int(c.s, NNG_OPT_RECVBUF, target * 2); break;
	case D_RESIZE_SEND: nng_socket_set_int(c.s, NNG_OPT_SENDBUF, target * 2); break;
	case D_UNSUB:
		// messages are queued for the socket and for the context: one of the
		// two loses its subscription (and with it its queued messages)
		if (target == 0) nng_sub0_socket_unsubscribe(c.s, "", 0);
		else nng_sub0_ctx_unsubscribe(c.ctx, "", 0);
		vf_stat("unsubscribes_with_pending", 1);
		// more traffic: only the one still subscribed may show it
		for (int i = 0; i < c.npeers; i++) {
			nng_msg *m = fresh_msg(&c);
			if (nng_sendmsg(c.peers[i], m, 0) != 0) nng_msg_free(m);
		}
		break;
	case D_FULL_RECV:
		// (counted only if the queue WAS full: a sender was refused, or more
		// messages had arrived than it can hold)
		if (nng_socket_set_int(c.s, NNG_OPT_RECVBUF, resize_to[target]) == 0 && recv_full) vf_stat("resizes_of_full_recvbuf", 1);
		break;
	case D_FULL_SEND:
	case D_FULL_SEND_WAITER:
		// (counted only if the fill ended with a refusal)
		if (nng_socket_set_int(c.s, NNG_OPT_SENDBUF, resize_to[target]) == 0 && fill_refused) vf_stat("resizes_of_full_sendbuf", 1);
		break;
	case D_BIG_SEND:
		// one peer takes one message / every peer takes up to four / the
		// send queue shrinks: whatever completes on a pipe from now on
		// completes long after the refusal
		if (target == 0) {
			if (c.peers_open[0]) peer_reads(&c, c.peers[0], 1, true);
		} else if (target == 1) {
			for (int i = 0; i < c.npeers; i++) if (c.peers_open[i]) peer_reads(&c, c.peers[i], 4, true);
		} else if (nng_socket_set_int(c.s, NNG_OPT_SENDBUF, 0) == 0 && fill_refused) {
			vf_stat("resizes_of_full_sendbuf", 1);
		}
		break;
	case D_NEW_REQUEST: {
		// the reply / the responses are pending unread: a new request or
		// survey discards them
		nng_msg *m = fresh_msg(&c);
		settle(&c);
		fetch_fds(&c, true);
		if (c.have_rfd && fd_readable(c.rfd)) vf_stat("new_request_with_reply_pending", 1);
		if ((target == 1 ? nng_ctx_sendmsg(c.ctx, m, 0) : nng_sendmsg(c.s, m, 0)) != 0) nng_msg_free(m);
		break;
	}
	case D_WAITER_DRAIN:
		// room appears in a full send path while a sender waits: it is the
		// waiting sender's (and then the socket is as full as before), not
		// room that poll may announce and a non-blocking send may not use
		if (c.peers_open[0]) peer_reads(&c, c.peers[0], target + 1, true);
		break;
	case D_SURVEY_EXPIRE:
		// the responses are pending unread and the survey time passes (not
		// earlier than 45 ms after the send of a 30 ms survey)
		vf_msleep(45);
		vf_stat("surveys_expired", 1);
		break;
	default: break;
	}
	if (fdmode == 2) { settle(&c); fetch_fds(&c, true); }
	for (int k = 0; k < 8; k++) {
		probe_recv(&c, after);
		if ((k & 1) == 0) probe_send(&c, after);
		if (k % 3 == 1) probe_ctx(&c, false, after);
		if (k % 3 == 2) probe_ctx(&c, true, after);
		if (full_send && k == 3) {
			// the peers start reading: the flow resumes
			for (int i = 0; i < c.npeers; i++) if (c.peers_open[i]) peer_reads(&c, c.peers[i], 4, true);
		}
		vf_watchdog(60);
	}
	if (waiter != NULL) {
		nng_msg *m;
		nng_aio_cancel(waiter);
		nng_aio_wait(waiter);
		if (nng_aio_result(waiter) != 0 && (m = nng_aio_get_msg(waiter)) != NULL) nng_msg_free(m);
		nng_aio_free(waiter);
	}
	close_all(&c);
	vf_stat("cases", 1);
	vf_stat("parked_cases", 1);
	vf_nng_fini("C15");
	vf_nng_init(4, 2, 2);
}

// Back pressure on the reply path of a REP socket.  The peer is a raw REQ
// that sends one request per round and never reads a reply, so after a few
// replies (small over inproc, which buffers nothing; 512 kB over tcp, until
// the kernel's buffers are full) the previous reply is still in flight on the
// pipe when the next request - already parked in the socket - is received
// (NONBLOCK, by the socket or by the extra context) and the next reply is
// tried.  Judged by the usual clauses; the send descriptor is confirmed
// before the attempt (see probe).
static void
run_reply_busy(long idx, vf_rng *r, int tran, int target)
{
	cx_t       c;
	nng_socket xreq;
	int        rv, pi = 0;
	char       after[64];
	bool       onctx     = target == 1;
	int        busy_at   = -1;
	int        cap       = tran == VF_T_INPROC ? 12 : 48;
	while (strcmp(vf_protos[pi].name, "rep") != 0) pi++;
	open_local(&c, pi, false, tran, r, false);
	vf_case_begin(idx, "parked proto=rep tran=%s disruption=reply-path-busy form=%s", vf_tran_names[tran], onctx ? "ctx" : "socket");
	fetch_fds(&c, false);
	if ((rv = nng_req0_open_raw(&xreq)) != 0) vf_harness_fail("xreq open: %s", nng_strerror(rv));
	nng_socket_set_ms(xreq, NNG_OPT_SENDTIMEO, 2000);
	nng_socket_set_int(xreq, NNG_OPT_RECVBUF, 1);
	if ((rv = nng_dial(xreq, c.durl, NULL, 0)) != 0) vf_harness_fail("xreq dial: %s", nng_strerror(rv));
	for (int i = 0; i < 4000 && (vf_pipe_count(c.s) < 1 || vf_pipe_count(xreq) < 1); i++) vf_msleep(1);
	c.confirm_pre = true;
	c.msg_size    = tran == VF_T_INPROC ? 32 : 512 * 1024;
	for (int round = 0; round < cap && (busy_at < 0 || round < busy_at + 4); round++) {
		nng_msg *m;
		if (nng_msg_alloc(&m, 0) != 0) vf_harness_fail("alloc");
		nng_msg_header_append_u32(m, 0x80000000u | (uint32_t) (round + 1));
		nng_msg_append(m, "ping", 5);
		if (nng_sendmsg(xreq, m, 0) != 0) { nng_msg_free(m); break; }
		settle(&c); // the request now waits in the REP socket
		snprintf(after, sizeof(after), "reply-path-%s-request", busy_at < 0 ? "open" : "busy");
		int rr = probe(&c, false, onctx ? (vf_chance(r, 1, 2) ? F_CTX : F_CTXAIO) : sock_form(&c), after);
		if (rr != 0) vf_stat("reply_busy_request_not_received", 1);
		if (busy_at >= 0 && tran != VF_T_INPROC) vf_msleep(250); // delayed ACKs have landed
		snprintf(after, sizeof(after), "reply-path-%s-recv%s", busy_at < 0 ? "open" : "busy", onctx ? "-ctx" : "");
		int rs = probe(&c, true, onctx ? (vf_chance(r, 1, 2) ? F_CTX : F_CTXAIO) : sock_form(&c), after);
		if (rr == 0 && rs == NNG_EAGAIN) {
			// refused with a request in hand: the previous reply is in flight
			if (busy_at < 0) busy_at = round;
			vf_stat("reply_probes_with_previous_reply_in_flight", 1);
			vf_class("reply-busy/%s/%s/round%d", vf_tran_names[tran], onctx ? "ctx" : "socket", round - busy_at);
		}
		// the other pair of probes (context activity must not leave the
		// socket's descriptors stale, and the other way round)
		if (onctx) { probe_recv(&c, after); probe_send(&c, after); }
		else { probe_ctx(&c, false, after); probe_ctx(&c, true, after); }
		vf_watchdog(60);
	}
	if (busy_at >= 0) vf_stat("reply_busy_cases_reached", 1);
	c.msg_size    = 0;
	c.confirm_pre = false;
	// the peer goes away with the replies unread
	nng_socket_close(xreq);
	vf_msleep(5);
	probe_send(&c, "reply-path-busy-peer-closed");
	probe_recv(&c, "reply-path-busy-peer-closed");
	close_all(&c);
	vf_stat("cases", 1);
	vf_stat("parked_cases", 1);
	vf_nng_fini("C15");
	vf_nng_init(4, 2, 2);
}

// can the (cooked / raw) protocol send without having received first?
static bool
sends_unasked(int pi, bool raw)
{
	const char *n = proto_at(pi)->name;
	if (!strcmp(n, "sub") || !strcmp(n, "pull")) return false;
	if (!raw && (!strcmp(n, "rep") || !strcmp(n, "respondent"))) return false; // REP: reply-busy
	return true;
}

int
main(int argc, char **argv)
{
	vf_init(argc, argv);
	vf_nng_init(4, 2, 2);
	vf_rng r;
	bool m_hist = vf_mode[0] == 0, m_parked = !strcmp(vf_mode, "parked"), m_parked2 = !strcmp(vf_mode, "parked2");
	// enumerate protocol x raw x transport, several histories each.  The role
	// (who listens, who dials) alternates so that every (name, transport)
	// meets both within two repetitions.
	long idx = 0;
	int  reps = vf_cases > 0 ? (int) vf_cases : 1;
	if (!m_hist) reps = 0;
	for (int rep = 0; rep < reps; rep++) {
		for (int pi = 0; pi < vf_nprotos; pi++) {
			for (int raw = 0; raw < 2; raw++) {
				for (int t = 0; t < 2; t++, idx++) {
					if ((idx % vf_nshards) != vf_shard || !vf_want_case(idx)) continue;
					vf_rng_seed(&r, vf_seed, (uint64_t) idx);
					run_case(idx, &r, pi, raw != 0, t == 0 ? VF_T_INPROC : VF_T_TCP, (int) vf_range(&r, 6, 14), ((rep + pi + raw) & 1) != 0);
				}
			}
		}
	}
	// added later, numbered apart so that the cases above keep their numbers:
	// pair1 polyamorous over inproc and tcp, and every name over ipc
	idx = 500000;
	for (int rep = 0; rep < reps; rep++) {
		for (int pi = 0; pi < NPROTOS; pi++) {
			for (int raw = 0; raw < 2; raw++) {
				for (int t = 0; t < 3; t++, idx++) {
					static const int trans[3] = { VF_T_INPROC, VF_T_TCP, VF_T_IPC };
					if (raw && proto_at(pi)->open_raw == NULL) continue;
					if (pi < vf_nprotos && trans[t] != VF_T_IPC) continue; // numbered above
					if ((idx % vf_nshards) != vf_shard || !vf_want_case(idx)) continue;
					vf_rng_seed(&r, vf_seed, (uint64_t) idx);
					run_case(idx, &r, pi, raw != 0, trans[t], (int) vf_range(&r, 6, 14), ((rep + pi + raw + t) & 1) != 0);
				}
			}
		}
	}
	// enumerated parked-message scenarios
	if (m_parked || vf_tier == 1) {
		long pidx = 1000000;
		for (int pi = 0; pi < vf_nprotos; pi++) {
			for (int raw = 0; raw < 2; raw++) {
				for (int t = 0; t < 2; t++) {
					for (int d = 0; d < D_N; d++) {
						if (!parked_applies(pi, raw != 0, d)) continue;
						for (int tg = 0; tg < dtargets[d]; tg++, pidx++) {
							if ((pidx % vf_nshards) != vf_shard || !vf_want_case(pidx)) continue;
							vf_rng_seed(&r, vf_seed, (uint64_t) pidx);
							run_parked(pidx, &r, pi, raw != 0, t == 0 ? VF_T_INPROC : VF_T_TCP, d, tg);
						}
					}
				}
			}
		}
		for (int t = 0; t < 2; t++) {
			for (int tg = 0; tg < 2; tg++) {
				for (int rep = 0; rep < 2; rep++, pidx++) {
					if ((pidx % vf_nshards) != vf_shard || !vf_want_case(pidx)) continue;
					vf_rng_seed(&r, vf_seed, (uint64_t) pidx);
					run_reply_busy(pidx, &r, t == 0 ? VF_T_INPROC : VF_T_TCP, tg);
				}
			}
		}
	}
	// second set (own run line in the quick tier): the tcp path filled with
	// large messages for every protocol that sends, and the parked scenarios
	// for pair1 polyamorous
	if (m_parked2 || vf_tier == 1) {
		long pidx = 2000000;
		for (int tg = 0; tg < dtargets[D_BIG_SEND]; tg++) {
			for (int pi = 0; pi < NPROTOS; pi++) {
				for (int raw = 0; raw < 2; raw++, pidx++) {
					if (raw && proto_at(pi)->open_raw == NULL) continue;
					if (!sends_unasked(pi, raw != 0)) continue;
					if ((pidx % vf_nshards) != vf_shard || !vf_want_case(pidx)) continue;
					vf_rng_seed(&r, vf_seed, (uint64_t) pidx);
					run_parked(pidx, &r, pi, raw != 0, VF_T_TCP, D_BIG_SEND, tg);
				}
			}
		}
		pidx = 2100000;
		for (int t = 0; t < 2; t++) {
			for (int d = 0; d < D_N; d++) {
				if (!parked_applies(vf_nprotos, false, d)) continue;
				for (int tg = 0; tg < dtargets[d]; tg++, pidx++) {
					if ((pidx % vf_nshards) != vf_shard || !vf_want_case(pidx)) continue;
					vf_rng_seed(&r, vf_seed, (uint64_t) pidx);
					run_parked(pidx, &r, vf_nprotos, false, t == 0 ? VF_T_INPROC : VF_T_TCP, d, tg);
				}
			}
		}
	}
	vf_nng_fini("C15");
	return vf_finish();
}
