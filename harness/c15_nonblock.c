// C15: non-blocking calls never block; poll descriptors mirror readiness.
// Protocol-agnostic differential oracle, applied at quiescent points of
// random histories on every protocol (cooked and raw):
//  (a) poll fd readable but the NONBLOCK op returns NNG_EAGAIN   (busy loop)
//  (b) NONBLOCK op succeeds although the fd was not readable     (missed wake-up)
//  (c) NONBLOCK op returns NNG_EAGAIN and the same op re-issued at once with a
//      100 ms timeout succeeds with no other stimulus             (could-but-didn't)
//  (d) a NONBLOCK call takes longer than 400 ms                   (blocks)
//  (e) after a failed NONBLOCK send the caller still owns the message (ASan /
//      allocator balance decide: the harness frees it).
// (a)/(b) are only reported if they persist after a further settle period.
#include "vfh.h"
#include <poll.h>
#include <unistd.h>

typedef struct {
	const vf_proto *pr;
	bool            raw;
	int             tran;
	nng_socket      s, peer;
	nng_msg        *stash; // last message received locally (for echo sends)
	int             rfd, sfd;
	bool            have_rfd, have_sfd;
	char            name[32];
	uint64_t        seq;
	bool            peer_open;
	nng_listener    lst;
	char            durl[128];
} cx_t;

static int
fd_readable(int fd)
{
	struct pollfd p = { fd, POLLIN, 0 };
	int           r = poll(&p, 1, 0);
	return r > 0 && (p.revents & POLLIN);
}

static nng_msg *
fresh_msg(cx_t *c)
{
	nng_msg *m;
	size_t   sz = 32;
	if (nng_msg_alloc(&m, sz) != 0) vf_harness_fail("alloc");
	vf_body_make(nng_msg_body(m), sz, 15, c->seq++);
	return m;
}

static bool
settle(cx_t *c)
{
	bool ok = vf_quiesce(c->tran == VF_T_INPROC ? 1 : 3, 2000);
	if (c->tran != VF_T_INPROC) {
		vf_msleep(3);
		ok = vf_quiesce(3, 2000) && ok;
	}
	return ok;
}

// one non-blocking receive probe
static void
probe_recv(cx_t *c, const char *after)
{
	nng_msg *m = NULL;
	char     key[128];
	if (!settle(c)) { vf_stat("not_quiescent", 1); return; }
	int      pre = c->have_rfd ? fd_readable(c->rfd) : -1;
	uint64_t t0  = vf_now_ns();
	int      rv  = nng_recvmsg(c->s, &m, NNG_FLAG_NONBLOCK);
	double   ms  = (double) (vf_now_ns() - t0) / 1e6;
	vf_stat("probes", 1);
	vf_class("%s/recv/fd%d/rv=%d/after=%s", c->name, pre, rv == 0 ? 0 : rv == NNG_EAGAIN ? 8 : rv, after);
	if (ms > 400.0) {
		snprintf(key, sizeof(key), "C15/blocked/%s.recv", c->name);
		vf_violation(key, "%s: NONBLOCK receive took %.0f ms (result %s) after %s", c->name, ms, nng_strerror(rv), after);
	}
	if (rv == 0) {
		if (pre == 0) {
			// (b) confirm: was it a transient? nothing to re-sample (message
			// consumed); the fd was sampled at quiescence, so a success means the
			// descriptor missed the readiness.
			snprintf(key, sizeof(key), "C15/missed-wakeup/%s.recv", c->name);
			vf_violation(key, "%s: recv poll fd not readable at quiescence but NONBLOCK receive succeeded (after %s)", c->name, after);
		}
		if (c->stash) nng_msg_free(c->stash);
		c->stash = m;
		return;
	}
	if (rv == NNG_EAGAIN) {
		if (pre == 1) {
			// (a) persistent?
			vf_msleep(200);
			settle(c);
			if (fd_readable(c->rfd)) {
				int rv2 = nng_recvmsg(c->s, &m, NNG_FLAG_NONBLOCK);
				if (rv2 == NNG_EAGAIN) {
					snprintf(key, sizeof(key), "C15/readable-but-eagain/%s.recv", c->name);
					vf_violation(key, "%s: recv poll fd stays readable but NONBLOCK receive returns NNG_EAGAIN (after %s)", c->name, after);
				} else if (rv2 == 0) {
					if (c->stash) nng_msg_free(c->stash);
					c->stash = m;
					return;
				}
			}
		}
		// (c) could it have supplied?
		nng_socket_set_ms(c->s, NNG_OPT_RECVTIMEO, 100);
		int rv3 = nng_recvmsg(c->s, &m, 0);
		if (rv3 == 0) {
			snprintf(key, sizeof(key), "C15/eagain-but-can/%s.recv", c->name);
			vf_violation(key, "%s: NONBLOCK receive returned NNG_EAGAIN at quiescence, the same receive with a 100 ms timeout then succeeded (after %s)", c->name, after);
			if (c->stash) nng_msg_free(c->stash);
			c->stash = m;
		}
	}
}

static void
probe_send(cx_t *c, const char *after)
{
	char     key[128];
	nng_msg *m;
	bool     echo = false;
	if (!settle(c)) { vf_stat("not_quiescent", 1); return; }
	if (c->stash != NULL && c->raw) {
		m        = c->stash; // raw protocols need the routing header back
		c->stash = NULL;
		echo     = true;
	} else {
		m = fresh_msg(c);
	}
	int      pre = c->have_sfd ? fd_readable(c->sfd) : -1;
	uint64_t t0  = vf_now_ns();
	int      rv  = nng_sendmsg(c->s, m, NNG_FLAG_NONBLOCK);
	double   ms  = (double) (vf_now_ns() - t0) / 1e6;
	vf_stat("probes", 1);
	vf_class("%s/send%s/fd%d/rv=%d/after=%s", c->name, echo ? "-echo" : "", pre, rv == 0 ? 0 : rv == NNG_EAGAIN ? 8 : rv, after);
	if (ms > 400.0) {
		snprintf(key, sizeof(key), "C15/blocked/%s.send", c->name);
		vf_violation(key, "%s: NONBLOCK send took %.0f ms (result %s) after %s", c->name, ms, nng_strerror(rv), after);
	}
	if (rv == 0) {
		if (pre == 0) {
			snprintf(key, sizeof(key), "C15/missed-wakeup/%s.send", c->name);
			vf_violation(key, "%s: send poll fd not readable at quiescence but NONBLOCK send succeeded (after %s)", c->name, after);
		}
		return; // library owns the message
	}
	// failed: we still own m (e): if the library freed or kept it, ASan / the
	// allocator balance at fini report it
	if (rv == NNG_EAGAIN) {
		if (pre == 1) {
			vf_msleep(200);
			settle(c);
			if (fd_readable(c->sfd)) {
				int rv2 = nng_sendmsg(c->s, m, NNG_FLAG_NONBLOCK);
				if (rv2 == NNG_EAGAIN) {
					snprintf(key, sizeof(key), "C15/readable-but-eagain/%s.send", c->name);
					vf_violation(key, "%s: send poll fd stays readable but NONBLOCK send returns NNG_EAGAIN (after %s)", c->name, after);
				} else if (rv2 == 0) {
					return;
				}
			}
		}
		nng_socket_set_ms(c->s, NNG_OPT_SENDTIMEO, 100);
		int rv3 = nng_sendmsg(c->s, m, 0);
		if (rv3 == 0) {
			snprintf(key, sizeof(key), "C15/eagain-but-can/%s.send", c->name);
			vf_violation(key, "%s: NONBLOCK send returned NNG_EAGAIN at quiescence, the same send with a 100 ms timeout then succeeded (after %s)", c->name, after);
			return;
		}
	}
	nng_msg_free(m);
}

static int
open_peer(cx_t *c)
{
	const vf_proto *pp = vf_proto_by_name(c->pr->peer_name);
	int             rv;
	if ((rv = pp->open(&c->peer)) != 0) return rv;
	nng_socket_set_ms(c->peer, NNG_OPT_SENDTIMEO, 60);
	nng_socket_set_ms(c->peer, NNG_OPT_RECVTIMEO, 60);
	nng_socket_set_ms(c->peer, NNG_OPT_REQ_RESENDTIME, 60000);
	nng_socket_set_ms(c->peer, NNG_OPT_SURVEYOR_SURVEYTIME, 5000);
	if (!strcmp(pp->name, "sub")) nng_sub0_socket_subscribe(c->peer, "", 0);
	if ((rv = nng_dial(c->peer, c->durl, NULL, 0)) != 0) return rv;
	for (int i = 0; i < 2000; i++) {
		if (vf_pipe_count(c->s) >= 1 && vf_pipe_count(c->peer) >= 1) break;
		vf_msleep(1);
	}
	c->peer_open = true;
	return 0;
}

static void
run_case(long idx, vf_rng *r, int pi, bool raw, int tran, int nops)
{
	cx_t c;
	char url[128];
	int  rv;
	memset(&c, 0, sizeof(c));
	c.pr   = &vf_protos[pi];
	c.raw  = raw;
	c.tran = tran;
	snprintf(c.name, sizeof(c.name), "%s%s", raw ? "x" : "", c.pr->name);
	vf_case_begin(idx, "proto=%s tran=%s ops=%d", c.name, vf_tran_names[tran], nops);
	if ((rv = (raw ? c.pr->open_raw : c.pr->open)(&c.s)) != 0) vf_harness_fail("open %s: %s", c.name, nng_strerror(rv));
	// long protocol timers: a call that waits for one of them is unambiguous
	nng_socket_set_ms(c.s, NNG_OPT_REQ_RESENDTIME, 60000);
	nng_socket_set_ms(c.s, NNG_OPT_SURVEYOR_SURVEYTIME, 2000);
	if (!strcmp(c.pr->name, "sub") && !raw) nng_sub0_socket_subscribe(c.s, "", 0);
	c.have_rfd = nng_socket_get_recv_poll_fd(c.s, &c.rfd) == 0;
	c.have_sfd = nng_socket_get_send_poll_fd(c.s, &c.sfd) == 0;
	vf_url(tran, url, sizeof(url));
	if ((rv = nng_listen(c.s, url, &c.lst, 0)) != 0) vf_harness_fail("listen %s", nng_strerror(rv));
	vf_dial_url(c.lst, tran, url, c.durl, sizeof(c.durl));

	probe_recv(&c, "open");
	probe_send(&c, "open");
	if ((rv = open_peer(&c)) != 0) vf_harness_fail("peer: %s", nng_strerror(rv));
	probe_send(&c, "connect");
	probe_recv(&c, "connect");

	char hist[200];
	size_t hl = 0;
	hist[0] = 0;
	for (int i = 0; i < nops; i++) {
		int         op = (int) vf_below(r, 9);
		const char *what = "?";
		switch (op) {
		case 0:
		case 1: { // peer sends k messages
			what = "peer-send";
			if (!c.peer_open) break;
			int k = (int) vf_range(r, 1, 4);
			for (int j = 0; j < k; j++) {
				nng_msg *m = fresh_msg(&c);
				if (nng_sendmsg(c.peer, m, 0) != 0) nng_msg_free(m);
			}
			break;
		}
		case 2: { // peer reads
			what = "peer-recv";
			if (!c.peer_open) break;
			nng_msg *m;
			int      k = (int) vf_range(r, 1, 4);
			for (int j = 0; j < k; j++) {
				if (nng_recvmsg(c.peer, &m, 0) == 0) {
					// a replying peer answers (rep/respondent)
					if (!strcmp(c.pr->peer_name, "rep") || !strcmp(c.pr->peer_name, "respondent")) {
						if (nng_sendmsg(c.peer, m, 0) != 0) nng_msg_free(m);
					} else {
						nng_msg_free(m);
					}
				}
			}
			break;
		}
		case 3:
			what = "resize-recvbuf";
			nng_socket_set_int(c.s, NNG_OPT_RECVBUF, (int) vf_below(r, 6));
			break;
		case 4:
			what = "resize-sendbuf";
			nng_socket_set_int(c.s, NNG_OPT_SENDBUF, (int) vf_below(r, 6));
			break;
		case 5: // peer goes away / comes back
			if (c.peer_open) {
				what = "peer-close";
				nng_socket_close(c.peer);
				c.peer_open = false;
			} else {
				what = "peer-open";
				if (open_peer(&c) != 0) vf_harness_fail("peer reopen");
			}
			break;
		case 6:
			if (!strcmp(c.pr->name, "sub") && !raw) {
				if (vf_chance(r, 1, 2)) { what = "unsubscribe"; nng_sub0_socket_unsubscribe(c.s, "", 0); }
				else { what = "subscribe"; nng_sub0_socket_subscribe(c.s, "", 0); }
			} else {
				what = "nothing";
			}
			break;
		default:
			what = "probe-only";
			break;
		}
		if (hl + strlen(what) + 2 < sizeof(hist)) hl += (size_t) snprintf(hist + hl, sizeof(hist) - hl, "%s%s", i ? "," : "", what);
		if (vf_chance(r, 1, 2)) { probe_recv(&c, what); probe_send(&c, what); }
		else { probe_send(&c, what); probe_recv(&c, what); }
		vf_watchdog(60);
	}
	if ((idx % 7) == 0) vf_sample("{\"proto\":\"%s\",\"tran\":\"%s\",\"history\":\"%s\"}", c.name, vf_tran_names[tran], hist);
	if (c.stash) nng_msg_free(c.stash);
	if (c.peer_open) nng_socket_close(c.peer);
	nng_socket_close(c.s);
	vf_stat("cases", 1);
}

int
main(int argc, char **argv)
{
	vf_init(argc, argv);
	vf_nng_init(4, 2, 2);
	vf_rng r;
	// enumerate protocol x raw x transport, several histories each
	long idx = 0;
	int  reps = vf_cases > 0 ? (int) vf_cases : 1;
	for (int rep = 0; rep < reps; rep++) {
		for (int pi = 0; pi < vf_nprotos; pi++) {
			for (int raw = 0; raw < 2; raw++) {
				for (int t = 0; t < 2; t++, idx++) {
					if ((idx % vf_nshards) != vf_shard || !vf_want_case(idx)) continue;
					vf_rng_seed(&r, vf_seed, (uint64_t) idx);
					run_case(idx, &r, pi, raw != 0, t == 0 ? VF_T_INPROC : VF_T_TCP, (int) vf_range(&r, 6, 14));
				}
			}
		}
	}
	vf_nng_fini("C15");
	return vf_finish();
}
