// C13: devices route replies back correctly and hop limits kill loops.
//
// Modes (one executable):
//   chain  k = 0..17 forwarders between 1-4 requesters (cooked or raw
//          REQ / SURVEYOR) and one replier (cooked or raw REP / RESPONDENT).
//          A forwarder is an nng_device_aio on (raw REP front, raw REQ back)
//          or a harness tap: the same two raw sockets forwarded by harness
//          threads that look at nng_msg_header.  MAXTTL 1..15 on every
//          receiving socket.  Oracle: the request of requester q is discarded
//          at the first socket j (j-th forwarder front, k+1 = replier) where
//          the number of backtrace words it arrives with (j + b0) exceeds that
//          socket's MAXTTL; otherwise it reaches the replier exactly once and
//          the echo returns to q, and only q, with the same body.  Taps and
//          the raw replier check: header words = own position + b0 + 1, only
//          the last word has the high bit, headers seen further down are the
//          earlier header with words put in front, and the reply passes a tap
//          with the very header the request left it with.
//          Topology changes (second audit): a "ghost" raw requester sends one
//          request and is gone before the held-back reply is produced - the
//          reply must die at its attach point, reach no other pipe and leave
//          every forwarder alive; between the phases one link is closed
//          (nng_pipe_close) and redialled; raw REQ requesters in burst mode
//          keep all requests of a phase outstanding at once.
//   loop   1-3 devices and a tap wired into a ring (xreq/xrep, xsurveyor/
//          xrespondent, raw pair1 in both directions): one injected message
//          passes the tap exactly as often as the MAXTTLs of the ring allow;
//          raw bus: reflector devices in a line and a two-socket forwarder
//          (bus has no MAXTTL, only the do-not-return-to-sender rule): every
//          other node gets exactly one copy.  Afterwards the process is idle
//          (CPU time over 150 ms windows).  Device-only cycles with a counter
//          hanging off one back socket, several messages in flight and an
//          optional doubled link (survey fan-out inside the cycle): pure_case.
//   raw    a raw TCP peer (SP handshake as REQ/SURVEYOR) sends backtraces of
//          0..20 words, with/without terminator, high-bit patterns, payloads
//          that end mid-word, to a cooked REP/RESPONDENT or to 1-3 devices in
//          front of a replier; delivered iff the first high-bit word is within
//          MAXTTL of every socket on the path (then header/body/reply are
//          exact), otherwise nothing is delivered and a well-formed request on
//          the same (or, after a disconnect, a fresh) connection still works.
//          Reverse direction: a raw TCP peer acting as REP behind a device
//          answers with crafted reply backtraces.
//   stop   nng_aio_cancel / aio timeout / misuse: the device aio completes
//          with an error, no leak at nng_fini.
#include "vfh.h"

#include <errno.h>
#include <poll.h>
#include <pthread.h>
#include <stdatomic.h>
#include <sys/resource.h>
#include <unistd.h>

#define MAXHOPS 18
#define MAXREQ 4
#define MAXREP 3
#define HDRCAP 64
#define LONG_MS 10000
#define DROP_WAIT_MS 250

static uint32_t
get32(const uint8_t *p)
{
	return ((uint32_t) p[0] << 24) | ((uint32_t) p[1] << 16) | ((uint32_t) p[2] << 8) | p[3];
}
static void
put32(uint8_t *p, uint32_t v)
{
	p[0] = (uint8_t) (v >> 24);
	p[1] = (uint8_t) (v >> 16);
	p[2] = (uint8_t) (v >> 8);
	p[3] = (uint8_t) v;
}

// ------------------------------------------------------------ families
typedef struct {
	const char *name;
	vf_open_fn  req, req_raw, rep, rep_raw;
	uint16_t    req_proto, rep_proto;
} family;
static const family fams[2] = {
	{ "reqrep", nng_req0_open, nng_req0_open_raw, nng_rep0_open, nng_rep0_open_raw, 0x30, 0x31 },
	{ "survey", nng_surveyor0_open, nng_surveyor0_open_raw, nng_respondent0_open, nng_respondent0_open_raw, 0x62, 0x63 },
};

// ------------------------------------------------------------ pipe counters
typedef struct {
	_Atomic int      n;
	_Atomic int      adds, rems;
	_Atomic uint32_t last; // id of the pipe added last
} pcount;
#define PC_POOL 8192
static pcount pc_pool[PC_POOL];
static int    pc_next;

static pcount *
pc_get(void)
{
	if (pc_next >= PC_POOL) {
		vf_harness_fail("pipe counter pool exhausted");
	}
	pcount *p = &pc_pool[pc_next++];
	atomic_store(&p->n, 0);
	atomic_store(&p->adds, 0);
	atomic_store(&p->rems, 0);
	atomic_store(&p->last, 0);
	return p;
}

static void
pipe_cb(nng_pipe p, nng_pipe_ev ev, void *arg)
{
	pcount *pc = arg;
	if (ev == NNG_PIPE_EV_ADD_POST) {
		atomic_store(&pc->last, (uint32_t) nng_pipe_id(p));
		atomic_fetch_add(&pc->n, 1);
		atomic_fetch_add(&pc->adds, 1);
	} else if (ev == NNG_PIPE_EV_REM_POST) {
		atomic_fetch_sub(&pc->n, 1);
		atomic_fetch_add(&pc->rems, 1);
	}
}

static void
pc_wait(pcount *pc, int n, const char *what)
{
	for (int i = 0; i < 10000; i++) {
		if (atomic_load(&pc->n) >= n) {
			return;
		}
		vf_msleep(1);
	}
	vf_harness_fail("%s: %d of %d pipes after 10 s (%d added, %d removed)", what, atomic_load(&pc->n), n, atomic_load(&pc->adds), atomic_load(&pc->rems));
}

static int cases_since_init;

// Every lost reply costs LONG_MS.  Once a worker has reported two of them
// the verdict is settled: the rest of its cases is skipped (counted in
// cases_skipped_after_repeated_reply_loss) instead of waiting for minutes.
static _Atomic int reply_lost_reports;

static void
lib_cycle(bool force)
{
	if (force || ++cases_since_init >= 8) {
		vf_pt_off();
		vf_nng_fini("C13");
		vf_nng_init(4, 2, 2);
		pc_next          = 0;
		cases_since_init = 0;
	}
}

// ------------------------------------------------------------ sockets
static nng_socket
sk_open(vf_open_fn fn, int ttl, pcount **pcp)
{
	nng_socket s;
	int        rv;
	if ((rv = fn(&s)) != 0) {
		vf_harness_fail("socket open: %s", nng_strerror(rv));
	}
	if (ttl > 0 && (rv = nng_socket_set_int(s, NNG_OPT_MAXTTL, ttl)) != 0) {
		vf_harness_fail("set MAXTTL %d: %s", ttl, nng_strerror(rv));
	}
	nng_socket_set_ms(s, NNG_OPT_SENDTIMEO, LONG_MS);
	pcount *pc = pc_get();
	nng_pipe_notify(s, NNG_PIPE_EV_ADD_POST, pipe_cb, pc);
	nng_pipe_notify(s, NNG_PIPE_EV_REM_POST, pipe_cb, pc);
	if (pcp) {
		*pcp = pc;
	}
	return s;
}

static void
sk_listen(nng_socket s, int tran, char *durl, size_t sz)
{
	char         url[128];
	nng_listener l;
	int          rv;
	vf_url(tran, url, sizeof(url));
	if ((rv = nng_listen(s, url, &l, 0)) != 0) {
		vf_harness_fail("listen %s: %s", url, nng_strerror(rv));
	}
	if ((rv = vf_dial_url(l, tran, url, durl, sz)) != 0) {
		vf_harness_fail("dial url of %s: %s", url, nng_strerror(rv));
	}
}

static void
sk_dial(nng_socket s, const char *durl)
{
	int rv = 0;
	for (int i = 0; i < 50; i++) {
		if ((rv = nng_dial(s, durl, NULL, 0)) == 0) {
			return;
		}
		vf_msleep(20);
	}
	vf_harness_fail("dial %s: %s", durl, nng_strerror(rv));
}

// diagnostics for a link that does not come (back) up
static void
dump_sock_stats(nng_socket s)
{
	nng_stat       *st = NULL;
	const nng_stat *ss;
	if (nng_stats_get(&st) != 0) {
		return;
	}
	if ((ss = nng_stat_find_socket(st, s)) != NULL) {
		fflush(stdout);
		nng_stats_dump(ss);
		fflush(stdout);
	}
	nng_stats_free(st);
}

static uint16_t
url_port(const char *durl)
{
	const char *c = strrchr(durl, ':');
	return c ? (uint16_t) atoi(c + 1) : 0;
}

static int
pick_tran(vf_rng *r)
{
	uint32_t x = vf_below(r, 12);
	return x < 9 ? VF_T_INPROC : x < 11 ? VF_T_TCP : VF_T_IPC;
}

static void
set_pert(vf_rng *r, int *pert_out)
{
	int pert = (int) vf_below(r, 3);
	if (pert == 1) {
		vf_pt_jitter(vf_rand(r), (int) vf_range(r, 5, 60), (int) vf_range(r, 20, 300));
	} else if (pert == 2) {
		vf_pt_jitter(vf_rand(r), 5, 50);
	} else {
		vf_pt_off();
	}
	*pert_out = pert;
}

// ------------------------------------------------------------ devices
typedef struct {
	nng_aio     *aio;
	_Atomic int  done;
	_Atomic int  result;
} devh;

static void
dev_cb(void *arg)
{
	devh *d = arg;
	atomic_store(&d->result, (int) nng_aio_result(d->aio));
	atomic_store(&d->done, 1);
}

static void
dev_start(devh *d, nng_socket a, nng_socket b)
{
	int rv;
	atomic_store(&d->done, 0);
	if ((rv = nng_aio_alloc(&d->aio, dev_cb, d)) != 0) {
		vf_harness_fail("aio alloc: %s", nng_strerror(rv));
	}
	nng_device_aio(d->aio, a, b);
}

// Stop a running device by cancellation; judge "ends with an error".
static void
dev_stop(devh *d, const char *what)
{
	if (atomic_load(&d->done)) {
		vf_violation("C13/device-ended-by-itself", "%s: nng_device_aio completed with '%s' although nobody stopped it and its sockets were healthy", what, nng_strerror((nng_err) atomic_load(&d->result)));
	}
	nng_aio_cancel(d->aio);
	nng_aio_wait(d->aio);
	int rv = (int) nng_aio_result(d->aio);
	if (rv == 0) {
		vf_violation("C13/device-stop/no-error", "%s: cancelled nng_device_aio completed with result 0", what);
	} else {
		vf_stat("device_stops_with_error", 1);
	}
	nng_aio_free(d->aio);
	d->aio = NULL;
}

// ------------------------------------------------------------ replier
typedef struct {
	uint8_t  hdr[HDRCAP];
	size_t   hlen;
	uint8_t *body;
	size_t   blen;
} arrival;

typedef struct {
	nng_socket      s;
	bool            raw;
	pthread_t       th;
	pthread_mutex_t mtx;
	arrival        *log;
	int             n, cap;
	_Atomic bool    mute; // receive but do not answer
	// "ghost" requests (tag == ghost_tag) are answered only after the
	// requester has gone away: the thread keeps the request until released
	bool            ghost_on;
	uint32_t        ghost_tag;
	_Atomic int     nheld;
	_Atomic bool    release;
} replier;

static void *
replier_main(void *arg)
{
	replier *rp = arg;
	for (;;) {
		nng_msg *m = NULL;
		int      rv = nng_recvmsg(rp->s, &m, 0);
		if (rv == NNG_ETIMEDOUT) {
			continue;
		}
		if (rv != 0) {
			break;
		}
		pthread_mutex_lock(&rp->mtx);
		if (rp->n == rp->cap) {
			rp->cap = rp->cap ? rp->cap * 2 : 64;
			rp->log = realloc(rp->log, (size_t) rp->cap * sizeof(arrival));
		}
		arrival *a = &rp->log[rp->n];
		a->hlen    = nng_msg_header_len(m);
		if (a->hlen > HDRCAP) {
			a->hlen = HDRCAP;
		}
		memcpy(a->hdr, nng_msg_header(m), a->hlen);
		a->blen = nng_msg_len(m);
		a->body = malloc(a->blen + 1);
		memcpy(a->body, nng_msg_body(m), a->blen);
		rp->n++;
		pthread_mutex_unlock(&rp->mtx);
		if (atomic_load(&rp->mute)) {
			nng_msg_free(m);
			continue;
		}
		if (rp->ghost_on) {
			uint32_t tg = 0;
			uint64_t sq = 0;
			if (vf_body_check(nng_msg_body(m), nng_msg_len(m), &tg, &sq) == 0 && tg == rp->ghost_tag) {
				atomic_fetch_add(&rp->nheld, 1);
				while (!atomic_load(&rp->release)) {
					vf_usleep(200);
				}
			}
		}
		if ((rv = nng_sendmsg(rp->s, m, 0)) != 0) {
			nng_msg_free(m);
			if (rv == NNG_ECLOSED) {
				break;
			}
		}
	}
	return NULL;
}

static void
replier_start_ghost(replier *rp, nng_socket s, bool raw, bool ghost_on, uint32_t ghost_tag)
{
	memset(rp, 0, sizeof(*rp));
	rp->s         = s;
	rp->raw       = raw;
	rp->ghost_on  = ghost_on;
	rp->ghost_tag = ghost_tag;
	pthread_mutex_init(&rp->mtx, NULL);
	pthread_create(&rp->th, NULL, replier_main, rp);
}

static void
replier_start(replier *rp, nng_socket s, bool raw)
{
	replier_start_ghost(rp, s, raw, false, 0);
}

static int
replier_count(replier *rp)
{
	pthread_mutex_lock(&rp->mtx);
	int n = rp->n;
	pthread_mutex_unlock(&rp->mtx);
	return n;
}

static bool
replier_wait(replier *rp, int n, int ms)
{
	uint64_t end = vf_now_ns() + (uint64_t) ms * 1000000ULL;
	while (replier_count(rp) < n) {
		if (vf_now_ns() > end) {
			return false;
		}
		vf_usleep(300);
	}
	return true;
}

// closes the socket, joins the thread; the log stays valid until _free
static void
replier_stop(replier *rp)
{
	atomic_store(&rp->release, true);
	nng_socket_close(rp->s);
	pthread_join(rp->th, NULL);
}

static void
replier_free(replier *rp)
{
	for (int i = 0; i < rp->n; i++) {
		free(rp->log[i].body);
	}
	free(rp->log);
	pthread_mutex_destroy(&rp->mtx);
}

// ------------------------------------------------------------ idle test
static double
cpu_ms(void)
{
	struct rusage ru;
	getrusage(RUSAGE_SELF, &ru);
	return (double) ru.ru_utime.tv_sec * 1e3 + (double) ru.ru_utime.tv_usec / 1e3 +
	    (double) ru.ru_stime.tv_sec * 1e3 + (double) ru.ru_stime.tv_usec / 1e3;
}

// The process must go idle: in at least one of three 150 ms windows the CPU
// time consumed by all threads is < 30% of the elapsed wall time.
static void
idle_check(const char *what)
{
	double worst = 0;
	vf_quiesce(3, 3000);
	for (int w = 0; w < 3; w++) {
		double   c0 = cpu_ms();
		uint64_t t0 = vf_now_ns();
		vf_msleep(150);
		double c1   = cpu_ms();
		double wall = (double) (vf_now_ns() - t0) / 1e6;
		double frac = (c1 - c0) / (wall > 1 ? wall : 1);
		if (frac < 0.30) {
			vf_stat("idle_windows_verified", 1);
			return;
		}
		if (frac > worst) {
			worst = frac;
		}
	}
	vf_violation("C13/loop-not-idle", "%s: the process kept burning CPU after the traffic should have died out (>= %.0f%% of a core in three consecutive 150 ms windows)", what, worst * 100);
}

// ============================================================ chain mode
typedef struct {
	uint32_t tag;
	uint64_t seq;
	uint8_t  hdr[HDRCAP];
	size_t   hlen;
	int      out_seen, back_seen;
} obsrec;
#define OBS_MAX 160

typedef struct chain chain;

typedef struct {
	chain          *c;
	int             pos; // forwarder index 1..k
	nng_socket      front, back;
	pthread_t       th_out, th_back;
	pthread_mutex_t mtx;
	obsrec          rec[OBS_MAX];
	int             n;
} tap;

typedef struct {
	bool       is_tap;
	nng_socket front, back;
	pcount    *pc_front, *pc_back;
	devh       dev;
	tap       *tp;
	int        tran; // transport of the link INTO this hop's front
} hop;

typedef struct {
	chain     *c;
	int        id;
	bool       raw;
	int        b0; // backtrace words already present before the request id
	int        at; // forwarder whose front this requester dials (1 = head of the chain)
	uint32_t   pre[2];
	nng_socket s;
	pcount    *pc;
	pthread_t  th;
	int        phase;
	int        sent[2];   // requests sent per phase
	bool       got[2][8]; // reply verified
	uint8_t    shdr[2][8][12];
	uint64_t   key;
	bool       burst; // raw REQ: all requests of a phase are sent before any reply is read
} requester;

struct chain {
	const family *f;
	int           fam, k, nreq, nphase;
	hop           h[MAXHOPS + 2]; // 1..k
	int           ttl[2][MAXHOPS + 2]; // [phase][1..k+1]
	int           ttl_back[MAXHOPS + 2];
	requester     rq[MAXREQ + 1]; // rq[nreq] is the ghost
	int           ntags; // nreq (+1 with a ghost)
	// ghost: a raw requester that sends one request and is gone before the
	// (held back) reply is produced; a bystander socket on the same front
	// socket only listens.  The reply must die at the ghost's attach point.
	bool          ghost;
	int           ghost_ph;
	pthread_t     ghost_th;
	bool          ghost_sent, ghost_held, ghost_ran;
	int           ghost_dropped; // replies verified to have reached nobody
	nng_socket    bystander;
	pcount       *pc_by;
	// link flap between the phases: the pipe into socket flap_link on the
	// path of requester flap_req is closed and redialled
	int           flap_link, flap_req;
	_Atomic bool  lost; // a reply was lost: reported, end the case quickly
	int           nrep; // repliers behind the last back socket (fan-out)
	replier       rp[MAXREP];
	bool          rep_raw;
	bool          resend; // cooked REQ resends every 30 ms, replier mute at first
	pcount       *pc_rep[MAXREP];
	int           tran_rep;
	int           ndeliv, ndrop;
	char          ctx[96];
	// Responses of all requesters share one pipe from the second hop on.
	// xrespondent queues 2 messages per pipe and drops the rest (best
	// effort), xrep queues 64: bound the exchanges in flight accordingly so
	// that a loss can only be a routing/TTL fault, never back-pressure.
	pthread_mutex_t gate_mtx;
	pthread_cond_t  gate_cv;
	int             gate_free;
};

static void
gate_enter(chain *c)
{
	pthread_mutex_lock(&c->gate_mtx);
	while (c->gate_free == 0) {
		pthread_cond_wait(&c->gate_cv, &c->gate_mtx);
	}
	c->gate_free--;
	pthread_mutex_unlock(&c->gate_mtx);
}

static void
gate_leave(chain *c)
{
	pthread_mutex_lock(&c->gate_mtx);
	c->gate_free++;
	pthread_cond_signal(&c->gate_cv);
	pthread_mutex_unlock(&c->gate_mtx);
}

// 0 = delivered, else the index of the socket that must discard the request
// A requester attached at forwarder 'at' arrives at socket j (>= at) with
// (j - at + 1) + b0 backtrace words.
static int
words_at(int j, int at, int b0)
{
	return j - at + 1 + b0;
}

static int
drop_at(const chain *c, int phase, int b0, int at)
{
	for (int j = at; j <= c->k + 1; j++) {
		if (words_at(j, at, b0) > c->ttl[phase][j]) {
			return j;
		}
	}
	return 0;
}

static obsrec *
obs_find(tap *t, uint32_t tag, uint64_t seq)
{
	for (int i = 0; i < t->n; i++) {
		if (t->rec[i].tag == tag && t->rec[i].seq == seq) {
			return &t->rec[i];
		}
	}
	return NULL;
}

// backtrace shape: all words but the last have the high bit clear
static bool
bt_shape_ok(const uint8_t *h, size_t hl)
{
	if (hl < 4 || (hl & 3)) {
		return false;
	}
	for (size_t o = 0; o + 4 < hl; o += 4) {
		if (h[o] & 0x80) {
			return false;
		}
	}
	return (h[hl - 4] & 0x80) != 0;
}

static void *
tap_out_main(void *arg)
{
	tap   *t = arg;
	chain *c = t->c;
	for (;;) {
		nng_msg *m = NULL;
		int      rv = nng_recvmsg(t->front, &m, 0);
		if (rv == NNG_ETIMEDOUT) {
			continue;
		}
		if (rv != 0) {
			break;
		}
		const uint8_t *h  = nng_msg_header(m);
		size_t         hl = nng_msg_header_len(m);
		uint32_t       tag = 0;
		uint64_t       seq = 0;
		if (vf_body_check(nng_msg_body(m), nng_msg_len(m), &tag, &seq) != 0 || tag >= (uint32_t) c->ntags) {
			vf_violation("C13/body-changed", "%s: tap at hop %d received a request whose body is not one that was sent (len %zu)", c->ctx, t->pos, nng_msg_len(m));
		} else {
			int want = words_at(t->pos, c->rq[tag].at, c->rq[tag].b0) + 1;
			if (t->pos < c->rq[tag].at) {
				vf_violation("C13/request-misrouted", "%s: forwarder %d received a request of requester %u which is attached behind it (at forwarder %d)", c->ctx, t->pos, tag, c->rq[tag].at);
			} else if (hl != (size_t) want * 4) {
				vf_violation("C13/backtrace-depth", "%s: request of requester %u arrives at forwarder %d with %zu header bytes, expected %d words (one per hop + request id)", c->ctx, tag, t->pos, hl, want);
			} else if (!bt_shape_ok(h, hl)) {
				vf_violation("C13/backtrace-shape", "%s: header at forwarder %d is not <peer ids with high bit clear><id with high bit set>", c->ctx, t->pos);
			}
			pthread_mutex_lock(&t->mtx);
			obsrec *o = obs_find(t, tag, seq);
			if (o == NULL && t->n < OBS_MAX) {
				o = &t->rec[t->n++];
				memset(o, 0, sizeof(*o));
				o->tag  = tag;
				o->seq  = seq;
				o->hlen = hl > HDRCAP ? HDRCAP : hl;
				memcpy(o->hdr, h, o->hlen);
			}
			if (o != NULL) {
				if (o->out_seen > 0 && (o->hlen != hl || memcmp(o->hdr, h, hl) != 0)) {
					vf_violation("C13/backtrace-unstable", "%s: a re-sent request passes forwarder %d with a different header than its first copy", c->ctx, t->pos);
				} else if (o->out_seen > 0) {
					vf_stat("resent_copies_same_backtrace", 1);
				}
				o->out_seen++;
			}
			pthread_mutex_unlock(&t->mtx);
			vf_stat("tap_requests_checked", 1);
		}
		if ((rv = nng_sendmsg(t->back, m, 0)) != 0) {
			nng_msg_free(m);
			if (rv == NNG_ECLOSED) {
				break;
			}
		}
	}
	return NULL;
}

static void *
tap_back_main(void *arg)
{
	tap   *t = arg;
	chain *c = t->c;
	for (;;) {
		nng_msg *m = NULL;
		int      rv = nng_recvmsg(t->back, &m, 0);
		if (rv == NNG_ETIMEDOUT) {
			continue;
		}
		if (rv != 0) {
			break;
		}
		const uint8_t *h  = nng_msg_header(m);
		size_t         hl = nng_msg_header_len(m);
		uint32_t       tag = 0;
		uint64_t       seq = 0;
		if (vf_body_check(nng_msg_body(m), nng_msg_len(m), &tag, &seq) != 0 || tag >= (uint32_t) c->ntags) {
			vf_violation("C13/body-changed", "%s: tap at hop %d received a reply whose body is not one that was sent (len %zu)", c->ctx, t->pos, nng_msg_len(m));
		} else {
			pthread_mutex_lock(&t->mtx);
			obsrec *o = obs_find(t, tag, seq);
			if (o == NULL) {
				vf_violation("C13/backtrace-unwind", "%s: a reply for (requester %u, seq %llx) comes back through forwarder %d which never forwarded that request", c->ctx, tag, (unsigned long long) seq, t->pos);
			} else {
				o->back_seen++;
				if (hl != o->hlen || memcmp(h, o->hdr, hl) != 0) {
					vf_violation("C13/backtrace-unwind", "%s: the reply arrives at forwarder %d with a %zu-byte header that differs from the %zu-byte header the request left with", c->ctx, t->pos, hl, o->hlen);
				} else {
					vf_stat("tap_replies_checked", 1);
				}
			}
			pthread_mutex_unlock(&t->mtx);
		}
		if ((rv = nng_sendmsg(t->front, m, 0)) != 0) {
			nng_msg_free(m);
			if (rv == NNG_ECLOSED) {
				break;
			}
		}
	}
	return NULL;
}

static size_t
req_size(const requester *q, int phase, int i)
{
	uint64_t x = vf_mix64(q->key ^ ((uint64_t) phase << 20) ^ (uint64_t) i);
	if ((x & 15) == 0) {
		return 4000 + (size_t) ((x >> 8) % 3000);
	}
	return VF_BODY_MIN + (size_t) ((x >> 8) % 600);
}

static uint64_t
req_seq(int phase, int i)
{
	return ((uint64_t) (phase + 1) << 32) | (uint64_t) i;
}

// Builds request i of the phase (body, raw: backtrace as sent).
static nng_msg *
req_build(requester *q, int ph, int i)
{
	nng_msg *m;
	size_t   sz = req_size(q, ph, i);
	if (nng_msg_alloc(&m, sz) != 0) {
		vf_harness_fail("msg alloc");
	}
	vf_body_make(nng_msg_body(m), sz, (uint32_t) q->id, req_seq(ph, i));
	if (q->raw) {
		for (int w = 0; w < q->b0; w++) {
			nng_msg_header_append_u32(m, q->pre[w]);
		}
		nng_msg_header_append_u32(m, 0x80000000u | (uint32_t) vf_mix64(q->key + (uint64_t) i * 31 + (uint64_t) ph));
		memcpy(q->shdr[ph][i], nng_msg_header(m), nng_msg_header_len(m));
	}
	return m;
}

// Judges one answer.  expect >= 0: it must be the answer to request
// 'expect' of this phase; -1: to any request sent in this phase.  Returns
// the index of the request it is the exact echo of, -1 after a violation.
static int
answer_check(requester *q, int ph, int expect, nng_msg *r)
{
	chain   *c   = q->c;
	uint32_t tag = 0;
	uint64_t rs  = 0;
	if (vf_body_check(nng_msg_body(r), nng_msg_len(r), &tag, &rs) != 0) {
		vf_violation("C13/body-changed", "%s: requester %d received a reply of %zu bytes that is not a body it sent", c->ctx, q->id, nng_msg_len(r));
		return -1;
	}
	if (tag != (uint32_t) q->id) {
		vf_violation("C13/reply-misrouted", "%s: requester %d received the reply that belongs to requester %u%s", c->ctx, q->id, tag, c->ghost && tag == (uint32_t) c->nreq ? " (a requester that has gone away)" : "");
		return -1;
	}
	int i = (int) (rs & 0xffffffffu);
	if ((rs >> 32) != (uint64_t) (ph + 1) || i >= q->sent[ph] || (expect >= 0 && i != expect)) {
		vf_violation("C13/reply-mismatch", "%s: requester %d asked seq %llx and received the reply for seq %llx", c->ctx, q->id, (unsigned long long) req_seq(ph, expect >= 0 ? expect : 0), (unsigned long long) rs);
		return -1;
	}
	size_t   sz   = req_size(q, ph, i);
	uint8_t *want = malloc(sz);
	bool     same;
	vf_body_make(want, sz, (uint32_t) q->id, req_seq(ph, i));
	same = nng_msg_len(r) == sz && memcmp(nng_msg_body(r), want, sz) == 0;
	free(want);
	if (!same) {
		vf_violation("C13/body-changed", "%s: requester %d received a reply of %zu bytes that is not the %zu-byte body it sent", c->ctx, q->id, nng_msg_len(r), sz);
		return -1;
	}
	if (q->raw) {
		size_t hl = (size_t) (q->b0 + 1) * 4;
		if (nng_msg_header_len(r) != hl || memcmp(nng_msg_header(r), q->shdr[ph][i], hl) != 0) {
			vf_violation("C13/backtrace-unwind", "%s: raw requester %d receives its reply with a %zu-byte header, sent %zu bytes (backtrace not unwound exactly)", c->ctx, q->id, nng_msg_header_len(r), hl);
			return -1;
		}
	}
	vf_stat("replies_verified", 1);
	return i;
}

static void
reply_lost(requester *q, int ph, int i, int ans, int nans, int rv)
{
	chain *c = q->c;
	vf_violation("C13/reply-lost", "%s: requester %d (b0=%d, attached at %d%s) phase %d msg %d: answer %d of %d did not arrive within %d ms (%s) although every socket on the path has MAXTTL >= the words it sees", c->ctx, q->id, q->b0, q->at, q->burst ? ", burst" : "", ph, i, ans + 1, nans, LONG_MS, nng_strerror(rv));
	// reported; do not spend another LONG_MS per remaining request
	atomic_store(&c->lost, true);
	atomic_fetch_add(&reply_lost_reports, 1);
}

static void *
requester_main(void *arg)
{
	requester *q  = arg;
	chain     *c  = q->c;
	int        ph = q->phase;
	int        d  = drop_at(c, ph, q->b0, q->at);
	int        n  = d ? c->ndrop : c->ndeliv;
	int        nans = c->fam == 1 ? c->nrep : 1; // a survey is answered by every respondent
	int        wait_ms = d ? DROP_WAIT_MS : LONG_MS;

	nng_socket_set_ms(q->s, NNG_OPT_RECVTIMEO, wait_ms);
	if (!q->raw && c->fam == 1) {
		nng_socket_set_ms(q->s, NNG_OPT_SURVEYOR_SURVEYTIME, wait_ms);
	}
	if (q->burst && d == 0) {
		// several requests outstanding on one raw REQ socket; the answers
		// may overtake each other (fan-out): matched by their body
		int rv, nrx = 0;
		for (int i = 0; i < n; i++) {
			nng_msg *m = req_build(q, ph, i);
			if ((rv = nng_sendmsg(q->s, m, 0)) != 0) {
				nng_msg_free(m);
				vf_violation("C13/request-send-failed", "%s: requester %d could not send: %s", c->ctx, q->id, nng_strerror(rv));
				break;
			}
			q->sent[ph] = i + 1;
		}
		while (nrx < q->sent[ph]) {
			nng_msg *r = NULL;
			if ((rv = nng_recvmsg(q->s, &r, 0)) != 0) {
				reply_lost(q, ph, nrx, 0, 1, rv);
				break;
			}
			int i = answer_check(q, ph, -1, r);
			if (i >= 0 && q->got[ph][i]) {
				vf_violation("C13/extra-reply", "%s: raw requester %d received the reply to its request %d twice", c->ctx, q->id, i);
			} else if (i >= 0) {
				q->got[ph][i] = true;
				if (i != nrx) {
					vf_stat("burst_replies_out_of_order", 1);
				}
			}
			nng_msg_free(r);
			nrx++;
		}
		n = 0; // nothing left for the one-at-a-time loop
	}
	for (int i = 0; i < n && !atomic_load(&c->lost); i++) {
		nng_msg *m = req_build(q, ph, i), *r = NULL;
		int      rv;
		if (d == 0) {
			gate_enter(c);
		}
		if ((rv = nng_sendmsg(q->s, m, 0)) != 0) {
			if (d == 0) {
				gate_leave(c);
			}
			nng_msg_free(m);
			vf_violation("C13/request-send-failed", "%s: requester %d could not send: %s", c->ctx, q->id, nng_strerror(rv));
			break;
		}
		q->sent[ph] = i + 1;
		rv          = nng_recvmsg(q->s, &r, 0);
		if (d != 0) {
			if (rv == 0) {
				vf_violation("C13/over-ttl-answered", "%s: requester %d got a reply although its request arrives at socket %d with %d backtrace words and MAXTTL there is %d", c->ctx, q->id, d, words_at(d, q->at, q->b0), c->ttl[ph][d]);
				nng_msg_free(r);
			} else {
				vf_stat("requests_timed_out_as_predicted", 1);
			}
			continue;
		}
		int nok = 0;
		for (int ans = 0; ans < nans; ans++) {
			if (ans > 0) {
				rv = nng_recvmsg(q->s, &r, 0);
			}
			if (rv != 0) {
				reply_lost(q, ph, i, ans, nans, rv);
				break;
			}
			nok += answer_check(q, ph, i, r) == i;
			nng_msg_free(r);
			r = NULL;
		}
		gate_leave(c); // held for the whole exchange
		q->got[ph][i] = nok == nans;
		if (nok == nans && nans > 1) {
			vf_stat("surveys_answered_by_all_respondents", 1);
		}
	}
	if (q->raw && !atomic_load(&c->lost)) {
		// a raw requester sees everything that is routed to it
		nng_msg *r = NULL;
		nng_socket_set_ms(q->s, NNG_OPT_RECVTIMEO, 30);
		if (nng_recvmsg(q->s, &r, 0) == 0) {
			uint32_t tag = 0xffffffffu;
			uint64_t rs  = 0;
			vf_body_check(nng_msg_body(r), nng_msg_len(r), &tag, &rs);
			vf_violation("C13/extra-reply", "%s: raw requester %d received an additional message (tag %u seq %llx%s) after all its requests were settled", c->ctx, q->id, tag, (unsigned long long) rs, c->ghost && tag == (uint32_t) c->nreq ? ": the reply to a requester that has gone away" : "");
			nng_msg_free(r);
		}
	}
	return NULL;
}

// The ghost: one request, then the socket is closed; only when its pipe has
// been removed from the forwarder's front socket the repliers answer.
static void *
ghost_main(void *arg)
{
	chain     *c = arg;
	requester *g = &c->rq[c->nreq];
	int        nans = c->fam == 1 ? c->nrep : 1;
	int        ph = c->ghost_ph, rv;
	pcount    *pcf = c->h[g->at].pc_front;
	int        rems0 = atomic_load(&pcf->rems);
	nng_msg   *m = req_build(g, ph, 0);

	if ((rv = nng_sendmsg(g->s, m, 0)) != 0) {
		nng_msg_free(m);
		vf_violation("C13/request-send-failed", "%s: the ghost requester could not send: %s", c->ctx, nng_strerror(rv));
	} else {
		g->sent[ph]   = 1;
		c->ghost_sent = true;
		uint64_t end  = vf_now_ns() + (uint64_t) LONG_MS * 1000000ULL;
		for (;;) {
			int held = 0;
			for (int x = 0; x < c->nrep; x++) {
				held += atomic_load(&c->rp[x].nheld);
			}
			if (held >= nans) {
				c->ghost_held = true;
				break;
			}
			if (vf_now_ns() > end) {
				vf_violation("C13/within-ttl-dropped", "%s: the request of a raw requester attached at forwarder %d reached %d of %d repliers within %d ms although every MAXTTL on its path allows it", c->ctx, g->at, held, nans, LONG_MS);
				break;
			}
			vf_usleep(300);
		}
	}
	nng_socket_close(g->s);
	for (int i = 0; atomic_load(&pcf->rems) <= rems0; i++) {
		if (i > 10000) {
			vf_harness_fail("ghost: its pipe was not removed from the front socket within 10 s");
		}
		vf_msleep(1);
	}
	for (int x = 0; x < c->nrep; x++) {
		atomic_store(&c->rp[x].release, true);
	}
	return NULL;
}

static void
chain_gen_ttl(chain *c, vf_rng *r, int scen)
{
	int k = c->k;
	for (int j = 1; j <= k + 1; j++) {
		int lo = j + 2 > 15 ? 15 : j + 2;
		switch (scen) {
		case 0:
		case 2:
			c->ttl[0][j] = (int) vf_range(r, (uint32_t) lo, 15);
			break;
		case 1:
			c->ttl[0][j] = j > 15 ? 15 : j;
			break;
		case 3:
			c->ttl[0][j] = (int) vf_range(r, 1, 15);
			break;
		case 4:
			c->ttl[0][j] = j == 1 ? (int) vf_range(r, 1, 15) : c->ttl[0][1];
			break;
		default:
			c->ttl[0][j] = 15;
			break;
		}
	}
	if (scen == 2) {
		int js = (int) vf_range(r, 1, (uint32_t) k + 1);
		int v  = js - 1;
		c->ttl[0][js] = v < 1 ? 1 : v > 15 ? 15 : v;
	}
	memcpy(c->ttl[1], c->ttl[0], sizeof(c->ttl[0]));
	if (c->nphase == 2) {
		// change MAXTTL of one harness-owned socket (tap front / replier)
		int cand[4], nc = 0;
		for (int j = 1; j <= k; j++) {
			if (c->h[j].is_tap && nc < 3) {
				cand[nc++] = j;
			}
		}
		cand[nc++] = k + 1;
		int m      = cand[vf_below(r, (uint32_t) nc)];
		if (c->ttl[0][m] >= m && m >= 2) {
			c->ttl[1][m] = m - 1 > 15 ? 15 : m - 1;
		} else {
			c->ttl[1][m] = 15;
		}
	}
}

// After the ghost's phase and quiescence: its (late) replies must have
// reached nobody.  The raw requesters judge their own sockets (extra-reply,
// reply-misrouted), taps before the attach point complain in tap_back_main;
// the bystander shares the front socket with the ghost's dead pipe.
static void
ghost_judge(chain *c)
{
	requester *g    = &c->rq[c->nreq];
	int        nans = c->fam == 1 ? c->nrep : 1;
	nng_msg   *m    = NULL;
	nng_socket_set_ms(c->bystander, NNG_OPT_RECVTIMEO, 30);
	if (nng_recvmsg(c->bystander, &m, 0) == 0) {
		uint32_t tag = 0xffffffffu;
		uint64_t sq  = 0;
		vf_body_check(nng_msg_body(m), nng_msg_len(m), &tag, &sq);
		vf_violation("C13/reply-misrouted", "%s: a socket that never sent anything, attached to forwarder %d, received a message (tag %u, %zu header bytes)%s", c->ctx, g->at, tag, nng_msg_header_len(m), tag == (uint32_t) c->nreq ? ": the reply to a requester whose pipe on that forwarder is gone was sent over another pipe" : "");
		nng_msg_free(m);
		return;
	}
	// the raw requesters may have finished before the replies were released
	for (int i = 0; i < c->nreq; i++) {
		requester *q = &c->rq[i];
		if (!q->raw) {
			continue;
		}
		nng_socket_set_ms(q->s, NNG_OPT_RECVTIMEO, 5);
		if (nng_recvmsg(q->s, &m, 0) == 0) {
			uint32_t tag = 0xffffffffu;
			uint64_t sq  = 0;
			vf_body_check(nng_msg_body(m), nng_msg_len(m), &tag, &sq);
			vf_violation("C13/reply-misrouted", "%s: raw requester %d (attached at %d) received a message with tag %u after the phase%s", c->ctx, i, q->at, tag, tag == (uint32_t) c->nreq ? ": the reply to a requester that has gone away (attached at the same or another forwarder)" : "");
			nng_msg_free(m);
			return;
		}
	}
	if (!c->ghost_held) {
		return;
	}
	// evidence that the replies really travelled back to the attach point
	int seen = -1;
	for (int j = g->at; j <= c->k; j++) {
		if (c->h[j].is_tap) {
			tap *t = c->h[j].tp;
			pthread_mutex_lock(&t->mtx);
			obsrec *o = obs_find(t, (uint32_t) c->nreq, req_seq(c->ghost_ph, 0));
			seen = o ? o->back_seen : 0;
			pthread_mutex_unlock(&t->mtx);
			break; // the tap nearest to the attach point
		}
	}
	if (seen >= 0 && seen != nans) {
		// lost before it reached the place where it has to die: says
		// nothing about this oracle
		vf_stat("ghost_replies_not_seen_returning", 1);
		return;
	}
	if (seen >= 0) {
		vf_stat("ghost_replies_seen_returning_at_tap", nans);
	}
	c->ghost_dropped = nans;
}

// Close the pipe into socket flap_link on the path of requester flap_req
// (between the phases, nothing in flight) and wait until the dialer is back.
static void
chain_flap(chain *c)
{
	requester *q  = &c->rq[c->flap_req];
	int        j  = c->flap_link;
	pcount    *up = j == q->at ? q->pc : c->h[j - 1].pc_back;
	int        a0 = atomic_load(&up->adds), r0 = atomic_load(&up->rems), n0 = atomic_load(&up->n);
	nng_pipe   p  = NNG_PIPE_INITIALIZER;
	int        rv;
	p.id = atomic_load(&up->last);
	if ((rv = nng_pipe_close(p)) != 0) {
		vf_harness_fail("flap: nng_pipe_close(%u): %s", p.id, nng_strerror(rv));
	}
	for (int i = 0; atomic_load(&up->rems) <= r0 || atomic_load(&up->adds) <= a0 || atomic_load(&up->n) < n0; i++) {
		if (i > 10000) {
			vf_harness_fail("flap: link into socket %d did not come back within 10 s (%d added, %d removed)", j, atomic_load(&up->adds) - a0, atomic_load(&up->rems) - r0);
		}
		vf_msleep(1);
	}
	vf_stat("link_flaps", 1);
}

static void
chain_case(long idx)
{
	vf_rng r;
	chain *c = calloc(1, sizeof(*c));
	int    pert, scen, ntaps;
	long   viol0 = vf_violations();
	char   durl[MAXHOPS + 3][128];

	vf_rng_seed(&r, vf_seed, (uint64_t) idx);
	c->fam    = (int) vf_below(&r, 2);
	c->f      = &fams[c->fam];
	c->k      = (int) vf_below(&r, MAXHOPS);
	c->nreq   = (int) vf_range(&r, 1, MAXREQ);
	c->nphase = vf_chance(&r, 1, 2) ? 2 : 1;
	c->ndeliv = (int) vf_range(&r, 2, 5);
	c->ndrop  = (int) vf_range(&r, 1, 2);
	c->rep_raw = vf_chance(&r, 1, 3);
	scen      = (int) vf_below(&r, 5);
	ntaps     = (int) vf_below(&r, 4);
	ntaps     = ntaps == 3 ? 2 : ntaps == 0 ? 0 : ntaps; // 0,1,2,2
	if (ntaps > c->k) {
		ntaps = c->k;
	}
	for (int t = 0; t < ntaps; t++) {
		int j = (int) vf_range(&r, 1, (uint32_t) c->k);
		c->h[j].is_tap = true;
	}
	for (int i = 0; i < c->nreq; i++) {
		requester *q = &c->rq[i];
		q->c         = c;
		q->id        = i;
		q->raw       = vf_chance(&r, 1, 2);
		q->b0        = q->raw && vf_chance(&r, 2, 5) ? (int) vf_range(&r, 1, 2) : 0;
		q->pre[0]    = (uint32_t) vf_rand(&r) & 0x7fffffffu;
		q->pre[1]    = (uint32_t) vf_rand(&r) & 0x7fffffffu;
		q->key       = vf_rand(&r);
	}
	if (vf_chance(&r, 1, 8)) {
		// header at capacity: 14 devices + raw replier = 16 header words
		c->k       = 14;
		c->rep_raw = true;
		scen       = 5;
	}
	chain_gen_ttl(c, &r, scen);
	// fan-out: several repliers behind the last back socket (raw REQ picks
	// one pipe per request, raw SURVEYOR sends to all); fan-in: requesters
	// that join the chain at a deeper forwarder.
	c->nrep = 1;
	if (c->k >= 1 && vf_chance(&r, 1, 3)) {
		c->nrep = c->fam == 1 ? 2 : (int) vf_range(&r, 2, MAXREP);
	}
	for (int i = 0; i < c->nreq; i++) {
		c->rq[i].at = 1;
		if (c->k >= 2 && vf_chance(&r, 1, 3)) {
			c->rq[i].at = (int) vf_range(&r, 2, (uint32_t) c->k);
		}
	}
	// re-sent requests: cooked REQ with a 30 ms resend time, repliers mute
	// for the first 120 ms of a phase
	c->resend = c->fam == 0 && scen != 5 && vf_chance(&r, 1, 5);
	if (c->resend) {
		for (int i = 0; i < c->nreq; i++) {
			c->rq[i].raw = false;
			c->rq[i].b0  = 0;
		}
	}
	if (c->resend && c->k >= 1) {
		// the backtrace of a re-sent copy is only visible at a tap
		bool any = false;
		for (int j = 1; j <= c->k; j++) {
			any |= c->h[j].is_tap;
		}
		if (!any) {
			c->h[vf_range(&r, 1, (uint32_t) c->k)].is_tap = true;
			ntaps = 1;
		}
	}
	// burst: a raw REQ requester with all requests of a phase outstanding
	// at once (reqrep only: 64-deep reply queues, see gate comment)
	for (int i = 0; i < c->nreq; i++) {
		c->rq[i].burst = c->fam == 0 && c->rq[i].raw && vf_chance(&r, 1, 2);
	}
	// ghost requester: attach point and phase where its request is delivered
	c->ntags = c->nreq;
	if (c->k >= 1 && !c->resend && vf_chance(&r, 1, 2)) {
		requester *g = &c->rq[c->nreq];
		int at0 = (int) vf_range(&r, 1, (uint32_t) c->k), ph0 = (int) vf_below(&r, (uint32_t) c->nphase);
		g->c   = c;
		g->id  = c->nreq;
		g->raw = true;
		g->key = vf_rand(&r);
		for (int t = 0; t < c->k * c->nphase && !c->ghost; t++) {
			int at = (at0 - 1 + t / c->nphase) % c->k + 1, ph = (ph0 + t) % c->nphase;
			if (drop_at(c, ph, 0, at) == 0) {
				c->ghost    = true;
				c->ghost_ph = ph;
				g->at       = at;
			}
		}
		if (c->ghost) {
			c->ntags = c->nreq + 1;
		} else {
			vf_stat("ghost_skipped_no_deliverable_path", 1);
		}
	}
	// link flap between the two phases
	if (c->nphase == 2) {
		// preferably on the path of a requester that gets through in phase 2
		int cand[MAXREQ], nc = 0;
		for (int i = 0; i < c->nreq; i++) {
			if (drop_at(c, 1, c->rq[i].b0, c->rq[i].at) == 0) {
				cand[nc++] = i;
			}
		}
		c->flap_req  = nc > 0 ? cand[vf_below(&r, (uint32_t) nc)] : (int) vf_below(&r, (uint32_t) c->nreq);
		c->flap_link = (int) vf_range(&r, (uint32_t) c->rq[c->flap_req].at, (uint32_t) c->k + 1);
	}
	// MAXTTL of the forwarders' REQ-side sockets (the library never consults
	// it): generous, or - the natural way to configure a device - the same
	// value as on the front socket; a reply to a request that this very
	// device admitted must pass under any reading of the property.
	bool natural_back = vf_chance(&r, 1, 2);
	pthread_mutex_init(&c->gate_mtx, NULL);
	pthread_cond_init(&c->gate_cv, NULL);
	// survey: 2 responses per pipe queue at most (see gate comment)
	c->gate_free = c->fam == 1 ? (c->nrep > 1 ? 1 : 2) : MAXREQ;
	snprintf(c->ctx, sizeof(c->ctx), "%s k=%d", c->f->name, c->k);
	vf_case_begin(idx, "chain fam=%s k=%d nreq=%d at=%d,%d,%d,%d nrep=%d resend=%d taps=%d scen=%d phases=%d rawrep=%d ghost=%d@%d/ph%d flap=%d backttl=%s", c->f->name, c->k, c->nreq, c->rq[0].at, c->rq[1].at, c->rq[2].at, c->rq[3].at, c->nrep, c->resend, ntaps, scen, c->nphase, c->rep_raw, c->ghost, c->rq[c->nreq].at, c->ghost_ph, c->flap_link, natural_back ? "front" : "generous");
	vf_watchdog(180);
	set_pert(&r, &pert);

	// ---- build: listeners first, then dialers, everything before the
	// devices start (a device owns its sockets: NNG_EBUSY afterwards)
	for (int j = 1; j <= c->k; j++) {
		hop *h = &c->h[j];
		c->ttl_back[j] = (int) vf_range(&r, c->k + 3 > 15 ? 15 : (uint32_t) c->k + 3, 15);
		if (natural_back) {
			c->ttl_back[j] = c->ttl[0][j];
		}
		h->front = sk_open(c->f->rep_raw, c->ttl[0][j], &h->pc_front);
		h->back  = sk_open(c->f->req_raw, c->ttl_back[j], &h->pc_back);
		h->tran  = pick_tran(&r);
		sk_listen(h->front, h->tran, durl[j], sizeof(durl[j]));
	}
	c->tran_rep = pick_tran(&r);
	nng_socket reps[MAXREP];
	char       rurl[MAXREP][128];
	for (int x = 0; x < c->nrep; x++) {
		reps[x] = sk_open(c->rep_raw ? c->f->rep_raw : c->f->rep, c->ttl[0][c->k + 1], &c->pc_rep[x]);
		sk_listen(reps[x], x == 0 ? c->tran_rep : pick_tran(&r), x == 0 ? durl[c->k + 1] : rurl[x], 128);
	}
	for (int j = 1; j <= c->k; j++) {
		sk_dial(c->h[j].back, durl[j + 1]);
	}
	for (int x = 1; x < c->nrep; x++) {
		sk_dial(c->h[c->k].back, rurl[x]);
	}
	for (int i = 0; i < c->nreq; i++) {
		requester *q = &c->rq[i];
		q->s = sk_open(q->raw ? c->f->req_raw : c->f->req, 15, &q->pc);
		if (!q->raw && c->fam == 0) {
			nng_socket_set_ms(q->s, NNG_OPT_REQ_RESENDTIME, c->resend ? 30 : NNG_DURATION_INFINITE);
			if (c->resend && nng_socket_set_ms(q->s, NNG_OPT_REQ_RESENDTICK, 10) != 0) {
				vf_harness_fail("set resend tick");
			}
		}
		sk_dial(q->s, durl[q->at]);
	}
	if (c->ghost) {
		requester *g = &c->rq[c->nreq];
		g->s         = sk_open(c->f->req_raw, 15, &g->pc);
		c->bystander = sk_open(c->f->req_raw, 15, &c->pc_by);
		sk_dial(g->s, durl[g->at]);
		sk_dial(c->bystander, durl[g->at]);
	}
	for (int j = 1; j <= c->k; j++) {
		char what[64];
		snprintf(what, sizeof(what), "forwarder %d front (%s)", j, vf_tran_names[c->h[j].tran]);
		int nin = j > 1 ? 1 : 0;
		for (int i = 0; i < c->nreq; i++) {
			nin += c->rq[i].at == j;
		}
		if (c->ghost && c->rq[c->nreq].at == j) {
			nin += 2;
		}
		pc_wait(c->h[j].pc_front, nin, what);
		snprintf(what, sizeof(what), "forwarder %d back (next link %s)", j, vf_tran_names[j < c->k ? c->h[j + 1].tran : c->tran_rep]);
		pc_wait(c->h[j].pc_back, j == c->k ? c->nrep : 1, what);
	}
	for (int x = 0; x < c->nrep; x++) {
		pc_wait(c->pc_rep[x], c->k == 0 ? c->nreq : 1, "replier");
	}
	for (int i = 0; i < c->nreq; i++) {
		pc_wait(c->rq[i].pc, 1, "requester");
	}
	if (c->ghost) {
		pc_wait(c->rq[c->nreq].pc, 1, "ghost requester");
		pc_wait(c->pc_by, 1, "bystander");
	}
	for (int x = 0; x < c->nrep; x++) {
		replier_start_ghost(&c->rp[x], reps[x], c->rep_raw, c->ghost, (uint32_t) c->nreq);
	}
	for (int j = c->k; j >= 1; j--) {
		hop *h = &c->h[j];
		if (h->is_tap) {
			tap *t  = calloc(1, sizeof(*t));
			t->c    = c;
			t->pos  = j;
			t->front = h->front;
			t->back  = h->back;
			pthread_mutex_init(&t->mtx, NULL);
			h->tp = t;
			pthread_create(&t->th_out, NULL, tap_out_main, t);
			pthread_create(&t->th_back, NULL, tap_back_main, t);
		} else {
			// argument order must not matter
			if (vf_chance(&r, 1, 2)) {
				dev_start(&h->dev, h->front, h->back);
			} else {
				dev_start(&h->dev, h->back, h->front);
			}
		}
	}

	// ---- traffic
	for (int ph = 0; ph < c->nphase; ph++) {
		if (ph == 1 && c->flap_link != 0) {
			chain_flap(c);
		}
		for (int j = 1; j <= c->k; j++) {
			if (c->h[j].is_tap && nng_socket_set_int(c->h[j].front, NNG_OPT_MAXTTL, c->ttl[ph][j]) != 0) {
				vf_harness_fail("set ttl on tap");
			}
		}
		for (int x = 0; x < c->nrep; x++) {
			if (nng_socket_set_int(reps[x], NNG_OPT_MAXTTL, c->ttl[ph][c->k + 1]) != 0) {
				vf_harness_fail("set ttl on replier");
			}
			atomic_store(&c->rp[x].mute, c->resend);
		}
		bool ghost_now = c->ghost && c->ghost_ph == ph;
		if (ghost_now && c->fam == 1) {
			// survey: alone (responses share 2-deep queues, see gate comment)
			pthread_create(&c->ghost_th, NULL, ghost_main, c);
			pthread_join(c->ghost_th, NULL);
			vf_quiesce(2, 3000);
		}
		for (int i = 0; i < c->nreq; i++) {
			c->rq[i].phase = ph;
			pthread_create(&c->rq[i].th, NULL, requester_main, &c->rq[i]);
		}
		if (ghost_now && c->fam == 0) {
			pthread_create(&c->ghost_th, NULL, ghost_main, c);
		}
		if (c->resend) {
			vf_msleep(120);
			for (int x = 0; x < c->nrep; x++) {
				atomic_store(&c->rp[x].mute, false);
			}
		}
		for (int i = 0; i < c->nreq; i++) {
			pthread_join(c->rq[i].th, NULL);
		}
		if (ghost_now && c->fam == 0) {
			pthread_join(c->ghost_th, NULL);
		}
		vf_quiesce(2, 3000);
		if (ghost_now) {
			c->ghost_ran = true;
			ghost_judge(c);
		}
		if (atomic_load(&c->lost)) {
			break; // reported; the remaining phase would only wait again
		}
	}

	// ---- teardown (random order: ends first or devices first)
	bool ends_first = vf_chance(&r, 1, 2);
	if (c->ghost) {
		if (!c->ghost_ran) {
			nng_socket_close(c->rq[c->nreq].s);
		}
		nng_socket_close(c->bystander);
	}
	if (ends_first) {
		for (int i = 0; i < c->nreq; i++) {
			nng_socket_close(c->rq[i].s);
		}
		for (int x = 0; x < c->nrep; x++) {
			replier_stop(&c->rp[x]);
		}
	}
	for (int j = 1; j <= c->k; j++) {
		hop *h = &c->h[j];
		if (h->is_tap) {
			nng_socket_close(h->front);
			nng_socket_close(h->back);
			pthread_join(h->tp->th_out, NULL);
			pthread_join(h->tp->th_back, NULL);
		} else {
			dev_stop(&h->dev, c->ctx);
		}
	}
	if (!ends_first) {
		for (int i = 0; i < c->nreq; i++) {
			nng_socket_close(c->rq[i].s);
		}
		for (int x = 0; x < c->nrep; x++) {
			replier_stop(&c->rp[x]);
		}
	}
	vf_pt_off();

	// ---- analysis
	int served_mask = 0, flap_used = 0;
	if (c->ghost && c->ghost_sent) {
		// the ghost's request itself is an ordinary request
		int cnt = 0, nans = c->fam == 1 ? c->nrep : 1;
		for (int x = 0; x < c->nrep; x++) {
			for (int a = 0; a < c->rp[x].n; a++) {
				uint32_t tg;
				uint64_t sq;
				arrival *ar = &c->rp[x].log[a];
				cnt += vf_body_check(ar->body, ar->blen, &tg, &sq) == 0 && tg == (uint32_t) c->nreq;
			}
		}
		if (cnt > nans) {
			vf_violation("C13/duplicate-delivery", "%s: the one request of the requester attached at %d was received %d times (expected %d)", c->ctx, c->rq[c->nreq].at, cnt, nans);
		} else if (c->ghost_dropped > 0 && cnt == nans && vf_violations() == viol0) {
			requester *g = &c->rq[c->nreq];
			vf_stat("ghost_replies_dropped", c->ghost_dropped);
			vf_stat(c->h[g->at].is_tap ? "ghost_replies_dropped_at_tap_socket" : "ghost_replies_dropped_at_device", c->ghost_dropped);
			vf_class("ghost/%s/k=%d/at=%d/%s/repliers=%d/%s", c->f->name, c->k, g->at > 1 ? (g->at == c->k ? 3 : 2) : 1, c->h[g->at].is_tap ? "tap" : "device", c->nrep, c->rep_raw ? "rawrep" : "cooked");
		}
	}
	for (int i = 0; i < c->nreq; i++) {
		requester *q    = &c->rq[i];
		int        nans = c->fam == 1 ? c->nrep : 1;
		for (int ph = 0; ph < c->nphase; ph++) {
			int d = drop_at(c, ph, q->b0, q->at);
			for (int n = 0; n < q->sent[ph]; n++) {
				uint64_t seq = req_seq(ph, n);
				// observation points in path order
				const uint8_t *oh[8];
				size_t         ol[8];
				int            op[8], no = 0;
				if (q->raw) {
					oh[no] = q->shdr[ph][n];
					ol[no] = (size_t) (q->b0 + 1) * 4;
					op[no++] = q->at - 1;
				}
				for (int j = q->at; j <= c->k; j++) {
					if (!c->h[j].is_tap) {
						continue;
					}
					obsrec *o = obs_find(c->h[j].tp, (uint32_t) q->id, seq);
					bool    should = d == 0 || j < d;
					if (o != NULL && !should) {
						vf_violation("C13/over-ttl-forwarded", "%s: request with %d backtrace words was accepted by forwarder %d whose front MAXTTL is %d (first socket that must discard it: %d)", c->ctx, words_at(j, q->at, q->b0), j, c->ttl[ph][j], d);
					} else if (o == NULL && should) {
						vf_violation("C13/within-ttl-dropped", "%s: request of requester %d (b0=%d, attached at %d) never reached forwarder %d although no socket before it has MAXTTL below the words it sees", c->ctx, q->id, q->b0, q->at, j);
					} else if (o != NULL) {
						if (o->out_seen != 1 && !c->resend) {
							vf_violation("C13/duplicate-forward", "%s: forwarder %d saw the same request %d times", c->ctx, j, o->out_seen);
						} else if (o->out_seen > 1) {
							vf_stat("resent_requests_seen_by_taps", 1);
						}
						if (d != 0 && o->back_seen != 0) {
							vf_violation("C13/over-ttl-answered", "%s: forwarder %d saw a reply for a request that must have been discarded at socket %d", c->ctx, j, d);
						} else if (d == 0 && q->got[ph][n] && (c->resend ? o->back_seen < 1 : o->back_seen != nans)) {
							vf_violation("C13/duplicate-forward", "%s: forwarder %d saw %d replies to one request, expected %d", c->ctx, j, o->back_seen, nans);
						}
						oh[no] = o->hdr;
						ol[no] = o->hlen;
						op[no++] = j;
					}
				}
				// replier logs: reqrep - exactly one replier, once; survey -
				// every respondent, once each
				int      cnt = 0, maxper = 0, nserved = 0;
				arrival *arr = NULL;
				for (int x = 0; x < c->nrep; x++) {
					int per = 0;
					for (int a = 0; a < c->rp[x].n; a++) {
						uint32_t tg;
						uint64_t sq;
						arrival *ar = &c->rp[x].log[a];
						if (vf_body_check(ar->body, ar->blen, &tg, &sq) == 0 && tg == (uint32_t) q->id && sq == seq) {
							per++;
							arr = ar;
							if (c->rep_raw) {
								size_t want = (size_t) (words_at(c->k + 1, q->at, q->b0) + 1) * 4;
								if (ar->hlen != want || !bt_shape_ok(ar->hdr, ar->hlen)) {
									vf_violation("C13/backtrace-depth", "%s: the raw replier sees a %zu-byte header, expected %zu (one word per hop + id) with only the last high bit set", c->ctx, ar->hlen, want);
								}
							}
						}
					}
					cnt += per;
					nserved += per > 0;
					maxper = per > maxper ? per : maxper;
					if (per > 0) {
						served_mask |= 1 << x;
					}
				}
				bool exact = false;
				if (d != 0 && cnt != 0) {
					vf_violation("C13/over-ttl-delivered", "%s: a request arriving at socket %d with %d backtrace words (MAXTTL %d there) reached the replier", c->ctx, d, words_at(d, q->at, q->b0), c->ttl[ph][d]);
				} else if (d == 0 && nserved < nans) {
					vf_violation("C13/within-ttl-dropped", "%s: request of requester %d (b0=%d, attached at %d) reached %d of %d repliers that must receive it although every MAXTTL on the path allows it", c->ctx, q->id, q->b0, q->at, nserved, nans);
				} else if (d == 0 && !c->resend && (cnt != nans || maxper > 1)) {
					vf_violation("C13/duplicate-delivery", "%s: one request was received %d times by %d repliers (expected %d)", c->ctx, cnt, nserved, nans);
				} else if (d == 0) {
					exact = true;
				}
				if (arr != NULL && c->rep_raw) {
					oh[no] = arr->hdr;
					ol[no] = arr->hlen;
					op[no++] = c->k + 1;
				}
				for (int x = 1; x < no; x++) {
					size_t grow = (size_t) (op[x] - op[x - 1]) * 4;
					if (ol[x] != ol[x - 1] + grow || memcmp(oh[x] + grow, oh[x - 1], ol[x - 1]) != 0) {
						vf_violation("C13/backtrace-growth", "%s: header at position %d (%zu bytes) is not the header at position %d (%zu bytes) with exactly %d words put in front", c->ctx, op[x], ol[x], op[x - 1], ol[x - 1], op[x] - op[x - 1]);
					} else {
						vf_stat("backtrace_growth_pairs_verified", 1);
					}
				}
				if (d == 0 && exact && q->got[ph][n]) {
					vf_stat("requests_delivered_verified", 1);
					vf_stat(c->fam == 1 ? "requests_delivered_verified_survey" : "requests_delivered_verified_reqrep", 1);
					if (q->burst) {
						vf_stat("burst_requests_delivered_verified", 1);
					}
					if (ph == 1 && c->flap_link != 0 && (c->flap_link == q->at ? i == c->flap_req : q->at < c->flap_link)) {
						// crossed the link that was lost and redialled
						vf_stat("requests_delivered_after_link_flap", 1);
						flap_used++;
					}
					if (q->at > 1) {
						vf_stat("fanin_requests_delivered_verified", 1);
					}
					if (c->nrep > 1) {
						vf_stat("fanout_requests_delivered_verified", 1);
					}
					if (c->resend && cnt > 1) {
						vf_stat("resent_requests_delivered_more_than_once", 1);
					}
					bool atlimit = false;
					for (int j = q->at; j <= c->k + 1; j++) {
						atlimit |= (words_at(j, q->at, q->b0) == c->ttl[ph][j]);
					}
					if (atlimit) {
						vf_stat("delivered_with_words_equal_ttl", 1);
					}
					if (c->rep_raw && words_at(c->k + 1, q->at, q->b0) == 15) {
						vf_stat("delivered_with_header_at_capacity", 1);
					}
				} else if (d != 0 && cnt == 0) {
					vf_stat("requests_dropped_verified", 1);
					vf_stat(c->fam == 1 ? "requests_dropped_verified_survey" : "requests_dropped_verified_reqrep", 1);
					if (q->at > 1) {
						vf_stat("fanin_requests_dropped_verified", 1);
					}
					if (words_at(d, q->at, q->b0) == c->ttl[ph][d] + 1) {
						vf_stat("dropped_with_words_ttl_plus_one", 1);
					}
					if (words_at(d, q->at, q->b0) > 15) {
						// the forwarder before d accepted it: 16 header words
						vf_stat("forwarded_with_header_at_capacity", 1);
					}
				}
				vf_class("chain/%s/k=%d/b0=%d/at=%d/drop=%d/%s", c->f->name, c->k, q->b0, q->at > 1 ? (q->at == c->k ? 3 : 2) : 1, d, q->raw ? "rawreq" : "cooked");
			}
		}
	}
	if (c->nrep > 1) {
		int ns = 0;
		for (int x = 0; x < c->nrep; x++) {
			ns += (served_mask >> x) & 1;
		}
		vf_class("fanout/%s/k=%d/repliers=%d/served=%d%s", c->f->name, c->k, c->nrep, ns, c->resend ? "/resend" : "");
		if (ns > 1) {
			vf_stat("fanout_cases_several_repliers_served", 1);
		}
	}
	for (int j = 1; j <= c->k; j++) {
		if (c->h[j].is_tap) {
			vf_class("tap/%s/k=%d/pos=%d", c->f->name, c->k, j);
		}
	}
	if (flap_used > 0 && vf_violations() == viol0) {
		int j = c->flap_link;
		vf_stat("link_flaps_survived", 1);
		vf_class("flap/%s/k=%d/%s", c->f->name, c->k, j == c->rq[c->flap_req].at ? "requester-link" : j == c->k + 1 ? "replier-link" : "middle-link");
	}
	if ((idx & 15) == 0) {
		vf_sample("{\"mode\":\"chain\",\"family\":\"%s\",\"k\":%d,\"requesters\":%d,\"attached_at\":[%d,%d,%d,%d],\"repliers\":%d,\"resend\":%d,\"taps\":%d,\"phases\":%d,\"ttl_first\":%d,\"ttl_replier\":[%d,%d],\"replier0_arrivals\":%d}", c->f->name, c->k, c->nreq, c->rq[0].at, c->rq[1].at, c->rq[2].at, c->rq[3].at, c->nrep, c->resend, ntaps, c->nphase, c->ttl[0][1], c->ttl[0][c->k + 1], c->ttl[1][c->k + 1], c->rp[0].n);
	}
	vf_stat_max("max_chain_length", c->k);
	for (int x = 0; x < c->nrep; x++) {
		replier_free(&c->rp[x]);
	}
	for (int j = 1; j <= c->k; j++) {
		if (c->h[j].tp) {
			pthread_mutex_destroy(&c->h[j].tp->mtx);
			free(c->h[j].tp);
		}
	}
	pthread_mutex_destroy(&c->gate_mtx);
	pthread_cond_destroy(&c->gate_cv);
	free(c);
	vf_stat("cases", 1);
	lib_cycle(false);
}

// ============================================================ loop mode
#define RING_MAXDEV 3
#define RING_MAXLAPS 24
typedef struct {
	int        fam; // 0 reqrep, 1 survey, 2 pair1
	int        n;   // devices
	nng_socket a[RING_MAXDEV], b[RING_MAXDEV]; // a receives in forward direction
	pcount    *pca[RING_MAXDEV], *pcb[RING_MAXDEV];
	int        ttl_a[RING_MAXDEV], ttl_b[RING_MAXDEV];
	devh       dev[RING_MAXDEV];
	nng_socket tf, tb; // tap: tf receives forward traffic and is re-sent on tb
	pcount    *pctf, *pctb;
	int        ttl_tf, ttl_tb;
	pthread_t  th_f, th_b;
	pthread_mutex_t mtx;
	// current injection
	int        dir;      // 0 forward, 1 reverse (pair1 only)
	uint8_t    ihdr[HDRCAP];
	size_t     ihlen;
	uint32_t   ihop;
	uint32_t   itag;
	uint64_t   iseq;
	size_t     ilen;
	uint8_t    ibody[VF_BODY_MIN + 320];
	int        laps[2];
	int        bad[2];
	char       ctx[64];
} ring;

typedef struct {
	ring *rg;
	int   side; // 0: receives on tf, forwards to tb; 1: the other way
} ringth;

static void *
ring_tap_main(void *arg)
{
	ringth    *rt = arg;
	ring      *rg = rt->rg;
	nng_socket rx = rt->side == 0 ? rg->tf : rg->tb;
	nng_socket tx = rt->side == 0 ? rg->tb : rg->tf;
	for (;;) {
		nng_msg *m = NULL;
		int      rv = nng_recvmsg(rx, &m, 0);
		if (rv == NNG_ETIMEDOUT) {
			continue;
		}
		if (rv != 0) {
			break;
		}
		const uint8_t *h  = nng_msg_header(m);
		size_t         hl = nng_msg_header_len(m);
		bool           fwd = true;
		pthread_mutex_lock(&rg->mtx);
		if (rg->fam != 2 && rt->side == 1) {
			// nothing ever answers in the ring
			vf_violation("C13/loop-spurious-reply", "%s: a message came out of the request side of the ring although nobody replies", rg->ctx);
			fwd = false;
		} else if (nng_msg_len(m) != rg->ilen || memcmp(nng_msg_body(m), rg->ibody, rg->ilen) != 0) {
			vf_violation("C13/body-changed", "%s: the message circulating in the ring is not the injected one (len %zu, injected %zu)", rg->ctx, nng_msg_len(m), rg->ilen);
			rg->bad[rt->side]++;
		} else if (rt->side != rg->dir) {
			vf_violation("C13/loop-wrong-direction", "%s: the injected message arrived at the tap from the wrong side", rg->ctx);
			rg->bad[rt->side]++;
		} else {
			int lap = ++rg->laps[rt->side];
			if (rg->fam == 2) {
				uint32_t want = rg->ihop + (uint32_t) (lap * (rg->n + 1));
				if (hl != 4 || get32(h) != want) {
					vf_violation("C13/hop-count", "%s: lap %d: pair1 hop word is %u (header %zu bytes), expected %u = injected + one per socket crossed", rg->ctx, lap, hl == 4 ? get32(h) : 0, hl, want);
					rg->bad[rt->side]++;
				}
			} else {
				size_t grow = (size_t) (lap * (rg->n + 1)) * 4;
				if (hl != rg->ihlen + grow || !bt_shape_ok(h, hl) || memcmp(h + grow, rg->ihdr, rg->ihlen) != 0) {
					vf_violation("C13/backtrace-growth", "%s: lap %d: header is %zu bytes, expected the injected %zu bytes with %d words put in front", rg->ctx, lap, hl, rg->ihlen, lap * (rg->n + 1));
					rg->bad[rt->side]++;
				}
			}
		}
		pthread_mutex_unlock(&rg->mtx);
		if (!fwd) {
			nng_msg_free(m);
			continue;
		}
		if ((rv = nng_sendmsg(tx, m, 0)) != 0) {
			nng_msg_free(m);
			if (rv == NNG_ECLOSED) {
				break;
			}
			// header full (NNG_EINVAL etc.) cannot happen: 16 words fit
			vf_violation("C13/loop-forward-send", "%s: forwarding a message with a %zu-byte header failed: %s", rg->ctx, hl, nng_strerror(rv));
		}
	}
	return NULL;
}

// How often does the injected message pass the tap?  'first' is the
// word count / hop value seen by the first receiving socket; ttl[] lists the
// receiving sockets in ring order, the tap last.
static int
ring_expect(int nsock, const int *ttl, int first)
{
	int laps = 0;
	int w    = first;
	for (int i = 0; i < 200; i++) {
		int s = i % nsock;
		if (w > ttl[s]) {
			break;
		}
		if (s == nsock - 1) {
			laps++;
		}
		w++;
	}
	return laps;
}

static int
ring_laps(ring *rg, int side)
{
	pthread_mutex_lock(&rg->mtx);
	int n = rg->laps[side];
	pthread_mutex_unlock(&rg->mtx);
	return n;
}

static void
ring_case(long idx, vf_rng *r, int fam)
{
	ring  *rg = calloc(1, sizeof(*rg));
	ringth rt[2] = { { rg, 0 }, { rg, 1 } };
	char   durl[RING_MAXDEV + 1][128];
	int    pert, tran, ninj;
	static const char *fname[3] = { "reqrep", "survey", "pair1" };
	vf_open_fn ofront = fam == 2 ? nng_pair1_open_raw : fams[fam].rep_raw;
	vf_open_fn oback  = fam == 2 ? nng_pair1_open_raw : fams[fam].req_raw;

	rg->fam = fam;
	rg->n   = (int) vf_range(r, 1, RING_MAXDEV);
	if (vf_chance(r, 1, 2)) {
		rg->n = 2;
	}
	bool uniform = vf_chance(r, 1, 2);
	int  T       = (int) vf_range(r, 1, 15);
	for (int i = 0; i < rg->n; i++) {
		rg->ttl_a[i] = uniform ? T : (int) vf_range(r, 1, 15);
		rg->ttl_b[i] = uniform ? T : (int) vf_range(r, 1, 15);
	}
	snprintf(rg->ctx, sizeof(rg->ctx), "ring %s n=%d", fname[fam], rg->n);
	vf_case_begin(idx, "loop fam=%s devices=%d uniform=%d T=%d", fname[fam], rg->n, uniform, T);
	vf_watchdog(120);
	set_pert(r, &pert);
	pthread_mutex_init(&rg->mtx, NULL);

	// forward ring: tb -> a[0] | b[0] -> a[1] | ... | b[n-1] -> tf
	for (int i = 0; i < rg->n; i++) {
		rg->a[i] = sk_open(ofront, rg->ttl_a[i], &rg->pca[i]);
		rg->b[i] = sk_open(oback, rg->ttl_b[i], &rg->pcb[i]);
		tran     = pick_tran(r);
		sk_listen(rg->a[i], tran, durl[i], sizeof(durl[i]));
	}
	rg->tf = sk_open(ofront, 15, &rg->pctf);
	rg->tb = sk_open(oback, 15, &rg->pctb);
	tran   = pick_tran(r);
	sk_listen(rg->tf, tran, durl[rg->n], sizeof(durl[rg->n]));
	sk_dial(rg->tb, durl[0]);
	for (int i = 0; i < rg->n; i++) {
		sk_dial(rg->b[i], durl[i + 1]);
	}
	for (int i = 0; i < rg->n; i++) {
		pc_wait(rg->pca[i], 1, "ring a");
		pc_wait(rg->pcb[i], 1, "ring b");
	}
	pc_wait(rg->pctf, 1, "ring tap f");
	pc_wait(rg->pctb, 1, "ring tap b");
	pthread_create(&rg->th_f, NULL, ring_tap_main, &rt[0]);
	pthread_create(&rg->th_b, NULL, ring_tap_main, &rt[1]);
	for (int i = 0; i < rg->n; i++) {
		if (vf_chance(r, 1, 2)) {
			dev_start(&rg->dev[i], rg->a[i], rg->b[i]);
		} else {
			dev_start(&rg->dev[i], rg->b[i], rg->a[i]);
		}
	}

	ninj = (int) vf_range(r, 2, 4);
	for (int inj = 0; inj < ninj; inj++) {
		int      ttl[RING_MAXDEV + 1];
		int      first, expect, got;
		nng_msg *m;
		size_t   sz = VF_BODY_MIN + vf_below(r, 300);
		int      rv;
		bool     tiny = vf_chance(r, 1, 4);

		if (tiny) {
			// a body that ends right after the backtrace / a few bytes
			static const size_t tsz[] = { 0, 0, 1, 3, 4, 5, VF_BODY_MIN - 1 };
			sz = tsz[vf_below(r, 7)];
		}
		pthread_mutex_lock(&rg->mtx);
		rg->dir    = fam == 2 ? (int) vf_below(r, 2) : 0;
		// The tap's MAXTTLs change from injection to injection, but never
		// upwards: an earlier message that is to die at the tap's socket and
		// is still on its way (kernel buffers are invisible to vf_quiesce)
		// must not find a more generous limit there.
		int ntf = uniform && !vf_chance(r, 1, 4) ? T : (int) vf_range(r, 1, 15);
		int ntb = uniform && !vf_chance(r, 1, 4) ? T : (int) vf_range(r, 1, 15);
		rg->ttl_tf = inj > 0 && ntf > rg->ttl_tf ? rg->ttl_tf : ntf;
		rg->ttl_tb = inj > 0 && ntb > rg->ttl_tb ? rg->ttl_tb : ntb;
		nng_socket_set_int(rg->tf, NNG_OPT_MAXTTL, rg->ttl_tf);
		nng_socket_set_int(rg->tb, NNG_OPT_MAXTTL, rg->ttl_tb);
		rg->itag    = 0x100u + (uint32_t) inj;
		rg->iseq    = (uint64_t) idx;
		rg->ilen    = sz;
		rg->laps[0] = rg->laps[1] = 0;
		if (nng_msg_alloc(&m, sz) != 0) {
			vf_harness_fail("alloc");
		}
		if (tiny) {
			// high bit clear in every 4-byte word: never taken for a request id
			for (size_t o = 0; o < sz; o++) {
				((uint8_t *) nng_msg_body(m))[o] = (uint8_t) (0x11 + o + (size_t) inj);
			}
		} else {
			vf_body_make(nng_msg_body(m), sz, rg->itag, rg->iseq);
		}
		memcpy(rg->ibody, nng_msg_body(m), sz);
		if (fam == 2) {
			rg->ihop = vf_chance(r, 1, 2) ? 0 : vf_below(r, 15);
			nng_msg_header_append_u32(m, rg->ihop);
			first = (int) rg->ihop + 1;
		} else {
			int w0 = vf_chance(r, 1, 2) ? 1 : (int) vf_range(r, 1, 6);
			for (int w = 0; w < w0 - 1; w++) {
				nng_msg_header_append_u32(m, (uint32_t) vf_rand(r) & 0x7fffffffu);
			}
			nng_msg_header_append_u32(m, 0x80000000u | (uint32_t) vf_rand(r));
			rg->ihlen = nng_msg_header_len(m);
			memcpy(rg->ihdr, nng_msg_header(m), rg->ihlen);
			first = w0;
		}
		if (rg->dir == 0) {
			for (int i = 0; i < rg->n; i++) {
				ttl[i] = rg->ttl_a[i];
			}
			ttl[rg->n] = rg->ttl_tf;
		} else {
			for (int i = 0; i < rg->n; i++) {
				ttl[i] = rg->ttl_b[rg->n - 1 - i];
			}
			ttl[rg->n] = rg->ttl_tb;
		}
		expect = ring_expect(rg->n + 1, ttl, first);
		pthread_mutex_unlock(&rg->mtx);

		if ((rv = nng_sendmsg(rg->dir == 0 ? rg->tb : rg->tf, m, 0)) != 0) {
			nng_msg_free(m);
			vf_harness_fail("ring inject: %s", nng_strerror(rv));
		}
		uint64_t end = vf_now_ns() + (uint64_t) LONG_MS * 1000000ULL;
		while (ring_laps(rg, rg->dir) < expect && vf_now_ns() < end) {
			vf_usleep(300);
		}
		vf_quiesce(3, 3000);
		vf_msleep(15);
		vf_quiesce(3, 3000);
		got = ring_laps(rg, rg->dir);
		if (got > expect) {
			vf_violation("C13/loop-exceeds-ttl", "%s: injected with first-seen count %d, MAXTTLs in ring order {%d,%d,%d,%d}: the message passed the tap %d times, the hop limits allow %d", rg->ctx, first, ttl[0], ttl[1], rg->n > 1 ? ttl[2] : 0, rg->n > 2 ? ttl[3] : 0, got, expect);
		} else if (got < expect) {
			vf_violation("C13/loop-within-ttl-lost", "%s: injected with first-seen count %d: the message passed the tap %d times, expected %d (a device lost a message it had accepted)", rg->ctx, first, got, expect);
		} else {
			vf_stat("loop_injections_verified", 1);
			vf_stat(fam == 2 ? "loop_injections_verified_pair1" : fam == 1 ? "loop_injections_verified_survey" : "loop_injections_verified_reqrep", 1);
			if (tiny && got > 0) {
				vf_stat("loop_tiny_body_laps_verified", got);
				if (sz == 0) {
					vf_stat("loop_empty_body_laps_verified", got);
				}
			}
			vf_stat("loop_laps_verified", got);
			if (got == 0) {
				vf_stat("loop_died_before_first_lap", 1);
			}
			vf_stat_max("max_laps", got);
		}
		vf_class("loop/%s/n=%d/dir=%d/first=%d/laps=%d", fname[fam], rg->n, rg->dir, first, expect);
		if (inj == 0 && (idx & 7) == 0) {
			vf_sample("{\"mode\":\"loop\",\"family\":\"%s\",\"devices\":%d,\"first_seen\":%d,\"ttl_ring\":[%d,%d,%d,%d],\"tap_passes\":%d,\"expected\":%d}", fname[fam], rg->n, first, ttl[0], ttl[1], rg->n > 1 ? ttl[2] : 0, rg->n > 2 ? ttl[3] : 0, got, expect);
		}
	}
	idle_check(rg->ctx);

	for (int i = 0; i < rg->n; i++) {
		dev_stop(&rg->dev[i], rg->ctx);
	}
	nng_socket_close(rg->tf);
	nng_socket_close(rg->tb);
	pthread_join(rg->th_f, NULL);
	pthread_join(rg->th_b, NULL);
	vf_pt_off();
	pthread_mutex_destroy(&rg->mtx);
	free(rg);
}

// raw bus: no MAXTTL; a raw bus socket does not send a message back to the
// pipe named in its header (the pipe it came from).  Reflector devices in a
// line, cooked nodes hanging off them: a message floods the tree once.
#define BUS_MAXR 3
#define BUS_MAXN 4
static void
bus_case(long idx, vf_rng *r)
{
	nng_socket refl[BUS_MAXR], node[BUS_MAXN];
	pcount    *pcr[BUS_MAXR], *pcn[BUS_MAXN];
	devh       dev[BUS_MAXR];
	int        attach[BUS_MAXN];
	char       durl[BUS_MAXR][128];
	int        nr, nn, pert, expect_pipes[BUS_MAXR];
	bool       forwarder = vf_chance(r, 1, 3); // two-socket device instead
	char       ctx[64];

	nr = forwarder ? 2 : (int) vf_range(r, 1, BUS_MAXR);
	nn = (int) vf_range(r, 2, BUS_MAXN);
	snprintf(ctx, sizeof(ctx), "bus %s r=%d nodes=%d", forwarder ? "forwarder" : "reflectors", nr, nn);
	vf_case_begin(idx, "loop fam=bus %s r=%d nodes=%d", forwarder ? "forwarder" : "reflectors", nr, nn);
	vf_watchdog(120);
	set_pert(r, &pert);
	for (int i = 0; i < nr; i++) {
		refl[i] = sk_open(nng_bus0_open_raw, 0, &pcr[i]);
		sk_listen(refl[i], pick_tran(r), durl[i], sizeof(durl[i]));
		expect_pipes[i] = 0;
	}
	if (!forwarder) {
		// line: refl[i] dials refl[i+1]
		for (int i = 0; i + 1 < nr; i++) {
			sk_dial(refl[i], durl[i + 1]);
			expect_pipes[i]++;
			expect_pipes[i + 1]++;
		}
	}
	for (int i = 0; i < nn; i++) {
		node[i]   = sk_open(nng_bus0_open, 0, &pcn[i]);
		attach[i] = i == 0 ? 0 : i == 1 ? nr - 1 : (int) vf_below(r, (uint32_t) nr);
		nng_socket_set_ms(node[i], NNG_OPT_RECVTIMEO, LONG_MS);
		sk_dial(node[i], durl[attach[i]]);
		expect_pipes[attach[i]]++;
	}
	for (int i = 0; i < nr; i++) {
		pc_wait(pcr[i], expect_pipes[i], "bus device socket");
	}
	for (int i = 0; i < nn; i++) {
		pc_wait(pcn[i], 1, "bus node");
	}
	if (forwarder) {
		dev_start(&dev[0], refl[0], refl[1]);
	} else {
		nng_socket none = NNG_SOCKET_INITIALIZER;
		for (int i = 0; i < nr; i++) {
			if (vf_chance(r, 1, 2)) {
				dev_start(&dev[i], refl[i], none);
			} else {
				dev_start(&dev[i], none, refl[i]);
			}
		}
	}
	int nmsg = (int) vf_range(r, 3, 8);
	for (int k = 0; k < nmsg; k++) {
		int      from = (int) vf_below(r, (uint32_t) nn);
		size_t   sz   = VF_BODY_MIN + vf_below(r, 200);
		nng_msg *m;
		int      rv;
		uint8_t *want = malloc(sz);
		if (nng_msg_alloc(&m, sz) != 0) {
			vf_harness_fail("alloc");
		}
		vf_body_make(nng_msg_body(m), sz, (uint32_t) from, (uint64_t) k);
		memcpy(want, nng_msg_body(m), sz);
		if ((rv = nng_sendmsg(node[from], m, 0)) != 0) {
			nng_msg_free(m);
			vf_harness_fail("bus send: %s", nng_strerror(rv));
		}
		for (int i = 0; i < nn; i++) {
			// with a two-socket forwarder nodes on the sender's side of
			// the device are not reached (the device is the only link)
			bool reach = i != from && (!forwarder || attach[i] != attach[from]);
			if (!reach) {
				continue;
			}
			nng_msg *g = NULL;
			nng_socket_set_ms(node[i], NNG_OPT_RECVTIMEO, LONG_MS);
			if ((rv = nng_recvmsg(node[i], &g, 0)) != 0) {
				vf_violation("C13/bus-forward-lost", "%s: node %d never received the message node %d sent through the raw bus device(s): %s", ctx, i, from, nng_strerror(rv));
				continue;
			}
			if (nng_msg_len(g) != sz || memcmp(nng_msg_body(g), want, sz) != 0) {
				vf_violation("C13/body-changed", "%s: node %d received %zu bytes that differ from the %zu bytes sent", ctx, i, nng_msg_len(g), sz);
			} else {
				vf_stat("bus_deliveries_verified", 1);
			}
			nng_msg_free(g);
		}
		vf_quiesce(3, 3000);
		for (int i = 0; i < nn; i++) {
			nng_msg *g = NULL;
			nng_socket_set_ms(node[i], NNG_OPT_RECVTIMEO, 15);
			if (nng_recvmsg(node[i], &g, 0) == 0) {
				vf_violation(i == from ? "C13/bus-echo" : "C13/bus-duplicate", "%s: node %d received %s of the message node %d sent (a raw bus socket sent it back over the pipe it came from)", ctx, i, i == from ? "an echo" : "a second copy", from);
				nng_msg_free(g);
			}
		}
		free(want);
	}
	idle_check(ctx);
	vf_class("loop/bus/%s/r=%d/nodes=%d", forwarder ? "forwarder" : "reflectors", nr, nn);
	for (int i = 0; i < (forwarder ? 1 : nr); i++) {
		dev_stop(&dev[i], ctx);
	}
	for (int i = 0; i < nn; i++) {
		nng_socket_close(node[i]);
	}
	vf_pt_off();
}

// One-way forwarders (device_init's single-path branch: the socket that
// cannot receive is made the destination whatever the argument order) and a
// raw pair0 forwarder: source -> 1..3 devices in a line -> 1-2 sinks.
// push/pull: every message reaches exactly one sink; pub/sub: every sink;
// pair0: one sink, both directions.  One message in flight at a time, so a
// loss cannot be back-pressure.
#define OW_MAXDEV 3
static void
oneway_case(long idx, vf_rng *r)
{
	static const char *kname[3] = { "pushpull", "pubsub", "pair0" };
	int        kind = (int) vf_below(r, 3);
	int        nd   = (int) vf_range(r, 1, OW_MAXDEV);
	int        ns   = kind == 2 ? 1 : (int) vf_range(r, 1, 2);
	vf_open_fn osrc = kind == 0 ? nng_push0_open : kind == 1 ? nng_pub0_open : nng_pair0_open;
	vf_open_fn osnk = kind == 0 ? nng_pull0_open : kind == 1 ? nng_sub0_open : nng_pair0_open;
	vf_open_fn ofr  = kind == 0 ? nng_pull0_open_raw : kind == 1 ? nng_sub0_open_raw : nng_pair0_open_raw;
	vf_open_fn obk  = kind == 0 ? nng_push0_open_raw : kind == 1 ? nng_pub0_open_raw : nng_pair0_open_raw;
	nng_socket src, snk[2], fr[OW_MAXDEV], bk[OW_MAXDEV];
	pcount    *pcs, *pck[2], *pcf[OW_MAXDEV], *pcb[OW_MAXDEV];
	devh       dev[OW_MAXDEV];
	char       durl[OW_MAXDEV][128], surl[2][128], ctx[64];
	int        pert, order = 0;

	snprintf(ctx, sizeof(ctx), "oneway %s devices=%d sinks=%d", kname[kind], nd, ns);
	vf_case_begin(idx, "loop fam=oneway kind=%s devices=%d sinks=%d", kname[kind], nd, ns);
	vf_watchdog(120);
	set_pert(r, &pert);
	src = sk_open(osrc, 0, &pcs);
	for (int i = 0; i < nd; i++) {
		fr[i] = sk_open(ofr, 0, &pcf[i]);
		bk[i] = sk_open(obk, 0, &pcb[i]);
		sk_listen(fr[i], pick_tran(r), durl[i], sizeof(durl[i]));
	}
	for (int i = 0; i < ns; i++) {
		snk[i] = sk_open(osnk, 0, &pck[i]);
		if (kind == 1 && nng_sub0_socket_subscribe(snk[i], "", 0) != 0) {
			vf_harness_fail("subscribe");
		}
		sk_listen(snk[i], pick_tran(r), surl[i], sizeof(surl[i]));
	}
	sk_dial(src, durl[0]);
	for (int i = 0; i + 1 < nd; i++) {
		sk_dial(bk[i], durl[i + 1]);
	}
	for (int i = 0; i < ns; i++) {
		sk_dial(bk[nd - 1], surl[i]);
	}
	pc_wait(pcs, 1, "oneway source");
	for (int i = 0; i < nd; i++) {
		pc_wait(pcf[i], 1, "oneway front");
		pc_wait(pcb[i], i == nd - 1 ? ns : 1, "oneway back");
	}
	for (int i = 0; i < ns; i++) {
		pc_wait(pck[i], 1, "oneway sink");
	}
	for (int i = 0; i < nd; i++) {
		// both argument orders: the device must find the receiving side
		if (vf_chance(r, 1, 2)) {
			dev_start(&dev[i], fr[i], bk[i]);
		} else {
			dev_start(&dev[i], bk[i], fr[i]);
			order |= 1 << i;
		}
	}
	int nmsg = (int) vf_range(r, 4, 10);
	int per_sink[2] = { 0, 0 };
	for (int k = 0; k < nmsg; k++) {
		bool     back = kind == 2 && vf_chance(r, 1, 2); // pair0: sink -> source
		size_t   sz   = VF_BODY_MIN + vf_below(r, (k & 3) == 3 ? 5000 : 300);
		uint8_t *want = malloc(sz);
		nng_msg *m;
		int      rv, got = 0;
		if (nng_msg_alloc(&m, sz) != 0) {
			vf_harness_fail("alloc");
		}
		vf_body_make(nng_msg_body(m), sz, 0x300u + (uint32_t) kind, (uint64_t) k);
		memcpy(want, nng_msg_body(m), sz);
		if ((rv = nng_sendmsg(back ? snk[0] : src, m, 0)) != 0) {
			nng_msg_free(m);
			vf_violation("C13/oneway-send-failed", "%s: send into the forwarder line failed: %s", ctx, nng_strerror(rv));
			free(want);
			break;
		}
		int      need = kind == 1 ? ns : 1;
		uint64_t end  = vf_now_ns() + (uint64_t) LONG_MS * 1000000ULL;
		bool     seen[2] = { false, false };
		while (got < need && vf_now_ns() < end) {
			for (int i = 0; i < (back ? 1 : ns) && got < need; i++) {
				nng_socket rx = back ? src : snk[i];
				nng_msg   *g  = NULL;
				if (!back && kind == 1 && seen[i]) {
					continue;
				}
				nng_socket_set_ms(rx, NNG_OPT_RECVTIMEO, need == 1 && ns == 1 ? 1000 : 15);
				if (nng_recvmsg(rx, &g, 0) != 0) {
					continue;
				}
				if (nng_msg_len(g) != sz || memcmp(nng_msg_body(g), want, sz) != 0) {
					vf_violation("C13/body-changed", "%s: message %d arrived with %zu bytes that differ from the %zu bytes sent", ctx, k, nng_msg_len(g), sz);
				} else {
					vf_stat("oneway_deliveries_verified", 1);
				}
				nng_msg_free(g);
				seen[i] = true;
				per_sink[i]++;
				got++;
			}
		}
		if (got < need) {
			vf_violation("C13/oneway-forward-lost", "%s: message %d (%s) reached %d of %d receivers within %d ms with nothing else in flight", ctx, k, back ? "sink to source" : "source to sink", got, need, LONG_MS);
		}
		free(want);
	}
	// nothing may be left over: no duplicates, no reflection to the source
	vf_quiesce(2, 2000);
	for (int i = 0; i < ns + (kind == 2 ? 1 : 0); i++) {
		nng_socket rx = i < ns ? snk[i] : src;
		nng_msg   *g  = NULL;
		nng_socket_set_ms(rx, NNG_OPT_RECVTIMEO, 20);
		if (nng_recvmsg(rx, &g, 0) == 0) {
			vf_violation("C13/oneway-duplicate", "%s: %s received an additional message of %zu bytes after every message had been accounted for", ctx, i < ns ? "a sink" : "the source", nng_msg_len(g));
			nng_msg_free(g);
		}
	}
	vf_class("oneway/%s/devices=%d/sinks=%d/order=%d/used=%d", kname[kind], nd, ns, order, (per_sink[0] > 0) + (per_sink[1] > 0));
	for (int i = 0; i < nd; i++) {
		vf_stat((order >> i) & 1 ? "oneway_devices_swapped_arguments" : "oneway_devices_natural_arguments", 1);
	}
	for (int i = 0; i < nd; i++) {
		dev_stop(&dev[i], ctx);
	}
	nng_socket_close(src);
	for (int i = 0; i < ns; i++) {
		nng_socket_close(snk[i]);
	}
	vf_pt_off();
}

// A cycle made of devices only (nothing but library code re-arming itself):
// b[i] dials a[(i+1) % n].  A raw requester on the side injects 1-8 messages
// back to back into a[0]; a harness-owned raw REP/RESPONDENT socket "counter"
// hangs off b[x] as a second pipe and never answers.
//   survey: raw SURVEYOR sends every message to all its pipes, so the counter
//           gets one copy per pass of b[x]; optionally one link of the cycle
//           is doubled (two pipes b[y] -> a[y+1]): every pass doubles the
//           number of circulating copies, bounded only by the MAXTTLs.
//   reqrep: raw REQ gives every message to one pipe: a message leaves the
//           cycle through the counter or goes on, so it is seen at most once.
// Model: arrival word count at a[i] in lap L is w0 + i + n*L; accepted iff
// <= MAXTTL there.  Judged: the counter never sees more copies per lap than
// the model allows (and exactly that many when so few copies exist that no
// best-effort queue can overflow), each with a header of the length of its
// lap ending in the injected header; afterwards the process is idle.
#define PURE_MAXMSG 8
#define PURE_MAXLAP 16
typedef struct {
	int        fam, n, x, dbl, nmsg;
	nng_socket cnt;
	long       idx;
	int        w0[PURE_MAXMSG];
	uint8_t    ihdr[PURE_MAXMSG][HDRCAP];
	size_t     ihlen[PURE_MAXMSG], ilen[PURE_MAXMSG];
	int        mult[PURE_MAXMSG][PURE_MAXLAP];
	int        count[PURE_MAXMSG][PURE_MAXLAP];
	int        total;
	bool       flagged;
	pthread_mutex_t mtx;
	char       ctx[80];
} pure;

static void *
pure_counter_main(void *arg)
{
	pure *pu = arg;
	for (;;) {
		nng_msg *m = NULL;
		int      rv = nng_recvmsg(pu->cnt, &m, 0);
		if (rv == NNG_ETIMEDOUT) {
			continue;
		}
		if (rv != 0) {
			break;
		}
		const uint8_t *h  = nng_msg_header(m);
		size_t         hl = nng_msg_header_len(m);
		uint32_t       tag = 0;
		uint64_t       seq = 0;
		pthread_mutex_lock(&pu->mtx);
		int k = -1;
		if (vf_body_check(nng_msg_body(m), nng_msg_len(m), &tag, &seq) == 0 && seq == (uint64_t) pu->idx && tag >= 0x200u && tag < 0x200u + (uint32_t) pu->nmsg) {
			k = (int) (tag - 0x200u);
		}
		if (k < 0 || nng_msg_len(m) != pu->ilen[k]) {
			if (!pu->flagged) {
				vf_violation("C13/body-changed", "%s: the counter received a %zu-byte message that is not one of the injected ones", pu->ctx, nng_msg_len(m));
			}
			pu->flagged = true;
		} else {
			// header: own pipe id + (w0 + x + n*L + 1) words
			int words = (int) (hl / 4) - 2 - pu->w0[k] - pu->x;
			int L     = words >= 0 && words % pu->n == 0 ? words / pu->n : -1;
			if ((hl & 3) || L < 0 || !bt_shape_ok(h, hl) || memcmp(h + hl - pu->ihlen[k], pu->ihdr[k], pu->ihlen[k]) != 0) {
				if (!pu->flagged) {
					vf_violation("C13/backtrace-growth", "%s: message %d reaches the counter with a %zu-byte header; expected 4*(2 + %d + %d + %d*lap) bytes ending in the injected %zu bytes, only the last word with the high bit", pu->ctx, k, hl, pu->w0[k], pu->x, pu->n, pu->ihlen[k]);
				}
				pu->flagged = true;
			} else if (L >= PURE_MAXLAP || pu->count[k][L] + 1 > pu->mult[k][L]) {
				if (!pu->flagged) {
					vf_violation("C13/loop-exceeds-ttl", "%s: message %d (injected with %d words) reached the counter in lap %d %d times, the MAXTTLs of the cycle allow %d", pu->ctx, k, pu->w0[k], L, L < PURE_MAXLAP ? pu->count[k][L] + 1 : 1, L < PURE_MAXLAP ? pu->mult[k][L] : 0);
				}
				pu->flagged = true;
				if (L < PURE_MAXLAP) {
					pu->count[k][L]++;
				}
			} else {
				pu->count[k][L]++;
				pu->total++;
			}
		}
		pthread_mutex_unlock(&pu->mtx);
		nng_msg_free(m);
	}
	return NULL;
}

static void
pure_case(long idx, vf_rng *r)
{
	pure      *pu = calloc(1, sizeof(*pu));
	nng_socket a[RING_MAXDEV], b[RING_MAXDEV], inj;
	pcount    *pca[RING_MAXDEV], *pcb[RING_MAXDEV], *pci, *pcc;
	int        ttl_a[RING_MAXDEV], ttl_cnt = 15;
	devh       dev[RING_MAXDEV];
	char       durl[RING_MAXDEV][128], curl[128];
	pthread_t  th;
	int        pert, fam = (int) vf_below(r, 3) == 0 ? 0 : 1; // survey 2/3
	static const char *fname[2] = { "reqrep", "survey" };

	pu->fam  = fam;
	pu->idx  = idx;
	pu->n    = (int) vf_range(r, 1, RING_MAXDEV);
	pu->x    = (int) vf_below(r, (uint32_t) pu->n);
	pu->dbl  = fam == 1 && vf_chance(r, 1, 2) ? (int) vf_below(r, (uint32_t) pu->n) : -1;
	pu->nmsg = vf_chance(r, 1, 3) ? (int) vf_range(r, 1, 2) : (int) vf_range(r, 1, PURE_MAXMSG);
	bool uniform = vf_chance(r, 1, 2);
	int  T       = (int) vf_range(r, 1, 15);
	for (int i = 0; i < pu->n; i++) {
		ttl_a[i] = uniform ? T : (int) vf_range(r, 1, 15);
	}
	// model
	bool small = vf_chance(r, 2, 5); // aim at a case where counts are exact
	int  expect_total, live_max;
	for (int k = 0; k < PURE_MAXMSG; k++) {
		pu->w0[k] = vf_chance(r, 1, 2) ? 1 : (int) vf_range(r, 1, 6);
	}
	if (small) {
		pu->nmsg = (int) vf_range(r, 1, 3);
	}
	for (;;) {
		expect_total = 0;
		live_max     = 0;
		for (int k = 0; k < pu->nmsg; k++) {
			int w = pu->w0[k], i = 0, m = 1, lap = 0;
			memset(pu->mult[k], 0, sizeof(pu->mult[k]));
			while (w <= ttl_a[i]) {
				if (i == pu->x && w + 1 <= ttl_cnt && lap < PURE_MAXLAP) {
					pu->mult[k][lap] = m;
					expect_total += m;
				}
				if (i == pu->dbl) {
					m *= 2;
				}
				i = (i + 1) % pu->n;
				lap += i == 0;
				w++;
			}
			live_max += m;
		}
		if (small && (expect_total > 16 || live_max > 16)) {
			// shorten the life of the messages
			int hi = 0;
			for (int i = 1; i < pu->n; i++) {
				hi = ttl_a[i] > ttl_a[hi] ? i : hi;
			}
			if (ttl_a[hi] > 1) {
				ttl_a[hi]--;
				continue;
			}
		}
		if (pu->dbl < 0 || (expect_total <= 400 && live_max <= 400)) {
			break;
		}
		pu->dbl = -1; // too much amplification for a quick case
	}
	// so few copies that no best-effort queue (16 per raw SURVEYOR pipe) can
	// overflow: then nothing may be missing either
	bool exact = fam == 1 && expect_total <= 16 && live_max <= 16;
	snprintf(pu->ctx, sizeof(pu->ctx), "pure cycle %s n=%d counter@%d doubled=%d msgs=%d", fname[fam], pu->n, pu->x, pu->dbl, pu->nmsg);
	vf_case_begin(idx, "loop fam=pure-%s devices=%d counter=%d doubled=%d msgs=%d uniform=%d T=%d expect=%d exact=%d", fname[fam], pu->n, pu->x, pu->dbl, pu->nmsg, uniform, T, expect_total, exact);
	vf_watchdog(120);
	set_pert(r, &pert);
	pthread_mutex_init(&pu->mtx, NULL);

	for (int i = 0; i < pu->n; i++) {
		a[i] = sk_open(fams[fam].rep_raw, ttl_a[i], &pca[i]);
		b[i] = sk_open(fams[fam].req_raw, (int) vf_range(r, 1, 15), &pcb[i]);
		sk_listen(a[i], pick_tran(r), durl[i], sizeof(durl[i]));
	}
	pu->cnt = sk_open(fams[fam].rep_raw, ttl_cnt, &pcc);
	inj     = sk_open(fams[fam].req_raw, 15, &pci);
	sk_listen(pu->cnt, pick_tran(r), curl, sizeof(curl));
	for (int i = 0; i < pu->n; i++) {
		sk_dial(b[i], durl[(i + 1) % pu->n]);
		if (i == pu->dbl) {
			sk_dial(b[i], durl[(i + 1) % pu->n]);
		}
		if (i == pu->x) {
			sk_dial(b[i], curl);
		}
	}
	sk_dial(inj, durl[0]);
	for (int i = 0; i < pu->n; i++) {
		int prev = (i + pu->n - 1) % pu->n;
		pc_wait(pca[i], 1 + (prev == pu->dbl) + (i == 0), "pure a");
		pc_wait(pcb[i], 1 + (i == pu->dbl) + (i == pu->x), "pure b");
	}
	pc_wait(pcc, 1, "pure counter");
	pc_wait(pci, 1, "pure injector");
	pthread_create(&th, NULL, pure_counter_main, pu);
	for (int i = 0; i < pu->n; i++) {
		if (vf_chance(r, 1, 2)) {
			dev_start(&dev[i], a[i], b[i]);
		} else {
			dev_start(&dev[i], b[i], a[i]);
		}
	}
	// inject back to back
	for (int k = 0; k < pu->nmsg; k++) {
		nng_msg *m;
		size_t   sz = VF_BODY_MIN + vf_below(r, 200);
		int      rv;
		if (nng_msg_alloc(&m, sz) != 0) {
			vf_harness_fail("alloc");
		}
		vf_body_make(nng_msg_body(m), sz, 0x200u + (uint32_t) k, (uint64_t) idx);
		for (int w = 0; w < pu->w0[k] - 1; w++) {
			nng_msg_header_append_u32(m, (uint32_t) vf_rand(r) & 0x7fffffffu);
		}
		nng_msg_header_append_u32(m, 0x80000000u | (uint32_t) vf_rand(r));
		pthread_mutex_lock(&pu->mtx);
		pu->ilen[k]  = sz;
		pu->ihlen[k] = nng_msg_header_len(m);
		memcpy(pu->ihdr[k], nng_msg_header(m), pu->ihlen[k]);
		pthread_mutex_unlock(&pu->mtx);
		if ((rv = nng_sendmsg(inj, m, 0)) != 0) {
			nng_msg_free(m);
			vf_harness_fail("pure cycle inject: %s", nng_strerror(rv));
		}
	}
	uint64_t end = vf_now_ns() + (uint64_t) LONG_MS * 1000000ULL;
	for (;;) {
		pthread_mutex_lock(&pu->mtx);
		int  tot = pu->total;
		bool fl  = pu->flagged;
		pthread_mutex_unlock(&pu->mtx);
		if (!exact || fl || tot >= expect_total || vf_now_ns() > end) {
			break;
		}
		vf_usleep(300);
	}
	vf_quiesce(3, 3000);
	vf_msleep(15);
	vf_quiesce(3, 3000);
	pthread_mutex_lock(&pu->mtx);
	int  tot = pu->total, most = 0;
	bool fl  = pu->flagged;
	for (int k = 0; k < pu->nmsg && !fl; k++) {
		int seen = 0;
		for (int L = 0; L < PURE_MAXLAP; L++) {
			seen += pu->count[k][L];
			if (pu->count[k][L] > most) {
				most = pu->count[k][L];
			}
			if (exact && pu->count[k][L] < pu->mult[k][L]) {
				vf_violation("C13/loop-within-ttl-lost", "%s: message %d (injected with %d words) reached the counter %d times in lap %d, expected %d: at most %d copies exist at any time, no queue can have been full", pu->ctx, k, pu->w0[k], pu->count[k][L], L, pu->mult[k][L], live_max);
				fl = true;
				break;
			}
		}
		if (fam == 0 && seen > 1) {
			vf_violation("C13/loop-exceeds-ttl", "%s: message %d left the cycle through the counter %d times; a raw REQ socket gives a message to one pipe only", pu->ctx, k, seen);
			fl = true;
		}
	}
	pthread_mutex_unlock(&pu->mtx);
	{
		nng_msg *g = NULL;
		nng_socket_set_ms(inj, NNG_OPT_RECVTIMEO, 15);
		if (nng_recvmsg(inj, &g, 0) == 0) {
			vf_violation("C13/loop-spurious-reply", "%s: the injecting raw requester received a message although nobody replies", pu->ctx);
			nng_msg_free(g);
			fl = true;
		}
	}
	idle_check(pu->ctx);
	if (!fl) {
		vf_stat("loop_pure_cycles", 1);
		vf_stat("loop_pure_messages_injected", pu->nmsg);
		vf_stat("loop_fanout_copies_verified", tot);
		if (fam == 1) {
			vf_stat("loop_pure_survey_copies_model", expect_total);
			vf_stat("loop_pure_survey_copies_seen", tot);
		}
		if (exact && expect_total > 0) {
			vf_stat("loop_pure_exact_cases", 1);
			vf_stat("loop_pure_exact_copies", tot);
		}
		if (pu->dbl >= 0 && most > 1) {
			vf_stat("loop_pure_amplified_cases", 1);
			if (exact) {
				vf_stat("loop_pure_amplified_exact_cases", 1);
			}
		}
		vf_stat_max("max_copies_of_one_message_in_one_lap", most);
	}
	vf_class("loop/pure-%s/n=%d/x=%d/dbl=%d/msgs=%d/%s/copies=%d", fname[fam], pu->n, pu->x, pu->dbl >= 0, pu->nmsg > 1 ? (pu->nmsg > 4 ? 8 : 4) : 1, exact ? "exact" : "bound", tot > 16 ? (tot > 64 ? 65 : 17) : tot);
	if ((idx & 7) == 5) {
		vf_sample("{\"mode\":\"loop\",\"family\":\"pure-%s\",\"devices\":%d,\"counter_at\":%d,\"doubled_link\":%d,\"messages\":%d,\"ttl\":[%d,%d,%d],\"copies_at_counter\":%d,\"model\":%d,\"exact\":%d}", fname[fam], pu->n, pu->x, pu->dbl, pu->nmsg, ttl_a[0], pu->n > 1 ? ttl_a[1] : 0, pu->n > 2 ? ttl_a[2] : 0, tot, expect_total, exact);
	}
	for (int i = 0; i < pu->n; i++) {
		dev_stop(&dev[i], pu->ctx);
	}
	nng_socket_close(inj);
	nng_socket_close(pu->cnt);
	pthread_join(th, NULL);
	vf_pt_off();
	pthread_mutex_destroy(&pu->mtx);
	free(pu);
}

static void
loop_case(long idx)
{
	vf_rng r;
	vf_rng_seed(&r, vf_seed, (uint64_t) idx);
	int which = (int) (idx % 6);
	if (which == 3) {
		bus_case(idx, &r);
	} else if (which == 4) {
		oneway_case(idx, &r);
	} else if (which == 5) {
		pure_case(idx, &r);
	} else {
		ring_case(idx, &r, which);
	}
	vf_stat("cases", 1);
	lib_cycle(false);
}

// ============================================================ raw mode
#define FRAME_MAX 600
enum { OUT_DELIVER, OUT_DROP, OUT_KICK };
static const char *outname[3] = { "deliver", "drop", "kick" };

// What a REP-side socket with the given MAXTTL does with a frame: scan
// 4-byte words for the first one with the high bit; more words than MAXTTL
// -> discard; the frame ends first -> malformed.
static int
model_rep_side(const uint8_t *f, size_t len, int ttl, int *e_out)
{
	int    hops = 1;
	size_t off  = 0;
	for (;;) {
		if (hops > ttl) {
			return OUT_DROP;
		}
		hops++;
		if (len - off < 4) {
			return OUT_KICK;
		}
		bool end = (f[off] & 0x80) != 0;
		off += 4;
		if (end) {
			*e_out = (int) (off / 4);
			return OUT_DELIVER;
		}
	}
}

// What a REQ-side raw socket does with a reply frame: words up to the first
// high bit go to the header (capacity 16 words).
static int
model_req_side(const uint8_t *f, size_t len, int *e_out)
{
	size_t off = 0;
	for (int w = 1;; w++) {
		if (len - off < 4 || w > 16) {
			return OUT_KICK;
		}
		bool end = (f[off] & 0x80) != 0;
		off += 4;
		if (end) {
			*e_out = w;
			return OUT_DELIVER;
		}
	}
}

// returns frame length, -1 on timeout, -2 on EOF / reset
static long
peer_recv(int fd, uint8_t *buf, size_t cap, int ms)
{
	uint8_t  hdr[8];
	size_t   got = 0, need = 8;
	uint64_t len = 0;
	bool     inhdr = true;
	uint64_t end = vf_now_ns() + (uint64_t) ms * 1000000ULL;
	for (;;) {
		int64_t left = ((int64_t) end - (int64_t) vf_now_ns()) / 1000000;
		if (left < 0) {
			return -1;
		}
		struct pollfd p = { fd, POLLIN, 0 };
		int           pr = poll(&p, 1, (int) left);
		if (pr < 0 && errno == EINTR) {
			continue;
		}
		if (pr <= 0) {
			return -1;
		}
		ssize_t n = read(fd, inhdr ? hdr + got : buf + got, need - got);
		if (n == 0) {
			return -2;
		}
		if (n < 0) {
			if (errno == EAGAIN || errno == EINTR) {
				continue;
			}
			return -2;
		}
		got += (size_t) n;
		if (got < need) {
			continue;
		}
		if (!inhdr) {
			return (long) len;
		}
		for (int i = 0; i < 8; i++) {
			len = (len << 8) | hdr[i];
		}
		if (len > cap) {
			vf_harness_fail("raw peer: frame of %llu bytes", (unsigned long long) len);
		}
		if (len == 0) {
			return 0;
		}
		inhdr = false;
		got   = 0;
		need  = (size_t) len;
	}
}

typedef struct {
	uint8_t buf[FRAME_MAX];
	size_t  len;
	int     nwords, pat, payload;
	bool    term;
} frame;

static void
frame_make(vf_rng *r, frame *f, int ttl_hint, uint32_t tag, uint64_t seq)
{
	int n;
	if (vf_chance(r, 1, 2)) {
		static const int rel[] = { -1, 0, 1, 2 };
		n = vf_chance(r, 1, 3) ? 14 + (int) vf_below(r, 5) : ttl_hint + rel[vf_below(r, 4)];
		n = n < 0 ? 0 : n > 20 ? 20 : n;
	} else {
		n = (int) vf_below(r, 21);
	}
	f->nwords  = n;
	f->term    = vf_chance(r, 2, 3);
	f->pat     = (int) vf_below(r, 8);
	f->pat     = f->pat >= 3 ? 0 : f->pat + 1; // 0 clean (5/8), 1 early high, 2 all high, 3 no high bit at all
	f->payload = (int) vf_below(r, 6);
	f->payload = f->payload >= 3 ? 0 : f->payload + 1; // 0 vf body, 1 empty, 2 1-3 bytes, 3 zero words
	f->len     = 0;
	int early  = n > 0 ? (int) vf_below(r, (uint32_t) n) : 0;
	for (int w = 0; w < n; w++) {
		uint32_t v = ((uint32_t) vf_rand(r) & 0x7fffffffu) | 1u;
		bool     hi = false;
		switch (f->pat) {
		case 0: hi = f->term && w == n - 1; break;
		case 1: hi = (f->term && w == n - 1) || w == early; break;
		case 2: hi = true; break;
		default: hi = false; break;
		}
		if (hi) {
			v |= 0x80000000u;
		}
		put32(f->buf + f->len, v);
		f->len += 4;
	}
	switch (f->payload) {
	case 0: {
		size_t sz = VF_BODY_MIN + vf_below(r, 100);
		vf_body_make(f->buf + f->len, sz, tag, seq);
		if (f->pat == 3) {
			// keep the parser from finding a terminator by accident
			for (size_t o = 0; o < sz; o += 4) {
				f->buf[f->len + o] &= 0x7f;
			}
		}
		f->len += sz;
		break;
	}
	case 1: break;
	case 2: {
		size_t sz = 1 + vf_below(r, 3);
		for (size_t i = 0; i < sz; i++) {
			f->buf[f->len++] = (uint8_t) (f->pat == 3 ? 0x11 : vf_rand(r));
		}
		break;
	}
	default:
		memset(f->buf + f->len, 0, 24);
		f->len += 24;
		break;
	}
}

static void
sentinel_make(frame *f, uint32_t n)
{
	put32(f->buf, 0x80000000u | (n + 1));
	vf_body_make(f->buf + 4, 40, 0x5e47, n);
	f->len    = 44;
	f->nwords = 1;
}

typedef struct {
	const family *f;
	int           ndev;    // devices between the raw peer and the replier (0..3)
	bool          rep_raw; // harness-served raw replier
	int           ttl[4];  // MAXTTL of the receiving sockets in path order; ttl[ndev] is the replier's
	uint16_t      port;
	replier       rp;
	int           fd;
	int           seen; // replier arrivals accounted for
	bool          lost; // a reply was lost (reported): end the case
	char          ctx[96];
} rawcase;

static int
raw_connect(rawcase *rc)
{
	uint16_t peer = 0;
	int      fd   = vf_tcp_connect(rc->port, 5000);
	if (fd < 0) {
		vf_harness_fail("raw peer: connect failed");
	}
	if (vf_sp_handshake(fd, rc->f->req_proto, &peer, 5000) != 0 || peer != rc->f->rep_proto) {
		vf_harness_fail("raw peer: SP handshake failed (peer %x)", peer);
	}
	return fd;
}

// Check the next replier arrival against the frame that must have caused it.
static bool
raw_check_arrival(rawcase *rc, const frame *f, int e, const char *what)
{
	if (!replier_wait(&rc->rp, rc->seen + 1, LONG_MS)) {
		vf_violation("C13/within-ttl-dropped", "%s: %s with %d backtrace words never reached the replier", rc->ctx, what, e);
		return false;
	}
	pthread_mutex_lock(&rc->rp.mtx);
	arrival a = rc->rp.log[rc->seen];
	pthread_mutex_unlock(&rc->rp.mtx);
	rc->seen++;
	size_t blen = f->len - (size_t) e * 4;
	if (a.blen != blen || memcmp(a.body, f->buf + (size_t) e * 4, blen) != 0) {
		vf_violation("C13/malformed-delivered", "%s: after %s the replier received a %zu-byte body, the frame's payload after %d backtrace words is %zu bytes (or bytes differ)", rc->ctx, what, a.blen, e, blen);
		return false;
	}
	if (rc->rep_raw) {
		size_t extra = (size_t) (rc->ndev + 1) * 4;
		if (a.hlen != extra + (size_t) e * 4 || memcmp(a.hdr + extra, f->buf, (size_t) e * 4) != 0 || !bt_shape_ok(a.hdr, a.hlen)) {
			vf_violation("C13/malformed-delivered", "%s: after %s the raw replier saw a %zu-byte header, expected %zu new bytes followed by the %d words sent", rc->ctx, what, a.hlen, extra, e);
			return false;
		}
	}
	return true;
}

static bool
raw_check_reply(rawcase *rc, const frame *f, const char *what)
{
	uint8_t buf[FRAME_MAX + 64];
	long    n = peer_recv(rc->fd, buf, sizeof(buf), LONG_MS);
	if (n < 0) {
		vf_violation("C13/reply-lost", "%s: %s was delivered but no reply came back to the raw peer (%s)", rc->ctx, what, n == -1 ? "timeout" : "disconnected");
		atomic_fetch_add(&reply_lost_reports, 1);
		rc->lost = true;
		if (n == -2) {
			close(rc->fd);
			rc->fd = raw_connect(rc);
		}
		return false;
	}
	if ((size_t) n != f->len || memcmp(buf, f->buf, f->len) != 0) {
		vf_violation("C13/backtrace-unwind", "%s: the reply to %s is %ld bytes, expected the %zu bytes <backtrace as sent><echoed body>", rc->ctx, what, n, f->len);
		return false;
	}
	return true;
}

static void
rawreq_case(long idx, vf_rng *r)
{
	rawcase   *rc = calloc(1, sizeof(*rc));
	nng_socket front[3], back[3], reps;
	pcount    *pcf[3], *pcb[3], *pcr = NULL;
	devh       dev[3];
	char       durl[4][128];
	int        pert, nframes;
	uint32_t   nsent = 0;

	rc->f       = &fams[vf_below(r, 2)];
	rc->ndev    = (int) vf_below(r, 4);
	rc->rep_raw = vf_chance(r, 1, 2);
	// the well-formed one-word sentinel must get through: MAXTTL >= position
	for (int i = 0; i <= rc->ndev; i++) {
		rc->ttl[i] = (int) vf_range(r, (uint32_t) i + 1, 15);
	}
	if (vf_chance(r, 1, 4)) {
		for (int i = 0; i <= rc->ndev; i++) {
			rc->ttl[i] = 15;
		}
	}
	snprintf(rc->ctx, sizeof(rc->ctx), "rawpeer->%d device(s)->%s%s ttl=%d/%d/%d/%d", rc->ndev, rc->rep_raw ? "raw-" : "", rc->f->name, rc->ttl[0], rc->ndev > 0 ? rc->ttl[1] : 0, rc->ndev > 1 ? rc->ttl[2] : 0, rc->ndev > 2 ? rc->ttl[3] : 0);
	vf_case_begin(idx, "raw request-side fam=%s dev=%d rawrep=%d ttl=%d/%d/%d/%d", rc->f->name, rc->ndev, rc->rep_raw, rc->ttl[0], rc->ndev > 0 ? rc->ttl[1] : 0, rc->ndev > 1 ? rc->ttl[2] : 0, rc->ndev > 2 ? rc->ttl[3] : 0);
	vf_watchdog(180);
	set_pert(r, &pert);

	// the raw peer talks tcp to the first receiving socket
	reps = sk_open(rc->rep_raw ? rc->f->rep_raw : rc->f->rep, rc->ttl[rc->ndev], &pcr);
	for (int i = 0; i < rc->ndev; i++) {
		front[i] = sk_open(rc->f->rep_raw, rc->ttl[i], &pcf[i]);
		back[i]  = sk_open(rc->f->req_raw, 15, &pcb[i]);
		sk_listen(front[i], i == 0 ? VF_T_TCP : pick_tran(r), durl[i], sizeof(durl[i]));
	}
	sk_listen(reps, rc->ndev == 0 ? VF_T_TCP : vf_chance(r, 1, 4) ? VF_T_TCP : VF_T_INPROC, durl[rc->ndev], sizeof(durl[rc->ndev]));
	for (int i = 0; i < rc->ndev; i++) {
		sk_dial(back[i], durl[i + 1]);
	}
	for (int i = 0; i < rc->ndev; i++) {
		pc_wait(pcb[i], 1, "raw: device back");
		if (i > 0) {
			pc_wait(pcf[i], 1, "raw: device front");
		}
	}
	if (rc->ndev > 0) {
		pc_wait(pcr, 1, "raw: replier");
	}
	rc->port = url_port(durl[0]);
	replier_start(&rc->rp, reps, rc->rep_raw);
	for (int i = 0; i < rc->ndev; i++) {
		if (vf_chance(r, 1, 2)) {
			dev_start(&dev[i], front[i], back[i]);
		} else {
			dev_start(&dev[i], back[i], front[i]);
		}
	}
	rc->fd = raw_connect(rc);

	// the longest backtrace (words incl. the id) that gets through: socket i
	// sees i more words than the peer sent
	int ttl0 = rc->ttl[0], eff = 15;
	for (int i = 0; i <= rc->ndev; i++) {
		eff = rc->ttl[i] - i < eff ? rc->ttl[i] - i : eff;
	}
	nframes  = (int) vf_range(r, 10, 24);
	for (int i = 0; i < nframes && !rc->lost; i++) {
		frame f, s;
		int   e = 0, out;
		char  what[96];
		int fh = 0; // first word with the high bit anywhere in the frame
		frame_make(r, &f, vf_chance(r, 1, 2) ? ttl0 : eff, 0x700u + (uint32_t) i, (uint64_t) idx);
		for (size_t o = 0; o + 4 <= f.len; o += 4) {
			if (f.buf[o] & 0x80) {
				fh = (int) (o / 4) + 1;
				break;
			}
		}
		out = model_rep_side(f.buf, f.len, ttl0, &e);
		int dropper = 0; // the socket that must discard it
		for (int j = 1; j <= rc->ndev && out == OUT_DELIVER; j++) {
			if (e + j > rc->ttl[j]) {
				out     = OUT_DROP; // well-formed for socket 0, discarded further down
				dropper = j;
			}
		}
		snprintf(what, sizeof(what), "a frame of %d words (term=%d pattern=%d payload=%d, first high bit at word %d)", f.nwords, f.term, f.pat, f.payload, fh);
		if (vf_sp_send_frame(rc->fd, false, f.buf, f.len) != 0) {
			vf_harness_fail("raw peer: write failed on a live connection");
		}
		vf_stat("raw_frames_sent", 1);
		const char *obs;
		if (out == OUT_DELIVER) {
			bool ok = raw_check_arrival(rc, &f, e, what);
			ok      = raw_check_reply(rc, &f, what) && ok;
			if (ok) {
				vf_stat("raw_wellformed_delivered_verified", 1);
				if (e == ttl0) {
					vf_stat("raw_delivered_words_equal_ttl", 1);
				}
				if (e == eff && rc->ndev >= 2) {
					vf_stat("raw_delivered_at_limit_through_2plus_devices", 1);
				}
				if (rc->ndev >= 2) {
					vf_stat("raw_delivered_through_2plus_devices", 1);
				}
				if (e == 15) {
					vf_stat("raw_delivered_header_at_capacity", 1);
				}
			}
			obs = "delivered";
		} else {
			// sentinel on the same connection
			bool disc = false;
			sentinel_make(&s, nsent++);
			if (vf_sp_send_frame(rc->fd, false, s.buf, s.len) != 0) {
				disc = true;
			} else {
				uint8_t buf[FRAME_MAX + 64];
				long    n = peer_recv(rc->fd, buf, sizeof(buf), LONG_MS);
				if (n == -2) {
					disc = true;
				} else if (n == -1) {
					vf_violation("C13/within-ttl-dropped", "%s: after %s a well-formed request on the same connection got no reply and the connection stayed open", rc->ctx, what);
				} else if ((size_t) n != s.len || memcmp(buf, s.buf, s.len) != 0) {
					// the reply is not the sentinel's: the bad frame was answered
					vf_violation("C13/malformed-delivered", "%s: %s (model: %s) produced a reply of %ld bytes", rc->ctx, what, outname[out], n);
					// swallow the sentinel's own reply
					peer_recv(rc->fd, buf, sizeof(buf), 2000);
				}
			}
			if (disc) {
				close(rc->fd);
				rc->fd = raw_connect(rc);
				sentinel_make(&s, nsent++);
				if (vf_sp_send_frame(rc->fd, false, s.buf, s.len) != 0) {
					vf_harness_fail("raw peer: write on fresh connection");
				}
				uint8_t buf[FRAME_MAX + 64];
				long    n = peer_recv(rc->fd, buf, sizeof(buf), LONG_MS);
				if (n < 0 || (size_t) n != s.len || memcmp(buf, s.buf, s.len) != 0) {
					vf_violation("C13/service-lost-after-malformed", "%s: after %s disconnected the peer, a well-formed request on a fresh connection was not answered (%ld)", rc->ctx, what, n);
				}
				vf_stat("raw_disconnects_observed", 1);
			}
			// the only arrival since the bad frame must be the sentinel
			vf_quiesce(1, 2000);
			replier_wait(&rc->rp, rc->seen + 1, LONG_MS);
			int  cnt = replier_count(&rc->rp);
			bool ok  = true;
			if (cnt > rc->seen + 1) {
				pthread_mutex_lock(&rc->rp.mtx);
				arrival a = rc->rp.log[rc->seen];
				pthread_mutex_unlock(&rc->rp.mtx);
				vf_violation("C13/malformed-delivered", "%s: %s (model: %s at MAXTTL %d) was delivered to the replier (header %zu bytes, body %zu bytes)", rc->ctx, what, outname[out], ttl0, a.hlen, a.blen);
				rc->seen = cnt;
				ok       = false;
			} else if (cnt == rc->seen + 1) {
				ok = raw_check_arrival(rc, &s, 1, "the sentinel");
			} else {
				ok = false; // reported above
			}
			if (ok) {
				vf_stat("raw_bad_frames_not_delivered_verified", 1);
				if (f.nwords >= 16) {
					vf_stat("raw_longer_than_capacity_verified", 1);
				}
				if (fh == 0) {
					vf_stat("raw_unterminated_verified", 1);
				} else if (fh == ttl0 + 1) {
					vf_stat("raw_words_ttl_plus_one_dropped", 1);
				}
				if (dropper >= 1) {
					vf_stat("raw_dropped_behind_first_device", 1);
					if (dropper < rc->ndev) {
						// by the front socket of a device that is fed by a device
						vf_stat("raw_dropped_by_second_or_later_device", 1);
					}
					if (e + dropper > 15) {
						// 16 words on the wire: header at capacity in the device before
						vf_stat("raw_dropped_with_16_words_at_depth", 1);
					}
				}
				if (out != OUT_DELIVER && rc->ndev >= 2) {
					vf_stat("raw_bad_frames_not_delivered_through_2plus_devices", 1);
				}
			}
			obs = disc ? "disconnected" : "dropped";
		}
		vf_class("raw/%s/dev%d/%s/n=%d/term=%d/pat=%d/pay=%d/%s", rc->f->name, rc->ndev, rc->rep_raw ? "rawrep" : "cooked", f.nwords, f.term, f.pat, f.payload, obs);
		if (i == 0 && (idx & 7) == 0) {
			vf_sample("{\"mode\":\"raw\",\"path\":\"%s\",\"words\":%d,\"terminated\":%d,\"pattern\":%d,\"payload\":%d,\"first_high_bit_word\":%d,\"model\":\"%s\",\"observed\":\"%s\"}", rc->ctx, f.nwords, f.term, f.pat, f.payload, fh, outname[out], obs);
		}
	}
	close(rc->fd);
	for (int i = 0; i < rc->ndev; i++) {
		dev_stop(&dev[i], rc->ctx);
	}
	replier_stop(&rc->rp);
	replier_free(&rc->rp);
	vf_pt_off();
	free(rc);
}

// Reverse direction: requester (raw nng socket) -> device -> raw TCP peer
// that acts as the replier and answers with crafted backtraces.
static void
rawrep_case(long idx, vf_rng *r)
{
	const family *fm = &fams[vf_below(r, 2)];
	nng_socket    front, back, rq;
	pcount       *pcf, *pcb, *pcq;
	devh          dev;
	char          durl[128], url[64], ctx[64];
	uint16_t      port = 0, peer = 0;
	int           pert, lfd, fd, nframes;
	uint8_t       reqf[FRAME_MAX], buf[FRAME_MAX + 64];

	snprintf(ctx, sizeof(ctx), "%s requester->device->rawpeer", fm->name);
	vf_case_begin(idx, "raw reply-side fam=%s", fm->name);
	vf_watchdog(180);
	set_pert(r, &pert);
	if ((lfd = vf_tcp_listen(&port)) < 0) {
		vf_harness_fail("raw peer: listen");
	}
	front = sk_open(fm->rep_raw, (int) vf_range(r, 1, 15), &pcf);
	back  = sk_open(fm->req_raw, (int) vf_range(r, 1, 15), &pcb);
	rq    = sk_open(fm->req_raw, 15, &pcq);
	nng_socket_set_ms(back, NNG_OPT_RECONNMINT, 5);
	nng_socket_set_ms(back, NNG_OPT_RECONNMAXT, 20);
	sk_listen(front, VF_T_INPROC, durl, sizeof(durl));
	sk_dial(rq, durl);
	snprintf(url, sizeof(url), "tcp://127.0.0.1:%u", port);
	if (nng_dial(back, url, NULL, NNG_FLAG_NONBLOCK) != 0) {
		vf_harness_fail("raw peer: nonblocking dial");
	}
	if ((fd = vf_tcp_accept(lfd, 10000)) < 0 || vf_sp_handshake(fd, fm->rep_proto, &peer, 5000) != 0 || peer != fm->req_proto) {
		vf_harness_fail("raw peer: accept/handshake");
	}
	pc_wait(pcb, 1, "rawrep: device back");
	pc_wait(pcf, 1, "rawrep: device front");
	dev_start(&dev, front, back);

	nframes = (int) vf_range(r, 8, 20);
	int  extra_last   = 0;
	bool kick_pending = false; // a malformed reply was written to the current connection
	for (int i = 0; i <= nframes; i++) {
		// a request so that the peer learns the routing word of the requester
		nng_msg *m, *g = NULL;
		size_t   sz = 40;
		uint32_t rid = 0x80000000u | (uint32_t) vf_rand(r);
		long     n;
		int      rv;
		bool     last = i == nframes; // final well-formed exchange
		bool     have = false, resend = true;
		while (!have) {
			if (resend) {
				if (nng_msg_alloc(&m, sz) != 0) {
					vf_harness_fail("alloc");
				}
				vf_body_make(nng_msg_body(m), sz, 0x900, (uint64_t) i);
				nng_msg_header_append_u32(m, rid);
				if ((rv = nng_sendmsg(rq, m, 0)) != 0) {
					nng_msg_free(m);
					vf_harness_fail("rawrep: request send: %s", nng_strerror(rv));
				}
				resend = false;
			}
			n = peer_recv(fd, reqf, sizeof(reqf), LONG_MS);
			if (n == -2) {
				// the device kicked us for the previous frame; its dialer
				// comes back.  The request may be lost with the old pipe
				// or wait for the new one: send it again, ignore stale ones.
				close(fd);
				int hs = 0;
				if ((fd = vf_tcp_accept(lfd, 10000)) < 0 || (hs = vf_sp_handshake(fd, fm->rep_proto, &peer, 5000)) != 0) {
					dump_sock_stats(back);
					vf_violation("C13/service-lost-after-malformed", "%s: after a malformed reply disconnected the raw peer, the device's dialer did not come back within 10 s (%s; back socket pipes: %d added, %d removed)", ctx, fd < 0 ? "no new connection" : hs == -1 ? "SP header write failed" : hs == -2 ? "no SP header from the dialer within 5 s" : "bad SP header", atomic_load(&pcb->adds), atomic_load(&pcb->rems));
					if (fd >= 0) {
						close(fd);
					}
					fd = -1;
					break;
				}
				vf_stat("raw_disconnects_observed", 1);
				kick_pending = false;
				for (int w = 0; w < 10000 && atomic_load(&pcb->n) < 1; w++) {
					vf_msleep(1);
				}
				if (atomic_load(&pcb->n) < 1) {
					dump_sock_stats(back);
				}
				pc_wait(pcb, 1, "rawrep: device back again");
				resend = true;
				continue;
			}
			if (n == (long) (8 + sz) && !(reqf[0] & 0x80) && (reqf[4] & 0x80) && get32(reqf + 4) != rid) {
				vf_stat("raw_stale_requests_skipped", 1);
				continue;
			}
			if (n != (long) (8 + sz) || get32(reqf + 4) != rid || (reqf[0] & 0x80)) {
				vf_violation("C13/backtrace-depth", "%s: the raw replier peer received %ld bytes, expected <pipe word><request id><%zu-byte body>", ctx, n, sz);
				break;
			}
			have = true;
		}
		if (!have) {
			break;
		}
		uint32_t P = get32(reqf);

		// crafted reply
		frame f;
		int   e = 0, out;
		bool  route_ok;
		if (last) {
			f.nwords = 2;
			f.term   = true;
			f.pat = f.payload = 0;
			put32(f.buf, P);
			put32(f.buf + 4, rid);
			memcpy(f.buf + 8, reqf + 8, sz);
			f.len = 8 + sz;
		} else {
			frame_make(r, &f, 15, 0x901, (uint64_t) i);
			// first word: mostly the right routing word
			uint32_t x = vf_below(r, 8);
			if (f.nwords >= 1 && x < 5) {
				put32(f.buf, P | (f.pat == 2 ? 0x80000000u : 0));
			} else if (f.nwords >= 1 && x < 6) {
				put32(f.buf, (P ^ 0x1555u) & 0x7fffffffu);
			}
		}
		out      = model_req_side(f.buf, f.len, &e);
		route_ok = out == OUT_DELIVER && e >= 2 && get32(f.buf) == P;
		if (vf_sp_send_frame(fd, false, f.buf, f.len) != 0) {
			// A malformed reply sent earlier on this connection makes the
			// device disconnect us whenever it gets to read it - under load
			// that can be after we have received the next request.  The
			// next round finds the connection closed and waits for the
			// dialer to come back.
			if (!kick_pending) {
				vf_harness_fail("rawrep: write failed on a connection on which nothing malformed was sent");
			}
			vf_stat("raw_reply_write_failed_on_kicked_connection", 1);
			if (last && extra_last < 3) {
				extra_last++;
				nframes++;
			}
			continue;
		}
		kick_pending |= out == OUT_KICK;
		vf_stat("raw_frames_sent", 1);
		nng_socket_set_ms(rq, NNG_OPT_RECVTIMEO, route_ok ? LONG_MS : 60);
		rv = nng_recvmsg(rq, &g, 0);
		if (route_ok) {
			size_t hl = (size_t) (e - 1) * 4, bl = f.len - (size_t) e * 4;
			if (rv != 0) {
				// A malformed reply sent earlier disconnects this peer
				// whenever the device gets to read it; data sent after it on
				// the same connection is then legitimately lost.  Only a
				// loss on a connection that is still open is judged.
				uint8_t tmp[FRAME_MAX + 64];
				long    pr = peer_recv(fd, tmp, sizeof(tmp), 100);
				if (pr == -2) {
					vf_stat("raw_reply_lost_with_kicked_connection", 1);
					if (last && extra_last < 3) {
						// the closing well-formed exchange must be seen
						extra_last++;
						nframes++;
					}
				} else {
					printf("DIAG reply-lost: i=%d words=%d P=%08x conn=%s back pipes +%d -%d front pipes +%d -%d\n", i, e, P, pr == -1 ? "open-idle" : "open-data", atomic_load(&pcb->adds), atomic_load(&pcb->rems), atomic_load(&pcf->adds), atomic_load(&pcf->rems));
					dump_sock_stats(back);
					dump_sock_stats(front);
					vf_violation("C13/reply-lost", "%s: a well-formed reply with %d words (first = the requester's routing word) was not delivered although the connection stayed open: %s", ctx, e, nng_strerror(rv));
					atomic_fetch_add(&reply_lost_reports, 1);
					nframes = i; // reported; end the case
				}
			} else if (nng_msg_header_len(g) != hl || memcmp(nng_msg_header(g), f.buf + 4, hl) != 0 || nng_msg_len(g) != bl || memcmp(nng_msg_body(g), f.buf + (size_t) e * 4, bl) != 0) {
				vf_violation("C13/backtrace-unwind", "%s: reply with %d words: the requester got header %zu / body %zu bytes, expected %zu / %zu with the first word popped", ctx, e, nng_msg_header_len(g), nng_msg_len(g), hl, bl);
			} else {
				vf_stat("raw_replies_delivered_verified", 1);
				if (e == 16) {
					vf_stat("raw_delivered_header_at_capacity", 1);
				}
			}
		} else if (rv == 0) {
			vf_violation("C13/malformed-delivered", "%s: a reply of %d words (term=%d pattern=%d, first high bit at %d, routing word %s) reached the requester with header %zu / body %zu bytes", ctx, f.nwords, f.term, f.pat, e, f.nwords && get32(f.buf) == P ? "right" : "wrong", nng_msg_header_len(g), nng_msg_len(g));
		} else {
			vf_stat("raw_bad_replies_not_delivered_verified", 1);
			if (out == OUT_KICK && f.nwords > 16) {
				vf_stat("raw_longer_than_capacity_verified", 1);
			}
		}
		if (g != NULL) {
			nng_msg_free(g);
		}
		vf_class("rawreply/%s/n=%d/term=%d/pat=%d/pay=%d/%s/%s", fm->name, f.nwords, f.term, f.pat, f.payload, outname[out], route_ok ? "delivered" : "not");
	}
	if (fd >= 0) {
		close(fd);
	}
	close(lfd);
	dev_stop(&dev, ctx);
	nng_socket_close(rq);
	vf_pt_off();
}

static void
raw_case(long idx)
{
	vf_rng r;
	vf_rng_seed(&r, vf_seed, (uint64_t) idx);
	if (idx % 3 == 2) {
		rawrep_case(idx, &r);
	} else {
		rawreq_case(idx, &r);
	}
	vf_stat("cases", 1);
	lib_cycle(false);
}

// ============================================================ stop mode
static bool
roundtrip(nng_socket req, uint32_t tag, uint64_t seq, int ms)
{
	nng_msg *m, *g = NULL;
	size_t   sz = 64;
	bool     ok;
	if (nng_msg_alloc(&m, sz) != 0) {
		vf_harness_fail("alloc");
	}
	vf_body_make(nng_msg_body(m), sz, tag, seq);
	nng_socket_set_ms(req, NNG_OPT_RECVTIMEO, ms);
	nng_socket_set_ms(req, NNG_OPT_SENDTIMEO, ms);
	if (nng_sendmsg(req, m, 0) != 0) {
		nng_msg_free(m);
		return false;
	}
	if (nng_recvmsg(req, &g, 0) != 0) {
		return false;
	}
	uint32_t t = 0;
	uint64_t s = 0;
	ok = vf_body_check(nng_msg_body(g), nng_msg_len(g), &t, &s) == 0 && t == tag && s == seq;
	nng_msg_free(g);
	return ok;
}

typedef struct {
	nng_socket   req;
	_Atomic bool stop;
	_Atomic long done;
	uint32_t     tag;
} pumper;

static void *
pumper_main(void *arg)
{
	pumper *p = arg;
	for (uint64_t i = 0; !atomic_load(&p->stop); i++) {
		if (roundtrip(p->req, p->tag, i, 200)) {
			atomic_fetch_add(&p->done, 1);
		}
	}
	return NULL;
}

static bool
dev_wait_done(devh *d, int ms)
{
	uint64_t end = vf_now_ns() + (uint64_t) ms * 1000000ULL;
	while (!atomic_load(&d->done)) {
		if (vf_now_ns() > end) {
			return false;
		}
		vf_usleep(300);
	}
	return true;
}

static void
stop_case(long idx)
{
	vf_rng        r;
	const family *fm;
	nng_socket    front, back, reps, req[2];
	pcount       *pcf, *pcb, *pcr, *pcq[2];
	devh          dev;
	replier       rp;
	char          durl[128], durl2[128], ctx[96];
	int           pert, variant, tran, rv;
	static const char *vname[] = { "cancel-idle", "cancel-under-traffic", "aio-timeout", "close-owned-socket", "invalid-pairing", "second-device", "cancel-at-once", "stopped-aio", "fini-after-stop" };

	vf_rng_seed(&r, vf_seed, (uint64_t) idx);
	fm      = &fams[vf_below(&r, 2)];
	variant = (int) (idx % 9);
	tran    = pick_tran(&r);
	snprintf(ctx, sizeof(ctx), "stop/%s/%s", vname[variant], fm->name);
	vf_case_begin(idx, "stop variant=%s fam=%s tran=%s", vname[variant], fm->name, vf_tran_names[tran]);
	vf_watchdog(120);
	set_pert(&r, &pert);

	if (variant == 8) {
		// the application stops the device, sees the aio complete, and
		// shuts the library down at once (nothing else is open)
		for (int rep = 0; rep < 8; rep++) {
			nng_socket a = sk_open(fm->rep_raw, 8, NULL), b = sk_open(fm->req_raw, 8, NULL);
			dev_start(&dev, a, b);
			if (vf_chance(&r, 1, 2)) {
				vf_usleep((int) vf_below(&r, 500));
			}
			vf_pt_target(NNI_VP_MTX_LOCK, (int) vf_range(&r, 50, 400), 50, (int) vf_range(&r, 200, 1500));
			dev_stop(&dev, ctx);
			vf_nng_fini("C13");
			vf_pt_off();
			vf_nng_init(4, 2, 2);
			pc_next          = 0;
			cases_since_init = 0;
			vf_stat("fini_right_after_stop", 1);
		}
		vf_class("stop/%s/%s", vname[variant], fm->name);
		vf_stat("cases", 1);
		vf_stat("stop_cases", 1);
		return;
	}
	if (variant == 4) {
		// pairings nng_device_aio must refuse; the caller keeps the sockets
		nng_socket a, b, none = NNG_SOCKET_INITIALIZER;
		int        kind = (int) vf_below(&r, 4);
		a = sk_open(kind == 0 ? fm->rep : fm->rep_raw, 0, NULL);
		b = sk_open(kind == 1 ? fm->rep_raw : kind == 2 ? nng_pair1_open_raw : fm->req_raw, 0, NULL);
		if (vf_chance(&r, 1, 2)) {
			// the blocking wrapper must return the refusal, not block
			rv = kind == 3 ? (int) nng_device(none, none) : (int) nng_device(a, b);
			if (nng_aio_alloc(&dev.aio, NULL, NULL) != 0) {
				vf_harness_fail("aio alloc");
			}
			vf_stat("blocking_device_refusals", 1);
		} else {
			if (kind == 3) {
				// both invalid
				dev_start(&dev, none, none);
			} else {
				dev_start(&dev, a, b);
			}
			nng_aio_wait(dev.aio);
			rv = (int) nng_aio_result(dev.aio);
		}
		if (rv == 0) {
			vf_violation("C13/device-stop/no-error", "%s: nng_device_aio on an invalid socket pairing (kind %d) completed with result 0", ctx, kind);
		} else {
			vf_stat("device_refusals_verified", 1);
		}
		nng_aio_free(dev.aio);
		int c1 = nng_socket_close(a), c2 = nng_socket_close(b);
		if (c1 != 0 || c2 != 0) {
			vf_violation("C13/device-stop/sockets-kept", "%s: after nng_device_aio failed with %s the caller could not close its sockets (%s / %s)", ctx, nng_strerror((nng_err) rv), nng_strerror((nng_err) c1), nng_strerror((nng_err) c2));
		}
		vf_class("stop/%s/kind=%d/%s", vname[variant], kind, nng_strerror((nng_err) rv));
		goto out;
	}

	front = sk_open(fm->rep_raw, 8, &pcf);
	back  = sk_open(fm->req_raw, 8, &pcb);
	reps  = sk_open(fm->rep, 8, &pcr);
	sk_listen(front, tran, durl, sizeof(durl));
	sk_listen(reps, pick_tran(&r), durl2, sizeof(durl2));
	sk_dial(back, durl2);
	for (int i = 0; i < 2; i++) {
		req[i] = sk_open(fm->req, 8, &pcq[i]);
		if (fm == &fams[0]) {
			nng_socket_set_ms(req[i], NNG_OPT_REQ_RESENDTIME, NNG_DURATION_INFINITE);
		} else {
			nng_socket_set_ms(req[i], NNG_OPT_SURVEYOR_SURVEYTIME, LONG_MS);
		}
		sk_dial(req[i], durl);
	}
	pc_wait(pcf, 2, "stop: front");
	pc_wait(pcb, 1, "stop: back");
	pc_wait(pcr, 1, "stop: replier");
	replier_start(&rp, reps, false);

	if (variant == 7) {
		// an aio that was stopped before: the device must not start
		atomic_store(&dev.done, 0);
		if (nng_aio_alloc(&dev.aio, dev_cb, &dev) != 0) {
			vf_harness_fail("aio alloc");
		}
		nng_aio_stop(dev.aio);
		nng_device_aio(dev.aio, front, back);
		nng_aio_wait(dev.aio);
		rv = (int) nng_aio_result(dev.aio);
		if (rv == 0) {
			vf_violation("C13/device-stop/no-error", "%s: nng_device_aio on a stopped aio completed with result 0", ctx);
		} else {
			vf_stat("device_refusals_verified", 1);
		}
		nng_aio_free(dev.aio);
		nng_socket_close(front);
		nng_socket_close(back);
		vf_class("stop/%s/%s", vname[variant], nng_strerror((nng_err) rv));
		goto teardown;
	}

	if (variant == 2) {
		int ms = (int) vf_range(&r, 20, 150);
		atomic_store(&dev.done, 0);
		if (nng_aio_alloc(&dev.aio, dev_cb, &dev) != 0) {
			vf_harness_fail("aio alloc");
		}
		nng_aio_set_timeout(dev.aio, ms);
		nng_device_aio(dev.aio, front, back);
		bool rt = roundtrip(req[0], 1, 1, 10);
		(void) rt; // may or may not beat the timeout
		nng_aio_wait(dev.aio);
		rv = (int) nng_aio_result(dev.aio);
		if (rv == 0) {
			vf_violation("C13/device-stop/no-error", "%s: a device whose aio timed out completed with result 0", ctx);
		} else {
			vf_stat("device_stops_with_error", 1);
		}
		nng_aio_free(dev.aio);
		vf_class("stop/%s/%s", vname[variant], nng_strerror((nng_err) rv));
		goto teardown;
	}

	dev_start(&dev, front, back);
	if (variant == 6) {
		// cancel races with start-up
		if (vf_chance(&r, 1, 2)) {
			vf_usleep((int) vf_below(&r, 300));
		}
		dev_stop(&dev, ctx);
		vf_class("stop/%s", vname[variant]);
		goto teardown;
	}
	if (!roundtrip(req[0], 1, 0, LONG_MS)) {
		vf_violation("C13/reply-lost", "%s: first round trip through a freshly started device failed", ctx);
	}
	switch (variant) {
	case 0:
		vf_quiesce(2, 2000);
		dev_stop(&dev, ctx);
		break;
	case 1: {
		pumper    pm[2];
		pthread_t th[2];
		for (int i = 0; i < 2; i++) {
			pm[i].req = req[i];
			pm[i].tag = (uint32_t) i;
			atomic_store(&pm[i].stop, false);
			atomic_store(&pm[i].done, 0);
			pthread_create(&th[i], NULL, pumper_main, &pm[i]);
		}
		vf_msleep((int) vf_range(&r, 5, 40));
		dev_stop(&dev, ctx);
		for (int i = 0; i < 2; i++) {
			atomic_store(&pm[i].stop, true);
		}
		for (int i = 0; i < 2; i++) {
			pthread_join(th[i], NULL);
			vf_stat("roundtrips_before_stop", atomic_load(&pm[i].done));
		}
		break;
	}
	case 3: {
		// the application closes a socket the device owns
		nng_socket victim = vf_chance(&r, 1, 2) ? front : back;
		rv = nng_socket_close(victim);
		if (rv == 0) {
			if (!dev_wait_done(&dev, LONG_MS)) {
				vf_violation("C13/device-stop/survives-close", "%s: nng_socket_close of a device socket returned 0 but the device aio did not complete within 10 s", ctx);
			} else if (atomic_load(&dev.result) == 0) {
				vf_violation("C13/device-stop/no-error", "%s: device ended with result 0 after one of its sockets was closed", ctx);
			}
			nng_aio_wait(dev.aio);
			nng_aio_free(dev.aio);
			vf_class("stop/%s/closed", vname[variant]);
		} else {
			// refused (the device owns the socket): it must keep forwarding
			if (!roundtrip(req[1], 2, 7, LONG_MS)) {
				vf_violation("C13/reply-lost", "%s: nng_socket_close on a device-owned socket returned %s and afterwards the device no longer forwards", ctx, nng_strerror((nng_err) rv));
			} else {
				vf_stat("owned_socket_close_refused_device_alive", 1);
			}
			dev_stop(&dev, ctx);
			vf_class("stop/%s/refused-%s", vname[variant], nng_strerror((nng_err) rv));
		}
		break;
	}
	case 5: {
		// a second device on sockets that are already owned
		devh       d2;
		nng_socket x = sk_open(fm->req_raw, 8, NULL);
		bool       same = vf_chance(&r, 1, 2);
		if (same) {
			dev_start(&d2, front, back);
		} else {
			dev_start(&d2, front, x);
		}
		nng_aio_wait(d2.aio);
		rv = (int) nng_aio_result(d2.aio);
		if (rv == 0) {
			vf_violation("C13/device-stop/no-error", "%s: a second nng_device_aio on an owned socket completed with result 0", ctx);
		} else {
			vf_stat("device_refusals_verified", 1);
		}
		nng_aio_free(d2.aio);
		nng_socket_close(x);
		if (!roundtrip(req[1], 2, 9, LONG_MS)) {
			vf_violation("C13/reply-lost", "%s: after a refused second device (%s) the first device no longer forwards", ctx, nng_strerror((nng_err) rv));
		}
		dev_stop(&dev, ctx);
		vf_class("stop/%s/%s/%s", vname[variant], same ? "same-pair" : "one-owned", nng_strerror((nng_err) rv));
		break;
	}
	default:
		dev_stop(&dev, ctx);
		break;
	}
	if (variant <= 1) {
		vf_class("stop/%s/%s", vname[variant], vf_tran_names[tran]);
	}
teardown:
	for (int i = 0; i < 2; i++) {
		nng_socket_close(req[i]);
	}
	replier_stop(&rp);
	replier_free(&rp);
out:
	vf_pt_off();
	vf_stat("cases", 1);
	vf_stat("stop_cases", 1);
	// allocator balance after every stop case
	lib_cycle(true);
}


int
main(int argc, char **argv)
{
	vf_init(argc, argv);
	vf_nng_init(4, 2, 2);
	for (long idx = 0; idx < vf_cases; idx++) {
		if (!vf_want_case(idx)) {
			continue;
		}
		if (atomic_load(&reply_lost_reports) >= 2) {
			vf_stat("cases_skipped_after_repeated_reply_loss", 1);
			continue;
		}
		if (!strcmp(vf_mode, "chain")) {
			chain_case(idx);
		} else if (!strcmp(vf_mode, "loop")) {
			loop_case(idx);
		} else if (!strcmp(vf_mode, "raw")) {
			raw_case(idx);
		} else if (!strcmp(vf_mode, "stop")) {
			stop_case(idx);
		} else {
			vf_harness_fail("unknown mode '%s'", vf_mode);
		}
	}
	vf_pt_off();
	vf_nng_fini("C13");
	return vf_finish();
}
