// C02: every asynchronous operation completes exactly once.
// Layer 1 (here): every user aio is wrapped in a record; the callback checks
// no overlap, callbacks <= submissions, result-code legitimacy (ETIMEDOUT never
// early, ECANCELED/abort code only if issued, ESTOPPED only after stop/close),
// no callback after nng_aio_stop/free returned; at the end of a case every
// submission has had exactly one callback; for message receives conservation
// (a receive that reports an error must not have consumed a message).
// Layer 2: the guarded shadow state in core/aio.c (nni_verif_fail) covers the
// library's internal aios.  Perturbation: seeded jitter or one targeted site.
#define _GNU_SOURCE
#include "vfh.h"
#include <pthread.h>
#include <stdatomic.h>
#include <unistd.h>

enum { K_SLEEP, K_PROVIDER, K_SOCKRECV, K_CTXRECV, K_DIAL, K_ACCEPT, K_STREAMRECV, K_SOCKSEND, K_PROTORECV, K_PROTOSEND, K_REQSEND, K_STREAMDIAL, K_SURVRECV, K_NKINDS };
static const char *kind_names[] = { "sleep", "provider", "sock-recv", "ctx-recv", "dial-aio", "stream-accept", "stream-recv", "sock-send", "proto-recv", "proto-send", "req-ctx-send", "stream-dial", "surveyor-recv" };

// K_PROTORECV / K_PROTOSEND: the receive / send path (and cancel function) of
// further protocols; no conservation is demanded of these (lossy or fan-out)
enum { PR_PULL, PR_SUB, PR_BUS, PR_PAIR0, PR_XREP, PR_N };
static const char *pr_names[] = { "pull", "sub", "bus", "pair0", "xrep" };
enum { PS_PUSH, PS_PAIR0, PS_XREQ, PS_N };
static const char *ps_names[] = { "push", "pair0", "xreq" };

enum { A_NONE, A_CANCEL, A_ABORT, A_STOP, A_CLOSE, A_FREE, A_NACTS };
static const char *act_names[] = { "none", "cancel", "abort", "stop", "close", "free" };

#define ABORT_CODE NNG_EPERM

typedef struct arec {
	nng_aio        *aio;
	int             kind;
	int             idx;
	_Atomic int     n_submit, n_cb, in_cb;
	_Atomic int     cancel_issued, abort_issued, stop_issued, close_issued;
	_Atomic int     stop_returned, freed, free_issued;
	_Atomic uint64_t t_submit;   // ns
	_Atomic int     timeout_ms;  // aio timeout of the current submission, -1 none
	_Atomic int     sleep_ms;    // for K_SLEEP: requested duration of current submission
	int             resubmits_left;
	int             resubmit_timeout; // ms for resubmissions
	// provider state (under prov_mtx)
	bool            prov_owned;
	int             prov_final;      // result the provider passed to finish
	int             prov_have_final;
	int             cancel_delay_us;
	_Atomic uint64_t t_expire_pick; // last time the expire loop picked this aio (hook)
	int             dwell_us;       // time the callback spends inside (widens "still running" windows)
	bool            tmo_once;       // the aio's timeout is set once, at creation; resubmissions reuse it
	_Atomic uint64_t surv_deadline; // K_SURVRECV: when the survey this receive belongs to expires (ns)
	// K_SOCKSEND: result of every submission (index = submission number)
	int             send_rv[40];
	_Atomic int     send_seq; // submission number of the message now attached
	// outcome accounting
	_Atomic int     results[8];
	struct casectx *cx;
} arec;

typedef struct casectx {
	int         kind;
	int         sub; // protocol of K_PROTORECV / K_PROTOSEND
	int         survey_ms; // K_SURVRECV
	uint64_t    key_surv;
	bool        surv_ctx;  // K_SURVRECV: contexts (else the socket, one record)
	nng_socket  s, peer;
	nng_ctx     ctx[8];
	nng_dialer  dialer;
	nng_stream_listener *sl;
	nng_stream_dialer   *sd;
	nng_stream *st_a, *st_b;
	int         nrec;
	arec        rec[8];
	_Atomic int msgs_sent, msgs_recv_ok, msgs_recv_err_with_msg;
	uint8_t     got[8][40]; // K_SOCKSEND: times (record, submission) was received by the peer
	nng_stream *accepted[64];
	_Atomic int naccepted;
	uint8_t     rbuf[8][64];
} casectx;

static pthread_mutex_t prov_mtx = PTHREAD_MUTEX_INITIALIZER;
static pthread_mutex_t sendlog_mtx = PTHREAD_MUTEX_INITIALIZER;

static void sendlog_add(struct casectx *cx, nng_msg *m);
static casectx *_Atomic cur_cx;

// hook: remember when the expire loop picked one of our aios (its deadline had
// passed at that moment).  Used only to name the window an early timeout came
// through, not to decide whether it is a violation.
static void
ev_hook(int ev, const void *obj, uintptr_t a, uintptr_t b)
{
	(void) a;
	(void) b;
	if (ev != NNI_VE_AIO_EXPIRE) return;
	casectx *cx = atomic_load(&cur_cx);
	if (cx == NULL) return;
	for (int i = 0; i < cx->nrec; i++) {
		if ((const void *) cx->rec[i].aio == obj) atomic_store(&cx->rec[i].t_expire_pick, vf_now_ns());
	}
}
static long            case_no;

static void
sendlog_add(casectx *cx, nng_msg *m)
{
	uint32_t a = 99, b = 99;
	if (nng_msg_len(m) >= 8) {
		nng_msg_trim_u32(m, &a);
		nng_msg_trim_u32(m, &b);
	}
	pthread_mutex_lock(&sendlog_mtx);
	if (a < 8 && b < 40 && cx->got[a][b] < 200) cx->got[a][b]++;
	pthread_mutex_unlock(&sendlog_mtx);
	nng_msg_free(m);
}

static const char *
resname(int rv)
{
	switch (rv) {
	case 0: return "ok";
	case NNG_ETIMEDOUT: return "timedout";
	case NNG_ECANCELED: return "canceled";
	case NNG_ESTOPPED: return "stopped";
	case NNG_ECLOSED: return "closed";
	case ABORT_CODE: return "abortcode";
	default: return "other";
	}
}

static void submit(arec *r, bool from_cb);

static void
prov_cancel(nng_aio *aio, void *arg, nng_err rv)
{
	arec *r = arg;
	if (r->cancel_delay_us) {
		vf_usleep(r->cancel_delay_us);
	}
	pthread_mutex_lock(&prov_mtx);
	if (r->prov_owned) {
		r->prov_owned      = false;
		r->prov_final      = (int) rv;
		r->prov_have_final = 1;
		pthread_mutex_unlock(&prov_mtx);
		nng_aio_finish(aio, rv);
		return;
	}
	pthread_mutex_unlock(&prov_mtx);
}

static bool
prov_complete(arec *r)
{
	pthread_mutex_lock(&prov_mtx);
	if (r->prov_owned) {
		r->prov_owned      = false;
		r->prov_final      = 0;
		r->prov_have_final = 1;
		pthread_mutex_unlock(&prov_mtx);
		nng_aio_finish(r->aio, 0);
		return true;
	}
	pthread_mutex_unlock(&prov_mtx);
	return false;
}

static void
cb(void *arg)
{
	arec    *r   = arg;
	uint64_t now = vf_now_ns();
	int      exp = 0;
	char     key[96];

	if (!atomic_compare_exchange_strong(&r->in_cb, &exp, 1)) {
		vf_violation("C02/callback-overlap", "%s: two callbacks of one aio running at once", kind_names[r->kind]);
	}
	if (atomic_load(&r->freed)) {
		vf_violation("C02/callback-after-free", "%s: callback began after nng_aio_free returned", kind_names[r->kind]);
		return;
	}
	if (r->dwell_us) vf_usleep(r->dwell_us);
	int ncb = atomic_fetch_add(&r->n_cb, 1) + 1;
	int nsub = atomic_load(&r->n_submit);
	if (ncb > nsub) {
		snprintf(key, sizeof(key), "C02/double-completion/%s", kind_names[r->kind]);
		vf_violation(key, "%s: callback #%d but only %d submissions", kind_names[r->kind], ncb, nsub);
	}
	if (atomic_load(&r->stop_returned)) {
		snprintf(key, sizeof(key), "C02/callback-after-stop/%s", kind_names[r->kind]);
		vf_violation(key, "%s: callback began after nng_aio_stop returned", kind_names[r->kind]);
	}
	int rv = (int) nng_aio_result(r->aio);
	int tmo = atomic_load(&r->timeout_ms);
	double el_ms = (double) (now - atomic_load(&r->t_submit)) / 1e6;
	switch (rv) {
	case 0:
		if (r->kind == K_SLEEP) {
			int sm = atomic_load(&r->sleep_ms);
			if (el_ms < (double) sm - 1.0) {
				vf_violation("C02/sleep-early", "sleep of %d ms completed with 0 after %.2f ms", sm, el_ms);
			}
		}
		break;
	case NNG_ETIMEDOUT:
		if (r->kind == K_SURVRECV && atomic_load(&r->surv_deadline) != 0 && now + 1000000ULL >= atomic_load(&r->surv_deadline)) {
			// the survey's own deadline ended this receive: legitimate
			vf_stat("survey_deadline_timeouts", 1);
		} else if (tmo < 0) {
			snprintf(key, sizeof(key), "C02/timeout-without-timeout/%s", kind_names[r->kind]);
			vf_violation(key, "%s: NNG_ETIMEDOUT but no timeout was configured (elapsed %.2f ms)", kind_names[r->kind], el_ms);
		} else if (el_ms < (double) tmo - 1.0) {
			// which window?  If the expire loop picked this aio before the
			// current submission began, the timeout belongs to the previous
			// operation of this aio and its cancel call landed on this one.
			// (the pick must be recent: the expire thread only sits on a
			// picked aio for as long as it is delayed)
			uint64_t pick = atomic_load(&r->t_expire_pick), ts = atomic_load(&r->t_submit);
			bool     stale = pick != 0 && pick <= ts && ts - pick < 250ULL * 1000000ULL;
			if (stale) vf_stat("stale_expiry_classified", 1);
			snprintf(key, sizeof(key), "C02/timeout-early/%s%s", stale ? "stale-expiry-cancel/" : "", kind_names[r->kind]);
			vf_violation(key, "%s: NNG_ETIMEDOUT after %.2f ms, configured %d ms (expire loop last picked this aio %s%.2f ms %s this submission; submission #%d, callback #%d, cancel_delay %d us)", kind_names[r->kind], el_ms, tmo,
			    pick == 0 ? "never: " : "", pick == 0 ? 0.0 : (pick <= ts ? (double) (ts - pick) : (double) (pick - ts)) / 1e6, pick <= ts ? "before" : "AFTER", nsub, ncb, r->cancel_delay_us);
		}
		break;
	case NNG_ECANCELED:
		if (!atomic_load(&r->cancel_issued)) {
			snprintf(key, sizeof(key), "C02/spurious-cancel/%s", kind_names[r->kind]);
			vf_violation(key, "%s: NNG_ECANCELED but nng_aio_cancel was never called", kind_names[r->kind]);
		}
		break;
	case ABORT_CODE:
		if (!atomic_load(&r->abort_issued)) {
			snprintf(key, sizeof(key), "C02/spurious-abort/%s", kind_names[r->kind]);
			vf_violation(key, "%s: abort code reported but nng_aio_abort was never called", kind_names[r->kind]);
		}
		break;
	case NNG_ESTOPPED:
		if (!atomic_load(&r->stop_issued) && !atomic_load(&r->close_issued)) {
			snprintf(key, sizeof(key), "C02/spurious-stopped/%s", kind_names[r->kind]);
			vf_violation(key, "%s: NNG_ESTOPPED but neither stop nor close was issued", kind_names[r->kind]);
		}
		break;
	case NNG_ECLOSED:
		if (!atomic_load(&r->close_issued) && r->kind != K_STREAMRECV && r->kind != K_DIAL) {
			snprintf(key, sizeof(key), "C02/spurious-closed/%s", kind_names[r->kind]);
			vf_violation(key, "%s: NNG_ECLOSED but nothing was closed", kind_names[r->kind]);
		}
		break;
	default:
		break;
	}
	if (r->kind == K_PROVIDER) {
		pthread_mutex_lock(&prov_mtx);
		int have = r->prov_have_final, fin = r->prov_final;
		r->prov_have_final = 0;
		pthread_mutex_unlock(&prov_mtx);
		// if the provider finished the op, the callback must see that result
		// (a refused start reports its own code and the provider did nothing)
		if (have && fin != rv) {
			vf_violation("C02/result-changed", "provider finished with %d (%s) but callback saw %d (%s)", fin, resname(fin), rv, resname(rv));
		}
	}
	if (r->kind == K_STREAMDIAL) {
		nng_stream *st = nng_aio_get_output(r->aio, 0);
		if (rv == 0 && st == NULL) {
			vf_violation("C02/dial-ok-without-stream", "stream dial completed with 0 and no stream");
		} else if (rv != 0 && st != NULL) {
			vf_violation("C02/error-with-effect/stream-dial", "dial reported %s but a connection is attached to the aio", resname(rv));
		}
		if (st != NULL) {
			int k = atomic_fetch_add(&r->cx->naccepted, 1);
			if (k < 64) r->cx->accepted[k] = st;
			nng_aio_set_output(r->aio, 0, NULL);
		}
	}
	if (r->kind == K_ACCEPT && rv != 0 && nng_aio_get_output(r->aio, 0) != NULL) {
		vf_violation("C02/error-with-effect/stream-accept", "accept reported %s but a connection was accepted and attached to the aio", resname(rv));
		nng_stream *st = nng_aio_get_output(r->aio, 0);
		nng_stream_close(st);
		int k = atomic_fetch_add(&r->cx->naccepted, 1);
		if (k < 64) r->cx->accepted[k] = st;
	}
	if (r->kind == K_ACCEPT && rv == 0) {
		nng_stream *st = nng_aio_get_output(r->aio, 0);
		int         k  = atomic_fetch_add(&r->cx->naccepted, 1);
		if (st == NULL) {
			vf_violation("C02/accept-ok-without-stream", "accept completed with 0 and no stream");
		} else if (k < 64) {
			r->cx->accepted[k] = st;
		}
	}
	if (r->kind == K_SOCKSEND) {
		int      sq = atomic_load(&r->send_seq);
		nng_msg *m  = nng_aio_get_msg(r->aio);
		if (sq >= 0 && sq < 40) r->send_rv[sq] = rv == 0 ? 1 : 2;
		if (rv != 0) {
			if (m == NULL) {
				vf_violation("C02/send-failed-without-msg", "send completed with %s but the message is no longer attached to the aio", resname(rv));
			} else {
				// ours again: free it; a resubmission builds a new one
				nng_aio_set_msg(r->aio, NULL);
				nng_msg_free(m);
			}
		}
	}
	if (r->kind == K_PROTOSEND || r->kind == K_REQSEND) {
		nng_msg *m = nng_aio_get_msg(r->aio);
		if (rv != 0) {
			if (m == NULL) {
				snprintf(key, sizeof(key), "C02/send-failed-without-msg/%s", kind_names[r->kind]);
				vf_violation(key, "send completed with %s but the message is no longer attached to the aio", resname(rv));
			} else {
				nng_aio_set_msg(r->aio, NULL);
				nng_msg_free(m);
			}
		}
	}
	if (r->kind == K_SOCKRECV || r->kind == K_CTXRECV || r->kind == K_PROTORECV || r->kind == K_SURVRECV) {
		nng_msg *m = nng_aio_get_msg(r->aio);
		if (rv == 0) {
			if (m == NULL) {
				vf_violation("C02/recv-ok-without-msg", "%s: result 0 with no message", kind_names[r->kind]);
			} else {
				atomic_fetch_add(&r->cx->msgs_recv_ok, 1);
				if (r->kind == K_CTXRECV) {
					// reply so the REP context can receive again
					nng_aio_set_msg(r->aio, NULL);
				}
				nng_msg_free(m);
				nng_aio_set_msg(r->aio, NULL);
			}
		}
	}
	int slot = rv == 0 ? 0 : rv == NNG_ETIMEDOUT ? 1 : rv == NNG_ECANCELED ? 2 : rv == NNG_ESTOPPED ? 3 : rv == NNG_ECLOSED ? 4 : rv == ABORT_CODE ? 5 : 6;
	atomic_fetch_add(&r->results[slot], 1);
	if (r->kind == K_PROTORECV || r->kind == K_PROTOSEND) {
		vf_class("%s:%s/%s", kind_names[r->kind], r->kind == K_PROTORECV ? pr_names[r->cx->sub] : ps_names[r->cx->sub], resname(rv));
	} else {
		vf_class("%s/%s", kind_names[r->kind], resname(rv));
	}

	atomic_store(&r->in_cb, 0);
	// re-submission from inside the callback
	if (r->resubmits_left > 0 && rv != NNG_ESTOPPED && rv != NNG_ECLOSED && !atomic_load(&r->stop_issued) && !atomic_load(&r->close_issued) && r->kind != K_DIAL && !atomic_load(&r->free_issued)) {
		r->resubmits_left--;
		submit(r, true);
	}
}

static void
submit(arec *r, bool from_cb)
{
	casectx *cx = r->cx;
	int      tmo = (from_cb && !r->tmo_once) ? r->resubmit_timeout : atomic_load(&r->timeout_ms);
	atomic_store(&r->timeout_ms, tmo);
	if (!(from_cb && r->tmo_once)) {
		// (an application that configures its aio once and re-uses it)
		nng_aio_set_timeout(r->aio, tmo < 0 ? NNG_DURATION_INFINITE : tmo);
	}
	atomic_store(&r->t_submit, vf_now_ns());
	atomic_fetch_add(&r->n_submit, 1);
	switch (r->kind) {
	case K_SLEEP:
		nng_sleep_aio(atomic_load(&r->sleep_ms), r->aio);
		break;
	case K_PROVIDER:
		nng_aio_reset(r->aio);
		// start under the provider lock: a cancel that arrives right after
		// start waits for it and then finds the operation owned; a completer
		// can never finish an operation that has not been started.
		pthread_mutex_lock(&prov_mtx);
		r->prov_have_final = 0;
		r->prov_owned      = nng_aio_start(r->aio, prov_cancel, r);
		pthread_mutex_unlock(&prov_mtx);
		break;
	case K_SOCKRECV:
		nng_socket_recv(cx->s, r->aio);
		break;
	case K_SOCKSEND: {
		nng_msg *m;
		int      sq = atomic_load(&r->n_submit) - 1; // this submission
		if (sq >= 40 || nng_msg_alloc(&m, 0) != 0) {
			// out of bookkeeping room: complete it ourselves as a provider would
			atomic_store(&r->send_seq, -1);
			nng_aio_reset(r->aio);
			if (nng_aio_start(r->aio, NULL, NULL)) nng_aio_finish(r->aio, NNG_ECANCELED), atomic_store(&r->cancel_issued, 1);
			break;
		}
		nng_msg_append_u32(m, (uint32_t) r->idx);
		nng_msg_append_u32(m, (uint32_t) sq);
		atomic_store(&r->send_seq, sq);
		nng_aio_set_msg(r->aio, m);
		nng_socket_send(cx->s, r->aio);
		break;
	}
	case K_CTXRECV:
		nng_ctx_recv(cx->ctx[r->idx], r->aio);
		break;
	case K_DIAL:
		nng_dialer_start_aio(cx->dialer, NNG_FLAG_NONBLOCK, r->aio);
		break;
	case K_PROTORECV:
		nng_socket_recv(cx->s, r->aio);
		break;
	case K_PROTOSEND:
	case K_REQSEND: {
		nng_msg *m;
		if (nng_msg_alloc(&m, 0) != 0) vf_harness_fail("msg alloc");
		nng_msg_append_u32(m, 0x80000000u | (uint32_t) r->idx);
		nng_msg_append_u32(m, (uint32_t) atomic_load(&r->n_submit));
		if (r->kind == K_PROTOSEND && cx->sub == PS_XREQ) nng_msg_header_append_u32(m, 0x80000001u);
		nng_aio_set_msg(r->aio, m);
		if (r->kind == K_REQSEND) {
			nng_ctx_send(cx->ctx[r->idx], r->aio);
		} else {
			nng_socket_send(cx->s, r->aio);
		}
		break;
	}
	case K_ACCEPT:
		nng_stream_listener_accept(cx->sl, r->aio);
		break;
	case K_STREAMDIAL:
		nng_stream_dialer_dial(cx->sd, r->aio);
		break;
	case K_SURVRECV: {
		// a new survey before the first receive and before some later ones;
		// the others are posted into whatever is left of the running survey
		if (atomic_load(&r->n_submit) == 1 || vf_mix64(cx->key_surv ^ (uint64_t) atomic_load(&r->n_submit) ^ ((uint64_t) r->idx << 20)) % 3 != 0) {
			nng_msg *m;
			int      srv;
			if (nng_msg_alloc(&m, 0) != 0) vf_harness_fail("msg alloc");
			nng_msg_append_u32(m, (uint32_t) r->idx);
			uint64_t t0 = vf_now_ns();
			srv = cx->surv_ctx ? nng_ctx_sendmsg(cx->ctx[r->idx], m, NNG_FLAG_NONBLOCK) : nng_sendmsg(cx->s, m, NNG_FLAG_NONBLOCK);
			if (srv != 0) {
				nng_msg_free(m);
			} else {
				atomic_store(&r->surv_deadline, t0 + (uint64_t) cx->survey_ms * 1000000ULL);
				vf_stat("surveys_sent", 1);
			}
		}
		atomic_store(&r->t_submit, vf_now_ns());
		if (cx->surv_ctx) {
			nng_ctx_recv(cx->ctx[r->idx], r->aio);
		} else {
			nng_socket_recv(cx->s, r->aio);
		}
		break;
	}
	case K_STREAMRECV: {
		nng_iov iov = { cx->rbuf[r->idx], 16 };
		nng_aio_set_iov(r->aio, 1, &iov);
		nng_stream_recv(cx->st_a, r->aio);
		break;
	}
	}
}

typedef struct {
	casectx *cx;
	vf_rng   rng;
	int      act[8];
	int      act_at_us[8];
	int      complete_at_us;
	int      ncomplete;
} plan;

// nothing of this aio may be executing once stop / wait / free returned
static void
check_not_running(arec *r, const char *what)
{
	if (atomic_load(&r->in_cb)) {
		char key[96];
		snprintf(key, sizeof(key), "C02/callback-running-after-%s/%s", what, kind_names[r->kind]);
		vf_violation(key, "%s: nng_aio_%s returned while the callback of this aio was still executing", kind_names[r->kind], what);
	}
	vf_stat("not_running_checks", 1);
}

static void *
actor_thread(void *arg)
{
	plan    *p  = arg;
	casectx *cx = p->cx;
	uint64_t t0 = vf_now_ns();
	// issue actions in time order
	bool done[8] = { 0 };
	for (;;) {
		int best = -1;
		for (int i = 0; i < cx->nrec; i++) {
			if (!done[i] && p->act[i] != A_NONE && (best < 0 || p->act_at_us[i] < p->act_at_us[best])) best = i;
		}
		if (best < 0) break;
		int64_t wait = (int64_t) p->act_at_us[best] - (int64_t) ((vf_now_ns() - t0) / 1000);
		if (wait > 0) vf_usleep((int) wait);
		arec *r = &cx->rec[best];
		switch (p->act[best]) {
		case A_CANCEL:
			atomic_store(&r->cancel_issued, 1);
			nng_aio_cancel(r->aio);
			break;
		case A_ABORT:
			atomic_store(&r->abort_issued, 1);
			nng_aio_abort(r->aio, ABORT_CODE);
			break;
		case A_STOP:
			atomic_store(&r->stop_issued, 1);
			nng_aio_stop(r->aio);
			atomic_store(&r->stop_returned, 1);
			check_not_running(r, "stop");
			break;
		case A_FREE:
			// nng_aio_free of an operation in flight: it is aborted and
			// its callback has finished when free returns
			atomic_store(&r->stop_issued, 1);
			atomic_store(&r->free_issued, 1);
			nng_aio_free(r->aio);
			atomic_store(&r->freed, 1);
			check_not_running(r, "free");
			vf_stat("free_in_flight", 1);
			break;
		case A_CLOSE:
			for (int i = 0; i < cx->nrec; i++) atomic_store(&cx->rec[i].close_issued, 1);
			switch (cx->kind) {
			case K_SOCKRECV: nng_socket_close(cx->s); break;
			case K_SOCKSEND: nng_socket_close(cx->s); break;
			case K_PROTORECV: nng_socket_close(cx->s); break;
			case K_PROTOSEND: nng_socket_close(cx->s); break;
			case K_REQSEND: nng_ctx_close(cx->ctx[best]); break;
			case K_CTXRECV: nng_ctx_close(cx->ctx[best]); break;
			case K_DIAL: nng_dialer_close(cx->dialer); break;
			case K_ACCEPT: nng_stream_listener_close(cx->sl); break;
			case K_STREAMDIAL: nng_stream_dialer_close(cx->sd); break;
			case K_SURVRECV:
				if (cx->surv_ctx) {
					nng_ctx_close(cx->ctx[best]);
				} else {
					nng_socket_close(cx->s);
				}
				break;
			case K_STREAMRECV: nng_stream_close(cx->st_a); break;
			default: break;
			}
			break;
		}
		done[best] = true;
	}
	return NULL;
}

static void *
completer_thread(void *arg)
{
	plan    *p  = arg;
	casectx *cx = p->cx;
	vf_usleep(p->complete_at_us);
	switch (cx->kind) {
	case K_PROVIDER:
		for (int round = 0; round < 3; round++) {
			for (int i = 0; i < cx->nrec; i++) {
				if (cx->rec[i].kind == K_PROVIDER && vf_chance(&p->rng, 2, 3)) prov_complete(&cx->rec[i]);
			}
			vf_usleep((int) vf_below(&p->rng, 1500));
		}
		break;
	case K_SOCKRECV:
	case K_CTXRECV:
		for (int i = 0; i < p->ncomplete; i++) {
			nng_msg *m;
			if (nng_msg_alloc(&m, 0) != 0) break;
			nng_msg_append_u32(m, (uint32_t) i);
			int rv = nng_sendmsg(cx->peer, m, 0);
			if (rv != 0) { nng_msg_free(m); break; }
			atomic_fetch_add(&cx->msgs_sent, 1);
			if (cx->kind == K_CTXRECV) {
				// REQ: must receive a reply (or time out) before next request
				nng_msg *rep = NULL;
				if (nng_recvmsg(cx->peer, &rep, 0) == 0) nng_msg_free(rep);
			}
			vf_usleep((int) vf_below(&p->rng, 800));
		}
		break;
	case K_SOCKSEND:
		for (int i = 0; i < p->ncomplete; i++) {
			nng_msg *m = NULL;
			if (nng_recvmsg(cx->peer, &m, 0) == 0) {
				sendlog_add(cx, m);
			}
			vf_usleep((int) vf_below(&p->rng, 800));
		}
		break;
	case K_PROTORECV:
		for (int i = 0; i < p->ncomplete; i++) {
			nng_msg *m;
			if (nng_msg_alloc(&m, 0) != 0) break;
			if (cx->sub == PR_XREP) nng_msg_header_append_u32(m, 0x80000000u | (uint32_t) (i + 1));
			nng_msg_append_u32(m, (uint32_t) i);
			if (nng_sendmsg(cx->peer, m, NNG_FLAG_NONBLOCK) != 0) nng_msg_free(m);
			vf_usleep((int) vf_below(&p->rng, 800));
		}
		break;
	case K_PROTOSEND:
		for (int i = 0; i < p->ncomplete; i++) {
			nng_msg *m = NULL;
			if (nng_recvmsg(cx->peer, &m, 0) == 0) nng_msg_free(m);
			vf_usleep((int) vf_below(&p->rng, 800));
		}
		break;
	case K_SURVRECV: {
		// a respondent that answers about half of the surveys it sees
		uint64_t end = vf_now_ns() + 400ULL * 1000000ULL;
		while (vf_now_ns() < end) {
			nng_msg *m = NULL;
			if (nng_recvmsg(cx->peer, &m, 0) != 0) continue;
			if (vf_chance(&p->rng, 1, 2)) {
				vf_usleep((int) vf_below(&p->rng, 3000));
				if (nng_sendmsg(cx->peer, m, 0) != 0) nng_msg_free(m);
			} else {
				nng_msg_free(m);
			}
		}
		break;
	}
	case K_REQSEND:
		// the requests wait for a connection: make one (or not)
		if (p->ncomplete > 0) {
			(void) vf_connect(cx->s, cx->peer, VF_T_INPROC);
		}
		break;
	case K_ACCEPT: {
		nng_aio *a;
		nng_aio_alloc(&a, NULL, NULL);
		nng_aio_set_timeout(a, 2000);
		for (int i = 0; i < p->ncomplete; i++) {
			nng_stream_dialer_dial(cx->sd, a);
			nng_aio_wait(a);
			if (nng_aio_result(a) == 0) {
				nng_stream *st = nng_aio_get_output(a, 0);
				nng_stream_close(st);
				nng_stream_stop(st);
				nng_stream_free(st);
			}
		}
		nng_aio_free(a);
		break;
	}
	case K_STREAMRECV: {
		nng_aio *a;
		nng_aio_alloc(&a, NULL, NULL);
		for (int i = 0; i < p->ncomplete; i++) {
			nng_iov iov = { "0123456789abcdef", 16 };
			nng_aio_set_iov(a, 1, &iov);
			nng_aio_set_timeout(a, 2000);
			nng_stream_send(cx->st_b, a);
			nng_aio_wait(a);
			vf_usleep((int) vf_below(&p->rng, 800));
		}
		nng_aio_free(a);
		break;
	}
	default:
		break;
	}
	return NULL;
}

// REP contexts: when a request arrived the context must send a reply before it
// can receive again; do that from a helper so that resubmitted receives work.
static void
rep_reply_all(casectx *cx)
{
	(void) cx;
}

static void
run_case(long idx, vf_rng *r)
{
	casectx *cx = calloc(1, sizeof(*cx));
	plan     p;
	char     url[128], durl[128];
	nng_listener l;
	int      rv;
	int      tran = vf_chance(r, 1, 3) ? VF_T_TCP : VF_T_INPROC;
	int      pert = (int) vf_below(r, 4);
	int      target = -1;
	static const int targets[] = { NNI_VP_AIO_ABORT_UNLOCKED, NNI_VP_AIO_FINISH_UNLOCKED, NNI_VP_AIO_EXPIRE_BEFORE_CANCEL, NNI_VP_AIO_EXPIRE_BETWEEN, NNI_VP_AIO_STOP_BEFORE_WAIT, NNI_VP_TASK_BEFORE_CB, NNI_VP_TASK_BEFORE_ENQUEUE, NNI_VP_AIO_START, NNI_VP_TASK_AFTER_CB, NNI_VP_AIO_EXPIRE_BEFORE_CANCEL, NNI_VP_AIO_EXPIRE_BETWEEN, NNI_VP_AIO_EXPIRE_BEFORE_CANCEL, NNI_VP_AIO_EXPIRE_BETWEEN };

	memset(&p, 0, sizeof(p));
	p.cx = cx;
	vf_rng_seed(&p.rng, vf_rand(r), 7);
	cx->kind = (int) vf_below(r, K_NKINDS);
	if (!strcmp(vf_mode, "provider")) cx->kind = vf_chance(r, 3, 4) ? K_PROVIDER : K_SLEEP;
	cx->nrec = (int) vf_range(r, 1, cx->kind == K_PROVIDER || cx->kind == K_SLEEP ? 6 : 3);
	if (cx->kind == K_SOCKRECV || cx->kind == K_DIAL || cx->kind == K_ACCEPT) cx->nrec = (int) vf_range(r, 1, 2);
	if (cx->kind == K_SOCKSEND) cx->nrec = (int) vf_range(r, 1, 4);
	if (cx->kind == K_DIAL || cx->kind == K_STREAMRECV) cx->nrec = 1;
	if (cx->kind == K_PROTORECV || cx->kind == K_PROTOSEND) cx->nrec = (int) vf_range(r, 1, 3);
	if (cx->kind == K_REQSEND) cx->nrec = (int) vf_range(r, 1, 4);
	if (cx->kind == K_STREAMDIAL) cx->nrec = (int) vf_range(r, 1, 3);
	if (cx->kind == K_SURVRECV) cx->nrec = (int) vf_range(r, 1, 3);

	vf_pt_off();
	if (pert == 1) vf_pt_jitter(vf_rand(r), (int) vf_range(r, 5, 60), (int) vf_range(r, 20, 300));
	else if (pert >= 2) {
		target = targets[vf_below(r, sizeof(targets) / sizeof(targets[0]))];
		vf_pt_jitter(vf_rand(r), 5, 50);
		vf_pt_target(target, (int) vf_range(r, 300, 1000), 200, (int) vf_range(r, 500, 4000));
	}
	int base_ms = (int) vf_range(r, 2, 25); // nominal instant around which things race
	vf_case_begin(idx, "kind=%s n=%d tran=%s pert=%s base=%dms", kind_names[cx->kind], cx->nrec, vf_tran_names[tran], pert == 0 ? "none" : pert == 1 ? "jitter" : vf_pt_name(target), base_ms);
	(void) pr_names;
	(void) ps_names;

	// set-up
	switch (cx->kind) {
	case K_SOCKRECV:
		if (nng_pair1_open(&cx->s) || nng_pair1_open(&cx->peer)) vf_harness_fail("open");
		nng_socket_set_int(cx->s, NNG_OPT_RECVBUF, 8);
		nng_socket_set_int(cx->peer, NNG_OPT_SENDBUF, 8);
		nng_socket_set_ms(cx->peer, NNG_OPT_SENDTIMEO, 3000);
		if ((rv = vf_connect(cx->s, cx->peer, tran)) != 0) vf_harness_fail("connect: %s", nng_strerror(rv));
		break;
	case K_SOCKSEND:
		if (nng_pair1_open(&cx->s) || nng_pair1_open(&cx->peer)) vf_harness_fail("open");
		nng_socket_set_int(cx->s, NNG_OPT_SENDBUF, (int) vf_below(r, 3));
		nng_socket_set_int(cx->peer, NNG_OPT_RECVBUF, (int) vf_below(r, 3));
		nng_socket_set_ms(cx->peer, NNG_OPT_RECVTIMEO, 30);
		if ((rv = vf_connect(cx->s, cx->peer, tran)) != 0) vf_harness_fail("connect: %s", nng_strerror(rv));
		break;
	case K_CTXRECV:
		if (nng_rep0_open(&cx->s) || nng_req0_open(&cx->peer)) vf_harness_fail("open");
		nng_socket_set_ms(cx->peer, NNG_OPT_SENDTIMEO, 3000);
		nng_socket_set_ms(cx->peer, NNG_OPT_RECVTIMEO, 30);
		nng_socket_set_ms(cx->peer, NNG_OPT_REQ_RESENDTIME, 60000);
		if ((rv = vf_connect(cx->s, cx->peer, tran)) != 0) vf_harness_fail("connect: %s", nng_strerror(rv));
		for (int i = 0; i < cx->nrec; i++) nng_ctx_open(&cx->ctx[i], cx->s);
		break;
	case K_PROTORECV: {
		int orv = 0;
		cx->sub = (int) vf_below(r, PR_N);
		switch (cx->sub) {
		case PR_PULL: orv = nng_pull0_open(&cx->s) || nng_push0_open(&cx->peer); break;
		case PR_SUB: orv = nng_sub0_open(&cx->s) || nng_pub0_open(&cx->peer); break;
		case PR_BUS: orv = nng_bus0_open(&cx->s) || nng_bus0_open(&cx->peer); break;
		case PR_PAIR0: orv = nng_pair0_open(&cx->s) || nng_pair0_open(&cx->peer); break;
		case PR_XREP: orv = nng_rep0_open_raw(&cx->s) || nng_req0_open_raw(&cx->peer); break;
		}
		if (orv) vf_harness_fail("open");
		if (cx->sub == PR_SUB) nng_sub0_socket_subscribe(cx->s, "", 0);
		if ((rv = vf_connect(cx->s, cx->peer, tran)) != 0) vf_harness_fail("connect: %s", nng_strerror(rv));
		break;
	}
	case K_PROTOSEND: {
		int orv = 0;
		cx->sub = (int) vf_below(r, PS_N);
		switch (cx->sub) {
		case PS_PUSH: orv = nng_push0_open(&cx->s) || nng_pull0_open(&cx->peer); break;
		case PS_PAIR0: orv = nng_pair0_open(&cx->s) || nng_pair0_open(&cx->peer); break;
		case PS_XREQ: orv = nng_req0_open_raw(&cx->s) || nng_rep0_open_raw(&cx->peer); break;
		}
		if (orv) vf_harness_fail("open");
		nng_socket_set_int(cx->s, NNG_OPT_SENDBUF, (int) vf_below(r, 2));
		nng_socket_set_int(cx->peer, NNG_OPT_RECVBUF, (int) vf_below(r, 2));
		nng_socket_set_ms(cx->peer, NNG_OPT_RECVTIMEO, 30);
		// sometimes there is no connection at all: every send waits
		if (vf_chance(r, 3, 4) && (rv = vf_connect(cx->s, cx->peer, tran)) != 0) vf_harness_fail("connect: %s", nng_strerror(rv));
		break;
	}
	case K_SURVRECV:
		if (nng_surveyor0_open(&cx->s) || nng_respondent0_open(&cx->peer)) vf_harness_fail("open");
		cx->survey_ms = (int) vf_range(r, 30, 150);
		cx->surv_ctx  = vf_chance(r, 2, 3);
		cx->key_surv  = vf_rand(r);
		nng_socket_set_ms(cx->s, NNG_OPT_SURVEYOR_SURVEYTIME, cx->survey_ms);
		nng_socket_set_ms(cx->peer, NNG_OPT_RECVTIMEO, 20);
		nng_socket_set_ms(cx->peer, NNG_OPT_SENDTIMEO, 100);
		if ((rv = vf_connect(cx->s, cx->peer, tran)) != 0) vf_harness_fail("connect: %s", nng_strerror(rv));
		if (!cx->surv_ctx) cx->nrec = 1;
		for (int i = 0; cx->surv_ctx && i < cx->nrec; i++) nng_ctx_open(&cx->ctx[i], cx->s);
		break;
	case K_REQSEND:
		if (nng_req0_open(&cx->s) || nng_rep0_open(&cx->peer)) vf_harness_fail("open");
		for (int i = 0; i < cx->nrec; i++) nng_ctx_open(&cx->ctx[i], cx->s);
		break;
	case K_DIAL: {
		if (nng_pair1_open(&cx->s)) vf_harness_fail("open");
		bool reachable = vf_chance(r, 1, 2);
		if (reachable) {
			if (nng_pair1_open(&cx->peer)) vf_harness_fail("open");
			vf_url(tran, url, sizeof(url));
			if ((rv = nng_listen(cx->peer, url, &l, 0)) != 0) vf_harness_fail("listen %s", nng_strerror(rv));
			vf_dial_url(l, tran, url, durl, sizeof(durl));
		} else if (vf_chance(r, 1, 2)) {
			vf_url(VF_T_INPROC, durl, sizeof(durl)); // nobody listens
		} else {
			// a tcp port that refuses: bind, read the port, close
			nng_socket   tmp;
			nng_listener tl;
			int          port = 1;
			if (nng_pair1_open(&tmp) == 0) {
				if (nng_listen(tmp, "tcp://127.0.0.1:0", &tl, 0) == 0) nng_listener_get_int(tl, NNG_OPT_BOUND_PORT, &port);
				nng_socket_close(tmp);
			}
			snprintf(durl, sizeof(durl), "tcp://127.0.0.1:%d", port);
		}
		if ((rv = nng_dialer_create(&cx->dialer, cx->s, durl)) != 0) vf_harness_fail("dialer_create %s", nng_strerror(rv));
		break;
	}
	case K_STREAMDIAL:
	case K_ACCEPT:
	case K_STREAMRECV: {
		int port = 0;
		const char *lurl = (cx->kind == K_STREAMDIAL && vf_chance(r, 1, 3)) ? "ipc:///tmp/vf-c02-sd" : "tcp://127.0.0.1:0";
		char lbuf[96];
		if (lurl[0] == 'i') {
			snprintf(lbuf, sizeof(lbuf), "ipc:///tmp/vf-c02-%d-%ld", (int) getpid(), idx);
			lurl = lbuf;
		}
		if ((rv = nng_stream_listener_alloc(&cx->sl, lurl)) != 0 || (rv = nng_stream_listener_listen(cx->sl)) != 0) vf_harness_fail("stream listen %s", nng_strerror(rv));
		if (lurl[0] == 'i') {
			snprintf(durl, sizeof(durl), "%s", lurl);
		} else {
			nng_stream_listener_get_int(cx->sl, NNG_OPT_BOUND_PORT, &port);
			// ("localhost" goes through the resolver thread)
			snprintf(durl, sizeof(durl), "tcp://%s:%d", cx->kind == K_STREAMDIAL && vf_chance(r, 1, 2) ? "localhost" : "127.0.0.1", port);
		}
		if (cx->kind == K_STREAMDIAL && vf_chance(r, 1, 4)) {
			// nobody listens any more: the dial is refused
			nng_stream_listener_close(cx->sl);
			nng_stream_listener_stop(cx->sl);
			nng_stream_listener_free(cx->sl);
			cx->sl = NULL;
		}
		if ((rv = nng_stream_dialer_alloc(&cx->sd, durl)) != 0) vf_harness_fail("stream dialer %s", nng_strerror(rv));
		if (cx->kind == K_STREAMRECV) {
			nng_aio *a1, *a2;
			nng_aio_alloc(&a1, NULL, NULL);
			nng_aio_alloc(&a2, NULL, NULL);
			nng_aio_set_timeout(a1, 5000);
			nng_aio_set_timeout(a2, 5000);
			nng_stream_listener_accept(cx->sl, a1);
			nng_stream_dialer_dial(cx->sd, a2);
			nng_aio_wait(a1);
			nng_aio_wait(a2);
			if (nng_aio_result(a1) || nng_aio_result(a2)) vf_harness_fail("stream connect");
			cx->st_a = nng_aio_get_output(a1, 0);
			cx->st_b = nng_aio_get_output(a2, 0);
			nng_aio_free(a1);
			nng_aio_free(a2);
		}
		break;
	}
	default:
		break;
	}

	// records and plans
	int batch_timeout = base_ms; // equal deadlines form expiry batches
	bool mixed_batch = (cx->kind == K_PROVIDER) && cx->nrec >= 2 && vf_chance(r, 1, 2);
	if (mixed_batch && vf_chance(r, 2, 3)) {
		// hold a canceller between "cancel function swapped out" and the
		// call of that function while the expire loop works through the batch
		vf_pt_off();
		vf_pt_jitter(vf_rand(r), 5, 50);
		target = NNI_VP_AIO_ABORT_UNLOCKED;
		pert   = 2;
		vf_pt_target(target, 1000, 800, (int) vf_range(r, 1500, 5000));
	}
	for (int i = 0; i < cx->nrec; i++) {
		arec *a = &cx->rec[i];
		a->kind = cx->kind;
		if (mixed_batch) {
			// one expiry batch holding provider operations (whose cancel
			// functions take a while) AND sleeps with the same deadline
			a->kind = (i & 1) ? K_SLEEP : K_PROVIDER;
		}
		a->idx  = i;
		a->cx   = cx;
		if (nng_aio_alloc(&a->aio, cb, a) != 0) vf_harness_fail("aio alloc");
		int tsel = (int) vf_below(r, 6);
		if ((target == NNI_VP_AIO_EXPIRE_BEFORE_CANCEL || target == NNI_VP_AIO_EXPIRE_BETWEEN) && tsel < 2) tsel = 2; // make the expiry happen
		int tmo  = tsel == 0 ? -1 : tsel == 1 ? 0 : tsel <= 3 ? batch_timeout : (int) vf_range(r, 1, 40);
		atomic_store(&a->timeout_ms, tmo);
		atomic_store(&a->sleep_ms, vf_chance(r, 1, 2) ? base_ms : (int) vf_range(r, 0, 40));
		a->resubmits_left   = vf_chance(r, 1, 2) ? (int) vf_below(r, 4) : 0;
		a->resubmit_timeout = vf_chance(r, 1, 2) ? 10000 : (int) vf_range(r, 1, 30);
		a->cancel_delay_us  = vf_chance(r, 1, 3) ? (int) vf_range(r, 100, 3000) : 0;
		a->dwell_us         = vf_chance(r, 1, 2) ? (int) vf_range(r, 50, 500) : 0;
		a->tmo_once         = vf_chance(r, 1, 3);
		if (cx->kind == K_SURVRECV) {
			// several receives per aio, some late in a survey (clamped to its
			// deadline), some right after a new one; long own timeout half the time
			a->resubmits_left = (int) vf_range(r, 2, 6);
			a->tmo_once       = vf_chance(r, 2, 3);
			if (vf_chance(r, 1, 2)) atomic_store(&a->timeout_ms, 5000);
			a->resubmit_timeout = atomic_load(&a->timeout_ms) < 0 ? 5000 : atomic_load(&a->timeout_ms);
			if (vf_chance(r, 1, 2)) a->dwell_us = (int) vf_range(r, 10000, cx->survey_ms * 900); // post the next receive late in the survey
		}
		if (mixed_batch) {
			// same deadline for everybody; providers cancel slowly; the sleeps
			// are cancelled / stopped right around the deadline
			atomic_store(&a->timeout_ms, a->kind == K_PROVIDER ? batch_timeout : -1);
			atomic_store(&a->sleep_ms, batch_timeout);
			a->cancel_delay_us = a->kind == K_PROVIDER ? (int) vf_range(r, 300, 3000) : 0;
		}
		p.act[i]            = (int) vf_below(r, A_NACTS);
		if (p.act[i] == A_CLOSE && (cx->kind == K_SLEEP || cx->kind == K_PROVIDER)) p.act[i] = A_CANCEL;
		if (p.act[i] == A_FREE && cx->kind == K_SOCKSEND) p.act[i] = A_STOP; // (its conservation table reads the record later)
		if (p.act[i] == A_FREE) a->resubmits_left = 0; // an application does not re-arm an aio it is freeing
		// around the nominal instant (or at once / pre-start)
		int asel = (int) vf_below(r, 5);
		p.act_at_us[i] = asel == 0 ? 0 : asel == 1 ? (int) vf_below(r, 300) : (int) (base_ms * 1000 + (int) vf_below(r, 3000) - 1500);
		if (p.act_at_us[i] < 0) p.act_at_us[i] = 0;
		if (mixed_batch && a->kind == K_SLEEP) {
			p.act[i]       = vf_chance(r, 2, 3) ? A_CANCEL : A_STOP;
			p.act_at_us[i] = base_ms * 1000 + (int) vf_below(r, 2500);
		}
		if (tmo < 0 && (p.act[i] == A_NONE) && cx->kind != K_SLEEP && cx->kind != K_DIAL) {
			// nothing would end it: give it a timeout (the harness cancels at the end anyway)
			atomic_store(&a->timeout_ms, (int) vf_range(r, 5, 60));
		}
	}
	p.complete_at_us = base_ms * 1000 + (int) vf_below(r, 2000) - 1000;
	if (p.complete_at_us < 0) p.complete_at_us = 0;
	p.ncomplete = (int) vf_range(r, 0, 4);

	// pre-start abort for some
	for (int i = 0; i < cx->nrec; i++) {
		if (p.act[i] == A_ABORT && p.act_at_us[i] == 0 && vf_chance(r, 1, 2)) {
			atomic_store(&cx->rec[i].abort_issued, 1);
			nng_aio_abort(cx->rec[i].aio, ABORT_CODE);
			p.act[i] = A_NONE;
		}
	}
	pthread_t ta, tc;
	atomic_store(&cur_cx, cx);
	pthread_create(&tc, NULL, completer_thread, &p);
	for (int i = 0; i < cx->nrec; i++) submit(&cx->rec[i], false);
	pthread_create(&ta, NULL, actor_thread, &p);
	pthread_join(ta, NULL);
	pthread_join(tc, NULL);

	// let natural completions / timeouts play out briefly, then end everything
	vf_msleep(base_ms + 5);
	for (int i = 0; i < cx->nrec; i++) {
		arec *a = &cx->rec[i];
		a->resubmits_left = 0;
		if (atomic_load(&a->freed)) continue;
		atomic_store(&a->cancel_issued, 1);
		nng_aio_cancel(a->aio);
	}
	if (cx->kind == K_PROVIDER) {
		// a provider that was cancelled has finished; nothing else to do
	}
	for (int i = 0; i < cx->nrec; i++) {
		arec *a = &cx->rec[i];
		if (atomic_load(&a->freed)) continue;
		// everything was cancelled: an operation that is still busy after
		// 15 s of run time will never complete (its callback is lost);
		// say so instead of hanging in nng_aio_wait
		for (int k = 0; nng_aio_busy(a->aio); k++) {
			if (k >= 15000) {
				char key[96];
				snprintf(key, sizeof(key), "C02/lost-completion/%s/never-completes", kind_names[a->kind]);
				vf_violation(key, "%s: operation still pending 15 s after nng_aio_cancel (submissions %d, callbacks %d); its completion is lost", kind_names[a->kind], atomic_load(&a->n_submit), atomic_load(&a->n_cb));
				int code = vf_finish();
				_exit(code != 0 ? code : 1); // cannot wait for / free this aio
			}
			if ((k % 100) == 99) nng_aio_cancel(a->aio);
			vf_msleep(1);
		}
		nng_aio_wait(a->aio);
		check_not_running(a, "wait");
		// a callback may have resubmitted between cancel and wait
		for (int k = 0; k < 50 && nng_aio_busy(a->aio); k++) {
			nng_aio_cancel(a->aio);
			nng_aio_wait(a->aio);
		}
		atomic_store(&a->stop_issued, 1);
		nng_aio_stop(a->aio);
		atomic_store(&a->stop_returned, 1);
		check_not_running(a, "stop");
	}
	// exactly once: every submission had its callback
	for (int i = 0; i < cx->nrec; i++) {
		arec *a = &cx->rec[i];
		int   ns = atomic_load(&a->n_submit), nc = atomic_load(&a->n_cb);
		if (nc != ns) {
			char key[96];
			snprintf(key, sizeof(key), "C02/%s/%s", nc < ns ? "lost-completion" : "double-completion", kind_names[a->kind]);
			vf_violation(key, "%s: %d submissions but %d callbacks after nng_aio_stop", kind_names[a->kind], ns, nc);
		}
		vf_stat("operations", ns);
	}
	// conservation for socket receives (pair1 is lossless): sent == received
	// ok + still queued
	if (cx->kind == K_SOCKRECV && !atomic_load(&cx->rec[0].close_issued)) {
		int queued = 0;
		nng_msg *m;
		vf_quiesce(1, 500);
		nng_socket_set_ms(cx->s, NNG_OPT_RECVTIMEO, 100);
		while (nng_recvmsg(cx->s, &m, 0) == 0) {
			nng_msg_free(m);
			queued++;
		}
		int sent = atomic_load(&cx->msgs_sent), ok = atomic_load(&cx->msgs_recv_ok);
		if (sent != ok + queued) {
			vf_violation("C02/recv-conservation", "pair1: peer sent %d, receives that completed with 0: %d, drained afterwards: %d (a failed receive consumed a message, or one was duplicated)", sent, ok, queued);
		}
		vf_stat("conservation_checked", 1);
	}
	atomic_store(&cur_cx, NULL);
	// conservation for sends (pair1 is lossless): a send that completed with 0
	// is received exactly once, a send that failed is never received
	if (cx->kind == K_SOCKSEND && !atomic_load(&cx->rec[0].close_issued)) {
		nng_msg *m;
		vf_quiesce(1, 500);
		nng_socket_set_ms(cx->peer, NNG_OPT_RECVTIMEO, 100);
		while (nng_recvmsg(cx->peer, &m, 0) == 0) sendlog_add(cx, m);
		for (int i = 0; i < cx->nrec; i++) {
			int ns = atomic_load(&cx->rec[i].n_submit);
			for (int q = 0; q < ns && q < 40; q++) {
				int st = cx->rec[i].send_rv[q], got = cx->got[i][q];
				if (st == 1 && got != 1) {
					char tl[400];
					size_t tn = 0;
					tl[0] = 0;
					for (int z = 0; z < cx->nrec; z++) {
						tn += (size_t) snprintf(tl + tn, sizeof(tl) - tn, " aio%d[act=%s@%dus subs=%d:", z, act_names[p.act[z]], p.act_at_us[z], atomic_load(&cx->rec[z].n_submit));
						for (int y = 0; y < atomic_load(&cx->rec[z].n_submit) && y < 12 && tn + 8 < sizeof(tl); y++) tn += (size_t) snprintf(tl + tn, sizeof(tl) - tn, "%d/%d,", cx->rec[z].send_rv[y], cx->got[z][y]);
						if (tn + 2 < sizeof(tl)) tn += (size_t) snprintf(tl + tn, sizeof(tl) - tn, "]");
					}
					vf_violation(got == 0 ? "C02/send-ok-but-lost" : "C02/send-duplicated", "pair1 send #%d of aio %d completed with 0 but the peer received it %d times; per aio: action, submissions, then result(1 ok,2 failed)/times-received per submission:%s", q, i, got, tl);
				} else if (st == 2 && got != 0) {
					vf_violation("C02/send-failed-but-delivered", "pair1 send #%d of aio %d completed with an error but the peer received the message %d time(s)", q, i, got);
				}
			}
		}
		vf_stat("send_conservation_checked", 1);
	}
	for (int i = 0; i < cx->nrec; i++) {
		arec *a = &cx->rec[i];
		if (!atomic_load(&a->freed)) {
			nng_aio_free(a->aio);
			atomic_store(&a->freed, 1);
		}
		for (int k = 0; k < 7; k++) {
			if (atomic_load(&a->results[k])) vf_class("%s/act=%s/outcome-slot%d/pert=%s", kind_names[a->kind], act_names[p.act[i]], k, pert == 0 ? "none" : pert == 1 ? "jitter" : vf_pt_name(target));
		}
	}
	// tear down
	switch (cx->kind) {
	case K_SOCKRECV:
	case K_SOCKSEND:
	case K_PROTORECV:
	case K_PROTOSEND:
		nng_socket_close(cx->s);
		nng_socket_close(cx->peer);
		break;
	case K_SURVRECV:
		for (int i = 0; cx->surv_ctx && i < cx->nrec; i++) nng_ctx_close(cx->ctx[i]);
		nng_socket_close(cx->s);
		nng_socket_close(cx->peer);
		break;
	case K_REQSEND:
	case K_CTXRECV:
		for (int i = 0; i < cx->nrec; i++) nng_ctx_close(cx->ctx[i]);
		nng_socket_close(cx->s);
		nng_socket_close(cx->peer);
		break;
	case K_DIAL:
		nng_socket_close(cx->s);
		if (nng_socket_id(cx->peer) > 0) nng_socket_close(cx->peer);
		break;
	case K_STREAMDIAL:
	case K_ACCEPT:
	case K_STREAMRECV:
		for (int i = 0; i < atomic_load(&cx->naccepted) && i < 64; i++) {
			if (cx->accepted[i]) { nng_stream_close(cx->accepted[i]); nng_stream_stop(cx->accepted[i]); nng_stream_free(cx->accepted[i]); }
		}
		if (cx->st_a) { nng_stream_close(cx->st_a); nng_stream_stop(cx->st_a); nng_stream_free(cx->st_a); }
		if (cx->st_b) { nng_stream_close(cx->st_b); nng_stream_stop(cx->st_b); nng_stream_free(cx->st_b); }
		nng_stream_dialer_close(cx->sd);
		nng_stream_dialer_stop(cx->sd);
		nng_stream_dialer_free(cx->sd);
		if (cx->sl != NULL) {
			nng_stream_listener_close(cx->sl);
			nng_stream_listener_stop(cx->sl);
			nng_stream_listener_free(cx->sl);
		}
		break;
	default:
		break;
	}
	vf_pt_off();
	// late callbacks would touch freed records: give them a moment, then the
	// 'freed' flag check in cb reports them (records are intentionally leaked
	// for a while: freed at the end of the next case)
	static casectx *prev;
	if (prev) free(prev);
	prev = cx;
	vf_stat("cases", 1);
	if ((idx & 15) == 0) vf_sample("{\"kind\":\"%s\",\"aios\":%d,\"pert\":\"%s\",\"act0\":\"%s@%dus\",\"timeout0\":%d,\"base_ms\":%d}", kind_names[cx->kind], cx->nrec, pert == 0 ? "none" : pert == 1 ? "jitter" : vf_pt_name(target), act_names[p.act[0]], p.act_at_us[0], atomic_load(&cx->rec[0].timeout_ms), base_ms);
	vf_watchdog(60);
	(void) rep_reply_all;
}

int
main(int argc, char **argv)
{
	vf_init(argc, argv);
	vf_ev_hook(ev_hook);
	vf_rng r;
	static const int shapes[][3] = { { 2, 1, 1 }, { 16, 8, 4 }, { 4, 2, 2 }, { 2, 1, 1 } };
	int inited = 0;
	for (long i = 0; i < vf_cases; i++) {
		if (!vf_want_case(i)) continue;
		if (!inited || (i % 40) == 0) {
			if (inited) vf_nng_fini("C02");
			const int *sh = shapes[(vf_mix64(vf_seed + (uint64_t) (i / 40)) >> 8) % 4];
			vf_nng_init(sh[0], sh[1], sh[2]);
			vf_class("pool-shape/%d-%d-%d", sh[0], sh[1], sh[2]);
			inited = 1;
		}
		vf_rng_seed(&r, vf_seed, (uint64_t) i);
		case_no = i;
		run_case(i, &r);
	}
	for (int s = 0; s < NNI_VP_NSITES; s++) {
		if (vf_pt_delays(s)) {
			char k[64];
			snprintf(k, sizeof(k), "delays@%s", vf_pt_name(s));
			vf_stat(k, vf_pt_delays(s));
		}
	}
	vf_stat("hook_aio_begin", vf_ev_count(NNI_VE_AIO_BEGIN));
	vf_stat("hook_aio_refused", vf_ev_count(NNI_VE_AIO_REFUSED));
	vf_stat("hook_aio_finish", vf_ev_count(NNI_VE_AIO_FINISH));
	vf_stat("hook_aio_expire", vf_ev_count(NNI_VE_AIO_EXPIRE));
	if (inited) vf_nng_fini("C02");
	return vf_finish();
}
