// C02: every asynchronous operation completes exactly once.
// Layer 1 (here): every user aio is wrapped in a record; the callback checks
// no overlap, callbacks <= submissions, result-code legitimacy (ETIMEDOUT never
// early, ECANCELED/abort code only if issued, ESTOPPED only after stop/close),
// no callback after nng_aio_stop/free returned; at the end of a case every
// submission has had exactly one callback; for message receives conservation
// (a receive that reports an error must not have consumed a message).
// Layer 2: the guarded shadow state in core/aio.c (nni_verif_fail) covers the
// library's internal aios.  Perturbation: seeded jitter or one targeted site.
// Variants per aio: nng_aio_skip_callback before every submission (exactly one
// of {flag set, callback}), no callback at all (nng_aio_wait + the library's
// completion events), timeout left to the owner (NNG_DURATION_DEFAULT + send /
// receive timeout option, raised between submissions), nng_aio_set_expire, a
// second terminating action from another thread, re-submission while
// nng_aio_stop is in progress, one submission after nng_aio_stop returned.
// Mode "grid": enumerated scenarios around one expiry batch (run_grid_case).
#define _GNU_SOURCE
#include "vfh.h"
#include <pthread.h>
#include <sched.h>
#include <stdatomic.h>
#include <unistd.h>

enum { K_SLEEP, K_PROVIDER, K_SOCKRECV, K_CTXRECV, K_DIAL, K_ACCEPT, K_STREAMRECV, K_SOCKSEND, K_PROTORECV, K_PROTOSEND, K_REQSEND, K_STREAMDIAL, K_SURVRECV, K_REQRECV, K_STREAMSEND, K_DEVICE, K_NKINDS };
static const char *kind_names[] = { "sleep", "provider", "sock-recv", "ctx-recv", "dial-aio", "stream-accept", "stream-recv", "sock-send", "proto-recv", "proto-send", "req-ctx-send", "stream-dial", "surveyor-recv", "req-ctx-recv", "stream-send", "device" };

// K_PROTORECV / K_PROTOSEND: the receive / send path (and cancel function) of
// further protocols; conservation is demanded of pull, pair0 and push (the
// others are lossy or fan out)
enum { PR_PULL, PR_SUB, PR_BUS, PR_PAIR0, PR_XREP, PR_N };
static const char *pr_names[] = { "pull", "sub", "bus", "pair0", "xrep" };
enum { PS_PUSH, PS_PAIR0, PS_XREQ, PS_N };
static const char *ps_names[] = { "push", "pair0", "xreq" };

enum { A_NONE, A_CANCEL, A_ABORT, A_STOP, A_CLOSE, A_FREE, A_NACTS, A_SUPERSEDE };
static const char *act_names[] = { "none", "cancel", "abort", "stop", "close", "free", "?", "supersede" };

#define ABORT_CODE NNG_EPERM
#define SKIPN 48

typedef struct arec {
	nng_aio        *aio;
	int             kind;
	int             idx;
	_Atomic int     n_submit, n_cb, in_cb, in_inline;
	_Atomic int     cancel_issued, abort_issued, stop_issued, close_issued;
	_Atomic int     stop_returned, freed, free_issued;
	_Atomic uint64_t t_submit;   // ns
	_Atomic int     timeout_ms;  // aio timeout of the current submission, -1 none
	_Atomic int     sleep_ms;    // for K_SLEEP: requested duration of current submission
	int             resubmits_left;
	int             resubmit_timeout; // ms for resubmissions
	// provider state (under prov_mtx)
	bool            prov_owned;
	int             prov_final;      // result the provider passed to finish
	int             prov_have_final;
	int             cancel_delay_us;
	_Atomic uint64_t t_expire_pick; // last time the expire loop picked this aio (hook)
	int             dwell_us;       // time the callback spends inside (widens "still running" windows)
	bool            tmo_once;       // the aio's timeout is set once, at creation; resubmissions reuse it
	_Atomic uint64_t surv_deadline; // K_SURVRECV: when the survey this receive belongs to expires (ns)
	// cancel / abort calls: begun and returned; *_floor = calls that had already
	// returned when the current submission began (those cannot legitimately
	// end it: every public entry point resets the pre-start latch)
	_Atomic int     cancels_begun, cancels_done, cancel_floor;
	_Atomic int     aborts_begun, aborts_done, abort_floor;
	_Atomic uint64_t t_prev_tmo_cb; // start of the previous callback of this aio that saw NNG_ETIMEDOUT
	_Atomic uint64_t t_last_begin;  // hook: last start (begun or refused) of an operation on this aio
	_Atomic uint64_t t_pick1, t_begin2; // hook: first pick by the expire loop, second start
	_Atomic int     ev_begin, ev_finish, ev_refused, ev_expire, ev_starts; // hook events seen for this aio
	_Atomic uint64_t gate_until;    // provider: its cancel function returns only once nng_clock() is past this
	_Atomic int     post_stop;      // the submission after nng_aio_stop returned is in progress
	bool            prestart_abort; // nng_aio_abort was called before the first submission
	// variants
	bool            skipv;          // nng_aio_skip_callback before every submission
	bool            nocb;           // aio without callback: a waiter thread uses nng_aio_wait
	bool            resub_in_stop;  // the callback re-submits also while nng_aio_stop is in progress
	bool            dflt;           // NNG_DURATION_DEFAULT: the owner's send/receive timeout option applies
	bool            use_expire;     // nng_aio_set_expire instead of nng_aio_set_timeout
	bool            prov_sync;      // provider: some operations complete synchronously (finish without start)
	volatile bool   skipflag[SKIPN]; // one flag per submission (a late write shows)
	bool            skip_taken[SKIPN];
	_Atomic int     n_started;      // submissions whose library call has returned
	_Atomic int     waiter_quit;
	pthread_t       waiter;
	size_t          rx_off;         // K_STREAMRECV: stream offset the next received byte must have
	// K_SOCKSEND: result of every submission (index = submission number)
	int             send_rv[40];
	_Atomic int     send_seq; // submission number of the message now attached
	// outcome accounting
	_Atomic int     results[8];
	struct casectx *cx;
} arec;

typedef struct casectx {
	int         kind;
	int         sub; // protocol of K_PROTORECV / K_PROTOSEND
	int         survey_ms; // K_SURVRECV
	uint64_t    key_surv;
	bool        surv_ctx;  // K_SURVRECV: contexts (else the socket, one record)
	nng_socket  s, peer;
	nng_ctx     ctx[8];
	nng_dialer  dialer;
	nng_stream_listener *sl;
	nng_stream_dialer   *sd;
	nng_stream *st_a, *st_b;
	int         nrec;
	arec        rec[8];
	_Atomic int msgs_sent, msgs_recv_ok;
	uint8_t     got[8][40]; // K_SOCKSEND: times (record, submission) was received by the peer
	nng_stream *accepted[64];
	_Atomic int naccepted;
	uint8_t     rbuf[8][64];
	bool        connected;        // the two sockets have a pipe (or will get one from the completer)
	_Atomic int opt_ms[8];        // NNG_DURATION_DEFAULT: lower bound of the owner's timeout option now
	int         opt_T2;           // ... raised to this before a re-submission
	_Atomic int opt_raised[8];
	uint8_t     sent_tag[64];     // proto-recv / ctx-recv conservation: tag accepted by the sending peer
	uint8_t     recv_tag[64];     // ... times it was received
	_Atomic long stream_sent;     // K_STREAMRECV: bytes the peer wrote
	_Atomic long stream_recv_ok;  // ... bytes delivered by receives that completed with 0
	_Atomic int stream_unknown;   // ... a write failed: how much of it went out is not known
	nng_socket  dev1, dev2;       // K_DEVICE: the raw sockets the device joins
	nng_socket  dpeer1, dpeer2;   // ... and their peers
	nng_stream_dialer *isd;       // K_STREAMSEND over ipc
} casectx;

static pthread_mutex_t prov_mtx = PTHREAD_MUTEX_INITIALIZER;
static pthread_mutex_t sendlog_mtx = PTHREAD_MUTEX_INITIALIZER;

static void sendlog_add(struct casectx *cx, nng_msg *m);
static casectx *_Atomic cur_cx;

// hook: remember when the expire loop picked one of our aios (its deadline had
// passed at that moment; the event is emitted under the queue lock right
// before the loop drops it and calls the cancel function).  Used only to name
// the window an early timeout came through, not to decide whether it is a
// violation.  Also counts the start / finish events of each of our aios.
static _Atomic uint64_t grid_anchor;     // grid mode: when the loop picked P
static const void *_Atomic grid_anchor_aio;
static void
ev_hook(int ev, const void *obj, uintptr_t a, uintptr_t b)
{
	(void) b;
	if (ev != NNI_VE_AIO_EXPIRE && ev != NNI_VE_AIO_BEGIN && ev != NNI_VE_AIO_REFUSED && ev != NNI_VE_AIO_FINISH) return;
	casectx *cx = atomic_load(&cur_cx);
	if (cx == NULL) return;
	for (int i = 0; i < cx->nrec; i++) {
		arec *r = &cx->rec[i];
		if ((const void *) r->aio != obj) continue;
		switch (ev) {
		case NNI_VE_AIO_EXPIRE:
			(void) a;
			atomic_store(&r->t_expire_pick, vf_now_ns());
			if (atomic_fetch_add(&r->ev_expire, 1) == 0) atomic_store(&r->t_pick1, vf_now_ns());
			if (obj == atomic_load(&grid_anchor_aio) && atomic_load(&grid_anchor) == 0) atomic_store(&grid_anchor, vf_now_ns());
			break;
		case NNI_VE_AIO_BEGIN:
		case NNI_VE_AIO_REFUSED:
			atomic_store(&r->t_last_begin, vf_now_ns());
			if (atomic_fetch_add(&r->ev_starts, 1) == 1) atomic_store(&r->t_begin2, vf_now_ns());
			atomic_fetch_add(ev == NNI_VE_AIO_BEGIN ? &r->ev_begin : &r->ev_refused, 1);
			break;
		case NNI_VE_AIO_FINISH:
			atomic_fetch_add(&r->ev_finish, 1);
			break;
		}
	}
}
static long            case_no;

static void
sendlog_add(casectx *cx, nng_msg *m)
{
	uint32_t a = 99, b = 99;
	if (nng_msg_len(m) >= 8) {
		nng_msg_trim_u32(m, &a);
		nng_msg_trim_u32(m, &b);
	}
	pthread_mutex_lock(&sendlog_mtx);
	if (a < 8 && b < 40 && cx->got[a][b] < 200) cx->got[a][b]++;
	pthread_mutex_unlock(&sendlog_mtx);
	nng_msg_free(m);
}

// K_PROTOSEND / K_REQSEND messages carry (0x80000000 | record, submission number from 1)
static void
protolog_add(casectx *cx, nng_msg *m)
{
	uint32_t a = 0, b = 0;
	if (nng_msg_len(m) >= 8) {
		nng_msg_trim_u32(m, &a);
		nng_msg_trim_u32(m, &b);
	}
	pthread_mutex_lock(&sendlog_mtx);
	if ((a & 0x80000000u) && (a & 0xff) < 8 && b >= 1 && b <= 40 && cx->got[a & 0xff][b - 1] < 200) cx->got[a & 0xff][b - 1]++;
	pthread_mutex_unlock(&sendlog_mtx);
	nng_msg_free(m);
}

static const char *
resname(int rv)
{
	switch (rv) {
	case 0: return "ok";
	case NNG_ETIMEDOUT: return "timedout";
	case NNG_ECANCELED: return "canceled";
	case NNG_ESTOPPED: return "stopped";
	case NNG_ECLOSED: return "closed";
	case ABORT_CODE: return "abortcode";
	default: return "other";
	}
}

static void submit(arec *r, bool from_cb);
static void complete(arec *r, bool in_callback);
static void raise_default(arec *r);

// nng_aio_cancel / nng_aio_abort with bookkeeping: which calls have begun and
// which have returned (a call that returned before a submission began cannot
// be the reason for that submission's result)
static void
do_cancel(arec *r)
{
	atomic_store(&r->cancel_issued, 1);
	atomic_fetch_add(&r->cancels_begun, 1);
	nng_aio_cancel(r->aio);
	atomic_fetch_add(&r->cancels_done, 1);
}

static void
do_abort(arec *r)
{
	atomic_store(&r->abort_issued, 1);
	atomic_fetch_add(&r->aborts_begun, 1);
	nng_aio_abort(r->aio, ABORT_CODE);
	atomic_fetch_add(&r->aborts_done, 1);
}

static void
prov_cancel(nng_aio *aio, void *arg, nng_err rv)
{
	arec *r = arg;
	if (r->cancel_delay_us) {
		vf_usleep(r->cancel_delay_us);
	}
	// (grid mode: a gate operation keeps the expire thread busy until the
	// deadlines of the operations behind it have certainly passed)
	uint64_t gate = atomic_load(&r->gate_until);
	for (int k = 0; gate != 0 && (uint64_t) nng_clock() <= gate && k < 20000; k++) vf_usleep(100);
	pthread_mutex_lock(&prov_mtx);
	if (r->prov_owned) {
		r->prov_owned      = false;
		r->prov_final      = (int) rv;
		r->prov_have_final = 1;
		pthread_mutex_unlock(&prov_mtx);
		nng_aio_finish(aio, rv);
		return;
	}
	pthread_mutex_unlock(&prov_mtx);
}

static bool
prov_complete(arec *r)
{
	pthread_mutex_lock(&prov_mtx);
	if (r->prov_owned) {
		r->prov_owned      = false;
		r->prov_final      = 0;
		r->prov_have_final = 1;
		pthread_mutex_unlock(&prov_mtx);
		nng_aio_finish(r->aio, 0);
		return true;
	}
	pthread_mutex_unlock(&prov_mtx);
	return false;
}

// One completion of an operation: from the aio's callback (in_callback), or
// inline - the skip-callback flag was found set after the submission, or the
// waiter thread of an aio without callback came back from nng_aio_wait.
static void
complete(arec *r, bool in_callback)
{
	uint64_t now = vf_now_ns();
	int      exp = 0;
	char     key[96];

	// (in_cb: a callback of this aio is executing - what nng_aio_stop / wait /
	// free must have waited for; a completion handled inline is not one)
	if (!atomic_compare_exchange_strong(in_callback ? &r->in_cb : &r->in_inline, &exp, 1)) {
		vf_violation("C02/callback-overlap", "%s: two %s of one aio running at once", kind_names[r->kind], in_callback ? "callbacks" : "completions (one delivered through the skip-callback flag)");
	}
	if (atomic_load(&r->freed)) {
		vf_violation("C02/callback-after-free", "%s: callback began after nng_aio_free returned", kind_names[r->kind]);
		return;
	}
	if (r->dwell_us && in_callback) vf_usleep(r->dwell_us);
	int ncb = atomic_fetch_add(&r->n_cb, 1) + 1;
	int nsub = atomic_load(&r->n_submit);
	if (ncb > nsub) {
		snprintf(key, sizeof(key), "C02/double-completion/%s", kind_names[r->kind]);
		vf_violation(key, "%s: callback #%d but only %d submissions", kind_names[r->kind], ncb, nsub);
	}
	if (in_callback && r->skipv && nsub >= 1 && nsub <= SKIPN && r->skipflag[nsub - 1]) {
		// exactly one of the two ways of delivery
		snprintf(key, sizeof(key), "C02/skip-and-callback/%s", kind_names[r->kind]);
		vf_violation(key, "%s: the skip-callback flag of submission #%d was set AND the callback ran", kind_names[r->kind], nsub);
	}
	if (atomic_load(&r->stop_returned) && in_callback && !atomic_load(&r->post_stop)) {
		snprintf(key, sizeof(key), "C02/callback-after-stop/%s", kind_names[r->kind]);
		vf_violation(key, "%s: callback began after nng_aio_stop returned", kind_names[r->kind]);
	}
	int rv = (int) nng_aio_result(r->aio);
	if (atomic_load(&r->post_stop)) {
		// an operation submitted after nng_aio_stop returned is not started:
		// it is refused with NNG_ESTOPPED, or ends at once with whatever the
		// owner can say without waiting (a queued message, a state error, a
		// closed owner) - never with the outcome of a wait
		if (rv == NNG_ETIMEDOUT || rv == NNG_ECANCELED || rv == ABORT_CODE) {
			snprintf(key, sizeof(key), "C02/start-after-stop/%s", kind_names[r->kind]);
			vf_violation(key, "%s: operation submitted after nng_aio_stop returned completed with %d (%s): it was started", kind_names[r->kind], rv, resname(rv));
		}
		if (rv == NNG_ESTOPPED) vf_stat("start_after_stop_refused", 1);
	}
	int tmo = atomic_load(&r->timeout_ms);
	double el_ms = (double) (now - atomic_load(&r->t_submit)) / 1e6;
	switch (rv) {
	case 0:
		if (r->kind == K_SLEEP) {
			int sm = atomic_load(&r->sleep_ms);
			if (el_ms < (double) sm - 1.0) {
				vf_violation("C02/sleep-early", "sleep of %d ms completed with 0 after %.2f ms", sm, el_ms);
			}
		}
		break;
	case NNG_ETIMEDOUT:
		if (r->kind == K_SURVRECV && atomic_load(&r->surv_deadline) != 0 && now + 1000000ULL >= atomic_load(&r->surv_deadline)) {
			// the survey's own deadline ended this receive: legitimate
			vf_stat("survey_deadline_timeouts", 1);
		} else if (tmo < 0) {
			snprintf(key, sizeof(key), "C02/timeout-without-timeout/%s", kind_names[r->kind]);
			vf_violation(key, "%s: NNG_ETIMEDOUT but no timeout was configured (elapsed %.2f ms)", kind_names[r->kind], el_ms);
		} else if (el_ms < (double) tmo - 1.0) {
			// which window?  The known one (DESIGN 9.3): the expire loop picked
			// the PREVIOUS operation of this aio (event emitted right before it
			// drops the lock and calls the cancel function it read), that
			// operation ended otherwise, and the late cancel call landed on this
			// one.  So: a pick before this submission began that no timeout
			// callback has consumed yet.  Any other early timeout (no pick at
			// all, or a pick whose timeout has been delivered) is something else
			// and gets a key that the known finding does not cover.
			uint64_t pick = atomic_load(&r->t_expire_pick), ts = atomic_load(&r->t_submit), ptc = atomic_load(&r->t_prev_tmo_cb);
			bool     stale = pick != 0 && pick <= ts && ts - pick < 2000ULL * 1000000ULL && ptc < pick;
			if (stale) vf_stat("stale_expiry_classified", 1);
			snprintf(key, sizeof(key), "C02/timeout-early/%s%s", stale ? "stale-expiry-cancel/" : r->dflt ? "owner-default/" : r->use_expire ? "set-expire/" : "", kind_names[r->kind]);
			vf_violation(key, "%s: NNG_ETIMEDOUT after %.2f ms, configured %d ms (expire loop last picked this aio %s%.2f ms %s this submission, previous timeout callback %s that pick; submission #%d, callback #%d, cancel_delay %d us)", kind_names[r->kind], el_ms, tmo,
			    pick == 0 ? "never: " : "", pick == 0 ? 0.0 : (pick <= ts ? (double) (ts - pick) : (double) (pick - ts)) / 1e6, pick <= ts ? "before" : "AFTER", ptc < pick ? "before" : "AFTER", nsub, ncb, r->cancel_delay_us);
		}
		break;
	case NNG_ECANCELED:
		if (!atomic_load(&r->cancel_issued)) {
			snprintf(key, sizeof(key), "C02/spurious-cancel/%s", kind_names[r->kind]);
			vf_violation(key, "%s: NNG_ECANCELED but nng_aio_cancel was never called", kind_names[r->kind]);
		} else if (atomic_load(&r->cancels_begun) <= atomic_load(&r->cancel_floor)) {
			// every nng_aio_cancel of this aio had returned before this
			// operation was submitted ("no operation in progress: no effect")
			snprintf(key, sizeof(key), "C02/spurious-cancel/after-return/%s", kind_names[r->kind]);
			vf_violation(key, "%s: NNG_ECANCELED for submission #%d, but all %d nng_aio_cancel calls had returned before it was submitted", kind_names[r->kind], nsub, atomic_load(&r->cancels_begun));
		} else {
			vf_stat("cancel_code_checked", 1);
		}
		break;
	case ABORT_CODE:
		if (!atomic_load(&r->abort_issued)) {
			snprintf(key, sizeof(key), "C02/spurious-abort/%s", kind_names[r->kind]);
			vf_violation(key, "%s: abort code reported but nng_aio_abort was never called", kind_names[r->kind]);
		} else if (atomic_load(&r->aborts_begun) <= atomic_load(&r->abort_floor) && !(r->prestart_abort && nsub == 1)) {
			snprintf(key, sizeof(key), "C02/spurious-abort/after-return/%s", kind_names[r->kind]);
			vf_violation(key, "%s: abort code for submission #%d, but all %d nng_aio_abort calls had returned before it was submitted", kind_names[r->kind], nsub, atomic_load(&r->aborts_begun));
		}
		break;
	case NNG_ESTOPPED:
		if (!atomic_load(&r->stop_issued) && !atomic_load(&r->close_issued)) {
			snprintf(key, sizeof(key), "C02/spurious-stopped/%s", kind_names[r->kind]);
			vf_violation(key, "%s: NNG_ESTOPPED but neither stop nor close was issued", kind_names[r->kind]);
		}
		break;
	case NNG_ECLOSED:
		if (!atomic_load(&r->close_issued) && r->kind != K_STREAMRECV && r->kind != K_DIAL && r->kind != K_STREAMSEND && r->kind != K_DEVICE) {
			snprintf(key, sizeof(key), "C02/spurious-closed/%s", kind_names[r->kind]);
			vf_violation(key, "%s: NNG_ECLOSED but nothing was closed", kind_names[r->kind]);
		}
		break;
	default:
		break;
	}
	if (r->kind == K_PROVIDER) {
		pthread_mutex_lock(&prov_mtx);
		int have = r->prov_have_final, fin = r->prov_final;
		r->prov_have_final = 0;
		pthread_mutex_unlock(&prov_mtx);
		// if the provider finished the op, the callback must see that result
		// (a refused start reports its own code and the provider did nothing)
		if (have && fin != rv) {
			vf_violation("C02/result-changed", "provider finished with %d (%s) but callback saw %d (%s)", fin, resname(fin), rv, resname(rv));
		}
	}
	if (r->kind == K_STREAMDIAL) {
		nng_stream *st = nng_aio_get_output(r->aio, 0);
		if (rv == 0 && st == NULL) {
			vf_violation("C02/dial-ok-without-stream", "stream dial completed with 0 and no stream");
		} else if (rv != 0 && st != NULL) {
			vf_violation("C02/error-with-effect/stream-dial", "dial reported %s but a connection is attached to the aio", resname(rv));
		}
		if (st != NULL) {
			int k = atomic_fetch_add(&r->cx->naccepted, 1);
			if (k < 64) r->cx->accepted[k] = st;
			nng_aio_set_output(r->aio, 0, NULL);
		}
	}
	if (r->kind == K_ACCEPT && rv != 0 && nng_aio_get_output(r->aio, 0) != NULL) {
		vf_violation("C02/error-with-effect/stream-accept", "accept reported %s but a connection was accepted and attached to the aio", resname(rv));
		nng_stream *st = nng_aio_get_output(r->aio, 0);
		nng_stream_close(st);
		int k = atomic_fetch_add(&r->cx->naccepted, 1);
		if (k < 64) r->cx->accepted[k] = st;
	}
	if (r->kind == K_ACCEPT && rv == 0) {
		nng_stream *st = nng_aio_get_output(r->aio, 0);
		int         k  = atomic_fetch_add(&r->cx->naccepted, 1);
		if (st == NULL) {
			vf_violation("C02/accept-ok-without-stream", "accept completed with 0 and no stream");
		} else if (k < 64) {
			r->cx->accepted[k] = st;
		}
	}
	if (r->kind == K_SOCKSEND) {
		int      sq = atomic_load(&r->send_seq);
		nng_msg *m  = nng_aio_get_msg(r->aio);
		if (sq >= 0 && sq < 40) r->send_rv[sq] = rv == 0 ? 1 : 2;
		if (rv != 0) {
			if (m == NULL) {
				vf_violation("C02/send-failed-without-msg", "send completed with %s but the message is no longer attached to the aio", resname(rv));
			} else {
				// ours again: free it; a resubmission builds a new one
				nng_aio_set_msg(r->aio, NULL);
				nng_msg_free(m);
			}
		}
	}
	if (r->kind == K_PROTOSEND || r->kind == K_REQSEND) {
		nng_msg *m = nng_aio_get_msg(r->aio);
		if (nsub >= 1 && nsub <= 40) r->send_rv[nsub - 1] = rv == 0 ? 1 : 2; // (the message carries nsub)
		if (rv != 0) {
			if (m == NULL) {
				snprintf(key, sizeof(key), "C02/send-failed-without-msg/%s", kind_names[r->kind]);
				vf_violation(key, "send completed with %s but the message is no longer attached to the aio", resname(rv));
			} else {
				nng_aio_set_msg(r->aio, NULL);
				nng_msg_free(m);
			}
		}
	}
	if (r->kind == K_STREAMRECV && rv == 0) {
		// the peer writes the byte sequence 0,1,2,...: what a successful
		// receive delivers continues where the previous one ended
		size_t n = nng_aio_count(r->aio);
		if (n == 0 || n > 16) {
			vf_violation("C02/stream-recv-count", "stream receive completed with 0 and count %zu (buffer of 16)", n);
		} else {
			for (size_t j = 0; j < n; j++) {
				if (r->cx->rbuf[r->idx][j] != (uint8_t) ((r->rx_off + j) & 0xff)) {
					vf_violation("C02/stream-recv-gap", "stream receive #%d delivered byte %u at stream offset %zu, expected %u (bytes were consumed by a receive that reported an error, or delivered twice)", ncb, r->cx->rbuf[r->idx][j], r->rx_off + j, (unsigned) ((r->rx_off + j) & 0xff));
					break;
				}
			}
			r->rx_off += n;
			atomic_fetch_add(&r->cx->stream_recv_ok, (long) n);
		}
	}
	if (r->kind == K_SOCKRECV || r->kind == K_CTXRECV || r->kind == K_PROTORECV || r->kind == K_SURVRECV || r->kind == K_REQRECV) {
		nng_msg *m = nng_aio_get_msg(r->aio);
		if (rv == 0) {
			if (m == NULL) {
				vf_violation("C02/recv-ok-without-msg", "%s: result 0 with no message", kind_names[r->kind]);
			} else {
				atomic_fetch_add(&r->cx->msgs_recv_ok, 1);
				if ((r->kind == K_CTXRECV || (r->kind == K_PROTORECV && (r->cx->sub == PR_PULL || r->cx->sub == PR_PAIR0))) && nng_msg_len(m) >= 4) {
					uint32_t tag = 99;
					nng_msg_trim_u32(m, &tag);
					pthread_mutex_lock(&sendlog_mtx);
					if (tag < 64 && r->cx->recv_tag[tag] < 200) r->cx->recv_tag[tag]++;
					pthread_mutex_unlock(&sendlog_mtx);
				}
				if (r->kind == K_CTXRECV) {
					// reply so the REP context can receive again
					nng_aio_set_msg(r->aio, NULL);
				}
				nng_msg_free(m);
				nng_aio_set_msg(r->aio, NULL);
			}
		}
	}
	if (rv == NNG_ETIMEDOUT) atomic_store(&r->t_prev_tmo_cb, now);
	int slot = rv == 0 ? 0 : rv == NNG_ETIMEDOUT ? 1 : rv == NNG_ECANCELED ? 2 : rv == NNG_ESTOPPED ? 3 : rv == NNG_ECLOSED ? 4 : rv == ABORT_CODE ? 5 : 6;
	atomic_fetch_add(&r->results[slot], 1);
	if (r->kind == K_PROTORECV || r->kind == K_PROTOSEND) {
		vf_class("%s:%s/%s", kind_names[r->kind], r->kind == K_PROTORECV ? pr_names[r->cx->sub] : ps_names[r->cx->sub], resname(rv));
	} else {
		vf_class("%s/%s", kind_names[r->kind], resname(rv));
	}

	atomic_store(in_callback ? &r->in_cb : &r->in_inline, 0);
	// re-submission from inside the callback (while a stop is in progress
	// only for some: the start is then refused, and nng_aio_stop returns
	// after that second callback)
	// (never after NNG_ESTOPPED was seen: the aio is finished for good then)
	bool in_stop  = r->resub_in_stop && in_callback && atomic_load(&r->stop_issued) && !atomic_load(&r->stop_returned) && !atomic_load(&r->free_issued);
	bool stopping = atomic_load(&r->stop_issued) && !in_stop;
	if (in_stop && r->resubmits_left > 0) vf_stat("resubmit_during_stop", 1);
	if (r->resubmits_left > 0 && rv != NNG_ESTOPPED && rv != NNG_ECLOSED && !stopping && !atomic_load(&r->close_issued) && r->kind != K_DIAL && !atomic_load(&r->free_issued) && !atomic_load(&r->post_stop)) {
		r->resubmits_left--;
		raise_default(r);
		submit(r, true);
	}
}

static void
cb(void *arg)
{
	complete(arg, true);
}

// NNG_DURATION_DEFAULT records: which option of which owner supplies the timeout
static int
default_option(arec *r, int ms, bool set)
{
	casectx    *cx = r->cx;
	const char *opt = (r->kind == K_SOCKSEND || r->kind == K_PROTOSEND || r->kind == K_REQSEND) ? NNG_OPT_SENDTIMEO : NNG_OPT_RECVTIMEO;
	bool        perctx = r->kind == K_CTXRECV || r->kind == K_REQSEND;
	int         slot = perctx ? r->idx : 0;
	if (set) {
		int rv = perctx ? nng_ctx_set_ms(cx->ctx[r->idx], opt, ms) : nng_socket_set_ms(cx->s, opt, ms);
		// (publish after it is in effect: readers use it as a lower bound)
		if (rv == 0) atomic_store(&cx->opt_ms[slot], ms);
	}
	return slot;
}

// before a re-submission: raise the owner's timeout option (it only grows, so
// what a submission reads beforehand is a lower bound of what applies to it)
static void
raise_default(arec *r)
{
	casectx *cx = r->cx;
	if (!r->dflt) return;
	int slot = default_option(r, 0, false);
	if ((slot != 0 || r->idx == 0) && !atomic_exchange(&cx->opt_raised[slot], 1)) {
		default_option(r, cx->opt_T2, true);
		vf_stat("default_timeout_raised", 1);
	}
}

static void
submit(arec *r, bool from_cb)
{
	casectx *cx = r->cx;
	int      tmo = (from_cb && !r->tmo_once) ? r->resubmit_timeout : atomic_load(&r->timeout_ms);
	if (r->dflt) {
		// the aio says "default": the configured duration is the owner's
		// option at the time of the submission (at least what we read now)
		tmo = atomic_load(&cx->opt_ms[default_option(r, 0, false)]);
		if (!(from_cb && r->tmo_once)) nng_aio_set_timeout(r->aio, NNG_DURATION_DEFAULT);
		vf_stat("default_timeout_submissions", 1);
	}
	atomic_store(&r->timeout_ms, tmo);
	if (r->dflt) {
	} else if (r->use_expire && tmo > 0) {
	} else if (!(from_cb && r->tmo_once)) {
		// (an application that configures its aio once and re-uses it)
		nng_aio_set_timeout(r->aio, tmo < 0 ? NNG_DURATION_INFINITE : tmo);
	}
	atomic_store(&r->cancel_floor, atomic_load(&r->cancels_done));
	atomic_store(&r->abort_floor, atomic_load(&r->aborts_done));
	atomic_store(&r->t_submit, vf_now_ns());
	if (!r->dflt && r->use_expire && tmo > 0) {
		// absolute deadline (read the clock after t_submit: never-early stays one-sided)
		nng_aio_set_expire(r->aio, nng_clock() + (nng_time) tmo);
		vf_stat("set_expire_submissions", 1);
	}
	int sq = atomic_fetch_add(&r->n_submit, 1); // number of this submission, from 0
	if (r->skipv && sq < SKIPN) {
		nng_aio_skip_callback(r->aio, (bool *) &r->skipflag[sq]);
	}
	switch (r->kind) {
	case K_SLEEP:
		nng_sleep_aio(atomic_load(&r->sleep_ms), r->aio);
		break;
	case K_PROVIDER:
		if (r->prov_sync && !atomic_load(&r->post_stop) && (vf_mix64((uint64_t) (uintptr_t) r->aio ^ ((uint64_t) sq << 32) ^ vf_seed) & 1)) {
			// an operation that completes at once: the provider finishes it
			// without starting it (and without the reset that would drop a
			// skip-callback request)
			pthread_mutex_lock(&prov_mtx);
			r->prov_owned      = false;
			r->prov_final      = 0;
			r->prov_have_final = 1;
			pthread_mutex_unlock(&prov_mtx);
			vf_stat("provider_sync_finish", 1);
			nng_aio_finish(r->aio, 0);
			break;
		}
		nng_aio_reset(r->aio);
		// start under the provider lock: a cancel that arrives right after
		// start waits for it and then finds the operation owned; a completer
		// can never finish an operation that has not been started.
		pthread_mutex_lock(&prov_mtx);
		r->prov_have_final = 0;
		r->prov_owned      = nng_aio_start(r->aio, prov_cancel, r);
		pthread_mutex_unlock(&prov_mtx);
		break;
	case K_SOCKRECV:
		nng_socket_recv(cx->s, r->aio);
		break;
	case K_SOCKSEND: {
		nng_msg *m;
		if (sq >= 40 || nng_msg_alloc(&m, 0) != 0) {
			// out of bookkeeping room: complete it ourselves as a provider would
			atomic_store(&r->send_seq, -1);
			nng_aio_reset(r->aio);
			atomic_store(&r->cancel_issued, 1); // (before the finish: the callback may run at once)
			atomic_fetch_add(&r->cancels_begun, 1);
			if (nng_aio_start(r->aio, NULL, NULL)) nng_aio_finish(r->aio, NNG_ECANCELED);
			break;
		}
		nng_msg_append_u32(m, (uint32_t) r->idx);
		nng_msg_append_u32(m, (uint32_t) sq);
		atomic_store(&r->send_seq, sq);
		nng_aio_set_msg(r->aio, m);
		nng_socket_send(cx->s, r->aio);
		break;
	}
	case K_CTXRECV:
		nng_ctx_recv(cx->ctx[r->idx], r->aio);
		break;
	case K_DIAL:
		nng_dialer_start_aio(cx->dialer, NNG_FLAG_NONBLOCK, r->aio);
		break;
	case K_PROTORECV:
		nng_socket_recv(cx->s, r->aio);
		break;
	case K_PROTOSEND:
	case K_REQSEND: {
		nng_msg *m;
		if (nng_msg_alloc(&m, 0) != 0) vf_harness_fail("msg alloc");
		nng_msg_append_u32(m, 0x80000000u | (uint32_t) r->idx);
		nng_msg_append_u32(m, (uint32_t) atomic_load(&r->n_submit));
		if (r->kind == K_PROTOSEND && cx->sub == PS_XREQ) nng_msg_header_append_u32(m, 0x80000001u);
		nng_aio_set_msg(r->aio, m);
		if (r->kind == K_REQSEND) {
			nng_ctx_send(cx->ctx[r->idx], r->aio);
		} else {
			nng_socket_send(cx->s, r->aio);
		}
		break;
	}
	case K_ACCEPT:
		nng_stream_listener_accept(cx->sl, r->aio);
		break;
	case K_STREAMDIAL:
		nng_stream_dialer_dial(cx->sd, r->aio);
		break;
	case K_SURVRECV: {
		// a new survey before the first receive and before some later ones;
		// the others are posted into whatever is left of the running survey
		if (atomic_load(&r->n_submit) == 1 || vf_mix64(cx->key_surv ^ (uint64_t) atomic_load(&r->n_submit) ^ ((uint64_t) r->idx << 20)) % 3 != 0) {
			nng_msg *m;
			int      srv;
			if (nng_msg_alloc(&m, 0) != 0) vf_harness_fail("msg alloc");
			nng_msg_append_u32(m, (uint32_t) r->idx);
			uint64_t t0 = vf_now_ns();
			srv = cx->surv_ctx ? nng_ctx_sendmsg(cx->ctx[r->idx], m, NNG_FLAG_NONBLOCK) : nng_sendmsg(cx->s, m, NNG_FLAG_NONBLOCK);
			if (srv != 0) {
				nng_msg_free(m);
			} else {
				atomic_store(&r->surv_deadline, t0 + (uint64_t) cx->survey_ms * 1000000ULL);
				vf_stat("surveys_sent", 1);
			}
		}
		atomic_store(&r->t_submit, vf_now_ns());
		if (cx->surv_ctx) {
			nng_ctx_recv(cx->ctx[r->idx], r->aio);
		} else {
			nng_socket_recv(cx->s, r->aio);
		}
		break;
	}
	case K_STREAMRECV: {
		nng_iov iov = { cx->rbuf[r->idx], 16 };
		nng_aio_set_iov(r->aio, 1, &iov);
		nng_stream_recv(cx->st_a, r->aio);
		break;
	}
	case K_STREAMSEND: {
		// to a peer that does not read: the first few fill the socket
		// buffers, the others wait in the connection's write queue
		static uint8_t big[256 * 1024];
		nng_iov        iov = { big, sizeof(big) };
		nng_aio_set_iov(r->aio, 1, &iov);
		nng_stream_send(cx->st_a, r->aio);
		break;
	}
	case K_REQRECV: {
		// a request first (new one for most receives), then the receive
		if (sq == 0 || vf_mix64(cx->key_surv ^ (uint64_t) sq ^ ((uint64_t) r->idx << 20)) % 4 != 0) {
			nng_msg *m;
			if (nng_msg_alloc(&m, 0) != 0) vf_harness_fail("msg alloc");
			nng_msg_append_u32(m, (uint32_t) r->idx);
			if (nng_ctx_sendmsg(cx->ctx[r->idx], m, NNG_FLAG_NONBLOCK) != 0) {
				nng_msg_free(m);
			} else {
				vf_stat("requests_sent", 1);
			}
		}
		atomic_store(&r->t_submit, vf_now_ns());
		nng_ctx_recv(cx->ctx[r->idx], r->aio);
		break;
	}
	case K_DEVICE:
		nng_device_aio(r->aio, cx->dev1, cx->dev2);
		break;
	}
	atomic_fetch_add(&r->n_started, 1);
	if (r->skipv && sq < SKIPN) {
		if (r->skipflag[sq]) {
			// completed synchronously: the result is in the aio now and no
			// callback will run for this submission
			r->skip_taken[sq] = true;
			vf_stat("skip_inline", 1);
			vf_class("skip-inline/%s", kind_names[r->kind]);
			complete(r, false);
		} else {
			vf_stat("skip_async", 1);
		}
	}
}

typedef struct {
	casectx *cx;
	vf_rng   rng;
	int      act[8];
	int      act_at_us[8];
	// a second terminating action on the same aio / owner from another
	// thread, at about the same instant
	int      act2[8];
	int      act2_at_us[8];
	int      complete_at_us;
	int      ncomplete;
} plan;

typedef struct {
	plan *p;
	int  *act, *at_us;
} actorarg;

// nothing of this aio may be executing once stop / wait / free returned
static void
check_not_running(arec *r, const char *what)
{
	if (atomic_load(&r->in_cb)) {
		char key[96];
		snprintf(key, sizeof(key), "C02/callback-running-after-%s/%s", what, kind_names[r->kind]);
		vf_violation(key, "%s: nng_aio_%s returned while the callback of this aio was still executing", kind_names[r->kind], what);
	}
	vf_stat("not_running_checks", 1);
}

static void *
actor_thread(void *arg)
{
	actorarg *aa = arg;
	plan    *p  = aa->p;
	casectx *cx = p->cx;
	uint64_t t0 = vf_now_ns();
	// issue actions in time order
	bool done[8] = { 0 };
	for (;;) {
		int best = -1;
		for (int i = 0; i < cx->nrec; i++) {
			if (!done[i] && aa->act[i] != A_NONE && (best < 0 || aa->at_us[i] < aa->at_us[best])) best = i;
		}
		if (best < 0) break;
		int64_t wait = (int64_t) aa->at_us[best] - (int64_t) ((vf_now_ns() - t0) / 1000);
		if (wait > 0) vf_usleep((int) wait);
		arec *r = &cx->rec[best];
		switch (aa->act[best]) {
		case A_CANCEL:
			do_cancel(r);
			break;
		case A_ABORT:
			do_abort(r);
			break;
		case A_STOP:
			atomic_store(&r->stop_issued, 1);
			nng_aio_stop(r->aio);
			atomic_store(&r->stop_returned, 1);
			check_not_running(r, "stop");
			break;
		case A_FREE:
			// nng_aio_free of an operation in flight: it is aborted and
			// its callback has finished when free returns
			atomic_store(&r->stop_issued, 1);
			atomic_store(&r->free_issued, 1);
			nng_aio_free(r->aio);
			atomic_store(&r->freed, 1);
			check_not_running(r, "free");
			vf_stat("free_in_flight", 1);
			break;
		case A_SUPERSEDE: {
			// REQ context: a new request while the send of the previous one is
			// still pending.  The pending send is legitimately ended with
			// NNG_ECANCELED ("a new request cancels the old one") - even when
			// the new one is then refused (non-blocking, no room) - and it has
			// completed for good: whatever closes the context later must not
			// complete it again.  (Body word 0: ignored by the conservation table.)
			nng_msg *m;
			if (nng_msg_alloc(&m, 0) != 0) vf_harness_fail("msg alloc");
			nng_msg_append_u32(m, 0x80000000u | (uint32_t) best);
			nng_msg_append_u32(m, 0);
			atomic_store(&r->cancel_issued, 1);
			atomic_fetch_add(&r->cancels_begun, 1);
			int srv = nng_ctx_sendmsg(cx->ctx[best], m, NNG_FLAG_NONBLOCK);
			atomic_fetch_add(&r->cancels_done, 1);
			if (srv != 0) nng_msg_free(m);
			vf_stat(srv == 0 ? "supersede_accepted" : "supersede_refused", 1);
			vf_class("supersede/%s/%s", srv == 0 ? "accepted" : nng_strerror(srv), atomic_load(&r->n_cb) > 0 ? "after-completion" : "while-pending");
			break;
		}
		case A_CLOSE:
			for (int i = 0; i < cx->nrec; i++) atomic_store(&cx->rec[i].close_issued, 1);
			switch (cx->kind) {
			case K_SOCKRECV: nng_socket_close(cx->s); break;
			case K_SOCKSEND: nng_socket_close(cx->s); break;
			case K_PROTORECV: nng_socket_close(cx->s); break;
			case K_PROTOSEND: nng_socket_close(cx->s); break;
			case K_REQSEND: nng_ctx_close(cx->ctx[best]); break;
			case K_CTXRECV: nng_ctx_close(cx->ctx[best]); break;
			case K_DIAL: nng_dialer_close(cx->dialer); break;
			case K_ACCEPT: nng_stream_listener_close(cx->sl); break;
			case K_STREAMDIAL: nng_stream_dialer_close(cx->sd); break;
			case K_SURVRECV:
				if (cx->surv_ctx) {
					nng_ctx_close(cx->ctx[best]);
				} else {
					nng_socket_close(cx->s);
				}
				break;
			case K_STREAMRECV: nng_stream_close(cx->st_a); break;
			case K_STREAMSEND: nng_stream_close(cx->st_a); break;
			case K_REQRECV: nng_ctx_close(cx->ctx[best]); break;
			case K_DEVICE: nng_socket_close(cx->dev1); break;
			default: break;
			}
			break;
		}
		done[best] = true;
	}
	return NULL;
}

static void *
completer_thread(void *arg)
{
	plan    *p  = arg;
	casectx *cx = p->cx;
	vf_usleep(p->complete_at_us);
	switch (cx->kind) {
	case K_PROVIDER:
		for (int round = 0; round < 3; round++) {
			for (int i = 0; i < cx->nrec; i++) {
				if (cx->rec[i].kind == K_PROVIDER && vf_chance(&p->rng, 2, 3)) prov_complete(&cx->rec[i]);
			}
			vf_usleep((int) vf_below(&p->rng, 1500));
		}
		break;
	case K_SOCKRECV:
	case K_CTXRECV:
		for (int i = 0; i < p->ncomplete; i++) {
			nng_msg *m;
			if (nng_msg_alloc(&m, 0) != 0) break;
			nng_msg_append_u32(m, (uint32_t) i);
			int rv = nng_sendmsg(cx->peer, m, 0);
			if (rv != 0) { nng_msg_free(m); break; }
			atomic_fetch_add(&cx->msgs_sent, 1);
			if (i < 64) cx->sent_tag[i] = 1;
			if (cx->kind == K_CTXRECV) {
				// REQ: must receive a reply (or time out) before next request
				nng_msg *rep = NULL;
				if (nng_recvmsg(cx->peer, &rep, 0) == 0) nng_msg_free(rep);
			}
			vf_usleep((int) vf_below(&p->rng, 800));
		}
		break;
	case K_SOCKSEND:
		for (int i = 0; i < p->ncomplete; i++) {
			nng_msg *m = NULL;
			if (nng_recvmsg(cx->peer, &m, 0) == 0) {
				sendlog_add(cx, m);
			}
			vf_usleep((int) vf_below(&p->rng, 800));
		}
		break;
	case K_PROTORECV:
		for (int i = 0; i < p->ncomplete; i++) {
			nng_msg *m;
			if (nng_msg_alloc(&m, 0) != 0) break;
			if (cx->sub == PR_XREP) nng_msg_header_append_u32(m, 0x80000000u | (uint32_t) (i + 1));
			nng_msg_append_u32(m, (uint32_t) i);
			if (nng_sendmsg(cx->peer, m, NNG_FLAG_NONBLOCK) != 0) nng_msg_free(m);
			else if (i < 64) cx->sent_tag[i] = 1;
			vf_usleep((int) vf_below(&p->rng, 800));
		}
		break;
	case K_PROTOSEND:
		for (int i = 0; i < p->ncomplete; i++) {
			nng_msg *m = NULL;
			if (nng_recvmsg(cx->peer, &m, 0) == 0) protolog_add(cx, m);
			vf_usleep((int) vf_below(&p->rng, 800));
		}
		break;
	case K_REQRECV: {
		// a replier that answers about half of the requests it sees
		uint64_t end = vf_now_ns() + 150ULL * 1000000ULL;
		while (vf_now_ns() < end) {
			nng_msg *m = NULL;
			if (nng_recvmsg(cx->peer, &m, 0) != 0) continue;
			if (vf_chance(&p->rng, 1, 2)) {
				vf_usleep((int) vf_below(&p->rng, 3000));
				if (nng_sendmsg(cx->peer, m, 0) != 0) nng_msg_free(m);
			} else {
				nng_msg_free(m);
			}
		}
		break;
	}
	case K_DEVICE:
		// traffic through the device, both ways
		for (int i = 0; i < p->ncomplete; i++) {
			nng_msg *m;
			nng_socket from = (i & 1) ? cx->dpeer2 : cx->dpeer1, to = (i & 1) ? cx->dpeer1 : cx->dpeer2;
			if (nng_msg_alloc(&m, 0) != 0) break;
			nng_msg_append_u32(m, (uint32_t) i);
			if (nng_sendmsg(from, m, NNG_FLAG_NONBLOCK) != 0) nng_msg_free(m);
			m = NULL;
			if (nng_recvmsg(to, &m, 0) == 0) {
				nng_msg_free(m);
				vf_stat("device_forwarded", 1);
			}
		}
		break;
	case K_STREAMSEND: {
		// after a while the peer reads a little (pending sends make progress)
		static uint8_t sink[64 * 1024];
		nng_aio       *a;
		nng_aio_alloc(&a, NULL, NULL);
		for (int i = 0; i < p->ncomplete * 3; i++) {
			nng_iov iov = { sink, sizeof(sink) };
			nng_aio_set_iov(a, 1, &iov);
			nng_aio_set_timeout(a, 20);
			nng_stream_recv(cx->st_b, a);
			nng_aio_wait(a);
		}
		nng_aio_free(a);
		break;
	}
	case K_SURVRECV: {
		// a respondent that answers about half of the surveys it sees
		uint64_t end = vf_now_ns() + 400ULL * 1000000ULL;
		while (vf_now_ns() < end) {
			nng_msg *m = NULL;
			if (nng_recvmsg(cx->peer, &m, 0) != 0) continue;
			if (vf_chance(&p->rng, 1, 2)) {
				vf_usleep((int) vf_below(&p->rng, 3000));
				if (nng_sendmsg(cx->peer, m, 0) != 0) nng_msg_free(m);
			} else {
				nng_msg_free(m);
			}
		}
		break;
	}
	case K_REQSEND:
		// the requests wait for a connection: make one (or not)
		if (p->ncomplete > 0) {
			if (vf_connect(cx->s, cx->peer, VF_T_INPROC) == 0) cx->connected = true;
			// the replier takes some of the requests now, the rest later
			for (int i = 0; i < p->ncomplete; i++) {
				nng_msg *m = NULL;
				if (nng_recvmsg(cx->peer, &m, 0) == 0) protolog_add(cx, m);
			}
		}
		break;
	case K_ACCEPT: {
		nng_aio *a;
		nng_aio_alloc(&a, NULL, NULL);
		nng_aio_set_timeout(a, 2000);
		for (int i = 0; i < p->ncomplete; i++) {
			nng_stream_dialer_dial(cx->sd, a);
			nng_aio_wait(a);
			if (nng_aio_result(a) == 0) {
				nng_stream *st = nng_aio_get_output(a, 0);
				nng_stream_close(st);
				nng_stream_stop(st);
				nng_stream_free(st);
			}
		}
		nng_aio_free(a);
		break;
	}
	case K_STREAMRECV: {
		nng_aio *a;
		nng_aio_alloc(&a, NULL, NULL);
		for (int i = 0; i < p->ncomplete; i++) {
			// (position-coded bytes: the receiver checks continuity)
			uint8_t chunk[16];
			long    off = atomic_load(&cx->stream_sent);
			for (int j = 0; j < 16; j++) chunk[j] = (uint8_t) ((off + j) & 0xff);
			nng_iov iov = { chunk, 16 };
			nng_aio_set_iov(a, 1, &iov);
			nng_aio_set_timeout(a, 2000);
			nng_stream_send(cx->st_b, a);
			nng_aio_wait(a);
			if (nng_aio_result(a) != 0) {
				atomic_store(&cx->stream_unknown, 1);
				break;
			}
			atomic_fetch_add(&cx->stream_sent, (long) nng_aio_count(a));
			vf_usleep((int) vf_below(&p->rng, 800));
		}
		nng_aio_free(a);
		break;
	}
	default:
		break;
	}
	return NULL;
}

// REP contexts: when a request arrived the context must send a reply before it
// can receive again; do that from a helper so that resubmitted receives work.
static void
rep_reply_all(casectx *cx)
{
	(void) cx;
}

// an aio without callback: its user waits with nng_aio_wait and then looks
// at the result (and may submit again)
static void *
waiter_thread(void *arg)
{
	arec *r = arg;
	for (;;) {
		if (atomic_load(&r->n_started) > atomic_load(&r->n_cb)) {
			nng_aio_wait(r->aio);
			complete(r, false);
			continue;
		}
		if (atomic_load(&r->waiter_quit)) break;
		vf_usleep(200);
	}
	return NULL;
}

// end of a case: cancel whatever is still pending, wait, stop, and demand one
// callback per submission
static void
finish_records(casectx *cx)
{
	for (int i = 0; i < cx->nrec; i++) {
		arec *a = &cx->rec[i];
		a->resubmits_left = 0;
		if (atomic_load(&a->freed)) continue;
		do_cancel(a);
	}
	for (int i = 0; i < cx->nrec; i++) {
		arec *a = &cx->rec[i];
		if (atomic_load(&a->freed)) continue;
		// everything was cancelled: an operation that is still busy after
		// 15 s of run time will never complete (its callback is lost);
		// say so instead of hanging in nng_aio_wait
		for (int k = 0; nng_aio_busy(a->aio); k++) {
			if (k >= 15000) {
				char key[96];
				snprintf(key, sizeof(key), "C02/lost-completion/%s/never-completes", kind_names[a->kind]);
				vf_violation(key, "%s: operation still pending 15 s after nng_aio_cancel (submissions %d, callbacks %d); its completion is lost", kind_names[a->kind], atomic_load(&a->n_submit), atomic_load(&a->n_cb));
				int code = vf_finish();
				_exit(code != 0 ? code : 1); // cannot wait for / free this aio
			}
			if ((k % 100) == 99) do_cancel(a);
			vf_msleep(1);
		}
		nng_aio_wait(a->aio);
		check_not_running(a, "wait");
		// a callback may have resubmitted between cancel and wait
		for (int k = 0; k < 50 && nng_aio_busy(a->aio); k++) {
			do_cancel(a);
			nng_aio_wait(a->aio);
		}
		atomic_store(&a->stop_issued, 1);
		nng_aio_stop(a->aio);
		atomic_store(&a->stop_returned, 1);
		check_not_running(a, "stop");
	}
	for (int i = 0; i < cx->nrec; i++) {
		arec *a = &cx->rec[i];
		if (!a->nocb) continue;
		atomic_store(&a->waiter_quit, 1);
		pthread_join(a->waiter, NULL);
	}
	// exactly once: every submission had its callback
	for (int i = 0; i < cx->nrec; i++) {
		arec *a = &cx->rec[i];
		int   ns = atomic_load(&a->n_submit), nc = atomic_load(&a->n_cb);
		char  key[96];
		if (nc != ns) {
			snprintf(key, sizeof(key), "C02/%s/%s", nc < ns ? "lost-completion" : "double-completion", kind_names[a->kind]);
			vf_violation(key, "%s: %d submissions but %d %s after nng_aio_stop", kind_names[a->kind], ns, nc, a->nocb ? "completions seen by nng_aio_wait" : "callbacks");
		}
		// the skip-callback flag of a submission that went asynchronous stays clear
		for (int q = 0; a->skipv && q < ns && q < SKIPN; q++) {
			if (a->skipflag[q] && !a->skip_taken[q]) {
				snprintf(key, sizeof(key), "C02/skip-flag-set-late/%s", kind_names[a->kind]);
				vf_violation(key, "%s: the skip-callback flag of submission #%d was clear when the submission returned and was set later", kind_names[a->kind], q + 1);
			}
		}
		if (a->nocb && !atomic_load(&a->freed)) {
			// no callback to count: the library's own completion events of
			// this aio (finish, refused start; a sleep may also be completed
			// by the expire loop itself) must match the submissions
			int fin = atomic_load(&a->ev_finish) + atomic_load(&a->ev_refused), slack = a->kind == K_SLEEP ? atomic_load(&a->ev_expire) : 0;
			if (fin > ns || fin + slack < ns) {
				snprintf(key, sizeof(key), "C02/%s/no-callback/%s", fin > ns ? "double-completion" : "lost-completion", kind_names[a->kind]);
				vf_violation(key, "%s (aio without callback): %d submissions, %d completions inside the library (%d finished, %d refused, %d expired)", kind_names[a->kind], ns, fin, atomic_load(&a->ev_finish), atomic_load(&a->ev_refused), atomic_load(&a->ev_expire));
			}
			vf_stat("nocb_operations", ns);
			vf_class("no-callback/%s", kind_names[a->kind]);
		}
		vf_stat("operations", ns);
	}
}

static void
run_case(long idx, vf_rng *r)
{
	casectx *cx = calloc(1, sizeof(*cx));
	plan     p;
	char     url[128], durl[128];
	nng_listener l;
	int      rv;
	int      tran = vf_chance(r, 1, 3) ? VF_T_TCP : VF_T_INPROC;
	int      pert = (int) vf_below(r, 4);
	int      target = -1;
	static const int targets[] = { NNI_VP_AIO_ABORT_UNLOCKED, NNI_VP_AIO_FINISH_UNLOCKED, NNI_VP_AIO_EXPIRE_BEFORE_CANCEL, NNI_VP_AIO_EXPIRE_BETWEEN, NNI_VP_AIO_STOP_BEFORE_WAIT, NNI_VP_TASK_BEFORE_CB, NNI_VP_TASK_BEFORE_ENQUEUE, NNI_VP_AIO_START, NNI_VP_TASK_AFTER_CB, NNI_VP_AIO_EXPIRE_BEFORE_CANCEL, NNI_VP_AIO_EXPIRE_BETWEEN, NNI_VP_AIO_EXPIRE_BEFORE_CANCEL, NNI_VP_AIO_EXPIRE_BETWEEN };

	memset(&p, 0, sizeof(p));
	p.cx = cx;
	vf_rng_seed(&p.rng, vf_rand(r), 7);
	cx->kind = (int) vf_below(r, K_NKINDS);
	if (!strcmp(vf_mode, "provider")) cx->kind = vf_chance(r, 3, 4) ? K_PROVIDER : K_SLEEP;
	cx->nrec = (int) vf_range(r, 1, cx->kind == K_PROVIDER || cx->kind == K_SLEEP ? 6 : 3);
	if (cx->kind == K_SOCKRECV || cx->kind == K_DIAL || cx->kind == K_ACCEPT) cx->nrec = (int) vf_range(r, 1, 2);
	if (cx->kind == K_SOCKSEND) cx->nrec = (int) vf_range(r, 1, 4);
	if (cx->kind == K_DIAL || cx->kind == K_STREAMRECV) cx->nrec = 1;
	if (cx->kind == K_PROTORECV || cx->kind == K_PROTOSEND) cx->nrec = (int) vf_range(r, 1, 3);
	if (cx->kind == K_REQSEND) cx->nrec = (int) vf_range(r, 1, 4);
	if (cx->kind == K_STREAMDIAL) cx->nrec = (int) vf_range(r, 1, 3);
	if (cx->kind == K_SURVRECV) cx->nrec = (int) vf_range(r, 1, 3);
	if (cx->kind == K_REQRECV || cx->kind == K_STREAMSEND) cx->nrec = (int) vf_range(r, 1, 3);
	if (cx->kind == K_DEVICE) cx->nrec = 1;

	vf_pt_off();
	if (pert == 1) vf_pt_jitter(vf_rand(r), (int) vf_range(r, 5, 60), (int) vf_range(r, 20, 300));
	else if (pert >= 2) {
		target = targets[vf_below(r, sizeof(targets) / sizeof(targets[0]))];
		vf_pt_jitter(vf_rand(r), 5, 50);
		vf_pt_target(target, (int) vf_range(r, 300, 1000), 200, (int) vf_range(r, 500, 4000));
	}
	int base_ms = (int) vf_range(r, 2, 25); // nominal instant around which things race
	vf_case_begin(idx, "kind=%s n=%d tran=%s pert=%s base=%dms", kind_names[cx->kind], cx->nrec, vf_tran_names[tran], pert == 0 ? "none" : pert == 1 ? "jitter" : vf_pt_name(target), base_ms);
	(void) pr_names;
	(void) ps_names;

	// set-up
	switch (cx->kind) {
	case K_SOCKRECV:
		if (nng_pair1_open(&cx->s) || nng_pair1_open(&cx->peer)) vf_harness_fail("open");
		nng_socket_set_int(cx->s, NNG_OPT_RECVBUF, 8);
		nng_socket_set_int(cx->peer, NNG_OPT_SENDBUF, 8);
		nng_socket_set_ms(cx->peer, NNG_OPT_SENDTIMEO, 3000);
		if ((rv = vf_connect(cx->s, cx->peer, tran)) != 0) vf_harness_fail("connect: %s", nng_strerror(rv));
		break;
	case K_SOCKSEND:
		if (nng_pair1_open(&cx->s) || nng_pair1_open(&cx->peer)) vf_harness_fail("open");
		nng_socket_set_int(cx->s, NNG_OPT_SENDBUF, (int) vf_below(r, 3));
		nng_socket_set_int(cx->peer, NNG_OPT_RECVBUF, (int) vf_below(r, 3));
		nng_socket_set_ms(cx->peer, NNG_OPT_RECVTIMEO, 30);
		if ((rv = vf_connect(cx->s, cx->peer, tran)) != 0) vf_harness_fail("connect: %s", nng_strerror(rv));
		break;
	case K_CTXRECV:
		if (nng_rep0_open(&cx->s) || nng_req0_open(&cx->peer)) vf_harness_fail("open");
		nng_socket_set_ms(cx->peer, NNG_OPT_SENDTIMEO, 3000);
		nng_socket_set_ms(cx->peer, NNG_OPT_RECVTIMEO, 30);
		nng_socket_set_ms(cx->peer, NNG_OPT_REQ_RESENDTIME, 60000);
		if ((rv = vf_connect(cx->s, cx->peer, tran)) != 0) vf_harness_fail("connect: %s", nng_strerror(rv));
		for (int i = 0; i < cx->nrec; i++) nng_ctx_open(&cx->ctx[i], cx->s);
		break;
	case K_PROTORECV: {
		int orv = 0;
		cx->sub = (int) vf_below(r, PR_N);
		switch (cx->sub) {
		case PR_PULL: orv = nng_pull0_open(&cx->s) || nng_push0_open(&cx->peer); break;
		case PR_SUB: orv = nng_sub0_open(&cx->s) || nng_pub0_open(&cx->peer); break;
		case PR_BUS: orv = nng_bus0_open(&cx->s) || nng_bus0_open(&cx->peer); break;
		case PR_PAIR0: orv = nng_pair0_open(&cx->s) || nng_pair0_open(&cx->peer); break;
		case PR_XREP: orv = nng_rep0_open_raw(&cx->s) || nng_req0_open_raw(&cx->peer); break;
		}
		if (orv) vf_harness_fail("open");
		if (cx->sub == PR_SUB) nng_sub0_socket_subscribe(cx->s, "", 0);
		if ((rv = vf_connect(cx->s, cx->peer, tran)) != 0) vf_harness_fail("connect: %s", nng_strerror(rv));
		cx->connected = true;
		break;
	}
	case K_PROTOSEND: {
		int orv = 0;
		cx->sub = (int) vf_below(r, PS_N);
		switch (cx->sub) {
		case PS_PUSH: orv = nng_push0_open(&cx->s) || nng_pull0_open(&cx->peer); break;
		case PS_PAIR0: orv = nng_pair0_open(&cx->s) || nng_pair0_open(&cx->peer); break;
		case PS_XREQ: orv = nng_req0_open_raw(&cx->s) || nng_rep0_open_raw(&cx->peer); break;
		}
		if (orv) vf_harness_fail("open");
		nng_socket_set_int(cx->s, NNG_OPT_SENDBUF, (int) vf_below(r, 2));
		nng_socket_set_int(cx->peer, NNG_OPT_RECVBUF, (int) vf_below(r, 2));
		nng_socket_set_ms(cx->peer, NNG_OPT_RECVTIMEO, 30);
		// sometimes there is no connection at all: every send waits
		if (vf_chance(r, 3, 4)) {
			if ((rv = vf_connect(cx->s, cx->peer, tran)) != 0) vf_harness_fail("connect: %s", nng_strerror(rv));
			cx->connected = true;
		}
		break;
	}
	case K_SURVRECV:
		if (nng_surveyor0_open(&cx->s) || nng_respondent0_open(&cx->peer)) vf_harness_fail("open");
		cx->survey_ms = (int) vf_range(r, 30, 150);
		cx->surv_ctx  = vf_chance(r, 2, 3);
		cx->key_surv  = vf_rand(r);
		nng_socket_set_ms(cx->s, NNG_OPT_SURVEYOR_SURVEYTIME, cx->survey_ms);
		nng_socket_set_ms(cx->peer, NNG_OPT_RECVTIMEO, 20);
		nng_socket_set_ms(cx->peer, NNG_OPT_SENDTIMEO, 100);
		if ((rv = vf_connect(cx->s, cx->peer, tran)) != 0) vf_harness_fail("connect: %s", nng_strerror(rv));
		if (!cx->surv_ctx) cx->nrec = 1;
		for (int i = 0; cx->surv_ctx && i < cx->nrec; i++) nng_ctx_open(&cx->ctx[i], cx->s);
		break;
	case K_REQSEND:
		if (nng_req0_open(&cx->s) || nng_rep0_open(&cx->peer)) vf_harness_fail("open");
		nng_socket_set_ms(cx->peer, NNG_OPT_RECVTIMEO, 30);
		for (int i = 0; i < cx->nrec; i++) nng_ctx_open(&cx->ctx[i], cx->s);
		break;
	case K_REQRECV:
		if (nng_req0_open(&cx->s) || nng_rep0_open(&cx->peer)) vf_harness_fail("open");
		cx->key_surv = vf_rand(r);
		nng_socket_set_ms(cx->s, NNG_OPT_REQ_RESENDTIME, 60000);
		nng_socket_set_ms(cx->peer, NNG_OPT_RECVTIMEO, 20);
		nng_socket_set_ms(cx->peer, NNG_OPT_SENDTIMEO, 100);
		if ((rv = vf_connect(cx->peer, cx->s, tran)) != 0) vf_harness_fail("connect: %s", nng_strerror(rv));
		for (int i = 0; i < cx->nrec; i++) nng_ctx_open(&cx->ctx[i], cx->s);
		break;
	case K_DEVICE:
		// two raw sockets joined by a device, a peer on each
		if (nng_pair0_open_raw(&cx->dev1) || nng_pair0_open_raw(&cx->dev2) || nng_pair0_open(&cx->dpeer1) || nng_pair0_open(&cx->dpeer2)) vf_harness_fail("open");
		nng_socket_set_ms(cx->dpeer1, NNG_OPT_RECVTIMEO, 20);
		nng_socket_set_ms(cx->dpeer2, NNG_OPT_RECVTIMEO, 20);
		if ((rv = vf_connect(cx->dev1, cx->dpeer1, tran)) != 0 || (rv = vf_connect(cx->dev2, cx->dpeer2, VF_T_INPROC)) != 0) vf_harness_fail("connect: %s", nng_strerror(rv));
		break;
	case K_DIAL: {
		if (nng_pair1_open(&cx->s)) vf_harness_fail("open");
		bool reachable = vf_chance(r, 1, 2);
		if (reachable) {
			if (nng_pair1_open(&cx->peer)) vf_harness_fail("open");
			vf_url(tran, url, sizeof(url));
			if ((rv = nng_listen(cx->peer, url, &l, 0)) != 0) vf_harness_fail("listen %s", nng_strerror(rv));
			vf_dial_url(l, tran, url, durl, sizeof(durl));
		} else if (vf_chance(r, 1, 2)) {
			vf_url(VF_T_INPROC, durl, sizeof(durl)); // nobody listens
		} else {
			// a tcp port that refuses: bind, read the port, close
			nng_socket   tmp;
			nng_listener tl;
			int          port = 1;
			if (nng_pair1_open(&tmp) == 0) {
				if (nng_listen(tmp, "tcp://127.0.0.1:0", &tl, 0) == 0) nng_listener_get_int(tl, NNG_OPT_BOUND_PORT, &port);
				nng_socket_close(tmp);
			}
			snprintf(durl, sizeof(durl), "tcp://127.0.0.1:%d", port);
		}
		if ((rv = nng_dialer_create(&cx->dialer, cx->s, durl)) != 0) vf_harness_fail("dialer_create %s", nng_strerror(rv));
		break;
	}
	case K_STREAMDIAL:
	case K_ACCEPT:
	case K_STREAMSEND:
	case K_STREAMRECV: {
		int port = 0;
		const char *lurl = ((cx->kind == K_STREAMDIAL && vf_chance(r, 1, 3)) || (cx->kind == K_STREAMSEND && vf_chance(r, 2, 3))) ? "ipc:///tmp/vf-c02-sd" : "tcp://127.0.0.1:0";
		char lbuf[96];
		if (lurl[0] == 'i') {
			snprintf(lbuf, sizeof(lbuf), "ipc:///tmp/vf-c02-%d-%ld", (int) getpid(), idx);
			lurl = lbuf;
		}
		if ((rv = nng_stream_listener_alloc(&cx->sl, lurl)) != 0 || (rv = nng_stream_listener_listen(cx->sl)) != 0) vf_harness_fail("stream listen %s", nng_strerror(rv));
		if (lurl[0] == 'i') {
			snprintf(durl, sizeof(durl), "%s", lurl);
		} else {
			nng_stream_listener_get_int(cx->sl, NNG_OPT_BOUND_PORT, &port);
			// ("localhost" goes through the resolver thread)
			snprintf(durl, sizeof(durl), "tcp://%s:%d", cx->kind == K_STREAMDIAL && vf_chance(r, 1, 2) ? "localhost" : "127.0.0.1", port);
		}
		if (cx->kind == K_STREAMDIAL && vf_chance(r, 1, 4)) {
			// nobody listens any more: the dial is refused
			nng_stream_listener_close(cx->sl);
			nng_stream_listener_stop(cx->sl);
			nng_stream_listener_free(cx->sl);
			cx->sl = NULL;
		}
		if ((rv = nng_stream_dialer_alloc(&cx->sd, durl)) != 0) vf_harness_fail("stream dialer %s", nng_strerror(rv));
		if (cx->kind == K_STREAMRECV || cx->kind == K_STREAMSEND) {
			nng_aio *a1, *a2;
			nng_aio_alloc(&a1, NULL, NULL);
			nng_aio_alloc(&a2, NULL, NULL);
			nng_aio_set_timeout(a1, 5000);
			nng_aio_set_timeout(a2, 5000);
			nng_stream_listener_accept(cx->sl, a1);
			nng_stream_dialer_dial(cx->sd, a2);
			nng_aio_wait(a1);
			nng_aio_wait(a2);
			if (nng_aio_result(a1) || nng_aio_result(a2)) vf_harness_fail("stream connect");
			cx->st_a = nng_aio_get_output(a1, 0);
			cx->st_b = nng_aio_get_output(a2, 0);
			nng_aio_free(a1);
			nng_aio_free(a2);
		}
		break;
	}
	default:
		break;
	}

	// records and plans
	int batch_timeout = base_ms; // equal deadlines form expiry batches
	bool mixed_batch = (cx->kind == K_PROVIDER) && cx->nrec >= 2 && vf_chance(r, 1, 2);
	if (mixed_batch && vf_chance(r, 2, 3)) {
		// hold a canceller between "cancel function swapped out" and the
		// call of that function while the expire loop works through the batch
		vf_pt_off();
		vf_pt_jitter(vf_rand(r), 5, 50);
		target = NNI_VP_AIO_ABORT_UNLOCKED;
		pert   = 2;
		vf_pt_target(target, 1000, 800, (int) vf_range(r, 1500, 5000));
	}
	// NNG_DURATION_DEFAULT on every aio of the case: the owner's send / receive
	// timeout option is the configured duration (T1 first, raised to T2 before
	// a re-submission)
	bool dflt = (cx->kind == K_SOCKRECV || cx->kind == K_SOCKSEND || cx->kind == K_CTXRECV || cx->kind == K_PROTORECV || cx->kind == K_PROTOSEND || cx->kind == K_REQSEND) && vf_chance(r, 1, 4);
	if (dflt) {
		int T1     = vf_chance(r, 1, 2) ? batch_timeout : (int) vf_range(r, 2, 30);
		cx->opt_T2 = T1 + (int) vf_range(r, 15, 40);
		for (int i = 0; i < cx->nrec; i++) {
			arec tmp = { .kind = cx->kind, .idx = i, .cx = cx };
			default_option(&tmp, T1, true);
		}
		vf_class("default-timeout/%s", kind_names[cx->kind]);
	}
	for (int i = 0; i < cx->nrec; i++) {
		arec *a = &cx->rec[i];
		a->kind = cx->kind;
		if (mixed_batch) {
			// one expiry batch holding provider operations (whose cancel
			// functions take a while) AND sleeps with the same deadline
			a->kind = (i & 1) ? K_SLEEP : K_PROVIDER;
		}
		a->idx  = i;
		a->cx   = cx;
		// variants (gap list of the second audit)
		a->nocb          = !mixed_batch && vf_chance(r, 1, 8);
		a->skipv         = !a->nocb && vf_chance(r, 1, 5);
		a->resub_in_stop = vf_chance(r, 1, 3);
		a->prov_sync     = a->kind == K_PROVIDER && !mixed_batch && (a->skipv || vf_chance(r, 1, 3));
		a->dflt          = dflt;
		if (nng_aio_alloc(&a->aio, a->nocb ? NULL : cb, a) != 0) vf_harness_fail("aio alloc");
		int tsel = (int) vf_below(r, 6);
		if ((target == NNI_VP_AIO_EXPIRE_BEFORE_CANCEL || target == NNI_VP_AIO_EXPIRE_BETWEEN) && tsel < 2) tsel = 2; // make the expiry happen
		int tmo  = tsel == 0 ? -1 : tsel == 1 ? 0 : tsel <= 3 ? batch_timeout : (int) vf_range(r, 1, 40);
		atomic_store(&a->timeout_ms, tmo);
		atomic_store(&a->sleep_ms, vf_chance(r, 1, 2) ? base_ms : (int) vf_range(r, 0, 40));
		a->resubmits_left   = vf_chance(r, 1, 2) ? (int) vf_below(r, 4) : 0;
		a->resubmit_timeout = vf_chance(r, 1, 2) ? 10000 : (int) vf_range(r, 1, 30);
		a->cancel_delay_us  = vf_chance(r, 1, 3) ? (int) vf_range(r, 100, 3000) : 0;
		a->dwell_us         = vf_chance(r, 1, 2) ? (int) vf_range(r, 50, 500) : 0;
		a->tmo_once         = vf_chance(r, 1, 3);
		a->use_expire       = !a->tmo_once && !dflt && a->kind != K_SLEEP && a->kind != K_SURVRECV && a->kind != K_REQRECV && vf_chance(r, 1, 6);
		if (cx->kind == K_STREAMSEND) a->resubmits_left = (int) vf_range(r, 2, 8);
		if (cx->kind == K_REQRECV) a->resubmits_left = (int) vf_range(r, 1, 4);
		if (cx->kind == K_SURVRECV) {
			// several receives per aio, some late in a survey (clamped to its
			// deadline), some right after a new one; long own timeout half the time
			a->resubmits_left = (int) vf_range(r, 2, 6);
			a->tmo_once       = vf_chance(r, 2, 3);
			if (vf_chance(r, 1, 2)) atomic_store(&a->timeout_ms, 5000);
			a->resubmit_timeout = atomic_load(&a->timeout_ms) < 0 ? 5000 : atomic_load(&a->timeout_ms);
			if (vf_chance(r, 1, 2)) a->dwell_us = (int) vf_range(r, 10000, cx->survey_ms * 900); // post the next receive late in the survey
		}
		if (mixed_batch) {
			// same deadline for everybody; providers cancel slowly; the sleeps
			// are cancelled / stopped right around the deadline
			atomic_store(&a->timeout_ms, a->kind == K_PROVIDER ? batch_timeout : -1);
			atomic_store(&a->sleep_ms, batch_timeout);
			a->cancel_delay_us = a->kind == K_PROVIDER ? (int) vf_range(r, 300, 3000) : 0;
		}
		p.act[i]            = (int) vf_below(r, A_NACTS);
		if (p.act[i] == A_CLOSE && (cx->kind == K_SLEEP || cx->kind == K_PROVIDER)) p.act[i] = A_CANCEL;
		if (p.act[i] == A_FREE && cx->kind == K_SOCKSEND) p.act[i] = A_STOP; // (its conservation table reads the record later)
		if (p.act[i] == A_FREE && a->nocb) p.act[i] = A_STOP; // (its waiter thread sits in nng_aio_wait)
		if (p.act[i] == A_FREE) a->resubmits_left = 0; // an application does not re-arm an aio it is freeing
		// REQ context send: a superseding (mostly refused) request first, a
		// terminating action after it
		bool supersede = cx->kind == K_REQSEND && !mixed_batch && vf_chance(r, 1, 3);
		// around the nominal instant (or at once / pre-start)
		int asel = (int) vf_below(r, 5);
		p.act_at_us[i] = asel == 0 ? 0 : asel == 1 ? (int) vf_below(r, 300) : (int) (base_ms * 1000 + (int) vf_below(r, 3000) - 1500);
		if (p.act_at_us[i] < 0) p.act_at_us[i] = 0;
		// a second terminating action from another thread at about the same
		// instant (nng_aio_free only next to a close of the owner: nothing
		// else may touch an aio that is being freed)
		p.act2[i] = A_NONE;
		if (p.act[i] != A_NONE && !mixed_batch && vf_chance(r, 1, 3)) {
			int a2 = (int) vf_range(r, A_CANCEL, A_FREE);
			if (a2 == A_CLOSE && (cx->kind == K_SLEEP || cx->kind == K_PROVIDER)) a2 = A_CANCEL;
			if (a2 == A_FREE && (cx->kind == K_SOCKSEND || a->nocb || p.act[i] != A_CLOSE)) a2 = A_STOP;
			if (p.act[i] == A_FREE && a2 != A_CLOSE) a2 = A_NONE;
			if (a2 == A_FREE) a->resubmits_left = 0;
			p.act2[i]       = a2;
			p.act2_at_us[i] = p.act_at_us[i] + (int) vf_below(r, 400) - 200;
			if (p.act2_at_us[i] < 0) p.act2_at_us[i] = 0;
		}
		if (supersede) {
			// act: the superseding send; act2: what ends the context / the aio afterwards
			int after       = p.act[i] == A_NONE || p.act[i] == A_FREE ? A_CLOSE : p.act[i];
			p.act[i]        = A_SUPERSEDE;
			a->resubmits_left = vf_chance(r, 1, 2) ? 0 : a->resubmits_left;
			p.act2[i]       = vf_chance(r, 2, 3) ? A_CLOSE : after;
			p.act2_at_us[i] = p.act_at_us[i] + (int) vf_range(r, 200, 3000);
		}
		if (mixed_batch && a->kind == K_SLEEP) {
			p.act[i]       = vf_chance(r, 2, 3) ? A_CANCEL : A_STOP;
			p.act_at_us[i] = base_ms * 1000 + (int) vf_below(r, 2500);
		}
		if (tmo < 0 && (p.act[i] == A_NONE) && cx->kind != K_SLEEP && cx->kind != K_DIAL) {
			// nothing would end it: give it a timeout (the harness cancels at the end anyway)
			atomic_store(&a->timeout_ms, (int) vf_range(r, 5, 60));
		}
	}
	p.complete_at_us = base_ms * 1000 + (int) vf_below(r, 2000) - 1000;
	if (p.complete_at_us < 0) p.complete_at_us = 0;
	p.ncomplete = (int) vf_range(r, 0, 4);

	// pre-start abort for some
	for (int i = 0; i < cx->nrec; i++) {
		if (p.act[i] == A_ABORT && p.act_at_us[i] == 0 && vf_chance(r, 1, 2)) {
			cx->rec[i].prestart_abort = true;
			do_abort(&cx->rec[i]);
			p.act[i] = A_NONE;
		}
	}
	pthread_t ta, ta2, tc;
	actorarg  aa1 = { &p, p.act, p.act_at_us }, aa2 = { &p, p.act2, p.act2_at_us };
	bool      two = false;
	for (int i = 0; i < cx->nrec; i++) two = two || p.act2[i] != A_NONE;
	atomic_store(&cur_cx, cx);
	pthread_create(&tc, NULL, completer_thread, &p);
	for (int i = 0; i < cx->nrec; i++) submit(&cx->rec[i], false);
	for (int i = 0; i < cx->nrec; i++) {
		if (cx->rec[i].nocb) pthread_create(&cx->rec[i].waiter, NULL, waiter_thread, &cx->rec[i]);
	}
	pthread_create(&ta, NULL, actor_thread, &aa1);
	if (two) pthread_create(&ta2, NULL, actor_thread, &aa2);
	pthread_join(ta, NULL);
	if (two) pthread_join(ta2, NULL);
	pthread_join(tc, NULL);

	// let natural completions / timeouts play out briefly, then end everything
	vf_msleep(base_ms + 5);
	finish_records(cx);
	// an operation submitted after nng_aio_stop has returned is refused: one
	// completion with NNG_ESTOPPED, and it has no effect (the provider is not
	// started, no message is consumed - the conservation checks below run
	// after this)
	for (int i = 0; i < cx->nrec; i++) {
		arec *a = &cx->rec[i];
		// (not on an aio that has reported NNG_ESTOPPED already: its user
		// must not submit again, a debug build asserts that)
		if (atomic_load(&a->freed) || !vf_chance(r, 1, 2) || atomic_load(&a->results[3]) != 0) continue;
		int before = atomic_load(&a->n_cb);
		atomic_store(&a->post_stop, 1);
		submit(a, false);
		// (a refused operation is over at once; one that is still pending
		// after 10 s was started - end it, do not hang in nng_aio_wait)
		for (int k = 0; nng_aio_busy(a->aio) && k < 10000; k++) vf_msleep(1);
		if (nng_aio_busy(a->aio)) {
			char key[96];
			snprintf(key, sizeof(key), "C02/start-after-stop/%s/pending", kind_names[a->kind]);
			vf_violation(key, "%s: an operation submitted after nng_aio_stop returned is still pending after 10 s: it was started", kind_names[a->kind]);
			if (a->kind == K_PROVIDER) prov_complete(a);
			do_cancel(a);
		}
		nng_aio_wait(a->aio);
		if (a->nocb && atomic_load(&a->n_cb) == before) complete(a, false);
		if (atomic_load(&a->n_cb) != before + 1) {
			char key[96];
			snprintf(key, sizeof(key), "C02/start-after-stop/%s/completions", kind_names[a->kind]);
			vf_violation(key, "%s: an operation submitted after nng_aio_stop returned had %d completions when nng_aio_wait returned (expected 1)", kind_names[a->kind], atomic_load(&a->n_cb) - before);
		}
		if (a->kind == K_PROVIDER) {
			pthread_mutex_lock(&prov_mtx);
			bool owned = a->prov_owned;
			pthread_mutex_unlock(&prov_mtx);
			if (owned) vf_violation("C02/start-after-stop/provider/started", "nng_aio_start returned true on an aio whose nng_aio_stop had returned");
		}
		vf_stat("start_after_stop", 1);
		vf_stat("operations", 1);
	}
	// conservation for socket receives (pair1 is lossless): sent == received
	// ok + still queued
	if (cx->kind == K_SOCKRECV && !atomic_load(&cx->rec[0].close_issued)) {
		int queued = 0;
		nng_msg *m;
		vf_quiesce(1, 500);
		nng_socket_set_ms(cx->s, NNG_OPT_RECVTIMEO, 100);
		while (nng_recvmsg(cx->s, &m, 0) == 0) {
			nng_msg_free(m);
			queued++;
		}
		int sent = atomic_load(&cx->msgs_sent), ok = atomic_load(&cx->msgs_recv_ok);
		if (sent != ok + queued) {
			vf_violation("C02/recv-conservation", "pair1: peer sent %d, receives that completed with 0: %d, drained afterwards: %d (a failed receive consumed a message, or one was duplicated)", sent, ok, queued);
		}
		vf_stat("conservation_checked", 1);
	}
	// the same for the receive paths of PULL, PAIR0 and REP contexts (lossless
	// towards a receiver that is slow): a message the peer's send accepted is
	// delivered by exactly one successful receive or is still there afterwards
	if ((cx->kind == K_CTXRECV || (cx->kind == K_PROTORECV && (cx->sub == PR_PULL || cx->sub == PR_PAIR0))) && !atomic_load(&cx->rec[0].close_issued)) {
		nng_msg *m;
		int      drained = 0, nsent = 0;
		vf_quiesce(1, 500);
		nng_socket_set_ms(cx->s, NNG_OPT_RECVTIMEO, 100);
		while (nng_recvmsg(cx->s, &m, 0) == 0) {
			uint32_t tag = 99;
			if (nng_msg_len(m) >= 4) nng_msg_trim_u32(m, &tag);
			if (tag < 64 && cx->recv_tag[tag] < 200) cx->recv_tag[tag]++;
			nng_msg_free(m);
			drained++;
		}
		for (int t = 0; t < 64; t++) {
			nsent += cx->sent_tag[t];
			if (cx->recv_tag[t] != cx->sent_tag[t]) {
				char key[96];
				snprintf(key, sizeof(key), "C02/recv-conservation/%s%s%s", kind_names[cx->kind], cx->kind == K_PROTORECV ? ":" : "", cx->kind == K_PROTORECV ? pr_names[cx->sub] : "");
				vf_violation(key, "%s: message #%d was %s by the peer and received %d time(s) (successful receives + %d drained afterwards): a receive that reported an error consumed it, or it was delivered twice", kind_names[cx->kind], t, cx->sent_tag[t] ? "sent" : "not sent", cx->recv_tag[t], drained);
				break;
			}
		}
		vf_stat("recv_conservation2_checked", 1);
		vf_stat("recv_conservation2_msgs", nsent);
	}
	// stream receive: the bytes the peer wrote are delivered by successful
	// receives, in order, or are still unread
	if (cx->kind == K_STREAMRECV && !atomic_load(&cx->rec[0].close_issued) && !atomic_load(&cx->stream_unknown)) {
		nng_aio *a;
		long     drained = 0;
		arec    *r0 = &cx->rec[0];
		nng_aio_alloc(&a, NULL, NULL);
		for (;;) {
			uint8_t buf[64];
			nng_iov iov = { buf, sizeof(buf) };
			nng_aio_set_iov(a, 1, &iov);
			nng_aio_set_timeout(a, 100);
			nng_stream_recv(cx->st_a, a);
			nng_aio_wait(a);
			if (nng_aio_result(a) != 0) break;
			size_t n = nng_aio_count(a);
			for (size_t j = 0; j < n; j++) {
				if (buf[j] != (uint8_t) ((r0->rx_off + j) & 0xff)) {
					vf_violation("C02/stream-recv-gap", "stream: byte %u at offset %zu while draining, expected %u (bytes were consumed by a receive that reported an error)", buf[j], r0->rx_off + j, (unsigned) ((r0->rx_off + j) & 0xff));
					break;
				}
			}
			r0->rx_off += n;
			drained += (long) n;
		}
		nng_aio_free(a);
		long sent = atomic_load(&cx->stream_sent), ok = atomic_load(&cx->stream_recv_ok);
		if (sent != ok + drained) {
			vf_violation("C02/stream-recv-conservation", "stream: peer wrote %ld bytes, successful receives delivered %ld, %ld were still unread (a receive that reported an error consumed bytes, or bytes were delivered twice)", sent, ok, drained);
		}
		vf_stat("stream_conservation_checked", 1);
		vf_stat("stream_conservation_bytes", sent);
	}
	atomic_store(&cur_cx, NULL);
	// PUSH / PAIR0 socket sends and REQ context sends: a send that completed
	// with 0 reaches the peer exactly once, a send that failed never does
	if (((cx->kind == K_PROTOSEND && (cx->sub == PS_PUSH || cx->sub == PS_PAIR0)) || cx->kind == K_REQSEND) && cx->connected && !atomic_load(&cx->rec[0].close_issued)) {
		nng_msg *m;
		int      nok = 0;
		vf_quiesce(1, 500);
		nng_socket_set_ms(cx->peer, NNG_OPT_RECVTIMEO, 100);
		while (nng_recvmsg(cx->peer, &m, 0) == 0) protolog_add(cx, m);
		for (int i = 0; i < cx->nrec; i++) {
			int ns = atomic_load(&cx->rec[i].n_submit);
			for (int q = 0; q < ns && q < 40; q++) {
				int  st = cx->rec[i].send_rv[q], got = cx->got[i][q];
				char key[96];
				nok += st == 1;
				if (st == 1 && got != 1) {
					snprintf(key, sizeof(key), "C02/%s/%s%s%s", got == 0 ? "send-ok-but-lost" : "send-duplicated", kind_names[cx->kind], cx->kind == K_PROTOSEND ? ":" : "", cx->kind == K_PROTOSEND ? ps_names[cx->sub] : "");
					vf_violation(key, "%s: send #%d of aio %d completed with 0 but the peer received it %d times", kind_names[cx->kind], q + 1, i, got);
				} else if (st == 2 && got != 0) {
					snprintf(key, sizeof(key), "C02/send-failed-but-delivered/%s%s%s", kind_names[cx->kind], cx->kind == K_PROTOSEND ? ":" : "", cx->kind == K_PROTOSEND ? ps_names[cx->sub] : "");
					vf_violation(key, "%s: send #%d of aio %d completed with an error but the peer received the message %d time(s)", kind_names[cx->kind], q + 1, i, got);
				}
			}
		}
		vf_stat("send_conservation2_checked", 1);
		vf_stat("send_conservation2_ok_sends", nok);
	}
	// conservation for sends (pair1 is lossless): a send that completed with 0
	// is received exactly once, a send that failed is never received
	if (cx->kind == K_SOCKSEND && !atomic_load(&cx->rec[0].close_issued)) {
		nng_msg *m;
		vf_quiesce(1, 500);
		nng_socket_set_ms(cx->peer, NNG_OPT_RECVTIMEO, 100);
		while (nng_recvmsg(cx->peer, &m, 0) == 0) sendlog_add(cx, m);
		for (int i = 0; i < cx->nrec; i++) {
			int ns = atomic_load(&cx->rec[i].n_submit);
			for (int q = 0; q < ns && q < 40; q++) {
				int st = cx->rec[i].send_rv[q], got = cx->got[i][q];
				if (st == 1 && got != 1) {
					char tl[400];
					size_t tn = 0;
					tl[0] = 0;
					for (int z = 0; z < cx->nrec; z++) {
						tn += (size_t) snprintf(tl + tn, sizeof(tl) - tn, " aio%d[act=%s@%dus subs=%d:", z, act_names[p.act[z]], p.act_at_us[z], atomic_load(&cx->rec[z].n_submit));
						for (int y = 0; y < atomic_load(&cx->rec[z].n_submit) && y < 12 && tn + 8 < sizeof(tl); y++) tn += (size_t) snprintf(tl + tn, sizeof(tl) - tn, "%d/%d,", cx->rec[z].send_rv[y], cx->got[z][y]);
						if (tn + 2 < sizeof(tl)) tn += (size_t) snprintf(tl + tn, sizeof(tl) - tn, "]");
					}
					vf_violation(got == 0 ? "C02/send-ok-but-lost" : "C02/send-duplicated", "pair1 send #%d of aio %d completed with 0 but the peer received it %d times; per aio: action, submissions, then result(1 ok,2 failed)/times-received per submission:%s", q, i, got, tl);
				} else if (st == 2 && got != 0) {
					vf_violation("C02/send-failed-but-delivered", "pair1 send #%d of aio %d completed with an error but the peer received the message %d time(s)", q, i, got);
				}
			}
		}
		vf_stat("send_conservation_checked", 1);
	}
	for (int i = 0; i < cx->nrec; i++) {
		arec *a = &cx->rec[i];
		if (!atomic_load(&a->freed)) {
			nng_aio_free(a->aio);
			atomic_store(&a->freed, 1);
		}
		for (int k = 0; k < 7; k++) {
			if (atomic_load(&a->results[k])) vf_class("%s/act=%s/outcome-slot%d/pert=%s", kind_names[a->kind], act_names[p.act[i]], k, pert == 0 ? "none" : pert == 1 ? "jitter" : vf_pt_name(target));
		}
		if (p.act2[i] != A_NONE && atomic_load(&a->n_cb) > 0) {
			vf_class("%s/act=%s+%s", kind_names[a->kind], act_names[p.act[i]], act_names[p.act2[i]]);
			vf_class("two-actions/%s+%s", act_names[p.act[i] < p.act2[i] ? p.act[i] : p.act2[i]], act_names[p.act[i] < p.act2[i] ? p.act2[i] : p.act[i]]);
			vf_stat("two_action_records", 1);
		}
	}
	// tear down
	switch (cx->kind) {
	case K_SOCKRECV:
	case K_SOCKSEND:
	case K_PROTORECV:
	case K_PROTOSEND:
		nng_socket_close(cx->s);
		nng_socket_close(cx->peer);
		break;
	case K_SURVRECV:
		for (int i = 0; cx->surv_ctx && i < cx->nrec; i++) nng_ctx_close(cx->ctx[i]);
		nng_socket_close(cx->s);
		nng_socket_close(cx->peer);
		break;
	case K_REQSEND:
	case K_REQRECV:
	case K_CTXRECV:
		for (int i = 0; i < cx->nrec; i++) nng_ctx_close(cx->ctx[i]);
		nng_socket_close(cx->s);
		nng_socket_close(cx->peer);
		break;
	case K_DEVICE:
		// (the device closes its two sockets itself when it ends)
		nng_socket_close(cx->dev1);
		nng_socket_close(cx->dev2);
		nng_socket_close(cx->dpeer1);
		nng_socket_close(cx->dpeer2);
		break;
	case K_DIAL:
		nng_socket_close(cx->s);
		if (nng_socket_id(cx->peer) > 0) nng_socket_close(cx->peer);
		break;
	case K_STREAMDIAL:
	case K_ACCEPT:
	case K_STREAMSEND:
	case K_STREAMRECV:
		for (int i = 0; i < atomic_load(&cx->naccepted) && i < 64; i++) {
			if (cx->accepted[i]) { nng_stream_close(cx->accepted[i]); nng_stream_stop(cx->accepted[i]); nng_stream_free(cx->accepted[i]); }
		}
		if (cx->st_a) { nng_stream_close(cx->st_a); nng_stream_stop(cx->st_a); nng_stream_free(cx->st_a); }
		if (cx->st_b) { nng_stream_close(cx->st_b); nng_stream_stop(cx->st_b); nng_stream_free(cx->st_b); }
		nng_stream_dialer_close(cx->sd);
		nng_stream_dialer_stop(cx->sd);
		nng_stream_dialer_free(cx->sd);
		if (cx->sl != NULL) {
			nng_stream_listener_close(cx->sl);
			nng_stream_listener_stop(cx->sl);
			nng_stream_listener_free(cx->sl);
		}
		break;
	default:
		break;
	}
	vf_pt_off();
	// late callbacks would touch freed records: give them a moment, then the
	// 'freed' flag check in cb reports them (records are intentionally leaked
	// for a while: freed at the end of the next case)
	static casectx *prev;
	if (prev) free(prev);
	prev = cx;
	vf_stat("cases", 1);
	if ((idx & 15) == 0) vf_sample("{\"kind\":\"%s\",\"aios\":%d,\"pert\":\"%s\",\"act0\":\"%s@%dus\",\"timeout0\":%d,\"base_ms\":%d}", kind_names[cx->kind], cx->nrec, pert == 0 ? "none" : pert == 1 ? "jitter" : vf_pt_name(target), act_names[p.act[0]], p.act_at_us[0], atomic_load(&cx->rec[0].timeout_ms), base_ms);
	vf_watchdog(60);
	(void) rep_reply_all;
}

// ====================================================================== grid
// Enumerated, targeted scenarios around one expiry batch (mode "grid").
// One expire queue.  Three aios are submitted in this order (= order in the
// expire list): a gate G (provider; its cancel function keeps the expire
// thread busy until the deadlines of the other two have certainly passed),
// P (an operation with a real cancel function) and Q behind it.  When the
// expire loop picks P (hook event, the logical anchor of the scenario) an
// action {cancel, abort, stop} is issued on Q, i.e. while the loop is between
// P and Q.  Three delays are active at the same time: d1 at "between two aios
// of a batch" (when the loop reaches Q), d2 at "cancel function swapped out,
// not yet called" (when the canceller calls Q's cancel function), d3 at
// "before nni_aio_start takes the lock" (when the re-submission from Q's
// callback becomes visible); they are permuted over a grid so that every order
// of the three occurs.  Family 0: Q is a sleep (the loop completes it itself).
// Family 1: Q is a provider operation that a completer finishes naturally at
// a chosen instant ("the cancel lands on the next operation" lives here: an
// early NNG_ETIMEDOUT through the expire loop is the known finding of DESIGN
// 9.3, an NNG_ECANCELED from a cancel call still in progress is legitimate).
// Oracles are the ones of every other case (cb, finish_records, hook keys).
enum { GP_PROVIDER, GP_PAIR0RECV, GP_REPCTXRECV, GP_N };
static const char *gp_names[] = { "provider", "pair0-recv", "rep-ctx-recv" };
static const int grid3_us[3] = { 300, 5000, 10000 };
static const int grid2_us[2] = { 300, 6000 };
#define GRID_F0 (GP_N * 3 * 2 * 27)     // P kind x action x resubmission variant x d1 d2 d3
#define GRID_F1 (3 * 2 * 2 * 2 * 8)     // action x action offset x completion instant x Q's cancel delay x d1 d2 d3
#define GRID_TOTAL (GRID_F0 + GRID_F1)

typedef struct {
	casectx *cx;
	arec    *q;
	int      at_us; // after the anchor
} gridcompleter;

static void *
grid_completer(void *arg)
{
	gridcompleter *g = arg;
	uint64_t       a;
	for (int k = 0; (a = atomic_load(&grid_anchor)) == 0 && k < 40000; k++) vf_usleep(50);
	if (a == 0) return NULL;
	int64_t wait = (int64_t) g->at_us - (int64_t) ((vf_now_ns() - a) / 1000);
	if (wait > 0) vf_usleep((int) wait);
	if (prov_complete(g->q)) vf_stat("grid_natural_completions", 1);
	return NULL;
}

static void
run_grid_case(long idx, vf_rng *r)
{
	casectx *cx  = calloc(1, sizeof(*cx));
	long     g   = idx % GRID_TOTAL;
	int      fam = g < GRID_F0 ? 0 : 1;
	int      pk = GP_PROVIDER, act, resub = 0, d1, d2, d3, act_off = 0, nat_us = 0, cdq = 0;
	static const int acts[3] = { A_CANCEL, A_ABORT, A_STOP };

	if (fam == 0) {
		long k = g;
		d3 = grid3_us[k % 3]; k /= 3;
		d2 = grid3_us[k % 3]; k /= 3;
		d1 = grid3_us[k % 3]; k /= 3;
		resub = (int) (k % 2); k /= 2;
		act = acts[k % 3]; k /= 3;
		pk = (int) (k % GP_N);
	} else {
		long k = g - GRID_F0;
		d3 = grid2_us[k % 2]; k /= 2;
		d2 = grid2_us[k % 2]; k /= 2;
		d1 = grid2_us[k % 2]; k /= 2;
		cdq = (k % 2) ? 5000 : 0; k /= 2;
		nat_us = (k % 2) ? 6000 : 1000; k /= 2;
		act_off = (k % 2) ? 3000 : 0; k /= 2;
		act = acts[k % 3];
	}
	// (the seed moves every delay a little)
	d1 += (int) vf_below(r, 400);
	d2 += (int) vf_below(r, 400);
	d3 += (int) vf_below(r, 400);
	int T = (int) vf_range(r, 4, 7);

	vf_pt_off();
	vf_case_begin(idx, "grid family=%d P=%s Q=%s act=%s resub=%d d1=%dus d2=%dus d3=%dus act_off=%dus natural=%dus qcancel=%dus T=%dms", fam, gp_names[pk], fam == 0 ? "sleep" : "provider", act_names[act], resub, d1, d2, d3, act_off, nat_us, cdq, T);

	cx->kind = K_PROTORECV;
	cx->sub  = PR_PAIR0;
	cx->nrec = 3;
	if (pk == GP_PAIR0RECV) {
		if (nng_pair0_open(&cx->s)) vf_harness_fail("open");
	} else if (pk == GP_REPCTXRECV) {
		if (nng_rep0_open(&cx->s) || nng_ctx_open(&cx->ctx[1], cx->s)) vf_harness_fail("open");
	}
	arec *G = &cx->rec[0], *P = &cx->rec[1], *Q = &cx->rec[2];
	for (int i = 0; i < 3; i++) {
		arec *a = &cx->rec[i];
		a->idx = i;
		a->cx  = cx;
		if (nng_aio_alloc(&a->aio, cb, a) != 0) vf_harness_fail("aio alloc");
		a->resubmit_timeout = 10000; // a re-submitted operation that times out early shows
		atomic_store(&a->timeout_ms, -1);
	}
	G->kind = K_PROVIDER;
	atomic_store(&G->timeout_ms, T);
	P->kind = pk == GP_PROVIDER ? K_PROVIDER : pk == GP_PAIR0RECV ? K_PROTORECV : K_CTXRECV;
	atomic_store(&P->timeout_ms, T + 3);
	P->resubmits_left = resub ? 1 : 0;
	if (fam == 0) {
		Q->kind = K_SLEEP;
		atomic_store(&Q->sleep_ms, T + 3);
		Q->resubmits_left = 2;
	} else {
		Q->kind = K_PROVIDER;
		atomic_store(&Q->timeout_ms, T + 3);
		Q->resubmits_left  = 2;
		Q->cancel_delay_us = cdq;
	}
	Q->dwell_us = vf_chance(r, 1, 2) ? (int) vf_range(r, 50, 300) : 0;

	atomic_store(&grid_anchor, 0);
	atomic_store(&grid_anchor_aio, (const void *) P->aio);
	atomic_store(&cur_cx, cx);
	// the gate opens when the clock is past both deadlines (each is at most
	// "clock after both were submitted" + T + 3)
	atomic_store(&G->gate_until, (uint64_t) nng_clock() + 1000);
	submit(G, false);
	submit(P, false);
	submit(Q, false);
	atomic_store(&G->gate_until, (uint64_t) nng_clock() + (uint64_t) T + 3);
	vf_pt_target(NNI_VP_AIO_EXPIRE_BETWEEN, 1000, d1, d1);
	vf_pt_target(NNI_VP_AIO_ABORT_UNLOCKED, 1000, d2, d2);
	vf_pt_target(NNI_VP_AIO_START, 1000, d3, d3);

	pthread_t     tc;
	gridcompleter gc = { cx, Q, nat_us };
	if (fam == 1) pthread_create(&tc, NULL, grid_completer, &gc);

	// the anchor: the expire loop has picked P (it is about to call, or is
	// inside, P's cancel function; Q is due as well)
	uint64_t anchor = 0;
	for (long k = 0; (anchor = atomic_load(&grid_anchor)) == 0 && k < 4000000; k++) {
		if (k < 200000) sched_yield(); else vf_usleep(50);
	}
	uint64_t t_act = 0, t_ret = 0;
	if (anchor == 0) {
		vf_stat("grid_no_anchor", 1);
	} else {
		if (act_off) {
			int64_t wait = (int64_t) act_off - (int64_t) ((vf_now_ns() - anchor) / 1000);
			if (wait > 0) vf_usleep((int) wait);
		}
		t_act = vf_now_ns();
		switch (act) {
		case A_CANCEL: do_cancel(Q); break;
		case A_ABORT: do_abort(Q); break;
		default:
			atomic_store(&Q->stop_issued, 1);
			nng_aio_stop(Q->aio);
			atomic_store(&Q->stop_returned, 1);
			check_not_running(Q, "stop");
			break;
		}
		t_ret = vf_now_ns();
		vf_stat("grid_anchored", 1);
	}
	if (fam == 1) pthread_join(tc, NULL);
	// let the three delays and the re-submissions play out
	vf_usleep(d1 + d2 + d3 + 3000);
	// what happened, in which order?  L: the loop reached Q (hook event; absent
	// if Q had completed before), C: the canceller came back from Q's cancel
	// function, R: the first re-submission of Q took effect (hook event)
	if (anchor != 0) {
		uint64_t tL = atomic_load(&Q->t_pick1), tR = atomic_load(&Q->t_begin2);
		const char *order;
		if (tL == 0) order = tR == 0 ? "C-only" : (t_ret < tR ? "C<R,no-L" : "R<C,no-L");
		else if (tR == 0) order = tL < t_ret ? "L<C,no-R" : "C<L,no-R";
		else if (tL < t_ret && t_ret < tR) order = "L<C<R";
		else if (tL < tR && tR < t_ret) order = "L<R<C";
		else if (t_ret < tL && tL < tR) order = "C<L<R";
		else if (t_ret < tR && tR < tL) order = "C<R<L";
		else if (tR < tL && tL < t_ret) order = "R<L<C";
		else order = "R<C<L";
		vf_class("grid/Q=%s/act=%s/order=%s", fam == 0 ? "sleep" : "provider", act_names[act], order);
		vf_class("grid/P=%s/Q=%s/act=%s/resubP=%d", gp_names[pk], fam == 0 ? "sleep" : "provider", act_names[act], resub);
		(void) t_act;
	}
	vf_pt_off();
	atomic_store(&G->gate_until, 0);
	finish_records(cx);
	atomic_store(&cur_cx, NULL);
	atomic_store(&grid_anchor_aio, NULL);
	for (int i = 0; i < 3; i++) {
		nng_aio_free(cx->rec[i].aio);
		atomic_store(&cx->rec[i].freed, 1);
	}
	if (pk == GP_REPCTXRECV) nng_ctx_close(cx->ctx[1]);
	if (pk != GP_PROVIDER) nng_socket_close(cx->s);
	static casectx *prev;
	if (prev) free(prev);
	prev = cx;
	vf_stat("cases", 1);
	vf_stat("grid_cases", 1);
	vf_watchdog(60);
}


int
main(int argc, char **argv)
{
	vf_init(argc, argv);
	vf_ev_hook(ev_hook);
	vf_rng r;
	static const int shapes[][3] = { { 2, 1, 1 }, { 16, 8, 4 }, { 4, 2, 2 }, { 2, 1, 1 } };
	int inited = 0;
	bool grid = !strcmp(vf_mode, "grid");
	long own = 0;
	for (long i = 0; grid && i < vf_cases; i++) {
		// enumerated: the workers split the grid
		if (!vf_want_case(i) || (vf_only < 0 && (i % vf_nshards) != vf_shard)) continue;
		if (!inited || (own % 40) == 0) {
			if (inited) vf_nng_fini("C02");
			vf_nng_init((own / 40) % 2 ? 4 : 2, 1, 1); // ONE expire queue
			inited = 1;
		}
		own++;
		vf_rng_seed(&r, vf_seed, (uint64_t) i);
		case_no = i;
		run_grid_case(i, &r);
	}
	for (long i = 0; !grid && i < vf_cases; i++) {
		if (!vf_want_case(i)) continue;
		if (!inited || (i % 40) == 0) {
			if (inited) vf_nng_fini("C02");
			const int *sh = shapes[(vf_mix64(vf_seed + (uint64_t) (i / 40)) >> 8) % 4];
			vf_nng_init(sh[0], sh[1], sh[2]);
			vf_class("pool-shape/%d-%d-%d", sh[0], sh[1], sh[2]);
			inited = 1;
		}
		vf_rng_seed(&r, vf_seed, (uint64_t) i);
		case_no = i;
		run_case(i, &r);
	}
	for (int s = 0; s < NNI_VP_NSITES; s++) {
		if (vf_pt_delays(s)) {
			char k[64];
			snprintf(k, sizeof(k), "delays@%s", vf_pt_name(s));
			vf_stat(k, vf_pt_delays(s));
		}
	}
	vf_stat("hook_aio_begin", vf_ev_count(NNI_VE_AIO_BEGIN));
	vf_stat("hook_aio_refused", vf_ev_count(NNI_VE_AIO_REFUSED));
	vf_stat("hook_aio_finish", vf_ev_count(NNI_VE_AIO_FINISH));
	vf_stat("hook_aio_expire", vf_ev_count(NNI_VE_AIO_EXPIRE));
	if (inited) vf_nng_fini("C02");
	return vf_finish();
}
