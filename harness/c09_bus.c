// C09: BUS fan-out: every other peer at most once, never echoed; raw mode
// skips the pipe named in the header; send never blocks; per-peer order;
// whole-message drops only.
//
// Real BUS sockets in this process (inproc/ipc/tcp).  Every message body is
// self-describing (vf_body_make: tag = sending node, seq = that node's send
// counter, length, CRC).  Every node has a receiver thread that logs
// (from, seq, receiving pipe); an offline checker walks the logs.
//
//   mode mesh   : 2-5 cooked nodes, full/partial meshes, queue depths 1..16,
//                 lock-step bursts that fit the queues (must all arrive at
//                 every neighbour), free-running bursts that overflow them
//                 (drops allowed), buffer resizes under traffic, nodes
//                 joining/leaving and pipes being closed under traffic; a
//                 paused receiver overflows its receive queue alone (at
//                 least RECVBUF messages must survive); a last
//                 flow-controlled phase during which pipes leave / arrive
//                 (mesh_event_phase): untouched pairs must lose nothing.
//   mode raw    : a raw BUS socket in the middle of 2-4 leaves, forwarding by
//                 a harness thread (recv -> send unchanged, total forwarding
//                 order known) or by nng_device (reflector / two-socket
//                 bridge, all judged alike: lock-step, flow-controlled,
//                 probe after overflow); direct raw sends with no header,
//                 with a header naming an attached pipe, with a header
//                 naming a pipe that is not attached to this socket (must
//                 reach everybody), with a header that is not one word.
//   mode noblock: raw TCP/IPC peers that complete the SP handshake as BUS and
//                 then stop reading; every blocking / aio send returns 0
//                 (bounded only by the watchdog); afterwards the stalled
//                 peers read what the wire carries: whole frames, increasing
//                 seqs, no duplicates, and the pipe is offered new messages.
#include "vfh.h"
#include "core/verif.h"
#include <errno.h>
#include <poll.h>
#include <pthread.h>
#include <stdarg.h>
#include <stdatomic.h>
#include <sys/socket.h>
#include <unistd.h>

#define MAXN 12
#define SEQCAP 8000
#define NS (2 * MAXN) // send streams: node id, or MAXN + node id for a
                    // second sending thread on the same socket
#define LOGCAP (NS * SEQCAP)
#define TAGBASE 0xB5090000u
#define MAXPIPES 64

typedef struct {
	uint8_t  from;
	uint32_t seq;
	uint32_t pipe;
} rec;

typedef struct node {
	int        id;
	nng_socket s;
	bool       used, raw, open, is_fwd, device_owned;
	int        sendbuf, recvbuf;
	int        rstyle; // 0 blocking timed, 1 aio, 2 lazy
	int        sstyle; // 0 sendmsg, 1 nng_send, 2 aio, 3 aio window
	int        degree;
	_Atomic long adds, rems;
	pthread_t  rth, sth;
	bool       rrun, srun;
	_Atomic int rstop, rpause, rparked;
	rec       *log;
	_Atomic long     nlog;
	_Atomic int      sstop;
	int              chunk_max, chunk_fit;
	_Atomic uint64_t hi_from[NS];  // 1 + highest seq logged per stream
	_Atomic uint64_t win_lo[NS];   // lock-step window start per stream
	_Atomic long     win_got[NS];  // logged with seq >= win_lo
	_Atomic long     cnt_from[NS]; // logged in total per stream
	uint64_t         next_seq;     // primary stream: one thread at a time
	uint64_t         next_seq2;    // second stream (its own thread)
	pthread_t        sth2;
	bool             srun2;
	int              flow_w;       // > 0: flow-controlled sender, window
	int              flow_n;
	_Atomic uint32_t flow_mask;    // receivers that must log everything
	bool             pipekeyed;    // links of this node were re-made
	long             flow_base[MAXN];
	_Atomic int      sdone;
	_Atomic long     sent;
	int              burst_n, burst_big, pace_us;
	uint64_t         rkey;
	pthread_mutex_t *pmtx;
	nng_pipe         pipes[MAXPIPES];
	int              npipes;
} node;

static node N[MAXN];
static rec *logs[MAXN];
static pthread_mutex_t pmtxs[MAXN];
static bool expect[MAXN][MAXN]; // expect[s][r]: r is offered what s sends
static const char *g_mode = "mesh";
static bool        g_pipekeyed; // links were re-made: order per (sender,pipe)
static bool        g_fwd_known; // total forwarding order is known (raw/fwd)
static int         g_fwd_id = -1;

// raw forwarding bookkeeping
static pthread_mutex_t fmtx = PTHREAD_MUTEX_INITIALIZER;
static uint32_t        fwd_at[NS][SEQCAP];   // forwarding index, 0 = never
static uint32_t        fcount;
static int8_t          dexcl[SEQCAP];        // direct send: excluded leaf or -1
static _Atomic uint32_t pipe_of[MAXN];       // forwarder's pipe id per leaf
static _Atomic int      fwd_lazy;
static _Atomic long     fwd_count, fwd_hdr_ok;

// violation key = C09/<clause>/<mode or situation>
// a 'not-offered' verdict costs a 30 s wait: after the first one this worker
// stops taking new cases (the verdict is in; the rest would only be slow)
static int g_abort;
#define VIOL(clause, disc, ...) \
	do { \
		if (!strcmp(clause, "not-offered")) g_abort = 1; \
		char k_[128]; \
		snprintf(k_, sizeof(k_), "C09/%s/%s", clause, disc); \
		vf_violation(k_, __VA_ARGS__); \
	} while (0)

static __thread int t_second; // this thread sends the node's second stream
static const char  *g_flow_what = "flow-controlled"; // discriminator of flow verdicts
static const char  *g_dev_stat;  // delivery stat of the nng_device variants
// closes are asynchronous (nni_pipe_close hands the pipe to the reaper): a
// closed dialer's pipes are really detached once every reap that was pending
// has been done
static _Atomic long g_reaps_pending;
static _Atomic int  g_flow_abandon; // give up the running flow phase, no verdict
static void
ev_hook(int ev, const void *obj, uintptr_t a, uintptr_t b)
{
	(void) obj;
	(void) a;
	(void) b;
	if (ev == NNI_VE_REAP_BEGIN) atomic_fetch_add(&g_reaps_pending, 1);
	if (ev == NNI_VE_REAP_END) atomic_fetch_sub(&g_reaps_pending, 1);
}
static char         g_ev_note[256]; // pipe events of the running flow phase (for the report)
static pthread_mutex_t evmtx = PTHREAD_MUTEX_INITIALIZER;
static void
ev_note(const char *fmt, ...)
{
	va_list ap;
	pthread_mutex_lock(&evmtx);
	size_t l = strlen(g_ev_note);
	va_start(ap, fmt);
	if (l < sizeof(g_ev_note) - 1) vsnprintf(g_ev_note + l, sizeof(g_ev_note) - l, fmt, ap);
	va_end(ap);
	pthread_mutex_unlock(&evmtx);
}
// raw sends whose header is not one word: what is left of the header travels
// in front of the body (expected offset per seq of the raw socket's 2nd stream)
static uint8_t      odd_off[SEQCAP];
static _Atomic int  g_odd_sent;
static _Atomic long odd_leaked, odd_plain;
static _Atomic long  cooked_hdr_sends;

static uint64_t
stream_sent(int st)
{
	return st < MAXN ? N[st].next_seq : N[st - MAXN].next_seq2;
}

static uint32_t
be32(const uint8_t *p)
{
	return ((uint32_t) p[0] << 24) | ((uint32_t) p[1] << 16) | ((uint32_t) p[2] << 8) | p[3];
}

// ------------------------------------------------------------------ nodes
static void
pipe_cb(nng_pipe p, nng_pipe_ev ev, void *arg)
{
	node *n = arg;
	pthread_mutex_lock(n->pmtx);
	if (ev == NNG_PIPE_EV_ADD_POST) {
		if (n->npipes < MAXPIPES) n->pipes[n->npipes++] = p;
		atomic_fetch_add(&n->adds, 1);
	} else if (ev == NNG_PIPE_EV_REM_POST) {
		for (int i = 0; i < n->npipes; i++) {
			if (nng_pipe_id(n->pipes[i]) == nng_pipe_id(p)) {
				n->pipes[i] = n->pipes[--n->npipes];
				atomic_fetch_add(&n->rems, 1);
				break;
			}
		}
	}
	pthread_mutex_unlock(n->pmtx);
}

static node *
node_open(int id, bool raw, int sendbuf, int recvbuf, bool bufs_first)
{
	node *n = &N[id];
	memset(n, 0, sizeof(*n));
	if (logs[id] == NULL) logs[id] = malloc(sizeof(rec) * LOGCAP);
	n->pmtx = &pmtxs[id];
	n->log  = logs[id];
	n->id   = id;
	n->raw  = raw;
	n->used = true;
	if ((raw ? nng_bus0_open_raw(&n->s) : nng_bus0_open(&n->s)) != 0) vf_harness_fail("bus open");
	n->open = true;
	nng_socket_set_ms(n->s, NNG_OPT_RECVTIMEO, 50);
	nng_socket_set_ms(n->s, NNG_OPT_SENDTIMEO, NNG_DURATION_INFINITE);
	nng_socket_set_ms(n->s, NNG_OPT_RECONNMINT, 3);
	nng_socket_set_ms(n->s, NNG_OPT_RECONNMAXT, 20);
	nng_socket_set_size(n->s, NNG_OPT_RECVMAXSZ, 0);
	n->sendbuf = 16;
	n->recvbuf = 16;
	if (bufs_first) {
		if (nng_socket_set_int(n->s, NNG_OPT_SENDBUF, sendbuf) != 0 || nng_socket_set_int(n->s, NNG_OPT_RECVBUF, recvbuf) != 0)
			vf_harness_fail("set buffers");
		n->sendbuf = sendbuf;
		n->recvbuf = recvbuf;
	}
	if (nng_pipe_notify(n->s, NNG_PIPE_EV_ADD_POST, pipe_cb, n) != 0 || nng_pipe_notify(n->s, NNG_PIPE_EV_REM_POST, pipe_cb, n) != 0)
		vf_harness_fail("pipe notify");
	return n;
}

static void
node_set_bufs(node *n, int sendbuf, int recvbuf)
{
	if (sendbuf > 0) {
		if (nng_socket_set_int(n->s, NNG_OPT_SENDBUF, sendbuf) != 0) vf_harness_fail("set sendbuf");
		n->sendbuf = sendbuf;
	}
	if (recvbuf > 0) {
		if (nng_socket_set_int(n->s, NNG_OPT_RECVBUF, recvbuf) != 0) vf_harness_fail("set recvbuf");
		n->recvbuf = recvbuf;
	}
}

// L listens, D dials (one listener + one dialer per link: one pipe per pair).
// A dialer must never outlive its listener: it would keep redialing a TCP
// port that another process (another worker of this check) may get next.  So
// joiners only dial, and all dialers are closed before any socket is.
static nng_dialer dialers[256];
static int        ndialers;
static nng_listener lnk_l[MAXN][MAXN]; // listener / dialer of the link x-y
static nng_dialer   lnk_d[MAXN][MAXN];

static void
close_dialers(void)
{
	for (int i = 0; i < ndialers; i++) (void) nng_dialer_close(dialers[i]);
	ndialers = 0;
}

static void
link_nodes(node *L, node *D, int tran)
{
	char         url[128], durl[128];
	nng_listener l;
	nng_dialer   d;
	int          rv;
	vf_url(tran, url, sizeof(url));
	if ((rv = nng_listen(L->s, url, &l, 0)) != 0) vf_harness_fail("listen %s: %s", url, nng_strerror(rv));
	if ((rv = vf_dial_url(l, tran, url, durl, sizeof(durl))) != 0) vf_harness_fail("dial url");
	if ((rv = nng_dial(D->s, durl, &d, 0)) != 0) vf_harness_fail("dial %s: %s", durl, nng_strerror(rv));
	if (ndialers >= 256) vf_harness_fail("too many dialers");
	dialers[ndialers++] = d;
	lnk_l[L->id][D->id] = lnk_l[D->id][L->id] = l;
	lnk_d[L->id][D->id] = lnk_d[D->id][L->id] = d;
	L->degree++;
	D->degree++;
}

// x's pipe of the link x-peer (every link has its own listener and dialer)
static nng_pipe
find_pipe(node *x, int peer)
{
	nng_pipe res = NNG_PIPE_INITIALIZER;
	int      lid = nng_listener_id(lnk_l[x->id][peer]), did = nng_dialer_id(lnk_d[x->id][peer]);
	pthread_mutex_lock(x->pmtx);
	for (int i = 0; i < x->npipes; i++) {
		nng_pipe p = x->pipes[i];
		if ((lid > 0 && nng_listener_id(nng_pipe_listener(p)) == lid) || (did > 0 && nng_dialer_id(nng_pipe_dialer(p)) == did)) res = p;
	}
	pthread_mutex_unlock(x->pmtx);
	return res;
}

static void
wait_links(void)
{
	uint64_t end = vf_now_ns() + 20000000000ull;
	for (;;) {
		bool ok = true;
		for (int i = 0; i < MAXN; i++) {
			if (N[i].used && N[i].open && atomic_load(&N[i].adds) - atomic_load(&N[i].rems) < N[i].degree) ok = false;
		}
		if (ok) return;
		if (vf_now_ns() > end) vf_harness_fail("links did not come up");
		vf_usleep(200);
	}
}

// ------------------------------------------------------------------ receive
static void
record(node *n, nng_msg *m)
{
	uint32_t tag = 0;
	uint64_t seq = 0;
	uint32_t pid = (uint32_t) nng_pipe_id(nng_msg_get_pipe(m));
	int      rv;
	if (n->raw) {
		if (nng_msg_header_len(m) != 4 || be32(nng_msg_header(m)) != pid || pid == 0) {
			VIOL("raw-header", "leaf", "%s: raw BUS receive: header length %zu, pipe id in message %u (the header must hold the id of the arrival pipe)", g_mode, nng_msg_header_len(m), pid);
		} else {
			atomic_fetch_add(&fwd_hdr_ok, 1);
		}
	}
	if ((rv = vf_body_check(nng_msg_body(m), nng_msg_len(m), &tag, &seq)) != 0) {
		// a raw send with a header of 1-3 / 8 / 12 bytes: what is left of the
		// header after the origin word was taken is in front of the body
		if (atomic_load(&g_odd_sent) && g_fwd_id >= 0) {
			static const size_t offs[] = { 1, 2, 3, 4, 8 };
			for (int i = 0; i < 5; i++) {
				size_t o = offs[i];
				if (nng_msg_len(m) > o && vf_body_check((uint8_t *) nng_msg_body(m) + o, nng_msg_len(m) - o, &tag, &seq) == 0 && tag == (TAGBASE | (uint32_t) (g_fwd_id + MAXN)) && seq < SEQCAP && odd_off[seq] == o) {
					atomic_fetch_add(&odd_leaked, 1);
					return;
				}
			}
		}
		VIOL("corrupt", g_mode, "%s: node %d received a body of %zu bytes that fails its self-check (%d)", g_mode, n->id, nng_msg_len(m), rv);
		return;
	}
	if (g_fwd_id >= 0 && tag == (TAGBASE | (uint32_t) (g_fwd_id + MAXN))) {
		// the same kind of send arrived without its header rest: the property
		// does not say what becomes of such a header (recorded only)
		atomic_fetch_add(&odd_plain, 1);
		return;
	}
	if ((tag & 0xffffff00u) != TAGBASE || (tag & 0xff) >= NS || seq >= SEQCAP) {
		VIOL("phantom", g_mode, "%s: node %d received tag %08x seq %llu that no node sends", g_mode, n->id, tag, (unsigned long long) seq);
		return;
	}
	int  from = (int) (tag & 0xff);
	long k    = atomic_load(&n->nlog);
	if (k >= LOGCAP) vf_harness_fail("log full");
	n->log[k].from = (uint8_t) from;
	n->log[k].seq  = (uint32_t) seq;
	n->log[k].pipe = pid;
	atomic_store(&n->nlog, k + 1);
	if (seq + 1 > atomic_load(&n->hi_from[from])) atomic_store(&n->hi_from[from], seq + 1);
	if (seq >= atomic_load(&n->win_lo[from])) atomic_fetch_add(&n->win_got[from], 1);
	atomic_fetch_add(&n->cnt_from[from], 1);
}

static void *
receiver_main(void *arg)
{
	node    *n   = arg;
	nng_aio *aio = NULL;
	vf_rng   r;
	vf_rng_seed(&r, n->rkey, 77);
	if (n->rstyle == 1) {
		if (nng_aio_alloc(&aio, NULL, NULL) != 0) vf_harness_fail("aio");
		nng_aio_set_timeout(aio, 50);
	}
	while (!atomic_load(&n->rstop)) {
		nng_msg *m = NULL;
		int      rv;
		if (atomic_load(&n->rpause)) {
			atomic_store(&n->rparked, 1);
			vf_usleep(200);
			continue;
		}
		atomic_store(&n->rparked, 0);
		if (aio) {
			nng_socket_recv(n->s, aio);
			nng_aio_wait(aio);
			rv = nng_aio_result(aio);
			m  = rv == 0 ? nng_aio_get_msg(aio) : NULL;
		} else {
			rv = nng_recvmsg(n->s, &m, 0);
		}
		if (rv == NNG_ETIMEDOUT) continue;
		if (rv == NNG_ECLOSED) break;
		if (rv != 0) vf_harness_fail("recv: %s", nng_strerror(rv));
		record(n, m);
		nng_msg_free(m);
		if (n->rstyle == 2 && vf_chance(&r, 1, 6)) vf_usleep((int) vf_below(&r, 1500));
	}
	if (aio) nng_aio_free(aio);
	return NULL;
}

static void
start_receiver(node *n)
{
	atomic_store(&n->rstop, 0);
	if (pthread_create(&n->rth, NULL, receiver_main, n) != 0) vf_harness_fail("thread");
	n->rrun = true;
}

static void
stop_receiver(node *n)
{
	if (!n->rrun) return;
	atomic_store(&n->rstop, 1);
	pthread_join(n->rth, NULL);
	n->rrun = false;
}

// ------------------------------------------------------------------ send
static const char *sstyle_name[] = { "sendmsg", "send", "aio", "aio-window" };

static nng_msg *
make_msg(node *n, size_t sz, uint64_t *seqp)
{
	nng_msg *m;
	uint64_t seq = t_second ? n->next_seq2++ : n->next_seq++;
	if (seq >= SEQCAP) vf_harness_fail("seq cap");
	sz = vf_body_size(sz);
	if (nng_msg_alloc(&m, sz) != 0) vf_harness_fail("msg alloc");
	vf_body_make(nng_msg_body(m), sz, TAGBASE | (uint32_t) (n->id + (t_second ? MAXN : 0)), seq);
	if (!n->raw && (vf_mix64(seq * 31 + (uint64_t) n->id) & 7) == 0) {
		// a cooked send ignores whatever header the message carries (it may
		// come from a raw socket): nothing of it may reach the peers
		nng_msg_header_append_u32(m, 0xdeadbeefu);
		if (seq & 8) nng_msg_header_append_u32(m, (uint32_t) seq);
		atomic_fetch_add(&cooked_hdr_sends, 1);
	}
	if (seqp) *seqp = seq;
	return m;
}

static void
send_result(node *n, int rv, const char *style)
{
	atomic_fetch_add(&n->sent, 1);
	if (rv != 0) {
		VIOL("send-failed", g_mode, "%s: %s on an open BUS socket (node %d, %s) returned %s; BUS send is best effort and always succeeds", g_mode, style, n->id, n->raw ? "raw" : "cooked", nng_strerror(rv));
	}
}

// one message, blocking styles.  hword: raw header word (only if has_hdr)
static uint64_t
send_one(node *n, size_t sz, int style, nng_aio *aio, bool has_hdr, uint32_t hword)
{
	uint64_t seq;
	int      rv;
	if (style == 1 && !has_hdr) {
		size_t   len = vf_body_size(sz);
		uint8_t *buf = malloc(len);
		seq = t_second ? n->next_seq2++ : n->next_seq++;
		if (seq >= SEQCAP) vf_harness_fail("seq cap");
		vf_body_make(buf, len, TAGBASE | (uint32_t) (n->id + (t_second ? MAXN : 0)), seq);
		rv = nng_send(n->s, buf, len, 0);
		free(buf);
		send_result(n, rv, "nng_send");
		return seq;
	}
	nng_msg *m = make_msg(n, sz, &seq);
	if (has_hdr) nng_msg_header_append_u32(m, hword);
	if (aio != NULL && style >= 2) {
		nng_aio_set_msg(aio, m);
		nng_socket_send(n->s, aio);
		nng_aio_wait(aio);
		if ((rv = nng_aio_result(aio)) != 0) nng_msg_free(nng_aio_get_msg(aio));
		send_result(n, rv, "nng_socket_send (aio)");
	} else {
		if ((rv = nng_sendmsg(n->s, m, 0)) != 0) nng_msg_free(m);
		send_result(n, rv, "nng_sendmsg");
	}
	return seq;
}

static size_t
pick_size(vf_rng *r, int big)
{
	uint32_t x = vf_below(r, 100);
	if (x < 70) return 24 + vf_below(r, 100);
	if (x < 95 || !big) return 24 + vf_below(r, 4000);
	return 24 + vf_below(r, (uint32_t) big);
}

#define WIN 8
typedef struct {
	node *n;
	int   second;
} sarg;
static sarg sargs[MAXN][2];

// flow-controlled sending: at most flow_w messages of this sender are not yet
// logged by the slowest receiver, and the windows of all senders were chosen
// so that no queue on any path can be full.  Then nothing may be dropped, no
// matter which pipes are busy.
static bool
flow_wait(node *n, long need)
{
	uint64_t end = vf_now_ns() + 30000000000ull;
	for (;;) {
		int missing = -1;
		for (int q = 0; q < MAXN; q++) {
			if ((atomic_load(&n->flow_mask) & (1u << q)) && atomic_load(&N[q].cnt_from[n->id]) - n->flow_base[q] < need) missing = q;
		}
		if (missing < 0) return true;
		if (atomic_load(&g_flow_abandon)) return false;
		if (vf_now_ns() > end) {
			VIOL("not-offered", g_flow_what, "%s: all nodes send at once, each keeping at most its share of the smallest queue on its paths outstanding (node %d: window %d, sendbuf %d); peer %d (recvbuf %d) logged only %ld of the first %ld message(s) after 30 s: one was dropped although no queue could be full%s%s", g_mode, n->id, n->flow_w, n->sendbuf, missing, N[missing].recvbuf, atomic_load(&N[missing].cnt_from[n->id]) - n->flow_base[missing], need, g_ev_note[0] ? "; pipe events on OTHER links during the phase:" : "", g_ev_note);
			return false;
		}
		vf_usleep(50);
	}
}

static void *
sender_main(void *arg)
{
	sarg    *sa = arg;
	node    *n  = sa->n;
	vf_rng   r;
	nng_aio *aios[WIN];
	int      left = sa->second ? n->burst_n / 2 : n->burst_n;
	t_second = sa->second;
	vf_rng_seed(&r, n->rkey, 99 + (uint64_t) sa->second);
	for (int i = 0; i < WIN; i++) {
		if (nng_aio_alloc(&aios[i], NULL, NULL) != 0) vf_harness_fail("aio");
		nng_aio_set_timeout(aios[i], 120000);
	}
	if (n->flow_w > 0) {
		long m;
		for (m = 0; m < n->flow_n; m++) {
			if (m >= n->flow_w && !flow_wait(n, m - n->flow_w + 1)) break;
			send_one(n, pick_size(&r, 0), n->sstyle == 3 ? 2 : n->sstyle, aios[0], false, 0);
		}
		if (m == n->flow_n && flow_wait(n, m)) {
			long got = m * __builtin_popcount(atomic_load(&n->flow_mask));
			vf_stat("flow_delivered", got);
			if (g_dev_stat) vf_stat(g_dev_stat, got);
			if (!strcmp(g_flow_what, "flow-with-pipe-event")) vf_stat("flow_with_pipe_event_delivered", got);
		}
		left = 0;
	}
	while (left > 0 && !atomic_load(&n->sstop)) {
		int chunk = 1 + (int) vf_below(&r, (uint32_t) (vf_chance(&r, 1, 2) ? n->chunk_fit : n->chunk_max));
		if (chunk > left) chunk = left;
		left -= chunk;
		if (n->sstyle == 3) {
			while (chunk > 0) {
				int w = chunk < WIN ? chunk : WIN;
				for (int i = 0; i < w; i++) {
					nng_aio_set_msg(aios[i], make_msg(n, pick_size(&r, n->burst_big), NULL));
					nng_socket_send(n->s, aios[i]);
				}
				for (int i = 0; i < w; i++) {
					int rv;
					nng_aio_wait(aios[i]);
					if ((rv = nng_aio_result(aios[i])) != 0) nng_msg_free(nng_aio_get_msg(aios[i]));
					send_result(n, rv, "nng_socket_send (aio)");
				}
				chunk -= w;
			}
		} else {
			for (int i = 0; i < chunk; i++) send_one(n, pick_size(&r, n->burst_big), n->sstyle, aios[0], false, 0);
		}
		if (n->pace_us) vf_usleep((int) vf_below(&r, (uint32_t) n->pace_us));
	}
	for (int i = 0; i < WIN; i++) nng_aio_free(aios[i]);
	if (!sa->second) atomic_store(&n->sdone, 1);
	return NULL;
}

static void
start_sender(node *n)
{
	n->chunk_max = 3 * n->sendbuf + 2;
	n->chunk_fit = n->sendbuf;
	atomic_store(&n->sstop, 0);
	atomic_store(&n->sdone, 0);
	sargs[n->id][0] = (sarg){ n, 0 };
	if (pthread_create(&n->sth, NULL, sender_main, &sargs[n->id][0]) != 0) vf_harness_fail("thread");
	n->srun = true;
}

// a second thread sending on the same socket at the same time (own stream)
static void
start_sender2(node *n)
{
	sargs[n->id][1] = (sarg){ n, 1 };
	if (pthread_create(&n->sth2, NULL, sender_main, &sargs[n->id][1]) != 0) vf_harness_fail("thread");
	n->srun2 = true;
}

static void
join_sender(node *n)
{
	if (n->srun) pthread_join(n->sth, NULL);
	n->srun = false;
	if (n->srun2) pthread_join(n->sth2, NULL);
	n->srun2 = false;
}

// ------------------------------------------------------------------ lock-step
// 'b' messages from s (already numbered lo..lo+b-1 by the caller's sends)
// must be logged by every node in mask.  Generous bound: 30 s.
static void
window_open(int s, uint32_t mask)
{
	for (int r = 0; r < MAXN; r++) {
		if (mask & (1u << r)) {
			atomic_store(&N[r].win_lo[s], N[s].next_seq);
			atomic_store(&N[r].win_got[s], 0);
		}
	}
}

static bool
window_wait(int s, uint32_t mask, int b, const char *what)
{
	uint64_t end = vf_now_ns() + 30000000000ull;
	for (;;) {
		int missing = -1;
		for (int r = 0; r < MAXN; r++) {
			if ((mask & (1u << r)) && atomic_load(&N[r].win_got[s]) < b) missing = r;
		}
		if (missing < 0) return true;
		if (vf_now_ns() > end) {
			VIOL("not-offered", what, "%s/%s: node %d sent %d message(s) that fit every queue (sendbuf %d) with nothing else in flight; peer %d (recvbuf %d) logged only %ld of them after 30 s", g_mode, what, s, b, N[s].sendbuf, missing, N[missing].recvbuf, atomic_load(&N[missing].win_got[s]));
			return false;
		}
		vf_usleep(100);
	}
}

static uint32_t
expect_mask(int s)
{
	uint32_t m = 0;
	for (int r = 0; r < MAXN; r++) {
		if (expect[s][r] && N[r].used && N[r].open && N[r].rrun) m |= 1u << r;
	}
	return m;
}

static bool
lockstep(int s, int b, vf_rng *r, const char *what)
{
	uint32_t mask = expect_mask(s);
	window_open(s, mask);
	for (int i = 0; i < b; i++) send_one(&N[s], pick_size(r, 0), (int) vf_below(r, 3), NULL, false, 0);
	bool ok = window_wait(s, mask, b, what);
	if (ok) vf_stat("lockstep_delivered", (long) b * __builtin_popcount(mask));
	if (ok && g_dev_stat) vf_stat(g_dev_stat, (long) b * __builtin_popcount(mask));
	return ok;
}

// Heuristic only (nothing is judged by it): the receivers' logs stopped
// growing and the library has nothing queued or running.
static void
settle(int max_ms)
{
	uint64_t end  = vf_now_ns() + (uint64_t) max_ms * 1000000ull;
	long     prev = -1;
	int      calm = 0;
	while (calm < 4 && vf_now_ns() < end) {
		long sum = atomic_load(&fwd_count);
		for (int i = 0; i < MAXN; i++) {
			if (N[i].used) sum += atomic_load(&N[i].nlog);
		}
		calm = (sum == prev && vf_inflight() == 0) ? calm + 1 : 0;
		prev = sum;
		vf_msleep(3);
	}
}

// One sender after the other sends a probe; when a receiver has logged it,
// all earlier traffic of that sender towards it has been logged or dropped
// (one FIFO path per pair).  Returns the number of extra probes that may
// still be in flight, or -1 if some receiver never saw one.
static int
barrier(uint32_t senders, int retry_ms, int tries)
{
	int extra = 0;
	settle(3000);
	for (int s = 0; s < MAXN; s++) {
		if (!(senders & (1u << s))) continue;
		uint64_t lo   = N[s].next_seq;
		uint32_t m    = expect_mask(s);
		bool     done = false;
		for (int t = 0; t < tries && !done; t++) {
			uint64_t end = vf_now_ns() + (uint64_t) retry_ms * 1000000ull;
			send_one(&N[s], 24, 0, NULL, false, 0);
			if (t > 0) extra++;
			for (;;) {
				done = true;
				for (int q = 0; q < MAXN; q++) {
					if ((m & (1u << q)) && atomic_load(&N[q].hi_from[s]) <= lo) done = false;
				}
				if (done || vf_now_ns() > end) break;
				vf_usleep(100);
			}
		}
		if (!done) return -1;
	}
	return extra;
}

// All nodes in 'senders' with a window >= 1 send 'nmsg' messages each at the
// same time, flow-controlled (see flow_wait).  The paths must be idle when
// this starts.  Returns false after a verdict.
static uint32_t
flow_start(uint32_t senders, const int *w, int nmsg, uint32_t excl)
{
	uint32_t run = 0;
	for (int s = 0; s < MAXN; s++) {
		if (!(senders & (1u << s)) || w[s] < 1) continue;
		node *x      = &N[s];
		x->flow_w    = w[s];
		x->flow_n    = nmsg;
		atomic_store(&x->flow_mask, expect_mask(s) & ~excl);
		x->burst_n   = 0;
		for (int q = 0; q < MAXN; q++) x->flow_base[q] = atomic_load(&N[q].cnt_from[s]);
		run |= 1u << s;
	}
	for (int s = 0; s < MAXN; s++) {
		if (run & (1u << s)) start_sender(&N[s]);
	}
	return run;
}

static bool
flow_phase(uint32_t senders, const int *w, int nmsg)
{
	uint32_t run = flow_start(senders, w, nmsg, 0);
	for (int s = 0; s < MAXN; s++) {
		if (run & (1u << s)) {
			join_sender(&N[s]);
			N[s].flow_w = 0;
		}
	}
	if (run) vf_stat("flow_phases", 1);
	return !g_abort;
}

// ------------------------------------------------------------------ checker
typedef struct {
	long checked, drops, offered, echo_free, order_checked, second_stream;
} tally;

static void
analyze(tally *t)
{
	for (int q = 0; q < MAXN; q++) {
		node *n = &N[q];
		if (!n->used || n->is_fwd) continue;
		long     cnt = atomic_load(&n->nlog);
		uint8_t *seen[NS];
		long     got[NS];
		int64_t  last[NS];
		struct {
			uint32_t pipe;
			int64_t  last;
		} pl[NS][8];
		int      npl[NS];
		uint32_t lastf = 0;
		memset(got, 0, sizeof(got));
		memset(npl, 0, sizeof(npl));
		for (int s = 0; s < NS; s++) {
			seen[s] = calloc(SEQCAP, 1);
			last[s] = -1;
		}
		for (long k = 0; k < cnt; k++) {
			int      from = n->log[k].from; // stream
			int      fn   = from % MAXN;    // sending node
			uint32_t seq  = n->log[k].seq;
			uint32_t pipe = n->log[k].pipe;
			t->checked++;
			if (fn == q) {
				if (g_fwd_id >= 0) {
					VIOL("echo", "raw-forward", "%s: leaf %d got its own message (seq %u) back through the raw socket: the forwarded message named the arrival pipe in its header and was sent to that pipe anyway", g_mode, q, seq);
				} else {
					VIOL("echo", "cooked", "%s: node %d received its own message (seq %u)", g_mode, q, seq);
				}
				continue;
			}
			if (!N[fn].used || !expect[fn][q]) {
				VIOL("from-non-peer", g_mode, "%s: node %d received (node %d, seq %u) but is not connected to that node (BUS does not forward)", g_mode, q, fn, seq);
				continue;
			}
			if (seq >= stream_sent(from)) {
				VIOL("phantom", g_mode, "%s: node %d received (stream %d, seq %u) but that stream has sent only %llu messages", g_mode, q, from, seq, (unsigned long long) stream_sent(from));
				continue;
			}
			if (from == g_fwd_id && dexcl[seq] == q) {
				VIOL("echo", "raw-origin-header", "%s: a raw send whose header named the pipe of leaf %d was delivered to that leaf (seq %u)", g_mode, q, seq);
			}
			if (seen[from][seq]) {
				VIOL("duplicate", g_mode, "%s: node %d received (stream %d, seq %u) twice", g_mode, q, from, seq);
				continue;
			}
			seen[from][seq] = 1;
			got[from]++;
			if (from >= MAXN) t->second_stream++;
			// order among what is delivered: per sending thread and arrival
			// pipe; per sending thread alone when every pair kept one pipe
			// for the whole case
			int i;
			for (i = 0; i < npl[from]; i++) {
				if (pl[from][i].pipe == pipe) break;
			}
			if (i == npl[from] && i < 8) {
				pl[from][i].pipe = pipe;
				pl[from][i].last = -1;
				npl[from]++;
			}
			if (i < 8) {
				if ((int64_t) seq < pl[from][i].last) {
					VIOL("reordered", "same-pipe", "%s: node %d received seq %u after seq %lld of stream %d on one pipe", g_mode, q, seq, (long long) pl[from][i].last, from);
				}
				pl[from][i].last = seq;
				t->order_checked++;
			}
			if (!g_pipekeyed && !n->pipekeyed) {
				if ((int64_t) seq < last[from]) {
					VIOL("reordered", "sender", "%s: node %d received seq %u after seq %lld of stream %d", g_mode, q, seq, (long long) last[from], from);
				}
				last[from] = seq;
			}
			if (g_fwd_known) {
				uint32_t f = fwd_at[from][seq];
				if (f == 0) {
					VIOL("phantom", g_mode, "%s: leaf %d received (stream %d, seq %u) which the forwarder never sent", g_mode, q, from, seq);
				} else if (f < lastf) {
					VIOL("reordered", "forward-order", "%s: leaf %d received the raw socket's %u-th send after its %u-th", g_mode, q, f, lastf);
				} else {
					lastf = f;
				}
			}
		}
		for (int s = 0; s < NS; s++) {
			int sn = s % MAXN;
			if (N[sn].used && expect[sn][q] && sn != q) {
				long sent = (long) stream_sent(s);
				t->offered += sent;
				t->drops += sent - got[s];
			}
			free(seen[s]);
		}
		t->echo_free += (long) (n->next_seq + n->next_seq2);
	}
}

static void
close_all(void)
{
	close_dialers();
	for (int i = 0; i < MAXN; i++) {
		if (N[i].used) stop_receiver(&N[i]);
	}
	for (int i = 0; i < MAXN; i++) {
		if (N[i].used && N[i].open) {
			int rv = nng_socket_close(N[i].s);
			if (rv != 0 && !N[i].device_owned) vf_harness_fail("close: %s", nng_strerror(rv));
			N[i].open = false;
		}
	}
}

static void
reset_case(void)
{
	for (int i = 0; i < MAXN; i++) N[i].used = false;
	memset(expect, 0, sizeof(expect));
	memset(fwd_at, 0, sizeof(fwd_at));
	memset(dexcl, -1, sizeof(dexcl));
	for (int i = 0; i < MAXN; i++) atomic_store(&pipe_of[i], 0);
	fcount      = 0;
	g_flow_what = "flow-controlled";
	g_dev_stat  = NULL;
	memset(odd_off, 0, sizeof(odd_off));
	atomic_store(&g_odd_sent, 0);
	g_pipekeyed = false;
	g_fwd_known = false;
	g_fwd_id    = -1;
	atomic_store(&fwd_lazy, 0);
}

static int
pick_tran(vf_rng *r)
{
	static const int tr[] = { VF_T_INPROC, VF_T_INPROC, VF_T_TCP, VF_T_TCP, VF_T_IPC };
	return tr[vf_below(r, 5)];
}

static void
report(const tally *t)
{
	vf_stat("received", t->checked);
	vf_stat("offered", t->offered);
	vf_stat("dropped_whole", t->drops);
	vf_stat("order_checked", t->order_checked);
	vf_stat("sent", t->echo_free);
	vf_stat("received_from_second_sender_thread", t->second_stream);
}

// ------------------------------------------------------------------ mesh
static int
min_depth(int s)
{
	int d = N[s].sendbuf;
	for (int q = 0; q < MAXN; q++) {
		if (expect[s][q] && N[q].used && N[q].open && N[q].recvbuf < d) d = N[q].recvbuf;
	}
	return d;
}

// windows for a flow-controlled phase in a mesh: every receiver's queue is
// shared out among the neighbours that send to it
static void
mesh_windows(int n, int stale, int *w)
{
	for (int s = 0; s < n; s++) {
		w[s] = N[s].sendbuf - stale;
		for (int q = 0; q < n; q++) {
			if (!expect[s][q] || q == s) continue;
			int deg = 0;
			for (int z = 0; z < n; z++) deg += z != q && expect[z][q];
			int share = (N[q].recvbuf - stale) / (deg ? deg : 1);
			if (share < w[s]) w[s] = share;
		}
	}
}

// Overflow that is provably on the RECEIVE side: receiver q does not receive
// while a neighbour a sends exactly SENDBUF(a) messages on an idle path (they
// all fit a's queue for that pipe, so a drops none).  q's receive queue was
// empty and nobody else sends: at least min(burst, RECVBUF(q)) of them must
// be delivered once q receives again; the rest was dropped whole at q.
static bool
recv_overflow_phase(int n, vf_rng *r)
{
	int ca[MAXN * MAXN], cq[MAXN * MAXN], nc = 0;
	for (int a = 0; a < n; a++) {
		for (int q = 0; q < n; q++) {
			if (a != q && expect[a][q] && N[a].sendbuf >= N[q].recvbuf + 2) ca[nc] = a, cq[nc++] = q;
		}
	}
	if (nc == 0) return true;
	int   x = (int) vf_below(r, (uint32_t) nc), a = ca[x], q = cq[x], b = N[a].sendbuf;
	node *Q = &N[q];
	atomic_store(&Q->rpause, 1);
	uint64_t end = vf_now_ns() + 5000000000ull;
	while (!atomic_load(&Q->rparked) && vf_now_ns() < end) vf_usleep(100);
	if (!atomic_load(&Q->rparked)) {
		atomic_store(&Q->rpause, 0);
		return true;
	}
	uint64_t lo = N[a].next_seq;
	long     k0 = atomic_load(&Q->nlog);
	for (int i = 0; i < b; i++) send_one(&N[a], pick_size(r, 0), (int) vf_below(r, 3), NULL, false, 0);
	settle(1000); // heuristic: let them arrive (and overflow) before q reads
	atomic_store(&Q->rpause, 0);
	if (barrier(1u << a, 2000, 6) < 0) return true; // P3's probe judges a dead path
	long k1 = atomic_load(&Q->nlog), got = 0;
	for (long k = k0; k < k1; k++) got += Q->log[k].from == a && Q->log[k].seq >= lo && Q->log[k].seq < lo + (uint64_t) b;
	int need = b < Q->recvbuf ? b : Q->recvbuf;
	if (got < need) {
		VIOL("not-offered", "recv-queue-room", "%s: node %d (not receiving, empty receive queue, RECVBUF %d) was sent %d messages by node %d (SENDBUF %d, idle path, nobody else sending); after it resumed, and a later probe of node %d had arrived, it had logged only %ld of them: a message was dropped while the queue had room", g_mode, q, Q->recvbuf, b, a, N[a].sendbuf, a, got);
		return false;
	}
	vf_stat("recv_overflow_bursts_judged", 1);
	vf_stat("lockstep_delivered", need);
	if (got < b) {
		vf_stat("recv_side_drops", b - got);
		vf_class("overflow/recv-side/recvbuf=%d", Q->recvbuf);
	}
	return true;
}

// Progress of the slowest running flow-controlled sender since 'base', or -1
// when all of them have finished.
static long
flow_progress(uint32_t run, const long *base)
{
	long lo = -1;
	for (int s = 0; s < MAXN; s++) {
		if (!(run & (1u << s)) || atomic_load(&N[s].sdone)) continue;
		long d = atomic_load(&N[s].sent) - base[s];
		if (lo < 0 || d < lo) lo = d;
	}
	return lo;
}

static bool
flow_reach(uint32_t run, const long *base, long goal)
{
	for (;;) {
		long p = flow_progress(run, base);
		if (p < 0) return false; // everybody finished
		if (p >= goal) return true;
		vf_usleep(50);
	}
}

// A flow-controlled all-at-once phase (see flow_wait) during which pipes come
// and go: every (sender, receiver) pair whose own link is not touched must
// still log everything - a pipe that leaves or arrives only changes the load
// on ITS queue.
//   kind 0  a silent resident v (in nobody's mask) has pipes of its links
//           closed at either end; they are re-dialled
//   kind 1  a silent node joins 1..n residents, listens, and leaves
//   kind 2  the link a-b goes away for good (dialer closed); a and b leave
//           each other's mask only AFTER the close, so that until then they
//           stay flow-controlled towards each other
// The paths must be idle (up to 'stale' probes).  Returns false after a verdict.
static bool
mesh_event_phase(int n, int *nextid, int stale, vf_rng *r)
{
	int      fw[MAXN], kind, v = -1, evs = (int) vf_range(r, 1, 3);
	int      nmsg = (int) vf_range(r, 120, vf_tier ? 600 : 300);
	uint32_t all = (1u << n) - 1, excl = 0, run;
	long     base[MAXN], hit = 0, acts = 0;
	static const char *kname[] = { "resident-pipes-closed", "silent-joiner", "link-removed" };

	mesh_windows(n, stale, fw);
	kind = n < 3 ? 1 : (int) vf_below(r, 3);
	if (kind == 1 && *nextid >= MAXN) kind = n < 3 ? -1 : 2 * (int) vf_below(r, 2);
	if (kind < 0) return true;
	if (kind == 0) {
		// prefer a victim with neighbours that have someone else to talk to
		v = (int) vf_below(r, (uint32_t) n);
		fw[v] = 0;
		excl  = 1u << v;
		N[v].pipekeyed = true;
	}
	long up0[MAXN]; // pipes every resident has now (degree counts joiners that left)
	for (int s = 0; s < n; s++) {
		base[s] = atomic_load(&N[s].sent);
		up0[s]  = atomic_load(&N[s].adds) - atomic_load(&N[s].rems);
	}
	g_flow_what = "flow-with-pipe-event";
	g_ev_note[0] = 0;
	run = flow_start(all, fw, nmsg, excl);
	for (int e = 0; e < evs && run; e++) {
		if (!flow_reach(run, base, (long) nmsg * (e + 1) / (evs + 2))) break;
		if (kind == 0) {
			int peers[MAXN], np = 0;
			for (int q = 0; q < n; q++) {
				if (q != v && expect[v][q]) peers[np++] = q;
			}
			if (np == 0) break;
			int      q = peers[vf_below(r, (uint32_t) np)];
			bool     at_v = vf_chance(r, 1, 2);
			nng_pipe p = at_v ? find_pipe(&N[v], q) : find_pipe(&N[q], v);
			if (nng_pipe_id(p) > 0 && nng_pipe_close(p) == 0) acts++; else continue;
			ev_note(" [pipe %u of link %d-%d closed at silent node %d's %s end]", (unsigned) nng_pipe_id(p), v, q, v, at_v ? "own" : "peer's");
			if (flow_progress(run, base) >= 0) hit++;
			// not judged: let the link come back so that the next close
			// finds a pipe
			uint64_t end = vf_now_ns() + 300000000ull;
			while (vf_now_ns() < end && (atomic_load(&N[v].adds) - atomic_load(&N[v].rems) < up0[v])) vf_usleep(100);
		} else if (kind == 1) {
			if (*nextid >= MAXN) break;
			int   id = (*nextid)++, links = 0;
			node *j  = node_open(id, false, (int) vf_range(r, 1, 16), (int) vf_range(r, 1, 16), true);
			j->rstyle = (int) vf_below(r, 3);
			j->rkey   = vf_rand(r);
			start_receiver(j);
			long was[MAXN];
			for (int i = 0; i < n; i++) {
				was[i] = atomic_load(&N[i].adds);
				if (vf_chance(r, 1, 2) || (i == n - 1 && !links)) {
					link_nodes(&N[i], j, pick_tran(r));
					expect[i][id] = expect[id][i] = true;
					links++;
				}
			}
			// attached on both sides (the joiner's dial is synchronous)
			uint64_t end = vf_now_ns() + 5000000000ull;
			bool     up;
			for (;;) {
				up = atomic_load(&j->adds) >= links;
				for (int i = 0; i < n; i++) up = up && (!expect[i][id] || atomic_load(&N[i].adds) > was[i]);
				if (up || vf_now_ns() > end) break;
				vf_usleep(100);
			}
			if (up && flow_progress(run, base) >= 0) hit++;
			acts++;
			ev_note(" [silent node %d joined %d resident(s)%s", id, links, up ? "" : " (not up)");
			// stays while the senders get a little further, then leaves
			// while they keep sending to it
			long p0 = flow_progress(run, base);
			if (p0 >= 0) flow_reach(run, base, p0 + (long) vf_range(r, 1, (uint32_t) nmsg / 8 + 1));
			stop_receiver(j);
			if (nng_socket_close(j->s) != 0) vf_harness_fail("close silent joiner");
			j->open = false;
			ev_note(" and left]");
			if (flow_progress(run, base) >= 0) hit++;
		} else {
			int la[MAXN * MAXN], lb[MAXN * MAXN], nl = 0;
			for (int a = 0; a < n; a++) {
				for (int b = a + 1; b < n; b++) {
					if (expect[a][b] && (atomic_load(&N[a].flow_mask) & (1u << b))) la[nl] = a, lb[nl++] = b;
				}
			}
			if (nl == 0) break;
			int x = (int) vf_below(r, (uint32_t) nl), a = la[x], b = lb[x];
			// (a dialer must not outlive its listener, see link_nodes; until
			// the dialer is closed the link may come back for a moment: a
			// and b are still flow-controlled towards each other then)
			if (vf_chance(r, 1, 2)) {
				nng_pipe p = vf_chance(r, 1, 2) ? find_pipe(&N[a], b) : find_pipe(&N[b], a);
				if (nng_pipe_id(p) > 0) (void) nng_pipe_close(p);
				if (vf_chance(r, 1, 2)) vf_usleep((int) vf_below(r, 3000));
			}
			(void) nng_dialer_close(lnk_d[a][b]);
			if (vf_chance(r, 1, 2)) (void) nng_listener_close(lnk_l[a][b]);
			// the dialer's pipes are flagged closed and queued for the
			// reaper now, and no new one can appear; when nothing is left
			// to reap they are detached from the dialing socket, which
			// then neither sends to nor reads from the other one.  Only
			// then may a and b stop waiting for each other.
			uint64_t end = vf_now_ns() + 20000000000ull;
			while (atomic_load(&g_reaps_pending) > 0 && vf_now_ns() < end) vf_usleep(50);
			if (atomic_load(&g_reaps_pending) > 0) {
				atomic_store(&g_flow_abandon, 1);
				vf_stat("flow_event_phase_abandoned", 1);
				hit = 0;
				break;
			}
			atomic_fetch_and(&N[a].flow_mask, ~(1u << b));
			atomic_fetch_and(&N[b].flow_mask, ~(1u << a));
			ev_note(" [link %d-%d removed]", a, b);
			acts++;
			if (flow_progress(run, base) >= 0) hit++;
		}
	}
	long pairs = 0;
	for (int s = 0; s < MAXN; s++) {
		if (run & (1u << s)) {
			join_sender(&N[s]);
			N[s].flow_w = 0;
			pairs += __builtin_popcount(atomic_load(&N[s].flow_mask));
		}
	}
	g_flow_what = "flow-controlled";
	g_ev_note[0] = 0;
	bool abandoned = atomic_exchange(&g_flow_abandon, 0);
	if (abandoned) return !g_abort;
	if (run) vf_stat("flow_phases", 1);
	if (run && hit && pairs && !g_abort) {
		vf_stat("flow_phases_with_pipe_event", 1);
		vf_stat("flow_pipe_events_during_phase", hit);
		vf_class("mesh/flow-with-pipe-event/%s/n=%d", kname[kind], n);
	}
	vf_stat(kind == 0 ? "flow_event_pipe_closes" : kind == 1 ? "flow_event_silent_joiners" : "flow_event_links_removed", acts);
	return !g_abort;
}

static void
mesh_case(long idx, vf_rng *r)
{
	int  n     = (int) vf_range(r, 2, 5);
	int  shape = (int) vf_below(r, 4); // 0,1 full  2 chain/ring  3 random connected
	int  churn = vf_chance(r, 2, 5) ? (int) vf_range(r, 1, 3) : 0; // 1 joiners 2 pipe kills 3 both
	bool resize = vf_chance(r, 1, 3);
	bool bufs_first = vf_chance(r, 1, 2);
	int  jit_pm = (int[]){ 0, 5, 20, 60 }[vf_below(r, 4)];
	int  jit_us = (int) vf_range(r, 20, 300);
	int  trans_seen = 0;
	int  sb[MAXN], rb[MAXN];
	bool adj[MAXN][MAXN];
	static const char *shape_name[] = { "full", "full", "ring", "partial" };
	static const char *churn_name[] = { "steady", "joiners", "pipe-kills", "joiners+kills" };

	reset_case();
	g_mode      = churn ? "mesh-churn" : "mesh";
	g_pipekeyed = churn >= 2;
	if (n == 2) shape = 0;
	vf_case_begin(idx, "mesh n=%d shape=%s churn=%s resize=%d bufs_first=%d jitter=%d/%dus", n, shape_name[shape], churn_name[churn], resize, bufs_first, jit_pm, jit_us);
	memset(adj, 0, sizeof(adj));
	for (int i = 0; i < n; i++) {
		for (int j = i + 1; j < n; j++) {
			bool e = shape <= 1 ? true : shape == 2 ? (j == i + 1 || (i == 0 && j == n - 1 && n > 2 && vf_chance(r, 1, 2))) : (j == i + 1 || vf_chance(r, 1, 2));
			adj[i][j] = adj[j][i] = e;
		}
	}
	for (int i = 0; i < n; i++) {
		sb[i] = vf_chance(r, 1, 3) ? (int) vf_range(r, 1, 2) : (int) vf_range(r, 1, 16);
		rb[i] = vf_chance(r, 1, 3) ? (int) vf_range(r, 1, 2) : (int) vf_range(r, 1, 16);
		node *x   = node_open(i, false, sb[i], rb[i], bufs_first);
		x->rstyle = (int) vf_below(r, 3);
		x->sstyle = (int) vf_below(r, 4);
		x->rkey   = vf_rand(r);
	}
	for (int i = 0; i < n; i++) {
		for (int j = i + 1; j < n; j++) {
			if (!adj[i][j]) continue;
			int t = pick_tran(r);
			trans_seen |= 1 << t;
			if (vf_chance(r, 1, 2)) link_nodes(&N[i], &N[j], t); else link_nodes(&N[j], &N[i], t);
			expect[i][j] = expect[j][i] = true;
		}
	}
	wait_links();
	int rdeg[MAXN];
	for (int i = 0; i < n; i++) rdeg[i] = N[i].degree;
	if (!bufs_first) {
		for (int i = 0; i < n; i++) node_set_bufs(&N[i], sb[i], rb[i]);
	}
	for (int i = 0; i < n; i++) start_receiver(&N[i]);
	if (jit_pm) vf_pt_jitter(vf_seed ^ (uint64_t) idx * 0x9e3779b97f4a7c15ull, jit_pm, jit_us);

	// P1: bursts that fit: all must arrive at every neighbour
	bool ok = true;
	int  rounds = (int) vf_range(r, 2, 5);
	for (int k = 0; k < rounds && ok; k++) {
		int s = (int) vf_below(r, (uint32_t) n);
		int d = min_depth(s);
		int b = vf_chance(r, 1, 2) ? d : (int) vf_range(r, 1, (uint32_t) d);
		ok = lockstep(s, b, r, "fresh-mesh");
		if (ok && b == d) vf_stat("lockstep_full_depth", 1);
	}
	// P1b: everybody at once, flow-controlled: nothing may be dropped
	uint32_t all = 0;
	int      fw[MAXN];
	for (int i = 0; i < n; i++) all |= 1u << i;
	if (ok) {
		mesh_windows(n, 0, fw);
		ok = flow_phase(all, fw, (int) vf_range(r, 40, vf_tier ? 400 : 150));
	}

	// P1c: overflow of a receive queue alone (the receiver pauses)
	if (ok && vf_chance(r, 1, 2)) ok = recv_overflow_phase(n, r);

	// P2: free-running bursts from every node, overflow allowed
	int nextid = n, joined = 0, kills = 0, resizes = 0;
	if (ok) {
		for (int i = 0; i < n; i++) {
			N[i].burst_n   = churn ? (vf_tier ? 5000 : 2500) : (int) vf_range(r, 300, vf_tier ? 3000 : 1500);
			N[i].burst_big = vf_chance(r, 1, 4) ? 70000 : 0;
			N[i].pace_us   = churn ? (int) vf_range(r, 100, 500) : vf_chance(r, 1, 5) ? 0 : (int) vf_range(r, 100, 1500);
			if (vf_chance(r, 1, 6) && n > 2) N[i].burst_n = 0; // a silent node
			start_sender(&N[i]);
			if (N[i].burst_n && vf_chance(r, 1, 3)) start_sender2(&N[i]);
		}
		int acts = churn ? (int) vf_range(r, 6, 14) : resize ? (int) vf_range(r, 3, 8) : 0;
		for (int a = 0; a < acts; a++) {
			vf_msleep((int) vf_range(r, 1, 12));
			int what = (int) vf_below(r, 3);
			if (resize && (what == 0 || !churn)) {
				// buffers change under traffic (node's own sender is not
				// touched: options are independent of the send path)
				int i = (int) vf_below(r, (uint32_t) n);
				node_set_bufs(&N[i], vf_chance(r, 1, 2) ? (int) vf_range(r, 1, 16) : 0, vf_chance(r, 1, 2) ? (int) vf_range(r, 1, 16) : 0);
				resizes++;
			} else if ((churn & 1) && (what == 1 || churn == 1) && nextid < MAXN) {
				// a node joins, talks, and leaves
				node *j   = node_open(nextid, false, (int) vf_range(r, 1, 16), (int) vf_range(r, 1, 16), true);
				j->rstyle = (int) vf_below(r, 3);
				j->sstyle = (int) vf_below(r, 4);
				j->rkey   = vf_rand(r);
				int links = 0;
				for (int i = 0; i < n; i++) {
					if (vf_chance(r, 1, 2) || (i == n - 1 && !links)) {
						int t = pick_tran(r);
						link_nodes(&N[i], j, t);
						expect[i][nextid] = expect[nextid][i] = true;
						links++;
					}
				}
				start_receiver(j);
				j->burst_n = (int) vf_range(r, 20, 200);
				j->pace_us = (int) vf_range(r, 0, 300);
				start_sender(j);
				vf_msleep((int) vf_range(r, 2, 15));
				join_sender(j);
				// before it leaves: every resident it is linked to must have
				// been offered something of the joiner (the joiner keeps
				// sending until then), and the joiner something of every
				// linked resident that is still sending
				{
					uint64_t end = vf_now_ns() + 30000000000ull;
					for (;;) {
						int in_missing = -1, out_missing = -1;
						for (int i = 0; i < n; i++) {
							if (!expect[i][nextid]) continue;
							if (atomic_load(&j->hi_from[i]) == 0 && N[i].srun && !atomic_load(&N[i].sdone)) in_missing = i;
							if (atomic_load(&N[i].hi_from[nextid]) == 0) out_missing = i;
						}
						if (in_missing < 0 && out_missing < 0) {
							vf_stat("joiner_offered_both_ways", 1);
							break;
						}
						if (vf_now_ns() > end) {
							if (out_missing >= 0) {
								VIOL("not-offered", "joiner-to-resident", "mesh-churn: a node joined (pipes up on both sides) and kept sending small messages for 30 s; resident node %d never logged one", out_missing);
							} else {
								VIOL("not-offered", "resident-to-joiner", "mesh-churn: resident node %d kept sending for 30 s after a node joined it; the joiner never logged one of its messages", in_missing);
							}
							break;
						}
						if (out_missing >= 0) send_one(j, 24, 0, NULL, false, 0);
						vf_usleep(300);
					}
				}
				if (vf_chance(r, 1, 2)) vf_msleep((int) vf_range(r, 1, 5));
				// leaves while the others keep sending to it
				stop_receiver(j);
				if (nng_socket_close(j->s) != 0) vf_harness_fail("close joiner");
				j->open = false;
				nextid++;
				joined++;
			} else if (churn & 2) {
				int   i = (int) vf_below(r, (uint32_t) n);
				node *x = &N[i];
				pthread_mutex_lock(x->pmtx);
				nng_pipe p = NNG_PIPE_INITIALIZER;
				if (x->npipes > 0) p = x->pipes[vf_below(r, (uint32_t) x->npipes)];
				pthread_mutex_unlock(x->pmtx);
				if (nng_pipe_id(p) > 0 && nng_pipe_close(p) == 0) kills++;
			}
		}
		for (int i = 0; i < n; i++) {
			if (churn) atomic_store(&N[i].sstop, 1);
			join_sender(&N[i]);
		}
	}

	// P3: after the overflow (and after joiners left / pipes were re-made):
	// every currently connected peer is offered again what fits
	if (ok && churn >= 2) {
		// not judged, only saves probe retries: give the dialers a moment
		uint64_t end = vf_now_ns() + 3000000000ull;
		for (;;) {
			bool up = true;
			for (int i = 0; i < n; i++) up = up && atomic_load(&N[i].adds) - atomic_load(&N[i].rems) >= rdeg[i];
			if (up || vf_now_ns() > end) break;
			vf_usleep(300);
		}
	}
	if (ok) {
		int extra = barrier(all, 2000, 6);
		if (extra < 0) {
			VIOL("not-offered", churn ? "after-churn-probe" : "after-overflow-probe", "%s: a single small message per sender, repeated 6 times 2 s apart, never reached some connected peer after a burst%s", g_mode, churn ? " with joiners / closed pipes (links are re-dialled within 20 ms)" : "");
		} else {
			vf_stat("barrier_extra_probes", extra);
			rounds = (int) vf_range(r, 2, 4);
			for (int k = 0; k < rounds && ok; k++) {
				int s = (int) vf_below(r, (uint32_t) n);
				int d = min_depth(s) - extra;
				if (d < 1) continue;
				int b = vf_chance(r, 1, 2) ? d : (int) vf_range(r, 1, (uint32_t) d);
				ok = lockstep(s, b, r, churn ? "after-churn" : "after-overflow");
				if (ok && b == d) vf_stat("lockstep_full_depth", 1);
				if (ok && churn) vf_stat("lockstep_after_churn", (long) b);
			}
			if (ok && extra == 0) {
				mesh_windows(n, 0, fw);
				ok = flow_phase(all, fw, (int) vf_range(r, 40, vf_tier ? 400 : 150));
				if (churn) vf_stat("flow_phases_after_churn", 1);
			}
			int stale = barrier(all, 2000, 2);
			// P4: pipes leave / arrive DURING a phase in which loss is judged
			if (ok && stale >= 0) ok = mesh_event_phase(n, &nextid, stale, r);
		}
	}
	vf_pt_off();
	close_all();

	tally t = { 0 };
	analyze(&t);
	report(&t);
	vf_stat("joiners", joined);
	vf_stat("pipes_killed", kills);
	vf_stat("resizes_under_traffic", resizes);
	long reconnects = 0;
	for (int i = 0; i < n; i++) reconnects += atomic_load(&N[i].adds) - N[i].degree;
	if (churn >= 2) vf_stat("pipes_reestablished", reconnects > 0 ? reconnects / 2 : 0);
	int mind = 16, maxd = 1;
	for (int i = 0; i < n; i++) {
		int d = sb[i] < rb[i] ? sb[i] : rb[i];
		if (d < mind) mind = d;
		if (d > maxd) maxd = d;
	}
	vf_class("mesh/n=%d/%s/%s/%s%s%s/%s", n, shape_name[shape], churn_name[churn], (trans_seen & (1 << VF_T_INPROC)) ? "i" : "", (trans_seen & (1 << VF_T_TCP)) ? "t" : "", (trans_seen & (1 << VF_T_IPC)) ? "u" : "", t.drops ? "drops" : "lossless");
	vf_class("mesh/depth-min=%d/%s", mind, t.drops ? "drops" : "lossless");
	if ((idx & 7) == 0) {
		vf_sample("{\"mode\":\"mesh\",\"nodes\":%d,\"shape\":\"%s\",\"churn\":\"%s\",\"sendbuf0\":%d,\"recvbuf0\":%d,\"received\":%ld,\"offered\":%ld,\"dropped\":%ld,\"joiners\":%d,\"kills\":%d}", n, shape_name[shape], churn_name[churn], sb[0], rb[0], t.checked, t.offered, t.drops, joined, kills);
	}
}

// ------------------------------------------------------------------ raw
static _Atomic int fwd_stop;

static void *
forwarder_main(void *arg)
{
	node  *f = arg;
	vf_rng r;
	vf_rng_seed(&r, f->rkey, 55);
	while (!atomic_load(&fwd_stop)) {
		nng_msg *m = NULL;
		uint32_t tag;
		uint64_t seq;
		int      rv = nng_recvmsg(f->s, &m, 0);
		if (rv == NNG_ETIMEDOUT) continue;
		if (rv == NNG_ECLOSED) break;
		if (rv != 0) vf_harness_fail("forwarder recv: %s", nng_strerror(rv));
		uint32_t pid = (uint32_t) nng_pipe_id(nng_msg_get_pipe(m));
		if (nng_msg_header_len(m) != 4 || be32(nng_msg_header(m)) != pid || pid == 0) {
			VIOL("raw-header", "forwarder", "%s: raw BUS receive: header length %zu, arrival pipe %u (the header must hold the id of the arrival pipe)", g_mode, nng_msg_header_len(m), pid);
		} else {
			atomic_fetch_add(&fwd_hdr_ok, 1);
		}
		if (vf_body_check(nng_msg_body(m), nng_msg_len(m), &tag, &seq) != 0 || (tag & 0xffffff00u) != TAGBASE || (tag & 0xff) >= NS || seq >= SEQCAP) {
			VIOL("corrupt", g_mode, "%s: raw socket received a body of %zu bytes that fails its self-check", g_mode, nng_msg_len(m));
			nng_msg_free(m);
			continue;
		}
		int from = (int) (tag & 0xff);
		atomic_store(&pipe_of[from % MAXN], pid);
		pthread_mutex_lock(&fmtx);
		if (fwd_at[from][seq] != 0) {
			VIOL("duplicate", g_mode, "%s: raw socket received (node %d, seq %llu) twice", g_mode, from, (unsigned long long) seq);
		}
		fwd_at[from][seq] = ++fcount;
		rv = nng_sendmsg(f->s, m, 0); // unchanged: header still names the arrival pipe
		pthread_mutex_unlock(&fmtx);
		if (rv != 0) nng_msg_free(m);
		send_result(f, rv, "forwarding nng_sendmsg");
		atomic_fetch_add(&fwd_count, 1);
		if (atomic_load(&fwd_lazy) && vf_chance(&r, 1, 5)) vf_usleep((int) vf_below(&r, 1200));
	}
	return NULL;
}

// direct send on the raw socket: kind 0 no header, 1 header = pipe of leaf
// 'excl', 2 header names no attached pipe, 3 header that is not one word
// ('excl' = its length 1-3, 8 or 12; own stream, see record())
static uint64_t
direct_send(node *f, int kind, int excl, uint32_t bogus)
{
	uint64_t seq;
	nng_msg *m;
	int      rv;
	if (kind == 3) {
		static const uint8_t junk[12] = { 0xff, 0xfe, 0xfd, 0xfc, 0xa1, 0xa2, 0xa3, 0xa4, 0xa5, 0xa6, 0xa7, 0xa8 };
		t_second = 1;
		m        = make_msg(f, 24 + (size_t) (bogus % 200), &seq);
		t_second = 0;
		// 8 / 12 bytes: the first word (names no pipe: top bit set) is taken
		nng_msg_header_append(m, junk, (size_t) excl);
		odd_off[seq] = (uint8_t) (excl < 4 ? excl : excl - 4);
		atomic_store(&g_odd_sent, 1);
		rv = nng_sendmsg(f->s, m, 0);
		if (rv != 0) nng_msg_free(m);
		send_result(f, rv, "raw nng_sendmsg");
		return seq;
	}
	m = make_msg(f, 24 + (size_t) (bogus % 200), &seq);
	if (kind == 1) {
		nng_msg_header_append_u32(m, atomic_load(&pipe_of[excl]));
		dexcl[seq] = (int8_t) excl;
	} else if (kind == 2) {
		nng_msg_header_append_u32(m, bogus);
	}
	pthread_mutex_lock(&fmtx);
	fwd_at[f->id][seq] = ++fcount;
	rv = nng_sendmsg(f->s, m, 0);
	pthread_mutex_unlock(&fmtx);
	if (rv != 0) nng_msg_free(m);
	send_result(f, rv, "raw nng_sendmsg");
	return seq;
}

static void
raw_case(long idx, vf_rng *r)
{
	int  variant = (int) vf_below(r, 5); // 0,1,2 harness forwarder  3 device reflector  4 device bridge
	int  k       = (int) vf_range(r, 2, 4);
	int  jit_pm  = (int[]){ 0, 5, 20, 60 }[vf_below(r, 4)];
	int  jit_us  = (int) vf_range(r, 20, 300);
	bool bufs_first = vf_chance(r, 1, 2) || variant >= 3;
	int  fa = k, fb = k + 1; // forwarder socket ids
	int  side[MAXN];
	int  sb[MAXN], rb[MAXN];
	nng_aio *daio = NULL;
	pthread_t fth;
	static const char *vname[] = { "star-fwd", "star-fwd", "star-fwd", "star-device", "bridge-device" };

	if (variant <= 2) variant = 0;
	reset_case();
	g_mode      = vname[variant];
	g_fwd_known = variant == 0;
	g_fwd_id    = fa;
	g_dev_stat  = variant == 3 ? "device_reflector_delivered" : variant == 4 ? "device_bridge_delivered" : NULL;
	if (variant == 4 && k < 2) k = 2;
	vf_case_begin(idx, "raw %s leaves=%d bufs_first=%d jitter=%d/%dus", g_mode, k, bufs_first, jit_pm, jit_us);
	bool roomy = vf_chance(r, 2, 5); // queues deep enough for a flow-controlled phase
	for (int i = 0; i < k + 2; i++) {
		sb[i] = roomy ? (int) vf_range(r, 2 * (uint32_t) k, 16) : vf_chance(r, 1, 3) ? (int) vf_range(r, 1, 2) : (int) vf_range(r, 1, 16);
		rb[i] = roomy ? (int) vf_range(r, 2 * (uint32_t) k, 16) : vf_chance(r, 1, 3) ? (int) vf_range(r, 1, 2) : (int) vf_range(r, 1, 16);
	}
	for (int i = 0; i < k; i++) {
		node *x   = node_open(i, vf_chance(r, 1, 4), sb[i], rb[i], bufs_first);
		x->rstyle = (int) vf_below(r, 3);
		x->sstyle = x->raw ? (int[]){ 0, 2, 3 }[vf_below(r, 3)] : (int) vf_below(r, 4);
		x->rkey   = vf_rand(r);
		side[i]   = variant == 4 ? (i == 0 ? 0 : i == 1 ? 1 : (int) vf_below(r, 2)) : 0;
	}
	node *F  = node_open(fa, true, sb[fa], rb[fa], bufs_first);
	node *F2 = variant == 4 ? node_open(fb, true, sb[fb], rb[fb], bufs_first) : NULL;
	F->is_fwd = true;
	F->rkey   = vf_rand(r);
	if (F2) F2->is_fwd = true;
	int trans_seen = 0;
	for (int i = 0; i < k; i++) {
		node *hub = side[i] ? F2 : F;
		int   t   = pick_tran(r);
		trans_seen |= 1 << t;
		if (vf_chance(r, 1, 2)) link_nodes(hub, &N[i], t); else link_nodes(&N[i], hub, t);
		for (int j = 0; j < k; j++) {
			if (j != i) expect[i][j] = variant == 4 ? side[i] != side[j] : true;
		}
		expect[fa][i] = variant != 4; // direct sends from the raw socket
	}
	wait_links();
	if (!bufs_first) {
		for (int i = 0; i < k; i++) node_set_bufs(&N[i], sb[i], rb[i]);
		node_set_bufs(F, sb[fa], rb[fa]);
	}
	for (int i = 0; i < k; i++) start_receiver(&N[i]);
	atomic_store(&fwd_stop, 0);
	if (variant == 0) {
		if (pthread_create(&fth, NULL, forwarder_main, F) != 0) vf_harness_fail("thread");
	} else {
		if (nng_aio_alloc(&daio, NULL, NULL) != 0) vf_harness_fail("aio");
		nng_device_aio(daio, F->s, variant == 4 ? F2->s : F->s);
		F->device_owned = true;
		if (F2) F2->device_owned = true;
	}
	if (jit_pm) vf_pt_jitter(vf_seed ^ (uint64_t) idx * 0x9e3779b97f4a7c15ull, jit_pm, jit_us);

	// depth that a burst of one leaf must fit through: own send queue, the
	// raw socket's receive queue, its per-pipe send queues, every leaf's
	// receive queue
	int depth = sb[fa] < rb[fa] ? sb[fa] : rb[fa];
	for (int i = 0; i < k; i++) {
		if (sb[i] < depth) depth = sb[i];
		if (rb[i] < depth) depth = rb[i];
	}
	// the bridge: leaf -> F -> (device holds one) -> F2's pipe queues -> leaf
	// and back: every message of one side shares F's (F2's) receive queue
	// and the other socket's per-pipe send queues
	int nside[2] = { 0, 0 };
	for (int i = 0; i < k; i++) nside[side[i]]++;
	if (variant == 4) {
		if (sb[fb] < depth) depth = sb[fb];
		if (rb[fb] < depth) depth = rb[fb];
	}
	bool     ok = true;
	uint32_t leaves = (1u << k) - 1;
	long     direct[4] = { 0, 0, 0, 0 }, foreign_ok = 0;

	// P1: each leaf in turn; every other leaf (bridge: every leaf on the
	// other socket - the header names a pipe that is not one of the sending
	// socket's) must get all
	for (int i = 0; i < k && ok; i++) {
		int b = vf_chance(r, 1, 2) ? depth : (int) vf_range(r, 1, (uint32_t) depth);
		ok = lockstep(i, b, r, variant == 4 ? "bridged" : "forwarded");
		if (ok && variant == 4) vf_stat("bridge_lockstep_delivered", (long) b * __builtin_popcount(expect_mask(i)));
	}
	// P1b: direct raw sends (the harness forwarder owns the socket with us)
	for (int rep = 0; rep < 4 && ok && variant == 0; rep++) {
		int      kind = (int) vf_below(r, 2);
		int      excl = (int) vf_below(r, (uint32_t) k);
		uint32_t mask = kind == 1 ? (leaves & ~(1u << excl)) : leaves;
		uint32_t bogus = 0;
		if (kind == 1 && atomic_load(&pipe_of[excl]) == 0) continue;
		window_open(fa, mask);
		direct_send(F, kind, excl, bogus);
		ok = window_wait(fa, mask, 1, kind == 0 ? "raw-no-header" : "raw-origin-header");
		if (ok) {
			direct[kind]++;
			vf_stat("lockstep_delivered", __builtin_popcount(mask));
		}
	}

	// P1c: all leaves at once, flow-controlled so that neither the raw
	// socket's queues nor a leaf's can be full: nothing may be dropped, and
	// the origin pipes are busy while their own messages are forwarded
	int fw[MAXN];
	if (ok) {
		int share = variant == 4 ? depth / (nside[0] > nside[1] ? nside[0] : nside[1]) : depth / k;
		for (int i = 0; i < k; i++) fw[i] = sb[i] < share ? sb[i] : share;
		if (variant == 4) g_flow_what = "flow-controlled-bridge";
		ok = flow_phase(leaves, fw, (int) vf_range(r, 40, vf_tier ? 300 : 120));
		g_flow_what = "flow-controlled";
	}
	// P1d: a header that names a pipe which is not attached to this socket
	// (what a two-socket device sends): "every connected peer except that
	// pipe" is every connected peer.  The path is idle (flow phase: all
	// logged).  The word: top bit set (never a pipe id), the id of a pipe of
	// another socket (the leaf's end of a link), or 0.
	for (int rep = 0; rep < 3 && ok && variant == 0; rep++) {
		uint32_t word = 0x80000000u | (uint32_t) vf_rand(r);
		if (rep == 1) {
			node *x = &N[vf_below(r, (uint32_t) k)];
			pthread_mutex_lock(x->pmtx);
			if (x->npipes > 0) word = (uint32_t) nng_pipe_id(x->pipes[0]);
			pthread_mutex_unlock(x->pmtx);
		} else if (rep == 2) {
			word = 0;
		}
		window_open(fa, leaves);
		direct_send(F, 2, -1, word);
		ok = window_wait(fa, leaves, 1, "raw-foreign-pipe-header");
		direct[2]++;
		if (ok) {
			foreign_ok += k;
			vf_stat("lockstep_delivered", k);
		}
	}
	// P1e: ... and the id of a pipe that was attached and is gone (ids are
	// not reused): close the raw socket's pipe to one leaf, wait for the
	// re-dialled one, name the old id.  Everybody, also that leaf, must get it.
	if (ok && variant == 0 && vf_chance(r, 1, 2)) {
		int      x   = (int) vf_below(r, (uint32_t) k);
		nng_pipe p   = find_pipe(F, x);
		uint32_t old = (uint32_t) nng_pipe_id(p);
		long     fr0 = atomic_load(&F->rems), xr0 = atomic_load(&N[x].rems);
		if (nng_pipe_id(p) > 0 && nng_pipe_close(p) == 0) {
			uint64_t end = vf_now_ns() + 20000000000ull;
			bool     up  = false;
			while (!up && vf_now_ns() < end) {
				up = atomic_load(&F->rems) > fr0 && atomic_load(&N[x].rems) > xr0 && atomic_load(&F->adds) - atomic_load(&F->rems) >= F->degree && atomic_load(&N[x].adds) - atomic_load(&N[x].rems) >= N[x].degree;
				if (!up) vf_usleep(200);
			}
			nng_pipe np = find_pipe(F, x);
			atomic_store(&pipe_of[x], nng_pipe_id(np) > 0 ? (uint32_t) nng_pipe_id(np) : 0);
			if (up && nng_pipe_id(np) > 0 && (uint32_t) nng_pipe_id(np) != old) {
				window_open(fa, leaves);
				direct_send(F, 2, -1, old);
				ok = window_wait(fa, leaves, 1, "raw-closed-pipe-header");
				direct[2]++;
				if (ok) {
					foreign_ok += k;
					vf_stat("raw_direct_closed_pipe_header_delivered", k);
					vf_stat("lockstep_delivered", k);
				}
			} else {
				vf_stat("raw_relink_not_seen", 1);
			}
		}
	}

	// P2: all leaves at once, forwarder sometimes slow, direct sends mixed in
	if (ok) {
		atomic_store(&fwd_lazy, vf_chance(r, 1, 2));
		for (int i = 0; i < k; i++) {
			N[i].burst_n   = (int) vf_range(r, 300, vf_tier ? 2500 : 1200);
			N[i].burst_big = vf_chance(r, 1, 4) ? 70000 : 0;
			N[i].pace_us   = vf_chance(r, 1, 5) ? 0 : (int) vf_range(r, 100, 1500);
			start_sender(&N[i]);
			if (vf_chance(r, 1, 3)) start_sender2(&N[i]);
		}
		if (variant == 0) {
			int nd = (int) vf_range(r, 5, 40);
			for (int a = 0; a < nd; a++) {
				int kind = (int) vf_below(r, 4), excl = (int) vf_below(r, (uint32_t) k);
				if (kind == 1 && atomic_load(&pipe_of[excl]) == 0) kind = 0;
				if (kind == 3) excl = (int[]){ 1, 2, 3, 8, 12 }[vf_below(r, 5)];
				direct_send(F, kind, excl, 0x80000000u | vf_below(r, 0xffff));
				direct[kind]++;
				vf_usleep((int) vf_below(r, 400));
			}
		}
		for (int i = 0; i < k; i++) join_sender(&N[i]);
		atomic_store(&fwd_lazy, 0);
	}

	// P3: after the overflow, all variants deliver exactly again
	if (ok) {
		int extra = barrier(leaves, 2000, 6);
		if (extra < 0) {
			VIOL("not-offered", variant == 4 ? "after-overflow-probe-bridge" : "after-overflow-probe", "%s/after-overflow: a single small message per leaf, repeated 6 times 2 s apart, never reached some other leaf through the raw socket%s", g_mode, variant == 4 ? "s of the bridge" : "");
		} else {
			vf_stat("barrier_extra_probes", extra);
			for (int i = 0; i < k && ok; i++) {
				int d = depth - extra;
				if (d < 1) break;
				int b = vf_chance(r, 1, 2) ? d : (int) vf_range(r, 1, (uint32_t) d);
				ok = lockstep(i, b, r, variant == 4 ? "bridged-after-overflow" : "forwarded-after-overflow");
				if (ok && variant == 4) vf_stat("bridge_lockstep_delivered", (long) b * __builtin_popcount(expect_mask(i)));
			}
			if (ok && extra == 0) {
				if (variant == 4) g_flow_what = "flow-controlled-bridge";
				ok = flow_phase(leaves, fw, (int) vf_range(r, 40, vf_tier ? 300 : 120));
				g_flow_what = "flow-controlled";
			}
			barrier(leaves, 2000, 2);
		}
	}
	vf_pt_off();
	for (int i = 0; i < k; i++) stop_receiver(&N[i]);
	close_dialers();
	if (variant == 0) {
		atomic_store(&fwd_stop, 1);
		pthread_join(fth, NULL);
	} else {
		nng_aio_cancel(daio);
		nng_aio_wait(daio);
		nng_aio_free(daio);
		// the device's callback reaps the device after completing our aio;
		// nng_fini does not wait for a running task (found here, belongs to
		// C10): do not let it race with the nng_fini below
		vf_quiesce(1, 10000);
	}
	close_all();

	tally t = { 0 };
	analyze(&t);
	report(&t);
	vf_stat("raw_direct_no_header", direct[0]);
	vf_stat("raw_direct_origin_header", direct[1]);
	vf_stat("raw_direct_unknown_pipe", direct[2]);
	vf_stat("raw_direct_foreign_header_delivered", foreign_ok);
	vf_stat("raw_direct_odd_header", direct[3]);
	int nraw = 0;
	for (int i = 0; i < k; i++) nraw += N[i].raw;
	vf_class("raw/%s/leaves=%d/rawleaves=%d/%s%s%s/%s", g_mode, k, nraw, (trans_seen & (1 << VF_T_INPROC)) ? "i" : "", (trans_seen & (1 << VF_T_TCP)) ? "t" : "", (trans_seen & (1 << VF_T_IPC)) ? "u" : "", t.drops ? "drops" : "lossless");
	vf_class("raw/%s/depth=%d/%s", g_mode, depth, t.drops ? "drops" : "lossless");
	if ((idx & 7) == 0) {
		vf_sample("{\"mode\":\"raw\",\"variant\":\"%s\",\"leaves\":%d,\"depth\":%d,\"received\":%ld,\"offered\":%ld,\"dropped\":%ld,\"direct\":[%ld,%ld,%ld]}", g_mode, k, depth, t.checked, t.offered, t.drops, direct[0], direct[1], direct[2]);
	}
}

// ------------------------------------------------------------------ noblock
// SP stream reader that never loses bytes on a timeout.
typedef struct {
	int      fd;
	bool     ipc;
	uint8_t *buf;
	size_t   cap, have, used;
} fr;
enum { FR_IDLE = -1, FR_EOF = -2, FR_TORN = -3, FR_BAD = -4 };

static long
fr_next(fr *f, int idle_ms, uint8_t **payload)
{
	size_t   hl = f->ipc ? 9 : 8;
	uint64_t stuck_end = vf_now_ns() + 30000000000ull;
	if (f->used) {
		memmove(f->buf, f->buf + f->used, f->have - f->used);
		f->have -= f->used;
		f->used = 0;
	}
	for (;;) {
		if (f->have >= hl) {
			uint64_t len = 0;
			if (f->ipc && f->buf[0] != 1) return FR_BAD;
			for (size_t i = f->ipc ? 1 : 0; i < hl; i++) len = (len << 8) | f->buf[i];
			if (len > f->cap - hl) return FR_BAD;
			if (f->have >= hl + len) {
				*payload = f->buf + hl;
				f->used  = hl + (size_t) len;
				return (long) len;
			}
		}
		struct pollfd p = { f->fd, POLLIN, 0 };
		int           pr = poll(&p, 1, idle_ms);
		if (pr < 0 && errno == EINTR) continue;
		if (pr == 0) {
			if (f->have == 0) return FR_IDLE;
			if (vf_now_ns() > stuck_end) return FR_TORN;
			continue;
		}
		ssize_t n = read(f->fd, f->buf + f->have, f->cap - f->have);
		if (n > 0) {
			f->have += (size_t) n;
			continue;
		}
		if (n < 0 && (errno == EAGAIN || errno == EINTR)) continue;
		return FR_EOF;
	}
}

#define MAXSTALL 3
static void
noblock_case(long idx, vf_rng *r)
{
	bool raw     = vf_chance(r, 1, 3);
	int  nstall  = (int) vf_range(r, 1, MAXSTALL);
	bool live    = vf_chance(r, 1, 2);
	bool ipc     = vf_chance(r, 1, 3);
	bool medium  = vf_chance(r, 1, 2);
	int  sendbuf = vf_chance(r, 1, 3) ? (int) vf_range(r, 1, 2) : (int) vf_range(r, 1, 16);
	int  jit_pm  = (int[]){ 0, 5, 20 }[vf_below(r, 3)];
	int  nmsg    = medium ? (int) vf_range(r, 300, 400) : (int) vf_range(r, 200, 300);
	size_t lo    = medium ? 16000 : 60000, hi = medium ? 48000 : 130000;
	int  fds[MAXSTALL];
	char url[128], path[128];
	nng_listener l;
	nng_aio *aio;

	reset_case();
	g_mode = "stalled-peers";
	vf_case_begin(idx, "noblock %s stalled=%d %s live=%d sendbuf=%d sizes=%s msgs=%d jitter=%d", raw ? "raw" : "cooked", nstall, ipc ? "ipc" : "tcp", live, sendbuf, medium ? "16-48K" : "60-130K", nmsg, jit_pm);
	node *S = node_open(0, raw, sendbuf, 16, true);
	if (ipc) {
		vf_url(VF_T_IPC, url, sizeof(url));
		snprintf(path, sizeof(path), "%s", url + 6);
		if (nng_listen(S->s, url, &l, 0) != 0) vf_harness_fail("listen");
	} else {
		if (nng_listen(S->s, "tcp://127.0.0.1:0", &l, 0) != 0) vf_harness_fail("listen");
	}
	for (int i = 0; i < nstall; i++) {
		uint16_t peer = 0;
		if (ipc) {
			fds[i] = vf_unix_connect(path, 5000);
		} else {
			int port = 0;
			nng_listener_get_int(l, NNG_OPT_BOUND_PORT, &port);
			fds[i] = vf_tcp_connect((uint16_t) port, 5000);
		}
		if (fds[i] < 0) vf_harness_fail("raw connect");
		if (vf_sp_handshake(fds[i], 0x70, &peer, 5000) != 0 || peer != 0x70) vf_harness_fail("SP handshake (peer %#x)", peer);
		S->degree++;
	}
	node *R = NULL;
	if (live) {
		R         = node_open(1, false, 16, 16, true);
		R->rstyle = (int) vf_below(r, 2);
		R->rkey   = vf_rand(r);
		link_nodes(S, R, vf_chance(r, 1, 2) ? VF_T_INPROC : VF_T_TCP);
		expect[0][1] = true;
	}
	wait_links();
	if (R) start_receiver(R);
	if (jit_pm) vf_pt_jitter(vf_seed ^ (uint64_t) idx * 0x9e3779b97f4a7c15ull, jit_pm, 200);
	if (nng_aio_alloc(&aio, NULL, NULL) != 0) vf_harness_fail("aio");
	nng_aio_set_timeout(aio, vf_chance(r, 1, 2) ? 120000 : NNG_DURATION_INFINITE);

	// the stalled peers read nothing: every send must still return 0.  No
	// timer judges this: a send that blocks trips the watchdog (hang report).
	uint64_t tmax = 0;
	long     bytes = 0;
	bool     ok = true;
	for (int i = 0; i < nmsg && ok; i++) {
		size_t   sz = lo + vf_below(r, (uint32_t) (hi - lo));
		int      style = raw ? (int[]){ 0, 2 }[vf_below(r, 2)] : (int) vf_below(r, 3);
		uint64_t t0 = vf_now_ns();
		if (R) window_open(0, 2);
		send_one(S, sz, style, aio, false, 0);
		uint64_t dt = vf_now_ns() - t0;
		if (dt > tmax) tmax = dt;
		bytes += (long) sz;
		vf_stat(style == 2 ? "aio_sends_beside_stalled_peer" : "blocking_sends_beside_stalled_peer", 1);
		// a stalled peer must not keep the message from the live one
		if (R) ok = window_wait(0, 2, 1, "live-peer-beside-stalled");
	}
	vf_stat_max("max_send_us", (long) (tmax / 1000));
	vf_stat("stalled_peer_bytes_offered", bytes * nstall);

	// now the stalled peers read: whole frames, increasing seqs, no repeats.
	// Whenever a peer has nothing to read for 100 ms a fresh small message is
	// sent: a pipe that was full must take and deliver it eventually (30 s).
	uint64_t phase_end = S->next_seq;
	long     frames = 0, stalled_drops = 0;
	for (int i = 0; i < nstall && ok; i++) {
		fr       f = { .fd = fds[i], .ipc = ipc, .cap = 160000 };
		int64_t  last = -1;
		long     got = 0, pre = 0;
		bool     probe_seen = false;
		uint64_t probe_lo = S->next_seq;
		uint64_t deadline = vf_now_ns() + 30000000000ull;
		f.buf = malloc(f.cap);
		while (!probe_seen) {
			uint8_t *pl;
			long     n = fr_next(&f, 100, &pl);
			if (n == FR_IDLE) {
				if (vf_now_ns() > deadline) {
					VIOL("not-offered", "after-stall", "stalled-peers/after-stall: the peer drained its socket and stayed connected, yet none of the small messages sent every 100 ms for 30 s reached it");
					break;
				}
				send_one(S, 24, 0, NULL, false, 0);
				continue;
			}
			if (n == FR_TORN) {
				VIOL("wire", "torn", "stalled-peers: a frame was begun on a %s connection and not completed within 30 s although the peer reads", ipc ? "ipc" : "tcp");
				break;
			}
			if (n == FR_EOF) {
				vf_stat("stalled_peer_disconnected", 1);
				break;
			}
			uint32_t tag = 0;
			uint64_t seq = 0;
			if (n < 0 || vf_body_check(pl, (size_t) n, &tag, &seq) != 0 || tag != TAGBASE) {
				VIOL("wire", "corrupt", "stalled-peers: frame %ld read by a stalled %s peer is not one whole message as sent (result %ld)", got, ipc ? "ipc" : "tcp", n);
				break;
			}
			if ((int64_t) seq == last) {
				VIOL("wire", "duplicate", "stalled-peers: seq %llu arrived twice on one connection", (unsigned long long) seq);
			} else if ((int64_t) seq < last) {
				VIOL("wire", "reordered", "stalled-peers: seq %llu arrived after seq %lld on one connection", (unsigned long long) seq, (long long) last);
			}
			last = (int64_t) seq;
			got++;
			if (seq < phase_end) pre++;
			if (seq >= probe_lo) probe_seen = true;
		}
		free(f.buf);
		frames += got;
		if (probe_seen) {
			// what was sent while the peer did not read and is not among the
			// frames before the probe was dropped (whole) on a full queue
			vf_stat("stalled_pipe_recovered", 1);
			stalled_drops += (long) phase_end - pre;
		}
	}
	vf_stat("wire_frames_checked", frames);
	vf_stat("sends_dropped_for_stalled_peer", stalled_drops);
	vf_pt_off();
	nng_aio_free(aio);
	for (int i = 0; i < nstall; i++) close(fds[i]);
	close_all();
	tally t = { 0 };
	analyze(&t);
	report(&t);
	vf_class("noblock/%s/%s/stalled=%d/live=%d/%s", raw ? "raw" : "cooked", ipc ? "ipc" : "tcp", nstall, live, stalled_drops > 0 ? "queue-overflowed" : "absorbed");
	vf_class("noblock/sendbuf=%d/%s", sendbuf, stalled_drops > 0 ? "queue-overflowed" : "absorbed");
	if ((idx & 3) == 0) {
		vf_sample("{\"mode\":\"noblock\",\"socket\":\"%s\",\"transport\":\"%s\",\"stalled\":%d,\"live\":%d,\"sendbuf\":%d,\"sends\":%llu,\"bytes_per_peer\":%ld,\"frames_read_later\":%ld,\"max_send_us\":%llu}", raw ? "raw" : "cooked", ipc ? "ipc" : "tcp", nstall, live, sendbuf, (unsigned long long) S->next_seq, bytes, frames, (unsigned long long) (tmax / 1000));
	}
}

// ------------------------------------------------------------------ join mode
// Pipes that arrive on one socket at the same instant through different
// endpoints (their start callbacks run on different threads): once all of them
// are up - both ends of every connection have their pipe, the library is
// quiescent - every peer must be offered what the hub sends (queues are empty:
// nothing may be dropped), and the hub must be offered what every peer sends.
typedef struct {
	nng_socket   s;
	nng_listener l;
	nng_dialer   d;
	char         url[128];
} jpeer;

static void *
join_dial_thread(void *arg)
{
	jpeer *p = arg;
	(void) nng_dialer_start(p->d, NNG_FLAG_NONBLOCK);
	return NULL;
}

// "Not delivered" must not depend on how fast this machine is.  inproc: the
// message travels on library threads only, so once the library is quiescent
// (no task queued or running, twice, 20 ms apart) a non-blocking receive that
// still finds nothing is final.  ipc/tcp: bytes may sit in the kernel while
// every library thread is idle, so the receive waits - 15 s, far beyond any
// stall seen on a loaded machine.
static int
join_recv(nng_socket s, nng_msg **mp, int tran)
{
	if (tran != VF_T_INPROC) return nng_recvmsg(s, mp, 0);
	uint64_t end = vf_now_ns() + 15000000000ULL;
	for (;;) {
		int rv = nng_recvmsg(s, mp, NNG_FLAG_NONBLOCK);
		if (rv != NNG_EAGAIN) return rv;
		if (vf_quiesce(1, 100)) {
			vf_msleep(20);
			if (vf_quiesce(1, 100)) return nng_recvmsg(s, mp, NNG_FLAG_NONBLOCK);
		}
		if (vf_now_ns() > end) return nng_recvmsg(s, mp, NNG_FLAG_NONBLOCK);
		vf_usleep(200);
	}
}

// family of the hub: BUS (this property), or - run from the specs of C05 / C07,
// whose "offered to every subscriber / respondent" clauses meet the same
// situation - PUB with SUB peers, SURVEYOR with RESPONDENT peers
static int         join_family; // 0 bus, 1 pub->sub, 2 surveyor->respondent
static const char *join_prop[3]   = { "C09", "C05", "C07" };
static const char *join_fam[3]    = { "bus", "pub-sub", "surveyor-respondent" };

static int
join_open(nng_socket *s, bool hub)
{
	switch (join_family) {
	case 1: return hub ? nng_pub0_open(s) : nng_sub0_open(s);
	case 2: return hub ? nng_surveyor0_open(s) : nng_respondent0_open(s);
	default: return nng_bus0_open(s);
	}
}

static void
join_case(long idx, vf_rng *r)
{
	enum { JMAX = 12 };
	jpeer      P[JMAX];
	nng_socket hub;
	int        n       = (int) vf_range(r, 3, JMAX);
	bool       hubdial = vf_chance(r, 1, 2); // the hub dials its peers, or listens for them on n listeners
	bool       threads = vf_chance(r, 1, 2); // endpoints started from n threads at once, or in a tight loop
	int        tran    = (int[]){ VF_T_INPROC, VF_T_INPROC, VF_T_INPROC, VF_T_IPC, VF_T_TCP }[vf_below(r, 5)];
	int        rounds  = vf_tier ? 150 : 60;
	const char *role   = hubdial ? "hub-dials" : "hub-listens";
	vf_case_begin(idx, "join: hub with %d peers over %s, %s, endpoints started %s, %d rounds", n, vf_tran_names[tran], role, threads ? "from threads" : "in a loop", rounds);
	for (int round = 0; round < rounds; round++) {
		pthread_t th[JMAX];
		if (join_open(&hub, true) != 0) vf_harness_fail("hub open");
		if (join_family == 2) nng_socket_set_ms(hub, NNG_OPT_SURVEYOR_SURVEYTIME, 20000);
		nng_socket_set_int(hub, NNG_OPT_RECVBUF, 64);
		nng_socket_set_ms(hub, NNG_OPT_RECVTIMEO, 15000);
		nng_socket_set_ms(hub, NNG_OPT_RECONNMINT, 5);
		nng_socket_set_ms(hub, NNG_OPT_RECONNMAXT, 20);
		for (int i = 0; i < n; i++) {
			if (join_open(&P[i].s, false) != 0) vf_harness_fail("peer open");
			if (join_family == 1) nng_sub0_socket_subscribe(P[i].s, "", 0);
			nng_socket_set_ms(P[i].s, NNG_OPT_RECVTIMEO, 15000);
			nng_socket_set_ms(P[i].s, NNG_OPT_RECONNMINT, 5);
			nng_socket_set_ms(P[i].s, NNG_OPT_RECONNMAXT, 20);
			vf_url(tran, P[i].url, sizeof(P[i].url));
			// the listening side first
			nng_socket ls = hubdial ? P[i].s : hub;
			if (nng_listener_create(&P[i].l, ls, P[i].url) != 0 || nng_listener_start(P[i].l, 0) != 0) vf_harness_fail("join listen %s", P[i].url);
			if (tran == VF_T_TCP) {
				// port 0: take the bound address
				char du[128];
				if (vf_dial_url(P[i].l, tran, P[i].url, du, sizeof(du)) != 0) vf_harness_fail("join dial url");
				snprintf(P[i].url, sizeof(P[i].url), "%s", du);
			}
		}
		for (int i = 0; i < n; i++) {
			nng_socket ds = hubdial ? hub : P[i].s;
			if (nng_dialer_create(&P[i].d, ds, P[i].url) != 0) vf_harness_fail("join dialer %s", P[i].url);
		}
		if (threads) {
			for (int i = 0; i < n; i++) pthread_create(&th[i], NULL, join_dial_thread, &P[i]);
			for (int i = 0; i < n; i++) pthread_join(th[i], NULL);
		} else {
			for (int i = 0; i < n; i++) (void) nng_dialer_start(P[i].d, NNG_FLAG_NONBLOCK);
		}
		// everybody connected?
		bool     up  = false;
		uint64_t end = vf_now_ns() + 5000000000ULL;
		while (vf_now_ns() < end) {
			int ok = vf_pipe_count(hub) == n;
			for (int i = 0; ok && i < n; i++) ok = vf_pipe_count(P[i].s) == 1;
			if (ok && vf_quiesce(1, 200)) {
				up = true;
				break;
			}
			vf_usleep(300);
		}
		if (!up) {
			vf_stat("join_rounds_not_connected_in_5s", 1);
		} else {
			vf_stat("join_rounds", 1);
			vf_stat("join_pipes", n);
			// hub -> every peer, three messages (one survey)
			uint32_t K = join_family == 2 ? 1 : 3;
			bool     got_hub_msg[JMAX] = { 0 };
			for (uint32_t k = 0; k < K; k++) {
				nng_msg *m;
				if (nng_msg_alloc(&m, 0) != 0) vf_harness_fail("msg");
				nng_msg_append_u32(m, 0x4a4f494eu);
				nng_msg_append_u32(m, (uint32_t) round);
				nng_msg_append_u32(m, k);
				if (nng_sendmsg(hub, m, 0) != 0) {
					nng_msg_free(m);
					vf_harness_fail("join hub send");
				}
			}
			for (int i = 0; i < n; i++) {
				for (uint32_t k = 0; k < K; k++) {
					nng_msg *m  = NULL;
					int      rv = join_recv(P[i].s, &m, tran);
					uint32_t a = 0, b = 0, c = 0;
					if (rv == 0 && nng_msg_len(m) == 12) {
						nng_msg_trim_u32(m, &a);
						nng_msg_trim_u32(m, &b);
						nng_msg_trim_u32(m, &c);
					}
					if (m != NULL) nng_msg_free(m);
					if (rv == 0 && a == 0x4a4f494eu && b == (uint32_t) round && c == k) {
						vf_stat("join_deliveries_checked", 1);
						got_hub_msg[i] = true;
						continue;
					}
					// still connected on both sides? (a lost connection may lose messages)
					if (vf_pipe_count(hub) == n && vf_pipe_count(P[i].s) == 1) {
						char key[96];
						snprintf(key, sizeof(key), "%s/not-offered/concurrent-join/%s%s%s", join_prop[join_family], role, join_family ? "/" : "", join_family ? join_fam[join_family] : "");
						vf_violation(key, "%s hub with %d peers over %s (%s, endpoints started %s), round %d: peer %d %s message %u of %u sent after all %d connections were up on both sides and the library was quiescent (queues empty): a connected peer was not offered the message", join_fam[join_family], n, vf_tran_names[tran], role,
						    threads ? "from threads" : "in a loop", round, i, rv != 0 ? "did not receive" : "received something else instead of", k, K, n);
						if (getenv("C09_DIAG") != NULL) {
							nng_stat *st = NULL;
							if (nng_stats_get(&st) == 0) {
								const nng_stat *ss = nng_stat_find_socket(st, hub);
								if (ss != NULL) nng_stats_dump(ss);
								ss = nng_stat_find_socket(st, P[i].s);
								if (ss != NULL) nng_stats_dump(ss);
								fflush(stdout);
								nng_stats_free(st);
							}
						}
					} else {
						vf_stat("join_connection_lost_mid_round", 1);
					}
					break;
				}
			}
			// every peer -> hub, one message each (a response from every
			// respondent that got the survey; nothing towards a publisher)
			int expect = 0;
			for (int i = 0; i < n && join_family != 1; i++) {
				nng_msg *m;
				if (join_family == 2 && !got_hub_msg[i]) continue;
				expect++;
				if (nng_msg_alloc(&m, 0) != 0) vf_harness_fail("msg");
				nng_msg_append_u32(m, 0x50454552u);
				nng_msg_append_u32(m, (uint32_t) i);
				if (nng_sendmsg(P[i].s, m, 0) != 0) nng_msg_free(m);
			}
			bool seen[JMAX] = { 0 };
			int  got        = 0;
			for (int i = 0; i < expect; i++) {
				nng_msg *m = NULL;
				if (join_recv(hub, &m, tran) != 0) break;
				uint32_t a = 0, b = 0;
				if (nng_msg_len(m) == 8) {
					nng_msg_trim_u32(m, &a);
					nng_msg_trim_u32(m, &b);
				}
				nng_msg_free(m);
				if (a == 0x50454552u && b < (uint32_t) n && !seen[b]) {
					seen[b] = true;
					got++;
				}
			}
			if (got != expect && vf_pipe_count(hub) == n) {
				char key[96];
				snprintf(key, sizeof(key), "%s/not-offered/concurrent-join/%s/to-hub%s%s", join_prop[join_family], role, join_family ? "/" : "", join_family ? join_fam[join_family] : "");
				vf_violation(key, "%s hub with %d peers over %s (%s), round %d: the hub received the message of %d of %d connected peers that sent one (receive buffer 64, queues empty)", join_fam[join_family], n, vf_tran_names[tran], role, round, got, expect);
			} else {
				vf_stat("join_hub_receives_checked", got);
			}
			vf_class("join/%s/%s/%s/n=%d/%s", join_fam[join_family], role, vf_tran_names[tran], n, threads ? "threads" : "loop");
		}
		nng_socket_close(hub);
		for (int i = 0; i < n; i++) nng_socket_close(P[i].s);
	}
}

// ------------------------------------------------------------------ main
int
main(int argc, char **argv)
{
	vf_init(argc, argv);
	vf_ev_hook(ev_hook);
	for (int i = 0; i < MAXN; i++) pthread_mutex_init(&pmtxs[i], NULL);
	vf_nng_init(4, 2, 2);
	for (long idx = 0; idx < vf_cases; idx++) {
		vf_rng r;
		if (!vf_want_case(idx)) continue;
		if (g_abort) break;
		vf_rng_seed(&r, vf_seed, (uint64_t) idx);
		vf_watchdog(!strcmp(vf_mode, "noblock") ? 60 : 120);
		if (!strcmp(vf_mode, "raw")) {
			raw_case(idx, &r);
		} else if (!strcmp(vf_mode, "noblock")) {
			noblock_case(idx, &r);
		} else if (!strncmp(vf_mode, "join", 4)) {
			join_family = !strcmp(vf_mode, "join:pub") ? 1 : !strcmp(vf_mode, "join:survey") ? 2 : 0;
			join_case(idx, &r);
		} else {
			mesh_case(idx, &r);
		}
		vf_stat("cases", 1);
		if ((idx & 7) == 7) {
			vf_quiesce(1, 10000);
			vf_nng_fini("C09");
			vf_nng_init(4, 2, 2);
		}
	}
	vf_stat("raw_headers_checked", atomic_load(&fwd_hdr_ok));
	vf_stat("raw_forwarded", atomic_load(&fwd_count));
	vf_stat("cooked_sends_with_header", atomic_load(&cooked_hdr_sends));
	vf_stat("raw_odd_header_rest_in_front_of_body", atomic_load(&odd_leaked));
	vf_stat("raw_odd_header_arrived_plain", atomic_load(&odd_plain));
	vf_quiesce(1, 10000);
	vf_nng_fini("C09");
	return vf_finish();
}
