// vfh - harness support library (see vfh.h)
#define _GNU_SOURCE
#include "vfh.h"

#include <dlfcn.h>
#include <errno.h>
#include <execinfo.h>
#include <fcntl.h>
#include <netinet/in.h>
#include <netinet/tcp.h>
#include <poll.h>
#include <pthread.h>
#include <sched.h>
#include <signal.h>
#include <stdatomic.h>
#include <sys/socket.h>
#include <sys/stat.h>
#include <sys/time.h>
#include <sys/types.h>
#include <sys/uio.h>
#include <sys/un.h>
#include <sys/wait.h>
#include <time.h>
#include <unistd.h>
#include <arpa/inet.h>

#if defined(__SANITIZE_THREAD__)
#define VF_TSAN 1
#elif defined(__has_feature)
#if __has_feature(thread_sanitizer)
#define VF_TSAN 1
#endif
#endif
#ifndef VF_TSAN
#define VF_TSAN 0
#endif

// ======================================================================
// PRNG
// ======================================================================
uint64_t
vf_mix64(uint64_t x)
{
	x += 0x9e3779b97f4a7c15ULL;
	x = (x ^ (x >> 30)) * 0xbf58476d1ce4e5b9ULL;
	x = (x ^ (x >> 27)) * 0x94d049bb133111ebULL;
	return x ^ (x >> 31);
}

void
vf_rng_seed(vf_rng *r, uint64_t seed, uint64_t stream)
{
	uint64_t x = seed ^ vf_mix64(stream * 0x632be59bd9b4e019ULL + 1);
	for (int i = 0; i < 4; i++) {
		x       = vf_mix64(x + i);
		r->s[i] = x | (i == 0);
	}
}

static inline uint64_t
rotl(uint64_t x, int k)
{
	return (x << k) | (x >> (64 - k));
}

uint64_t
vf_rand(vf_rng *r)
{
	uint64_t *s      = r->s;
	uint64_t  result = rotl(s[1] * 5, 7) * 9;
	uint64_t  t      = s[1] << 17;
	s[2] ^= s[0];
	s[3] ^= s[1];
	s[1] ^= s[2];
	s[0] ^= s[3];
	s[2] ^= t;
	s[3] = rotl(s[3], 45);
	return result;
}

uint32_t
vf_below(vf_rng *r, uint32_t n)
{
	return (uint32_t) ((vf_rand(r) >> 32) * (uint64_t) n >> 32);
}

uint32_t
vf_range(vf_rng *r, uint32_t lo, uint32_t hi)
{
	return lo + vf_below(r, hi - lo + 1);
}

bool
vf_chance(vf_rng *r, uint32_t num, uint32_t den)
{
	return vf_below(r, den) < num;
}

void
vf_fill(void *buf, size_t len, uint64_t key)
{
	uint8_t *p = buf;
	uint64_t x = vf_mix64(key);
	size_t   i = 0;
	while (i < len) {
		x = x * 6364136223846793005ULL + 1442695040888963407ULL;
		uint64_t v = x ^ (x >> 29);
		for (int k = 0; k < 8 && i < len; k++, i++) {
			p[i] = (uint8_t) (v >> (8 * k));
		}
	}
}

uint32_t
vf_crc32(const void *buf, size_t len)
{
	static uint32_t table[256];
	static int      init;
	if (!init) {
		for (uint32_t i = 0; i < 256; i++) {
			uint32_t c = i;
			for (int k = 0; k < 8; k++) {
				c = (c & 1) ? 0xedb88320u ^ (c >> 1) : c >> 1;
			}
			table[i] = c;
		}
		init = 1;
	}
	uint32_t       c = 0xffffffffu;
	const uint8_t *p = buf;
	for (size_t i = 0; i < len; i++) {
		c = table[(c ^ p[i]) & 0xff] ^ (c >> 8);
	}
	return c ^ 0xffffffffu;
}

// ======================================================================
// run / reporting
// ======================================================================
uint64_t    vf_seed    = 1;
int         vf_tier    = 0;
long        vf_cases   = 0;
long        vf_from    = 0;
long        vf_only    = -1;
int         vf_verbose = 0;
const char *vf_mode    = "";
int         vf_shard   = 0;
int         vf_nshards = 1;

static int             out_fd = -1;
static pthread_mutex_t rep_mtx = PTHREAD_MUTEX_INITIALIZER;
static char            case_desc[512];
static _Atomic long    case_idx = -1;
static _Atomic long    n_viol;

#define MAX_STATS 512
static struct {
	char *key;
	long  val;
	bool  is_max;
} stats[MAX_STATS];
static int n_stats;

#define CLASS_BUCKETS 65536
typedef struct class_node {
	struct class_node *next;
	char               s[];
} class_node;
static class_node *classes[CLASS_BUCKETS];
static long        n_classes;
static long        n_classes_written;
#define MAX_CLASS_WRITE 200000

#define MAX_SAMPLES 12
static char *samples[MAX_SAMPLES];
static int   n_samples;
static long  n_sample_calls;

#define MAX_VIOL_KEYS 256
static char *viol_keys[MAX_VIOL_KEYS];
static int   n_viol_keys;

uint64_t
vf_now_ns(void)
{
	struct timespec ts;
	clock_gettime(CLOCK_MONOTONIC, &ts);
	return (uint64_t) ts.tv_sec * 1000000000ULL + (uint64_t) ts.tv_nsec;
}

void
vf_msleep(int ms)
{
	struct timespec ts = { ms / 1000, (long) (ms % 1000) * 1000000L };
	while (nanosleep(&ts, &ts) != 0 && errno == EINTR) {
	}
}

void
vf_usleep(int us)
{
	struct timespec ts = { us / 1000000, (long) (us % 1000000) * 1000L };
	while (nanosleep(&ts, &ts) != 0 && errno == EINTR) {
	}
}

static void
out_write(const char *s, size_t n)
{
	if (out_fd < 0) {
		return;
	}
	while (n > 0) {
		ssize_t w = write(out_fd, s, n);
		if (w <= 0) {
			if (errno == EINTR) {
				continue;
			}
			return;
		}
		s += w;
		n -= (size_t) w;
	}
}

static void
out_printf(const char *fmt, ...)
{
	char    buf[4096];
	va_list ap;
	va_start(ap, fmt);
	int n = vsnprintf(buf, sizeof(buf), fmt, ap);
	va_end(ap);
	if (n < 0) {
		return;
	}
	if ((size_t) n >= sizeof(buf)) {
		n          = sizeof(buf) - 1;
		buf[n - 1] = '\n';
	}
	out_write(buf, (size_t) n);
}

static void
sanitize(char *s)
{
	for (; *s; s++) {
		if (*s == '\n' || *s == '\t' || *s == '\r') {
			*s = ' ';
		}
	}
}

static void
crash_handler(int sig)
{
	char buf[700];
	int  n = snprintf(buf, sizeof(buf), "Z %ld\t%d\t%s\n",
	     (long) atomic_load(&case_idx), sig, case_desc);
	if (n > 0) {
		out_write(buf, (size_t) n);
	}
	// keep what this process observed so far (best effort)
	if (pthread_mutex_trylock(&rep_mtx) == 0) {
		for (int i = 0; i < n_stats; i++) {
			out_printf("%c %s %ld\n", stats[i].is_max ? 'M' : 'S',
			    stats[i].key, stats[i].val);
		}
		for (int b = 0; b < CLASS_BUCKETS; b++) {
			for (class_node *cn = classes[b]; cn; cn = cn->next) {
				out_printf("C %s\n", cn->s);
			}
		}
		for (int i = 0; i < n_samples; i++) {
			out_printf("X %s\n", samples[i]);
		}
	}
	signal(sig, SIG_DFL);
	raise(sig);
}

static void watchdog_start(void);

void
vf_init(int argc, char **argv)
{
	const char *out = NULL;
	for (int i = 1; i < argc; i++) {
		const char *a = argv[i];
		const char *v = (i + 1 < argc) ? argv[i + 1] : NULL;
		if (!strcmp(a, "--seed") && v) {
			vf_seed = strtoull(v, NULL, 0);
			i++;
		} else if (!strcmp(a, "--tier") && v) {
			vf_tier = !strcmp(v, "thorough");
			i++;
		} else if (!strcmp(a, "--cases") && v) {
			vf_cases = atol(v);
			i++;
		} else if (!strcmp(a, "--from") && v) {
			vf_from = atol(v);
			i++;
		} else if (!strcmp(a, "--only") && v) {
			vf_only = atol(v);
			i++;
		} else if (!strcmp(a, "--out") && v) {
			out = v;
			i++;
		} else if (!strcmp(a, "--shard") && v) {
			sscanf(v, "%d/%d", &vf_shard, &vf_nshards);
			if (vf_nshards < 1) {
				vf_nshards = 1;
			}
			i++;
		} else if (!strcmp(a, "--mode") && v) {
			vf_mode = v;
			i++;
		} else if (!strcmp(a, "-v")) {
			vf_verbose++;
		} else {
			fprintf(stderr, "vfh: unknown argument %s\n", a);
			exit(2);
		}
	}
	if (out != NULL) {
		out_fd = open(out, O_WRONLY | O_CREAT | O_TRUNC | O_CLOEXEC, 0644);
		if (out_fd < 0) {
			perror(out);
			exit(2);
		}
	} else {
		out_fd = dup(1);
	}
	// nni_panic prints with printf: make sure the message survives abort()
	setvbuf(stdout, NULL, _IONBF, 0);
	signal(SIGPIPE, SIG_IGN);
	signal(SIGABRT, crash_handler);
	watchdog_start();
	vf_watchdog(120);
}

bool
vf_want_case(long i)
{
	if (vf_only >= 0) {
		return i == vf_only;
	}
	return i >= vf_from;
}

long
vf_case_index(void)
{
	return atomic_load(&case_idx);
}

void
vf_case_begin(long index, const char *fmt, ...)
{
	va_list ap;
	va_start(ap, fmt);
	vsnprintf(case_desc, sizeof(case_desc), fmt, ap);
	va_end(ap);
	sanitize(case_desc);
	atomic_store(&case_idx, index);
	if (vf_verbose) {
		fprintf(stderr, "[case %ld] %s\n", index, case_desc);
	}
}

static int
stat_slot(const char *key)
{
	for (int i = 0; i < n_stats; i++) {
		if (!strcmp(stats[i].key, key)) {
			return i;
		}
	}
	if (n_stats >= MAX_STATS) {
		return -1;
	}
	stats[n_stats].key = strdup(key);
	stats[n_stats].val = 0;
	return n_stats++;
}

void
vf_stat(const char *key, long add)
{
	pthread_mutex_lock(&rep_mtx);
	int i = stat_slot(key);
	if (i >= 0) {
		stats[i].val += add;
	}
	pthread_mutex_unlock(&rep_mtx);
}

void
vf_stat_max(const char *key, long val)
{
	pthread_mutex_lock(&rep_mtx);
	int i = stat_slot(key);
	if (i >= 0) {
		stats[i].is_max = true;
		if (val > stats[i].val) {
			stats[i].val = val;
		}
	}
	pthread_mutex_unlock(&rep_mtx);
}

void
vf_class(const char *fmt, ...)
{
	char    buf[256];
	va_list ap;
	va_start(ap, fmt);
	vsnprintf(buf, sizeof(buf), fmt, ap);
	va_end(ap);
	sanitize(buf);
	uint64_t h = 1469598103934665603ULL;
	for (char *p = buf; *p; p++) {
		h = (h ^ (uint8_t) *p) * 1099511628211ULL;
	}
	unsigned b = (unsigned) (h % CLASS_BUCKETS);
	pthread_mutex_lock(&rep_mtx);
	for (class_node *n = classes[b]; n; n = n->next) {
		if (!strcmp(n->s, buf)) {
			pthread_mutex_unlock(&rep_mtx);
			return;
		}
	}
	class_node *n = malloc(sizeof(*n) + strlen(buf) + 1);
	strcpy(n->s, buf);
	n->next    = classes[b];
	classes[b] = n;
	n_classes++;
	pthread_mutex_unlock(&rep_mtx);
}

void
vf_sample(const char *fmt, ...)
{
	char    buf[1024];
	va_list ap;
	pthread_mutex_lock(&rep_mtx);
	long k = n_sample_calls++;
	// keep the first few and then exponentially rarer ones
	bool keep = n_samples < MAX_SAMPLES / 2 ||
	    (n_samples < MAX_SAMPLES && (k & (k - 1)) == 0);
	if (keep) {
		va_start(ap, fmt);
		vsnprintf(buf, sizeof(buf), fmt, ap);
		va_end(ap);
		sanitize(buf);
		samples[n_samples++] = strdup(buf);
	}
	pthread_mutex_unlock(&rep_mtx);
}

void
vf_violation(const char *key, const char *fmt, ...)
{
	char    buf[2048];
	char    kbuf[256];
	va_list ap;
	int     saved = errno;
	va_start(ap, fmt);
	vsnprintf(buf, sizeof(buf), fmt, ap);
	va_end(ap);
	sanitize(buf);
	snprintf(kbuf, sizeof(kbuf), "%s", key);
	sanitize(kbuf);
	atomic_fetch_add(&n_viol, 1);
	pthread_mutex_lock(&rep_mtx);
	bool seen = false;
	for (int i = 0; i < n_viol_keys; i++) {
		if (!strcmp(viol_keys[i], kbuf)) {
			seen = true;
			break;
		}
	}
	if (!seen && n_viol_keys < MAX_VIOL_KEYS) {
		viol_keys[n_viol_keys++] = strdup(kbuf);
		out_printf("V %s\t%ld\t%s | case: %s\n", kbuf,
		    (long) atomic_load(&case_idx), buf, case_desc);
		fprintf(stderr, "VIOL %s: %s | case %ld: %s\n", kbuf, buf,
		    (long) atomic_load(&case_idx), case_desc);
	}
	pthread_mutex_unlock(&rep_mtx);
	errno = saved;
}

long
vf_violations(void)
{
	return atomic_load(&n_viol);
}

const char *
vf_last_violation_key(void)
{
	const char *k = "";
	pthread_mutex_lock(&rep_mtx);
	if (n_viol_keys > 0) {
		k = viol_keys[n_viol_keys - 1];
	}
	pthread_mutex_unlock(&rep_mtx);
	return k;
}

void
vf_harness_fail(const char *fmt, ...)
{
	char    buf[1024];
	va_list ap;
	va_start(ap, fmt);
	vsnprintf(buf, sizeof(buf), fmt, ap);
	va_end(ap);
	sanitize(buf);
	out_printf("F %ld\t%s | case: %s\n", (long) atomic_load(&case_idx), buf,
	    case_desc);
	fprintf(stderr, "HARNESS FAILURE: %s | case %ld: %s\n", buf,
	    (long) atomic_load(&case_idx), case_desc);
	_exit(2);
}

int
vf_finish(void)
{
	vf_watchdog(0);
	pthread_mutex_lock(&rep_mtx);
	for (int i = 0; i < n_stats; i++) {
		out_printf("%c %s %ld\n", stats[i].is_max ? 'M' : 'S',
		    stats[i].key, stats[i].val);
	}
	for (int b = 0; b < CLASS_BUCKETS; b++) {
		for (class_node *n = classes[b]; n; n = n->next) {
			if (n_classes_written++ < MAX_CLASS_WRITE) {
				out_printf("C %s\n", n->s);
			}
		}
	}
	for (int i = 0; i < n_samples; i++) {
		out_printf("X %s\n", samples[i]);
	}
	out_printf("S violations_raw %ld\n", (long) atomic_load(&n_viol));
	out_printf("E\n");
	pthread_mutex_unlock(&rep_mtx);
	return atomic_load(&n_viol) ? 1 : 0;
}

// ---------------------------------------------------------------- watchdog
static _Atomic uint64_t wd_deadline; // ns, 0 = off
static int              wd_seconds;

static void
dump_stacks(void)
{
	char cmd[256];
	fflush(stderr);
	snprintf(cmd, sizeof(cmd),
	    "gdb -q -batch -p %d -ex 'thread apply all bt 14' 2>&1 | "
	    "grep -v '^\\[New\\|^Reading\\|^warning' | head -400 >&2",
	    (int) getpid());
	int rc = system(cmd);
	(void) rc;
}

static void *
watchdog_thread(void *arg)
{
	(void) arg;
	for (;;) {
		vf_msleep(100);
		uint64_t d = atomic_load(&wd_deadline);
		if (d != 0 && vf_now_ns() > d) {
			char buf[700];
			int  n = snprintf(buf, sizeof(buf), "H %ld\t%d\t%s\n",
			     (long) atomic_load(&case_idx), wd_seconds, case_desc);
			if (n > 0) {
				out_write(buf, (size_t) n);
			}
			fprintf(stderr,
			    "WATCHDOG: no progress for %d s in case %ld: %s\n",
			    wd_seconds, (long) atomic_load(&case_idx), case_desc);
			dump_stacks();
			_exit(97);
		}
	}
	return NULL;
}

static void
watchdog_start(void)
{
	pthread_t      t;
	pthread_attr_t at;
	pthread_attr_init(&at);
	pthread_attr_setdetachstate(&at, PTHREAD_CREATE_DETACHED);
	pthread_create(&t, &at, watchdog_thread, NULL);
}

void
vf_watchdog(int seconds)
{
	// VF_SLOW=<factor>: the process runs under an emulator (valgrind); every
	// watchdog period is stretched by that factor
	static int slow;
	if (slow == 0) {
		const char *e = getenv("VF_SLOW");
		slow          = (e != NULL && atoi(e) > 0) ? atoi(e) : 1;
	}
	if (seconds > 0 && slow > 1) {
		seconds *= slow;
	}
	wd_seconds = seconds;
	if (seconds <= 0) {
		atomic_store(&wd_deadline, 0);
	} else {
		atomic_store(&wd_deadline,
		    vf_now_ns() + (uint64_t) seconds * 1000000000ULL);
	}
}

// ======================================================================
// accounting allocator
// ======================================================================
#define AH_MAGIC 0x56464c4956454c4bULL
#define AH_DEAD 0x5646444541444441ULL
typedef struct ahdr {
	uint64_t     magic;
	size_t       size;
	struct ahdr *prev, *next;
	uint64_t     site;
	uint64_t     seq;
	uint8_t      guard[16]; // poisoned (ASan) / canary: an underflow of the block lands here
} ahdr; // 64 bytes

#if defined(__SANITIZE_ADDRESS__)
#define VF_ASAN 1
#elif defined(__has_feature)
#if __has_feature(address_sanitizer)
#define VF_ASAN 1
#endif
#endif
#ifdef VF_ASAN
#include <sanitizer/asan_interface.h>
#define GUARD_ARM(h) __asan_poison_memory_region((h)->guard, sizeof((h)->guard))
#define GUARD_DISARM(h) __asan_unpoison_memory_region((h)->guard, sizeof((h)->guard))
#else
#define GUARD_ARM(h) memset((h)->guard, 0xC5, sizeof((h)->guard))
#define GUARD_DISARM(h) ((void) 0)
#endif
#define A_MAX_REQUEST ((size_t) 1 << 40) // beyond this the request is refused like a real out-of-memory

static pthread_mutex_t a_mtx  = PTHREAD_MUTEX_INITIALIZER;
static ahdr            a_head = { 0, 0, &a_head, &a_head, 0, 0 };
static long            a_live_blocks, a_live_bytes, a_total, a_peak;
static _Atomic long    a_fail_countdown;
static _Atomic int     a_fail_fired;
static bool            a_profile;
static uint64_t        a_fail_site_hash;
static long            a_fail_site_j;
static bool            a_installed;

#define MAX_SITES 4096
static vf_alloc_site a_sites[MAX_SITES];
static int           a_nsites;

static uint64_t
site_hash(char *desc, size_t dsz)
{
	void *bt[10];
	int   n = backtrace(bt, 10);
	// skip our own frames (site_hash, a_alloc, malloc_fn/calloc_fn)
	uint64_t h     = 1469598103934665603ULL;
	int      used  = 0;
	size_t   dlen  = 0;
	if (desc && dsz) {
		desc[0] = 0;
	}
	for (int i = 3; i < n && used < 6; i++) {
		Dl_info di;
		if (dladdr(bt[i], &di) && di.dli_sname) {
			for (const char *p = di.dli_sname; *p; p++) {
				h = (h ^ (uint8_t) *p) * 1099511628211ULL;
			}
			if (desc && dlen + strlen(di.dli_sname) + 2 < dsz) {
				dlen += (size_t) snprintf(desc + dlen, dsz - dlen,
				    "%s%s", used ? "<" : "", di.dli_sname);
			}
		} else {
			// static function: use offset within the module
			uintptr_t off = (uintptr_t) bt[i] -
			    (uintptr_t) (di.dli_fbase ? di.dli_fbase : 0);
			h = (h ^ off) * 1099511628211ULL;
			if (desc && dlen + 20 < dsz) {
				dlen += (size_t) snprintf(desc + dlen, dsz - dlen,
				    "%s+%lx", used ? "<" : "", (unsigned long) off);
			}
		}
		used++;
	}
	return h;
}

static void *
a_alloc(size_t sz, bool zero)
{
	uint64_t site = 0;
	bool     fail = false;
	char     desc[160];

	if (a_profile || a_fail_site_hash != 0) {
		site = site_hash(desc, sizeof(desc));
	}
	long c = atomic_load(&a_fail_countdown);
	if (c > 0) {
		if (atomic_fetch_sub(&a_fail_countdown, 1) == 1) {
			fail = true;
		}
	}
	pthread_mutex_lock(&a_mtx);
	if (a_profile) {
		int i;
		for (i = 0; i < a_nsites; i++) {
			if (a_sites[i].hash == site) {
				break;
			}
		}
		if (i == a_nsites && a_nsites < MAX_SITES) {
			a_sites[i].hash  = site;
			a_sites[i].count = 0;
			snprintf(a_sites[i].desc, sizeof(a_sites[i].desc), "%s",
			    desc);
			a_nsites++;
		}
		if (i < a_nsites) {
			a_sites[i].count++;
		}
	}
	if (a_fail_site_hash != 0 && site == a_fail_site_hash) {
		if (--a_fail_site_j == 0) {
			fail = true;
		}
	}
	pthread_mutex_unlock(&a_mtx);
	if (fail) {
		atomic_store(&a_fail_fired, 1);
		return NULL;
	}
	if (sz > A_MAX_REQUEST) {
		return NULL; // (also keeps sizeof(ahdr) + sz from wrapping)
	}
	ahdr *h = malloc(sizeof(ahdr) + sz);
	if (h == NULL) {
		return NULL;
	}
	if (zero) {
		memset(h + 1, 0, sz);
	} else {
		memset(h + 1, 0xA5, sz); // poison: catch reliance on zeroing
	}
	h->magic = AH_MAGIC;
	h->size  = sz;
	h->site  = site;
	GUARD_ARM(h);
	pthread_mutex_lock(&a_mtx);
	h->seq        = (uint64_t) ++a_total;
	h->next       = &a_head;
	h->prev       = a_head.prev;
	a_head.prev->next = h;
	a_head.prev   = h;
	a_live_blocks++;
	a_live_bytes += (long) sz;
	if (a_live_blocks > a_peak) {
		a_peak = a_live_blocks;
	}
	pthread_mutex_unlock(&a_mtx);
	return h + 1;
}

static void *
a_malloc(size_t sz)
{
	return a_alloc(sz, false);
}

static void *
a_calloc(size_t n, size_t sz)
{
	if (sz != 0 && n > SIZE_MAX / sz) {
		return NULL;
	}
	return a_alloc(n * sz, true);
}

static void
a_free(void *p, size_t sz)
{
	if (p == NULL) {
		return;
	}
	ahdr *h = ((ahdr *) p) - 1;
	if (h->magic == AH_DEAD) {
		vf_violation("alloc/double-free", "free(%p,%zu) of a freed block",
		    p, sz);
		return;
	}
	if (h->magic != AH_MAGIC) {
		vf_violation("alloc/unknown-pointer",
		    "free(%p,%zu): not a block of this allocator", p, sz);
		return;
	}
	if (h->size != sz) {
		char key[96];
		snprintf(key, sizeof(key), "alloc/size-mismatch/alloc=%zu,free=%zu",
		    h->size, sz);
		vf_violation(key,
		    "block %p allocated with %zu bytes returned with size %zu", p,
		    h->size, sz);
	}
	GUARD_DISARM(h);
#ifndef VF_ASAN
	for (size_t i = 0; i < sizeof(h->guard); i++) {
		if (h->guard[i] != 0xC5) {
			vf_violation("alloc/underflow", "block %p (%zu bytes): byte %zu before the block was overwritten", p, h->size, sizeof(h->guard) - i);
			break;
		}
	}
#endif
	pthread_mutex_lock(&a_mtx);
	h->prev->next = h->next;
	h->next->prev = h->prev;
	a_live_blocks--;
	a_live_bytes -= (long) h->size;
	pthread_mutex_unlock(&a_mtx);
	h->magic = AH_DEAD;
	free(h);
}

void
vf_alloc_install(nng_init_params *p)
{
	p->malloc_fn = a_malloc;
	p->calloc_fn = a_calloc;
	p->free_fn   = a_free;
	a_installed  = true;
	if (getenv("VF_ALLOC_SITES") != NULL) {
		a_profile = true;
	}
}

long
vf_alloc_live_blocks(void)
{
	return a_live_blocks;
}
long
vf_alloc_live_bytes(void)
{
	return a_live_bytes;
}
long
vf_alloc_total(void)
{
	return a_total;
}
long
vf_alloc_peak_blocks(void)
{
	return a_peak;
}

void
vf_alloc_fail_nth(long n)
{
	atomic_store(&a_fail_fired, 0);
	atomic_store(&a_fail_countdown, n);
}

bool
vf_alloc_fail_fired(void)
{
	return atomic_load(&a_fail_fired) != 0;
}

void
vf_alloc_profile(bool on)
{
	pthread_mutex_lock(&a_mtx);
	a_profile = on;
	pthread_mutex_unlock(&a_mtx);
}

int
vf_alloc_sites(vf_alloc_site *out, int max)
{
	pthread_mutex_lock(&a_mtx);
	int n = a_nsites < max ? a_nsites : max;
	memcpy(out, a_sites, sizeof(vf_alloc_site) * (size_t) n);
	pthread_mutex_unlock(&a_mtx);
	return n;
}

void
vf_alloc_fail_site(uint64_t hash, long jth)
{
	pthread_mutex_lock(&a_mtx);
	a_fail_site_hash = hash;
	a_fail_site_j    = jth;
	pthread_mutex_unlock(&a_mtx);
	atomic_store(&a_fail_fired, 0);
}

long
vf_alloc_report(const char *prefix)
{
	long n = 0;
	if (!a_installed) {
		return 0;
	}
	pthread_mutex_lock(&a_mtx);
	// collect first, report outside the lock
	struct {
		size_t   size;
		uint64_t seq;
		uint64_t site;
	} leaks[16];
	int nl = 0;
	for (ahdr *h = a_head.next; h != &a_head; h = h->next) {
		if (nl < 16) {
			leaks[nl].size = h->size;
			leaks[nl].seq  = h->seq;
			leaks[nl].site = h->site;
			nl++;
		}
		n++;
	}
	pthread_mutex_unlock(&a_mtx);
	for (int i = 0; i < nl; i++) {
		char key[128];
		snprintf(key, sizeof(key), "%s/leak/size=%zu", prefix,
		    leaks[i].size);
		for (int s = 0; s < a_nsites; s++) {
			if (leaks[i].site != 0 && a_sites[s].hash == leaks[i].site) {
				fprintf(stderr, "leaked %zu bytes allocated at %s\n",
				    leaks[i].size, a_sites[s].desc);
			}
		}
		vf_violation(key,
		    "block of %zu bytes (allocation #%llu) still live after "
		    "nng_fini (%ld live blocks in total)",
		    leaks[i].size, (unsigned long long) leaks[i].seq, n);
	}
	return n;
}

void
vf_alloc_reset(void)
{
	pthread_mutex_lock(&a_mtx);
	// forget live blocks (they stay allocated); used after a reported leak
	a_head.next = a_head.prev = &a_head;
	a_live_blocks = a_live_bytes = 0;
	pthread_mutex_unlock(&a_mtx);
}

void
vf_nng_init(int task_thr, int expire_thr, int poll_thr)
{
	nng_init_params p;
	memset(&p, 0, sizeof(p));
	p.num_task_threads   = (int16_t) task_thr;
	p.num_expire_threads = (int16_t) expire_thr;
	p.num_poller_threads = (int16_t) poll_thr;
	if (!VF_TSAN) {
		vf_alloc_install(&p);
	}
	int rv = nng_init(&p);
	if (rv != 0) {
		vf_harness_fail("nng_init failed: %s", nng_strerror(rv));
	}
}

void
vf_nng_fini(const char *prefix)
{
	nng_fini();
	if (vf_alloc_report(prefix) != 0) {
		vf_alloc_reset();
	}
}

// ======================================================================
// short I/O interposer
// ======================================================================
static _Atomic int  io_smode, io_rmode;
static _Atomic long io_sparam, io_rparam;
static _Atomic int  io_eagain_every;
static _Atomic long io_short_s, io_short_r, io_calls_s, io_calls_r;
static _Atomic long io_fail_send_at;
static _Atomic int  io_fail_send_err;
static _Atomic uint64_t io_rng_state = 88172645463325252ULL;
#define IO_MAXFD 4096
static _Atomic long io_done_s[IO_MAXFD], io_done_r[IO_MAXFD];

void
vf_io_plan(int send_mode, long send_param, int recv_mode, long recv_param,
    uint64_t seed)
{
	atomic_store(&io_smode, send_mode);
	atomic_store(&io_sparam, send_param);
	atomic_store(&io_rmode, recv_mode);
	atomic_store(&io_rparam, recv_param);
	atomic_store(&io_rng_state, vf_mix64(seed) | 1);
	vf_io_reset_fd_state();
}

void
vf_io_eagain_every(int n)
{
	atomic_store(&io_eagain_every, n);
}

void
vf_io_reset_fd_state(void)
{
	for (int i = 0; i < IO_MAXFD; i++) {
		atomic_store(&io_done_s[i], 0);
		atomic_store(&io_done_r[i], 0);
	}
}

void
vf_io_fail_send_at(long nth, int err)
{
	atomic_store(&io_fail_send_err, err);
	atomic_store(&io_fail_send_at, nth);
}

long
vf_io_short_sends(void)
{
	return atomic_load(&io_short_s);
}
long
vf_io_short_recvs(void)
{
	return atomic_load(&io_short_r);
}
long
vf_io_send_calls(void)
{
	return atomic_load(&io_calls_s);
}
long
vf_io_recv_calls(void)
{
	return atomic_load(&io_calls_r);
}
void
vf_io_counters_reset(void)
{
	atomic_store(&io_short_s, 0);
	atomic_store(&io_short_r, 0);
	atomic_store(&io_calls_s, 0);
	atomic_store(&io_calls_r, 0);
}

static uint64_t
io_rand(void)
{
	uint64_t x = atomic_load_explicit(&io_rng_state, memory_order_relaxed);
	x ^= x << 13;
	x ^= x >> 7;
	x ^= x << 17;
	atomic_store_explicit(&io_rng_state, x, memory_order_relaxed);
	return x;
}

static bool
is_stream_sock(int fd)
{
	int       type = 0;
	socklen_t l    = sizeof(type);
	if (getsockopt(fd, SOL_SOCKET, SO_TYPE, &type, &l) != 0) {
		return false;
	}
	return type == SOCK_STREAM;
}

// Decide how many bytes of a 'total'-byte transfer to allow.  Returns
// total when no clamp applies; returns 0 to signal "inject EAGAIN".
static size_t
io_limit(int fd, bool sending, size_t total)
{
	int  mode  = atomic_load(sending ? &io_smode : &io_rmode);
	long param = atomic_load(sending ? &io_sparam : &io_rparam);
	if (mode == VF_IO_FULL || total <= 1 || !is_stream_sock(fd)) {
		return total;
	}
	int ee = atomic_load(&io_eagain_every);
	if (ee > 0 && (io_rand() % (unsigned) ee) == 0) {
		return 0;
	}
	size_t lim = total;
	switch (mode) {
	case VF_IO_DRIBBLE:
		lim = (size_t) (param > 0 ? param : 1);
		break;
	case VF_IO_RANDOM:
		lim = 1 + (size_t) (io_rand() % (uint64_t) (param > 0 ? param : 1));
		break;
	case VF_IO_CUT_EVERY:
		lim = (size_t) (param > 0 ? param : 1);
		break;
	case VF_IO_CUT_ONCE:
		if (fd >= 0 && fd < IO_MAXFD) {
			long done = atomic_load(sending ? &io_done_s[fd]
			                                : &io_done_r[fd]);
			if (done < param) {
				lim = (size_t) (param - done);
			}
		}
		break;
	}
	return lim < total ? lim : total;
}

static void
io_account(int fd, bool sending, ssize_t n, size_t wanted)
{
	if (n > 0 && fd >= 0 && fd < IO_MAXFD) {
		atomic_fetch_add(sending ? &io_done_s[fd] : &io_done_r[fd], n);
	}
	atomic_fetch_add(sending ? &io_calls_s : &io_calls_r, 1);
	if (n > 0 && (size_t) n < wanted) {
		atomic_fetch_add(sending ? &io_short_s : &io_short_r, 1);
	}
}

static size_t
iov_total(const struct iovec *iov, int n)
{
	size_t t = 0;
	for (int i = 0; i < n; i++) {
		t += iov[i].iov_len;
	}
	return t;
}

static int
iov_clamp(const struct iovec *iov, int n, size_t lim, struct iovec *out)
{
	int k = 0;
	for (int i = 0; i < n && lim > 0; i++) {
		if (iov[i].iov_len == 0) {
			continue;
		}
		out[k].iov_base = iov[i].iov_base;
		out[k].iov_len  = iov[i].iov_len < lim ? iov[i].iov_len : lim;
		lim -= out[k].iov_len;
		k++;
	}
	return k;
}

typedef ssize_t (*sendmsg_fn)(int, const struct msghdr *, int);
typedef ssize_t (*send_fn)(int, const void *, size_t, int);
typedef ssize_t (*readv_fn)(int, const struct iovec *, int);
typedef ssize_t (*writev_fn)(int, const struct iovec *, int);

static int        aio_trace; // defined with the hook implementations below
static sendmsg_fn real_sendmsg;
static send_fn    real_send;
static writev_fn  real_writev;
static readv_fn   real_readv;

// resolve everything that is lazily initialised before threads exist, so the
// harness itself is race-free under TSan
__attribute__((constructor)) static void
vfh_warmup(void)
{
	real_sendmsg = (sendmsg_fn) dlsym(RTLD_NEXT, "sendmsg");
	real_send    = (send_fn) dlsym(RTLD_NEXT, "send");
	real_writev  = (writev_fn) dlsym(RTLD_NEXT, "writev");
	real_readv   = (readv_fn) dlsym(RTLD_NEXT, "readv");
	(void) vf_crc32("", 0);
	const char *e = getenv("VF_AIO_TRACE");
	if (e != NULL) {
		aio_trace = atoi(e);
	}
	if (VF_TSAN) {
		aio_trace = 0; // the diagnostic ring is not synchronised
	}
}

static bool
io_send_fault(void)
{
	long at = atomic_load(&io_fail_send_at);
	if (at > 0) {
		if (atomic_fetch_sub(&io_fail_send_at, 1) == 1) {
			errno = atomic_load(&io_fail_send_err);
			return true;
		}
	}
	return false;
}

ssize_t
sendmsg(int fd, const struct msghdr *msg, int flags)
{
	sendmsg_fn real = real_sendmsg;
	if (!real) {
		real = real_sendmsg = (sendmsg_fn) dlsym(RTLD_NEXT, "sendmsg");
	}
	if (atomic_load(&io_smode) == VF_IO_FULL &&
	    atomic_load(&io_fail_send_at) == 0) {
		return real(fd, msg, flags);
	}
	size_t total = iov_total(msg->msg_iov, (int) msg->msg_iovlen);
	if (is_stream_sock(fd) && io_send_fault()) {
		return -1;
	}
	size_t lim = io_limit(fd, true, total);
	if (lim == 0 && total > 0) {
		errno = EAGAIN;
		return -1;
	}
	if (lim >= total) {
		ssize_t n = real(fd, msg, flags);
		io_account(fd, true, n, total);
		return n;
	}
	struct iovec  iov[16];
	struct msghdr m2 = *msg;
	int           k  = iov_clamp(msg->msg_iov,
	               (int) (msg->msg_iovlen > 16 ? 16 : msg->msg_iovlen), lim, iov);
	m2.msg_iov    = iov;
	m2.msg_iovlen = (size_t) k;
	ssize_t n     = real(fd, &m2, flags);
	io_account(fd, true, n, total);
	return n;
}

ssize_t
send(int fd, const void *buf, size_t len, int flags)
{
	send_fn real = real_send;
	if (!real) {
		real = real_send = (send_fn) dlsym(RTLD_NEXT, "send");
	}
	if (atomic_load(&io_smode) == VF_IO_FULL &&
	    atomic_load(&io_fail_send_at) == 0) {
		return real(fd, buf, len, flags);
	}
	if (is_stream_sock(fd) && io_send_fault()) {
		return -1;
	}
	size_t lim = io_limit(fd, true, len);
	if (lim == 0 && len > 0) {
		errno = EAGAIN;
		return -1;
	}
	ssize_t n = real(fd, buf, lim, flags);
	io_account(fd, true, n, len);
	return n;
}

ssize_t
writev(int fd, const struct iovec *iov, int cnt)
{
	writev_fn real = real_writev;
	if (!real) {
		real = real_writev = (writev_fn) dlsym(RTLD_NEXT, "writev");
	}
	if (atomic_load(&io_smode) == VF_IO_FULL &&
	    atomic_load(&io_fail_send_at) == 0) {
		return real(fd, iov, cnt);
	}
	size_t total = iov_total(iov, cnt);
	if (is_stream_sock(fd) && io_send_fault()) {
		return -1;
	}
	size_t lim = io_limit(fd, true, total);
	if (lim == 0 && total > 0) {
		errno = EAGAIN;
		return -1;
	}
	if (lim >= total) {
		ssize_t n = real(fd, iov, cnt);
		io_account(fd, true, n, total);
		return n;
	}
	struct iovec v[16];
	int          k = iov_clamp(iov, cnt > 16 ? 16 : cnt, lim, v);
	ssize_t      n = real(fd, v, k);
	io_account(fd, true, n, total);
	return n;
}

ssize_t
readv(int fd, const struct iovec *iov, int cnt)
{
	readv_fn real = real_readv;
	if (!real) {
		real = real_readv = (readv_fn) dlsym(RTLD_NEXT, "readv");
	}
	if (atomic_load(&io_rmode) == VF_IO_FULL) {
		return real(fd, iov, cnt);
	}
	size_t total = iov_total(iov, cnt);
	size_t lim   = io_limit(fd, false, total);
	if (lim == 0 && total > 0) {
		errno = EAGAIN;
		return -1;
	}
	if (lim >= total) {
		ssize_t n = real(fd, iov, cnt);
		io_account(fd, false, n, total);
		return n;
	}
	struct iovec v[16];
	int          k = iov_clamp(iov, cnt > 16 ? 16 : cnt, lim, v);
	ssize_t      n = real(fd, v, k);
	io_account(fd, false, n, total);
	return n;
}

// ======================================================================
// hook implementations (called by libnng built with -DNNG_VERIF)
// ======================================================================
static _Atomic int      pt_enabled;
static _Atomic int      pt_permille[NNI_VP_NSITES];
static _Atomic int      pt_min_us[NNI_VP_NSITES];
static _Atomic int      pt_max_us[NNI_VP_NSITES];
static _Atomic long     pt_count[NNI_VP_NSITES];
static _Atomic uint64_t pt_seed = 0x1234567;
static _Atomic uint64_t pt_thread_ctr;
static __thread uint64_t pt_rng;

static const char *pt_names[NNI_VP_NSITES] = {
	"mtx.lock", "mtx.unlock", "cv.wait", "cv.wake", "aio.start",
	"aio.abort.after_unlock", "aio.finish.after_unlock",
	"aio.expire.before_cancel", "aio.expire.between_cancels",
	"aio.stop.before_wait", "task.dispatch.before_enqueue",
	"task.exec.before_cb", "task.exec.after_cb", "pipe.close.after_flag",
	"pipe.reap.before_close", "pipe.reap.before_stop", "pipe.remove",
	"pipe.run_cb", "sock.shutdown.after_eps", "sock.close.before_wait",
	"reap.before_func"
};

const char *
vf_pt_name(int site)
{
	return (site >= 0 && site < NNI_VP_NSITES) ? pt_names[site] : "?";
}

void
vf_pt_off(void)
{
	atomic_store(&pt_enabled, 0);
	for (int i = 0; i < NNI_VP_NSITES; i++) {
		atomic_store(&pt_permille[i], 0);
	}
}

void
vf_pt_jitter(uint64_t seed, int permille, int max_us)
{
	atomic_store(&pt_seed, vf_mix64(seed) | 1);
	for (int i = 0; i < NNI_VP_NSITES; i++) {
		// lock/unlock/cv sites are very hot: scale them down
		int pm = (i <= NNI_VP_CV_WAKE) ? (permille + 3) / 4 : permille;
		atomic_store(&pt_permille[i], pm);
		atomic_store(&pt_min_us[i], 0);
		atomic_store(&pt_max_us[i], max_us);
	}
	atomic_store(&pt_enabled, 1);
}

void
vf_pt_target(int site, int permille, int min_us, int max_us)
{
	atomic_store(&pt_permille[site], permille);
	atomic_store(&pt_min_us[site], min_us);
	atomic_store(&pt_max_us[site], max_us);
	atomic_store(&pt_enabled, 1);
}

long
vf_pt_delays(int site)
{
	return atomic_load(&pt_count[site]);
}

void
nni_verif_pt(int site)
{
	if (!atomic_load_explicit(&pt_enabled, memory_order_relaxed)) {
		return;
	}
	int pm = atomic_load_explicit(&pt_permille[site], memory_order_relaxed);
	if (pm == 0) {
		return;
	}
	if (pt_rng == 0) {
		pt_rng = vf_mix64(
		             atomic_load_explicit(&pt_seed, memory_order_relaxed) +
		             atomic_fetch_add_explicit(
		                 &pt_thread_ctr, 1, memory_order_relaxed)) |
		    1;
	}
	uint64_t x = pt_rng;
	x ^= x << 13;
	x ^= x >> 7;
	x ^= x << 17;
	pt_rng = x;
	if ((int) (x % 1000) >= pm) {
		return;
	}
	int saved = errno;
	int lo = atomic_load_explicit(&pt_min_us[site], memory_order_relaxed);
	int hi = atomic_load_explicit(&pt_max_us[site], memory_order_relaxed);
	int us = lo + (hi > lo ? (int) ((x >> 24) % (uint64_t) (hi - lo + 1)) : 0);
	if (us <= 0) {
		sched_yield();
	} else {
		vf_usleep(us);
	}
	atomic_fetch_add_explicit(&pt_count[site], 1, memory_order_relaxed);
	errno = saved;
}

// ring of recent aio completion / start events with stacks (diagnostics for
// the exactly-once monitor: shows who completed an aio before)
#define AIO_RING 8192
static struct {
	const void *aio;
	int         ev;
	int         rv;
	int         n;
	void       *bt[10];
} aio_ring[AIO_RING];
static _Atomic unsigned long aio_ring_pos;
static int                   aio_trace = 1;

static void
aio_ring_record(int ev, const void *aio, int rv)
{
	if (!aio_trace) {
		return;
	}
	unsigned long p = atomic_fetch_add_explicit(
	    &aio_ring_pos, 1, memory_order_relaxed);
	unsigned i      = (unsigned) (p % AIO_RING);
	aio_ring[i].aio = NULL;
	aio_ring[i].ev  = ev;
	aio_ring[i].rv  = rv;
	aio_ring[i].n   = backtrace(aio_ring[i].bt, 10);
	aio_ring[i].aio = aio;
}

static void
aio_ring_dump(const void *aio)
{
	unsigned long end = atomic_load(&aio_ring_pos);
	unsigned long beg = end > AIO_RING ? end - AIO_RING : 0;
	int           shown = 0;
	for (unsigned long p = end; p > beg && shown < 4; p--) {
		unsigned i = (unsigned) ((p - 1) % AIO_RING);
		if (aio_ring[i].aio != aio) {
			continue;
		}
		fprintf(stderr, "  earlier event #%d on aio %p: ev=%d rv=%d at:\n",
		    shown, aio, aio_ring[i].ev, aio_ring[i].rv);
		backtrace_symbols_fd(aio_ring[i].bt + 2, aio_ring[i].n - 2, 2);
		shown++;
	}
}

static _Atomic long ev_count[NNI_VE_NEVENTS];
static _Atomic long ev_tasks, ev_poll, ev_reap;
static vf_ev_cb     ev_cb;
static __thread int ev_in_poll;

void
vf_ev_hook(vf_ev_cb cb)
{
	ev_cb = cb;
}

long
vf_ev_count(int ev)
{
	return atomic_load(&ev_count[ev]);
}

void
nni_verif_ev(int ev, const void *obj, uintptr_t a, uintptr_t b)
{
	atomic_fetch_add_explicit(&ev_count[ev], 1, memory_order_relaxed);
	switch (ev) {
	case NNI_VE_TASK_ENQ:
		atomic_fetch_add_explicit(&ev_tasks, 1, memory_order_relaxed);
		break;
	case NNI_VE_TASK_DONE:
		atomic_fetch_sub_explicit(&ev_tasks, 1, memory_order_relaxed);
		break;
	case NNI_VE_POLL_BEGIN:
		ev_in_poll = 1;
		atomic_fetch_add_explicit(&ev_poll, 1, memory_order_relaxed);
		break;
	case NNI_VE_POLL_END:
		// the first END of a poller thread has no BEGIN
		if (ev_in_poll) {
			ev_in_poll = 0;
			atomic_fetch_sub_explicit(
			    &ev_poll, 1, memory_order_relaxed);
		}
		break;
	case NNI_VE_REAP_BEGIN:
		atomic_fetch_add_explicit(&ev_reap, 1, memory_order_relaxed);
		break;
	case NNI_VE_REAP_END:
		atomic_fetch_sub_explicit(&ev_reap, 1, memory_order_relaxed);
		break;
	case NNI_VE_AIO_FINISH:
	case NNI_VE_AIO_REFUSED:
	case NNI_VE_AIO_BEGIN:
		aio_ring_record(ev, obj, (int) a);
		break;
	default:
		break;
	}
	if (ev_cb != NULL) {
		int saved = errno;
		ev_cb(ev, obj, a, b);
		errno = saved;
	}
}

void
nni_verif_fail(const char *prop, const char *fmt, ...)
{
	char    buf[512];
	char    key[160];
	char    word[96];
	va_list ap;
	va_start(ap, fmt);
	vsnprintf(buf, sizeof(buf), fmt, ap);
	va_end(ap);
	size_t i = 0;
	while (buf[i] && buf[i] != ' ' && i < sizeof(word) - 1) {
		word[i] = buf[i];
		i++;
	}
	word[i] = 0;
	snprintf(key, sizeof(key), "hook/%s/%s", prop, word);
	long before = n_viol_keys;
	vf_violation(key, "%s", buf);
	if (n_viol_keys != before) {
		// first occurrence of this key: show where the library was
		void *bt[16];
		int   n = backtrace(bt, 16);
		fprintf(stderr, "hook failure %s: backtrace:\n", key);
		backtrace_symbols_fd(bt, n, 2);
		const char *ap = strstr(buf, "aio=0x");
		if (ap != NULL) {
			aio_ring_dump((const void *) (uintptr_t) strtoull(ap + 4, NULL, 16));
		}
	}
}

long
vf_inflight(void)
{
	return atomic_load(&ev_tasks) + atomic_load(&ev_poll) +
	    atomic_load(&ev_reap);
}

static long
ev_total(void)
{
	long total = 0;
	for (int e = 0; e < NNI_VE_NEVENTS; e++) {
		total += atomic_load(&ev_count[e]);
	}
	return total;
}

bool
vf_quiesce(int gap_ms, int timeout_ms)
{
	uint64_t end = vf_now_ns() + (uint64_t) timeout_ms * 1000000ULL;
	for (;;) {
		if (vf_inflight() == 0) {
			long t0 = ev_total();
			if (gap_ms > 0) {
				vf_msleep(gap_ms);
			} else {
				sched_yield();
			}
			if (vf_inflight() == 0 && ev_total() == t0) {
				return true;
			}
		} else {
			vf_usleep(200);
		}
		if (vf_now_ns() > end) {
			return false;
		}
	}
}

// ======================================================================
// protocol / transport helpers
// ======================================================================
const vf_proto vf_protos[] = {
	{ "pair0", nng_pair0_open, nng_pair0_open_raw, 0x10, 0x10, "pair0" },
	{ "pair1", nng_pair1_open, nng_pair1_open_raw, 0x11, 0x11, "pair1" },
	{ "pub", nng_pub0_open, nng_pub0_open_raw, 0x20, 0x21, "sub" },
	{ "sub", nng_sub0_open, nng_sub0_open_raw, 0x21, 0x20, "pub" },
	{ "req", nng_req0_open, nng_req0_open_raw, 0x30, 0x31, "rep" },
	{ "rep", nng_rep0_open, nng_rep0_open_raw, 0x31, 0x30, "req" },
	{ "push", nng_push0_open, nng_push0_open_raw, 0x50, 0x51, "pull" },
	{ "pull", nng_pull0_open, nng_pull0_open_raw, 0x51, 0x50, "push" },
	{ "surveyor", nng_surveyor0_open, nng_surveyor0_open_raw, 0x62, 0x63,
	    "respondent" },
	{ "respondent", nng_respondent0_open, nng_respondent0_open_raw, 0x63,
	    0x62, "surveyor" },
	{ "bus", nng_bus0_open, nng_bus0_open_raw, 0x70, 0x70, "bus" },
};
const int vf_nprotos = (int) (sizeof(vf_protos) / sizeof(vf_protos[0]));

const vf_proto *
vf_proto_by_name(const char *name)
{
	for (int i = 0; i < vf_nprotos; i++) {
		if (!strcmp(vf_protos[i].name, name)) {
			return &vf_protos[i];
		}
	}
	return NULL;
}

const char *vf_tran_names[VF_T_N] = { "inproc", "ipc", "tcp", "ws", "sockfd" };

static _Atomic int url_ctr;

void
vf_url(int t, char *buf, size_t sz)
{
	int n = atomic_fetch_add(&url_ctr, 1);
	switch (t) {
	case VF_T_INPROC:
		snprintf(buf, sz, "inproc://vf-%d-%d", (int) getpid(), n);
		break;
	case VF_T_IPC:
		snprintf(buf, sz, "ipc:///tmp/vf-%d-%d.sock", (int) getpid(), n);
		break;
	case VF_T_TCP:
		snprintf(buf, sz, "tcp://127.0.0.1:0");
		break;
	case VF_T_WS:
		snprintf(buf, sz, "ws://127.0.0.1:0/vf%d", n);
		break;
	default:
		snprintf(buf, sz, "socket://");
		break;
	}
}

int
vf_dial_url(nng_listener l, int t, const char *listen_url, char *buf, size_t sz)
{
	if (t == VF_T_TCP || t == VF_T_WS) {
		int port = 0;
		int rv   = nng_listener_get_int(l, NNG_OPT_BOUND_PORT, &port);
		if (rv != 0) {
			return rv;
		}
		if (t == VF_T_TCP) {
			snprintf(buf, sz, "tcp://127.0.0.1:%d", port);
		} else {
			const char *path = strchr(listen_url + 5, '/');
			snprintf(buf, sz, "ws://127.0.0.1:%d%s", port,
			    path ? path : "/");
		}
		return 0;
	}
	snprintf(buf, sz, "%s", listen_url);
	return 0;
}

int
vf_pipe_count(nng_socket s)
{
	nng_stat       *st = NULL;
	const nng_stat *ss, *ps;
	int             n = -1;
	if (nng_stats_get(&st) != 0) {
		return -1;
	}
	if ((ss = nng_stat_find_socket(st, s)) != NULL &&
	    (ps = nng_stat_find(ss, "pipes")) != NULL) {
		n = (int) nng_stat_value(ps);
	}
	nng_stats_free(st);
	return n;
}

static int
wait_pipes(nng_socket a, nng_socket b)
{
	for (int i = 0; i < 4000; i++) {
		if (vf_pipe_count(a) >= 1 && vf_pipe_count(b) >= 1) {
			return 0;
		}
		vf_msleep(1);
	}
	return NNG_ETIMEDOUT;
}

int
vf_connect_sockfd(nng_socket a, nng_socket b)
{
	int          fds[2];
	nng_listener la, lb;
	int          rv;
	if ((rv = nng_socket_pair(fds)) != 0) {
		return rv;
	}
	if ((rv = nng_listener_create(&la, a, "socket://")) != 0 ||
	    (rv = nng_listener_create(&lb, b, "socket://")) != 0 ||
	    (rv = nng_listener_start(la, 0)) != 0 ||
	    (rv = nng_listener_start(lb, 0)) != 0 ||
	    (rv = nng_listener_set_int(la, NNG_OPT_SOCKET_FD, fds[0])) != 0 ||
	    (rv = nng_listener_set_int(lb, NNG_OPT_SOCKET_FD, fds[1])) != 0) {
		return rv;
	}
	return wait_pipes(a, b);
}

int
vf_connect(nng_socket a, nng_socket b, int t)
{
	char         url[128], durl[128];
	nng_listener l;
	int          rv;
	if (t == VF_T_SOCKFD) {
		return vf_connect_sockfd(a, b);
	}
	vf_url(t, url, sizeof(url));
	if ((rv = nng_listen(a, url, &l, 0)) != 0) {
		return rv;
	}
	if ((rv = vf_dial_url(l, t, url, durl, sizeof(durl))) != 0) {
		return rv;
	}
	if ((rv = nng_dial(b, durl, NULL, 0)) != 0) {
		return rv;
	}
	return wait_pipes(a, b);
}

// ---------------------------------------------------------------- bodies
#define VF_BODY_MAGIC 0x56464231u

size_t
vf_body_size(size_t want)
{
	return want < VF_BODY_MIN ? VF_BODY_MIN : want;
}

static void
put32(uint8_t *p, uint32_t v)
{
	p[0] = (uint8_t) (v >> 24);
	p[1] = (uint8_t) (v >> 16);
	p[2] = (uint8_t) (v >> 8);
	p[3] = (uint8_t) v;
}
static uint32_t
get32(const uint8_t *p)
{
	return ((uint32_t) p[0] << 24) | ((uint32_t) p[1] << 16) |
	    ((uint32_t) p[2] << 8) | p[3];
}

void
vf_body_make(void *buf, size_t len, uint32_t tag, uint64_t seq)
{
	uint8_t *p = buf;
	put32(p, VF_BODY_MAGIC);
	put32(p + 4, tag);
	put32(p + 8, (uint32_t) (seq >> 32));
	put32(p + 12, (uint32_t) seq);
	put32(p + 16, (uint32_t) len);
	vf_fill(p + VF_BODY_MIN, len - VF_BODY_MIN,
	    ((uint64_t) tag << 40) ^ seq ^ 0xb0d1e5);
	put32(p + 20, vf_crc32(p + VF_BODY_MIN, len - VF_BODY_MIN) ^
	        vf_crc32(p, 20));
}

int
vf_body_check(const void *buf, size_t len, uint32_t *tag, uint64_t *seq)
{
	const uint8_t *p = buf;
	if (len < VF_BODY_MIN) {
		return -1;
	}
	if (get32(p) != VF_BODY_MAGIC) {
		return -2;
	}
	if (get32(p + 16) != (uint32_t) len) {
		return -3;
	}
	if (get32(p + 20) !=
	    (vf_crc32(p + VF_BODY_MIN, len - VF_BODY_MIN) ^ vf_crc32(p, 20))) {
		return -4;
	}
	if (tag) {
		*tag = get32(p + 4);
	}
	if (seq) {
		*seq = ((uint64_t) get32(p + 8) << 32) | get32(p + 12);
	}
	return 0;
}

// ======================================================================
// raw peers (blocking sockets with poll timeouts; use read/write so the
// interposer above never touches them)
// ======================================================================
int
vf_tcp_listen(uint16_t *port)
{
	int                fd = socket(AF_INET, SOCK_STREAM | SOCK_CLOEXEC, 0);
	struct sockaddr_in sa;
	socklen_t          sl = sizeof(sa);
	int                on = 1;
	if (fd < 0) {
		return -1;
	}
	setsockopt(fd, SOL_SOCKET, SO_REUSEADDR, &on, sizeof(on));
	memset(&sa, 0, sizeof(sa));
	sa.sin_family      = AF_INET;
	sa.sin_addr.s_addr = htonl(INADDR_LOOPBACK);
	sa.sin_port        = htons(*port);
	if (bind(fd, (struct sockaddr *) &sa, sizeof(sa)) != 0 ||
	    listen(fd, 128) != 0 ||
	    getsockname(fd, (struct sockaddr *) &sa, &sl) != 0) {
		close(fd);
		return -1;
	}
	*port = ntohs(sa.sin_port);
	return fd;
}

static int
wait_fd(int fd, short ev, int timeout_ms)
{
	struct pollfd p = { fd, ev, 0 };
	for (;;) {
		int r = poll(&p, 1, timeout_ms);
		if (r < 0 && errno == EINTR) {
			continue;
		}
		return r;
	}
}

int
vf_tcp_accept(int lfd, int timeout_ms)
{
	if (wait_fd(lfd, POLLIN, timeout_ms) <= 0) {
		return -1;
	}
	int fd = accept4(lfd, NULL, NULL, SOCK_CLOEXEC);
	if (fd >= 0) {
		int on = 1;
		setsockopt(fd, IPPROTO_TCP, TCP_NODELAY, &on, sizeof(on));
	}
	return fd;
}

int
vf_tcp_connect(uint16_t port, int timeout_ms)
{
	uint64_t end = vf_now_ns() + (uint64_t) timeout_ms * 1000000ULL;
	for (;;) {
		int fd = socket(AF_INET, SOCK_STREAM | SOCK_CLOEXEC, 0);
		struct sockaddr_in sa;
		int                on = 1;
		if (fd < 0) {
			return -1;
		}
		memset(&sa, 0, sizeof(sa));
		sa.sin_family      = AF_INET;
		sa.sin_addr.s_addr = htonl(INADDR_LOOPBACK);
		sa.sin_port        = htons(port);
		if (connect(fd, (struct sockaddr *) &sa, sizeof(sa)) == 0) {
			setsockopt(fd, IPPROTO_TCP, TCP_NODELAY, &on, sizeof(on));
			return fd;
		}
		close(fd);
		if (vf_now_ns() > end) {
			return -1;
		}
		vf_msleep(2);
	}
}

int
vf_unix_listen(const char *path)
{
	int                fd = socket(AF_UNIX, SOCK_STREAM | SOCK_CLOEXEC, 0);
	struct sockaddr_un sa;
	if (fd < 0) {
		return -1;
	}
	memset(&sa, 0, sizeof(sa));
	sa.sun_family = AF_UNIX;
	snprintf(sa.sun_path, sizeof(sa.sun_path), "%s", path);
	unlink(path);
	if (bind(fd, (struct sockaddr *) &sa, sizeof(sa)) != 0 ||
	    listen(fd, 128) != 0) {
		close(fd);
		return -1;
	}
	return fd;
}

int
vf_unix_connect(const char *path, int timeout_ms)
{
	uint64_t end = vf_now_ns() + (uint64_t) timeout_ms * 1000000ULL;
	for (;;) {
		int fd = socket(AF_UNIX, SOCK_STREAM | SOCK_CLOEXEC, 0);
		struct sockaddr_un sa;
		if (fd < 0) {
			return -1;
		}
		memset(&sa, 0, sizeof(sa));
		sa.sun_family = AF_UNIX;
		snprintf(sa.sun_path, sizeof(sa.sun_path), "%s", path);
		if (connect(fd, (struct sockaddr *) &sa, sizeof(sa)) == 0) {
			return fd;
		}
		close(fd);
		if (vf_now_ns() > end) {
			return -1;
		}
		vf_msleep(2);
	}
}

int
vf_fd_write_all(int fd, const void *buf, size_t len, int timeout_ms)
{
	const uint8_t *p = buf;
	while (len > 0) {
		ssize_t n = write(fd, p, len);
		if (n > 0) {
			p += n;
			len -= (size_t) n;
			continue;
		}
		if (n < 0 && (errno == EAGAIN || errno == EINTR)) {
			if (wait_fd(fd, POLLOUT, timeout_ms) <= 0) {
				return -1;
			}
			continue;
		}
		return -1;
	}
	return 0;
}

long
vf_fd_read_full(int fd, void *buf, size_t len, int timeout_ms)
{
	uint8_t *p   = buf;
	size_t   got = 0;
	uint64_t end = vf_now_ns() + (uint64_t) timeout_ms * 1000000ULL;
	while (got < len) {
		int64_t left = ((int64_t) end - (int64_t) vf_now_ns()) / 1000000;
		if (left < 0) {
			left = 0;
		}
		if (wait_fd(fd, POLLIN, (int) left) <= 0) {
			break;
		}
		ssize_t n = read(fd, p + got, len - got);
		if (n > 0) {
			got += (size_t) n;
			continue;
		}
		if (n < 0 && (errno == EAGAIN || errno == EINTR)) {
			continue;
		}
		break; // EOF or error
	}
	return (long) got;
}

int
vf_fd_wait_eof(int fd, int timeout_ms)
{
	uint64_t end = vf_now_ns() + (uint64_t) timeout_ms * 1000000ULL;
	uint8_t  tmp[4096];
	for (;;) {
		int64_t left = ((int64_t) end - (int64_t) vf_now_ns()) / 1000000;
		if (left < 0) {
			return 0;
		}
		if (wait_fd(fd, POLLIN, (int) left) <= 0) {
			return 0;
		}
		ssize_t n = read(fd, tmp, sizeof(tmp));
		if (n == 0) {
			return 1;
		}
		if (n < 0 && errno != EAGAIN && errno != EINTR) {
			return 1; // reset counts as closed
		}
	}
}

void
vf_sp_hello(uint8_t out[8], uint16_t proto)
{
	out[0] = 0;
	out[1] = 'S';
	out[2] = 'P';
	out[3] = 0;
	out[4] = (uint8_t) (proto >> 8);
	out[5] = (uint8_t) proto;
	out[6] = 0;
	out[7] = 0;
}

int
vf_sp_handshake(int fd, uint16_t self, uint16_t *peer_out, int timeout_ms)
{
	uint8_t tx[8], rx[8];
	vf_sp_hello(tx, self);
	if (vf_fd_write_all(fd, tx, 8, timeout_ms) != 0) {
		return -1;
	}
	if (vf_fd_read_full(fd, rx, 8, timeout_ms) != 8) {
		return -2;
	}
	if (rx[0] != 0 || rx[1] != 'S' || rx[2] != 'P' || rx[3] != 0 ||
	    rx[6] != 0 || rx[7] != 0) {
		return -3;
	}
	if (peer_out) {
		*peer_out = (uint16_t) ((rx[4] << 8) | rx[5]);
	}
	return 0;
}

int
vf_sp_send_frame(int fd, bool ipc, const void *data, size_t len)
{
	uint8_t hdr[9];
	int     n = 0;
	if (ipc) {
		hdr[n++] = 1;
	}
	for (int i = 7; i >= 0; i--) {
		hdr[n++] = (uint8_t) ((uint64_t) len >> (8 * i));
	}
	if (vf_fd_write_all(fd, hdr, (size_t) n, 5000) != 0) {
		return -1;
	}
	return len ? vf_fd_write_all(fd, data, len, 5000) : 0;
}

long
vf_sp_recv_frame(int fd, bool ipc, void *buf, size_t cap, int timeout_ms)
{
	uint8_t  hdr[9];
	size_t   hl = ipc ? 9 : 8;
	uint64_t len = 0;
	if (vf_fd_read_full(fd, hdr, hl, timeout_ms) != (long) hl) {
		return -1;
	}
	if (ipc && hdr[0] != 1) {
		return -2;
	}
	for (size_t i = ipc ? 1 : 0; i < hl; i++) {
		len = (len << 8) | hdr[i];
	}
	if (len > cap) {
		return -3;
	}
	if (vf_fd_read_full(fd, buf, (size_t) len, timeout_ms) != (long) len) {
		return -4;
	}
	return (long) len;
}
