// vfh - harness support library for the runtime monitors in /verif.
// Linked into every harness executable together with libnng.a.
#ifndef VFH_H
#define VFH_H

#include <stdarg.h>
#include <stdbool.h>
#include <stddef.h>
#include <stdint.h>
#include <stdio.h>
#include <stdlib.h>
#include <string.h>

#include <nng/nng.h>

#ifdef __cplusplus
extern "C" {
#endif

// ---------------------------------------------------------------- PRNG
typedef struct {
	uint64_t s[4];
} vf_rng;
void     vf_rng_seed(vf_rng *r, uint64_t seed, uint64_t stream);
uint64_t vf_rand(vf_rng *r);
uint32_t vf_below(vf_rng *r, uint32_t n); // uniform in [0,n), n>0
uint32_t vf_range(vf_rng *r, uint32_t lo, uint32_t hi); // inclusive
bool     vf_chance(vf_rng *r, uint32_t num, uint32_t den);
uint64_t vf_mix64(uint64_t x);
void     vf_fill(void *buf, size_t len, uint64_t key); // deterministic fill
uint32_t vf_crc32(const void *buf, size_t len);

// ---------------------------------------------------------------- run
extern uint64_t vf_seed;  // --seed
extern int      vf_tier;  // 0 quick, 1 thorough
extern long     vf_cases; // --cases (harness interprets)
extern long     vf_from;  // --from: first case index to run
extern long     vf_only;  // --only: run just this case (-1 = all)
extern int      vf_verbose;
extern int      vf_shard, vf_nshards; // --shard i/n (worker index / workers)
extern const char *vf_mode; // --mode <string> (harness specific), or ""

void vf_init(int argc, char **argv);
// true if case index i should be executed in this process
bool vf_want_case(long i);
// Declare the case now running (for crash/hang attribution and replay).
void vf_case_begin(long index, const char *fmt, ...)
    __attribute__((format(printf, 2, 3)));
long vf_case_index(void);

void vf_stat(const char *key, long add);
void vf_stat_max(const char *key, long val);
void vf_class(const char *fmt, ...) __attribute__((format(printf, 1, 2)));
void vf_sample(const char *fmt, ...) __attribute__((format(printf, 1, 2)));
// Record a violation.  key identifies the oracle clause + discriminator.
void vf_violation(const char *key, const char *fmt, ...)
    __attribute__((format(printf, 2, 3)));
long vf_violations(void);
const char *vf_last_violation_key(void); // "" if none
// Harness failure (not a property violation): exit 2 via the driver.
void vf_harness_fail(const char *fmt, ...)
    __attribute__((format(printf, 1, 2), noreturn));
// Write results and return the process exit code (0, or 1 if violations).
int vf_finish(void);

uint64_t vf_now_ns(void);
void     vf_msleep(int ms);
void     vf_usleep(int us);

// Watchdog: abort the process (with thread stacks) if not kicked for
// 'seconds'.  Re-arm with vf_watchdog(seconds); 0 disables.
void vf_watchdog(int seconds);

// ---------------------------------------------------------------- alloc
// Accounting allocator for nng_init_params.  Not installed under TSan by
// default (its lock would add happens-before edges).
void vf_alloc_install(nng_init_params *p);
long vf_alloc_live_blocks(void);
long vf_alloc_live_bytes(void);
long vf_alloc_total(void);
long vf_alloc_peak_blocks(void);
// Fail the n-th allocation from now (1-based); 0 = never.
void vf_alloc_fail_nth(long n);
bool vf_alloc_fail_fired(void);
// Report leaks / errors as violations with the given prefix; returns count.
long vf_alloc_report(const char *prefix);
void vf_alloc_reset(void);
// site profiling / site-targeted failure (C20)
typedef struct {
	uint64_t hash;
	long     count;
	char     desc[160];
} vf_alloc_site;
void vf_alloc_profile(bool on);
int  vf_alloc_sites(vf_alloc_site *out, int max);
void vf_alloc_fail_site(uint64_t hash, long jth);

// Convenience: nng_init with accounting allocator (unless TSan) and the
// given thread counts (0 = default).
void vf_nng_init(int task_thr, int expire_thr, int poll_thr);
// nng_fini + leak report (violations keyed prefix/...).
void vf_nng_fini(const char *prefix);

// ---------------------------------------------------------------- short I/O
enum {
	VF_IO_FULL = 0,  // pass through
	VF_IO_DRIBBLE,   // param bytes at a time (default 1)
	VF_IO_RANDOM,    // random chunk in [1,param]
	VF_IO_CUT_ONCE,  // per fd+direction: first transfer cut at offset param
	VF_IO_CUT_EVERY, // every call is cut to at most param bytes then full
};
void vf_io_plan(int send_mode, long send_param, int recv_mode, long recv_param,
    uint64_t seed);
void vf_io_eagain_every(int n); // inject EAGAIN on every n-th call (0 off)
void vf_io_reset_fd_state(void);
void vf_io_fail_send_at(long nth_call, int err); // 0 = off
long vf_io_short_sends(void);
long vf_io_short_recvs(void);
long vf_io_send_calls(void);
long vf_io_recv_calls(void);
void vf_io_counters_reset(void);

// ---------------------------------------------------------------- hooks
#include "core/verif.h"
void vf_pt_off(void);
void vf_pt_jitter(uint64_t seed, int permille, int max_us);
void vf_pt_target(int site, int permille, int min_us, int max_us);
long vf_pt_delays(int site);
const char *vf_pt_name(int site);
// in-flight work inside the library (tasks queued/running, poller busy,
// reap pending).
long vf_inflight(void);
// wait until the library has been quiescent for two samples 'gap_ms' apart;
// returns false on timeout.
bool vf_quiesce(int gap_ms, int timeout_ms);
long vf_ev_count(int ev);
typedef void (*vf_ev_cb)(int ev, const void *obj, uintptr_t a, uintptr_t b);
void vf_ev_hook(vf_ev_cb cb);

// ---------------------------------------------------------------- helpers
typedef int (*vf_open_fn)(nng_socket *);
typedef struct {
	const char *name;
	vf_open_fn  open;
	vf_open_fn  open_raw;
	uint16_t    self, peer;
	const char *peer_name;
} vf_proto;
extern const vf_proto vf_protos[];
extern const int      vf_nprotos;
const vf_proto       *vf_proto_by_name(const char *name);

enum { VF_T_INPROC = 0, VF_T_IPC, VF_T_TCP, VF_T_WS, VF_T_SOCKFD, VF_T_N };
extern const char *vf_tran_names[VF_T_N];
// Produce a fresh listen URL for transport t (tcp/ws use port 0).
void vf_url(int t, char *buf, size_t sz);
// After nng_listen on a tcp/ws URL with port 0, produce the dial URL.
int vf_dial_url(nng_listener l, int t, const char *listen_url, char *buf,
    size_t sz);
// Connect two sockets over transport t (a listens, b dials), waits until
// both have a pipe.  Returns 0 or nng error.
int vf_connect(nng_socket a, nng_socket b, int t);
// socket:// transport: give each socket one end of a socketpair.
int vf_connect_sockfd(nng_socket a, nng_socket b);
int vf_pipe_count(nng_socket s); // from statistics-free pipe notify? see .c

// Self-describing message bodies: {magic, tag, seq, len, fill.., crc}
#define VF_BODY_MIN 24
size_t vf_body_size(size_t want);
void   vf_body_make(void *buf, size_t len, uint32_t tag, uint64_t seq);
// returns 0 if valid and fills tag/seq; <0 on corruption
int vf_body_check(const void *buf, size_t len, uint32_t *tag, uint64_t *seq);

// ---------------------------------------------------------------- raw peers
int  vf_tcp_listen(uint16_t *port);            // returns fd
int  vf_tcp_accept(int lfd, int timeout_ms);   // returns fd or -1
int  vf_tcp_connect(uint16_t port, int timeout_ms);
int  vf_unix_listen(const char *path);
int  vf_unix_connect(const char *path, int timeout_ms);
int  vf_fd_write_all(int fd, const void *buf, size_t len, int timeout_ms);
// read exactly len; returns len, or bytes read so far (short) on EOF/timeout
long vf_fd_read_full(int fd, void *buf, size_t len, int timeout_ms);
// wait for EOF/RST: returns 1 if peer closed within timeout, 0 otherwise
int  vf_fd_wait_eof(int fd, int timeout_ms);
void vf_sp_hello(uint8_t out[8], uint16_t proto);
// perform SP handshake as protocol 'self' expecting 'peer'; 0 ok
int vf_sp_handshake(int fd, uint16_t self, uint16_t *peer_out, int timeout_ms);
// frames: ipc adds a leading type octet (1)
int  vf_sp_send_frame(int fd, bool ipc, const void *data, size_t len);
long vf_sp_recv_frame(int fd, bool ipc, void *buf, size_t cap, int timeout_ms);

#ifdef __cplusplus
}
#endif
#endif
