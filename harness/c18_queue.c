// C18 (queues): socket buffers are bounded FIFOs.
//
// Every queue implementation behind NNG_OPT_SENDBUF / NNG_OPT_RECVBUF is
// driven with sequence-tagged messages and compared with a reference model.
// The model is a *set of candidate queue states*: put/get are deterministic,
// a shrinking resize forks every candidate into the outcomes the property
// allows (a contiguous run removed from exactly one end, exactly as many as
// no longer fit, +1 where the queue documents an in-flight slot).  Every
// observation (return code, length, message handed back, "would block")
// filters the set; an observation that no legal history explains is a
// violation.  The guarded ring invariants in lmq.c / msgqueue.c report
// through nni_verif_fail on their own.
//
// modes: lmq   white-box nni_lmq_*: exhaustive (cap, ring offset, fill,
//              newcap, gets, puts, newcap2) + random long runs
//        msgq  white-box nni_msgq_* with aios: the same, plus blocked
//              getters / putters
//        api   public API over inproc: RECVBUF/SENDBUF of cooked (lmq) and
//              raw (nni_msgq) sockets: fill at offset, resize, drain; refill
//              capacity; differential capacity; random histories
//        fan   queues behind a stalled pipe / per receiver (white-box stalling
//              peer protocol): pub/bus per-pipe queues, sub contexts (own and
//              inherited depth), send buffers behind an in-flight message,
//              blocking senders parked behind a full buffer across resizes
//        live  the depth is changed by the main thread while sender threads
//              stream and a receiver thread drains (ASan and TSan)
// lmq / msgq: every second enumerated case is repeated and the queue finished
// (closed) as the history left it - not drained - with the allocator balance
// as the verdict; random histories end that way half of the time.
#include "core/nng_impl.h"

#include "vfh.h"

#include <pthread.h>
#include <sched.h>
#include <stdatomic.h>
#include <unistd.h>

// ------------------------------------------------------------------ messages
#define MSG_MAGIC 0x5a18c18a5a18c18aULL
#define MAXSEQ 20000
#define SENTINEL 0x7fff0000u

typedef struct {
	nng_msg *m;
	uint8_t  st[2]; // per lane (receiver): 0 unused, 1 handed to the library, 2 back / freed by us, 3 arrived at a full lossy queue
} mrec;
static mrec     reg[MAXSEQ];
static uint32_t nextseq = 1;

static void
reg_reset(void)
{
	memset(reg, 0, sizeof(reg[0]) * (nextseq < MAXSEQ ? nextseq : MAXSEQ));
	nextseq = 1;
}

// api / fan / live modes: half of the bodies carry 1..284 more bytes that are
// keyed by the sequence number, so that damage anywhere in a body of any
// length (and a wrong length) is seen, not only in the first 16 bytes
static bool         varlen;
static _Atomic long long_bodies;
#define MAXEXTRA 285

static size_t
extra_len(uint64_t seq)
{
	if (!varlen) {
		return 0;
	}
	uint64_t x = vf_mix64(seq ^ MSG_MAGIC);
	return (x & 1) ? (size_t) ((x >> 8) % MAXEXTRA) : 0;
}

static nng_msg *
mk_msg_seq(uint32_t seq)
{
	nng_msg *m;
	size_t   x = extra_len(seq);
	if (nng_msg_alloc(&m, 0) != 0) {
		vf_harness_fail("nng_msg_alloc");
	}
	nng_msg_append_u64(m, (uint64_t) seq);
	nng_msg_append_u64(m, ((uint64_t) seq * 0x9e3779b97f4a7c15ULL) ^ MSG_MAGIC);
	if (x > 0) {
		uint8_t b[MAXEXTRA];
		vf_fill(b, x, (uint64_t) seq * 0xc2b2ae3d27d4eb4fULL);
		if (nng_msg_append(m, b, x) != 0) {
			vf_harness_fail("nng_msg_append");
		}
		atomic_fetch_add(&long_bodies, 1);
	}
	return m;
}

static nng_msg *
mk_msg(uint32_t *seqp)
{
	uint32_t seq = nextseq++;
	if (seq >= MAXSEQ) {
		vf_harness_fail("too many messages in one case");
	}
	nng_msg *m  = mk_msg_seq(seq);
	reg[seq].m  = m;
	reg[seq].st[0] = reg[seq].st[1] = 1;
	*seqp       = seq;
	return m;
}

// 0 ok (seq filled), -1 corrupt
static int
chk_msg(nng_msg *m, uint32_t *seqp)
{
	const uint8_t *b = nng_msg_body(m);
	uint64_t       s = 0, k = 0;
	if (nng_msg_len(m) < 16) {
		return -1;
	}
	for (int i = 0; i < 8; i++) {
		s = (s << 8) | b[i];
		k = (k << 8) | b[8 + i];
	}
	if (s > 0xffffffffu || k != ((s * 0x9e3779b97f4a7c15ULL) ^ MSG_MAGIC)) {
		return -1;
	}
	size_t x = extra_len(s);
	if (nng_msg_len(m) != 16 + x) {
		return -1;
	}
	if (x > 0) {
		uint8_t e[MAXEXTRA];
		vf_fill(e, x, s * 0xc2b2ae3d27d4eb4fULL);
		if (memcmp(e, b + 16, x) != 0) {
			return -1;
		}
	}
	*seqp = (uint32_t) s;
	return 0;
}

static uint32_t
be32h(const uint8_t *p)
{
	return ((uint32_t) p[0] << 24) | ((uint32_t) p[1] << 16) | ((uint32_t) p[2] << 8) | p[3];
}

// Protocol header of a message that was sent with the request id
// 0x80000000|seq: hdr 1: received by the white-box stalling REP peer (the id
// alone), hdr 2: received from a raw REP socket (pipe id, then the id).
static bool
hdr_ok(int hdr, nng_msg *m, uint32_t seq)
{
	const uint8_t *h = nng_msg_header(m);
	size_t         n = nng_msg_header_len(m);
	switch (hdr) {
	case 1: return n == 4 && be32h(h) == (0x80000000u | seq);
	case 2: return n == 8 && (be32h(h) & 0x80000000u) == 0 && be32h(h + 4) == (0x80000000u | seq);
	default: return true;
	}
}

// ------------------------------------------------------------------ candidate sets
#define QMAX 72
#define MAXC 256
typedef struct {
	int      n;
	uint32_t s[QMAX];
} dq;
typedef struct {
	int n;
	dq  c[MAXC];
} cset;

static void
cs_init(cset *cs)
{
	cs->n      = 1;
	cs->c[0].n = 0;
}

static bool
dq_eq(const dq *a, const dq *b)
{
	return a->n == b->n && memcmp(a->s, b->s, sizeof(uint32_t) * (size_t) a->n) == 0;
}

static void
cs_add(cset *cs, const dq *q)
{
	for (int i = 0; i < cs->n; i++) {
		if (dq_eq(&cs->c[i], q)) {
			return;
		}
	}
	if (cs->n >= MAXC) {
		vf_harness_fail("candidate set overflow");
	}
	cs->c[cs->n++] = *q;
}

static void
cs_append(cset *cs, uint32_t seq)
{
	for (int i = 0; i < cs->n; i++) {
		if (cs->c[i].n >= QMAX) {
			vf_harness_fail("model queue overflow");
		}
		cs->c[i].s[cs->c[i].n++] = seq;
	}
}

static int
cs_minlen(const cset *cs)
{
	int m = QMAX + 1;
	for (int i = 0; i < cs->n; i++) {
		m = cs->c[i].n < m ? cs->c[i].n : m;
	}
	return m;
}

static int
cs_maxlen(const cset *cs)
{
	int m = 0;
	for (int i = 0; i < cs->n; i++) {
		m = cs->c[i].n > m ? cs->c[i].n : m;
	}
	return m;
}

// keep candidates with lo <= len <= hi; returns number left
static int
cs_filter_len(cset *cs, int lo, int hi)
{
	int k = 0;
	for (int i = 0; i < cs->n; i++) {
		if (cs->c[i].n >= lo && cs->c[i].n <= hi) {
			if (k != i) {
				cs->c[k] = cs->c[i];
			}
			k++;
		}
	}
	cs->n = k;
	return k;
}

// keep candidates whose head is seq and pop it; returns number left
static int
cs_pop(cset *cs, uint32_t seq)
{
	cset out;
	out.n = 0;
	for (int i = 0; i < cs->n; i++) {
		dq *q = &cs->c[i];
		if (q->n > 0 && q->s[0] == seq) {
			dq t;
			t.n = q->n - 1;
			memcpy(t.s, q->s + 1, sizeof(uint32_t) * (size_t) t.n);
			cs_add(&out, &t);
		}
	}
	cs->n = out.n;
	memcpy(cs->c, out.c, sizeof(dq) * (size_t) out.n);
	return out.n;
}

// "prefer new" receive policy: a full queue gives up its oldest message
static void
cs_evict_append(cset *cs, uint32_t seq, int cap)
{
	cset out;
	out.n = 0;
	for (int i = 0; i < cs->n; i++) {
		dq t = cs->c[i];
		if (t.n >= cap && t.n > 0) {
			memmove(t.s, t.s + 1, sizeof(uint32_t) * (size_t) (t.n - 1));
			t.n--;
		}
		t.s[t.n++] = seq;
		cs_add(&out, &t);
	}
	cs->n = out.n;
	memcpy(cs->c, out.c, sizeof(dq) * (size_t) out.n);
}

// the outcomes of a resize that the property allows; the first 'skip'
// elements are not in the queue (they sit in the pipe's send slot)
static void
cs_resize_skip(cset *cs, int newcap, int slot, int skip)
{
	cset out;
	out.n = 0;
	for (int i = 0; i < cs->n; i++) {
		const dq *q  = &cs->c[i];
		int       sk = q->n < skip ? q->n : skip;
		int       n  = q->n - sk;
		if (n <= newcap) {
			cs_add(&out, q);
			continue;
		}
		for (int k = newcap; k <= newcap + slot && k <= n; k++) {
			dq t;
			t.n = sk + k;
			memcpy(t.s, q->s, sizeof(uint32_t) * (size_t) (sk + k)); // oldest kept
			cs_add(&out, &t);
			memcpy(t.s + sk, q->s + sk + (n - k), sizeof(uint32_t) * (size_t) k); // newest kept
			cs_add(&out, &t);
		}
	}
	cs->n = out.n;
	memcpy(cs->c, out.c, sizeof(dq) * (size_t) out.n);
}

static void
cs_resize(cset *cs, int newcap, int slot)
{
	cs_resize_skip(cs, newcap, slot, 0);
}

// One message offered to a queue that sits behind 'skip' in-flight cells.
// pol 0: refused when full (accepted tells what the library did),
// 1: dropped when full, 2: the oldest queued message makes room.
// Returns the number of candidates left.
static int
cs_offer(cset *cs, uint32_t seq, int cap, int skip, int pol, bool accepted)
{
	cset out;
	out.n = 0;
	for (int i = 0; i < cs->n; i++) {
		dq   t    = cs->c[i];
		bool room = t.n < skip || t.n - skip < cap;
		if (pol == 0) {
			if (room != accepted) {
				continue;
			}
			if (accepted) {
				t.s[t.n++] = seq;
			}
		} else if (room) {
			t.s[t.n++] = seq;
		} else if (pol == 2 && t.n > skip) {
			memmove(t.s + skip, t.s + skip + 1, sizeof(uint32_t) * (size_t) (t.n - skip - 1));
			t.s[t.n - 1] = seq;
		}
		if (t.n >= QMAX) {
			vf_harness_fail("model queue overflow");
		}
		cs_add(&out, &t);
	}
	cs->n = out.n;
	memcpy(cs->c, out.c, sizeof(dq) * (size_t) out.n);
	return out.n;
}

// ------------------------------------------------------------------ model + verdicts
typedef struct {
	char kind[48];
	cset cs;
	int  cap;
	int  slot;     // documented in-flight slot of the queue itself
	bool resized;  // a resize that was allowed to drop happened
	bool dead;     // a violation was reported in this case
	bool ptrcheck; // messages must come back as the same object
	int  lane;     // which receiver of a fan-out this model follows (registry column)
	int  hdr;      // protocol header expected on delivery (hdr_ok)
	long v0;
	char hist[320];
	int  hl;
	long drops; // messages legally discarded by resizes (for stats)
} model;

static long abandoned;
static long header_checks;

static void
m_init(model *M, const char *kind, int cap, int slot, bool ptrcheck)
{
	memset(M, 0, sizeof(*M));
	snprintf(M->kind, sizeof(M->kind), "%s", kind);
	cs_init(&M->cs);
	M->cap      = cap;
	M->slot     = slot;
	M->ptrcheck = ptrcheck;
	M->v0       = vf_violations();
}

static void m_log(model *M, const char *fmt, ...) __attribute__((format(printf, 2, 3)));
static void
m_log(model *M, const char *fmt, ...)
{
	char    b[48];
	va_list ap;
	va_start(ap, fmt);
	int n = vsnprintf(b, sizeof(b), fmt, ap);
	va_end(ap);
	if (n <= 0) {
		return;
	}
	if (n >= (int) sizeof(b)) {
		n = sizeof(b) - 1;
	}
	if (M->hl + n + 2 >= (int) sizeof(M->hist)) {
		// keep the most recent half
		int half = M->hl / 2;
		memmove(M->hist, M->hist + half, (size_t) (M->hl - half));
		M->hl -= half;
		if (M->hl >= 2) {
			M->hist[0] = '.';
			M->hist[1] = '.';
		}
	}
	if (M->hl > 0) {
		M->hist[M->hl++] = ' ';
	}
	memcpy(M->hist + M->hl, b, (size_t) n);
	M->hl += n;
	M->hist[M->hl] = 0;
}

static void m_viol(model *M, const char *clause, const char *fmt, ...)
    __attribute__((format(printf, 3, 4)));
static void
m_viol(model *M, const char *clause, const char *fmt, ...)
{
	char    key[128], b[400];
	va_list ap;
	va_start(ap, fmt);
	vsnprintf(b, sizeof(b), fmt, ap);
	va_end(ap);
	snprintf(key, sizeof(key), "C18/%s/%s", M->kind, clause);
	vf_violation(key, "%s | history: %s", b, M->hist);
	M->dead = true;
}

// did a library hook (or anything else) report during this case?
static bool
m_dead(model *M)
{
	if (!M->dead && vf_violations() != M->v0) {
		M->dead = true;
	}
	return M->dead;
}

static const char *
m_phase(const model *M)
{
	return M->resized ? "after-resize" : "plain";
}

static void
m_describe(const model *M, char *buf, size_t sz)
{
	size_t o = 0;
	buf[0]   = 0;
	for (int i = 0; i < M->cs.n && i < 4 && o + 8 < sz; i++) {
		o += (size_t) snprintf(buf + o, sz - o, "%s[", i ? " or " : "");
		for (int j = 0; j < M->cs.c[i].n && o + 8 < sz; j++) {
			o += (size_t) snprintf(buf + o, sz - o, "%s%u", j ? "," : "", M->cs.c[i].s[j]);
		}
		o += (size_t) snprintf(buf + o, sz - o, "]");
	}
}

// a message was accepted by the queue
static void
m_accept(model *M, uint32_t seq)
{
	cs_append(&M->cs, seq);
}

// the library handed back message m: consumes (frees) it
static void
m_recv(model *M, nng_msg *m)
{
	uint32_t seq;
	char     want[160];
	if (chk_msg(m, &seq) != 0) {
		m_viol(M, "corrupt", "received message with damaged body (len %zu)", nng_msg_len(m));
		return; // do not free: unknown object
	}
	if (!hdr_ok(M->hdr, m, seq)) {
		m_viol(M, "corrupt/header", "message %u arrived with a damaged protocol header (%zu bytes)", seq, nng_msg_header_len(m));
		return;
	}
	if (M->hdr != 0) {
		header_checks++;
	}
	if (seq >= SENTINEL) {
		m_viol(M, "order", "sentinel %u overtook queued messages", seq);
		nng_msg_free(m);
		return;
	}
	if (seq >= MAXSEQ || reg[seq].st[M->lane] == 0) {
		m_viol(M, "corrupt", "received message with unknown sequence number %u", seq);
		return;
	}
	if (reg[seq].st[M->lane] == 2) {
		m_viol(M, "duplicate", "message %u delivered twice", seq);
		return;
	}
	if (reg[seq].st[M->lane] == 3) {
		m_viol(M, "bound/kept-beyond-depth", "message %u was delivered although the queue was full (depth %d) when it arrived", seq, M->cap);
		return;
	}
	if (M->ptrcheck && reg[seq].m != m) {
		m_viol(M, "corrupt", "message %u came back as a different object", seq);
		return;
	}
	m_describe(M, want, sizeof(want));
	int before_max = cs_maxlen(&M->cs);
	if (cs_pop(&M->cs, seq) == 0) {
		if (before_max == 0) {
			m_viol(M, "phantom", "got message %u from a queue that must be empty", seq);
		} else {
			char cl[48];
			snprintf(cl, sizeof(cl), "order/%s", m_phase(M));
			m_viol(M, cl, "got message %u, legal queue contents: %s", seq, want);
		}
	}
	reg[seq].st[M->lane] = 2;
	nng_msg_free(m);
}

// the library claims the queue is empty
static void
m_empty(model *M, const char *how)
{
	char want[160];
	m_describe(M, want, sizeof(want));
	if (cs_filter_len(&M->cs, 0, 0) == 0) {
		char cl[48];
		snprintf(cl, sizeof(cl), "lost/%s", m_phase(M));
		m_viol(M, cl, "%s although the queue must still hold %s", how, want);
	}
}

static void
m_len(model *M, int len, const char *how)
{
	char want[160];
	m_describe(M, want, sizeof(want));
	int mn = cs_minlen(&M->cs), mx = cs_maxlen(&M->cs);
	if (cs_filter_len(&M->cs, len, len) == 0) {
		char cl[64];
		snprintf(cl, sizeof(cl), "%s/%s", len < mn ? "lost" : len > mx ? "over-capacity" : "length", m_phase(M));
		m_viol(M, cl, "%s reports %d queued, legal contents: %s", how, len, want);
	}
}

static void
m_resize(model *M, int newcap)
{
	int before = cs_maxlen(&M->cs);
	if (before > newcap) {
		M->resized = true;
	}
	cs_resize(&M->cs, newcap, M->slot);
	M->cap = newcap;
}

// ==================================================================
// white-box: nni_lmq
// ==================================================================
typedef struct {
	nni_lmq q;
	model   M;
	long    ops;
	long    live0; // allocator balance when the case began
	int     held;  // messages in the queue when it was finished
} lctx;

static void
l_init(lctx *L, int cap)
{
	reg_reset();
	m_init(&L->M, "lmq", cap, 0, true);
	L->ops   = 0;
	L->held  = 0;
	L->live0 = vf_alloc_live_bytes();
	nni_lmq_init(&L->q, (size_t) cap);
	m_log(&L->M, "init(%d)", cap);
	if ((int) nni_lmq_cap(&L->q) != cap) {
		m_viol(&L->M, "cap-not-set", "nni_lmq_init(%d) gives capacity %zu", cap, nni_lmq_cap(&L->q));
	}
}

static void
l_check(lctx *L)
{
	model *M = &L->M;
	if (m_dead(M)) {
		return;
	}
	int len = (int) nni_lmq_len(&L->q);
	m_len(M, len, "nni_lmq_len");
	if (M->dead) {
		return;
	}
	if (len > M->cap) {
		m_viol(M, "bound", "holds %d messages with capacity %d", len, M->cap);
		return;
	}
	if (nni_lmq_full(&L->q) != (len >= M->cap) || nni_lmq_empty(&L->q) != (len == 0)) {
		m_viol(M, "length/predicates", "full=%d empty=%d with len=%d cap=%d", nni_lmq_full(&L->q), nni_lmq_empty(&L->q), len, M->cap);
	}
}

// returns true if accepted
static bool
l_put(lctx *L)
{
	model *M = &L->M;
	if (m_dead(M)) {
		return false;
	}
	uint32_t seq;
	nng_msg *m  = mk_msg(&seq);
	int      rv = nni_lmq_put(&L->q, m);
	L->ops++;
	m_log(M, "put%u=%d", seq, rv);
	if (m_dead(M)) {
		return false;
	}
	int mn = cs_minlen(&M->cs), mx = cs_maxlen(&M->cs);
	if (rv == 0) {
		if (cs_filter_len(&M->cs, 0, M->cap - 1) == 0) {
			m_viol(M, "bound/put-accepted-when-full", "put accepted with %d queued and capacity %d", mn, M->cap);
			return false;
		}
		m_accept(M, seq);
		l_check(L);
		return true;
	}
	reg[seq].st[0] = 2;
	nng_msg_free(m);
	if (rv != NNG_EAGAIN) {
		m_viol(M, "put-error", "nni_lmq_put returned %d", rv);
	} else if (cs_filter_len(&M->cs, M->cap, QMAX) == 0) {
		m_viol(M, "capacity/put-refused-with-room", "put refused with %d queued and capacity %d", mx, M->cap);
	}
	return false;
}

static bool
l_get(lctx *L)
{
	model *M = &L->M;
	if (m_dead(M)) {
		return false;
	}
	nng_msg *m  = NULL;
	int      rv = nni_lmq_get(&L->q, &m);
	L->ops++;
	if (m_dead(M)) {
		return false;
	}
	if (rv != 0) {
		m_log(M, "get=%d", rv);
		m_empty(M, "nni_lmq_get returned EAGAIN");
		return false;
	}
	uint32_t s = 0;
	(void) chk_msg(m, &s);
	m_log(M, "get:%u", s);
	m_recv(M, m);
	if (!M->dead) {
		l_check(L);
	}
	return true;
}

static void
l_resize(lctx *L, int newcap)
{
	model *M = &L->M;
	if (m_dead(M)) {
		return;
	}
	int before = cs_maxlen(&M->cs);
	int rv     = nni_lmq_resize(&L->q, (size_t) newcap);
	L->ops++;
	m_log(M, "resize(%d)", newcap);
	if (m_dead(M)) {
		return;
	}
	if (rv != 0) {
		vf_harness_fail("nni_lmq_resize(%d) failed: %d", newcap, rv);
	}
	if ((int) nni_lmq_cap(&L->q) != newcap) {
		m_viol(M, "cap-not-set", "capacity %zu after resize(%d)", nni_lmq_cap(&L->q), newcap);
		return;
	}
	m_resize(M, newcap);
	int len = (int) nni_lmq_len(&L->q);
	if (before > newcap) {
		M->drops += before - len;
		vf_stat("lossy_resizes", 1);
	}
	l_check(L);
}

static void
l_flush(lctx *L)
{
	model *M = &L->M;
	if (m_dead(M)) {
		return;
	}
	nni_lmq_flush(&L->q);
	L->ops++;
	m_log(M, "flush");
	if (m_dead(M)) {
		return;
	}
	// whatever was queued is gone (freed by the library)
	cs_init(&M->cs);
	l_check(L);
}

// Teardown verdict: whatever a case allocated through the library's
// allocator (rings, messages, aios) is gone when the queue has been finished,
// also when it was finished holding messages at a wrapped ring position.
// (Reading past the ring or freeing a stale cell is ASan's / the accounting
// allocator's to report.)  Only with the accounting allocator (not TSan).
static bool alloc_ok;

static void
alloc_probe(void)
{
	long  b = vf_alloc_live_bytes();
	void *p = nni_alloc(64);
	alloc_ok = p != NULL && vf_alloc_live_bytes() == b + 64;
	nni_free(p, 64);
}

static void
m_balance(model *M, long live0, int held, const char *what)
{
	if (!alloc_ok || m_dead(M)) {
		return;
	}
	long live = vf_alloc_live_bytes();
	if (live > live0) {
		m_viol(M, "teardown/leak", "%ld bytes still allocated after %s of a queue holding %d messages", live - live0, what, held);
	} else if (live < live0) {
		m_viol(M, "teardown/over-free", "%ld bytes more released than the case allocated (%s of a queue holding %d messages)", live0 - live, what, held);
	}
}

// fill to capacity (checking the bound), drain completely, finish;
// or (drain == false) finish the queue as it is
static void
l_fini(lctx *L, bool drain)
{
	model *M = &L->M;
	if (drain && !m_dead(M)) {
		int guard = 0;
		bool big = false;
		while (!m_dead(M) && !(big = cs_maxlen(&M->cs) >= QMAX - 8) && l_put(L) && ++guard < QMAX) {
		}
		if (!m_dead(M) && !big && cs_maxlen(&M->cs) != M->cap && guard < QMAX) {
			m_viol(M, "capacity/put-refused-with-room", "filled only to %d of %d", cs_maxlen(&M->cs), M->cap);
		}
		guard = 0;
		while (!m_dead(M) && l_get(L) && ++guard < 2 * QMAX) {
		}
	}
	vf_stat("ops", L->ops);
	if (m_dead(M)) {
		// the ring may be damaged: do not walk it again
		abandoned++;
		return;
	}
	L->held = (int) nni_lmq_len(&L->q);
	if (L->held > 0) {
		// the library frees what is still queued
		vf_stat("nonempty_fini_cases", 1);
		vf_stat("nonempty_fini_msgs", L->held);
		if (L->q.lmq_get + L->q.lmq_len > L->q.lmq_mask + 1) {
			vf_stat("nonempty_fini_wrapped", 1);
		}
	}
	nni_lmq_fini(&L->q);
	m_balance(M, L->live0, L->held, "nni_lmq_fini");
}

// pass 0: the case ends by filling to the brim and draining (order of the
// survivors, capacity, emptiness); pass 1 (half of the indices): the queue is
// finished as the history left it - holding messages, at a rotated ring
// position - and the allocator balance is the verdict
static bool
second_pass(long idx)
{
	return (vf_mix64((uint64_t) idx * 0x9e3779b97f4a7c15ULL + 18) & 1) != 0;
}

static void
lmq_case(long idx, int cap, int off, int fill, int nc, int g, int p, int nc2, int alloc, bool drain)
{
	lctx L;
	vf_case_begin(idx, "lmq cap=%d off=%d fill=%d resize=%d gets=%d puts=%d resize=%d%s", cap, off, fill, nc, g, p, nc2, drain ? "" : " fini-as-is");
	l_init(&L, cap);
	for (int i = 0; i < off; i++) {
		l_put(&L);
		l_get(&L);
	}
	for (int i = 0; i < fill; i++) {
		l_put(&L);
	}
	l_resize(&L, nc);
	for (int i = 0; i < g; i++) {
		l_get(&L);
	}
	for (int i = 0; i < p; i++) {
		l_put(&L);
	}
	l_resize(&L, nc2);
	if (!L.M.dead && drain) {
		vf_class("lmq/cap%d->%d/%s%s/%s", cap, nc, fill == 0 ? "empty" : fill == cap ? "full" : "part", off + fill > alloc ? "-wrapped" : "", fill > nc ? "drop" : "keep");
	}
	l_fini(&L, drain);
	if (!L.M.dead && !drain) {
		vf_class("lmq/fini-as-is/cap%d->%d->%d/%s", cap, nc, nc2, L.held == 0 ? "empty" : L.held >= nc2 ? "full" : "part");
	}
	vf_stat("cases", 1);
	if (drain) {
		vf_stat("lmq_cases", 1);
		if ((idx % 20011) == 0) {
			vf_sample("{\"queue\":\"lmq\",\"cap\":%d,\"ring_offset\":%d,\"fill\":%d,\"resize\":[%d,%d],\"between\":\"%d gets %d puts\",\"history\":\"%s\"}", cap, off, fill, nc, nc2, g, p, L.M.hist);
		}
	}
}

static void
run_lmq_exhaustive(void)
{
	long idx = 0, done = 0;
	int  maxcap = 8, maxnew = 9;
	for (int cap = 0; cap <= maxcap; cap++) {
		int alloc = 2;
		while (alloc < cap) {
			alloc *= 2;
		}
		for (int off = 0; off < (cap == 0 ? 1 : alloc); off++) {
			for (int fill = 0; fill <= cap; fill++) {
				for (int nc = 0; nc <= maxnew; nc++) {
					for (int gp = 0; gp < 9; gp++) {
						for (int nc2 = 0; nc2 <= maxnew; nc2++, idx++) {
							if ((idx % vf_nshards) != vf_shard || !vf_want_case(idx)) {
								continue;
							}
							lmq_case(idx, cap, off, fill, nc, gp / 3, gp % 3, nc2, alloc, true);
							if (second_pass(idx)) {
								lmq_case(idx, cap, off, fill, nc, gp / 3, gp % 3, nc2, alloc, false);
							}
							if ((++done & 0x3ff) == 0) {
								vf_watchdog(120);
							}
						}
					}
				}
			}
		}
	}
}

// depths around the powers of two the ring is rounded to, and the largest
// the option accepts: 0 lmq, 1 msgq
static const int big_a[]  = { 31, 32, 33, 64, 1000, 8192 };
static const int big_b[]  = { 16, 31, 32, 33, 64, 65, 1000, 1024, 8192 };
static const int big_c[]  = { 1, 32, 8192 };
#define NBIG_A 6
#define NBIG_B 9
#define NBIG_C 3

static void
run_lmq_big(long base)
{
	long idx = base;
	for (int ai = 0; ai < NBIG_A; ai++) {
		int cap   = big_a[ai];
		int alloc = 2;
		while (alloc < cap) {
			alloc *= 2;
		}
		for (int oi = 0; oi < 3; oi++) {
			int off = oi == 0 ? 0 : oi == 1 ? cap - 3 : alloc - 1;
			for (int fi = 0; fi < 2; fi++) {
				int fill = cap <= 64 ? cap - 1 + fi : 20 + 20 * fi;
				for (int bi = 0; bi < NBIG_B; bi++) {
					for (int ci = 0; ci < NBIG_C; ci++, idx++) {
						if ((idx % vf_nshards) != vf_shard || !vf_want_case(idx)) {
							continue;
						}
						lctx L;
						vf_case_begin(idx, "lmq big cap=%d off=%d fill=%d resize=%d get put put resize=%d", cap, off, fill, big_b[bi], big_c[ci]);
						l_init(&L, cap);
						for (int i = 0; i < off; i++) {
							l_put(&L);
							l_get(&L);
						}
						for (int i = 0; i < fill; i++) {
							l_put(&L);
						}
						l_resize(&L, big_b[bi]);
						l_get(&L);
						l_put(&L);
						l_put(&L);
						l_resize(&L, big_c[ci]);
						if (!L.M.dead) {
							vf_class("lmq/big/cap%d->%d->%d/%s", cap, big_b[bi], big_c[ci], off + fill > alloc ? "wrapped" : "flat");
							vf_stat("big_depth_cases", 1);
						}
						l_fini(&L, true);
						vf_stat("cases", 1);
						vf_watchdog(120);
					}
				}
			}
		}
	}
}

static int
pick_cap(vf_rng *r)
{
	switch (vf_below(r, 8)) {
	case 0: return 0;
	case 1: return (int) (1u << vf_below(r, 5)); // 1,2,4,8,16
	case 2: return (int) (1u << vf_below(r, 5)) + 1;
	case 3: return (int) vf_range(r, 1, 4);
	default: return (int) vf_below(r, 18);
	}
}

static void
run_lmq_random(long base, long cases)
{
	vf_rng r;
	for (long c = 0; c < cases; c++) {
		long idx = base + c;
		if (!vf_want_case(idx)) {
			continue;
		}
		vf_rng_seed(&r, vf_seed, (uint64_t) idx);
		lctx L;
		int  cap   = pick_cap(&r);
		int  nops  = (int) vf_range(&r, 40, 400);
		int  bias  = (int) vf_below(&r, 3); // 0 balanced, 1 mostly full, 2 mostly empty
		vf_case_begin(idx, "lmq random cap=%d ops=%d bias=%d", cap, nops, bias);
		l_init(&L, cap);
		for (int i = 0; i < nops && !L.M.dead; i++) {
			uint32_t x = vf_below(&r, 100);
			if (nextseq > MAXSEQ - 64) {
				break;
			}
			if (x < 6) {
				l_resize(&L, pick_cap(&r));
			} else if (x < 7) {
				l_flush(&L);
			} else if (x < (bias == 1 ? 65u : bias == 2 ? 40u : 53u)) {
				l_put(&L);
			} else {
				l_get(&L);
			}
		}
		bool asis = vf_chance(&r, 1, 2); // finished holding whatever the history left
		if (!L.M.dead) {
			vf_class("lmq/random/cap%d/%s%s", L.M.cap, L.M.resized ? "lossy" : "lossless", asis ? "/fini-as-is" : "");
		}
		l_fini(&L, !asis);
		vf_stat("cases", 1);
		vf_stat("lmq_random_cases", 1);
		if ((c % 97) == 0) {
			vf_sample("{\"queue\":\"lmq\",\"random_ops\":%d,\"tail\":\"%s\"}", nops, L.M.hist);
		}
		if ((c & 0xff) == 0) {
			vf_watchdog(120);
		}
	}
}

// ==================================================================
// white-box: nni_msgq (aios without callback complete synchronously)
// ==================================================================
#define NWAIT 4
typedef struct {
	nni_aio *aio;
	bool     posted;
	uint32_t seq; // putters: message carried
} waiter;

typedef struct {
	nni_msgq *q;
	model     M;
	waiter    getter[NWAIT]; // FIFO: index order == posting order (compacted)
	waiter    putter[NWAIT];
	int       ngetters, nputters;
	nni_aio  *pool[2 * NWAIT];
	int       npool;
	long      ops;
	long      blocked_puts, blocked_gets, handoffs, cancels;
	long      live0; // allocator balance when the case began
	int       held;  // messages in the ring when the queue was closed / finished
} qctx;

static nni_aio *
q_aio(qctx *Q)
{
	nni_aio *a;
	if (Q->npool > 0) {
		return Q->pool[--Q->npool];
	}
	if (nni_aio_alloc(&a, NULL, NULL) != 0) {
		vf_harness_fail("nni_aio_alloc");
	}
	nni_aio_set_timeout(a, NNG_DURATION_INFINITE);
	return a;
}

static void
q_init(qctx *Q, int cap)
{
	reg_reset();
	memset(Q, 0, sizeof(*Q));
	Q->live0 = vf_alloc_live_bytes();
	m_init(&Q->M, "msgq", cap, 1, true);
	if (nni_msgq_init(&Q->q, (unsigned) cap) != 0) {
		vf_harness_fail("nni_msgq_init");
	}
	m_log(&Q->M, "init(%d)", cap);
}

// After an operation: collect completions.  Putters first (their messages
// were accepted), then getters (they consumed from the head).
static void
q_settle(qctx *Q)
{
	model *M = &Q->M;
	int    k = 0;
	int    before = cs_maxlen(&M->cs);
	if (m_dead(M)) {
		return;
	}
	for (int i = 0; i < Q->nputters; i++) {
		waiter *w = &Q->putter[i];
		if (nni_aio_busy(w->aio)) {
			Q->putter[k++] = *w;
			continue;
		}
		int rv = nni_aio_result(w->aio);
		if (rv != 0) {
			m_viol(M, "put-error", "blocked put of %u finished with error %d", w->seq, rv);
			return;
		}
		m_log(M, "aput%u:done", w->seq);
		m_accept(M, w->seq);
		Q->pool[Q->npool++] = w->aio;
	}
	Q->nputters = k;
	k           = 0;
	for (int i = 0; i < Q->ngetters; i++) {
		waiter *w = &Q->getter[i];
		if (nni_aio_busy(w->aio)) {
			Q->getter[k++] = *w;
			continue;
		}
		int rv = nni_aio_result(w->aio);
		if (rv != 0) {
			m_viol(M, "get-error", "get finished with error %d", rv);
			return;
		}
		nng_msg *m = nni_aio_get_msg(w->aio);
		nni_aio_set_msg(w->aio, NULL);
		uint32_t s = 0;
		(void) chk_msg(m, &s);
		m_log(M, "aget:%u", s);
		m_recv(M, m);
		Q->pool[Q->npool++] = w->aio;
		if (M->dead) {
			return;
		}
	}
	Q->ngetters = k;
	// bound: nothing is accepted into a queue that is at or over capacity
	int lim = before > M->cap ? before : M->cap;
	int mn  = cs_minlen(&M->cs);
	if (cs_filter_len(&M->cs, 0, lim) == 0) {
		m_viol(M, "bound", "queue holds %d messages with capacity %d (held %d before the operation)", mn, M->cap, before);
		return;
	}
	// a waiting getter means there is nothing to get
	if (Q->ngetters > 0) {
		m_empty(M, "a get is left waiting");
	}
}

static void
q_tryput(qctx *Q)
{
	model *M = &Q->M;
	if (m_dead(M)) {
		return;
	}
	uint32_t seq;
	nng_msg *m       = mk_msg(&seq);
	bool     reader  = Q->ngetters > 0;
	bool     waiters = Q->nputters > 0;
	int      rv      = nni_msgq_tryput(Q->q, m);
	Q->ops++;
	m_log(M, "tryput%u=%d", seq, rv);
	if (m_dead(M)) {
		return;
	}
	int mn = cs_minlen(&M->cs), mx = cs_maxlen(&M->cs);
	if (rv == 0) {
		if (reader) {
			Q->handoffs++;
		} else if (cs_filter_len(&M->cs, 0, M->cap - 1) == 0) {
			m_viol(M, "bound/put-accepted-when-full", "tryput accepted with %d queued, capacity %d, no reader", mn, M->cap);
			return;
		}
		m_accept(M, seq);
	} else {
		reg[seq].st[0] = 2;
		nng_msg_free(m);
		if (rv != NNG_EAGAIN) {
			m_viol(M, "put-error", "nni_msgq_tryput returned %d", rv);
			return;
		}
		if (reader) {
			m_viol(M, "capacity/put-refused-with-reader", "tryput refused although a get is waiting");
			return;
		}
		// (with blocked putters ahead, refusing is a legitimate policy)
		if (!waiters && cs_filter_len(&M->cs, M->cap, QMAX) == 0) {
			m_viol(M, "capacity/put-refused-with-room", "tryput refused with %d queued and capacity %d", mx, M->cap);
			return;
		}
	}
	q_settle(Q);
}

static void
q_aput(qctx *Q)
{
	model *M = &Q->M;
	if (m_dead(M) || Q->nputters >= NWAIT) {
		return;
	}
	uint32_t seq;
	nng_msg *m       = mk_msg(&seq);
	bool     reader  = Q->ngetters > 0;
	bool     waiters = Q->nputters > 0;
	int      mx      = cs_maxlen(&M->cs);
	waiter  *w       = &Q->putter[Q->nputters++];
	w->aio           = q_aio(Q);
	w->seq           = seq;
	nni_aio_set_msg(w->aio, m);
	nni_msgq_aio_put(Q->q, w->aio);
	Q->ops++;
	m_log(M, "aput%u", seq);
	q_settle(Q);
	if (m_dead(M)) {
		return;
	}
	// still blocked?
	for (int i = 0; i < Q->nputters; i++) {
		if (Q->putter[i].seq == seq) {
			Q->blocked_puts++;
			if (reader) {
				m_viol(M, "capacity/put-refused-with-reader", "put blocks although a get is waiting");
			} else if (!waiters && mx < M->cap) {
				m_viol(M, "capacity/put-refused-with-room", "put blocks with %d queued and capacity %d", mx, M->cap);
			}
			return;
		}
	}
}

static void
q_aget(qctx *Q)
{
	model *M = &Q->M;
	if (m_dead(M) || Q->ngetters >= NWAIT) {
		return;
	}
	waiter *w = &Q->getter[Q->ngetters++];
	w->aio    = q_aio(Q);
	w->seq    = 0;
	nni_msgq_aio_get(Q->q, w->aio);
	Q->ops++;
	m_log(M, "aget");
	int n = Q->ngetters;
	q_settle(Q);
	if (!m_dead(M) && Q->ngetters == n) {
		Q->blocked_gets++;
	}
}

// cancel a blocked put or get: it alone fails, its message stays with it,
// nobody else is disturbed
static void
q_cancel(qctx *Q, bool putter, int which)
{
	model *M = &Q->M;
	if (m_dead(M)) {
		return;
	}
	int *n = putter ? &Q->nputters : &Q->ngetters;
	if (*n == 0) {
		return;
	}
	waiter *arr = putter ? Q->putter : Q->getter;
	which %= *n;
	waiter w = arr[which];
	nni_aio_abort(w.aio, NNG_ECANCELED);
	Q->ops++;
	m_log(M, "cancel-%s%u", putter ? "put" : "get", w.seq);
	if (m_dead(M)) {
		return;
	}
	if (nni_aio_busy(w.aio)) {
		m_viol(M, "cancel/ignored", "aborting a blocked %s did not complete it", putter ? "put" : "get");
		return;
	}
	int rv = nni_aio_result(w.aio);
	if (rv != NNG_ECANCELED) {
		m_viol(M, "cancel/result", "aborted %s finished with %d", putter ? "put" : "get", rv);
		return;
	}
	nng_msg *m = nni_aio_get_msg(w.aio);
	if (putter) {
		if (m != reg[w.seq].m) {
			m_viol(M, "cancel/message", "cancelled put of %u no longer owns its message", w.seq);
			return;
		}
		nni_aio_set_msg(w.aio, NULL);
		reg[w.seq].st[0] = 2;
		nng_msg_free(m);
	}
	memmove(&arr[which], &arr[which + 1], sizeof(waiter) * (size_t) (*n - which - 1));
	(*n)--;
	Q->pool[Q->npool++] = w.aio;
	Q->cancels++;
	q_settle(Q);
}

static void
q_resize(qctx *Q, int newcap)
{
	model *M = &Q->M;
	if (m_dead(M)) {
		return;
	}
	int before = cs_maxlen(&M->cs);
	int rv     = nni_msgq_resize(Q->q, newcap);
	Q->ops++;
	m_log(M, "resize(%d)", newcap);
	if (m_dead(M)) {
		return;
	}
	if (rv != 0) {
		vf_harness_fail("nni_msgq_resize(%d) failed: %d", newcap, rv);
	}
	if (nni_msgq_cap(Q->q) != newcap) {
		m_viol(M, "cap-not-set", "capacity %d after resize(%d)", nni_msgq_cap(Q->q), newcap);
		return;
	}
	m_resize(M, newcap);
	if (before > newcap) {
		vf_stat("lossy_resizes", 1);
	}
	q_settle(Q);
}

// drain: gets until one blocks, then a sentinel goes straight to it
static void
q_drain(qctx *Q)
{
	model *M = &Q->M;
	int    guard = 0;
	// blocked getters first absorb what comes
	while (!m_dead(M) && Q->ngetters == 0 && ++guard < 2 * QMAX) {
		q_aget(Q);
	}
	if (m_dead(M)) {
		return;
	}
	if (Q->ngetters == 0) {
		m_viol(M, "phantom", "queue never runs dry");
		return;
	}
	if (Q->nputters != 0) {
		// both a getter and a putter blocked: not C18's business, but
		// we cannot finish the case through the queue
		vf_stat("stalled_putters", Q->nputters);
		return;
	}
	// exactly the waiting getters absorb sentinels, in order
	int ng = Q->ngetters;
	for (int i = 0; i < ng && !m_dead(M); i++) {
		nng_msg *s  = mk_msg_seq(SENTINEL + (uint32_t) i);
		int      rv = nni_msgq_tryput(Q->q, s);
		if (rv != 0) {
			nng_msg_free(s);
			m_viol(M, "capacity/put-refused-with-reader", "tryput refused (%d) although a get is waiting", rv);
			return;
		}
		waiter *w = &Q->getter[0];
		if (nni_aio_busy(w->aio)) {
			m_viol(M, "lost/handoff", "message handed to a waiting get did not complete it");
			return;
		}
		nng_msg *m = nni_aio_get_msg(w->aio);
		nni_aio_set_msg(w->aio, NULL);
		if (m != s) {
			uint32_t x = 0;
			(void) chk_msg(m, &x);
			m_viol(M, "order/handoff", "waiting get received %u instead of the message just put", x);
			return;
		}
		nng_msg_free(m);
		Q->pool[Q->npool++] = w->aio;
		memmove(&Q->getter[0], &Q->getter[1], sizeof(waiter) * (size_t) (Q->ngetters - 1));
		Q->ngetters--;
	}
}

// drain == true: fill to the brim, refuse one more, drain, prove emptiness,
// then close and finish.  drain == false: the queue is closed (or, without
// waiters, finished without a close: fini_only) as the history left it:
// messages in the ring at a rotated position, puts and gets blocked.  Every
// waiter fails with NNG_ECLOSED, a put keeps its message, and the allocator
// balance returns to where the case began.
static void
q_fini(qctx *Q, bool drain, bool fini_only)
{
	model *M = &Q->M;
	if (drain && !m_dead(M)) {
		// fill to the brim: exactly cap more are accepted in total
		int guard = 0;
		while (!m_dead(M) && Q->ngetters == 0 && Q->nputters == 0 && cs_maxlen(&M->cs) < M->cap && cs_maxlen(&M->cs) < QMAX - 8 && ++guard < QMAX) {
			q_tryput(Q);
		}
		if (!m_dead(M) && Q->ngetters == 0 && Q->nputters == 0 && cs_maxlen(&M->cs) >= M->cap) {
			q_tryput(Q); // one too many: must be refused (checked inside)
		}
		q_drain(Q);
	}
	vf_stat("ops", Q->ops);
	vf_stat("msgq_blocked_puts", Q->blocked_puts);
	vf_stat("msgq_blocked_gets", Q->blocked_gets);
	vf_stat("msgq_handoffs", Q->handoffs);
	vf_stat("msgq_cancels", Q->cancels);
	if (m_dead(M)) {
		abandoned++;
		return; // leak: the ring may be damaged
	}
	// (struct nni_msgq is private: the model says what the ring holds)
	int held = cs_minlen(&M->cs);
	Q->held  = held;
	if (held > 0) {
		vf_stat("nonempty_fini_cases", 1);
		vf_stat("nonempty_fini_msgs", held);
	}
	if (Q->nputters + Q->ngetters > 0) {
		vf_stat("msgq_close_with_waiters", 1);
		vf_stat("msgq_close_blocked_puts", Q->nputters);
		vf_stat("msgq_close_blocked_gets", Q->ngetters);
		fini_only = false; // finishing a queue with parked aios is not a legal use
	}
	if (!fini_only) {
		nni_msgq_close(Q->q);
	} else if (held > 0) {
		vf_stat("msgq_fini_without_close", 1);
	}
	for (int i = 0; i < Q->nputters && !M->dead; i++) {
		waiter *w = &Q->putter[i];
		if (nni_aio_busy(w->aio)) {
			m_viol(M, "close/waiter-left", "a blocked put is still waiting after nni_msgq_close");
			break;
		}
		nng_msg *m = nni_aio_get_msg(w->aio);
		if (nni_aio_result(w->aio) != NNG_ECLOSED) {
			m_viol(M, "close/result", "blocked put finished with %d at close", nni_aio_result(w->aio));
		} else if (m == NULL || m != reg[w->seq].m) {
			m_viol(M, "close/message", "put of %u that failed at close no longer owns its message", w->seq);
		} else {
			nni_aio_set_msg(w->aio, NULL);
			reg[w->seq].st[0] = 2;
			nng_msg_free(m);
		}
		Q->pool[Q->npool++] = w->aio;
	}
	for (int i = 0; i < Q->ngetters && !M->dead; i++) {
		waiter *w = &Q->getter[i];
		if (nni_aio_busy(w->aio)) {
			m_viol(M, "close/waiter-left", "a blocked get is still waiting after nni_msgq_close");
			break;
		}
		if (nni_aio_result(w->aio) != NNG_ECLOSED) {
			m_viol(M, "close/result", "blocked get finished with %d at close", nni_aio_result(w->aio));
		}
		Q->pool[Q->npool++] = w->aio;
	}
	if (M->dead) {
		abandoned++;
		return;
	}
	for (int i = 0; i < Q->npool; i++) {
		nni_aio_free(Q->pool[i]);
	}
	nni_msgq_fini(Q->q);
	m_balance(M, Q->live0, held, fini_only ? "nni_msgq_fini" : "nni_msgq_close + nni_msgq_fini");
}

// store-and-remove n messages to rotate the ring indices
static void
q_rotate(qctx *Q, int n)
{
	while (n > 0 && !m_dead(&Q->M)) {
		int chunk = n < Q->M.cap ? n : Q->M.cap;
		if (chunk > 16) {
			chunk = 16;
		}
		if (chunk == 0) {
			return;
		}
		for (int i = 0; i < chunk; i++) {
			q_tryput(Q);
		}
		for (int i = 0; i < chunk; i++) {
			q_aget(Q);
		}
		n -= chunk;
	}
}

static void
msgq_case(long idx, int cap, int off, int fill, int nc, int g, int p, int nc2, int alloc, bool drain)
{
	qctx Q;
	vf_case_begin(idx, "msgq cap=%d off=%d fill=%d resize=%d gets=%d puts=%d resize=%d%s", cap, off, fill, nc, g, p, nc2, drain ? "" : " close-as-is");
	q_init(&Q, cap);
	q_rotate(&Q, off);
	for (int i = 0; i < fill; i++) {
		q_tryput(&Q);
	}
	q_resize(&Q, nc);
	for (int i = 0; i < g; i++) {
		q_aget(&Q);
	}
	for (int i = 0; i < p; i++) {
		// a blocking put when there is no room
		if (cs_maxlen(&Q.M.cs) < Q.M.cap || Q.ngetters) {
			q_tryput(&Q);
		} else {
			q_aput(&Q);
		}
	}
	q_resize(&Q, nc2);
	if (!Q.M.dead && drain) {
		vf_class("msgq/cap%d->%d/%s%s/%s", cap, nc, fill == 0 ? "empty" : fill == cap ? "full" : "part", off + fill > alloc ? "-wrapped" : "", fill > nc + 1 ? "drop" : fill > nc ? "over" : "keep");
	}
	int np = Q.nputters, ng = Q.ngetters;
	// without waiters every other as-is case skips the close
	bool fo = (vf_mix64((uint64_t) idx * 0x9e3779b97f4a7c15ULL + 18) & 2) != 0;
	q_fini(&Q, drain, fo);
	if (!Q.M.dead && !drain) {
		vf_class("msgq/close-as-is/cap%d->%d->%d/%s/%s", cap, nc, nc2, Q.held == 0 ? "empty" : Q.held >= nc2 ? "full" : "part", np ? "putters" : ng ? "getters" : fo ? "fini-only" : "idle");
	}
	vf_stat("cases", 1);
	if (drain) {
		vf_stat("msgq_cases", 1);
		if ((idx % 9973) == 0) {
			vf_sample("{\"queue\":\"msgq\",\"cap\":%d,\"ring_offset\":%d,\"fill\":%d,\"resize\":[%d,%d],\"between\":\"%d gets %d puts\",\"history\":\"%s\"}", cap, off, fill, nc, nc2, g, p, Q.M.hist);
		}
	}
}

static void
run_msgq_exhaustive(void)
{
	long idx    = 0, done = 0;
	int  maxcap = 8, maxnew = 9;
	for (int cap = 0; cap <= maxcap; cap++) {
		int alloc = cap + 2;
		for (int off = 0; off < (cap == 0 ? 1 : alloc); off++) {
			for (int fill = 0; fill <= cap; fill++) {
				for (int nc = 0; nc <= maxnew; nc++) {
					for (int gp = 0; gp < 9; gp++) {
						for (int nc2 = 0; nc2 <= maxnew; nc2++, idx++) {
							if ((idx % vf_nshards) != vf_shard || !vf_want_case(idx)) {
								continue;
							}
							msgq_case(idx, cap, off, fill, nc, gp / 3, gp % 3, nc2, alloc, true);
							if (second_pass(idx)) {
								msgq_case(idx, cap, off, fill, nc, gp / 3, gp % 3, nc2, alloc, false);
							}
							if ((++done & 0x3ff) == 0) {
								vf_watchdog(120);
							}
						}
					}
				}
			}
		}
	}
}

static void
run_msgq_big(long base)
{
	long idx = base;
	for (int ai = 0; ai < NBIG_A; ai++) {
		int cap   = big_a[ai];
		int alloc = cap + 2;
		for (int oi = 0; oi < 3; oi++) {
			int off = oi == 0 ? 0 : oi == 1 ? cap - 3 : alloc - 1;
			for (int fi = 0; fi < 2; fi++) {
				int fill = cap <= 64 ? cap - 1 + fi : 20 + 20 * fi;
				for (int bi = 0; bi < NBIG_B; bi++) {
					for (int ci = 0; ci < NBIG_C; ci++, idx++) {
						if ((idx % vf_nshards) != vf_shard || !vf_want_case(idx)) {
							continue;
						}
						qctx Q;
						vf_case_begin(idx, "msgq big cap=%d off=%d fill=%d resize=%d get put put resize=%d", cap, off, fill, big_b[bi], big_c[ci]);
						q_init(&Q, cap);
						q_rotate(&Q, off);
						for (int i = 0; i < fill; i++) {
							q_tryput(&Q);
						}
						q_resize(&Q, big_b[bi]);
						q_aget(&Q);
						for (int i = 0; i < 2; i++) {
							if (cs_maxlen(&Q.M.cs) < Q.M.cap || Q.ngetters) {
								q_tryput(&Q);
							} else {
								q_aput(&Q);
							}
						}
						q_resize(&Q, big_c[ci]);
						if (!Q.M.dead) {
							vf_class("msgq/big/cap%d->%d->%d/%s", cap, big_b[bi], big_c[ci], off + fill > alloc ? "wrapped" : "flat");
							vf_stat("big_depth_cases", 1);
						}
						q_fini(&Q, true, false);
						vf_stat("cases", 1);
						vf_watchdog(120);
					}
				}
			}
		}
	}
}

static void
run_msgq_random(long base, long cases)
{
	vf_rng r;
	for (long c = 0; c < cases; c++) {
		long idx = base + c;
		if (!vf_want_case(idx)) {
			continue;
		}
		vf_rng_seed(&r, vf_seed, (uint64_t) idx);
		qctx Q;
		int  cap  = pick_cap(&r);
		int  nops = (int) vf_range(&r, 40, 300);
		int  bias = (int) vf_below(&r, 3);
		vf_case_begin(idx, "msgq random cap=%d ops=%d bias=%d", cap, nops, bias);
		q_init(&Q, cap);
		for (int i = 0; i < nops && !Q.M.dead; i++) {
			uint32_t x = vf_below(&r, 100);
			if (nextseq > MAXSEQ - 64) {
				break;
			}
			if (x < 7) {
				q_resize(&Q, pick_cap(&r));
			} else if (x < 11) {
				q_cancel(&Q, Q.nputters > 0, (int) vf_below(&r, NWAIT));
			} else if (x < (bias == 1 ? 60u : bias == 2 ? 35u : 48u)) {
				q_tryput(&Q);
			} else if (x < (bias == 1 ? 70u : bias == 2 ? 42u : 56u)) {
				// never leave a putter and a getter blocked together
				if (Q.ngetters == 0) {
					q_aput(&Q);
				} else {
					q_tryput(&Q);
				}
			} else {
				q_aget(&Q);
			}
		}
		// half of the histories end with a close of the queue as it is, with
		// one to NWAIT puts or gets left blocked
		bool asis = vf_chance(&r, 1, 2);
		if (asis && !Q.M.dead) {
			int want = (int) vf_range(&r, 1, NWAIT);
			if (Q.ngetters == 0 && cs_minlen(&Q.M.cs) >= Q.M.cap) {
				for (int guard = 0; Q.nputters < want && !Q.M.dead && guard < NWAIT; guard++) {
					q_aput(&Q);
				}
			} else if (Q.nputters == 0 && cs_maxlen(&Q.M.cs) == 0) {
				for (int guard = 0; Q.ngetters < want && !Q.M.dead && guard < NWAIT; guard++) {
					q_aget(&Q);
				}
			}
		}
		if (!Q.M.dead) {
			vf_class("msgq/random/cap%d/%s%s", Q.M.cap, Q.M.resized ? "lossy" : "lossless", !asis ? "" : Q.nputters ? "/closed-with-putters" : Q.ngetters ? "/closed-with-getters" : "/closed-as-is");
		}
		q_fini(&Q, !asis, false);
		vf_stat("cases", 1);
		vf_stat("msgq_random_cases", 1);
		if ((c % 97) == 0) {
			vf_sample("{\"queue\":\"msgq\",\"random_ops\":%d,\"tail\":\"%s\"}", nops, Q.M.hist);
		}
		if ((c & 0xff) == 0) {
			vf_watchdog(120);
		}
	}
}

// ==================================================================
// public API over inproc
// ==================================================================
typedef struct {
	const char *name;
	int (*open_q)(nng_socket *);    // socket that owns the queue under test
	int (*open_peer)(nng_socket *); // the other side
	const char *opt;                // NNG_OPT_RECVBUF / NNG_OPT_SENDBUF on q
	bool        recv_side;
	bool        msgq;     // nni_msgq behind it (slot 1, NONBLOCK unusable)
	bool        lossless; // back pressure instead of dropping when full
	int         mincap;
	bool        reqhdr;    // messages need a request-id header word
	bool        subscribe; // q must subscribe to everything
	int         prefnew;   // sub only: -1 n/a, 0 drop new when full, 1 evict oldest (default)
} kind;

static const kind kinds[] = {
	{ "pair0.recvbuf", nng_pair0_open, nng_pair0_open, NNG_OPT_RECVBUF, true, false, true, 0, false, false, -1 },
	{ "pair1.recvbuf", nng_pair1_open, nng_pair1_open, NNG_OPT_RECVBUF, true, false, true, 0, false, false, -1 },
	{ "sub.recvbuf", nng_sub0_open, nng_pub0_open, NNG_OPT_RECVBUF, true, false, false, 1, false, true, 0 },
	{ "sub-prefnew.recvbuf", nng_sub0_open, nng_pub0_open, NNG_OPT_RECVBUF, true, false, false, 1, false, true, 1 },
	{ "bus.recvbuf", nng_bus0_open, nng_bus0_open, NNG_OPT_RECVBUF, true, false, false, 1, false, false, -1 },
	{ "xsub.recvbuf", nng_sub0_open_raw, nng_pub0_open, NNG_OPT_RECVBUF, true, true, false, 0, false, false, -1 },
	{ "xrep.recvbuf", nng_rep0_open_raw, nng_req0_open_raw, NNG_OPT_RECVBUF, true, true, true, 0, true, false, -1 },
	{ "pair0.sendbuf", nng_pair0_open, nng_pair0_open, NNG_OPT_SENDBUF, false, false, true, 0, false, false, -1 },
	{ "pair1.sendbuf", nng_pair1_open, nng_pair1_open, NNG_OPT_SENDBUF, false, false, true, 0, false, false, -1 },
	{ "push.sendbuf", nng_push0_open, nng_pull0_open, NNG_OPT_SENDBUF, false, false, true, 0, false, false, -1 },
	{ "xreq.sendbuf", nng_req0_open_raw, nng_rep0_open_raw, NNG_OPT_SENDBUF, false, true, true, 0, true, false, -1 },
};
#define NKINDS ((int) (sizeof(kinds) / sizeof(kinds[0])))

typedef struct {
	const kind *k;
	nng_socket  q, peer;
	bool        have_peer;
	char        url[96];
	nng_aio    *raio; // receive aio (no callback: completes synchronously)
	nng_aio    *saio;
	model       M;
	_Atomic int q_pipes, peer_pipes;
	long        msgs;
} actx;

static void
quiesce(void)
{
	if (!vf_quiesce(0, 20000)) {
		vf_harness_fail("library did not become quiescent");
	}
}

static void
pipe_cb_q(nng_pipe p, nng_pipe_ev ev, void *arg)
{
	actx *A = arg;
	(void) p;
	atomic_fetch_add(&A->q_pipes, ev == NNG_PIPE_EV_ADD_POST ? 1 : -1);
}

static void
pipe_cb_peer(nng_pipe p, nng_pipe_ev ev, void *arg)
{
	actx *A = arg;
	(void) p;
	atomic_fetch_add(&A->peer_pipes, ev == NNG_PIPE_EV_ADD_POST ? 1 : -1);
}

static void
wait_count(_Atomic int *v, int want, const char *what)
{
	uint64_t end = vf_now_ns() + 20000000000ULL;
	while (atomic_load(v) != want) {
		if (vf_now_ns() > end) {
			vf_harness_fail("timeout waiting for %s", what);
		}
		vf_usleep(50);
	}
}

static void
a_attach_peer(actx *A)
{
	int rv;
	if ((rv = A->k->open_peer(&A->peer)) != 0) {
		vf_harness_fail("open peer: %s", nng_strerror(rv));
	}
	atomic_store(&A->peer_pipes, 0);
	nng_pipe_notify(A->peer, NNG_PIPE_EV_ADD_POST, pipe_cb_peer, A);
	nng_pipe_notify(A->peer, NNG_PIPE_EV_REM_POST, pipe_cb_peer, A);
	nng_socket_set_ms(A->peer, NNG_OPT_SENDTIMEO, 10000);
	nng_socket_set_ms(A->peer, NNG_OPT_RECVTIMEO, 10000);
	if (!A->k->recv_side) {
		// the draining peer must never be the bottleneck
		(void) nng_socket_set_int(A->peer, NNG_OPT_RECVBUF, 64);
	}
	if ((rv = nng_dial(A->peer, A->url, NULL, 0)) != 0) {
		vf_harness_fail("dial: %s", nng_strerror(rv));
	}
	wait_count(&A->peer_pipes, 1, "peer pipe");
	wait_count(&A->q_pipes, 1, "queue-side pipe");
	A->have_peer = true;
	quiesce();
}

static void
a_detach_peer(actx *A)
{
	nng_socket_close(A->peer);
	A->have_peer = false;
	wait_count(&A->q_pipes, 0, "pipe removal");
	quiesce();
}

static void
a_open(actx *A, const kind *k, int cap, bool with_peer)
{
	int rv;
	memset(A, 0, sizeof(*A));
	A->k = k;
	reg_reset();
	char mk[48];
	snprintf(mk, sizeof(mk), "api/%s", k->name);
	m_init(&A->M, mk, cap, k->msgq ? 1 : 0, false);
	A->M.hdr = k->reqhdr ? 2 : 0; // both reqhdr kinds are drained from a raw REP socket
	if ((rv = k->open_q(&A->q)) != 0) {
		vf_harness_fail("open %s: %s", k->name, nng_strerror(rv));
	}
	nng_pipe_notify(A->q, NNG_PIPE_EV_ADD_POST, pipe_cb_q, A);
	nng_pipe_notify(A->q, NNG_PIPE_EV_REM_POST, pipe_cb_q, A);
	nng_socket_set_ms(A->q, NNG_OPT_SENDTIMEO, 10000);
	nng_socket_set_ms(A->q, NNG_OPT_RECVTIMEO, 10000);
	if (k->subscribe) {
		nng_sub0_socket_subscribe(A->q, "", 0);
	}
	if (k->prefnew == 0 && (rv = nng_socket_set_bool(A->q, NNG_OPT_SUB_PREFNEW, false)) != 0) {
		vf_harness_fail("set prefnew: %s", nng_strerror(rv));
	}
	if ((rv = nng_socket_set_int(A->q, k->opt, cap)) != 0) {
		vf_harness_fail("%s set %s=%d: %s", k->name, k->opt, cap, nng_strerror(rv));
	}
	m_log(&A->M, "cap(%d)", cap);
	vf_url(VF_T_INPROC, A->url, sizeof(A->url));
	if ((rv = nng_listen(A->q, A->url, NULL, 0)) != 0) {
		vf_harness_fail("listen: %s", nng_strerror(rv));
	}
	if (nng_aio_alloc(&A->raio, NULL, NULL) != 0 || nng_aio_alloc(&A->saio, NULL, NULL) != 0) {
		vf_harness_fail("nng_aio_alloc");
	}
	nng_aio_set_timeout(A->raio, NNG_DURATION_INFINITE);
	nng_aio_set_timeout(A->saio, NNG_DURATION_INFINITE);
	if (with_peer) {
		a_attach_peer(A);
	}
}

static void
a_close(actx *A)
{
	vf_stat("api_msgs", A->msgs);
	if (m_dead(&A->M)) {
		// the queue may be damaged: leave the sockets alone
		abandoned++;
		return;
	}
	nng_aio_stop(A->raio);
	nng_aio_stop(A->saio);
	nng_msg *m;
	if ((m = nng_aio_get_msg(A->saio)) != NULL && nng_aio_result(A->saio) != 0) {
		nng_msg_free(m);
	}
	if (nng_aio_result(A->raio) == 0 && (m = nng_aio_get_msg(A->raio)) != NULL) {
		nng_msg_free(m);
	}
	if (A->have_peer) {
		nng_socket_close(A->peer);
	}
	nng_socket_close(A->q);
	nng_aio_free(A->raio);
	nng_aio_free(A->saio);
}

static nng_msg *
a_mk(actx *A, uint32_t *seqp, bool sentinel, uint32_t sseq)
{
	nng_msg *m;
	if (sentinel) {
		m     = mk_msg_seq(sseq);
		*seqp = sseq;
	} else {
		m = mk_msg(seqp);
	}
	if (A->k->reqhdr) {
		nng_msg_header_append_u32(m, 0x80000000u | *seqp);
	}
	A->msgs++;
	return m;
}

// send one message from socket s; mode 0: blocking (must succeed),
// 1: non-blocking attempt, returns true if accepted.  For nni_msgq-backed
// sockets a non-blocking attempt is an aio that is cancelled if it has not
// completed once the library is quiescent.
static bool
a_send(actx *A, nng_socket s, nng_msg *m, bool attempt, bool msgq)
{
	int rv;
	if (!attempt) {
		if ((rv = nng_sendmsg(s, m, 0)) != 0) {
			nng_msg_free(m);
			m_viol(&A->M, "send-failed", "blocking send failed: %s", nng_strerror(rv));
			return false;
		}
		quiesce();
		return true;
	}
	if (!msgq) {
		rv = nng_sendmsg(s, m, NNG_FLAG_NONBLOCK);
		if (rv == 0) {
			quiesce();
			return true;
		}
		nng_msg_free(m);
		if (rv != NNG_EAGAIN) {
			m_viol(&A->M, "send-failed", "non-blocking send failed: %s", nng_strerror(rv));
		}
		return false;
	}
	nng_aio_set_msg(A->saio, m);
	nng_socket_send(s, A->saio);
	quiesce();
	if (!nng_aio_busy(A->saio)) {
		if ((rv = nng_aio_result(A->saio)) != 0) {
			nng_msg_free(m);
			m_viol(&A->M, "send-failed", "send aio failed: %s", nng_strerror(rv));
			return false;
		}
		return true;
	}
	nng_aio_cancel(A->saio);
	nng_aio_wait(A->saio);
	if (nng_aio_result(A->saio) == 0) {
		// completed while being cancelled (cannot happen at quiescence)
		return true;
	}
	nng_msg_free(nng_aio_get_msg(A->saio));
	nng_aio_set_msg(A->saio, NULL);
	quiesce();
	return false;
}

// receive everything socket s will give; then prove emptiness with a
// sentinel sent from 'from' that must reach the waiting receive directly.
static void
a_drain(actx *A, nng_socket s, nng_socket from)
{
	model *M = &A->M;
	static uint32_t sent_ctr;
	for (int guard = 0; guard < 4 * QMAX && !m_dead(M); guard++) {
		nng_socket_recv(s, A->raio);
		quiesce();
		if (!nng_aio_busy(A->raio)) {
			int rv = nng_aio_result(A->raio);
			if (rv != 0) {
				m_viol(M, "recv-failed", "receive failed: %s", nng_strerror(rv));
				return;
			}
			nng_msg *m = nng_aio_get_msg(A->raio);
			nng_aio_set_msg(A->raio, NULL);
			uint32_t x = 0;
			(void) chk_msg(m, &x);
			m_log(M, "recv:%u", x);
			m_recv(M, m);
			continue;
		}
		// nothing more to be had
		m_log(M, "dry");
		m_empty(M, "receive blocks at quiescence");
		uint32_t sseq = SENTINEL + (sent_ctr++ & 0xfff), got = 0;
		nng_msg *sm   = a_mk(A, &got, true, sseq);
		int      rv   = nng_sendmsg(from, sm, 0);
		if (rv != 0) {
			nng_msg_free(sm);
			nng_aio_cancel(A->raio);
			nng_aio_wait(A->raio);
			m_viol(M, "send-failed", "sentinel send failed: %s", nng_strerror(rv));
			return;
		}
		// the waiting receive gets it (bounded-progress deadline 10 s)
		uint64_t end = vf_now_ns() + 10000000000ULL;
		while (nng_aio_busy(A->raio) && vf_now_ns() < end) {
			vf_usleep(50);
		}
		if (nng_aio_busy(A->raio)) {
			nng_aio_cancel(A->raio);
			nng_aio_wait(A->raio);
			if (!M->dead) {
				m_viol(M, "lost/sentinel", "a message sent to a waiting receiver never arrived");
			}
			return;
		}
		if (nng_aio_result(A->raio) != 0) {
			m_viol(M, "recv-failed", "receive failed: %s", nng_strerror(nng_aio_result(A->raio)));
			return;
		}
		nng_msg *m = nng_aio_get_msg(A->raio);
		nng_aio_set_msg(A->raio, NULL);
		if (chk_msg(m, &got) == 0 && got == sseq) {
			if (!hdr_ok(M->hdr, m, got)) {
				m_viol(M, "corrupt/header", "message %u arrived with a damaged protocol header (%zu bytes)", got, nng_msg_header_len(m));
				return;
			}
			nng_msg_free(m);
			quiesce();
			return;
		}
		// something that was still in flight: judge it, go on draining
		// (the sentinel is still to come and will be flagged if it
		// overtakes)
		if (!M->dead) {
			m_viol(M, "lost/stalled", "message %u only moved after another send", got);
		}
		nng_msg_free(m);
		return;
	}
	if (!m_dead(M)) {
		m_viol(M, "phantom", "queue never runs dry");
	}
}

static void
a_resize(actx *A, int newcap)
{
	model *M = &A->M;
	if (m_dead(M)) {
		return;
	}
	int before = cs_maxlen(&M->cs);
	int rv     = nng_socket_set_int(A->q, A->k->opt, newcap);
	m_log(M, "resize(%d)", newcap);
	if (m_dead(M)) {
		return;
	}
	if (rv != 0) {
		vf_harness_fail("%s set %s=%d: %s", A->k->name, A->k->opt, newcap, nng_strerror(rv));
	}
	int got = -1;
	if (nng_socket_get_int(A->q, A->k->opt, &got) != 0 || got != newcap) {
		m_viol(M, "cap-not-set", "option reads back %d after setting %d", got, newcap);
		return;
	}
	m_resize(M, newcap);
	if (before > newcap) {
		vf_stat("lossy_resizes", 1);
	}
	quiesce();
}

// one message into the queue under test through the regular data path.
// expect: 1 must be accepted into the queue, 0 may not be (full).
static void
a_feed(actx *A, bool inflight)
{
	model   *M = &A->M;
	uint32_t seq;
	if (m_dead(M)) {
		return;
	}
	nng_msg *m = a_mk(A, &seq, false, 0);
	if (A->k->recv_side) {
		// peer sends; the message travels into q's receive queue
		m_log(M, "send%u", seq);
		if (!a_send(A, A->peer, m, false, false)) {
			return;
		}
		if (inflight) {
			return; // caller accounts for it (held in front of the queue)
		}
		if (A->k->lossless || cs_maxlen(&M->cs) < M->cap) {
			m_accept(M, seq);
		} else if (A->k->prefnew == 1) {
			// full: the oldest queued message makes room (documented)
			cs_evict_append(&M->cs, seq, M->cap);
			vf_stat("api_legal_drops", 1);
		} else {
			reg[seq].st[0] = 3; // must be dropped by the lossy protocol (queue full)
			vf_stat("api_legal_drops", 1);
		}
	} else {
		// own send without a peer: lands in q's send queue
		bool full = cs_minlen(&M->cs) >= M->cap;
		bool ok   = a_send(A, A->q, m, true, A->k->msgq);
		m_log(M, "send%u=%d", seq, ok);
		if (m_dead(M)) {
			return;
		}
		if (ok) {
			if (cs_filter_len(&M->cs, 0, M->cap - 1) == 0) {
				m_viol(M, "bound/send-accepted-when-full", "send accepted with a full buffer of %d and no pipe", M->cap);
				return;
			}
			m_accept(M, seq);
		} else {
			reg[seq].st[0] = 2;
			if (!full && cs_filter_len(&M->cs, M->cap, QMAX) == 0) {
				m_viol(M, "capacity/send-refused-with-room", "send refused with %d of %d buffered", cs_maxlen(&M->cs), M->cap);
			}
		}
	}
}

// rotate the ring of the queue under test by n stored-and-removed messages
static void
a_rotate(actx *A, int n)
{
	model *M = &A->M;
	while (n > 0 && !m_dead(M) && M->cap > 0) {
		int chunk = n < M->cap ? n : M->cap;
		if (A->k->recv_side) {
			for (int i = 0; i < chunk; i++) {
				a_feed(A, false);
			}
			for (int i = 0; i < chunk && !m_dead(M); i++) {
				nng_msg *m = NULL;
				int      rv = nng_recvmsg(A->q, &m, 0);
				if (rv != 0) {
					m_viol(M, "lost/plain", "receive of a queued message failed: %s", nng_strerror(rv));
					return;
				}
				m_recv(M, m);
				quiesce();
			}
		} else {
			for (int i = 0; i < chunk; i++) {
				a_feed(A, false);
			}
			if (m_dead(M)) {
				return;
			}
			a_attach_peer(A);
			a_drain(A, A->peer, A->q);
			if (m_dead(M)) {
				return;
			}
			a_detach_peer(A);
		}
		n -= chunk;
	}
}

static int
ring_slots(const kind *k, int cap)
{
	if (k->msgq) {
		// fresh socket: urq starts with cap 1 (3 cells), uwq with cap 0
		int base = k->recv_side ? 3 : 2;
		return cap + 2 > base ? cap + 2 : base;
	}
	int a = 2;
	while (a < cap) {
		a *= 2;
	}
	return a;
}

static void
api_resize_case(long idx, const kind *k, int cap, int off, int fill, int nc)
{
	actx A;
	vf_case_begin(idx, "api %s cap=%d off=%d fill=%d resize=%d", k->name, cap, off, fill, nc);
	a_open(&A, k, cap, k->recv_side);
	model *M = &A.M;
	a_rotate(&A, off);
	int      q_fill = fill > cap ? cap : fill;
	uint32_t held   = 0;
	for (int i = 0; i < q_fill; i++) {
		a_feed(&A, false);
	}
	if (fill > cap && !m_dead(M)) {
		// one more: sits in the in-flight slot in front of the queue
		held = nextseq;
		a_feed(&A, true);
		vf_stat("api_inflight_slot_used", 1);
	}
	if (!k->recv_side && q_fill == cap && !m_dead(M)) {
		// no pipe: nothing beyond the configured depth is accepted
		a_feed(&A, false);
	}
	a_resize(&A, nc);
	if (held != 0 && !m_dead(M)) {
		m_accept(M, held); // enters (or bypasses) the queue after the survivors
	}
	if (k->recv_side) {
		a_drain(&A, A.q, A.peer);
		// capacity of the resized queue: lossy protocols keep exactly nc
		if (!k->lossless && !m_dead(M)) {
			for (int i = 0; i < nc + 2; i++) {
				a_feed(&A, false);
			}
			if (!m_dead(M) && cs_maxlen(&M->cs) != nc) {
				vf_harness_fail("model: refill");
			}
			a_drain(&A, A.q, A.peer);
			vf_stat("api_refills", 1);
		}
	} else if (!m_dead(M)) {
		a_attach_peer(&A);
		a_drain(&A, A.peer, A.q);
	}
	if (!m_dead(M)) {
		vf_class("api/%s/cap%d->%d/%s%s", k->name, cap, nc, fill == 0 ? "empty" : fill == cap ? "full" : fill > cap ? "full+1" : "part", off + fill > ring_slots(k, cap) ? "-wrapped" : "");
		vf_stat("api_resize_cases", 1);
	}
	if ((idx % 211) == 0) {
		vf_sample("{\"socket\":\"%s\",\"depth\":%d,\"ring_offset\":%d,\"queued\":%d,\"new_depth\":%d,\"history\":\"%s\"}", k->name, cap, off, fill, nc, M->hist);
	}
	a_close(&A);
	vf_stat("cases", 1);
}

// how many sends are accepted with nobody receiving
static int
api_accepted(long idx, const kind *k, int ds, int dr, bool with_peer, bool set_dr, char *note, size_t nsz)
{
	actx A;
	int  n = 0;
	(void) idx;
	// q is the sender here for every kind: open the sending protocol
	kind kk = *k;
	if (k->recv_side) {
		kk.open_q    = k->open_peer;
		kk.open_peer = k->open_q;
		kk.opt       = NNG_OPT_SENDBUF;
		kk.subscribe = false;
	}
	a_open(&A, &kk, ds, false);
	if (with_peer) {
		a_attach_peer(&A);
		int rv = set_dr ? nng_socket_set_int(A.peer, NNG_OPT_RECVBUF, dr) : 0;
		if (rv != 0) {
			vf_harness_fail("peer RECVBUF=%d: %s", dr, nng_strerror(rv));
		}
	}
	for (;;) {
		uint32_t seq;
		nng_msg *m = a_mk(&A, &seq, false, 0);
		if (!a_send(&A, A.q, m, true, k->msgq)) {
			reg[seq].st[0] = 2;
			// settled? give the pipeline one more chance
			m = a_mk(&A, &seq, false, 0);
			if (!a_send(&A, A.q, m, true, k->msgq)) {
				reg[seq].st[0] = 2;
				break;
			}
		}
		n++;
		if (n > 200 || m_dead(&A.M)) {
			break;
		}
	}
	bool dead = m_dead(&A.M);
	snprintf(note, nsz, "%s", dead ? "dead" : "");
	a_close(&A);
	return dead ? -1 : n; // -1: something else was reported meanwhile, do not judge
}

typedef struct {
	const char *name; // kind name of the sending side
	bool        peer_has_recvbuf;
} capkind;

static void
api_capacity_case(long idx, const kind *k, bool with_peer, bool peer_recvbuf)
{
	static const int depths[] = { 1, 2, 3, 4, 5, 7, 8, 16 };
	char             note[32];
	vf_case_begin(idx, "api capacity %s %s", k->name, with_peer ? "with idle peer" : "no peer");
	char counts[400];
	int  cl   = 0;
	int  base = api_accepted(idx, k, 0, 0, with_peer, peer_recvbuf, note, sizeof(note));
	if (base < 0) {
		vf_stat("cases", 1);
		return;
	}
	counts[0] = 0;
	if (!with_peer && base != 0) {
		char key[96];
		snprintf(key, sizeof(key), "C18/api/%s/bound/no-pipe", k->name);
		vf_violation(key, "%d sends accepted with depth 0 and no pipe", base);
	}
	for (unsigned i = 0; i < sizeof(depths) / sizeof(depths[0]); i++) {
		int d = depths[i];
		for (int side = 0; side < (with_peer && peer_recvbuf ? 2 : 1); side++) {
			int  ds = side == 0 ? d : 0, dr = side == 1 ? d : 0;
			int  n = api_accepted(idx, k, ds, dr, with_peer, peer_recvbuf, note, sizeof(note));
			char key[96];
			if (n < 0) {
				vf_stat("cases", 1);
				return;
			}
			if (cl < (int) sizeof(counts) - 40) {
				cl += snprintf(counts + cl, sizeof(counts) - (size_t) cl, "%s\"%s%d\":%d", cl ? "," : "", side ? "recvbuf" : "sendbuf", d, n);
			}
			if (n - base > d) {
				snprintf(key, sizeof(key), "C18/api/%s/bound/%s", k->name, side ? "recvbuf" : "sendbuf");
				vf_violation(key, "depth %d buffers %d messages more than depth 0 (%d vs %d)", d, n - base, n, base);
			} else if (n - base < d) {
				snprintf(key, sizeof(key), "C18/api/%s/capacity/%s", k->name, side ? "recvbuf" : "sendbuf");
				vf_violation(key, "depth %d buffers only %d messages more than depth 0 (%d vs %d)", d, n - base, n, base);
			} else {
				vf_stat("api_capacity_points", 1);
				vf_class("api/capacity/%s/%s/%s/d%d", k->name, with_peer ? "peer" : "nopeer", side ? "recvbuf" : "sendbuf", d);
			}
		}
	}
	vf_sample("{\"capacity\":\"%s\",\"idle_peer\":%d,\"accepted_at_depth_0\":%d,\"accepted\":{%s}}", k->name, with_peer, base, counts);
	vf_stat("cases", 1);
}

// the documented option range (0 or 1 .. 8192) and the depths around the
// powers of two the rings are rounded to, with messages held
static const int range_bad[] = { -1, 8193, -8192, 0x7fffffff };
static const int range_seq[] = { 8192, 1000, 33, 32, 31, 64, 8192, 2 };

static void
api_range_case(long idx, const kind *k)
{
	actx A;
	vf_case_begin(idx, "api range %s", k->name);
	a_open(&A, k, 5, k->recv_side);
	model *M = &A.M;
	for (int i = 0; i < 4; i++) {
		a_feed(&A, false);
	}
	for (unsigned i = 0; i <= sizeof(range_bad) / sizeof(range_bad[0]) && !m_dead(M); i++) {
		int v = i < sizeof(range_bad) / sizeof(range_bad[0]) ? range_bad[i] : k->mincap - 1;
		int rv = nng_socket_set_int(A.q, k->opt, v), got = -1;
		(void) nng_socket_get_int(A.q, k->opt, &got);
		m_log(M, "set(%d)=%d", v, rv);
		if (m_dead(M)) {
			break;
		}
		if (rv == 0 || got != 5) {
			m_viol(M, "range/accepted", "setting depth %d returned %d and the option now reads %d", v, rv, got);
		}
	}
	for (unsigned i = 0; i < sizeof(range_seq) / sizeof(range_seq[0]); i++) {
		a_resize(&A, range_seq[i]);
		a_feed(&A, false);
		if (i & 1) {
			a_feed(&A, false);
		}
	}
	if (k->recv_side) {
		a_drain(&A, A.q, A.peer);
	} else if (!m_dead(M)) {
		a_attach_peer(&A);
		a_drain(&A, A.peer, A.q);
	}
	if (!m_dead(M)) {
		vf_class("api/range/%s", k->name);
		vf_stat("api_range_cases", 1);
	}
	a_close(&A);
	vf_stat("cases", 1);
}

static void
api_random_case(long idx, const kind *k, vf_rng *r)
{
	actx A;
	int  cap  = (int) vf_range(r, (uint32_t) k->mincap, 12);
	int  nops = (int) vf_range(r, 20, 60);
	vf_case_begin(idx, "api random %s cap=%d ops=%d", k->name, cap, nops);
	a_open(&A, k, cap, true);
	model *M = &A.M;
	for (int i = 0; i < nops && !m_dead(M); i++) {
		uint32_t x = vf_below(r, 100);
		if (x < 12) {
			a_resize(&A, (int) vf_range(r, (uint32_t) k->mincap, 12));
		} else if (x < 60) {
			// only when the model says unambiguously what happens
			if (cs_maxlen(&M->cs) < M->cap || (!k->lossless && cs_minlen(&M->cs) >= M->cap)) {
				a_feed(&A, false);
			}
		} else if (cs_minlen(&M->cs) > 0) {
			nng_msg *m  = NULL;
			int      rv = nng_recvmsg(A.q, &m, 0);
			if (rv != 0) {
				m_viol(M, "lost/plain", "receive of a queued message failed: %s", nng_strerror(rv));
				break;
			}
			uint32_t s = 0;
			(void) chk_msg(m, &s);
			m_log(M, "recv:%u", s);
			m_recv(M, m);
			quiesce();
		}
	}
	a_drain(&A, A.q, A.peer);
	if (!m_dead(M)) {
		vf_class("api/random/%s/%s", k->name, M->resized ? "lossy" : "lossless");
		vf_stat("api_random_cases", 1);
	}
	if ((idx % 37) == 0) {
		vf_sample("{\"socket\":\"%s\",\"random_ops\":%d,\"tail\":\"%s\"}", k->name, nops, M->hist);
	}
	a_close(&A);
	vf_stat("cases", 1);
}

static void
run_api(void)
{
	long idx    = 0;
	int  maxcap = vf_tier ? 8 : 6;
	// (1) resize at every (depth, ring offset, fill, new depth)
	for (int ki = 0; ki < NKINDS; ki++) {
		const kind *k = &kinds[ki];
		for (int cap = k->mincap; cap <= maxcap; cap++) {
			int slots = ring_slots(k, cap);
			for (int off = 0; off < (cap == 0 ? 1 : slots); off++) {
				if (!k->recv_side && !vf_tier && off > 1 && off != slots - 1) {
					continue; // send side rotation needs a peer per chunk
				}
				int maxfill = cap + ((k->recv_side && k->lossless) ? 1 : 0);
				for (int fill = 0; fill <= maxfill; fill++) {
					for (int nc = k->mincap; nc <= maxcap + 1; nc++, idx++) {
						if ((idx % vf_nshards) != vf_shard || !vf_want_case(idx)) {
							continue;
						}
						api_resize_case(idx, k, cap, off, fill, nc);
						vf_watchdog(120);
					}
				}
			}
		}
	}
	// (2) differential capacity
	idx = 1000000;
	static const struct {
		const char *name;
		bool        peer_recvbuf;
	} caps[] = { { "pair0.sendbuf", true }, { "pair1.sendbuf", true }, { "push.sendbuf", false }, { "xreq.sendbuf", true } };
	for (unsigned i = 0; i < sizeof(caps) / sizeof(caps[0]); i++) {
		for (int with_peer = 0; with_peer < 2; with_peer++, idx++) {
			if ((idx % vf_nshards) != vf_shard || !vf_want_case(idx)) {
				continue;
			}
			for (int ki = 0; ki < NKINDS; ki++) {
				if (!strcmp(kinds[ki].name, caps[i].name)) {
					api_capacity_case(idx, &kinds[ki], with_peer, caps[i].peer_recvbuf);
				}
			}
			vf_watchdog(120);
		}
	}
	// (2b) option range and large depths
	idx = 1500000;
	for (int ki = 0; ki < NKINDS; ki++, idx++) {
		if ((idx % vf_nshards) != vf_shard || !vf_want_case(idx)) {
			continue;
		}
		api_range_case(idx, &kinds[ki]);
		vf_watchdog(120);
	}
	// (3) random histories on receive queues
	idx = 2000000;
	vf_rng r;
	for (long c = 0; c < vf_cases; c++, idx++) {
		if (!vf_want_case(idx)) {
			continue;
		}
		vf_rng_seed(&r, vf_seed, (uint64_t) idx);
		int ki;
		do {
			ki = (int) vf_below(&r, NKINDS);
		} while (!kinds[ki].recv_side);
		api_random_case(idx, &kinds[ki], &r);
		vf_watchdog(120);
	}
}

// ==================================================================
// fan mode: queues that sit behind a pipe, and queues per receiver
// ==================================================================
// A "stalling" peer protocol (white-box, registered with nni_proto_open):
// it identifies as SUB / BUS / PULL / PAIR0 / PAIR1 / REP but its pipe only
// receives when the harness asks for one message.  With it the per-pipe send
// queues of PUB and BUS, and the send buffers of PAIR/PUSH/raw REQ *behind a
// pipe that holds an in-flight message*, can be filled, resized and drained
// deterministically.
typedef struct stall_pipe stall_pipe;
typedef struct stall_sock {
	nni_mtx     mtx;
	stall_pipe *pipe;
	nni_aio    *uaio; // the harness's pending receive
	size_t      hdr;  // protocol header bytes in front of the body
} stall_sock;
struct stall_pipe {
	nni_pipe   *pipe;
	stall_sock *s;
	nni_aio     aio_recv;
	bool        pending;
};

static void
stall_sock_init(void *arg, nni_sock *sock)
{
	stall_sock *s = arg;
	uint16_t    id = nni_sock_proto_id(sock);
	nni_mtx_init(&s->mtx);
	s->pipe = NULL;
	s->uaio = NULL;
	s->hdr  = (id == NNI_PROTO(1, 1) || id == NNI_PROTO(3, 1)) ? 4 : 0;
}

static void
stall_sock_fini(void *arg)
{
	stall_sock *s = arg;
	nni_mtx_fini(&s->mtx);
}

static void
stall_sock_open(void *arg)
{
	NNI_ARG_UNUSED(arg);
}

static void
stall_sock_close(void *arg)
{
	stall_sock *s = arg;
	nni_aio    *a;
	nni_mtx_lock(&s->mtx);
	if ((a = s->uaio) != NULL) {
		s->uaio = NULL;
		nni_aio_finish_error(a, NNG_ECLOSED);
	}
	nni_mtx_unlock(&s->mtx);
}

static void
stall_recv_cb(void *arg)
{
	stall_pipe *p = arg;
	stall_sock *s = p->s;
	nni_aio    *u;
	nni_msg    *m;
	if (nni_aio_result(&p->aio_recv) != 0) {
		nni_mtx_lock(&s->mtx);
		p->pending = false;
		nni_mtx_unlock(&s->mtx);
		nni_pipe_close(p->pipe);
		return;
	}
	m = nni_aio_get_msg(&p->aio_recv);
	nni_aio_set_msg(&p->aio_recv, NULL);
	if (s->hdr != 0 && nni_msg_len(m) >= s->hdr) {
		nni_msg_header_append(m, nni_msg_body(m), s->hdr);
		nni_msg_trim(m, s->hdr);
	}
	nni_mtx_lock(&s->mtx);
	p->pending = false;
	u          = s->uaio;
	s->uaio    = NULL;
	nni_mtx_unlock(&s->mtx);
	if (u != NULL) {
		nni_aio_finish_msg(u, m);
	} else {
		nni_msg_free(m); // the harness gave up on this receive
	}
}

static void
stall_cancel(nni_aio *aio, void *arg, nng_err rv)
{
	stall_sock *s = arg;
	nni_mtx_lock(&s->mtx);
	if (s->uaio == aio) {
		s->uaio = NULL;
		nni_aio_finish_error(aio, rv);
	}
	nni_mtx_unlock(&s->mtx);
}

static void
stall_sock_recv(void *arg, nni_aio *aio)
{
	stall_sock *s = arg;
	nni_mtx_lock(&s->mtx);
	if (!nni_aio_start(aio, stall_cancel, s)) {
		nni_mtx_unlock(&s->mtx);
		return;
	}
	if (s->uaio != NULL) {
		nni_aio_finish_error(aio, NNG_ESTATE);
		nni_mtx_unlock(&s->mtx);
		return;
	}
	s->uaio = aio;
	if (s->pipe != NULL && !s->pipe->pending) {
		s->pipe->pending = true;
		nni_pipe_recv(s->pipe->pipe, &s->pipe->aio_recv);
	}
	nni_mtx_unlock(&s->mtx);
}

static void
stall_sock_send(void *arg, nni_aio *aio)
{
	NNI_ARG_UNUSED(arg);
	nni_aio_finish_error(aio, NNG_ENOTSUP);
}

static int
stall_pipe_init(void *arg, nni_pipe *pipe, void *s)
{
	stall_pipe *p = arg;
	nni_aio_init(&p->aio_recv, stall_recv_cb, p);
	p->pipe    = pipe;
	p->s       = s;
	p->pending = false;
	return (0);
}

static void
stall_pipe_fini(void *arg)
{
	stall_pipe *p = arg;
	nni_aio_fini(&p->aio_recv);
}

static int
stall_pipe_start(void *arg)
{
	stall_pipe *p = arg;
	stall_sock *s = p->s;
	nni_mtx_lock(&s->mtx);
	if (s->pipe != NULL) {
		nni_mtx_unlock(&s->mtx);
		return (NNG_EBUSY);
	}
	s->pipe = p;
	if (s->uaio != NULL && !p->pending) {
		p->pending = true;
		nni_pipe_recv(p->pipe, &p->aio_recv);
	}
	nni_mtx_unlock(&s->mtx);
	return (0);
}

static void
stall_pipe_close(void *arg)
{
	stall_pipe *p = arg;
	stall_sock *s = p->s;
	nni_aio_close(&p->aio_recv);
	nni_mtx_lock(&s->mtx);
	if (s->pipe == p) {
		s->pipe = NULL;
	}
	nni_mtx_unlock(&s->mtx);
}

static void
stall_pipe_stop(void *arg)
{
	stall_pipe *p = arg;
	nni_aio_stop(&p->aio_recv);
}

static nni_option stall_options[] = { { .o_name = NULL } };

static nni_proto_pipe_ops stall_pipe_ops = {
	.pipe_size  = sizeof(stall_pipe),
	.pipe_init  = stall_pipe_init,
	.pipe_fini  = stall_pipe_fini,
	.pipe_start = stall_pipe_start,
	.pipe_close = stall_pipe_close,
	.pipe_stop  = stall_pipe_stop,
};
static nni_proto_sock_ops stall_sock_ops = {
	.sock_size    = sizeof(stall_sock),
	.sock_init    = stall_sock_init,
	.sock_fini    = stall_sock_fini,
	.sock_open    = stall_sock_open,
	.sock_close   = stall_sock_close,
	.sock_send    = stall_sock_send,
	.sock_recv    = stall_sock_recv,
	.sock_options = stall_options,
};
#define STALL_PROTO(var, self, sname, peer, pname)                    \
	static nni_proto var = {                                       \
		.proto_self     = { self, sname },                     \
		.proto_peer     = { peer, pname },                     \
		.proto_flags    = NNI_PROTO_FLAG_RCV | NNI_PROTO_FLAG_RAW, \
		.proto_sock_ops = &stall_sock_ops,                     \
		.proto_pipe_ops = &stall_pipe_ops,                     \
	};                                                             \
	static int var##_open(nng_socket *s)                           \
	{                                                              \
		return (nni_proto_open(s, &var));                      \
	}
STALL_PROTO(stall_sub, NNI_PROTO(2, 1), "sub", NNI_PROTO(2, 0), "pub")
STALL_PROTO(stall_bus, NNI_PROTO(7, 0), "bus", NNI_PROTO(7, 0), "bus")
STALL_PROTO(stall_pull, NNI_PROTO(5, 1), "pull", NNI_PROTO(5, 0), "push")
STALL_PROTO(stall_pair0, NNI_PROTO(1, 0), "pair", NNI_PROTO(1, 0), "pair")
STALL_PROTO(stall_pair1, NNI_PROTO(1, 1), "pair1", NNI_PROTO(1, 1), "pair1")
STALL_PROTO(stall_rep, NNI_PROTO(3, 1), "rep", NNI_PROTO(3, 0), "req")

enum { POL_REFUSE = 0, POL_DROP_NEW = 1, POL_EVICT_OLD = 2 };

typedef struct {
	const char *name;
	int (*open_q)(nng_socket *);
	int (*open_peer)(nng_socket *); // stalling peer, or the publisher for contexts
	const char *opt;
	int         nlanes;
	int         skip; // cells in front of the queue (the pipe's send slot)
	bool        msgq;
	int         pol[2];
	int         mincap;
	bool        reqhdr;
	bool        ctx; // lanes are contexts of q with their own RECVBUF
	bool        inherit; // contexts are opened after the socket's RECVBUF was set and are not told their depth
} fkind;

static const fkind fkinds[] = {
	{ "pub.sendbuf", nng_pub0_open, stall_sub_open, NNG_OPT_SENDBUF, 2, 1, false, { POL_EVICT_OLD, POL_EVICT_OLD }, 1, false, false },
	{ "bus.sendbuf", nng_bus0_open, stall_bus_open, NNG_OPT_SENDBUF, 2, 1, false, { POL_DROP_NEW, POL_DROP_NEW }, 1, false, false },
	{ "sub-ctx.recvbuf", nng_sub0_open, nng_pub0_open, NNG_OPT_RECVBUF, 2, 0, false, { POL_EVICT_OLD, POL_DROP_NEW }, 1, false, true },
	{ "sub-ctx-inherit.recvbuf", nng_sub0_open, nng_pub0_open, NNG_OPT_RECVBUF, 2, 0, false, { POL_EVICT_OLD, POL_EVICT_OLD }, 1, false, true, true },
	{ "pair0.sendbuf+pipe", nng_pair0_open, stall_pair0_open, NNG_OPT_SENDBUF, 1, 1, false, { POL_REFUSE, POL_REFUSE }, 0, false, false },
	{ "pair1.sendbuf+pipe", nng_pair1_open, stall_pair1_open, NNG_OPT_SENDBUF, 1, 1, false, { POL_REFUSE, POL_REFUSE }, 0, false, false },
	{ "push.sendbuf+pipe", nng_push0_open, stall_pull_open, NNG_OPT_SENDBUF, 1, 1, false, { POL_REFUSE, POL_REFUSE }, 0, false, false },
	{ "xreq.sendbuf+pipe", nng_req0_open_raw, stall_rep_open, NNG_OPT_SENDBUF, 1, 1, true, { POL_REFUSE, POL_REFUSE }, 0, true, false },
};
#define NFKINDS ((int) (sizeof(fkinds) / sizeof(fkinds[0])))

#define NPARK 3
typedef struct {
	const fkind *k;
	nng_socket   q;
	nng_socket   peer[2];
	int          npeers;
	nng_ctx      ctx[2];
	nng_aio     *raio[2];
	bool         rpending[2];
	nng_aio     *saio;
	model        M[2];
	char         url[96];
	_Atomic int  q_pipes;
	long         msgs, pulls;
	// blocking sends parked behind a full buffer (+pipe kinds), in posting order
	struct {
		nng_aio *aio;
		uint32_t seq;
	} park[NPARK];
	int  npark;
	long park_woken;
} fctx;

static void
f_pipe_cb(nng_pipe p, nng_pipe_ev ev, void *arg)
{
	fctx *F = arg;
	(void) p;
	atomic_fetch_add(&F->q_pipes, ev == NNG_PIPE_EV_ADD_POST ? 1 : -1);
}

static bool
f_dead(fctx *F)
{
	bool d = false;
	for (int l = 0; l < F->k->nlanes; l++) {
		d = m_dead(&F->M[l]) || d;
	}
	if (d) {
		for (int l = 0; l < F->k->nlanes; l++) {
			F->M[l].dead = true;
		}
	}
	return d;
}

static void
f_attach(fctx *F)
{
	int rv, i = F->npeers;
	if ((rv = F->k->open_peer(&F->peer[i])) != 0) {
		vf_harness_fail("open peer: %s", nng_strerror(rv));
	}
	nng_socket_set_ms(F->peer[i], NNG_OPT_SENDTIMEO, 10000);
	if ((rv = nng_dial(F->peer[i], F->url, NULL, 0)) != 0) {
		vf_harness_fail("dial: %s", nng_strerror(rv));
	}
	F->npeers++;
	wait_count(&F->q_pipes, F->npeers, "pipe on the socket under test");
	quiesce();
}

static void
f_setopt(fctx *F, int lane, int cap)
{
	int rv, got = -1;
	if (F->k->ctx) {
		rv = nng_ctx_set_int(F->ctx[lane], F->k->opt, cap);
		if (rv == 0) {
			rv = nng_ctx_get_int(F->ctx[lane], F->k->opt, &got);
		}
		m_log(&F->M[lane], "cap(%d)", cap);
	} else {
		rv = nng_socket_set_int(F->q, F->k->opt, cap);
		if (rv == 0) {
			rv = nng_socket_get_int(F->q, F->k->opt, &got);
		}
		for (int l = 0; l < F->k->nlanes; l++) {
			m_log(&F->M[l], "cap(%d)", cap);
		}
	}
	if (f_dead(F)) {
		return;
	}
	if (rv != 0) {
		vf_harness_fail("%s set %s=%d: %s", F->k->name, F->k->opt, cap, nng_strerror(rv));
	}
	if (got != cap) {
		m_viol(&F->M[lane], "cap-not-set", "option reads back %d after setting %d", got, cap);
	}
}

// order: 0 option set before any pipe exists, 1 after the first pipe was
// attached (the second pipe then starts with the socket's current depth)
static void
f_open(fctx *F, const fkind *k, int cap, int order)
{
	int rv;
	memset(F, 0, sizeof(*F));
	F->k = k;
	reg_reset();
	for (int l = 0; l < k->nlanes; l++) {
		char mk[48];
		snprintf(mk, sizeof(mk), "api/%s", k->name);
		m_init(&F->M[l], mk, cap, k->msgq ? 1 : 0, false);
		F->M[l].lane = l;
		F->M[l].hdr  = k->reqhdr ? 1 : 0;
		if (nng_aio_alloc(&F->raio[l], NULL, NULL) != 0) {
			vf_harness_fail("nng_aio_alloc");
		}
		nng_aio_set_timeout(F->raio[l], NNG_DURATION_INFINITE);
	}
	if (nng_aio_alloc(&F->saio, NULL, NULL) != 0) {
		vf_harness_fail("nng_aio_alloc");
	}
	nng_aio_set_timeout(F->saio, NNG_DURATION_INFINITE);
	if ((rv = k->open_q(&F->q)) != 0) {
		vf_harness_fail("open %s: %s", k->name, nng_strerror(rv));
	}
	nng_pipe_notify(F->q, NNG_PIPE_EV_ADD_POST, f_pipe_cb, F);
	nng_pipe_notify(F->q, NNG_PIPE_EV_REM_POST, f_pipe_cb, F);
	nng_socket_set_ms(F->q, NNG_OPT_SENDTIMEO, 10000);
	vf_url(VF_T_INPROC, F->url, sizeof(F->url));
	if ((rv = nng_listen(F->q, F->url, NULL, 0)) != 0) {
		vf_harness_fail("listen: %s", nng_strerror(rv));
	}
	if (k->ctx) {
		if (k->inherit) {
			// the socket's depth is what a context opened from now on starts with
			if ((rv = nng_socket_set_int(F->q, k->opt, cap)) != 0) {
				vf_harness_fail("%s set socket %s=%d: %s", k->name, k->opt, cap, nng_strerror(rv));
			}
		}
		for (int l = 0; l < 2; l++) {
			if ((rv = nng_ctx_open(&F->ctx[l], F->q)) != 0 ||
			    (rv = nng_sub0_ctx_subscribe(F->ctx[l], "", 0)) != 0) {
				vf_harness_fail("ctx: %s", nng_strerror(rv));
			}
			if (k->pol[l] == POL_DROP_NEW && (rv = nng_ctx_set_bool(F->ctx[l], NNG_OPT_SUB_PREFNEW, false)) != 0) {
				vf_harness_fail("ctx prefnew: %s", nng_strerror(rv));
			}
			if (k->inherit) {
				int got = -1;
				rv      = nng_ctx_get_int(F->ctx[l], k->opt, &got);
				m_log(&F->M[l], "inherit(%d)", cap);
				if (rv != 0 || got != cap) {
					m_viol(&F->M[l], "cap-not-set/inherited", "context opened after the socket's depth was set to %d reports depth %d (rv %d)", cap, got, rv);
				}
				continue; // its depth is judged by what it retains
			}
			f_setopt(F, l, cap);
		}
		f_attach(F); // the publisher
		return;
	}
	if (order == 0) {
		f_setopt(F, 0, cap);
	}
	f_attach(F);
	if (order != 0) {
		f_setopt(F, 0, cap);
	}
	if (k->nlanes > 1) {
		f_attach(F);
	}
}

static void
f_close(fctx *F)
{
	vf_stat("api_msgs", F->msgs);
	vf_stat("fan_pulls", F->pulls);
	if (f_dead(F)) {
		abandoned++;
		return;
	}
	nng_msg *m;
	for (int l = 0; l < F->k->nlanes; l++) {
		nng_aio_stop(F->raio[l]);
		if (nng_aio_result(F->raio[l]) == 0 && (m = nng_aio_get_msg(F->raio[l])) != NULL) {
			nng_msg_free(m);
		}
	}
	nng_aio_stop(F->saio);
	if ((m = nng_aio_get_msg(F->saio)) != NULL && nng_aio_result(F->saio) != 0) {
		nng_msg_free(m);
	}
	for (int i = 0; i < F->npark; i++) {
		nng_aio_stop(F->park[i].aio);
		if (nng_aio_result(F->park[i].aio) != 0 && (m = nng_aio_get_msg(F->park[i].aio)) != NULL) {
			nng_msg_free(m);
		}
		nng_aio_free(F->park[i].aio);
	}
	for (int i = 0; i < F->npeers; i++) {
		nng_socket_close(F->peer[i]);
	}
	nng_socket_close(F->q);
	for (int l = 0; l < F->k->nlanes; l++) {
		nng_aio_free(F->raio[l]);
	}
	nng_aio_free(F->saio);
}

// Parked senders (single lane kinds).  After anything that can make room
// (a resize, a pull) the library is quiescent and we look at which of the
// parked sends completed.  What the property allows: the survivors of the
// queue keep their places, then the parked messages enter in posting order,
// exactly as far as there is room; nobody overtakes, nothing is admitted
// beyond the depth.  (Fewer admitted than there is room is a liveness matter,
// not C18's: such a case is counted and no longer judged.)
static void
f_park_settle(fctx *F, const char *after)
{
	model *M = &F->M[0];
	if (F->npark == 0 || f_dead(F)) {
		return;
	}
	int  done = 0;
	bool gap  = false;
	for (int i = 0; i < F->npark; i++) {
		if (nng_aio_busy(F->park[i].aio)) {
			gap = true;
			continue;
		}
		int rv = nng_aio_result(F->park[i].aio);
		if (rv != 0) {
			m_viol(M, "send-failed", "parked send of %u failed after %s: %s", F->park[i].seq, after, nng_strerror(rv));
			return;
		}
		if (gap) {
			m_viol(M, "order/parked-overtaken", "after %s the parked send of %u completed while an earlier one (%u) still waits", after, F->park[i].seq, F->park[0].seq);
			return;
		}
		done++;
	}
	cset out;
	int  emin = NPARK + 1, emax = -1;
	out.n = 0;
	for (int i = 0; i < M->cs.n; i++) {
		dq  t = M->cs.c[i];
		int e = 0;
		while (e < F->npark && (t.n < F->k->skip || t.n - F->k->skip < M->cap)) {
			if (t.n >= QMAX) {
				vf_harness_fail("model queue overflow");
			}
			t.s[t.n++] = F->park[e++].seq;
		}
		emin = e < emin ? e : emin;
		emax = e > emax ? e : emax;
		if (e == done) {
			cs_add(&out, &t);
		}
	}
	if (out.n == 0) {
		if (done > emax) {
			m_viol(M, "bound/parked-send-accepted-when-full", "after %s %d parked sends completed with room for %d (depth %d)", after, done, emax, M->cap);
		} else {
			vf_stat("fan_parked_left_waiting_with_room", 1);
			m_log(M, "unjudged");
			M->dead = true; // cannot be followed any further; not a violation
		}
		return;
	}
	M->cs = out;
	for (int i = 0; i < done; i++) {
		m_log(M, "park%u:done", F->park[i].seq);
		nng_aio_free(F->park[i].aio);
	}
	memmove(&F->park[0], &F->park[done], sizeof(F->park[0]) * (size_t) (F->npark - done));
	F->npark -= done;
	F->park_woken += done;
}

// one more blocking send while the buffer is full for certain
static bool
f_park(fctx *F)
{
	const fkind *k = F->k;
	model       *M = &F->M[0];
	if (f_dead(F) || F->npark >= NPARK || k->nlanes != 1 || k->pol[0] != POL_REFUSE || F->rpending[0]) {
		return false;
	}
	if (cs_minlen(&M->cs) < k->skip || cs_minlen(&M->cs) - k->skip < M->cap) {
		return false; // some legal state has room: it would not (have to) wait
	}
	uint32_t seq;
	nng_msg *m = mk_msg(&seq);
	nng_aio *a;
	if (k->reqhdr) {
		nng_msg_header_append_u32(m, 0x80000000u | seq);
	}
	F->msgs++;
	if (nng_aio_alloc(&a, NULL, NULL) != 0) {
		vf_harness_fail("nng_aio_alloc");
	}
	nng_aio_set_timeout(a, NNG_DURATION_INFINITE);
	nng_aio_set_msg(a, m);
	nng_socket_send(F->q, a);
	quiesce();
	m_log(M, "park%u", seq);
	F->park[F->npark].aio = a;
	F->park[F->npark].seq = seq;
	F->npark++;
	f_park_settle(F, "posting it");
	return !f_dead(F);
}

// completions of receives that were left waiting
static void
f_settle(fctx *F)
{
	for (int l = 0; l < F->k->nlanes; l++) {
		model *M = &F->M[l];
		if (!F->rpending[l] || nng_aio_busy(F->raio[l]) || M->dead) {
			continue;
		}
		F->rpending[l] = false;
		int rv         = nng_aio_result(F->raio[l]);
		if (rv != 0) {
			m_viol(M, "recv-failed", "receive failed: %s", nng_strerror(rv));
			continue;
		}
		nng_msg *m = nng_aio_get_msg(F->raio[l]);
		nng_aio_set_msg(F->raio[l], NULL);
		uint32_t x = 0;
		(void) chk_msg(m, &x);
		m_log(M, "recv:%u", x);
		F->pulls++;
		m_recv(M, m);
	}
}

// one message from the sending side; every lane's model is told
static void
f_send(fctx *F)
{
	const fkind *k = F->k;
	uint32_t     seq;
	if (f_dead(F)) {
		return;
	}
	nng_msg *m = mk_msg(&seq);
	if (k->reqhdr) {
		nng_msg_header_append_u32(m, 0x80000000u | seq);
	}
	F->msgs++;
	nng_socket from     = k->ctx ? F->peer[0] : F->q;
	bool       accepted = true;
	int        rv;
	if (k->pol[0] != POL_REFUSE || k->ctx) {
		if ((rv = nng_sendmsg(from, m, 0)) != 0) {
			nng_msg_free(m);
			m_viol(&F->M[0], "send-failed", "send failed: %s", nng_strerror(rv));
			return;
		}
	} else if (!k->msgq) {
		rv = nng_sendmsg(from, m, NNG_FLAG_NONBLOCK);
		if (rv == NNG_EAGAIN) {
			nng_msg_free(m);
			accepted = false;
		} else if (rv != 0) {
			nng_msg_free(m);
			m_viol(&F->M[0], "send-failed", "send failed: %s", nng_strerror(rv));
			return;
		}
	} else {
		nng_aio_set_msg(F->saio, m);
		nng_socket_send(from, F->saio);
		quiesce();
		if (nng_aio_busy(F->saio)) {
			nng_aio_cancel(F->saio);
			nng_aio_wait(F->saio);
		}
		if (nng_aio_result(F->saio) != 0) {
			nng_msg_free(nng_aio_get_msg(F->saio));
			nng_aio_set_msg(F->saio, NULL);
			accepted = false;
		}
	}
	quiesce();
	for (int l = 0; l < k->nlanes; l++) {
		model *M = &F->M[l];
		m_log(M, "send%u=%d", seq, accepted);
		if (M->dead) {
			continue;
		}
		// a receive left waiting takes the message directly
		int  skip     = F->rpending[l] ? 0 : k->skip;
		int  minlen   = cs_minlen(&M->cs), maxlen = cs_maxlen(&M->cs);
		bool all_full = F->rpending[l] ? false : (minlen >= skip && minlen - skip >= M->cap);
		if (F->rpending[l]) {
			if (!accepted) {
				m_viol(M, "capacity/send-refused-with-reader", "send refused although the peer is waiting for a message");
				continue;
			}
			cs_append(&M->cs, seq);
		} else if (cs_offer(&M->cs, seq, M->cap, skip, k->pol[l], accepted) == 0) {
			if (accepted) {
				m_viol(M, "bound/send-accepted-when-full", "send accepted with %d queued behind the pipe, depth %d", minlen - skip, M->cap);
			} else {
				m_viol(M, "capacity/send-refused-with-room", "send refused with %d queued behind the pipe, depth %d", maxlen > skip ? maxlen - skip : 0, M->cap);
			}
			continue;
		}
		if (!accepted) {
			reg[seq].st[l] = 2;
		} else if (k->pol[l] == POL_DROP_NEW && all_full) {
			reg[seq].st[l] = 3;
			vf_stat("api_legal_drops", 1);
		} else if (k->pol[l] == POL_EVICT_OLD && all_full) {
			vf_stat("api_legal_drops", 1);
		}
	}
	f_settle(F);
}

// ask lane l for one message; false if nothing is to be had (the receive
// stays posted)
static bool
f_pull(fctx *F, int l)
{
	model *M = &F->M[l];
	if (f_dead(F)) {
		return false;
	}
	if (F->rpending[l]) {
		return false;
	}
	if (F->k->ctx) {
		nng_ctx_recv(F->ctx[l], F->raio[l]);
	} else {
		nng_socket_recv(F->peer[l], F->raio[l]);
	}
	F->rpending[l] = true;
	quiesce();
	f_settle(F);
	f_park_settle(F, "a message left the pipe");
	if (f_dead(F)) {
		return false;
	}
	if (F->rpending[l]) {
		m_log(M, "dry");
		m_empty(M, "receive blocks at quiescence");
		return false;
	}
	return true;
}

static void
f_resize(fctx *F, int lane, int newcap)
{
	if (f_dead(F)) {
		return;
	}
	int l0 = F->k->ctx ? lane : 0, l1 = F->k->ctx ? lane : F->k->nlanes - 1;
	int before = 0;
	for (int l = l0; l <= l1; l++) {
		int n = cs_maxlen(&F->M[l].cs) - F->k->skip;
		before = n > before ? n : before;
	}
	f_setopt(F, lane, newcap);
	if (f_dead(F)) {
		return;
	}
	for (int l = l0; l <= l1; l++) {
		model *M = &F->M[l];
		int    n = cs_maxlen(&M->cs) - F->k->skip;
		if (n > newcap) {
			M->resized = true;
		}
		cs_resize_skip(&M->cs, newcap, M->slot, F->k->skip);
		M->cap = newcap;
	}
	if (before > newcap) {
		vf_stat("lossy_resizes", 1);
	}
	quiesce();
	f_settle(F);
	if (F->npark > 0) {
		vf_stat("fan_parked_sender_resizes", 1);
		vf_stat(before > newcap ? "fan_parked_sender_shrinks" : "fan_parked_sender_grows", 1);
		f_park_settle(F, "the resize");
	}
}

// drain every lane, then one more message must reach every waiting receive
static void
f_drain(fctx *F, int first)
{
	int nl = F->k->nlanes;
	for (int i = 0; i < nl; i++) {
		int l = (first + i) % nl;
		int guard = 0;
		while (f_pull(F, l) && ++guard < 3 * QMAX) {
		}
		if (guard >= 3 * QMAX && !f_dead(F)) {
			m_viol(&F->M[l], "phantom", "queue never runs dry");
		}
	}
	if (f_dead(F)) {
		return;
	}
	if (F->npark > 0) {
		// the queue ran dry with senders still parked: liveness, not C18's
		vf_stat("fan_parked_left_waiting_with_room", 1);
		F->M[0].dead = true;
		return;
	}
	f_send(F);
	for (int l = 0; l < nl && !f_dead(F); l++) {
		if (F->rpending[l]) {
			// generous bounded-progress wait before believing it
			uint64_t end = vf_now_ns() + 10000000000ULL;
			while (nng_aio_busy(F->raio[l]) && vf_now_ns() < end) {
				vf_usleep(100);
			}
			f_settle(F);
			if (F->rpending[l] && !f_dead(F)) {
				m_viol(&F->M[l], "lost/sentinel", "a message sent while this receiver was waiting never reached it");
			}
		}
	}
}

static void
fan_resize_case(long idx, const fkind *k, int cap, int off, int fill, int nc, int order)
{
	fctx F;
	vf_case_begin(idx, "fan %s cap=%d off=%d fill=%d resize=%d order=%d", k->name, cap, off, fill, nc, order);
	f_open(&F, k, cap, order);
	// one message into the pipe's send slot, then rotate the ring
	if (k->skip && (off > 0 || fill > 0)) {
		f_send(&F);
	}
	for (int i = 0; i < off && cap > 0; i++) {
		f_send(&F);
		for (int l = 0; l < k->nlanes; l++) {
			f_pull(&F, l);
		}
	}
	for (int i = 0; i < fill; i++) {
		f_send(&F); // the last of cap+1 meets a full queue
	}
	if (k->inherit) {
		f_resize(&F, 0, nc); // the other context is never told a depth: it retains what it inherited
	} else if (k->ctx) {
		f_resize(&F, 0, nc);
		f_resize(&F, 1, (nc + 2) % 7 + 1); // the other context gets another depth
	} else {
		f_resize(&F, 0, nc);
	}
	f_drain(&F, (int) (idx & 1));
	// the resized queues: fill beyond their depth, look at what is kept
	int more = F.M[0].cap > F.M[k->nlanes - 1].cap ? F.M[0].cap : F.M[k->nlanes - 1].cap;
	for (int i = 0; i < more + 3; i++) {
		f_send(&F);
	}
	f_drain(&F, (int) ((idx >> 1) & 1));
	if (!f_dead(&F)) {
		vf_class("fan/%s/cap%d->%d/%s%s/order%d", k->name, cap, nc, fill == 0 ? "empty" : fill == cap ? "full" : fill > cap ? "full+1" : "part", off ? "-rotated" : "", order);
		vf_stat("fan_resize_cases", 1);
		if (k->nlanes > 1) {
			vf_stat(k->inherit ? "fan_ctx_inherit_cases" : k->ctx ? "fan_ctx_cases" : "fan_two_pipe_cases", 1);
		} else {
			vf_stat("fan_sendbuf_behind_pipe_cases", 1);
		}
	}
	if ((idx % 173) == 0) {
		vf_sample("{\"socket\":\"%s\",\"depth\":%d,\"ring_offset\":%d,\"queued\":%d,\"new_depth\":%d,\"set_after_first_pipe\":%d,\"lane0\":\"%s\"}", k->name, cap, off, fill, nc, order, F.M[0].hist);
	}
	f_close(&F);
	vf_stat("cases", 1);
}

// senders parked behind a full buffer while the depth changes
static void
fan_parked_case(long idx, const fkind *k, int cap, int off, int np, int nc1, int g, int nc2)
{
	fctx F;
	vf_case_begin(idx, "fan parked %s cap=%d off=%d parked=%d resize=%d pulls=%d resize=%d", k->name, cap, off, np, nc1, g, nc2);
	f_open(&F, k, cap, (int) (idx & 1));
	f_send(&F); // into the pipe's send slot
	for (int i = 0; i < off && cap > 0; i++) {
		f_send(&F);
		f_pull(&F, 0);
	}
	for (int i = 0; i < cap; i++) {
		f_send(&F);
	}
	for (int i = 0; i < np; i++) {
		(void) f_park(&F);
	}
	if (!f_dead(&F) && F.npark != np) {
		// (a parked send that went through at once was judged in f_park_settle)
		vf_harness_fail("model: %d of %d sends parked", F.npark, np);
	}
	f_resize(&F, 0, nc1);
	for (int i = 0; i < g; i++) {
		f_pull(&F, 0);
	}
	f_resize(&F, 0, nc2);
	int left = F.npark;
	f_resize(&F, 0, 9); // room for everybody
	if (!f_dead(&F) && F.npark != 0) {
		vf_harness_fail("model: parked senders left with room for all");
	}
	f_drain(&F, 0);
	if (!f_dead(&F)) {
		vf_class("fan/parked/%s/cap%d->%d->%d/parked%d/pulls%d/%s", k->name, cap, nc1, nc2, np, g, left ? "some-wait-to-the-end" : "all-admitted-early");
		vf_stat("fan_parked_cases", 1);
		vf_stat("fan_parked_woken", F.park_woken);
	}
	if ((idx % 173) == 0) {
		vf_sample("{\"socket\":\"%s\",\"depth\":%d,\"parked_senders\":%d,\"resizes\":[%d,%d,9],\"history\":\"%s\"}", k->name, cap, np, nc1, nc2, F.M[0].hist);
	}
	f_close(&F);
	vf_stat("cases", 1);
}

static void
fan_range_case(long idx, const fkind *k)
{
	fctx F;
	vf_case_begin(idx, "fan range %s", k->name);
	f_open(&F, k, 5, 0);
	for (int i = 0; i < 4; i++) {
		f_send(&F);
	}
	for (unsigned i = 0; i <= sizeof(range_bad) / sizeof(range_bad[0]) && !f_dead(&F); i++) {
		int v = i < sizeof(range_bad) / sizeof(range_bad[0]) ? range_bad[i] : k->mincap - 1;
		int rv, got = -1;
		if (k->ctx) {
			rv = nng_ctx_set_int(F.ctx[0], k->opt, v);
			(void) nng_ctx_get_int(F.ctx[0], k->opt, &got);
		} else {
			rv = nng_socket_set_int(F.q, k->opt, v);
			(void) nng_socket_get_int(F.q, k->opt, &got);
		}
		m_log(&F.M[0], "set(%d)=%d", v, rv);
		if (f_dead(&F)) {
			break;
		}
		if (rv == 0 || got != 5) {
			m_viol(&F.M[0], "range/accepted", "setting depth %d returned %d and the option now reads %d", v, rv, got);
		}
	}
	for (unsigned i = 0; i < sizeof(range_seq) / sizeof(range_seq[0]); i++) {
		f_resize(&F, 0, range_seq[i]);
		if (k->ctx) {
			f_resize(&F, 1, range_seq[(i + 3) % (sizeof(range_seq) / sizeof(range_seq[0]))]);
		}
		f_send(&F);
		if (i & 1) {
			f_send(&F);
		}
	}
	f_drain(&F, 0);
	if (!f_dead(&F)) {
		vf_class("fan/range/%s", k->name);
		vf_stat("api_range_cases", 1);
	}
	f_close(&F);
	vf_stat("cases", 1);
}

static void
fan_random_case(long idx, const fkind *k, vf_rng *r)
{
	fctx F;
	int  cap  = (int) vf_range(r, (uint32_t) k->mincap, 10);
	int  nops = (int) vf_range(r, 20, 70);
	vf_case_begin(idx, "fan random %s cap=%d ops=%d", k->name, cap, nops);
	f_open(&F, k, cap, (int) vf_below(r, 2));
	for (int i = 0; i < nops && !f_dead(&F); i++) {
		uint32_t x = vf_below(r, 100);
		if (nextseq > MAXSEQ - 64) {
			break;
		}
		if (x < 12) {
			f_resize(&F, (int) vf_below(r, (uint32_t) k->nlanes), (int) vf_range(r, (uint32_t) k->mincap, 10));
		} else if (x < 56) {
			f_send(&F);
		} else if (x < 62) {
			if (!f_park(&F)) {
				f_send(&F);
			}
		} else {
			f_pull(&F, (int) vf_below(r, (uint32_t) k->nlanes));
		}
	}
	f_drain(&F, (int) vf_below(r, 2));
	if (!f_dead(&F)) {
		vf_class("fan/random/%s/%s", k->name, (F.M[0].resized || F.M[k->nlanes - 1].resized) ? "lossy" : "lossless");
		vf_stat("fan_random_cases", 1);
	}
	if ((idx % 41) == 0) {
		vf_sample("{\"socket\":\"%s\",\"random_ops\":%d,\"lane0_tail\":\"%s\"}", k->name, nops, F.M[0].hist);
	}
	f_close(&F);
	vf_stat("cases", 1);
}

static void
run_fan(void)
{
	long idx    = 0;
	int  maxcap = vf_tier ? 6 : 4;
	for (int ki = 0; ki < NFKINDS; ki++) {
		const fkind *k = &fkinds[ki];
		for (int cap = k->mincap; cap <= maxcap; cap++) {
			int slots = k->msgq ? cap + 2 : 2;
			while (!k->msgq && slots < cap) {
				slots *= 2;
			}
			for (int off = 0; off < (cap == 0 ? 1 : slots); off++) {
				for (int fill = 0; fill <= cap + 1; fill++) {
					for (int nc = k->mincap; nc <= maxcap + 1; nc++) {
						for (int order = 0; order < (k->ctx ? 1 : 2); order++, idx++) {
							if ((idx % vf_nshards) != vf_shard || !vf_want_case(idx)) {
								continue;
							}
							fan_resize_case(idx, k, cap, off, fill, nc, order);
							vf_watchdog(120);
						}
					}
				}
			}
		}
	}
	// senders parked behind a full buffer (and a stalled pipe) while the depth
	// grows / shrinks / grows
	idx = 1000000;
	static const int park_nc2[] = { 0, 1, 3, 6 };
	for (int ki = 0; ki < NFKINDS; ki++) {
		const fkind *k = &fkinds[ki];
		if (k->nlanes != 1 || k->pol[0] != POL_REFUSE) {
			continue;
		}
		for (int cap = 0; cap <= 3; cap++) {
			for (int off = 0; off < 2; off++) {
				for (int np = 1; np <= NPARK; np++) {
					for (int nc1 = 0; nc1 <= 5; nc1++) {
						for (int g = 0; g < 3; g++) {
							for (int i2 = 0; i2 < 4; i2++, idx++) {
								if ((idx % vf_nshards) != vf_shard || !vf_want_case(idx)) {
									continue;
								}
								if (!vf_tier && (vf_mix64((uint64_t) idx + vf_seed) & 1)) {
									continue; // quick: a seed-dependent half
								}
								fan_parked_case(idx, k, cap, off, np, nc1, g, park_nc2[i2]);
								vf_watchdog(120);
							}
						}
					}
				}
			}
		}
	}
	idx = 1500000;
	for (int ki = 0; ki < NFKINDS; ki++, idx++) {
		if ((idx % vf_nshards) != vf_shard || !vf_want_case(idx)) {
			continue;
		}
		fan_range_case(idx, &fkinds[ki]);
		vf_watchdog(120);
	}
	idx = 2000000;
	vf_rng r;
	for (long c = 0; c < vf_cases; c++, idx++) {
		if (!vf_want_case(idx)) {
			continue;
		}
		vf_rng_seed(&r, vf_seed, (uint64_t) idx);
		fan_random_case(idx, &fkinds[vf_below(&r, NFKINDS)], &r);
		vf_watchdog(120);
	}
}


// ==================================================================
// live mode: the depth changes *while* messages flow
// ==================================================================
// Everything above resizes at quiescence on one thread.  Here one or two
// sender threads stream sequence-tagged messages, a receiver thread drains
// (with pauses, so that the queues fill), and the main thread sets the buffer
// option to random depths every 50-500 us (paced by deliveries, so that it
// interleaves with traffic on a loaded machine too).  Judged is only what no correct
// run can break, whatever the interleaving:
//   * per sending thread the received sequence is strictly increasing (a FIFO
//     neither reorders nor duplicates), bodies and protocol headers are intact;
//   * the option reads back what was last set;
//   * on protocols with back pressure (nothing is ever dropped for lack of
//     room) the number of accepted sends that never arrive - counted after
//     the senders stopped and the receiver found the socket dry at quiescence -
//     is at most the sum over the shrinking resizes of (old depth - new
//     depth): a resize discards only as many as no longer fit.  A third of the
//     cases only ever grows the depth: there nothing may be lost at all.
// Under TSan the same run shows a setter that touches the ring without the
// lock the data path takes.
typedef struct {
	const char *name;
	int (*open_q)(nng_socket *);    // the socket whose option is set
	int (*open_peer)(nng_socket *);
	const char *opt;
	bool        recv_side; // q receives and the peer sends, or the other way round
	bool        lossless;
	int         mincap;
	bool        reqhdr;
	bool        subscribe; // the receiving socket must subscribe
} lkind;

static const lkind lkinds[] = {
	{ "pair0.sendbuf", nng_pair0_open, nng_pair0_open, NNG_OPT_SENDBUF, false, true, 0, false, false },
	{ "pair1.sendbuf", nng_pair1_open, nng_pair1_open, NNG_OPT_SENDBUF, false, true, 0, false, false },
	{ "push.sendbuf", nng_push0_open, nng_pull0_open, NNG_OPT_SENDBUF, false, true, 0, false, false },
	{ "xreq.sendbuf", nng_req0_open_raw, nng_rep0_open_raw, NNG_OPT_SENDBUF, false, true, 0, true, false },
	{ "pair0.recvbuf", nng_pair0_open, nng_pair0_open, NNG_OPT_RECVBUF, true, true, 0, false, false },
	{ "pair1.recvbuf", nng_pair1_open, nng_pair1_open, NNG_OPT_RECVBUF, true, true, 0, false, false },
	{ "xrep.recvbuf", nng_rep0_open_raw, nng_req0_open_raw, NNG_OPT_RECVBUF, true, true, 0, true, false },
	{ "sub.recvbuf", nng_sub0_open, nng_pub0_open, NNG_OPT_RECVBUF, true, false, 1, false, true },
	{ "xsub.recvbuf", nng_sub0_open_raw, nng_pub0_open, NNG_OPT_RECVBUF, true, false, 0, false, false },
	{ "bus.recvbuf", nng_bus0_open, nng_bus0_open, NNG_OPT_RECVBUF, true, false, 1, false, false },
	{ "pub.sendbuf", nng_pub0_open, nng_sub0_open, NNG_OPT_SENDBUF, false, false, 1, false, true },
	{ "bus.sendbuf", nng_bus0_open, nng_bus0_open, NNG_OPT_SENDBUF, false, false, 1, false, false },
};
#define NLKINDS ((int) (sizeof(lkinds) / sizeof(lkinds[0])))
#define LIVE_STREAMS 2
#define LIVE_MAXMSGS 0xfffff0

typedef struct live live;
typedef struct {
	live    *L;
	int      stream;
	long     sent;     // accepted sends (read by main after join)
	long     timeouts; // sends that gave up after 10 s without room
	int      err;      // a send failed otherwise
} lsender;

struct live {
	const lkind *k;
	nng_socket   q, peer, snd, rcv;
	int          nstreams;
	_Atomic bool stop_send, stop_recv;
	_Atomic int  q_pipes, peer_pipes;
	_Atomic long progress; // messages delivered so far (paces the resizer)
	lsender      sender[LIVE_STREAMS];
	// receiver's (then main's) view
	long     last[LIVE_STREAMS];
	long     got[LIVE_STREAMS];
	bool     dead;
	uint64_t pause_seed;
};

static void
live_pipe_cb_q(nng_pipe p, nng_pipe_ev ev, void *arg)
{
	live *L = arg;
	(void) p;
	atomic_fetch_add(&L->q_pipes, ev == NNG_PIPE_EV_ADD_POST ? 1 : -1);
}

static void
live_pipe_cb_peer(nng_pipe p, nng_pipe_ev ev, void *arg)
{
	live *L = arg;
	(void) p;
	atomic_fetch_add(&L->peer_pipes, ev == NNG_PIPE_EV_ADD_POST ? 1 : -1);
}

static void live_viol(live *L, const char *clause, const char *fmt, ...) __attribute__((format(printf, 3, 4)));
static void
live_viol(live *L, const char *clause, const char *fmt, ...)
{
	char    key[128], b[400];
	va_list ap;
	va_start(ap, fmt);
	vsnprintf(b, sizeof(b), fmt, ap);
	va_end(ap);
	snprintf(key, sizeof(key), "C18/live/%s/%s", L->k->name, clause);
	vf_violation(key, "%s", b);
	L->dead = true;
}

// one delivered message (receiver thread, later the main thread)
static void
live_judge(live *L, nng_msg *m)
{
	uint32_t seq;
	if (chk_msg(m, &seq) != 0) {
		live_viol(L, "corrupt", "received a message with a damaged body (len %zu) while the depth was being changed", nng_msg_len(m));
		return; // unknown object: not freed
	}
	int  st = (int) (seq >> 24);
	long n  = (long) (seq & 0xffffff);
	if (st >= L->nstreams || n == 0) {
		live_viol(L, "corrupt", "received a message with sequence word %#x that nobody sent", seq);
		return;
	}
	if (!hdr_ok(L->k->reqhdr ? 2 : 0, m, seq)) {
		live_viol(L, "corrupt/header", "message %ld of sender %d arrived with a damaged protocol header (%zu bytes)", n, st, nng_msg_header_len(m));
		return;
	}
	if (n == L->last[st]) {
		live_viol(L, "duplicate", "message %ld of sender %d was delivered twice", n, st);
		return; // may be the same object: not freed again
	}
	if (n < L->last[st]) {
		live_viol(L, "order", "message %ld of sender %d was delivered after message %ld", n, st, L->last[st]);
	}
	L->last[st] = n > L->last[st] ? n : L->last[st];
	L->got[st]++;
	atomic_fetch_add(&L->progress, 1);
	nng_msg_free(m);
}

static void *
live_sender(void *arg)
{
	lsender *S = arg;
	live    *L = S->L;
	while (!atomic_load(&L->stop_send) && S->sent < LIVE_MAXMSGS) {
		uint32_t seq = ((uint32_t) S->stream << 24) | (uint32_t) (S->sent + 1);
		nng_msg *m   = mk_msg_seq(seq);
		if (L->k->reqhdr) {
			nng_msg_header_append_u32(m, 0x80000000u | seq);
		}
		int rv = nng_sendmsg(L->snd, m, 0);
		if (rv == 0) {
			S->sent++;
			if (!L->k->lossless) {
				sched_yield(); // nothing ever holds this sender back
			}
			continue;
		}
		nng_msg_free(m);
		if (rv == NNG_ETIMEDOUT) {
			S->timeouts++; // not accepted; the same number is offered again
			continue;
		}
		S->err = rv;
		break;
	}
	return NULL;
}

static void *
live_receiver(void *arg)
{
	live    *L = arg;
	uint64_t x = L->pause_seed | 1;
	long     n = 0;
	for (;;) {
		nng_msg *m  = NULL;
		int      rv = nng_recvmsg(L->rcv, &m, 0);
		if (rv == 0) {
			live_judge(L, m);
			if (L->dead) {
				break;
			}
			// let the queues fill now and then
			x = vf_mix64(x + (uint64_t) n);
			if ((++n & 15) == 0 && (x & 3) != 0) {
				vf_usleep((int) ((x >> 8) % 300));
			}
			continue;
		}
		if (rv != NNG_ETIMEDOUT) {
			live_viol(L, "recv-failed", "receive failed: %s", nng_strerror(rv));
			break;
		}
		if (atomic_load(&L->stop_recv)) {
			break;
		}
	}
	return NULL;
}

static void
live_wait(_Atomic int *v, int want, const char *what)
{
	uint64_t end = vf_now_ns() + 20000000000ULL;
	while (atomic_load(v) != want) {
		if (vf_now_ns() > end) {
			vf_harness_fail("timeout waiting for %s", what);
		}
		vf_usleep(50);
	}
}

static void
live_case(long idx, const lkind *k, vf_rng *r)
{
	static live Ls;
	live       *L = &Ls;
	int         rv;
	char        url[96];
	memset(L, 0, sizeof(*L));
	L->k        = k;
	L->nstreams = (int) vf_range(r, 1, LIVE_STREAMS);
	bool grow_only = vf_below(r, 3) == 0;
	int  nresize   = (int) vf_range(r, 60, 240);
	int  depth     = (int) vf_range(r, (uint32_t) k->mincap, 6);
	L->pause_seed  = vf_rand(r);
	vf_case_begin(idx, "live %s senders=%d resizes=%d %s", k->name, L->nstreams, nresize, grow_only ? "grow-only" : "any");
	if ((rv = k->open_q(&L->q)) != 0 || (rv = k->open_peer(&L->peer)) != 0) {
		vf_harness_fail("open %s: %s", k->name, nng_strerror(rv));
	}
	L->snd = k->recv_side ? L->peer : L->q;
	L->rcv = k->recv_side ? L->q : L->peer;
	nng_pipe_notify(L->q, NNG_PIPE_EV_ADD_POST, live_pipe_cb_q, L);
	nng_pipe_notify(L->q, NNG_PIPE_EV_REM_POST, live_pipe_cb_q, L);
	nng_pipe_notify(L->peer, NNG_PIPE_EV_ADD_POST, live_pipe_cb_peer, L);
	nng_pipe_notify(L->peer, NNG_PIPE_EV_REM_POST, live_pipe_cb_peer, L);
	nng_socket_set_ms(L->snd, NNG_OPT_SENDTIMEO, 10000);
	nng_socket_set_ms(L->rcv, NNG_OPT_RECVTIMEO, 50);
	if (k->subscribe && (rv = nng_sub0_socket_subscribe(L->rcv, "", 0)) != 0) {
		vf_harness_fail("subscribe: %s", nng_strerror(rv));
	}
	if (!k->recv_side) {
		// the receiving socket's own buffer: tiny where back pressure has to
		// reach the send buffer under test, large where it would only drop
		(void) nng_socket_set_int(L->peer, NNG_OPT_RECVBUF, k->lossless ? 1 : 4096);
	}
	if ((rv = nng_socket_set_int(L->q, k->opt, depth)) != 0) {
		vf_harness_fail("%s set %s=%d: %s", k->name, k->opt, depth, nng_strerror(rv));
	}
	vf_url(VF_T_INPROC, url, sizeof(url));
	if ((rv = nng_listen(L->q, url, NULL, 0)) != 0 || (rv = nng_dial(L->peer, url, NULL, 0)) != 0) {
		vf_harness_fail("connect: %s", nng_strerror(rv));
	}
	live_wait(&L->q_pipes, 1, "pipe");
	live_wait(&L->peer_pipes, 1, "peer pipe");
	quiesce();

	pthread_t ts[LIVE_STREAMS], tr;
	for (int i = 0; i < L->nstreams; i++) {
		L->sender[i].L      = L;
		L->sender[i].stream = i;
		if (pthread_create(&ts[i], NULL, live_sender, &L->sender[i]) != 0) {
			vf_harness_fail("pthread_create");
		}
	}
	if (pthread_create(&tr, NULL, live_receiver, L) != 0) {
		vf_harness_fail("pthread_create");
	}

	// the resizer
	long allowed = 0, shrinks = 0, done = 0;
	bool notset  = false;
	int  got     = -1;
	for (int i = 0; i < nresize && !notset; i++) {
		int      nd;
		uint32_t x = vf_below(r, 100);
		if (grow_only) {
			nd = depth + (int) vf_below(r, 3);
			nd = nd > 8192 ? 8192 : nd;
		} else if (x < 8) {
			nd = x < 4 ? 64 : 1000;
		} else if (x < 30) {
			nd = k->mincap;
		} else {
			nd = (int) vf_range(r, (uint32_t) k->mincap, 12);
		}
		if ((rv = nng_socket_set_int(L->q, k->opt, nd)) != 0) {
			vf_harness_fail("%s set %s=%d: %s", k->name, k->opt, nd, nng_strerror(rv));
		}
		if (nng_socket_get_int(L->q, k->opt, &got) != 0 || got != nd) {
			notset = true;
		}
		if (nd < depth) {
			allowed += depth - nd;
			shrinks++;
		}
		depth = nd;
		done++;
		// the next resize comes 50-500 us later, and (so that resizes and
		// traffic interleave on a busy machine too) not before a few more
		// messages were delivered - or 20 ms passed without any
		long     want = atomic_load(&L->progress) + (long) vf_below(r, 12);
		uint64_t end  = vf_now_ns() + 20000000ULL;
		vf_usleep((int) vf_range(r, 50, 500));
		while (atomic_load(&L->progress) < want && vf_now_ns() < end) {
			vf_usleep(50);
		}
	}
	atomic_store(&L->stop_send, true);
	for (int i = 0; i < L->nstreams; i++) {
		pthread_join(ts[i], NULL);
	}
	atomic_store(&L->stop_recv, true);
	pthread_join(tr, NULL);
	if (notset && !L->dead) {
		live_viol(L, "cap-not-set", "option reads back %d after it was set to %d", got, depth);
	}
	// what is still under way: the main thread receives until the socket is
	// dry with the library quiescent
	nng_aio *ra = NULL;
	if (nng_aio_alloc(&ra, NULL, NULL) != 0) {
		vf_harness_fail("nng_aio_alloc");
	}
	nng_aio_set_timeout(ra, NNG_DURATION_INFINITE);
	long tail = 0;
	while (!L->dead) {
		nng_socket_recv(L->rcv, ra);
		quiesce();
		if (nng_aio_busy(ra)) {
			nng_aio_cancel(ra);
			nng_aio_wait(ra);
		}
		if (nng_aio_result(ra) != 0) {
			break; // dry
		}
		nng_msg *m = nng_aio_get_msg(ra);
		nng_aio_set_msg(ra, NULL);
		live_judge(L, m);
		tail++;
	}
	long sent = 0, recvd = 0, timeouts = 0;
	for (int i = 0; i < L->nstreams; i++) {
		sent += L->sender[i].sent;
		recvd += L->got[i];
		timeouts += L->sender[i].timeouts;
		if (L->sender[i].err != 0 && !L->dead) {
			live_viol(L, "send-failed", "send failed while the depth was being changed: %s", nng_strerror(L->sender[i].err));
		}
		if (!L->dead && L->last[i] > L->sender[i].sent) {
			live_viol(L, "phantom", "received message %ld of sender %d, who got only %ld accepted", L->last[i], i, L->sender[i].sent);
		}
	}
	if (!L->dead && k->lossless && sent - recvd > allowed) {
		live_viol(L, allowed == 0 ? "lost/no-shrink" : "lost/more-than-shrunk",
		    "%ld of %ld accepted messages never arrived; the %ld shrinking resizes took away room for %ld in total", sent - recvd, sent, shrinks, allowed);
	}
	vf_stat("live_resizes", done);
	vf_stat("live_shrinks", shrinks);
	vf_stat("live_msgs", recvd);
	vf_stat("live_sent", sent);
	vf_stat("live_tail_msgs", tail);
	vf_stat("live_send_timeouts", timeouts);
	if (k->lossless) {
		vf_stat("live_lossless_dropped", sent - recvd);
		vf_stat("live_lossless_msgs", recvd);
	}
	if (!L->dead && recvd > 0) {
		vf_class("live/%s/%s/%s", k->name, grow_only ? "grow-only" : "any-depth", L->nstreams > 1 ? "two-senders" : "one-sender");
		vf_stat("live_cases", 1);
		if (grow_only && k->lossless) {
			vf_stat("live_grow_only_lossless_cases", 1);
		}
	}
	if ((idx % 7) == 0) {
		vf_sample("{\"live\":\"%s\",\"senders\":%d,\"resizes\":%ld,\"shrinks\":%ld,\"accepted\":%ld,\"received\":%ld,\"after_stop\":%ld,\"room_taken_away\":%ld}", k->name, L->nstreams, done, shrinks, sent, recvd, tail, allowed);
	}
	if (L->dead) {
		abandoned++;
		return; // leave the sockets alone
	}
	nng_aio_free(ra);
	nng_socket_close(L->peer);
	nng_socket_close(L->q);
	vf_stat("cases", 1);
}

static void
run_live(void)
{
	vf_rng r;
	long   idx = 3000000;
	for (long c = 0; c < vf_cases; c++, idx++) {
		if (!vf_want_case(idx)) {
			continue;
		}
		vf_rng_seed(&r, vf_seed, (uint64_t) idx);
		// every worker walks the kinds round-robin from a start of its own
		// (a function of its seed, so that --only replays the same kind)
		live_case(idx, &lkinds[(c + (long) (vf_mix64(vf_seed) % NLKINDS)) % NLKINDS], &r);
		vf_watchdog(120);
	}
}

int
main(int argc, char **argv)
{
	vf_init(argc, argv);
	vf_nng_init(2, 1, 1);
	alloc_probe();
	if (!strcmp(vf_mode, "lmq")) {
		run_lmq_exhaustive();
		run_lmq_big(20000000);
		run_lmq_random(10000000, vf_cases);
	} else if (!strcmp(vf_mode, "msgq")) {
		run_msgq_exhaustive();
		run_msgq_big(20000000);
		run_msgq_random(10000000, vf_cases);
	} else if (!strcmp(vf_mode, "api")) {
		varlen = true;
		run_api();
	} else if (!strcmp(vf_mode, "fan")) {
		varlen = true;
		run_fan();
	} else if (!strcmp(vf_mode, "live")) {
		varlen = true;
		run_live();
	} else {
		vf_harness_fail("unknown mode '%s'", vf_mode);
	}
	vf_stat("abandoned_after_violation", abandoned);
	vf_stat("long_bodies", atomic_load(&long_bodies));
	vf_stat("header_checks", header_checks);
	if (abandoned) {
		// queues (and sockets) abandoned after a violation may hold a
		// damaged ring: they are leaked on purpose and never walked again
		int rc = vf_finish();
		fflush(NULL);
		_exit(rc);
	}
	vf_nng_fini("C18");
	return vf_finish();
}
