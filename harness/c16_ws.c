// C16 (WebSocket half): a raw TCP peer with its own RFC 6455 codec talks to
// nng's WebSocket implementation in four roles
//   SL  nng_stream listener  ws://   (stream mode and message mode)
//   SD  nng_stream dialer    ws://   (stream mode and message mode)
//   PL  SP pair0 socket listening on ws://
//   PD  SP pair0 socket dialing ws://
// The raw peer performs the HTTP upgrade itself (own SHA-1/base64).
//
// Modes:
//   valid  (a) valid frame streams - fragmentation, PING/PONG interleaved
//          between fragments - are replayed on one connection under many
//          segmentations of nng's reads (every single cut for streams <= 300
//          bytes, dribble, random, cuts at frame-header boundaries, paced
//          writes); what the application receives must equal what the strict
//          reference decoder produces from the same bytes, every time.
//          (c) then nng sends messages with the configured
//          NNG_OPT_WS_SENDMAXFRAME; every byte nng emits (handshake, data,
//          PONG, CLOSE) goes through the strict parser.
//   rules  (b) exactly one rule violation per connection followed by a
//          canary message: nothing at or after the offending frame may be
//          delivered and the peer must see a CLOSE frame and/or EOF.
//   hs     one defect in the raw peer's half of the upgrade: must be refused.
//   hsv    valid spellings of the upgrade (must be accepted, the frame behind
//          them delivered) and near misses of the compared tokens (refused).
//   conc   several nng_stream_send operations outstanding at once in message
//          mode while the peer sends PINGs; one of them cancelled midway; a
//          CLOSE from the peer meanwhile: the emitted stream stays well-formed.
#include "vfh.h"

#include <ctype.h>
#include <errno.h>
#include <poll.h>
#include <pthread.h>
#include <signal.h>
#include <stdatomic.h>
#include <sys/socket.h>
#include <unistd.h>

// ------------------------------------------------------------ byte buffer
typedef struct {
	uint8_t *p;
	size_t   n, cap;
} bb;

static void
bb_add(bb *b, const void *d, size_t n)
{
	if (b->n + n + 1 > b->cap) {
		b->cap = (b->n + n + 1) * 2 + 64;
		b->p   = realloc(b->p, b->cap);
		if (b->p == NULL) vf_harness_fail("oom");
	}
	if (n && d) memcpy(b->p + b->n, d, n);
	b->n += n;
	b->p[b->n] = 0;
}
static void
bb_str(bb *b, const char *s)
{
	bb_add(b, s, strlen(s));
}
static void
bb_ch(bb *b, int c)
{
	uint8_t x = (uint8_t) c;
	bb_add(b, &x, 1);
}
static void bb_printf(bb *b, const char *fmt, ...)
    __attribute__((format(printf, 2, 3)));
static void
bb_printf(bb *b, const char *fmt, ...)
{
	char    tmp[1024];
	va_list ap;
	va_start(ap, fmt);
	int n = vsnprintf(tmp, sizeof(tmp), fmt, ap);
	va_end(ap);
	if (n < 0) n = 0;
	if ((size_t) n >= sizeof(tmp)) n = sizeof(tmp) - 1;
	bb_add(b, tmp, (size_t) n);
}
static void
bb_free(bb *b)
{
	free(b->p);
	b->p = NULL;
	b->n = b->cap = 0;
}
static void
bb_reset(bb *b)
{
	b->n = 0;
	if (b->p) b->p[0] = 0;
}

// ------------------------------------------------------- SHA-1 and base64
static uint32_t
rol(uint32_t v, int s)
{
	return (v << s) | (v >> (32 - s));
}

static void
sha1(const uint8_t *msg, size_t len, uint8_t out[20])
{
	uint32_t h[5] = { 0x67452301, 0xEFCDAB89, 0x98BADCFE, 0x10325476, 0xC3D2E1F0 };
	size_t   total = ((len + 8) / 64 + 1) * 64;
	uint8_t *m = calloc(total, 1);
	memcpy(m, msg, len);
	m[len] = 0x80;
	uint64_t bits = (uint64_t) len * 8;
	for (int i = 0; i < 8; i++) m[total - 1 - i] = (uint8_t) (bits >> (8 * i));
	for (size_t off = 0; off < total; off += 64) {
		uint32_t w[80];
		for (int i = 0; i < 16; i++) w[i] = ((uint32_t) m[off + 4 * i] << 24) | ((uint32_t) m[off + 4 * i + 1] << 16) | ((uint32_t) m[off + 4 * i + 2] << 8) | m[off + 4 * i + 3];
		for (int i = 16; i < 80; i++) w[i] = rol(w[i - 3] ^ w[i - 8] ^ w[i - 14] ^ w[i - 16], 1);
		uint32_t a = h[0], b = h[1], c = h[2], d = h[3], e = h[4];
		for (int i = 0; i < 80; i++) {
			uint32_t f, k;
			if (i < 20) { f = (b & c) | (~b & d); k = 0x5A827999; }
			else if (i < 40) { f = b ^ c ^ d; k = 0x6ED9EBA1; }
			else if (i < 60) { f = (b & c) | (b & d) | (c & d); k = 0x8F1BBCDC; }
			else { f = b ^ c ^ d; k = 0xCA62C1D6; }
			uint32_t t = rol(a, 5) + f + e + k + w[i];
			e = d; d = c; c = rol(b, 30); b = a; a = t;
		}
		h[0] += a; h[1] += b; h[2] += c; h[3] += d; h[4] += e;
	}
	free(m);
	for (int i = 0; i < 5; i++) {
		out[4 * i] = (uint8_t) (h[i] >> 24); out[4 * i + 1] = (uint8_t) (h[i] >> 16);
		out[4 * i + 2] = (uint8_t) (h[i] >> 8); out[4 * i + 3] = (uint8_t) h[i];
	}
}

static const char b64tab[] = "ABCDEFGHIJKLMNOPQRSTUVWXYZabcdefghijklmnopqrstuvwxyz0123456789+/";

static void
b64enc(const uint8_t *in, size_t n, char *out)
{
	size_t o = 0;
	for (size_t i = 0; i < n; i += 3) {
		uint32_t v = (uint32_t) in[i] << 16;
		if (i + 1 < n) v |= (uint32_t) in[i + 1] << 8;
		if (i + 2 < n) v |= in[i + 2];
		out[o++] = b64tab[(v >> 18) & 63];
		out[o++] = b64tab[(v >> 12) & 63];
		out[o++] = i + 1 < n ? b64tab[(v >> 6) & 63] : '=';
		out[o++] = i + 2 < n ? b64tab[v & 63] : '=';
	}
	out[o] = 0;
}

// returns decoded length or -1
static int
b64dec(const char *in, uint8_t *out, size_t cap)
{
	size_t n = strlen(in), o = 0;
	if (n % 4) return -1;
	for (size_t i = 0; i < n; i += 4) {
		uint32_t v = 0;
		int      pad = 0;
		for (int j = 0; j < 4; j++) {
			char c = in[i + j];
			const char *p;
			if (c == '=') {
				if (i + 4 != n || j < 2) return -1;
				pad++;
				v <<= 6;
			} else if (pad || (p = strchr(b64tab, c)) == NULL || c == 0) {
				return -1;
			} else {
				v = (v << 6) | (uint32_t) (p - b64tab);
			}
		}
		if (o + 3 - (size_t) pad > cap) return -1;
		out[o++] = (uint8_t) (v >> 16);
		if (pad < 2) out[o++] = (uint8_t) (v >> 8);
		if (pad < 1) out[o++] = (uint8_t) v;
	}
	return (int) o;
}

static void
ws_accept_for(const char *key, char out[32])
{
	char    cat[128];
	uint8_t dig[20];
	snprintf(cat, sizeof(cat), "%s258EAFA5-E914-47DA-95CA-C5AB0DC85B11", key);
	sha1((const uint8_t *) cat, strlen(cat), dig);
	b64enc(dig, 20, out);
}

static void
crypto_selftest(void)
{
	char    acc[32];
	uint8_t d[20];
	ws_accept_for("dGhlIHNhbXBsZSBub25jZQ==", acc);
	if (strcmp(acc, "s3pPLMBiTxaQ9kYGzzhZRbK+xOo=") != 0) vf_harness_fail("SHA-1/base64 self-test: %s", acc);
	sha1((const uint8_t *) "", 0, d);
	if (d[0] != 0xda || d[19] != 0x09) vf_harness_fail("SHA-1 empty self-test");
	uint8_t raw[16];
	if (b64dec("dGhlIHNhbXBsZSBub25jZQ==", raw, sizeof(raw)) != 16 || memcmp(raw, "the sample nonce", 16)) vf_harness_fail("base64 decode self-test");
}

// ------------------------------------------------------------ raw peer I/O
typedef struct {
	int    fd;
	bb     in;
	size_t pos;
	bool   eof;
} rpeer;

static int
rp_fill(rpeer *p, int timeout_ms)
{
	struct pollfd pfd = { p->fd, POLLIN, 0 };
	static uint8_t tmp[262144];
	if (p->eof || p->fd < 0) return 0;
	for (;;) {
		int r = poll(&pfd, 1, timeout_ms);
		if (r < 0 && errno == EINTR) continue;
		if (r <= 0) return -1;
		break;
	}
	ssize_t n = read(p->fd, tmp, sizeof(tmp));
	if (n <= 0) {
		p->eof = true;
		return 0;
	}
	bb_add(&p->in, tmp, (size_t) n);
	return 1;
}

static void
rp_close(rpeer *p)
{
	if (p->fd >= 0) {
		// abortive close: thousands of short connections must not pile up
		// in TIME_WAIT on a machine shared with other checks
		struct linger lg = { 1, 0 };
		setsockopt(p->fd, SOL_SOCKET, SO_LINGER, &lg, sizeof(lg));
		close(p->fd);
	}
	p->fd = -1;
	bb_free(&p->in);
	p->pos = 0;
	p->eof = false;
}

static void
rp_compact(rpeer *p)
{
	if (p->pos == p->in.n) {
		p->pos = 0;
		bb_reset(&p->in);
	}
}

// --------------------------------------------- strict HTTP message head parser
#define MAXH 32
typedef struct {
	char   method[32], target[512], version[16];
	int    status;
	char   reason[128];
	int    nh;
	char   hn[MAXH][64];
	char   hv[MAXH][256];
	size_t head_len;
	char   err[160];
} hmsg;

static bool
is_tchar(int c)
{
	return isalnum(c) || (c != 0 && strchr("!#$%&'*+-.^_`|~", c) != NULL);
}

static int
parse_head(const uint8_t *b, size_t len, bool is_req, hmsg *m)
{
	size_t pos = 0;
	int    lineno = 0;
	memset(m, 0, sizeof(*m));
#define BAD(...) do { snprintf(m->err, sizeof(m->err), __VA_ARGS__); return -1; } while (0)
	for (;;) {
		size_t e = pos;
		while (e < len && b[e] != '\r' && b[e] != '\n') {
			if ((b[e] < 0x20 && b[e] != '\t') || b[e] == 0x7f) BAD("control byte 0x%02x in line %d", b[e], lineno);
			e++;
		}
		if (e >= len) return 0;
		if (b[e] == '\n') BAD("bare LF ends line %d", lineno);
		if (e + 1 >= len) return 0;
		if (b[e + 1] != '\n') BAD("CR not followed by LF in line %d", lineno);
		size_t      ll = e - pos;
		const char *l  = (const char *) b + pos;
		pos            = e + 2;
		if (lineno == 0) {
			if (is_req) {
				size_t i = 0, j;
				while (i < ll && is_tchar((unsigned char) l[i])) i++;
				if (i == 0 || i >= sizeof(m->method) || i >= ll || l[i] != ' ') BAD("request line: bad method");
				memcpy(m->method, l, i);
				j = ++i;
				while (i < ll && (unsigned char) l[i] > 0x20 && l[i] != 0x7f) i++;
				if (i == j || i - j >= sizeof(m->target) || i >= ll || l[i] != ' ') BAD("request line: bad target");
				memcpy(m->target, l + j, i - j);
				i++;
				if (ll - i != 8 || memcmp(l + i, "HTTP/1.", 7) != 0 || !isdigit((unsigned char) l[i + 7])) BAD("request line: bad version");
				memcpy(m->version, l + i, 8);
			} else {
				if (ll < 12 || memcmp(l, "HTTP/1.", 7) != 0 || !isdigit((unsigned char) l[7]) || l[8] != ' ') BAD("status line: bad version");
				memcpy(m->version, l, 8);
				if (!isdigit((unsigned char) l[9]) || !isdigit((unsigned char) l[10]) || !isdigit((unsigned char) l[11])) BAD("status line: status code not 3 digits");
				m->status = (l[9] - '0') * 100 + (l[10] - '0') * 10 + (l[11] - '0');
				if (ll == 12 || l[12] != ' ') BAD("status line: no SP after the status code");
				snprintf(m->reason, sizeof(m->reason), "%.*s", (int) (ll - 13), l + 13);
			}
		} else if (ll == 0) {
			m->head_len = pos;
			return 1;
		} else {
			size_t i = 0;
			while (i < ll && is_tchar((unsigned char) l[i])) i++;
			if (i == 0 || i >= ll || l[i] != ':') BAD("header line %d: field name not a token followed by ':'", lineno);
			if (m->nh >= MAXH) BAD("too many headers");
			snprintf(m->hn[m->nh], sizeof(m->hn[0]), "%.*s", (int) i, l);
			size_t vs = i + 1, ve = ll;
			while (vs < ve && (l[vs] == ' ' || l[vs] == '\t')) vs++;
			while (ve > vs && (l[ve - 1] == ' ' || l[ve - 1] == '\t')) ve--;
			snprintf(m->hv[m->nh], sizeof(m->hv[0]), "%.*s", (int) (ve - vs), l + vs);
			m->nh++;
		}
		lineno++;
	}
#undef BAD
}

static const char *
hmsg_get(const hmsg *m, const char *name)
{
	for (int i = 0; i < m->nh; i++)
		if (strcasecmp(m->hn[i], name) == 0) return m->hv[i];
	return NULL;
}

static bool
has_token(const char *list, const char *tok)
{
	size_t tl = strlen(tok);
	while (list && *list) {
		while (*list == ' ' || *list == ',' || *list == '\t') list++;
		size_t l = strcspn(list, ", \t");
		if (l == tl && strncasecmp(list, tok, tl) == 0) return true;
		list += l;
	}
	return false;
}

// ================================================================ frame codec
enum { OP_CONT = 0, OP_TEXT = 1, OP_BIN = 2, OP_CLOSE = 8, OP_PING = 9, OP_PONG = 10 };

// lenenc: 0 minimal, 2 force 16 bit, 8 force 64 bit
static void
put_frame(bb *b, bool fin, int rsv, int op, bool masked, uint32_t mask,
    const uint8_t *pl, size_t len, int lenenc)
{
	uint8_t h[14];
	size_t  hl = 2;
	h[0] = (uint8_t) ((fin ? 0x80 : 0) | ((rsv & 7) << 4) | (op & 15));
	if (lenenc == 0) lenenc = len < 126 ? 1 : len < 65536 ? 2 : 8;
	if (lenenc == 1) {
		h[1] = (uint8_t) len;
	} else if (lenenc == 2) {
		h[1] = 126;
		h[2] = (uint8_t) (len >> 8);
		h[3] = (uint8_t) len;
		hl   = 4;
	} else {
		h[1] = 127;
		for (int i = 0; i < 8; i++) h[2 + i] = (uint8_t) ((uint64_t) len >> (8 * (7 - i)));
		hl = 10;
	}
	uint8_t mk[4] = { (uint8_t) (mask >> 24), (uint8_t) (mask >> 16), (uint8_t) (mask >> 8), (uint8_t) mask };
	if (masked) {
		h[1] |= 0x80;
		memcpy(h + hl, mk, 4);
		hl += 4;
	}
	bb_add(b, h, hl);
	size_t at = b->n;
	bb_add(b, pl, len);
	if (masked)
		for (size_t i = 0; i < len; i++) b->p[at + i] ^= mk[i & 3];
}

// frame header only, 64-bit length form with an arbitrary length value
static void
put_hdr64(bb *b, bool fin, int op, bool masked, uint32_t mask, uint64_t len)
{
	uint8_t h[14];
	h[0] = (uint8_t) ((fin ? 0x80 : 0) | (op & 15));
	h[1] = (uint8_t) (127 | (masked ? 0x80 : 0));
	for (int i = 0; i < 8; i++) h[2 + i] = (uint8_t) (len >> (8 * (7 - i)));
	h[10] = (uint8_t) (mask >> 24); h[11] = (uint8_t) (mask >> 16); h[12] = (uint8_t) (mask >> 8); h[13] = (uint8_t) mask;
	bb_add(b, h, masked ? 14 : 10);
}

typedef struct {
	bool     fin, masked;
	int      rsv, op, lenbytes; // lenbytes 1, 2 or 8
	uint64_t len;
	size_t   hlen;
	uint8_t  mask[4];
} fhdr;

// 0: need more bytes for the header; else header length
static size_t
parse_fhdr(const uint8_t *b, size_t n, fhdr *f)
{
	if (n < 2) return 0;
	f->fin    = (b[0] & 0x80) != 0;
	f->rsv    = (b[0] >> 4) & 7;
	f->op     = b[0] & 15;
	f->masked = (b[1] & 0x80) != 0;
	int l7    = b[1] & 0x7f;
	size_t hl = 2;
	if (l7 == 126) {
		if (n < 4) return 0;
		f->len      = ((uint64_t) b[2] << 8) | b[3];
		f->lenbytes = 2;
		hl          = 4;
	} else if (l7 == 127) {
		if (n < 10) return 0;
		f->len = 0;
		for (int i = 0; i < 8; i++) f->len = (f->len << 8) | b[2 + i];
		f->lenbytes = 8;
		hl          = 10;
	} else {
		f->len      = (uint64_t) l7;
		f->lenbytes = 1;
	}
	if (f->masked) {
		if (n < hl + 4) return 0;
		memcpy(f->mask, b + hl, 4);
		hl += 4;
	}
	f->hlen = hl;
	return hl;
}

// Strict decoder state for one direction.
#define MAXMSG 64
typedef struct {
	// configuration
	bool   expect_masked; // frames in this direction must be masked
	size_t maxframe;      // 0 none
	size_t recvmax;       // 0 none (message mode only)
	bool   msgmode;
	bool   allow_text;
	size_t strip;         // message mode: leading bytes of every message that are not delivered (SP header)
	// state
	bool   inmsg;
	int    msg_op;
	size_t msg_len;
	bb     cur;           // message being assembled
	// results
	bb     data;          // payload bytes of completed messages (msgmode) or of
	                      // all data frames so far (stream mode)
	size_t bound[MAXMSG]; // end offsets of complete messages in data
	int    nmsg;
	int    msgops[MAXMSG];
	int    nping, npong, nclose;
	bb     pings;         // concatenated [len][payload] of PING frames seen
	bb     pongs;
	int    close_code;
	long   nframes, ndata_frames;
	long   n_lenenc[3];   // data frames seen with a 7 / 16 / 64 bit length
	size_t max_data_frame;
	const char *viol;     // first rule violation, NULL if none
	size_t viol_at;       // stream offset of the offending frame
	size_t consumed;
	bool   ctl_fragmented; // a control frame without FIN was seen (recorded, not a rule here)
	bool   ctl_over_max;   // a control frame whose payload, plus the unfinished message in front of it, exceeds recvmax
	long   nctl_inmsg;     // control frames between the fragments of a message
} wsdec;

static void
wsdec_init(wsdec *d, bool expect_masked, bool msgmode, size_t maxframe, size_t recvmax, bool allow_text)
{
	memset(d, 0, sizeof(*d));
	d->expect_masked = expect_masked;
	d->msgmode       = msgmode;
	d->maxframe      = maxframe;
	d->recvmax       = recvmax;
	d->allow_text    = allow_text;
	d->close_code    = -1;
}

static void
wsdec_free(wsdec *d)
{
	bb_free(&d->cur);
	bb_free(&d->data);
	bb_free(&d->pings);
	bb_free(&d->pongs);
}

static void
lp_add(bb *b, const uint8_t *p, size_t n)
{
	uint8_t l = (uint8_t) n;
	bb_add(b, &l, 1);
	bb_add(b, p, n);
}

// Feed bytes [d->consumed, n) of stream s.  Stops at the first violation or
// after a CLOSE frame.  Returns number of complete frames decoded this call.
static int
wsdec_feed(wsdec *d, const uint8_t *s, size_t n)
{
	int frames = 0;
	while (d->viol == NULL && d->nclose == 0) {
		fhdr   f;
		size_t hl = parse_fhdr(s + d->consumed, n - d->consumed, &f);
		if (hl == 0) break;
		size_t at = d->consumed;
#define VIOL(x) do { d->viol = (x); d->viol_at = at; return frames; } while (0)
		// header-only rules first: they hold however much payload arrived
		if (f.rsv != 0) VIOL("rsv-bit");
		if ((f.op >= 3 && f.op <= 7) || f.op >= 11) VIOL("reserved-opcode");
		if (f.masked != d->expect_masked) VIOL(d->expect_masked ? "unmasked-client-frame" : "masked-server-frame");
		if (f.lenbytes == 2 && f.len < 126) VIOL("non-minimal-length-16");
		if (f.lenbytes == 8 && f.len < 65536) VIOL("non-minimal-length-64");
		if (f.lenbytes == 8 && (f.len >> 63)) VIOL("length-msb-set");
		bool ctl = f.op >= 8;
		if (ctl && f.len > 125) VIOL("control-frame-too-long");
		if (d->maxframe > 0 && f.len > d->maxframe) VIOL("frame-above-max");
		if (!ctl) {
			if (f.op == OP_CONT && !d->inmsg) VIOL("continuation-without-start");
			if (f.op != OP_CONT && d->inmsg) VIOL("new-message-inside-fragmented-message");
			if (f.op == OP_TEXT && !d->allow_text) VIOL("text-not-enabled");
			size_t tot = (d->inmsg ? d->msg_len : 0) + (size_t) f.len;
			if (d->msgmode && d->recvmax > 0 && tot > d->recvmax) VIOL("message-above-max");
		}
#undef VIOL
		if (n - d->consumed - hl < f.len) break; // payload incomplete
		// unmask into scratch
		size_t   pl = (size_t) f.len;
		uint8_t *p  = malloc(pl ? pl : 1);
		memcpy(p, s + d->consumed + hl, pl);
		if (f.masked)
			for (size_t i = 0; i < pl; i++) p[i] ^= f.mask[i & 3];
		d->consumed += hl + pl;
		d->nframes++;
		frames++;
		if (ctl) {
			if (!f.fin) d->ctl_fragmented = true;
			if (d->inmsg) d->nctl_inmsg++;
			if (d->msgmode && d->recvmax > 0 && (d->inmsg ? d->msg_len : 0) + pl > d->recvmax) d->ctl_over_max = true;
			if (f.op == OP_PING) {
				d->nping++;
				lp_add(&d->pings, p, pl);
			} else if (f.op == OP_PONG) {
				d->npong++;
				lp_add(&d->pongs, p, pl);
			} else {
				d->nclose++;
				d->close_code = pl >= 2 ? (p[0] << 8) | p[1] : (pl == 0 ? 0 : -2);
			}
		} else {
			d->ndata_frames++;
			d->n_lenenc[f.lenbytes == 1 ? 0 : f.lenbytes == 2 ? 1 : 2]++;
			if (pl > d->max_data_frame) d->max_data_frame = pl;
			if (f.op != OP_CONT) {
				d->inmsg   = true;
				d->msg_op  = f.op;
				d->msg_len = 0;
				bb_reset(&d->cur);
			}
			d->msg_len += pl;
			if (d->msgmode) {
				bb_add(&d->cur, p, pl);
			} else {
				bb_add(&d->data, p, pl);
			}
			if (f.fin) {
				d->inmsg = false;
				if (d->msgmode) bb_add(&d->data, d->cur.p + (d->cur.n < d->strip ? d->cur.n : d->strip), d->cur.n < d->strip ? 0 : d->cur.n - d->strip);
				if (d->nmsg < MAXMSG) {
					d->msgops[d->nmsg] = d->msg_op;
					d->bound[d->nmsg]  = d->data.n;
				}
				d->nmsg++;
			}
		}
		free(p);
	}
	return frames;
}

// ================================================================ endpoints
enum { R_SL = 0, R_SD, R_PL, R_PD, NROLES };
static const char *role_names[NROLES] = { "stream-listener", "stream-dialer", "sp-listener", "sp-dialer" };
#define ROLE_IS_SP(r) ((r) >= R_PL)
#define ROLE_IS_SERVER(r) ((r) == R_SL || (r) == R_PL)
#define SP_PROTO(e) ((e)->cfg.sp1 ? "pair1.sp.nanomsg.org" : "pair.sp.nanomsg.org")

typedef struct {
	int    role;
	bool   msgmode;
	size_t maxframe, recvmax, fragsize; // (size_t)-1: leave the default
	bool   recv_text, send_text;
	size_t rxbuf;
	int    hs_plan; // interposer plan active during the handshake: 0 none, 1 dribble, 2 random
	int    hs_defect; // HS_NONE or the one defect the raw peer plants in its half of the upgrade
	bool   sp1;       // SP roles: pair1 (4-byte hop header in front of every body) instead of pair0
	int    hs_var;    // HV_NONE or a valid spelling variant of the raw peer's half of the upgrade
	int    rx_niov;   // stream mode: receive into this many separately allocated buffers (0/1: one)
} wscfg;

// defects of the upgrade exchange.  HD_*: the raw server's 101 response to an
// nng dialer; HL_*: the raw client's request to an nng listener.
enum {
	HS_NONE = 0,
	HD_ACCEPT_WRONG, HD_ACCEPT_MISSING, HD_ACCEPT_OTHER_KEY, HD_ACCEPT_TRUNCATED, HD_STATUS_200, HD_STATUS_400, HD_STATUS_404, HD_STATUS_503,
	HD_UPGRADE_MISSING, HD_UPGRADE_WRONG, HD_CONN_MISSING, HD_CONN_WRONG, HD_PROTO_MISSING, HD_PROTO_WRONG,
	HL_KEY_MISSING, HL_KEY_SHORT, HL_KEY_LONG, HL_VERSION_MISSING, HL_VERSION_8, HL_VERSION_14, HL_UPGRADE_MISSING, HL_UPGRADE_WRONG,
	HL_CONN_MISSING, HL_CONN_WRONG, HL_METHOD_POST, HL_HTTP10, HL_PROTO_MISSING, HL_PROTO_WRONG,
	// near misses of the tokens that are compared, either direction (hsv mode)
	HX_CONN_NOUPGRADE, HX_CONN_UPGRADES, HX_UPGRADE_SUFFIX, HX_UPGRADE_PREFIX, HX_PROTO_SUFFIX, HX_PROTO_PREFIX,
	HS_NDEFECTS
};
#define HX_FIRST HX_CONN_NOUPGRADE
#define HX_LAST HX_PROTO_PREFIX
// valid spellings of the raw peer's half of the upgrade: must be accepted
enum {
	HV_NONE = 0, HV_LOWER_NAMES, HV_CONN_LIST, HV_CONN_LIST_NOSPACE, HV_CONN_UPGRADE_FIRST, HV_UPGRADE_CASE, HV_EXTRA_HEADERS, HV_OWS,
	HV_MULTI_PROTO_OR_REASON, // request: several subprotocols offered (SP roles); response: another reason phrase
	HV_NVARIANTS
};
static const char *hv_names_req[HV_NVARIANTS] = { "plain", "lower-case-header-names", "connection-keep-alive-upgrade", "connection-list-without-space", "connection-upgrade-keep-alive", "upgrade-WebSocket", "extra-headers", "optional-whitespace",
	"several-subprotocols-offered" };
static const char *hv_names_res[HV_NVARIANTS] = { "plain", "lower-case-header-names", "connection-keep-alive-upgrade", "connection-list-without-space", "connection-upgrade-keep-alive", "upgrade-WebSocket", "extra-headers", "optional-whitespace",
	"other-reason-phrase" };
#define hv_name(role, hv) (ROLE_IS_SERVER(role) ? hv_names_req[hv] : hv_names_res[hv])
#define HD_FIRST HD_ACCEPT_WRONG
#define HD_LAST HD_PROTO_WRONG
#define HL_FIRST HL_KEY_MISSING
#define HL_LAST HL_PROTO_WRONG
static const char *hs_names[HS_NDEFECTS] = { "none", "accept-wrong", "accept-missing", "accept-for-another-key", "accept-truncated", "status-200", "status-400", "status-404", "status-503",
	"upgrade-missing", "upgrade-not-websocket", "connection-missing", "connection-not-upgrade", "subprotocol-missing", "subprotocol-wrong",
	"key-missing", "key-too-short", "key-too-long", "version-missing", "version-8", "version-14", "upgrade-missing", "upgrade-not-websocket",
	"connection-missing", "connection-not-upgrade", "method-post", "http-1.0", "subprotocol-missing", "subprotocol-wrong",
	"near-miss-connection-noupgrade", "near-miss-connection-upgrades", "near-miss-upgrade-websocket2", "near-miss-upgrade-xwebsocket", "near-miss-subprotocol-suffix", "near-miss-subprotocol-prefix" };

#define DEFLT ((size_t) -1)
#define MAXLOG 512

typedef struct {
	wscfg              cfg;
	nng_stream_dialer *sd;
	nng_stream        *st;
	nng_socket         sock;
	nng_listener       pl;
	nng_dialer         pd;
	bool               sock_open;
	nng_aio           *rx_aio, *tx_aio, *conn_aio;
	uint8_t           *rxbuf;
	uint8_t           *rxv[4]; // scatter receive: buffers of their own (an overrun of one is an ASan report)
	size_t             rxvl[4];
	int                rxn;
	const char        *emit_ctx; // appended to the key of violations in the emitted stream (NULL: nothing)
	rpeer              raw;
	size_t             hs_in; // handshake bytes nng had to read
	int                hs_status; // status nng answered a (defective) upgrade request with
	int                hs_rv;     // result of the accept / dial aio
	// delivered log (protected by mtx)
	pthread_mutex_t mtx;
	bb              got;
	size_t          bound[MAXLOG];
	int             nmsg;
	int             rx_err;
	bool            rx_stopped, closing, no_emit;
	// strict decoder for everything nng emits after the handshake
	wsdec emit;
	// effective limits of the nng side
	size_t eff_maxframe, eff_recvmax, eff_fragsize;
	char   desc[160];
} wsep;

static nng_stream_listener *g_sl;
static int                  g_sl_port;

static void
globals_up(void)
{
	int rv;
	// (a kernel short of ephemeral ports can hand out one that cannot be
	// listened on; that is the machine's state, not nng's: retry)
	for (int attempt = 0;; attempt++) {
		if ((rv = nng_stream_listener_alloc(&g_sl, "ws://127.0.0.1:0/x")) != 0) vf_harness_fail("listener_alloc: %s", nng_strerror(rv));
		if ((rv = nng_stream_listener_listen(g_sl)) == 0) break;
		nng_stream_listener_free(g_sl);
		if (rv != NNG_EADDRINUSE || attempt >= 100) vf_harness_fail("listen: %s", nng_strerror(rv));
		vf_msleep(100);
	}
	if ((rv = nng_stream_listener_get_int(g_sl, NNG_OPT_BOUND_PORT, &g_sl_port)) != 0 || g_sl_port == 0) vf_harness_fail("bound port: %s", nng_strerror(rv));
}

static void
globals_down(void)
{
	nng_stream_listener_close(g_sl);
	nng_stream_listener_free(g_sl);
	g_sl = NULL;
}

static void ep_post_recv(wsep *e);

static void
rx_cb(void *arg)
{
	wsep *e  = arg;
	int   rv = nng_aio_result(e->rx_aio);
	pthread_mutex_lock(&e->mtx);
	if (rv != 0) {
		e->rx_err     = rv;
		e->rx_stopped = true;
		pthread_mutex_unlock(&e->mtx);
		return;
	}
	if (!e->cfg.msgmode && e->rxn > 1) {
		// gather: the count says how far the buffers were filled, in order
		size_t left = nng_aio_count(e->rx_aio);
		for (int i = 0; i < e->rxn && left > 0; i++) {
			size_t n = left < e->rxvl[i] ? left : e->rxvl[i];
			bb_add(&e->got, e->rxv[i], n);
			left -= n;
		}
		if (left > 0) vf_violation("C16/ws-api/recv-count", "%s: stream receive into %d buffers completed with count %zu, more than they hold", e->desc, e->rxn, nng_aio_count(e->rx_aio));
	} else if (!e->cfg.msgmode) {
		bb_add(&e->got, e->rxbuf, nng_aio_count(e->rx_aio));
	} else {
		nng_msg *m = nng_aio_get_msg(e->rx_aio);
		nng_aio_set_msg(e->rx_aio, NULL);
		if (m != NULL) {
			bb_add(&e->got, nng_msg_body(m), nng_msg_len(m));
			nng_msg_free(m);
		} else {
			e->rx_err = -99; // success without a message
		}
		if (e->nmsg < MAXLOG) e->bound[e->nmsg] = e->got.n;
		e->nmsg++;
	}
	bool stop = e->closing;
	if (stop) e->rx_stopped = true;
	pthread_mutex_unlock(&e->mtx);
	if (!stop) ep_post_recv(e);
}

static void
ep_post_recv(wsep *e)
{
	if (ROLE_IS_SP(e->cfg.role)) {
		nng_socket_recv(e->sock, e->rx_aio);
		return;
	}
	if (!e->cfg.msgmode && e->rxn > 1) {
		nng_iov iov[4];
		for (int i = 0; i < e->rxn; i++) {
			memset(e->rxv[i], 0xEE, e->rxvl[i]);
			iov[i].iov_buf = e->rxv[i];
			iov[i].iov_len = e->rxvl[i];
		}
		nng_aio_set_iov(e->rx_aio, (unsigned) e->rxn, iov);
	} else if (!e->cfg.msgmode) {
		nng_iov iov = { .iov_buf = e->rxbuf, .iov_len = e->cfg.rxbuf };
		nng_aio_set_iov(e->rx_aio, 1, &iov);
	}
	nng_stream_recv(e->st, e->rx_aio);
}

static void
hs_violation(wsep *e, const char *what, const char *detail)
{
	char key[96];
	snprintf(key, sizeof(key), "C16/ws-emit/handshake-%s", what);
	vf_violation(key, "%s: %s", e->desc, detail);
}

// header field name, lower case for the variant that spells them so
static const char *
hname(const wscfg *c, const char *name, char buf[40])
{
	if (c->hs_var != HV_LOWER_NAMES) return name;
	size_t i = 0;
	for (; name[i] != 0 && i < 39; i++) buf[i] = (char) tolower((unsigned char) name[i]);
	buf[i] = 0;
	return buf;
}

// values of the compared header fields for this connection's defect / variant
static const char *
hs_upgrade_value(const wscfg *c)
{
	int df = c->hs_defect;
	if (df == HL_UPGRADE_WRONG || df == HD_UPGRADE_WRONG) return "h2c";
	if (df == HX_UPGRADE_SUFFIX) return "websocket2";
	if (df == HX_UPGRADE_PREFIX) return "xwebsocket";
	return c->hs_var == HV_UPGRADE_CASE ? "WebSocket" : "websocket";
}

static const char *
hs_connection_value(const wscfg *c)
{
	int df = c->hs_defect;
	if (df == HL_CONN_WRONG || df == HD_CONN_WRONG) return "keep-alive";
	if (df == HX_CONN_NOUPGRADE) return "noupgrade";
	if (df == HX_CONN_UPGRADES) return "keep-alive, upgrades";
	switch (c->hs_var) {
	case HV_CONN_LIST: return "keep-alive, Upgrade";
	case HV_CONN_LIST_NOSPACE: return "keep-alive,Upgrade";
	case HV_CONN_UPGRADE_FIRST: return "Upgrade, keep-alive";
	case HV_LOWER_NAMES: return "upgrade";
	default: return "Upgrade";
	}
}

static const char *
hs_proto_value(const wsep *e, bool request, char buf[96])
{
	int df = e->cfg.hs_defect;
	if (df == HL_PROTO_WRONG || df == HD_PROTO_WRONG) return "rep.sp.nanomsg.org";
	if (df == HX_PROTO_SUFFIX) snprintf(buf, 96, "%sx", SP_PROTO(e));
	else if (df == HX_PROTO_PREFIX) snprintf(buf, 96, "%.*s", (int) strlen(SP_PROTO(e)) - 1, SP_PROTO(e));
	else if (request && e->cfg.hs_var == HV_MULTI_PROTO_OR_REASON) snprintf(buf, 96, "x-unknown.example, %s", SP_PROTO(e));
	else snprintf(buf, 96, "%s", SP_PROTO(e));
	return buf;
}


// raw peer acts as the client: send the upgrade request, check the response
static bool
handshake_as_client(wsep *e, int port)
{
	uint8_t rnd[16];
	char    key[32], want[32], line[128];
	hmsg    m;
	bb      rq = { 0 };
	vf_fill(rnd, sizeof(rnd), vf_now_ns());
	b64enc(rnd, 16, key);
	ws_accept_for(key, want);
	int         df = e->cfg.hs_defect, hv = e->cfg.hs_var;
	char        nb[40], pb[96];
	const char *ows = hv == HV_OWS ? "  " : ""; // optional whitespace around the field values
	bb_printf(&rq, "%s /x HTTP/1.%d\r\n%s: 127.0.0.1:%d\r\n", df == HL_METHOD_POST ? "POST" : "GET", df == HL_HTTP10 ? 0 : 1, hname(&e->cfg, "Host", nb), port);
	if (hv == HV_EXTRA_HEADERS) bb_str(&rq, "Origin: http://example.test\r\nUser-Agent: raw-peer/1.0 (strict)\r\nSec-WebSocket-Extensions: permessage-deflate; client_max_window_bits\r\n");
	if (df != HL_UPGRADE_MISSING) bb_printf(&rq, "%s: %s%s%s\r\n", hname(&e->cfg, "Upgrade", nb), ows, hs_upgrade_value(&e->cfg), ows);
	if (df != HL_CONN_MISSING) bb_printf(&rq, "%s: %s%s%s\r\n", hname(&e->cfg, "Connection", nb), ows, hs_connection_value(&e->cfg), ows);
	if (df == HL_KEY_SHORT) bb_printf(&rq, "Sec-WebSocket-Key: %.20s\r\n", key);
	else if (df == HL_KEY_LONG) bb_printf(&rq, "Sec-WebSocket-Key: %.22sAAAA==\r\n", key);
	else if (df != HL_KEY_MISSING) bb_printf(&rq, "%s: %s%s%s\r\n", hname(&e->cfg, "Sec-WebSocket-Key", nb), ows, key, ows);
	if (df != HL_VERSION_MISSING) bb_printf(&rq, "%s: %s%s%s\r\n", hname(&e->cfg, "Sec-WebSocket-Version", nb), ows, df == HL_VERSION_8 ? "8" : df == HL_VERSION_14 ? "14" : "13", ows);
	if (df == HL_METHOD_POST) bb_str(&rq, "Content-Length: 0\r\n");
	if (ROLE_IS_SP(e->cfg.role) && df != HL_PROTO_MISSING) bb_printf(&rq, "%s: %s%s%s\r\n", hname(&e->cfg, "Sec-WebSocket-Protocol", nb), ows, hs_proto_value(e, true, pb), ows);
	if (hv == HV_EXTRA_HEADERS) bb_str(&rq, "Cache-Control: no-cache\r\nPragma: no-cache\r\nCookie: a=b; c=d\r\n");
	bb_str(&rq, "\r\n");
	e->hs_in = rq.n;
	vf_fd_write_all(e->raw.fd, rq.p, rq.n, 5000);
	bb_free(&rq);
	for (;;) {
		int r = parse_head(e->raw.in.p, e->raw.in.n, false, &m);
		if (r < 0) {
			hs_violation(e, "response-malformed", m.err);
			return false;
		}
		if (r == 1) break;
		int f = rp_fill(&e->raw, 10000);
		if (f <= 0) {
			if (df != HS_NONE && f == 0) return false; // refusing by closing is a verdict too
			// (a spelling variant may be refused - the property does not say which
			// valid spellings are understood; the caller records the outcome)
			if (hv != HV_NONE && f == 0) return false;
			vf_violation("C16/ws-handshake/no-response", "%s: upgrade request not answered (%s)%s%s", e->desc, f == 0 ? "connection closed" : "timeout", hv != HV_NONE ? ", spelling variant " : "", hv != HV_NONE ? hv_name(e->cfg.role, hv) : "");
			return false;
		}
	}
	e->raw.pos   = m.head_len;
	e->hs_status = m.status;
	if (df != HS_NONE) return m.status == 101; // judged by the caller
	if (m.status != 101) {
		if (hv != HV_NONE) return false; // recorded by the caller, not a verdict
		snprintf(line, sizeof(line), "status %d %.60s to a valid upgrade request", m.status, m.reason);
		vf_violation("C16/ws-handshake/refused", "%s: %s", e->desc, line);
		return false;
	}
	if (hmsg_get(&m, "Sec-WebSocket-Extensions") != NULL) hs_violation(e, "extension-not-supported-but-accepted", hmsg_get(&m, "Sec-WebSocket-Extensions"));
	const char *v;
	if ((v = hmsg_get(&m, "Upgrade")) == NULL || strcasecmp(v, "websocket") != 0) hs_violation(e, "upgrade-header", v ? v : "(missing)");
	if ((v = hmsg_get(&m, "Connection")) == NULL || !has_token(v, "upgrade")) hs_violation(e, "connection-header", v ? v : "(missing)");
	if ((v = hmsg_get(&m, "Sec-WebSocket-Accept")) == NULL || strcmp(v, want) != 0) {
		snprintf(line, sizeof(line), "Sec-WebSocket-Accept '%s' for key '%s', expected '%s'", v ? v : "(missing)", key, want);
		hs_violation(e, "accept-value", line);
	}
	v = hmsg_get(&m, "Sec-WebSocket-Protocol");
	if (ROLE_IS_SP(e->cfg.role)) {
		if (v == NULL || strcmp(v, SP_PROTO(e)) != 0) hs_violation(e, "subprotocol", v ? v : "(missing)");
	} else if (v != NULL) {
		hs_violation(e, "subprotocol-not-requested", v);
	}
	vf_stat("ws_handshakes_checked", 1);
	return true;
}

// raw peer acts as the server: strictly parse nng's upgrade request, answer
// (optionally with 'extra' frame bytes in the same write)
static bool
handshake_as_server(wsep *e, const bb *extra)
{
	hmsg    m;
	char    acc[32], line[200];
	uint8_t rnd[32];
	bb      rs = { 0 };
	for (;;) {
		int r = parse_head(e->raw.in.p, e->raw.in.n, true, &m);
		if (r < 0) {
			hs_violation(e, "request-malformed", m.err);
			return false;
		}
		if (r == 1) break;
		int f = rp_fill(&e->raw, 10000);
		if (f <= 0) {
			vf_violation("C16/ws-handshake/no-request", "%s: dialer sent no complete upgrade request (%s)", e->desc, f == 0 ? "connection closed" : "timeout");
			return false;
		}
	}
	e->raw.pos = m.head_len;
	if (e->raw.in.n != m.head_len) hs_violation(e, "request-trailing-bytes", "bytes after the upgrade request before the server answered");
	const char *v;
	if (strcmp(m.method, "GET") || strcmp(m.target, "/x") || strcmp(m.version, "HTTP/1.1")) {
		snprintf(line, sizeof(line), "request line '%.20s %.100s %.12s'", m.method, m.target, m.version);
		hs_violation(e, "request-line", line);
	}
	if ((v = hmsg_get(&m, "Host")) == NULL || *v == 0) hs_violation(e, "host-header", "(missing)");
	if ((v = hmsg_get(&m, "Upgrade")) == NULL || !has_token(v, "websocket")) hs_violation(e, "upgrade-header", v ? v : "(missing)");
	if ((v = hmsg_get(&m, "Connection")) == NULL || !has_token(v, "upgrade")) hs_violation(e, "connection-header", v ? v : "(missing)");
	if ((v = hmsg_get(&m, "Sec-WebSocket-Version")) == NULL || strcmp(v, "13") != 0) hs_violation(e, "version-header", v ? v : "(missing)");
	const char *key = hmsg_get(&m, "Sec-WebSocket-Key");
	if (key == NULL || strlen(key) != 24 || b64dec(key, rnd, sizeof(rnd)) != 16) {
		hs_violation(e, "key-header", key ? key : "(missing)");
		return false;
	}
	v = hmsg_get(&m, "Sec-WebSocket-Protocol");
	if (ROLE_IS_SP(e->cfg.role)) {
		if (v == NULL || !has_token(v, SP_PROTO(e))) hs_violation(e, "subprotocol", v ? v : "(missing)");
	} else if (v != NULL) {
		hs_violation(e, "subprotocol-unexpected", v);
	}
	int         df = e->cfg.hs_defect, hv = e->cfg.hs_var;
	char        nb[40], pb[96];
	const char *ows = hv == HV_OWS ? "  " : "";
	ws_accept_for(df == HD_ACCEPT_OTHER_KEY ? "dGhlIHNhbXBsZSBub25jZQ==" : key, acc);
	if (df == HD_ACCEPT_WRONG) acc[5] = acc[5] == 'A' ? 'B' : 'A';
	if (df == HD_ACCEPT_TRUNCATED) acc[27] = 0;
	switch (df) {
	case HD_STATUS_200: bb_str(&rs, "HTTP/1.1 200 OK\r\n"); break;
	case HD_STATUS_400: bb_str(&rs, "HTTP/1.1 400 Bad Request\r\n"); break;
	case HD_STATUS_404: bb_str(&rs, "HTTP/1.1 404 Not Found\r\n"); break;
	case HD_STATUS_503: bb_str(&rs, "HTTP/1.1 503 Service Unavailable\r\n"); break;
	default: bb_printf(&rs, "HTTP/1.1 101 %s\r\n", hv == HV_MULTI_PROTO_OR_REASON ? "Web Socket Protocol Handshake" : "Switching Protocols"); break;
	}
	if (hv == HV_EXTRA_HEADERS) bb_str(&rs, "Server: raw-peer/1.0\r\nDate: Thu, 24 Sep 2026 10:00:00 GMT\r\n");
	if (df != HD_UPGRADE_MISSING) bb_printf(&rs, "%s: %s%s%s\r\n", hname(&e->cfg, "Upgrade", nb), ows, hs_upgrade_value(&e->cfg), ows);
	if (df != HD_CONN_MISSING) bb_printf(&rs, "%s: %s%s%s\r\n", hname(&e->cfg, "Connection", nb), ows, hs_connection_value(&e->cfg), ows);
	if (df != HD_ACCEPT_MISSING) bb_printf(&rs, "%s: %s%s%s\r\n", hname(&e->cfg, "Sec-WebSocket-Accept", nb), ows, acc, ows);
	if (ROLE_IS_SP(e->cfg.role) && df != HD_PROTO_MISSING) bb_printf(&rs, "%s: %s%s%s\r\n", hname(&e->cfg, "Sec-WebSocket-Protocol", nb), ows, hs_proto_value(e, false, pb), ows);
	if (hv == HV_EXTRA_HEADERS) bb_str(&rs, "X-Frame-Options: deny\r\nVary: Origin\r\n");
	bb_str(&rs, "\r\n");
	e->hs_in = rs.n;
	if (extra != NULL) bb_add(&rs, extra->p, extra->n);
	vf_fd_write_all(e->raw.fd, rs.p, rs.n, 5000);
	bb_free(&rs);
	vf_stat("ws_handshakes_checked", 1);
	return true;
}

static void
ep_describe(wsep *e)
{
	const wscfg *c = &e->cfg;
	snprintf(e->desc, sizeof(e->desc), "%s%s/%s maxframe=%ld recvmax=%ld fragsize=%ld%s%s", role_names[c->role], ROLE_IS_SP(c->role) ? (c->sp1 ? "(pair1)" : "(pair0)") : "", c->msgmode ? "msg" : "stream",
	    c->maxframe == DEFLT ? -1L : (long) c->maxframe, c->recvmax == DEFLT ? -1L : (long) c->recvmax, c->fragsize == DEFLT ? -1L : (long) c->fragsize,
	    c->recv_text ? " recv-text" : "", c->send_text ? " send-text" : "");
}

#define CK(x) do { int rv_ = (x); if (rv_ != 0) vf_harness_fail("%s: %s", #x, nng_strerror(rv_)); } while (0)

// Open a connection in the configured role.  'extra' (dialer roles only) is
// sent by the raw server in the same write as its 101 response.
static bool
ep_open(wsep *e, const wscfg *cfg, const bb *extra)
{
	char     url[64];
	int      lfd   = -1;
	uint16_t lport = 0;
	memset(e, 0, sizeof(*e));
	e->cfg    = *cfg;
	e->raw.fd = -1;
	if (ROLE_IS_SP(cfg->role)) e->cfg.msgmode = true;
	pthread_mutex_init(&e->mtx, NULL);
	CK(nng_aio_alloc(&e->rx_aio, rx_cb, e));
	CK(nng_aio_alloc(&e->tx_aio, NULL, NULL));
	CK(nng_aio_alloc(&e->conn_aio, NULL, NULL));
	nng_aio_set_timeout(e->conn_aio, 30000);
	nng_aio_set_timeout(e->tx_aio, 10000);
	e->rxbuf = malloc(cfg->rxbuf ? cfg->rxbuf : 1);
	if (!e->cfg.msgmode && cfg->rx_niov > 1 && cfg->rxbuf >= 2) {
		// 1, 7, 2, rest bytes (every buffer at least one byte, together cfg->rxbuf)
		static const size_t want[4] = { 1, 7, 2, 0 };
		size_t left = cfg->rxbuf;
		e->rxn = cfg->rx_niov > 4 ? 4 : cfg->rx_niov;
		if ((size_t) e->rxn > left) e->rxn = (int) left;
		for (int i = 0; i < e->rxn; i++) {
			size_t l = i == e->rxn - 1 ? left : want[i];
			if (l > left - (size_t) (e->rxn - 1 - i)) l = left - (size_t) (e->rxn - 1 - i);
			e->rxv[i]  = malloc(l);
			e->rxvl[i] = l;
			left -= l;
		}
	}
	ep_describe(e);
	e->eff_maxframe = cfg->maxframe == DEFLT ? (1u << 20) : cfg->maxframe;
	e->eff_recvmax  = cfg->recvmax == DEFLT ? (1u << 20) : cfg->recvmax;
	e->eff_fragsize = cfg->fragsize == DEFLT ? (1u << 16) : cfg->fragsize;
	wsdec_init(&e->emit, !ROLE_IS_SERVER(cfg->role), e->cfg.msgmode, 0, 0, true);

	if (cfg->hs_plan == 1) vf_io_plan(VF_IO_DRIBBLE, 3, VF_IO_DRIBBLE, 1, 1);
	if (cfg->hs_plan == 2) vf_io_plan(VF_IO_RANDOM, 40, VF_IO_RANDOM, 9, vf_now_ns());
	bool ok = false;
	if (!ROLE_IS_SERVER(cfg->role)) {
		// a listener of its own: a redial after this connection must be
		// refused instead of queueing up for the next case
		for (int attempt = 0; (lfd = vf_tcp_listen(&lport)) < 0; attempt++) {
			if (attempt >= 100) vf_harness_fail("raw listen");
			lport = 0;
			vf_msleep(100);
		}
	}
	switch (cfg->role) {
	case R_SL:
		CK(nng_stream_listener_set_bool(g_sl, "ws:msgmode", cfg->msgmode));
		CK(nng_stream_listener_set_size(g_sl, NNG_OPT_WS_RECVMAXFRAME, e->eff_maxframe));
		CK(nng_stream_listener_set_size(g_sl, NNG_OPT_RECVMAXSZ, e->eff_recvmax));
		CK(nng_stream_listener_set_size(g_sl, NNG_OPT_WS_SENDMAXFRAME, e->eff_fragsize));
		CK(nng_stream_listener_set_bool(g_sl, NNG_OPT_WS_RECV_TEXT, cfg->recv_text));
		CK(nng_stream_listener_set_bool(g_sl, NNG_OPT_WS_SEND_TEXT, cfg->send_text));
		nng_stream_listener_accept(g_sl, e->conn_aio);
		if ((e->raw.fd = vf_tcp_connect((uint16_t) g_sl_port, 5000)) < 0) vf_harness_fail("raw connect");
		ok = handshake_as_client(e, g_sl_port);
		if (!ok) nng_aio_cancel(e->conn_aio);
		nng_aio_wait(e->conn_aio);
		e->hs_rv = nng_aio_result(e->conn_aio);
		if (ok && cfg->hs_defect == HS_NONE && nng_aio_result(e->conn_aio) != 0) {
			vf_violation("C16/ws-handshake/accept-failed", "%s: upgrade answered with 101 but accept failed: %s", e->desc, nng_strerror(nng_aio_result(e->conn_aio)));
			ok = false;
		}
		if (nng_aio_result(e->conn_aio) == 0) e->st = nng_aio_get_output(e->conn_aio, 0);
		if (cfg->hs_defect != HS_NONE) ok = e->st != NULL;
		break;
	case R_SD:
		snprintf(url, sizeof(url), "ws://127.0.0.1:%u/x", lport);
		CK(nng_stream_dialer_alloc(&e->sd, url));
		CK(nng_stream_dialer_set_bool(e->sd, "ws:msgmode", cfg->msgmode));
		if (cfg->maxframe != DEFLT) CK(nng_stream_dialer_set_size(e->sd, NNG_OPT_WS_RECVMAXFRAME, cfg->maxframe));
		if (cfg->recvmax != DEFLT) CK(nng_stream_dialer_set_size(e->sd, NNG_OPT_RECVMAXSZ, cfg->recvmax));
		if (cfg->fragsize != DEFLT) CK(nng_stream_dialer_set_size(e->sd, NNG_OPT_WS_SENDMAXFRAME, cfg->fragsize));
		CK(nng_stream_dialer_set_bool(e->sd, NNG_OPT_WS_RECV_TEXT, cfg->recv_text));
		CK(nng_stream_dialer_set_bool(e->sd, NNG_OPT_WS_SEND_TEXT, cfg->send_text));
		nng_stream_dialer_dial(e->sd, e->conn_aio);
		if ((e->raw.fd = vf_tcp_accept(lfd, 5000)) < 0) vf_harness_fail("raw accept (stream dialer)");
		close(lfd);
		lfd = -1;
		ok = handshake_as_server(e, extra);
		if (!ok) nng_aio_cancel(e->conn_aio);
		nng_aio_wait(e->conn_aio);
		e->hs_rv = nng_aio_result(e->conn_aio);
		if (ok && cfg->hs_defect == HS_NONE && nng_aio_result(e->conn_aio) != 0) {
			// (a spelling variant may be refused: recorded by the caller; a dial
			// that only timed out is no verdict either way)
			if (cfg->hs_var == HV_NONE || nng_aio_result(e->conn_aio) == NNG_ETIMEDOUT)
				vf_violation("C16/ws-handshake/dial-failed", "%s: correct 101 response%s%s %s: %s", e->desc, cfg->hs_var != HV_NONE ? ", spelling variant " : "", cfg->hs_var != HV_NONE ? hv_name(cfg->role, cfg->hs_var) : "",
				    cfg->hs_var != HV_NONE ? "neither accepted nor refused by the dialer" : "refused by the dialer", nng_strerror(nng_aio_result(e->conn_aio)));
			ok = false;
		}
		if (nng_aio_result(e->conn_aio) == 0) e->st = nng_aio_get_output(e->conn_aio, 0);
		if (cfg->hs_defect != HS_NONE) ok = e->st != NULL;
		break;
	case R_PL: {
		int port = 0;
		CK(cfg->sp1 ? nng_pair1_open(&e->sock) : nng_pair0_open(&e->sock));
		e->sock_open = true;
		CK(nng_socket_set_ms(e->sock, NNG_OPT_SENDTIMEO, 10000));
		for (int attempt = 0;; attempt++) {
			CK(nng_listener_create(&e->pl, e->sock, "ws://127.0.0.1:0/x"));
			if (cfg->maxframe != DEFLT) CK(nng_listener_set_size(e->pl, NNG_OPT_WS_RECVMAXFRAME, cfg->maxframe));
			if (cfg->recvmax != DEFLT) CK(nng_listener_set_size(e->pl, NNG_OPT_RECVMAXSZ, cfg->recvmax));
			if (cfg->fragsize != DEFLT) CK(nng_listener_set_size(e->pl, NNG_OPT_WS_SENDMAXFRAME, cfg->fragsize));
			int lrv = nng_listener_start(e->pl, 0);
			if (lrv == 0) break;
			nng_listener_close(e->pl);
			if (lrv != NNG_EADDRINUSE || attempt >= 100) vf_harness_fail("nng_listener_start: %s", nng_strerror(lrv));
			vf_msleep(100);
		}
		CK(nng_listener_get_int(e->pl, NNG_OPT_BOUND_PORT, &port));
		if ((e->raw.fd = vf_tcp_connect((uint16_t) port, 5000)) < 0) vf_harness_fail("raw connect (sp)");
		ok = handshake_as_client(e, port);
		break;
	}
	case R_PD:
		snprintf(url, sizeof(url), "ws://127.0.0.1:%u/x", lport);
		CK(cfg->sp1 ? nng_pair1_open(&e->sock) : nng_pair0_open(&e->sock));
		e->sock_open = true;
		CK(nng_socket_set_ms(e->sock, NNG_OPT_SENDTIMEO, 10000));
		CK(nng_socket_set_ms(e->sock, NNG_OPT_RECONNMINT, 5000));
		CK(nng_dialer_create(&e->pd, e->sock, url));
		if (cfg->maxframe != DEFLT) CK(nng_dialer_set_size(e->pd, NNG_OPT_WS_RECVMAXFRAME, cfg->maxframe));
		if (cfg->recvmax != DEFLT) CK(nng_dialer_set_size(e->pd, NNG_OPT_RECVMAXSZ, cfg->recvmax));
		if (cfg->fragsize != DEFLT) CK(nng_dialer_set_size(e->pd, NNG_OPT_WS_SENDMAXFRAME, cfg->fragsize));
		CK(nng_dialer_start(e->pd, NNG_FLAG_NONBLOCK));
		if ((e->raw.fd = vf_tcp_accept(lfd, 5000)) < 0) vf_harness_fail("raw accept (sp dialer)");
		close(lfd);
		lfd = -1;
		ok = handshake_as_server(e, extra);
		break;
	}
	if (ROLE_IS_SP(cfg->role)) {
		// SP defaults: the socket's RECVMAXSZ (1 MB) reaches the endpoint
		if (cfg->recvmax == DEFLT) e->eff_recvmax = 1u << 20;
	}
	vf_io_plan(VF_IO_FULL, 0, VF_IO_FULL, 0, 0);
	if (ok) ep_post_recv(e);
	e->no_emit = !ok || cfg->hs_defect != HS_NONE; // what follows a failed upgrade is not a frame stream
	return ok;
}

// wait until cond(e) under the lock or timeout
typedef bool (*ep_cond)(wsep *e, void *arg);
static bool
ep_wait(wsep *e, ep_cond c, void *arg, int timeout_ms)
{
	uint64_t end = vf_now_ns() + (uint64_t) timeout_ms * 1000000ULL;
	for (int spin = 0;; spin++) {
		pthread_mutex_lock(&e->mtx);
		bool ok = c(e, arg);
		pthread_mutex_unlock(&e->mtx);
		if (ok) return true;
		if (vf_now_ns() > end) return false;
		if (spin < 50) sched_yield(); else vf_usleep(100);
	}
}

static void
ep_log_reset(wsep *e)
{
	pthread_mutex_lock(&e->mtx);
	bb_reset(&e->got);
	e->nmsg = 0;
	pthread_mutex_unlock(&e->mtx);
}

// tear down the nng side; everything delivered until then is in the log
static void
ep_close(wsep *e)
{
	pthread_mutex_lock(&e->mtx);
	e->closing = true;
	pthread_mutex_unlock(&e->mtx);
	if (e->st != NULL) nng_stream_close(e->st);
	if (e->sock_open) nng_socket_close(e->sock);
	nng_aio_stop(e->rx_aio);
	nng_aio_stop(e->tx_aio);
	if (e->st != NULL) nng_stream_free(e->st);
	if (e->sd != NULL) {
		nng_stream_dialer_close(e->sd);
		nng_stream_dialer_free(e->sd);
	}
	nng_aio_free(e->rx_aio);
	nng_aio_free(e->tx_aio);
	nng_aio_free(e->conn_aio);
	e->st = NULL;
	e->sd = NULL;
	e->sock_open = false;
}

static void
ep_free(wsep *e)
{
	rp_close(&e->raw);
	bb_free(&e->got);
	wsdec_free(&e->emit);
	free(e->rxbuf);
	for (int i = 0; i < e->rxn; i++) free(e->rxv[i]);
	pthread_mutex_destroy(&e->mtx);
}

// Parse everything nng has emitted so far with the strict decoder; report
// rule violations in the emitted stream once.
static void
emit_pump(wsep *e)
{
	if (e->emit.viol != NULL || e->no_emit) return;
	// the decoder works on the frame stream: bytes after the handshake
	wsdec_feed(&e->emit, e->raw.in.p + e->raw.pos, e->raw.in.n - e->raw.pos);
	if (e->emit.viol != NULL) {
		char key[128];
		snprintf(key, sizeof(key), "C16/ws-emit/%s%s%s", e->emit.viol, e->emit_ctx ? "/" : "", e->emit_ctx ? e->emit_ctx : "");
		vf_violation(key, "%s: frame emitted by nng at stream offset %zu violates RFC 6455 (%s)%s%s", e->desc, e->emit.viol_at, e->emit.viol, e->emit_ctx ? " during " : "", e->emit_ctx ? e->emit_ctx : "");
	}
	if (e->emit.ctl_fragmented) {
		vf_violation("C16/ws-emit/fragmented-control-frame", "%s: nng emitted a control frame without FIN", e->desc);
		e->emit.ctl_fragmented = false;
	}
}

// ============================================================ stream generator
#define MAXMARK 256
typedef struct {
	size_t off[MAXMARK];
	int    n;
} marks;
static void
mark(marks *m, size_t o)
{
	if (m->n < MAXMARK) m->off[m->n++] = o;
}

static size_t g_ctl_max = 125; // largest control payload the configured RECVMAXFRAME admits
static bool   g_sp1;           // generated messages start with a pair1 hop header (00 00 00 01)

static uint32_t
gen_mask(vf_rng *r)
{
	switch (vf_below(r, 6)) {
	case 0: return 0;
	case 1: return 0xffffffffu;
	case 2: return 0x000000ffu;
	default: return (uint32_t) vf_rand(r);
	}
}

static void
gen_payload(vf_rng *r, uint8_t *p, size_t n)
{
	uint64_t k = vf_rand(r);
	vf_fill(p, n, k);
	// sprinkle bytes that look like frame headers
	for (size_t i = 0; i + 1 < n && i < 64; i += 7)
		if (vf_chance(r, 1, 3)) p[i] = (uint8_t) "\x81\x82\x88\x89\x8a\x00\x7e\x7f"[vf_below(r, 8)];
}

static void
gen_control(vf_rng *r, bb *w, marks *m, bool masked, int *npings)
{
	uint8_t pl[125];
	size_t  n  = vf_chance(r, 1, 6) ? 125 : vf_chance(r, 1, 3) ? 0 : vf_below(r, 40);
	int     op = vf_chance(r, 3, 4) ? OP_PING : OP_PONG;
	if (n > g_ctl_max) n = g_ctl_max;
	gen_payload(r, pl, n);
	mark(m, w->n);
	put_frame(w, true, 0, op, masked, gen_mask(r), pl, n, 0);
	if (op == OP_PING) (*npings)++;
}

static const size_t msg_sizes[] = { 0, 1, 2, 5, 20, 60, 124, 125, 126, 127, 128, 200, 1000, 4096, 65535, 65536, 65537, 70000, 200000 };
#define NMSG_SIZES ((int) (sizeof(msg_sizes) / sizeof(msg_sizes[0])))

// one valid message of 'total' bytes in 1..4 fragments with optional control
// frames between the fragments
static void
gen_message(vf_rng *r, bb *w, marks *m, bool masked, size_t total, int op, size_t maxframe, int ctl_permille, int *npings)
{
	if (g_sp1 && total < 4) total = 4;
	uint8_t *pl   = malloc(total ? total : 1);
	int      nfr  = total == 0 ? (vf_chance(r, 1, 4) ? 2 : 1) : (int) vf_range(r, 1, 4);
	size_t   cut[5];
	gen_payload(r, pl, total);
	if (g_sp1) memcpy(pl, "\0\0\0\1", 4);
	cut[0] = 0;
	for (int i = 1; i < nfr; i++) cut[i] = total ? vf_below(r, (uint32_t) total + 1) : 0;
	cut[nfr] = total;
	for (int i = 1; i < nfr; i++) // insertion sort
		for (int j = i; j > 0 && cut[j] < cut[j - 1]; j--) {
			size_t t = cut[j]; cut[j] = cut[j - 1]; cut[j - 1] = t;
		}
	// honour maxframe by adding fragments
	for (int i = 0; i < nfr;) {
		size_t a = cut[i], b = cut[i + 1];
		size_t fl = b - a;
		size_t off = a;
		do {
			size_t n = fl;
			if (maxframe > 0 && n > maxframe) n = maxframe;
			bool last = (i == nfr - 1) && (off + n == total);
			mark(m, w->n);
			put_frame(w, last, 0, off == 0 && i == 0 ? op : OP_CONT, masked, gen_mask(r), pl + off, n, 0);
			mark(m, w->n - n);
			off += n;
			fl -= n;
			if (!last && vf_chance(r, (uint32_t) ctl_permille, 1000)) gen_control(r, w, m, masked, npings);
		} while (fl > 0);
		i++;
	}
	free(pl);
}

typedef struct {
	bb     wire;
	marks  m;
	int    npings;
	size_t max_msg, max_frame;
} wstream;

static void
gen_valid_stream(vf_rng *r, const wscfg *c, wstream *s, bool small)
{
	bool masked = ROLE_IS_SERVER(c->role);
	int  nmsg   = (int) vf_range(r, 1, small ? 3 : 5);
	memset(s, 0, sizeof(*s));
	for (int i = 0; i < nmsg; i++) {
		size_t total;
		if (small) {
			total = vf_chance(r, 1, 5) ? msg_sizes[vf_below(r, 8)] : vf_below(r, 40);
		} else {
			total = vf_chance(r, 1, 2) ? msg_sizes[vf_below(r, NMSG_SIZES)] : vf_below(r, 3000);
		}
		if (c->msgmode && c->recvmax > 0 && total > c->recvmax) total = c->recvmax - vf_below(r, (uint32_t) (c->recvmax > 8 ? 3 : 1));
		// a message that fills the limit exactly (control frames in between
		// are not part of the message)
		bool tight = c->msgmode && c->recvmax > 0 && c->recvmax <= 5000 && vf_chance(r, 1, 4);
		if (tight) total = c->recvmax;
		int op = c->recv_text && vf_chance(r, 1, 2) ? OP_TEXT : OP_BIN;
		if (vf_chance(r, 1, 4)) gen_control(r, &s->wire, &s->m, masked, &s->npings);
		gen_message(r, &s->wire, &s->m, masked, total, op, c->maxframe, tight ? 700 : small ? 250 : 400, &s->npings);
		if (total > s->max_msg) s->max_msg = total;
	}
	if (vf_chance(r, 1, 5)) gen_control(r, &s->wire, &s->m, masked, &s->npings);
	mark(&s->m, s->wire.n);
}

// ================================================================ valid mode
static bool
cond_delivered(wsep *e, void *arg)
{
	wsdec *ref = arg;
	if (e->rx_stopped) return true;
	if (e->cfg.msgmode) return e->nmsg >= ref->nmsg;
	return e->got.n >= ref->data.n;
}

static int
cmp_lp(const void *a, const void *b)
{
	const uint8_t *x = *(const uint8_t *const *) a, *y = *(const uint8_t *const *) b;
	if (x[0] != y[0]) return (int) x[0] - (int) y[0];
	return memcmp(x + 1, y + 1, x[0]);
}

// multiset equality of two length-prefixed record lists
static bool
lp_same(const uint8_t *a, size_t an, const uint8_t *b, size_t bn)
{
	const uint8_t *ra[1024], *rb[1024];
	int            na = 0, nb = 0;
	for (size_t o = 0; o < an && na < 1024; o += 1 + a[o]) ra[na++] = a + o;
	for (size_t o = 0; o < bn && nb < 1024; o += 1 + b[o]) rb[nb++] = b + o;
	if (na != nb) return false;
	qsort(ra, (size_t) na, sizeof(ra[0]), cmp_lp);
	qsort(rb, (size_t) nb, sizeof(rb[0]), cmp_lp);
	for (int i = 0; i < na; i++)
		if (cmp_lp(&ra[i], &rb[i]) != 0) return false;
	return true;
}

enum { SEG_WHOLE = 0, SEG_CUT, SEG_DRIBBLE, SEG_RANDOM, SEG_PACED, SEG_WITH_HANDSHAKE };

static long ws_replays;

// replay stream s on the open connection under one segmentation and compare
// with the reference decode 'ref'
static bool
valid_replay(wsep *e, const wstream *s, const wsdec *ref, int seg, size_t a, size_t b2, uint64_t key, const char *plan)
{
	size_t pong0 = e->emit.pongs.n;
	int    npong0 = e->emit.npong;
	// (frames sent with the handshake may already have been delivered)
	if (seg != SEG_WITH_HANDSHAKE) ep_log_reset(e);
	switch (seg) {
	case SEG_CUT: vf_io_plan(VF_IO_FULL, 0, VF_IO_CUT_ONCE, (long) a, key); break;
	case SEG_DRIBBLE: vf_io_plan(VF_IO_DRIBBLE, 1, VF_IO_DRIBBLE, (long) a, key); break; // (PONGs dribble out too)
	case SEG_RANDOM: vf_io_plan(VF_IO_RANDOM, 5, VF_IO_RANDOM, (long) a, key); break;
	default: vf_io_plan(VF_IO_FULL, 0, VF_IO_FULL, 0, key); break;
	}
	if (seg == SEG_PACED) {
		size_t c1 = a, c2 = b2 > a ? b2 : a;
		vf_fd_write_all(e->raw.fd, s->wire.p, c1, 5000);
		vf_quiesce(1, 2000);
		if (c2 > c1) {
			vf_fd_write_all(e->raw.fd, s->wire.p + c1, c2 - c1, 5000);
			vf_quiesce(1, 2000);
		}
		vf_fd_write_all(e->raw.fd, s->wire.p + c2, s->wire.n - c2, 5000);
	} else if (seg != SEG_WITH_HANDSHAKE) {
		vf_fd_write_all(e->raw.fd, s->wire.p, s->wire.n, 5000);
	}
	// collect: messages at the application, PONGs at the raw peer.  The raw
	// peer must keep reading while waiting (PONGs could fill the socket).
	// Progress bound: "never arrives" is the verdict, not "slow".  After 10 s
	// without completion on a live connection the wait goes on to 120 s; only
	// data that is still missing then counts as lost (a stalled machine shows
	// up in ws_slow_replays instead).
	uint64_t t_start = vf_now_ns();
	uint64_t end = t_start + 120000000000ULL;
	bool     delivered = false, ponged = false, slow = false;
	while (vf_now_ns() < end) {
		if (!slow && vf_now_ns() - t_start > 10000000000ULL) {
			slow = true;
			vf_watchdog(300);
		}
		if (slow && (e->raw.eof || e->emit.nclose > 0)) break;
		if (!delivered) {
			pthread_mutex_lock(&e->mtx);
			delivered = cond_delivered(e, (void *) ref);
			pthread_mutex_unlock(&e->mtx);
		}
		if (!ponged) {
			emit_pump(e);
			ponged = e->emit.npong - npong0 >= s->npings || e->raw.eof;
		}
		if (delivered && ponged) break;
		if (!ponged) {
			rp_fill(&e->raw, 2);
		} else {
			vf_usleep(50);
		}
	}
	vf_io_plan(VF_IO_FULL, 0, VF_IO_FULL, 0, 0);
	ws_replays++;
	if (slow) {
		vf_stat("ws_slow_replays", 1);
		vf_watchdog(180);
	}
	bool ok = true;
	pthread_mutex_lock(&e->mtx);
	if (e->rx_stopped || !delivered) {
		bool        dead = e->rx_stopped || e->raw.eof || e->emit.nclose > 0;
		const char *key  = ref->ctl_over_max ? "C16/ws-valid-rejected/control-frame-counted-against-recvmaxsz" : dead ? "C16/ws-valid-rejected/connection-failed" : "C16/ws-segmentation/not-delivered";
		vf_violation(key, "%s: valid stream of %zu bytes, plan %s: %s after %d messages / %zu bytes were delivered (reference decoder: %d messages / %zu bytes)%s",
		    e->desc, s->wire.n, plan, dead ? (e->rx_stopped ? nng_strerror(e->rx_err) : "nng closed the connection") : "nothing more arrived within 120 s", e->nmsg, e->got.n, ref->nmsg, ref->data.n,
		    ref->ctl_over_max ? "; the stream has a control frame whose payload (plus the unfinished message around it) exceeds NNG_OPT_RECVMAXSZ, which limits messages" : "");
		ok = false;
	} else {
		bool same = e->got.n == ref->data.n && (e->got.n == 0 || memcmp(e->got.p, ref->data.p, e->got.n) == 0);
		if (e->cfg.msgmode) {
			same = same && e->nmsg == ref->nmsg;
			for (int i = 0; same && i < e->nmsg && i < MAXMSG; i++) same = e->bound[i] == ref->bound[i];
		}
		if (!same) {
			size_t o = 0;
			while (o < e->got.n && o < ref->data.n && e->got.p[o] == ref->data.p[o]) o++;
			vf_violation("C16/ws-segmentation/decode-differs", "%s: valid stream of %zu bytes, plan %s: delivered %d messages / %zu bytes, reference decoder %d messages / %zu bytes, first difference at byte %zu",
			    e->desc, s->wire.n, plan, e->nmsg, e->got.n, ref->nmsg, ref->data.n, o);
			ok = false;
		}
	}
	pthread_mutex_unlock(&e->mtx);
	if (ok && e->emit.npong - npong0 < s->npings) {
		if (e->raw.eof || e->emit.nclose > 0) {
			// the connection was failed while PINGs of a valid stream were outstanding
			vf_violation(ref->ctl_over_max ? "C16/ws-valid-rejected/control-frame-counted-against-recvmaxsz" : "C16/ws-valid-rejected/connection-failed",
			    "%s: valid stream of %zu bytes, plan %s: nng closed the connection with %d of %d PINGs unanswered%s", e->desc, s->wire.n, plan, s->npings - (e->emit.npong - npong0), s->npings,
			    ref->ctl_over_max ? "; the stream has a control frame whose payload (plus the unfinished message around it) exceeds NNG_OPT_RECVMAXSZ, which limits messages" : "");
		} else {
			vf_violation("C16/ws-emit/pong-missing", "%s: plan %s: %d PING frames sent, %d PONG frames received within 120 s", e->desc, plan, s->npings, e->emit.npong - npong0);
		}
		ok = false;
	}
	if (ok && !lp_same(e->emit.pongs.p + pong0, e->emit.pongs.n - pong0, ref->pings.p, ref->pings.n)) {
		vf_violation("C16/ws-emit/pong-payload", "%s: plan %s: PONG payloads are not the PING payloads", e->desc, plan);
		ok = false;
	}
	if (e->emit.viol != NULL) ok = false;
	return ok;
}

// --- transmit phase: the application sends, the raw peer parses strictly
static bool
tx_phase_inner(wsep *e, vf_rng *r, int nsend, bool big)
{
	// messages at the fragmentation / length-encoding boundaries of this
	// connection's SENDMAXFRAME come first
	size_t forced[4];
	int    nforced = 0;
	size_t hdr = e->cfg.sp1 ? 4 : 0; // pair1 puts its hop count in front (separate iov)
	if (e->eff_fragsize == 0 || e->eff_fragsize >= 65536) forced[nforced++] = 65536 - hdr + vf_below(r, 3);
	if (e->eff_fragsize >= 125 && e->eff_fragsize <= 65536) {
		forced[nforced++] = e->eff_fragsize - hdr;                        // exactly one full frame
		forced[nforced++] = e->eff_fragsize - hdr + 1 + vf_below(r, 200); // one byte (or a few) more
	}
	if (vf_chance(r, 1, 2)) nforced = nforced > 1 ? 1 + (int) vf_below(r, (uint32_t) nforced) : nforced;
	for (int i = 0; i < nsend + nforced; i++) {
		size_t n = vf_chance(r, 1, 2) ? msg_sizes[vf_below(r, (uint32_t) (big ? NMSG_SIZES : NMSG_SIZES - 3))] : vf_below(r, 2000);
		if (i < nforced) n = forced[i];
		if (e->eff_fragsize > 0 && e->eff_fragsize < 100 && n > 6000) n = 6000 + (n & 1023); // keep frame counts sane
		uint8_t *p = malloc(n + hdr + 1);
		vf_io_plan(VF_IO_FULL, 0, VF_IO_FULL, 0, 0);
		if (hdr) memcpy(p, "\0\0\0\1", 4);
		vf_fill(p + hdr, n, vf_rand(r));
		// shorten nng's own writes while it emits this message
		const char *wplan = "full";
		switch (vf_below(r, 5)) {
		case 0:
			if (n <= 4000) { vf_io_plan(VF_IO_DRIBBLE, (long) vf_range(r, 1, 3), VF_IO_FULL, 0, vf_rand(r)); wplan = "dribble"; }
			else { vf_io_plan(VF_IO_RANDOM, 3000, VF_IO_FULL, 0, vf_rand(r)); wplan = "random"; }
			break;
		case 1: vf_io_plan(VF_IO_RANDOM, (long) vf_range(r, 2, 9000), VF_IO_FULL, 0, vf_rand(r)); wplan = "random"; break;
		case 2: vf_io_plan(VF_IO_CUT_ONCE, (long) vf_range(r, 1, (uint32_t) (n + hdr + 20)), VF_IO_FULL, 0, vf_rand(r)); wplan = "cut-once"; break;
		default: break;
		}
		long short0 = vf_io_short_sends();
		long le0[3] = { e->emit.n_lenenc[0], e->emit.n_lenenc[1], e->emit.n_lenenc[2] };
		int    nmsg0  = e->emit.nmsg;
		size_t data0  = e->emit.data.n;
		long   fr0    = e->emit.ndata_frames;
		e->emit.max_data_frame = 0;
		int rv = 0;
		size_t sent = 0;
		if (ROLE_IS_SP(e->cfg.role)) {
			nng_msg *m;
			CK(nng_msg_alloc(&m, n));
			if (n) memcpy(nng_msg_body(m), p + hdr, n);
			nng_aio_set_msg(e->tx_aio, m);
			nng_socket_send(e->sock, e->tx_aio);
			n += hdr; // on the wire (and in p) the hop header precedes the body
		} else if (e->cfg.msgmode) {
			nng_msg *m;
			CK(nng_msg_alloc(&m, n));
			if (n) memcpy(nng_msg_body(m), p, n);
			nng_aio_set_msg(e->tx_aio, m);
			nng_stream_send(e->st, e->tx_aio);
		}
		uint64_t end = vf_now_ns() + 10000000000ULL;
		bool     done = false;
		if (e->cfg.msgmode) {
			while (!done && vf_now_ns() < end) {
				emit_pump(e);
				if (e->emit.nmsg > nmsg0 || e->emit.viol || e->raw.eof) break;
				rp_fill(&e->raw, 100);
			}
			nng_aio_wait(e->tx_aio);
			rv = nng_aio_result(e->tx_aio);
			if (rv != 0) {
				nng_msg *m = nng_aio_get_msg(e->tx_aio);
				if (m) nng_msg_free(m);
				nng_aio_set_msg(e->tx_aio, NULL);
			}
			sent = n;
		} else {
			// stream mode: one frame per send call, partial counts
			if (n == 0) { free(p); continue; }
			while (sent < n && rv == 0 && vf_now_ns() < end) {
				nng_iov iov = { .iov_buf = p + sent, .iov_len = n - sent };
				nng_aio_set_iov(e->tx_aio, 1, &iov);
				nng_stream_send(e->st, e->tx_aio);
				size_t want = data0 + sent;
				while (vf_now_ns() < end) {
					emit_pump(e);
					if (e->emit.data.n > want || e->emit.viol || e->raw.eof) break;
					rp_fill(&e->raw, 100);
				}
				nng_aio_wait(e->tx_aio);
				rv = nng_aio_result(e->tx_aio);
				size_t c = nng_aio_count(e->tx_aio);
				if (rv == 0 && (c == 0 || c > n - sent)) {
					vf_violation("C16/ws-emit/stream-send-count", "%s: stream send of %zu bytes completed with count %zu", e->desc, n - sent, c);
					free(p);
					return false;
				}
				sent += c;
			}
			// all of it must have reached the peer
			while (vf_now_ns() < end && e->emit.data.n < data0 + sent && !e->raw.eof && !e->emit.viol) {
				rp_fill(&e->raw, 100);
				emit_pump(e);
			}
		}
		if (rv != 0) {
			vf_violation("C16/ws-emit/send-failed", "%s: sending %zu bytes on a healthy connection failed: %s", e->desc, n, nng_strerror(rv));
			free(p);
			return false;
		}
		if (e->emit.viol) {
			free(p);
			return false;
		}
		bool same;
		if (e->cfg.msgmode) {
			same = e->emit.nmsg == nmsg0 + 1 && e->emit.data.n - data0 == n && (n == 0 || memcmp(e->emit.data.p + data0, p, n) == 0);
		} else {
			same = e->emit.data.n - data0 == n && memcmp(e->emit.data.p + data0, p, n) == 0 && !e->emit.inmsg;
		}
		if (!same) {
			vf_violation("C16/ws-emit/payload-differs", "%s: application sent %zu bytes; the peer's strict decoder got %d message(s) / %zu bytes%s", e->desc, n, e->emit.nmsg - nmsg0, e->emit.data.n - data0, e->emit.inmsg ? " (message left unfinished)" : "");
			free(p);
			return false;
		}
		int want_op = e->cfg.send_text ? OP_TEXT : OP_BIN;
		if (e->cfg.msgmode && nmsg0 < MAXMSG && e->emit.msgops[nmsg0] != want_op) {
			vf_violation("C16/ws-emit/opcode", "%s: message sent with opcode %d, configured %s", e->desc, e->emit.msgops[nmsg0], want_op == OP_TEXT ? "text" : "binary");
		}
		if (e->eff_fragsize > 0 && e->emit.max_data_frame > e->eff_fragsize) {
			char key[96];
			snprintf(key, sizeof(key), "C16/ws-emit/frame-above-sendmaxframe/%s", role_names[e->cfg.role]);
			vf_violation(key, "%s: a %zu byte message was sent with a data frame of %zu bytes although NNG_OPT_WS_SENDMAXFRAME is %zu", e->desc, n, e->emit.max_data_frame, e->eff_fragsize);
			free(p);
			return false;
		}
		vf_stat("ws_tx_messages", 1);
		vf_stat("ws_tx_short_writes", vf_io_short_sends() - short0);
		if (vf_io_short_sends() > short0) vf_class("ws-tx-short-write/%s/%s/%s", ROLE_IS_SERVER(e->cfg.role) ? "server" : "client", e->cfg.msgmode ? "msg" : "stream", wplan);
		for (int k = 0; k < 3; k++)
			if (e->emit.n_lenenc[k] > le0[k]) vf_class("ws-tx-lenenc/%s/%s", ROLE_IS_SERVER(e->cfg.role) ? "server" : "client", k == 0 ? "7bit" : k == 1 ? "16bit" : "64bit");
		if (hdr && e->emit.ndata_frames - fr0 > 1) vf_stat("ws_tx_sp_header_fragmented", 1);
		vf_stat("ws_tx_frames", e->emit.ndata_frames - fr0);
		if (e->emit.ndata_frames - fr0 > 1) vf_stat("ws_tx_fragmented", 1);
		vf_class("ws-tx/%s/%s/frag=%zu/%s", role_names[e->cfg.role], e->cfg.msgmode ? "msg" : "stream", e->eff_fragsize, e->emit.ndata_frames - fr0 > 1 ? "fragmented" : n == 0 ? "empty" : "single");
		free(p);
	}
	return true;
}

static bool
tx_phase(wsep *e, vf_rng *r, int nsend, bool big)
{
	bool ok = tx_phase_inner(e, r, nsend, big);
	vf_io_plan(VF_IO_FULL, 0, VF_IO_FULL, 0, 0);
	return ok;
}

// --- closing handshake; returns after the raw peer saw EOF (or gave up)
static void
close_phase(wsep *e, vf_rng *r, bool healthy)
{
	bool raw_first = vf_chance(r, 1, 2);
	bool masked    = ROLE_IS_SERVER(e->cfg.role);
	// An SP socket completes a send when the pipe took the message, before
	// the transport finished writing it; closing in that window exercises
	// ownership on failed sends (C03), not the codec.  Let the write finish.
	if (ROLE_IS_SP(e->cfg.role)) vf_quiesce(1, 500);
	if (healthy && raw_first) {
		bb      w = { 0 };
		uint8_t code[2] = { 0x03, 0xe8 };
		// sometimes a burst of PINGs right in front of the CLOSE: the PONGs
		// are still queued when the CLOSE reply is written
		int burst = vf_chance(r, 1, 2) ? (int) vf_range(r, 2, 6) : 0;
		for (int i = 0; i < burst; i++) {
			uint8_t pp[8];
			vf_fill(pp, sizeof(pp), vf_rand(r));
			put_frame(&w, true, 0, OP_PING, masked, gen_mask(r), pp, g_ctl_max < 8 ? g_ctl_max : 8, 0);
		}
		if (burst) vf_stat("ws_close_behind_ping_burst", 1);
		put_frame(&w, true, 0, OP_CLOSE, masked, gen_mask(r), code, 2, 0);
		vf_fd_write_all(e->raw.fd, w.p, w.n, 2000);
		bb_free(&w);
		uint64_t end = vf_now_ns() + 30000000000ULL;
		while (!e->raw.eof && vf_now_ns() < end) {
			rp_fill(&e->raw, 100);
			emit_pump(e);
			if (e->emit.nclose) break;
		}
		if (e->emit.nclose == 0 && !e->raw.eof) {
			vf_violation("C16/ws-emit/close-not-answered", "%s: CLOSE frame sent by the peer was neither answered nor the connection closed within 30 s", e->desc);
		} else {
			vf_stat("ws_close_answered", 1);
		}
		ep_close(e);
	} else {
		ep_close(e);
		uint64_t end = vf_now_ns() + 3000000000ULL;
		bool     replied = false;
		while (!e->raw.eof && vf_now_ns() < end) {
			emit_pump(e);
			if (e->emit.nclose && !replied) {
				bb      w = { 0 };
				uint8_t code[2] = { 0x03, 0xe8 };
				put_frame(&w, true, 0, OP_CLOSE, masked, gen_mask(r), code, 2, 0);
				vf_fd_write_all(e->raw.fd, w.p, w.n, 2000);
				bb_free(&w);
				replied = true;
				vf_stat("ws_close_initiated_by_nng", 1);
			}
			rp_fill(&e->raw, 100);
		}
		emit_pump(e);
	}
	if (e->emit.nclose && e->emit.close_code != 0) {
		int c = e->emit.close_code;
		bool okc = (c >= 1000 && c <= 1011 && c != 1004 && c != 1005 && c != 1006) || (c >= 3000 && c <= 4999);
		if (!okc) vf_violation("C16/ws-emit/close-code", "%s: CLOSE frame with status code %d", e->desc, c);
	}
}

static void
gen_cfg(vf_rng *r, wscfg *c, bool small)
{
	static const size_t frags[] = { 1, 125, 126, 65535, 65536, 0, 1000 };
	memset(c, 0, sizeof(*c));
	c->role      = (int) vf_below(r, NROLES);
	c->msgmode   = ROLE_IS_SP(c->role) || vf_chance(r, 1, 2);
	c->maxframe  = vf_chance(r, 1, 3) ? 0 : vf_chance(r, 1, 2) ? (1u << 20) : (small ? vf_range(r, 20, 200) : vf_range(r, 126, 70000));
	c->recvmax   = vf_chance(r, 1, 3) ? 0 : vf_chance(r, 1, 2) ? (1u << 20) : (small ? vf_range(r, 30, 300) : vf_range(r, 1000, 300000));
	c->fragsize  = frags[vf_below(r, 7)];
	c->recv_text = !ROLE_IS_SP(c->role) && vf_chance(r, 1, 3);
	c->send_text = !ROLE_IS_SP(c->role) && vf_chance(r, 1, 3);
	c->rxbuf     = vf_chance(r, 1, 3) ? vf_range(r, 1, 9) : vf_chance(r, 1, 2) ? vf_range(r, 10, 300) : 70000;
	c->hs_plan   = vf_chance(r, 1, 4) ? (int) vf_range(r, 1, 2) : 0;
	c->sp1       = ROLE_IS_SP(c->role) && vf_chance(r, 1, 2);
}

static void
valid_case(long idx)
{
	vf_rng  r;
	wscfg   c;
	wstream s;
	wsdec   ref;
	wsep    e;
	char    plan[64];
	vf_rng_seed(&r, vf_seed, (uint64_t) idx);
	bool small = !vf_chance(&r, 1, 4);
	gen_cfg(&r, &c, small);
	{
		// (a stream of its own for later additions: the cases stay what they were)
		vf_rng r2;
		vf_rng_seed(&r2, vf_seed ^ 0xC16510FULL, (uint64_t) idx);
		if (!c.msgmode && c.rxbuf >= 2 && vf_chance(&r2, 1, 2)) c.rx_niov = (int) vf_range(&r2, 2, 4);
	}
	g_ctl_max = c.maxframe > 0 && c.maxframe < 125 ? c.maxframe : 125;
	g_sp1     = c.sp1;
	gen_valid_stream(&r, &c, &s, small);
	g_sp1 = false;
	// reference decode (this is the oracle for what must be delivered)
	wsdec_init(&ref, ROLE_IS_SERVER(c.role), c.msgmode, c.maxframe, c.recvmax, c.recv_text);
	ref.strip = c.sp1 ? 4 : 0; // pair1 consumes the hop count
	wsdec_feed(&ref, s.wire.p, s.wire.n);
	if (ref.viol != NULL || ref.consumed != s.wire.n || ref.inmsg) vf_harness_fail("generated stream is not valid for the reference decoder: %s at %zu (idx %ld)", ref.viol ? ref.viol : "incomplete", ref.viol_at, idx);
	vf_case_begin(idx, "ws valid %s/%s stream=%zu bytes %d msgs %d pings", role_names[c.role], c.msgmode ? "msg" : "stream", s.wire.n, ref.nmsg, s.npings);
	size_t   len = s.wire.n;
	uint64_t key = vf_rand(&r);
	long     n   = 0;
	bool     with_hs = !ROLE_IS_SERVER(c.role) && vf_chance(&r, 1, 2);
	bool     ok  = ep_open(&e, &c, with_hs ? &s.wire : NULL);
	if (ok) {
		ok = valid_replay(&e, &s, &ref, with_hs ? SEG_WITH_HANDSHAKE : SEG_WHOLE, 0, 0, key, with_hs ? "whole+in-handshake-write" : "whole");
		n++;
		if (with_hs) vf_stat("ws_frames_behind_handshake", 1);
	}
	if (ok && len >= 2) {
		if (len <= 300) {
			for (size_t k = 1; k < len && ok; k++) {
				snprintf(plan, sizeof(plan), "read-cut@%zu", k);
				ok = valid_replay(&e, &s, &ref, SEG_CUT, k, 0, key, plan);
				n++;
			}
			if (ok) vf_stat("ws_exhaustive_cut_streams", 1);
		} else {
			for (int i = 0; i < s.m.n && ok; i++) {
				for (int d = -1; d <= 1 && ok; d++) {
					long k = (long) s.m.off[i] + d;
					if (k < 1 || (size_t) k >= len) continue;
					snprintf(plan, sizeof(plan), "read-cut@%ld(frame-boundary)", k);
					ok = valid_replay(&e, &s, &ref, SEG_CUT, (size_t) k, 0, key, plan);
					n++;
				}
			}
			for (int i = 0; i < 12 && ok; i++) {
				size_t k = vf_range(&r, 1, (uint32_t) len - 1);
				snprintf(plan, sizeof(plan), "read-cut@%zu", k);
				ok = valid_replay(&e, &s, &ref, SEG_CUT, k, 0, key, plan);
				n++;
			}
		}
		if (ok && len <= 3000) {
			ok = valid_replay(&e, &s, &ref, SEG_DRIBBLE, 1, 0, key, "read-dribble1");
			n++;
			vf_stat("ws_dribble_streams", 1);
		}
		for (int i = 0; i < 2 && ok; i++) {
			long p = i == 0 ? (len > 20000 ? 4000 : 3) : 50;
			snprintf(plan, sizeof(plan), "read-random%ld", p);
			ok = valid_replay(&e, &s, &ref, SEG_RANDOM, (size_t) p, 0, key + (uint64_t) i, plan);
			n++;
		}
		for (int i = 0; i < 3 && ok; i++) {
			size_t a = vf_range(&r, 1, (uint32_t) len - 1);
			size_t b = vf_chance(&r, 1, 2) ? a : vf_range(&r, (uint32_t) a, (uint32_t) len - 1);
			if (i == 0 && s.m.n > 1) a = b = s.m.off[1 + vf_below(&r, (uint32_t) s.m.n - 1)] - (vf_chance(&r, 1, 2) ? 1 : 0);
			if (a < 1 || a >= len) a = b = 1;
			snprintf(plan, sizeof(plan), "paced-write@%zu,%zu", a, b);
			ok = valid_replay(&e, &s, &ref, SEG_PACED, a, b, key, plan);
			n++;
			vf_stat("ws_paced", 1);
		}
	}
	vf_stat("ws_replays", n);
	vf_stat("ws_rx_messages", n * ref.nmsg);
	if (ok) ok = tx_phase(&e, &r, (int) vf_range(&r, 1, 4), !small);
	close_phase(&e, &r, ok);
	if (c.sp1) vf_stat("ws_pair1_cases", 1);
	vf_class("ws-valid/%s%s/%s/%s%s%s%s", role_names[c.role], c.sp1 ? "(pair1)" : "", c.msgmode ? "msg" : "stream", len <= 300 ? "exhaustive-cuts" : "sampled-cuts", s.npings ? "/pings" : "", ref.ndata_frames > ref.nmsg ? "/fragmented" : "", with_hs ? "/behind-handshake" : "");
	if (e.rxn > 1) {
		vf_stat("ws_scatter_recv_cases", 1);
		vf_class("ws-valid-scatter/%s/iov=%d/%s", role_names[c.role], e.rxn, c.rxbuf <= 9 ? "tiny-buffers" : c.rxbuf <= 300 ? "small-buffers" : "large-buffer");
	}
	if ((idx % 37) == 0) vf_sample("{\"mode\":\"valid\",\"endpoint\":\"%s\",\"stream_bytes\":%zu,\"messages\":%d,\"data_frames\":%ld,\"pings\":%d,\"replays\":%ld}", e.desc, len, ref.nmsg, ref.ndata_frames, s.npings, n);
	ep_free(&e);
	wsdec_free(&ref);
	bb_free(&s.wire);
}

// ================================================================ conc mode
// Several nng_stream_send operations outstanding at once on a message mode
// connection (each message longer than NNG_OPT_WS_SENDMAXFRAME), while the
// raw peer sends PINGs: the emitted frame stream must stay well-formed (the
// fragments of one message are not interleaved with another message, RFC
// 6455 5.4; PONGs may sit between them), every message must arrive exactly as
// sent (any order), every PING must be answered with its payload.
//   CV_CANCEL      one of the sends is cancelled after some frames went out:
//                  the message is either emitted completely or not at all, or
//                  the connection is failed - the next message never starts
//                  inside an unfinished one
//   CV_PEER_CLOSE  the peer sends CLOSE while the sends are in progress: no
//                  data frame may follow nng's own CLOSE frame
enum { CV_PLAIN = 0, CV_CANCEL, CV_PEER_CLOSE };
static const char *cv_names[] = { "concurrent-sends", "cancelled-send", "peer-close-during-sends" };
#define NCONC 3
#define NCPING 200

// one emitted message [i] of the strict decoder's log
static const uint8_t *
emit_msg(const wsep *e, int i, size_t *len)
{
	size_t a = i > 0 ? e->emit.bound[i - 1] : 0;
	*len     = e->emit.bound[i] - a;
	return e->emit.data.p + a;
}

// returns true when the connection is still usable afterwards
static bool
conc_round(wsep *e, vf_rng *r, int variant, const char **outcome)
{
	int       k = (int) vf_range(r, 2, NCONC);
	nng_aio  *aio[NCONC];
	uint8_t  *pay[NCONC];
	size_t    len[NCONC], total = 0;
	int       res[NCONC];
	bool      seen[NCONC];
	size_t    fs     = e->eff_fragsize;
	bool      masked = ROLE_IS_SERVER(e->cfg.role);
	bb        want_pongs = { 0 };
	// PINGs: 1-3, one per turn of the loop below; the cancel variant keeps
	// sending them until it has cancelled (PONGs are queued in front of the
	// next fragment, which is where a cancellation finds it waiting)
	int       np = variant == CV_CANCEL ? NCPING : (int) vf_range(r, 1, 3);
	bool      healthy = true;
	*outcome = "ok";
	for (int i = 0; i < k; i++) {
		// longer than one frame whenever there is a frame limit
		size_t n;
		if (fs == 0) n = vf_range(r, 1, 3000);
		else if (fs < 100) n = fs * (variant == CV_CANCEL ? vf_range(r, 20, 120) : vf_range(r, 2, 40)) + vf_below(r, (uint32_t) fs);
		else if (fs <= 2000) n = fs * vf_range(r, 1, 3) + vf_range(r, 1, (uint32_t) fs);
		else n = fs + vf_range(r, 1, 3000);
		len[i] = n;
		pay[i] = malloc(n);
		vf_fill(pay[i], n, vf_rand(r));
		pay[i][0] = (uint8_t) ('A' + i);
		total += n;
		seen[i] = false;
		res[i]  = -1;
		CK(nng_aio_alloc(&aio[i], NULL, NULL));
		nng_aio_set_timeout(aio[i], NNG_DURATION_INFINITE); // (the loop below has the deadline)
	}
	// slow writes: the PINGs arrive while nng is emitting fragments
	const char *wplan = "full";
	switch (variant == CV_CANCEL ? 0 : vf_below(r, 4)) {
	case 0:
	case 1:
		if (total <= 8000) { vf_io_plan(VF_IO_DRIBBLE, (long) vf_range(r, 1, 3), VF_IO_FULL, 0, vf_rand(r)); wplan = "dribble"; }
		else { vf_io_plan(VF_IO_RANDOM, 3000, VF_IO_FULL, 0, vf_rand(r)); wplan = "random"; }
		break;
	case 2: vf_io_plan(VF_IO_RANDOM, (long) vf_range(r, 2, 2000), VF_IO_FULL, 0, vf_rand(r)); wplan = "random"; break;
	default: break;
	}
	(void) wplan;
	emit_pump(e);
	int    nmsg0  = e->emit.nmsg;
	int    npong0 = e->emit.npong;
	size_t pong0  = e->emit.pongs.n;
	long   ctl0   = e->emit.nctl_inmsg;
	long   fr0    = e->emit.ndata_frames;
	long   cancel_after = (long) vf_range(r, 1, 4);
	int    victim = (int) vf_below(r, (uint32_t) k);
	bool   victim_midway = false;
	(void) victim_midway;
	e->emit.max_data_frame = 0;
	e->emit_ctx = cv_names[variant];

	for (int i = 0; i < k; i++) {
		nng_msg *m;
		CK(nng_msg_alloc(&m, len[i]));
		memcpy(nng_msg_body(m), pay[i], len[i]);
		nng_aio_set_msg(aio[i], m);
		nng_stream_send(e->st, aio[i]);
	}
	uint64_t end = vf_now_ns() + 120000000000ULL;
	int      pj = 0;
	bool     acted = false, stalled = false;
	for (;;) {
		emit_pump(e);
		if (pj < np && !(variant == CV_CANCEL && acted)) {
			bb      w = { 0 };
			uint8_t pl[24];
			size_t  n = vf_below(r, 21);
			if (n > g_ctl_max) n = g_ctl_max;
			vf_fill(pl, n, vf_rand(r));
			put_frame(&w, true, 0, OP_PING, masked, gen_mask(r), pl, n, 0);
			lp_add(&want_pongs, pl, n);
			vf_fd_write_all(e->raw.fd, w.p, w.n, 5000);
			bb_free(&w);
			pj++;
		}
		bool alldone = true;
		for (int i = 0; i < k; i++)
			if (nng_aio_busy(aio[i])) alldone = false;
		bool due = alldone || e->emit.ndata_frames - fr0 >= cancel_after;
		if (!acted && ((variant == CV_CANCEL && (due || pj == np)) || (variant == CV_PEER_CLOSE && pj == np && due))) {
			if (variant == CV_CANCEL) {
				// the message that is on its way, if the peer can tell which
				if (e->emit.inmsg && e->emit.cur.n > 0 && e->emit.cur.p[0] >= 'A' && e->emit.cur.p[0] < 'A' + k) {
					victim        = e->emit.cur.p[0] - 'A';
					victim_midway = true;
					vf_stat("ws_tx_cancel_midway", 1);
				}
				nng_aio_cancel(aio[victim]);
			} else {
				bb      w = { 0 };
				uint8_t code[2] = { 0x03, 0xe8 };
				put_frame(&w, true, 0, OP_CLOSE, masked, gen_mask(r), code, 2, 0);
				vf_fd_write_all(e->raw.fd, w.p, w.n, 5000);
				bb_free(&w);
			}
			acted = true;
		}
		if (e->raw.eof || e->emit.viol != NULL) break;
		if (alldone) {
			if (variant == CV_PLAIN && e->emit.nmsg >= nmsg0 + k && e->emit.npong >= npong0 + np) break;
			if (variant == CV_CANCEL && acted) break;
		}
		if (variant == CV_PEER_CLOSE && acted && e->emit.nclose > 0) break;
		if (vf_now_ns() > end) {
			stalled = true;
			break;
		}
		rp_fill(&e->raw, 2);
	}
	vf_io_plan(VF_IO_FULL, 0, VF_IO_FULL, 0, 0);
	np = pj;
	// (an operation left behind by a connection that nng has closed is C02's
	// business: it is cancelled here, not judged)
	if (variant == CV_PEER_CLOSE && !stalled && e->emit.viol == NULL) {
		// the rest of what nng wrote, until it closes the connection (no verdict on that here)
		uint64_t dend = vf_now_ns() + 30000000000ULL;
		while (!e->raw.eof && vf_now_ns() < dend) rp_fill(&e->raw, 20);
	}
	for (int i = 0; i < k; i++) {
		if (nng_aio_busy(aio[i]) && (variant == CV_PEER_CLOSE || e->raw.eof || stalled || e->emit.viol != NULL)) nng_aio_cancel(aio[i]);
		nng_aio_wait(aio[i]);
		res[i] = nng_aio_result(aio[i]);
		if (res[i] != 0) {
			nng_msg *m = nng_aio_get_msg(aio[i]);
			if (m) nng_msg_free(m);
			nng_aio_set_msg(aio[i], NULL);
		}
	}
	if (variant == CV_CANCEL && e->raw.eof && e->emit.viol == NULL && !stalled) {
		// the cancelled send took the connection with it: allowed
		healthy  = false;
		*outcome = "connection-failed";
	}
	if (stalled && e->emit.viol == NULL) {
		vf_violation("C16/ws-emit/concurrent-sends-stalled", "%s: %s: %d sends of %zu bytes in all and %d PINGs: not completed after 120 s on a connection whose peer reads everything (%d messages, %d PONGs seen)", e->desc, cv_names[variant], k, total, np, e->emit.nmsg - nmsg0, e->emit.npong - npong0);
		healthy = false;
		*outcome = "STALLED";
	}
	if (e->emit.viol != NULL) {
		healthy = false;
		*outcome = "MALFORMED-STREAM";
	}
	// the cancelled case: one more message behind it; it must not start inside
	// an unfinished one (the strict decoder says so), and it is the barrier
	// that tells everything in front of it has been parsed
	bool    barrier_ok = false;
	uint8_t cmsg[64];
	size_t  clen = 1 + vf_below(r, sizeof(cmsg) - 1);
	vf_fill(cmsg, clen, vf_rand(r));
	cmsg[0] = 'Z';
	if (healthy && variant == CV_CANCEL && !e->raw.eof) {
		nng_msg *m;
		int      n0 = e->emit.nmsg;
		CK(nng_msg_alloc(&m, clen));
		memcpy(nng_msg_body(m), cmsg, clen);
		nng_aio_set_timeout(e->tx_aio, NNG_DURATION_INFINITE);
		nng_aio_set_msg(e->tx_aio, m);
		nng_stream_send(e->st, e->tx_aio);
		uint64_t cend = vf_now_ns() + 120000000000ULL;
		for (;;) {
			emit_pump(e);
			if (e->raw.eof || e->emit.viol != NULL) break;
			if (!nng_aio_busy(e->tx_aio)) {
				if (nng_aio_result(e->tx_aio) != 0) break;
				// sent: it must turn up as the last message
				size_t l;
				if (e->emit.nmsg > n0 && e->emit.nmsg <= MAXMSG) {
					const uint8_t *p = emit_msg(e, e->emit.nmsg - 1, &l);
					if (l == clen && memcmp(p, cmsg, l) == 0) barrier_ok = true;
				}
				// (a PING read after this send was queued is answered behind it)
				if (barrier_ok && e->emit.npong >= npong0 + np) break;
			}
			if (vf_now_ns() > cend) break;
			rp_fill(&e->raw, 2);
		}
		if (nng_aio_busy(e->tx_aio)) nng_aio_cancel(e->tx_aio);
		nng_aio_wait(e->tx_aio);
		if (nng_aio_result(e->tx_aio) != 0) {
			nng_msg *fm = nng_aio_get_msg(e->tx_aio);
			if (fm) nng_msg_free(fm);
			nng_aio_set_msg(e->tx_aio, NULL);
		}
		nng_aio_set_timeout(e->tx_aio, 10000);
		if (e->emit.viol != NULL) {
			healthy = false;
			*outcome = "MALFORMED-STREAM";
		} else if (!barrier_ok) {
			// the connection went down with the cancelled send (or the last
			// send failed): allowed, nothing more can be said about it
			healthy = false;
			*outcome = "connection-failed";
			if (!e->raw.eof && e->emit.nclose == 0 && nng_aio_result(e->tx_aio) == 0) {
				vf_violation("C16/ws-emit/payload-differs/cancelled-send", "%s: the message sent after a cancelled send completed but did not reach the peer within 120 s", e->desc);
				*outcome = "LOST";
			}
		}
	}
	if (variant == CV_PEER_CLOSE && e->emit.viol == NULL && !stalled) {
		// nng answers with CLOSE; whatever follows that frame must not be a data frame
		healthy = false;
		emit_pump(e);
		*outcome = e->emit.nclose ? "close-frame" : "eof";
		if (e->emit.nclose > 0) {
			size_t o = e->raw.pos + e->emit.consumed;
			while (o < e->raw.in.n) {
				fhdr   f;
				size_t hl = parse_fhdr(e->raw.in.p + o, e->raw.in.n - o, &f);
				if (hl == 0) break;
				if (f.op < 8) {
					vf_violation("C16/ws-emit/data-frame-after-close", "%s: nng emitted a data frame (opcode %d, %llu bytes) after its CLOSE frame", e->desc, f.op, (unsigned long long) f.len);
					*outcome = "DATA-AFTER-CLOSE";
					break;
				}
				if (f.len > e->raw.in.n - o - hl) break;
				o += hl + (size_t) f.len;
			}
		}
	}
	// what arrived: every message is one of those sent, at most once; complete
	// sends are all there (as long as the connection stood)
	if (e->emit.viol == NULL && !stalled) {
		int  nm = e->emit.nmsg - nmsg0 - (barrier_ok ? 1 : 0);
		bool bad = false;
		for (int j = 0; j < nm && nmsg0 + j < MAXMSG && !bad; j++) {
			size_t         l;
			const uint8_t *p = emit_msg(e, nmsg0 + j, &l);
			int            hit = -1;
			for (int i = 0; i < k; i++)
				if (!seen[i] && l == len[i] && memcmp(p, pay[i], l) == 0) hit = i;
			if (hit < 0) {
				vf_violation("C16/ws-emit/payload-differs/concurrent-sends", "%s: %s: message %d of %zu bytes received by the peer is none of the %d messages sent (or a duplicate)", e->desc, cv_names[variant], j, l, k);
				bad = true;
			} else {
				seen[hit] = true;
			}
		}
		bool alive = variant == CV_PLAIN || (variant == CV_CANCEL && barrier_ok);
		for (int i = 0; i < k && !bad && alive; i++) {
			if (res[i] == 0 && !seen[i]) {
				vf_violation("C16/ws-emit/payload-differs/concurrent-sends", "%s: %s: send %d of %zu bytes completed successfully but the message did not reach the peer", e->desc, cv_names[variant], i, len[i]);
				bad = true;
			}
			if (res[i] != 0 && variant == CV_PLAIN) {
				vf_violation("C16/ws-emit/send-failed/concurrent-sends", "%s: send %d of %d concurrent sends on a healthy connection failed: %s", e->desc, i, k, nng_strerror(res[i]));
				bad = true;
			}
		}
		if (!bad && fs > 0 && e->emit.max_data_frame > fs) {
			char key[96];
			snprintf(key, sizeof(key), "C16/ws-emit/frame-above-sendmaxframe/%s", role_names[e->cfg.role]);
			vf_violation(key, "%s: %s: data frame of %zu bytes although NNG_OPT_WS_SENDMAXFRAME is %zu", e->desc, cv_names[variant], e->emit.max_data_frame, fs);
			bad = true;
		}
		if (!bad && alive) {
			if (e->emit.npong - npong0 != np) {
				vf_violation("C16/ws-emit/pong-missing", "%s: %s: %d PING frames sent while nng was sending, %d PONG frames received", e->desc, cv_names[variant], np, e->emit.npong - npong0);
				bad = true;
			} else if (!lp_same(e->emit.pongs.p + pong0, e->emit.pongs.n - pong0, want_pongs.p, want_pongs.n)) {
				vf_violation("C16/ws-emit/pong-payload", "%s: %s: PONG payloads are not the PING payloads", e->desc, cv_names[variant]);
				bad = true;
			}
		}
		if (bad) {
			healthy  = false;
			*outcome = "WRONG";
		} else if (variant == CV_CANCEL && barrier_ok) {
			*outcome = res[victim] == 0 ? "completed-anyway" : seen[victim] ? "cancelled-but-emitted" : "not-emitted";
		}
		if (!bad) {
			vf_stat("ws_tx_concurrent_sends", k);
			vf_stat("ws_tx_concurrent_rounds", 1);
			vf_stat("ws_tx_ping_during_fragments", e->emit.nctl_inmsg - ctl0);
			if (e->emit.ndata_frames - fr0 > nm + (barrier_ok ? 1 : 0)) vf_stat("ws_tx_concurrent_fragmented", 1);
		}
	}
	e->emit_ctx = NULL;
	for (int i = 0; i < k; i++) {
		nng_aio_free(aio[i]);
		free(pay[i]);
	}
	bb_free(&want_pongs);
	return healthy;
}

static void
conc_case(long idx)
{
	static const size_t frags[] = { 1, 125, 1000, 126, 65536, 0, 7 };
	static const int    variants[] = { CV_PLAIN, CV_CANCEL, CV_PLAIN, CV_PEER_CLOSE, CV_CANCEL };
	vf_rng      r;
	wscfg       c;
	wsep        e;
	const char *outcome = "not-opened";
	vf_rng_seed(&r, vf_seed, (uint64_t) idx);
	memset(&c, 0, sizeof(c));
	c.role      = (idx & 1) ? R_SD : R_SL;
	c.msgmode   = true;
	c.fragsize  = frags[(idx / 2) % 7];
	int variant = variants[(idx / 14) % 5];
	c.maxframe  = vf_chance(&r, 1, 2) ? 0 : (1u << 20);
	c.recvmax   = vf_chance(&r, 1, 2) ? 0 : (1u << 20);
	c.send_text = vf_chance(&r, 1, 3);
	c.rxbuf     = 64;
	g_ctl_max   = 125;
	vf_case_begin(idx, "ws %s on %s/msg fragsize=%zu", cv_names[variant], role_names[c.role], c.fragsize);
	bool ok = ep_open(&e, &c, NULL);
	if (ok) {
		int rounds = variant == CV_PLAIN ? (int) vf_range(&r, 1, 3) : 1;
		// (a round of plain concurrent sends first, sometimes)
		if (variant != CV_PLAIN && vf_chance(&r, 1, 2)) ok = conc_round(&e, &r, CV_PLAIN, &outcome);
		for (int i = 0; i < rounds && ok; i++) ok = conc_round(&e, &r, variant, &outcome);
		vf_class("ws-tx-concurrent/%s/frag=%zu/%s/%s", role_names[c.role], c.fragsize, cv_names[variant], outcome);
		if (variant == CV_CANCEL) vf_stat("ws_tx_cancel_cases", 1);
		if (variant == CV_PEER_CLOSE) vf_stat("ws_tx_peer_close_cases", 1);
	}
	close_phase(&e, &r, ok);
	if ((idx % 23) == 0) vf_sample("{\"mode\":\"conc\",\"endpoint\":\"%s\",\"variant\":\"%s\",\"outcome\":\"%s\"}", e.desc, cv_names[variant], outcome);
	ep_free(&e);
}

// ================================================================ rules mode
typedef struct {
	const char *name;
	bool        msg_only;    // needs message mode
	bool        needs_limit; // sets maxframe / recvmax itself
} rule;

enum {
	RU_MASK = 0, RU_OP3, RU_OP4, RU_OP5, RU_OP6, RU_OP7, RU_OPB, RU_OPC, RU_OPD, RU_OPE, RU_OPF,
	RU_RSV1, RU_RSV2, RU_RSV3, RU_LEN16, RU_LEN64_SMALL, RU_LEN64_MID, RU_CTL126, RU_CTL_PONG126, RU_CLOSE126,
	RU_CONT_NO_START, RU_CONT_AFTER_FIN, RU_NEW_IN_MSG, RU_NEW_TEXT_IN_MSG, RU_FRAME_ABOVE_MAX, RU_FRAME_ABOVE_MAX_64, RU_MSG_ABOVE_MAX, RU_MSG_ABOVE_MAX_MANY,
	RU_LEN_4G, RU_LEN_MSB, RU_LEN_WRAP, NRULES
};
static const rule rules[NRULES] = {
	[RU_MASK] = { "wrong-masking" },
	[RU_OP3] = { "opcode-3" }, [RU_OP4] = { "opcode-4" }, [RU_OP5] = { "opcode-5" }, [RU_OP6] = { "opcode-6" }, [RU_OP7] = { "opcode-7" },
	[RU_OPB] = { "opcode-B" }, [RU_OPC] = { "opcode-C" }, [RU_OPD] = { "opcode-D" }, [RU_OPE] = { "opcode-E" }, [RU_OPF] = { "opcode-F" },
	[RU_RSV1] = { "rsv1" }, [RU_RSV2] = { "rsv2" }, [RU_RSV3] = { "rsv3" },
	[RU_LEN16] = { "length-16bit-for-short" }, [RU_LEN64_SMALL] = { "length-64bit-for-short" }, [RU_LEN64_MID] = { "length-64bit-for-16bit" },
	[RU_CTL126] = { "ping-126-bytes" }, [RU_CTL_PONG126] = { "pong-126-bytes" }, [RU_CLOSE126] = { "close-126-bytes" },
	[RU_CONT_NO_START] = { "continuation-first" }, [RU_CONT_AFTER_FIN] = { "continuation-after-complete-message" },
	[RU_NEW_IN_MSG] = { "binary-inside-fragmented-message" }, [RU_NEW_TEXT_IN_MSG] = { "text-inside-fragmented-message" },
	[RU_FRAME_ABOVE_MAX] = { "frame-above-recvmaxframe", false, true }, [RU_FRAME_ABOVE_MAX_64] = { "frame-above-recvmaxframe-64bit", false, true },
	[RU_MSG_ABOVE_MAX] = { "message-above-recvmaxsz-two-frames", true, true }, [RU_MSG_ABOVE_MAX_MANY] = { "message-above-recvmaxsz-many-small-fragments", true, true },
	[RU_LEN_4G] = { "frame-length-2^32", false, true }, [RU_LEN_MSB] = { "frame-length-2^63", false, true }, [RU_LEN_WRAP] = { "continuation-length-wraps-message-size", false, true },
};

static bool
cond_stopped_or_extra(wsep *e, void *arg)
{
	wsdec *ref = arg;
	if (e->rx_stopped) return true;
	if (e->cfg.msgmode) return e->nmsg > ref->nmsg;
	return e->got.n > ref->data.n;
}

static void
rules_case(long idx)
{
	vf_rng  r;
	wscfg   c;
	wstream s;
	wsdec   ref;
	wsep    e;
	char    key[160];
	vf_rng_seed(&r, vf_seed, (uint64_t) idx);
	int ru = (int) ((idx / NROLES) % NRULES);
	gen_cfg(&r, &c, true);
	c.role = (int) (idx % NROLES);
	if (ROLE_IS_SP(c.role)) c.msgmode = true; else c.msgmode = rules[ru].msg_only ? true : ((idx / (NROLES * NRULES)) & 1) != 0;
	c.hs_plan = 0;
	c.sp1     = false; // (planted payloads have no hop header; pair1 is exercised in valid mode)
	if (ru == RU_NEW_TEXT_IN_MSG) c.recv_text = !ROLE_IS_SP(c.role);
	if (!rules[ru].needs_limit) {
		// limits that cannot interfere with the rule under test
		c.maxframe = vf_chance(&r, 1, 2) ? 0 : (1u << 20);
		c.recvmax  = vf_chance(&r, 1, 2) ? 0 : (1u << 20);
	} else {
		c.maxframe = ru == RU_FRAME_ABOVE_MAX ? vf_range(&r, 10, 3000) : ru == RU_FRAME_ABOVE_MAX_64 ? vf_range(&r, 65536, 100000) : 0;
		c.recvmax  = (ru == RU_MSG_ABOVE_MAX || ru == RU_MSG_ABOVE_MAX_MANY) ? vf_range(&r, 20, 5000) : 0;
		if (ru == RU_LEN_4G) {
			// 4 GiB is only wrong because of a limit: frame limit, or (message mode) message limit alone
			if (c.msgmode && vf_chance(&r, 1, 2)) c.recvmax = vf_range(&r, 20, 1u << 20);
			else c.maxframe = vf_chance(&r, 1, 2) ? (1u << 20) : vf_range(&r, 126, 1u << 24);
		}
		if (ru == RU_LEN_MSB || ru == RU_LEN_WRAP) {
			// always wrong (RFC 6455: most significant bit must be 0); with no frame
			// limit the size arithmetic and the allocation itself are in the path
			c.maxframe = vf_chance(&r, 1, 2) ? 0 : (1u << 20);
			c.recvmax  = c.msgmode && vf_chance(&r, 2, 3) ? vf_range(&r, 20, 5000) : 0;
		}
	}
	bool masked = ROLE_IS_SERVER(c.role);
	g_ctl_max   = c.maxframe > 0 && c.maxframe < 125 ? c.maxframe : 125;
	memset(&s, 0, sizeof(s));
	// valid prefix: sometimes nothing, sometimes a few messages and pings
	int npre = (int) vf_below(&r, 3);
	for (int i = 0; i < npre; i++) {
		size_t total = vf_below(&r, 60);
		if (c.recvmax && total > c.recvmax) total = c.recvmax;
		gen_message(&r, &s.wire, &s.m, masked, total, OP_BIN, c.maxframe, 200, &s.npings);
	}
	size_t  bad_at = s.wire.n;
	uint8_t pl[256];
	gen_payload(&r, pl, sizeof(pl));
	size_t small = vf_below(&r, 100);
	bool   open_msg = false; // rule needs an unfinished message in front
	switch (ru) {
	case RU_MASK: {
		static const int ops[] = { OP_BIN, OP_BIN, OP_PING, OP_PONG, OP_CLOSE };
		int              op    = ops[vf_below(&r, 5)];
		if (op == OP_CLOSE) { pl[0] = 0x03; pl[1] = 0xe8; small = 2; }
		if (op >= OP_CLOSE && small > g_ctl_max) small = g_ctl_max;
		put_frame(&s.wire, true, 0, op, !masked, gen_mask(&r), pl, small, 0);
		break;
	}
	case RU_OP3: case RU_OP4: case RU_OP5: case RU_OP6: case RU_OP7:
		put_frame(&s.wire, vf_chance(&r, 1, 2), 0, 3 + (ru - RU_OP3), masked, gen_mask(&r), pl, small, 0); break;
	case RU_OPB: case RU_OPC: case RU_OPD: case RU_OPE: case RU_OPF:
		put_frame(&s.wire, true, 0, 11 + (ru - RU_OPB), masked, gen_mask(&r), pl, small, 0); break;
	case RU_RSV1: case RU_RSV2: case RU_RSV3: {
		static const int ops[] = { OP_BIN, OP_BIN, OP_PING, OP_PONG };
		put_frame(&s.wire, true, 4 >> (ru - RU_RSV1), ops[vf_below(&r, 4)], masked, gen_mask(&r), pl, small, 0);
		break;
	}
	case RU_LEN16: put_frame(&s.wire, true, 0, OP_BIN, masked, gen_mask(&r), pl, vf_chance(&r, 1, 3) ? 125 : vf_below(&r, 126), 2); break;
	case RU_LEN64_SMALL: put_frame(&s.wire, true, 0, OP_BIN, masked, gen_mask(&r), pl, vf_below(&r, 126), 8); break;
	case RU_LEN64_MID: {
		size_t   n = vf_chance(&r, 1, 3) ? 65535 : vf_range(&r, 126, 65535);
		uint8_t *p = malloc(n);
		gen_payload(&r, p, n);
		put_frame(&s.wire, true, 0, OP_BIN, masked, gen_mask(&r), p, n, 8);
		free(p);
		break;
	}
	case RU_CTL126: put_frame(&s.wire, true, 0, OP_PING, masked, gen_mask(&r), pl, vf_chance(&r, 1, 2) ? 126 : vf_range(&r, 126, 250), 0); break;
	case RU_CTL_PONG126: put_frame(&s.wire, true, 0, OP_PONG, masked, gen_mask(&r), pl, vf_chance(&r, 1, 2) ? 126 : vf_range(&r, 126, 250), 0); break;
	case RU_CLOSE126: pl[0] = 0x03; pl[1] = 0xe8; put_frame(&s.wire, true, 0, OP_CLOSE, masked, gen_mask(&r), pl, 126, 0); break;
	case RU_CONT_NO_START:
	case RU_CONT_AFTER_FIN:
		if (ru == RU_CONT_AFTER_FIN && npre == 0) gen_message(&r, &s.wire, &s.m, masked, 5, OP_BIN, 0, 0, &s.npings);
		bad_at = s.wire.n;
		put_frame(&s.wire, vf_chance(&r, 1, 2), 0, OP_CONT, masked, gen_mask(&r), pl, small, 0);
		break;
	case RU_NEW_IN_MSG:
	case RU_NEW_TEXT_IN_MSG:
		put_frame(&s.wire, false, 0, OP_BIN, masked, gen_mask(&r), pl, small, 0);
		if (vf_chance(&r, 1, 2)) gen_control(&r, &s.wire, &s.m, masked, &s.npings);
		if (vf_chance(&r, 1, 2)) put_frame(&s.wire, false, 0, OP_CONT, masked, gen_mask(&r), pl + 50, vf_below(&r, 50), 0);
		bad_at = s.wire.n;
		put_frame(&s.wire, vf_chance(&r, 1, 2), 0, ru == RU_NEW_IN_MSG ? OP_BIN : OP_TEXT, masked, gen_mask(&r), pl, vf_below(&r, 50), 0);
		open_msg = true;
		break;
	case RU_FRAME_ABOVE_MAX:
	case RU_FRAME_ABOVE_MAX_64: {
		size_t   n = c.maxframe + 1 + (vf_chance(&r, 1, 2) ? 0 : vf_below(&r, 50));
		uint8_t *p = malloc(n);
		gen_payload(&r, p, n);
		if (vf_chance(&r, 1, 2)) {
			// as a continuation of a so far legal message
			put_frame(&s.wire, false, 0, OP_BIN, masked, gen_mask(&r), pl, vf_below(&r, 10), 0);
			bad_at = s.wire.n;
			put_frame(&s.wire, true, 0, OP_CONT, masked, gen_mask(&r), p, n, 0);
			open_msg = true;
		} else {
			put_frame(&s.wire, true, 0, OP_BIN, masked, gen_mask(&r), p, n, 0);
		}
		free(p);
		break;
	}
	case RU_MSG_ABOVE_MAX: {
		size_t a = vf_range(&r, 1, (uint32_t) c.recvmax);
		size_t b = c.recvmax - a + 1 + (vf_chance(&r, 1, 2) ? 0 : vf_below(&r, 20));
		uint8_t *p = malloc(a + b);
		gen_payload(&r, p, a + b);
		put_frame(&s.wire, false, 0, OP_BIN, masked, gen_mask(&r), p, a, 0);
		if (vf_chance(&r, 1, 3)) gen_control(&r, &s.wire, &s.m, masked, &s.npings);
		bad_at = s.wire.n;
		put_frame(&s.wire, true, 0, OP_CONT, masked, gen_mask(&r), p + a, b, 0);
		free(p);
		open_msg = true;
		break;
	}
	case RU_LEN_4G:
	case RU_LEN_MSB: {
		uint64_t l = ru == RU_LEN_4G ? (1ULL << 32) + (vf_chance(&r, 1, 2) ? 0 : vf_below(&r, 1000)) : (1ULL << 63) | (vf_chance(&r, 1, 2) ? 0 : vf_rand(&r) >> 1);
		if (vf_chance(&r, 1, 2)) {
			put_frame(&s.wire, false, 0, OP_BIN, masked, gen_mask(&r), pl, vf_below(&r, 10), 0);
			bad_at = s.wire.n;
			put_hdr64(&s.wire, vf_chance(&r, 1, 2), OP_CONT, masked, gen_mask(&r), l);
		} else {
			put_hdr64(&s.wire, vf_chance(&r, 1, 2), OP_BIN, masked, gen_mask(&r), l);
		}
		bb_add(&s.wire, pl, vf_below(&r, 40)); // a little of the promised payload
		break;
	}
	case RU_LEN_WRAP: {
		// first fragment of k bytes, then a continuation announcing 2^64-j
		// bytes (j <= k): added up modulo 2^64 the message looks tiny
		size_t k = vf_range(&r, 1, 16);
		put_frame(&s.wire, false, 0, OP_BIN, masked, gen_mask(&r), pl, k, 0);
		bad_at = s.wire.n;
		put_hdr64(&s.wire, true, OP_CONT, masked, gen_mask(&r), (uint64_t) 0 - vf_range(&r, 1, (uint32_t) k));
		bb_add(&s.wire, pl, vf_below(&r, 40));
		break;
	}
	case RU_MSG_ABOVE_MAX_MANY: {
		size_t fl = vf_range(&r, 1, 7), tot = 0;
		int    first = 1;
		while (tot + fl <= c.recvmax) {
			put_frame(&s.wire, false, 0, first ? OP_BIN : OP_CONT, masked, gen_mask(&r), pl, fl, 0);
			first = 0;
			tot += fl;
		}
		bad_at = s.wire.n;
		put_frame(&s.wire, vf_chance(&r, 1, 2), 0, first ? OP_BIN : OP_CONT, masked, gen_mask(&r), pl, fl, 0);
		open_msg = true;
		break;
	}
	}
	(void) open_msg;
	size_t bad_end = s.wire.n;
	// canary: a perfectly valid message after the offending frame
	static const uint8_t canary[] = "CANARY-MUST-NOT-BE-DELIVERED";
	put_frame(&s.wire, true, 0, OP_BIN, masked, gen_mask(&r), canary, sizeof(canary) - 1, 0);

	// the reference decoder must agree that the first violation is the frame we planted
	wsdec_init(&ref, masked, c.msgmode, c.maxframe, c.recvmax, c.recv_text);
	wsdec_feed(&ref, s.wire.p, s.wire.n);
	if (ru == RU_CLOSE126) {
		// a CLOSE of 126 bytes: reference flags control-frame-too-long
	}
	if (ref.viol == NULL || ref.viol_at != bad_at) vf_harness_fail("rule %s: reference decoder sees '%s' at %zu, planted at %zu (idx %ld)", rules[ru].name, ref.viol ? ref.viol : "nothing", ref.viol_at, bad_at, idx);
	vf_case_begin(idx, "ws rule %s on %s/%s (reference: %s at offset %zu of %zu)", rules[ru].name, role_names[c.role], c.msgmode ? "msg" : "stream", ref.viol, bad_at, s.wire.n);

	bool ok = ep_open(&e, &c, NULL);
	if (ok) {
		// segmentation of this one stream
		int seg = (int) vf_below(&r, 5);
		size_t cut = vf_range(&r, 1, (uint32_t) s.wire.n - 1);
		if (vf_chance(&r, 1, 2)) cut = bad_at + vf_below(&r, (uint32_t) (bad_end - bad_at));
		if (cut < 1) cut = 1;
		switch (seg) {
		case 1: vf_io_plan(VF_IO_FULL, 0, VF_IO_CUT_ONCE, (long) cut, idx); break;
		case 2: vf_io_plan(VF_IO_FULL, 0, VF_IO_DRIBBLE, 1, idx); break;
		case 3: vf_io_plan(VF_IO_FULL, 0, VF_IO_RANDOM, 11, idx); break;
		default: break;
		}
		if (seg == 4) {
			vf_fd_write_all(e.raw.fd, s.wire.p, cut, 5000);
			vf_quiesce(1, 2000);
			vf_fd_write_all(e.raw.fd, s.wire.p + cut, s.wire.n - cut, 5000);
		} else {
			vf_fd_write_all(e.raw.fd, s.wire.p, s.wire.n, 5000);
		}
		// wait for: the peer sees CLOSE and/or EOF (connection failed), or
		// the application got something it must not get, or the bound expires
		uint64_t end = vf_now_ns() + 30000000000ULL;
		bool     failed = false, extra = false;
		while (vf_now_ns() < end) {
			emit_pump(&e);
			if (e.emit.nclose > 0 || e.raw.eof) {
				failed = true;
				break;
			}
			pthread_mutex_lock(&e.mtx);
			extra = e.cfg.msgmode ? e.nmsg > ref.nmsg : e.got.n > ref.data.n;
			pthread_mutex_unlock(&e.mtx);
			if (extra) break;
			rp_fill(&e.raw, 2);
		}
		vf_io_plan(VF_IO_FULL, 0, VF_IO_FULL, 0, 0);
		if (failed) {
			// let the application side settle: the receive must end in error
			// (an SP socket stays open when its pipe dies: wait for the
			// library to go idle instead)
			if (ROLE_IS_SP(c.role)) vf_quiesce(2, 1000); else ep_wait(&e, cond_stopped_or_extra, &ref, 300);
		}
		ep_close(&e);
		// verdicts.  What was delivered must be a prefix of what preceded the
		// offending frame.
		pthread_mutex_lock(&e.mtx);
		bool prefix = e.got.n <= ref.data.n && (e.got.n == 0 || memcmp(e.got.p, ref.data.p, e.got.n) == 0);
		if (e.cfg.msgmode) {
			prefix = prefix && e.nmsg <= ref.nmsg;
			for (int i = 0; prefix && i < e.nmsg && i < MAXMSG; i++) prefix = e.bound[i] == ref.bound[i];
		}
		int    gm = e.nmsg;
		size_t gb = e.got.n;
		pthread_mutex_unlock(&e.mtx);
		if (!prefix) {
			snprintf(key, sizeof(key), "C16/ws-rule-data-delivered/%s/%s", rules[ru].name, role_names[c.role]);
			vf_violation(key, "%s: rule violation %s (reference: %s) at stream offset %zu: application received %d messages / %zu bytes, only %d messages / %zu bytes precede the offending frame", e.desc, rules[ru].name, ref.viol, bad_at, gm, gb, ref.nmsg, ref.data.n);
		}
		if (!failed && !extra) {
			snprintf(key, sizeof(key), "C16/ws-rule-not-failed/%s/%s", rules[ru].name, role_names[c.role]);
			vf_violation(key, "%s: rule violation %s (reference: %s): the peer saw neither a CLOSE frame nor EOF within 30 s", e.desc, rules[ru].name, ref.viol);
		}
		if (prefix && failed) vf_stat("ws_rule_enforced", 1);
		if (e.emit.nclose) vf_stat("ws_rule_close_frame_seen", 1);
		vf_class("ws-rule/%s/%s/%s/%s", rules[ru].name, role_names[c.role], c.msgmode ? "msg" : "stream", !prefix ? "DATA-DELIVERED" : !failed ? "NOT-FAILED" : e.emit.nclose ? "close-frame" : "eof");
	}
	if ((idx % 53) == 0) vf_sample("{\"mode\":\"rules\",\"rule\":\"%s\",\"endpoint\":\"%s\",\"reference_verdict\":\"%s\",\"offending_frame_offset\":%zu,\"stream_bytes\":%zu}", rules[ru].name, e.desc, ref.viol, bad_at, s.wire.n);
	vf_stat("ws_rule_cases", 1);
	ep_free(&e);
	wsdec_free(&ref);
	bb_free(&s.wire);
}

// ================================================================ hs mode
// One defect in the raw peer's half of the upgrade exchange per connection.
// A listener must answer with something else than 101 (or close) and must
// not hand a stream / pipe to the application; a dialer must fail the dial
// (stream) or drop the connection without delivering anything (SP socket).
static void hs_defect_case(long idx, vf_rng *rp, wscfg c, int df);

static void
hs_case(long idx)
{
	vf_rng r;
	wscfg  c;
	vf_rng_seed(&r, vf_seed, (uint64_t) idx);
	gen_cfg(&r, &c, true);
	c.role    = (int) (idx % NROLES);
	c.msgmode = ROLE_IS_SP(c.role) || ((idx / NROLES) & 1);
	c.sp1     = ROLE_IS_SP(c.role) && vf_chance(&r, 1, 2);
	c.maxframe = c.recvmax = 0;
	bool srv = ROLE_IS_SERVER(c.role);
	int  n   = srv ? HL_LAST - HL_FIRST + 1 : HD_LAST - HD_FIRST + 1;
	int  df  = (srv ? HL_FIRST : HD_FIRST) + (int) ((idx / NROLES) % n);
	if (!ROLE_IS_SP(c.role) && (df == HD_PROTO_MISSING || df == HD_PROTO_WRONG)) df = df == HD_PROTO_MISSING ? HD_ACCEPT_WRONG : HD_STATUS_200;
	if (!ROLE_IS_SP(c.role) && (df == HL_PROTO_MISSING || df == HL_PROTO_WRONG)) df = df == HL_PROTO_MISSING ? HL_KEY_MISSING : HL_VERSION_8;
	hs_defect_case(idx, &r, c, df);
}

static void
hs_defect_case(long idx, vf_rng *rp, wscfg c, int df)
{
	vf_rng r = *rp;
	wsep   e;
	bb     canary = { 0 };
	char   key[160];
	bool   srv = ROLE_IS_SERVER(c.role);
	c.hs_defect = df;
	static const uint8_t cn[] = "\0\0\0\1HS-CANARY-MUST-NOT-BE-DELIVERED";
	put_frame(&canary, true, 0, OP_BIN, srv, gen_mask(&r), cn, sizeof(cn) - 1, 0);
	vf_case_begin(idx, "ws upgrade defect %s on %s%s", hs_names[df], role_names[c.role], c.sp1 ? "(pair1)" : "");
	bool        up = ep_open(&e, &c, srv ? NULL : &canary);
	bool        accepted = false, undecided = false;
	const char *outcome = "refused";
	char        obuf[48];
	switch (c.role) {
	case R_SL:
	case R_PL:
		accepted = e.hs_status == 101 || up;
		if (accepted && e.raw.fd >= 0) vf_fd_write_all(e.raw.fd, canary.p, canary.n, 2000);
		if (e.hs_status == 0) outcome = "closed";
		else { snprintf(obuf, sizeof(obuf), "%dxx", e.hs_status / 100); outcome = obuf; }
		break;
	case R_SD:
		accepted = e.hs_rv == 0;
		if (e.hs_rv == NNG_ETIMEDOUT) undecided = true;
		outcome = nng_strerror(e.hs_rv);
		break;
	case R_PD: {
		// no pipe may come up: the connection must be dropped, nothing delivered
		uint64_t end = vf_now_ns() + 30000000000ULL;
		bool     got = false;
		while (vf_now_ns() < end && !e.raw.eof && !got) {
			rp_fill(&e.raw, 5);
			pthread_mutex_lock(&e.mtx);
			got = e.nmsg > 0;
			pthread_mutex_unlock(&e.mtx);
		}
		if (!got && !e.raw.eof) undecided = true;
		outcome = e.raw.eof ? "connection-dropped" : "kept";
		break;
	}
	}
	vf_quiesce(2, 1000);
	pthread_mutex_lock(&e.mtx);
	bool delivered = e.nmsg > 0 || e.got.n > 0;
	pthread_mutex_unlock(&e.mtx);
	if (accepted || delivered) {
		snprintf(key, sizeof(key), "C16/ws-handshake-accepted/%s-%s/%s", srv ? "request" : "response", hs_names[df], role_names[c.role]);
		vf_violation(key, "%s: upgrade %s with defect '%s' was accepted (%s%s)", e.desc, srv ? "request" : "response", hs_names[df],
		    srv ? (e.hs_status == 101 ? "answered 101" : "accept completed") : c.role == R_SD ? "dial completed" : "pipe came up", delivered ? ", data behind it was delivered" : "");
		outcome = "ACCEPTED";
	} else if (undecided) {
		snprintf(key, sizeof(key), "C16/ws-handshake-no-verdict/%s-%s/%s", srv ? "request" : "response", hs_names[df], role_names[c.role]);
		vf_violation(key, "%s: upgrade %s with defect '%s': neither refused nor accepted within 30 s", e.desc, srv ? "request" : "response", hs_names[df]);
		outcome = "NO-VERDICT";
	} else {
		vf_stat("ws_hs_defect_refused", 1);
	}
	vf_stat("ws_hs_defect_cases", 1);
	vf_class("ws-hs/%s-%s/%s/%s", srv ? "request" : "response", hs_names[df], role_names[c.role], outcome);
	if ((idx % 29) == 0) vf_sample("{\"mode\":\"hs\",\"endpoint\":\"%s\",\"defect\":\"%s %s\",\"outcome\":\"%s\"}", e.desc, srv ? "request" : "response", hs_names[df], outcome);
	ep_close(&e);
	ep_free(&e);
	bb_free(&canary);
}

// ================================================================ hsv mode
// Valid spellings of the raw peer's half of the upgrade (RFC 7230: field names
// are case-insensitive, Connection is a comma separated list with optional
// whitespace, unknown fields are ignored; RFC 6455 4.1/4.2.1: the Upgrade
// value is compared case-insensitively, a client may offer several
// subprotocols): whether nng accepts or refuses each is recorded as a class
// (the property does not demand acceptance); when it accepts, the frame that
// follows must be delivered intact and nng's own half must parse strictly.
// Near misses of the compared tokens (noupgrade, websocket2, <subprotocol>x
// ...) are not upgrades to websocket / to our subprotocol: they must be
// refused like any other defect and nothing behind them delivered.
static bool
cond_canary(wsep *e, void *arg)
{
	size_t want = *(size_t *) arg;
	if (e->rx_stopped) return true;
	return e->cfg.msgmode ? e->nmsg >= 1 : e->got.n >= want;
}

static void
hsv_case(long idx)
{
	vf_rng r;
	wscfg  c;
	vf_rng_seed(&r, vf_seed, (uint64_t) idx);
	gen_cfg(&r, &c, true);
	c.role    = (int) (idx % NROLES);
	int nsel  = (HV_NVARIANTS - 1) + (HX_LAST - HX_FIRST + 1);
	int sel   = (int) ((idx / NROLES) % nsel);
	c.msgmode = ROLE_IS_SP(c.role) || ((idx / (NROLES * nsel)) & 1);
	c.sp1     = ROLE_IS_SP(c.role) && vf_chance(&r, 1, 2);
	c.maxframe = c.recvmax = 0;
	c.hs_plan = vf_chance(&r, 1, 3) ? (int) vf_range(&r, 1, 2) : 0;
	bool srv = ROLE_IS_SERVER(c.role);
	if (sel >= HV_NVARIANTS - 1) {
		int df = HX_FIRST + (sel - (HV_NVARIANTS - 1));
		// (stream roles have no subprotocol: the other near misses instead)
		if (!ROLE_IS_SP(c.role) && df == HX_PROTO_SUFFIX) df = HX_CONN_NOUPGRADE;
		if (!ROLE_IS_SP(c.role) && df == HX_PROTO_PREFIX) df = HX_UPGRADE_SUFFIX;
		vf_stat("ws_hs_nearmiss_cases", 1);
		hs_defect_case(idx, &r, c, df);
		return;
	}
	int hv = 1 + sel;
	// (several subprotocols can only be offered where there is one; stream
	// listeners get the optional whitespace instead)
	if (hv == HV_MULTI_PROTO_OR_REASON && c.role == R_SL) hv = HV_OWS;
	c.hs_var = hv;
	wsep   e;
	bb     canary = { 0 };
	char   key[160];
	static const uint8_t cn[] = "\0\0\0\1HS-VARIANT-CANARY-MUST-BE-DELIVERED";
	size_t strip = c.sp1 ? 4 : 0;
	size_t want  = sizeof(cn) - 1 - strip;
	put_frame(&canary, true, 0, OP_BIN, srv, gen_mask(&r), cn, sizeof(cn) - 1, 0);
	vf_case_begin(idx, "ws upgrade spelling %s on %s%s", hv_name(c.role, hv), role_names[c.role], c.sp1 ? "(pair1)" : "");
	bool with_hs = !srv && vf_chance(&r, 1, 2);
	bool up = ep_open(&e, &c, with_hs ? &canary : NULL);
	// Whether a valid spelling is understood is recorded, not judged (the
	// property does not say so).  Once nng has accepted it - answered 101 and
	// handed out the stream / completed the dial - the frame behind it must be
	// delivered intact, and its own half of the upgrade has been through the
	// strict parser (handshake_as_client / handshake_as_server).  An SP dialer
	// shows acceptance only by delivering: dropping the connection is a refusal.
	const char *outcome = "accepted";
	if (up) {
		if (!with_hs) vf_fd_write_all(e.raw.fd, canary.p, canary.n, 5000);
		// "never" is the verdict: the connection is dropped, or nothing arrives for 120 s
		uint64_t end = vf_now_ns() + 120000000000ULL;
		bool     got = false;
		while (vf_now_ns() < end && !got) {
			pthread_mutex_lock(&e.mtx);
			got = cond_canary(&e, &want);
			pthread_mutex_unlock(&e.mtx);
			if (got || e.raw.eof) break;
			rp_fill(&e.raw, 2);
		}
		pthread_mutex_lock(&e.mtx);
		bool same = !e.rx_stopped && e.got.n >= want && memcmp(e.got.p, cn + strip, want) == 0 && (!e.cfg.msgmode || (e.nmsg >= 1 && e.bound[0] == want));
		pthread_mutex_unlock(&e.mtx);
		pthread_mutex_lock(&e.mtx);
		bool nothing = e.got.n == 0 && e.nmsg == 0;
		pthread_mutex_unlock(&e.mtx);
		if (same) {
			vf_stat("ws_hs_variant_accepted", 1);
		} else if (c.role == R_PD && e.raw.eof && nothing) {
			outcome = "refused";
		} else {
			snprintf(key, sizeof(key), "C16/ws-handshake-variant/frame-behind-accepted-upgrade-%s/%s-%s/%s", nothing ? "lost" : "differs", srv ? "request" : "response", hv_name(c.role, hv), role_names[c.role]);
			vf_violation(key, "%s: upgrade %s (spelling variant %s) was accepted by nng, but %s", e.desc, srv ? "request" : "response", hv_name(c.role, hv),
			    !nothing ? "the frame that follows was delivered with other content" : e.raw.eof ? "nng dropped the connection instead of delivering the frame that follows" : "the frame that follows was not delivered within 120 s");
			outcome = "FRAME-LOST";
		}
	} else {
		outcome = "refused";
	}
	if (!strcmp(outcome, "refused")) vf_stat("ws_hs_variant_refused", 1);
	vf_stat("ws_hs_variant_cases", 1);
	vf_class("ws-hs-valid/%s-%s/%s/%s", srv ? "request" : "response", hv_name(c.role, hv), role_names[c.role], outcome);
	if ((idx % 17) == 0) vf_sample("{\"mode\":\"hsv\",\"endpoint\":\"%s\",\"variant\":\"%s %s\",\"outcome\":\"%s\"}", e.desc, srv ? "request" : "response", hv_name(c.role, hv), outcome);
	ep_close(&e);
	ep_free(&e);
	bb_free(&canary);
}

int
main(int argc, char **argv)
{
	signal(SIGPIPE, SIG_IGN);
	vf_init(argc, argv);
	vf_watchdog(120);
	crypto_selftest();
	bool valid = !strcmp(vf_mode, "valid");
	bool hs    = !strcmp(vf_mode, "hs");
	bool hsv   = !strcmp(vf_mode, "hsv");
	bool conc  = !strcmp(vf_mode, "conc");
	if (!valid && !hs && !hsv && !conc && strcmp(vf_mode, "rules") != 0) vf_harness_fail("unknown mode '%s'", vf_mode);
	vf_nng_init(4, 1, 2);
	globals_up();
	long since = 0;
	for (long i = 0; i < vf_cases; i++) {
		if (!vf_want_case(i)) continue;
		vf_watchdog(180);
		if (valid) valid_case(i); else if (hs) hs_case(i); else if (hsv) hsv_case(i); else if (conc) conc_case(i); else rules_case(i);
		vf_stat("cases", 1);
		if (++since >= (valid ? 40 : 150)) {
			since = 0;
			globals_down();
			vf_quiesce(2, 5000); // (nng_fini racing a poller-driven reap is C10's business)
			vf_nng_fini("C16");
			vf_nng_init(4, 1, 2);
			globals_up();
		}
	}
	globals_down();
	vf_quiesce(2, 5000);
	vf_stat("io_short_recvs", vf_io_short_recvs());
	vf_stat("ws_replays_total", ws_replays);
	vf_nng_fini("C16");
	return vf_finish();
}
