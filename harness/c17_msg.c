// C17: nng_msg behaves as two byte strings under all edit sequences.
// Model-based monitor: every public nng_msg_* edit is mirrored on a pair of
// plain byte vectors; after every step the full observable state (return
// code, header bytes, body bytes, lengths, capacity>=len) is compared.
// Modes: "exh" exhaustive short sequences over a reduced alphabet,
//        "rand" long random sequences with boundary-biased sizes.
#include "vfh.h"

#define HDR_MAX 64
#define BODY_MAX (1 << 16)

typedef struct {
	uint8_t hdr[HDR_MAX];
	size_t  hlen;
	uint8_t *body;
	size_t  blen;
} model;

static uint8_t scratch[BODY_MAX];
static long    steps;

static void
m_init(model *m)
{
	m->hlen = 0;
	m->blen = 0;
	m->body = malloc(BODY_MAX);
}

static const char *
lencls(size_t n)
{
	if (n == 0) return "0";
	if (n < 8) return "1-7";
	if (n < 32) return "8-31";
	if (n == 32) return "32";
	if (n < 64) return "33-63";
	if (n < 1024) return "64-1023";
	if (n == 1024) return "1024";
	if (n < 2048) return "1025-2047";
	if (n == 2048) return "2048";
	if (n == 4096) return "4096";
	return ">2048";
}

static bool
compare(nng_msg *msg, const model *m, const char *op)
{
	size_t hl = nng_msg_header_len(msg);
	size_t bl = nng_msg_len(msg);
	if (hl != m->hlen || bl != m->blen) {
		vf_violation("C17/model/length",
		    "after %s: header_len=%zu body_len=%zu, model %zu/%zu", op, hl,
		    bl, m->hlen, m->blen);
		return false;
	}
	if (hl && memcmp(nng_msg_header(msg), m->hdr, hl) != 0) {
		vf_violation(
		    "C17/model/header-bytes", "after %s: header bytes differ", op);
		return false;
	}
	if (bl && memcmp(nng_msg_body(msg), m->body, bl) != 0) {
		size_t i = 0;
		const uint8_t *b = nng_msg_body(msg);
		while (i < bl && b[i] == m->body[i]) i++;
		vf_violation("C17/model/body-bytes",
		    "after %s: body differs at offset %zu of %zu (got %02x want %02x)",
		    op, i, bl, b[i], m->body[i]);
		return false;
	}
	if (nng_msg_capacity(msg) < bl) {
		vf_violation("C17/capacity-below-length",
		    "after %s: capacity %zu < len %zu", op, nng_msg_capacity(msg), bl);
		return false;
	}
	return true;
}

// operation codes
enum {
	OP_APPEND, OP_INSERT, OP_TRIM, OP_CHOP, OP_HAPPEND, OP_HINSERT, OP_HTRIM,
	OP_HCHOP, OP_APPEND_U, OP_INSERT_U, OP_TRIM_U, OP_CHOP_U, OP_HAPPEND_U,
	OP_HINSERT_U, OP_HTRIM_U, OP_HCHOP_U, OP_REALLOC, OP_CLEAR, OP_HCLEAR,
	OP_RESERVE, OP_DUP, OP_NOPS
};
static const char *opnames[] = { "append", "insert", "trim", "chop",
	"header_append", "header_insert", "header_trim", "header_chop",
	"append_uN", "insert_uN", "trim_uN", "chop_uN", "header_append_uN",
	"header_insert_uN", "header_trim_uN", "header_chop_uN", "realloc", "clear",
	"header_clear", "reserve", "dup" };

static void
be_put(uint8_t *p, uint64_t v, int w)
{
	for (int i = 0; i < w; i++) {
		p[i] = (uint8_t) (v >> (8 * (w - 1 - i)));
	}
}
static uint64_t
be_get(const uint8_t *p, int w)
{
	uint64_t v = 0;
	for (int i = 0; i < w; i++) {
		v = (v << 8) | p[i];
	}
	return v;
}

// Apply one op to both; returns false on mismatch.  *pmsg may be replaced
// (dup).  arg is a size or value; w is the integer width for _uN ops.
static bool
apply(nng_msg **pmsg, model *m, int op, size_t arg, int w, uint64_t fillkey)
{
	nng_msg *msg = *pmsg;
	int      rv = 0, mrv = 0;
	char     desc[96];
	uint64_t val = vf_mix64(fillkey);
	uint8_t  vb[8];

	snprintf(desc, sizeof(desc), "%s(%zu,w=%d) on len=%zu hdr=%zu",
	    opnames[op], arg, w, m->blen, m->hlen);
	steps++;
	switch (op) {
	case OP_APPEND:
		if (m->blen + arg > BODY_MAX) return true;
		vf_fill(scratch, arg, fillkey);
		rv = nng_msg_append(msg, scratch, arg);
		memcpy(m->body + m->blen, scratch, arg);
		m->blen += arg;
		break;
	case OP_INSERT:
		if (m->blen + arg > BODY_MAX) return true;
		vf_fill(scratch, arg, fillkey);
		rv = nng_msg_insert(msg, scratch, arg);
		memmove(m->body + arg, m->body, m->blen);
		memcpy(m->body, scratch, arg);
		m->blen += arg;
		break;
	case OP_TRIM:
		rv = nng_msg_trim(msg, arg);
		if (arg > m->blen) mrv = NNG_EINVAL;
		else { memmove(m->body, m->body + arg, m->blen - arg); m->blen -= arg; }
		break;
	case OP_CHOP:
		rv = nng_msg_chop(msg, arg);
		if (arg > m->blen) mrv = NNG_EINVAL;
		else m->blen -= arg;
		break;
	case OP_HAPPEND:
		vf_fill(scratch, arg, fillkey);
		rv = nng_msg_header_append(msg, scratch, arg);
		if (m->hlen + arg > HDR_MAX) mrv = NNG_EINVAL;
		else { memcpy(m->hdr + m->hlen, scratch, arg); m->hlen += arg; }
		break;
	case OP_HINSERT:
		vf_fill(scratch, arg, fillkey);
		rv = nng_msg_header_insert(msg, scratch, arg);
		if (m->hlen + arg > HDR_MAX) mrv = NNG_EINVAL;
		else { memmove(m->hdr + arg, m->hdr, m->hlen); memcpy(m->hdr, scratch, arg); m->hlen += arg; }
		break;
	case OP_HTRIM:
		rv = nng_msg_header_trim(msg, arg);
		if (arg > m->hlen) mrv = NNG_EINVAL;
		else { memmove(m->hdr, m->hdr + arg, m->hlen - arg); m->hlen -= arg; }
		break;
	case OP_HCHOP:
		rv = nng_msg_header_chop(msg, arg);
		if (arg > m->hlen) mrv = NNG_EINVAL;
		else m->hlen -= arg;
		break;
	case OP_APPEND_U:
	case OP_INSERT_U:
		if (m->blen + 8 > BODY_MAX) return true;
		be_put(vb, val, 8);
		// value truncated to width, big-endian
		if (w == 2) val &= 0xffff; else if (w == 4) val &= 0xffffffffu;
		be_put(vb, val, w);
		if (op == OP_APPEND_U) {
			rv = w == 2 ? nng_msg_append_u16(msg, (uint16_t) val)
			   : w == 4 ? nng_msg_append_u32(msg, (uint32_t) val)
			            : nng_msg_append_u64(msg, val);
			memcpy(m->body + m->blen, vb, (size_t) w);
		} else {
			rv = w == 2 ? nng_msg_insert_u16(msg, (uint16_t) val)
			   : w == 4 ? nng_msg_insert_u32(msg, (uint32_t) val)
			            : nng_msg_insert_u64(msg, val);
			memmove(m->body + w, m->body, m->blen);
			memcpy(m->body, vb, (size_t) w);
		}
		m->blen += (size_t) w;
		break;
	case OP_TRIM_U:
	case OP_CHOP_U: {
		uint16_t v16 = 0xdead; uint32_t v32 = 0xdeadbeef; uint64_t v64 = 0xdeadbeefcafef00dULL;
		uint64_t got, want = 0;
		bool front = op == OP_TRIM_U;
		if (front)
			rv = w == 2 ? nng_msg_trim_u16(msg, &v16) : w == 4 ? nng_msg_trim_u32(msg, &v32) : nng_msg_trim_u64(msg, &v64);
		else
			rv = w == 2 ? nng_msg_chop_u16(msg, &v16) : w == 4 ? nng_msg_chop_u32(msg, &v32) : nng_msg_chop_u64(msg, &v64);
		got = w == 2 ? v16 : w == 4 ? v32 : v64;
		if ((size_t) w > m->blen) mrv = NNG_EINVAL;
		else {
			if (front) { want = be_get(m->body, w); memmove(m->body, m->body + w, m->blen - (size_t) w); }
			else want = be_get(m->body + m->blen - w, w);
			m->blen -= (size_t) w;
			if (rv == 0 && got != want) {
				vf_violation("C17/model/integer-value", "%s: got %llx want %llx", desc,
				    (unsigned long long) got, (unsigned long long) want);
				return false;
			}
		}
		break;
	}
	case OP_HAPPEND_U:
	case OP_HINSERT_U:
		if (w == 2) val &= 0xffff; else if (w == 4) val &= 0xffffffffu;
		be_put(vb, val, w);
		if (op == OP_HAPPEND_U)
			rv = w == 2 ? nng_msg_header_append_u16(msg, (uint16_t) val) : w == 4 ? nng_msg_header_append_u32(msg, (uint32_t) val) : nng_msg_header_append_u64(msg, val);
		else
			rv = w == 2 ? nng_msg_header_insert_u16(msg, (uint16_t) val) : w == 4 ? nng_msg_header_insert_u32(msg, (uint32_t) val) : nng_msg_header_insert_u64(msg, val);
		if (m->hlen + (size_t) w > HDR_MAX) mrv = NNG_EINVAL;
		else if (op == OP_HAPPEND_U) { memcpy(m->hdr + m->hlen, vb, (size_t) w); m->hlen += (size_t) w; }
		else { memmove(m->hdr + w, m->hdr, m->hlen); memcpy(m->hdr, vb, (size_t) w); m->hlen += (size_t) w; }
		break;
	case OP_HTRIM_U:
	case OP_HCHOP_U: {
		uint16_t v16 = 0xdead; uint32_t v32 = 0xdeadbeef; uint64_t v64 = 0xdeadbeefcafef00dULL;
		uint64_t got, want = 0;
		bool front = op == OP_HTRIM_U;
		if (front)
			rv = w == 2 ? nng_msg_header_trim_u16(msg, &v16) : w == 4 ? nng_msg_header_trim_u32(msg, &v32) : nng_msg_header_trim_u64(msg, &v64);
		else
			rv = w == 2 ? nng_msg_header_chop_u16(msg, &v16) : w == 4 ? nng_msg_header_chop_u32(msg, &v32) : nng_msg_header_chop_u64(msg, &v64);
		got = w == 2 ? v16 : w == 4 ? v32 : v64;
		if ((size_t) w > m->hlen) mrv = NNG_EINVAL;
		else {
			if (front) { want = be_get(m->hdr, w); memmove(m->hdr, m->hdr + w, m->hlen - (size_t) w); }
			else want = be_get(m->hdr + m->hlen - w, w);
			m->hlen -= (size_t) w;
			if (rv == 0 && got != want) {
				vf_violation("C17/model/integer-value", "%s: got %llx want %llx", desc,
				    (unsigned long long) got, (unsigned long long) want);
				return false;
			}
		}
		break;
	}
	case OP_REALLOC:
		if (arg > BODY_MAX) return true;
		rv = nng_msg_realloc(msg, arg);
		if (rv == 0 && arg > m->blen) {
			// new bytes are unspecified: define them (application write)
			if (nng_msg_len(msg) == arg) {
				vf_fill((uint8_t *) nng_msg_body(msg) + m->blen, arg - m->blen, fillkey);
				vf_fill(m->body + m->blen, arg - m->blen, fillkey);
			}
		}
		m->blen = arg;
		break;
	case OP_CLEAR:
		nng_msg_clear(msg);
		m->blen = 0;
		break;
	case OP_HCLEAR:
		nng_msg_header_clear(msg);
		m->hlen = 0;
		break;
	case OP_RESERVE:
		if (arg > BODY_MAX) return true;
		rv = nng_msg_reserve(msg, arg);
		if (rv == 0 && nng_msg_capacity(msg) < arg) {
			vf_violation("C17/reserve-capacity", "%s: capacity %zu after reserve", desc, nng_msg_capacity(msg));
			return false;
		}
		break;
	case OP_DUP: {
		nng_msg *d = NULL;
		rv = nng_msg_dup(&d, msg);
		if (rv != 0) break;
		if (!compare(d, m, "dup(copy)")) { nng_msg_free(d); return false; }
		// scribble on the original and grow it: the copy must not change
		if (nng_msg_len(msg)) memset(nng_msg_body(msg), 0x5a, nng_msg_len(msg));
		if (nng_msg_header_len(msg)) memset(nng_msg_header(msg), 0x5a, nng_msg_header_len(msg));
		(void) nng_msg_append(msg, "xyzzy", 5);
		(void) nng_msg_header_chop(msg, nng_msg_header_len(msg) ? 1 : 0);
		if (!compare(d, m, "dup(copy after original edited)")) {
			vf_violation("C17/dup-not-independent", "%s", desc);
			nng_msg_free(d); return false;
		}
		if (arg & 1) {
			// continue with the copy
			nng_msg_free(msg);
			*pmsg = msg = d;
		} else {
			// continue with the original: restore it through the API
			nng_msg_clear(msg); nng_msg_header_clear(msg);
			(void) nng_msg_append(msg, m->body, m->blen);
			(void) nng_msg_header_append(msg, m->hdr, m->hlen);
			// now edit the copy, the original must not change
			if (nng_msg_len(d)) memset(nng_msg_body(d), 0xa5, nng_msg_len(d));
			(void) nng_msg_insert(d, "plugh", 5);
			nng_msg_free(d);
		}
		break;
	}
	}
	if (rv != mrv) {
		vf_violation("C17/model/return-code", "%s: returned %d (%s), model %d",
		    desc, rv, nng_strerror(rv), mrv);
		return false;
	}
	vf_class("%s/%s/hdr%s/rv%d", opnames[op], lencls(m->blen), m->hlen == 0 ? "0" : m->hlen == HDR_MAX ? "full" : "some", rv);
	return compare(msg, m, desc);
}

static const size_t bias_sizes[] = { 0, 1, 2, 3, 4, 7, 8, 9, 15, 16, 17, 31, 32,
	33, 40, 63, 64, 65, 100, 127, 128, 255, 256, 511, 512, 1000, 1023, 1024,
	1025, 1500, 2047, 2048, 2049, 4095, 4096, 4097, 8192 };
#define NBIAS (sizeof(bias_sizes) / sizeof(bias_sizes[0]))

static size_t
pick_size(vf_rng *r, size_t cur)
{
	switch (vf_below(r, 6)) {
	case 0: return vf_below(r, 9);
	case 1: return bias_sizes[vf_below(r, NBIAS)];
	case 2: return cur;                  // exactly everything
	case 3: return cur + 1;              // one too many
	case 4: return cur ? cur - 1 : 0;
	default: return vf_below(r, 300);
	}
}

static nng_msg *
fresh(model *m, size_t sz, uint64_t key)
{
	nng_msg *msg;
	if (nng_msg_alloc(&msg, sz) != 0) vf_harness_fail("nng_msg_alloc(%zu)", sz);
	if (nng_msg_len(msg) != sz) {
		vf_violation("C17/alloc-length", "alloc(%zu) gave len %zu", sz, nng_msg_len(msg));
	}
	m->hlen = 0;
	m->blen = sz;
	vf_fill(m->body, sz, key);
	if (sz) memcpy(nng_msg_body(msg), m->body, sz);
	return msg;
}

// --- exhaustive mode: reduced alphabet of (op,arg,w)
typedef struct { int op; size_t arg; int w; } eop;
static const eop ealpha[] = {
	{ OP_APPEND, 1, 0 }, { OP_APPEND, 40, 0 }, { OP_APPEND, 1100, 0 },
	{ OP_INSERT, 1, 0 }, { OP_INSERT, 33, 0 }, { OP_INSERT, 700, 0 },
	{ OP_TRIM, 1, 0 }, { OP_TRIM, 36, 0 }, { OP_CHOP, 5, 0 },
	{ OP_INSERT_U, 0, 4 }, { OP_TRIM_U, 0, 4 }, { OP_APPEND_U, 0, 8 },
	{ OP_HAPPEND_U, 0, 4 }, { OP_HINSERT, 30, 0 }, { OP_HTRIM_U, 0, 4 },
	{ OP_REALLOC, 9, 0 }, { OP_RESERVE, 2048, 0 }, { OP_CLEAR, 0, 0 },
	{ OP_DUP, 1, 0 }, { OP_DUP, 0, 0 },
};
#define NEA ((int) (sizeof(ealpha) / sizeof(ealpha[0])))
static const size_t einit[] = { 0, 7, 1024 };

static void
run_exhaustive(int maxlen)
{
	model m;
	m_init(&m);
	long idx = 0;
	// shard: worker takes sequences whose index % nshards == shard
	long nshards = vf_nshards, shard = vf_shard;
	for (int len = 1; len <= maxlen; len++) {
		long total = 1;
		for (int i = 0; i < len; i++) total *= NEA;
		for (int ii = 0; ii < 3; ii++) {
			for (long s = 0; s < total; s++, idx++) {
				if ((idx % nshards) != shard || !vf_want_case(idx)) continue;
				long x = s;
				vf_case_begin(idx, "exh len=%d init=%zu seq#%ld", len, einit[ii], s);
				nng_msg *msg = fresh(&m, einit[ii], (uint64_t) idx);
				char seq[160]; size_t sl = 0; seq[0] = 0;
				for (int i = 0; i < len; i++) {
					const eop *e = &ealpha[x % NEA];
					x /= NEA;
					if (sl + 24 < sizeof(seq)) sl += (size_t) snprintf(seq + sl, sizeof(seq) - sl, "%s%s(%zu)", i ? "," : "", opnames[e->op], e->op >= OP_APPEND_U && e->op <= OP_HCHOP_U ? (size_t) e->w : e->arg);
					if (!apply(&msg, &m, e->op, e->arg, e->w, (uint64_t) idx * 31 + (uint64_t) i)) break;
				}
				if ((idx & 0x3fff) == 0) vf_sample("{\"init\":%zu,\"ops\":\"%s\"}", einit[ii], seq);
				nng_msg_free(msg);
				vf_stat("cases", 1);
				if ((idx & 0xfff) == 0) vf_watchdog(120);
			}
		}
	}
	free(m.body);
}

static void
run_random(void)
{
	model  m;
	vf_rng r;
	m_init(&m);
	for (long c = 0; c < vf_cases; c++) {
		if (!vf_want_case(c)) continue;
		vf_rng_seed(&r, vf_seed, (uint64_t) c);
		size_t init = pick_size(&r, 0);
		if (vf_chance(&r, 1, 8)) init = (size_t) 1 << vf_range(&r, 10, 13);
		int nops = (int) vf_range(&r, 5, 60);
		vf_case_begin(c, "rand init=%zu nops=%d", init, nops);
		nng_msg *msg = fresh(&m, init, vf_rand(&r));
		char seq[400]; size_t sl = 0; seq[0] = 0;
		for (int i = 0; i < nops; i++) {
			int op = (int) vf_below(&r, OP_NOPS);
			int w  = 2 << vf_below(&r, 3);
			size_t arg;
			bool hdr = (op >= OP_HAPPEND && op <= OP_HCHOP);
			if (hdr) {
				arg = vf_chance(&r, 1, 3) ? (size_t) (HDR_MAX - m.hlen) + vf_below(&r, 3) : vf_below(&r, 70);
				if (arg > 0 && vf_chance(&r, 1, 2)) arg--;
				if (op == OP_HTRIM || op == OP_HCHOP) arg = vf_chance(&r, 1, 2) ? m.hlen + vf_below(&r, 2) : vf_below(&r, (uint32_t) m.hlen + 2);
			} else if (op == OP_TRIM || op == OP_CHOP) {
				arg = vf_chance(&r, 1, 3) ? pick_size(&r, m.blen) : vf_below(&r, (uint32_t) m.blen + 2);
			} else if (op == OP_REALLOC || op == OP_RESERVE) {
				arg = pick_size(&r, m.blen);
			} else {
				arg = pick_size(&r, m.blen);
				if (arg > 9000) arg = 9000;
			}
			if (m.blen > 40000 && (op == OP_APPEND || op == OP_INSERT)) { op = OP_TRIM; arg = m.blen / 2; }
			if (sl + 30 < sizeof(seq)) sl += (size_t) snprintf(seq + sl, sizeof(seq) - sl, "%s%s(%zu)", i ? "," : "", opnames[op], op >= OP_APPEND_U && op <= OP_HCHOP_U ? (size_t) w : arg);
			if (!apply(&msg, &m, op, arg, w, vf_rand(&r))) break;
		}
		if ((c & 0x3ff) == 0) vf_sample("{\"init\":%zu,\"ops\":\"%s\"}", init, seq);
		nng_msg_free(msg);
		vf_stat("cases", 1);
		if ((c & 0xff) == 0) vf_watchdog(120);
	}
	free(m.body);
}

// --- huge mode: sizes near SIZE_MAX.  No such request can be satisfied, so
// every one of them must fail with NNG_ENOMEM and leave the message as it was
// (a "success" would claim a length or capacity that the storage cannot
// have); the accounting allocator refuses anything above 2^40 bytes.
static void
run_huge(void)
{
	static const size_t inits[] = { 0, 1, 7, 31, 32, 33, 64, 1000, 1024, 4096 };
	static const size_t below[] = { 0, 1, 2, 7, 8, 15, 16, 31, 32, 33, 47, 48, 63, 64, 65, 127, 128, 1023, 1024, 4095, 4096, 65535 };
	static const char  *hops[]  = { "realloc", "reserve", "append", "insert", "alloc" };
	model m;
	long  c = 0;
	m_init(&m);
	for (size_t ii = 0; ii < sizeof(inits) / sizeof(inits[0]); ii++) {
		for (int pre = 0; pre < 4; pre++) { // 0 none, 1 trim 3 (more headroom), 2 insert 8 (less), 3 chop+realloc smaller
			for (int base = 0; base < 3; base++) { // SIZE_MAX - k, SIZE_MAX/2 + 1 + k, 2^62 + k
				for (size_t bi = 0; bi < sizeof(below) / sizeof(below[0]); bi++) {
					for (int op = 0; op < 5; op++, c++) {
						if (!vf_want_case(c)) continue;
						size_t k = below[bi];
						size_t arg = base == 0 ? SIZE_MAX - k : base == 1 ? SIZE_MAX / 2 + 1 + k : ((size_t) 1 << 62) + k;
						vf_case_begin(c, "huge init=%zu pre=%d %s(%zx)", inits[ii], pre, hops[op], arg);
						nng_msg *msg = fresh(&m, inits[ii], (uint64_t) c);
						bool     ok  = true;
						if (pre == 1 && m.blen >= 3) ok = apply(&msg, &m, OP_TRIM, 3, 0, 1);
						if (pre == 2) ok = apply(&msg, &m, OP_INSERT, 8, 0, 2);
						if (pre == 3 && m.blen >= 2) ok = apply(&msg, &m, OP_CHOP, 1, 0, 3) && apply(&msg, &m, OP_REALLOC, m.blen / 2, 0, 4);
						int rv = 0;
						steps++;
						if (ok) {
							nng_msg *other = NULL;
							switch (op) {
							case 0: rv = nng_msg_realloc(msg, arg); break;
							case 1: rv = nng_msg_reserve(msg, arg); break;
							case 2: rv = nng_msg_append(msg, scratch, arg); break;
							case 3: rv = nng_msg_insert(msg, scratch, arg); break;
							case 4:
								rv = nng_msg_alloc(&other, arg);
								if (rv == 0) {
									vf_violation("C17/huge/alloc-succeeded", "nng_msg_alloc(%zx) returned 0 with len %zu capacity %zu", arg, nng_msg_len(other), nng_msg_capacity(other));
									nng_msg_free(other);
								}
								break;
							}
							if (rv != NNG_ENOMEM) {
								char key[64];
								snprintf(key, sizeof(key), "C17/huge/%s-returned-%d", hops[op], rv);
								vf_violation(key, "%s(%zx) on a message of %zu bytes (capacity %zu) returned %d (%s); length now %zu capacity %zu", hops[op], arg, m.blen, nng_msg_capacity(msg), rv, nng_strerror(rv), nng_msg_len(msg), nng_msg_capacity(msg));
							} else {
								vf_class("huge/%s/%s/pre%d/base%d/enomem", hops[op], lencls(m.blen), pre, base);
								if (compare(msg, &m, "huge request refused") && nng_msg_capacity(msg) < nng_msg_len(msg)) {
									vf_violation("C17/capacity-below-length", "after refused %s: capacity %zu < length %zu", hops[op], nng_msg_capacity(msg), nng_msg_len(msg));
								}
								// and the message still works
								(void) apply(&msg, &m, OP_APPEND, 5, 0, 5);
							}
						}
						nng_msg_free(msg);
						vf_stat("cases", 1);
						vf_stat("huge_requests", 1);
					}
				}
			}
		}
		vf_watchdog(120);
	}
	free(m.body);
}

int
main(int argc, char **argv)
{
	vf_init(argc, argv);
	vf_nng_init(2, 1, 1);
	if (!strcmp(vf_mode, "exh3")) run_exhaustive(3);
	else if (!strcmp(vf_mode, "exh4")) run_exhaustive(4);
	else if (!strcmp(vf_mode, "huge")) run_huge();
	else run_random();
	vf_stat("steps", steps);
	vf_nng_fini("C17");
	return vf_finish();
}
