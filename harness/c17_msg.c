// C17: nng_msg behaves as two byte strings under all edit sequences.
// Model-based monitor: every public nng_msg_* edit is mirrored on a pair of
// plain byte vectors; after every step the full observable state (return
// code, header bytes, body bytes, lengths, capacity>=len) is compared.
// Modes: "exh3"/"exh4" exhaustive short sequences over a reduced alphabet,
//        "rand" long random sequences with boundary-biased sizes,
//        "huge" requests that no allocation can satisfy (near SIZE_MAX, and
//               2^27..2^40 against a 64 MiB allocation limit),
//        "alias" the source of an append/insert lies inside the message itself
//               (own violation key family C17/alias/..., own run line in the spec).
// Which allocator path a step took (in place / regrow at offset 0 / regrow
// with data at a non-zero offset; insert through headroom / slack split /
// regrow; trim to empty) is derived from observable quantities only: the body
// pointer, nng_msg_capacity and the heap block that holds the body (ASan's
// __asan_locate_address); it is recorded as classes path/... and stats path_*.
#include "vfh.h"
#include "core/nng_impl.h" // white box: nni_msg_pull_up / nni_msg_clone (alias mode)
#include <errno.h>
#include <fcntl.h>
#include <signal.h>
#include <sys/resource.h>
#include <sys/wait.h>
#include <unistd.h>

#if defined(__SANITIZE_ADDRESS__)
#include <sanitizer/asan_interface.h>
#define C17_ASAN 1
// Requests above 64 MiB are refused by the allocator (returns NULL): lets the
// huge mode ask for 2^27..2^40 bytes without ever touching that much memory.
// No other mode needs more than 64 KiB + headroom.
const char *__asan_default_options(void);
const char *
__asan_default_options(void)
{
	return "max_allocation_size_mb=64";
}
#endif

#define HDR_MAX 64
#define BODY_MAX (1 << 16)

typedef struct {
	uint8_t hdr[HDR_MAX];
	size_t  hlen;
	uint8_t *body;
	size_t  blen;
} model;

static uint8_t scratch[BODY_MAX];
static long    steps;

static void
m_init(model *m)
{
	m->hlen = 0;
	m->blen = 0;
	m->body = malloc(BODY_MAX);
}

static const char *
lencls(size_t n)
{
	if (n == 0) return "0";
	if (n < 8) return "1-7";
	if (n < 32) return "8-31";
	if (n == 32) return "32";
	if (n < 64) return "33-63";
	if (n < 1024) return "64-1023";
	if (n == 1024) return "1024";
	if (n < 2048) return "1025-2047";
	if (n == 2048) return "2048";
	if (n == 4096) return "4096";
	return ">2048";
}

// Difference between the real message and the model: 0 = none.
enum { D_OK, D_LEN, D_HDR, D_BODY, D_CAP };
static const char *dnames[] = { "ok", "length", "header-bytes", "body-bytes", "capacity-below-length" };

static int
msg_diff(nng_msg *msg, const model *m, char *why, size_t wsz)
{
	size_t hl = nng_msg_header_len(msg);
	size_t bl = nng_msg_len(msg);
	why[0] = 0;
	if (hl != m->hlen || bl != m->blen) {
		snprintf(why, wsz, "header_len=%zu body_len=%zu, model %zu/%zu", hl, bl, m->hlen, m->blen);
		return D_LEN;
	}
	if (hl && memcmp(nng_msg_header(msg), m->hdr, hl) != 0) {
		size_t i = 0;
		const uint8_t *b = nng_msg_header(msg);
		while (i < hl && b[i] == m->hdr[i]) i++;
		snprintf(why, wsz, "header differs at offset %zu of %zu (got %02x want %02x)", i, hl, b[i], m->hdr[i]);
		return D_HDR;
	}
	if (bl && memcmp(nng_msg_body(msg), m->body, bl) != 0) {
		size_t i = 0;
		const uint8_t *b = nng_msg_body(msg);
		while (i < bl && b[i] == m->body[i]) i++;
		snprintf(why, wsz, "body differs at offset %zu of %zu (got %02x want %02x)", i, bl, b[i], m->body[i]);
		return D_BODY;
	}
	if (nng_msg_capacity(msg) < bl) {
		snprintf(why, wsz, "capacity %zu < len %zu", nng_msg_capacity(msg), bl);
		return D_CAP;
	}
	return D_OK;
}

static bool
compare(nng_msg *msg, const model *m, const char *op)
{
	char why[160];
	switch (msg_diff(msg, m, why, sizeof(why))) {
	case D_OK: return true;
	case D_LEN: vf_violation("C17/model/length", "after %s: %s", op, why); break;
	case D_HDR: vf_violation("C17/model/header-bytes", "after %s: %s", op, why); break;
	case D_BODY: vf_violation("C17/model/body-bytes", "after %s: %s", op, why); break;
	default: vf_violation("C17/capacity-below-length", "after %s: %s", op, why); break;
	}
	return false;
}

// --- storage geometry from observable quantities (no library internals):
// the heap block that holds the body pointer is found with ASan; the bytes
// the accounting allocator puts in front of a block are calibrated once with
// nng_alloc.  head = bytes in front of the body inside the block (the
// "headroom" / data offset), tail = free bytes behind the body.
typedef struct {
	bool           ok;
	const uint8_t *buf;  // first byte of the chunk storage
	const uint8_t *body;
	size_t         cap, head, tail, len;
} geom;

static bool   geom_on;
static size_t geom_front;

static void
geom_calibrate(void)
{
#ifdef C17_ASAN
	uint8_t *p = nng_alloc(100);
	char     name[16];
	void    *ra = NULL;
	size_t   rs = 0;
	if (p == NULL) return;
	const char *k = __asan_locate_address(p, name, sizeof(name), &ra, &rs);
	if (k != NULL && !strcmp(k, "heap") && ra != NULL && (uint8_t *) ra <= p && rs >= 100 &&
	    (size_t) (p - (uint8_t *) ra) == rs - 100) {
		geom_front = (size_t) (p - (uint8_t *) ra);
		geom_on    = true;
	}
	nng_free(p, 100);
#endif
}

static void
geom_of(nng_msg *msg, geom *g)
{
	memset(g, 0, sizeof(*g));
	g->len  = nng_msg_len(msg);
	g->body = nng_msg_body(msg);
#ifdef C17_ASAN
	if (!geom_on || g->body == NULL) return;
	char   name[16];
	void  *ra = NULL;
	size_t rs = 0;
	const char *k = __asan_locate_address((void *) g->body, name, sizeof(name), &ra, &rs);
	if (k == NULL || strcmp(k, "heap") != 0 || ra == NULL || rs < geom_front) return;
	g->buf = (const uint8_t *) ra + geom_front;
	g->cap = rs - geom_front;
	if (g->body < g->buf || g->body > g->buf + g->cap) return;
	g->head = (size_t) (g->body - g->buf);
	if (g->len > g->cap - g->head) return;
	g->tail = g->cap - g->head - g->len;
	// cross-check with the public view of the same quantity
	if (nng_msg_capacity(msg) != g->cap - g->head) {
		vf_stat("path_geom_inconsistent", 1);
		return;
	}
	g->ok = true;
#endif
}

static const char *
offcls(size_t h)
{
	return h == 0 ? "off0" : h < 32 ? "off1-31" : h == 32 ? "off32" : h < 1024 ? "off33-1023" : "off1024+";
}
static const char *
tailcls(size_t t)
{
	return t == 0 ? "tail0" : t < 8 ? "tail1-7" : t <= 32 ? "tail8-32" : "tail33+";
}

enum { F_APPEND, F_INSERT, F_REALLOC, F_RESERVE, F_TRIM };
static const char *fnames[] = { "append", "insert", "realloc", "reserve", "trim" };

// branch a successful growing / removing step took, from before/after geometry
static const char *
path_branch(int fam, size_t n, const geom *a, const geom *b)
{
	bool moved = a->buf != b->buf;
	switch (fam) {
	case F_INSERT:
		if (!moved && b->body + n == a->body) return "headroom";
		if (!moved) return "split";
		return a->head == 0 ? "regrow-off0" : "regrow-offnz";
	case F_TRIM:
		return b->len == 0 ? "toempty" : "advance";
	default:
		if (!moved) return "inplace";
		return a->head == 0 ? "regrow-off0" : "regrow-offnz";
	}
}

static void
path_note(int fam, size_t n, const geom *a, nng_msg *msg)
{
	geom b;
	char key[64];
	if (n == 0) return;
	geom_of(msg, &b);
	if (!a->ok || !b.ok) {
		vf_stat("path_unknown", 1);
		return;
	}
	const char *br = path_branch(fam, n, a, &b);
	snprintf(key, sizeof(key), "path_%s_%s", fnames[fam], br);
	vf_stat(key, 1);
	vf_class("path/%s/%s/%s/%s/%s", fnames[fam], br, offcls(a->head), tailcls(a->tail), a->len == 0 ? "empty" : "data");
	if (a->buf != b.buf && b.head == a->head && a->head != 0) vf_stat("path_regrow_kept_offset", 1);
	vf_stat_max("max_offset", (long) b.head);
	vf_stat_max("max_body_len", (long) b.len);
	vf_stat_max("max_storage", (long) b.cap);
}

// operation codes
enum {
	OP_APPEND, OP_INSERT, OP_TRIM, OP_CHOP, OP_HAPPEND, OP_HINSERT, OP_HTRIM,
	OP_HCHOP, OP_APPEND_U, OP_INSERT_U, OP_TRIM_U, OP_CHOP_U, OP_HAPPEND_U,
	OP_HINSERT_U, OP_HTRIM_U, OP_HCHOP_U, OP_REALLOC, OP_CLEAR, OP_HCLEAR,
	OP_RESERVE, OP_DUP, OP_NOPS
};
static const char *opnames[] = { "append", "insert", "trim", "chop",
	"header_append", "header_insert", "header_trim", "header_chop",
	"append_uN", "insert_uN", "trim_uN", "chop_uN", "header_append_uN",
	"header_insert_uN", "header_trim_uN", "header_chop_uN", "realloc", "clear",
	"header_clear", "reserve", "dup" };

static void
be_put(uint8_t *p, uint64_t v, int w)
{
	for (int i = 0; i < w; i++) {
		p[i] = (uint8_t) (v >> (8 * (w - 1 - i)));
	}
}
static uint64_t
be_get(const uint8_t *p, int w)
{
	uint64_t v = 0;
	for (int i = 0; i < w; i++) {
		v = (v << 8) | p[i];
	}
	return v;
}

// Apply one op to both; returns false on mismatch.  *pmsg may be replaced
// (dup).  arg is a size or value; w is the integer width for _uN ops.
static bool
apply(nng_msg **pmsg, model *m, int op, size_t arg, int w, uint64_t fillkey)
{
	nng_msg *msg = *pmsg;
	int      rv = 0, mrv = 0;
	char     desc[96];
	uint64_t val = vf_mix64(fillkey);
	uint8_t  vb[8];
	geom     g0;
	int      fam  = -1; // allocator path family of this step (F_*), -1 none
	size_t   pn   = 0;  // bytes the step adds / removes

	geom_of(msg, &g0);
	snprintf(desc, sizeof(desc), "%s(%zu,w=%d) on len=%zu hdr=%zu",
	    opnames[op], arg, w, m->blen, m->hlen);
	steps++;
	switch (op) {
	case OP_APPEND:
		if (m->blen + arg > BODY_MAX) return true;
		vf_fill(scratch, arg, fillkey);
		rv = nng_msg_append(msg, scratch, arg);
		memcpy(m->body + m->blen, scratch, arg);
		m->blen += arg;
		fam = F_APPEND; pn = arg;
		break;
	case OP_INSERT:
		if (m->blen + arg > BODY_MAX) return true;
		vf_fill(scratch, arg, fillkey);
		rv = nng_msg_insert(msg, scratch, arg);
		memmove(m->body + arg, m->body, m->blen);
		memcpy(m->body, scratch, arg);
		m->blen += arg;
		fam = F_INSERT; pn = arg;
		break;
	case OP_TRIM:
		rv = nng_msg_trim(msg, arg);
		if (arg > m->blen) mrv = NNG_EINVAL;
		else { memmove(m->body, m->body + arg, m->blen - arg); m->blen -= arg; fam = F_TRIM; pn = arg; }
		break;
	case OP_CHOP:
		rv = nng_msg_chop(msg, arg);
		if (arg > m->blen) mrv = NNG_EINVAL;
		else m->blen -= arg;
		break;
	case OP_HAPPEND:
		vf_fill(scratch, arg, fillkey);
		rv = nng_msg_header_append(msg, scratch, arg);
		if (m->hlen + arg > HDR_MAX) mrv = NNG_EINVAL;
		else { memcpy(m->hdr + m->hlen, scratch, arg); m->hlen += arg; }
		break;
	case OP_HINSERT:
		vf_fill(scratch, arg, fillkey);
		rv = nng_msg_header_insert(msg, scratch, arg);
		if (m->hlen + arg > HDR_MAX) mrv = NNG_EINVAL;
		else { memmove(m->hdr + arg, m->hdr, m->hlen); memcpy(m->hdr, scratch, arg); m->hlen += arg; }
		break;
	case OP_HTRIM:
		rv = nng_msg_header_trim(msg, arg);
		if (arg > m->hlen) mrv = NNG_EINVAL;
		else { memmove(m->hdr, m->hdr + arg, m->hlen - arg); m->hlen -= arg; }
		break;
	case OP_HCHOP:
		rv = nng_msg_header_chop(msg, arg);
		if (arg > m->hlen) mrv = NNG_EINVAL;
		else m->hlen -= arg;
		break;
	case OP_APPEND_U:
	case OP_INSERT_U:
		if (m->blen + 8 > BODY_MAX) return true;
		be_put(vb, val, 8);
		// value truncated to width, big-endian
		if (w == 2) val &= 0xffff; else if (w == 4) val &= 0xffffffffu;
		be_put(vb, val, w);
		if (op == OP_APPEND_U) {
			rv = w == 2 ? nng_msg_append_u16(msg, (uint16_t) val)
			   : w == 4 ? nng_msg_append_u32(msg, (uint32_t) val)
			            : nng_msg_append_u64(msg, val);
			memcpy(m->body + m->blen, vb, (size_t) w);
		} else {
			rv = w == 2 ? nng_msg_insert_u16(msg, (uint16_t) val)
			   : w == 4 ? nng_msg_insert_u32(msg, (uint32_t) val)
			            : nng_msg_insert_u64(msg, val);
			memmove(m->body + w, m->body, m->blen);
			memcpy(m->body, vb, (size_t) w);
		}
		m->blen += (size_t) w;
		fam = op == OP_APPEND_U ? F_APPEND : F_INSERT; pn = (size_t) w;
		break;
	case OP_TRIM_U:
	case OP_CHOP_U: {
		uint16_t v16 = 0xdead; uint32_t v32 = 0xdeadbeef; uint64_t v64 = 0xdeadbeefcafef00dULL;
		uint64_t got, want = 0;
		bool front = op == OP_TRIM_U;
		if (front)
			rv = w == 2 ? nng_msg_trim_u16(msg, &v16) : w == 4 ? nng_msg_trim_u32(msg, &v32) : nng_msg_trim_u64(msg, &v64);
		else
			rv = w == 2 ? nng_msg_chop_u16(msg, &v16) : w == 4 ? nng_msg_chop_u32(msg, &v32) : nng_msg_chop_u64(msg, &v64);
		got = w == 2 ? v16 : w == 4 ? v32 : v64;
		if ((size_t) w > m->blen) {
			mrv = NNG_EINVAL;
			// "no change": a refused call must not have stored a value either
			if (got != (w == 2 ? 0xdeadULL : w == 4 ? 0xdeadbeefULL : 0xdeadbeefcafef00dULL)) {
				vf_violation("C17/einval-wrote-output", "%s: refused (rv %d) but the output variable now holds %llx", desc, rv, (unsigned long long) got);
				return false;
			}
		} else {
			if (front) { fam = F_TRIM; pn = (size_t) w; }
			if (front) { want = be_get(m->body, w); memmove(m->body, m->body + w, m->blen - (size_t) w); }
			else want = be_get(m->body + m->blen - w, w);
			m->blen -= (size_t) w;
			if (rv == 0 && got != want) {
				vf_violation("C17/model/integer-value", "%s: got %llx want %llx", desc,
				    (unsigned long long) got, (unsigned long long) want);
				return false;
			}
		}
		break;
	}
	case OP_HAPPEND_U:
	case OP_HINSERT_U:
		if (w == 2) val &= 0xffff; else if (w == 4) val &= 0xffffffffu;
		be_put(vb, val, w);
		if (op == OP_HAPPEND_U)
			rv = w == 2 ? nng_msg_header_append_u16(msg, (uint16_t) val) : w == 4 ? nng_msg_header_append_u32(msg, (uint32_t) val) : nng_msg_header_append_u64(msg, val);
		else
			rv = w == 2 ? nng_msg_header_insert_u16(msg, (uint16_t) val) : w == 4 ? nng_msg_header_insert_u32(msg, (uint32_t) val) : nng_msg_header_insert_u64(msg, val);
		if (m->hlen + (size_t) w > HDR_MAX) mrv = NNG_EINVAL;
		else if (op == OP_HAPPEND_U) { memcpy(m->hdr + m->hlen, vb, (size_t) w); m->hlen += (size_t) w; }
		else { memmove(m->hdr + w, m->hdr, m->hlen); memcpy(m->hdr, vb, (size_t) w); m->hlen += (size_t) w; }
		break;
	case OP_HTRIM_U:
	case OP_HCHOP_U: {
		uint16_t v16 = 0xdead; uint32_t v32 = 0xdeadbeef; uint64_t v64 = 0xdeadbeefcafef00dULL;
		uint64_t got, want = 0;
		bool front = op == OP_HTRIM_U;
		if (front)
			rv = w == 2 ? nng_msg_header_trim_u16(msg, &v16) : w == 4 ? nng_msg_header_trim_u32(msg, &v32) : nng_msg_header_trim_u64(msg, &v64);
		else
			rv = w == 2 ? nng_msg_header_chop_u16(msg, &v16) : w == 4 ? nng_msg_header_chop_u32(msg, &v32) : nng_msg_header_chop_u64(msg, &v64);
		got = w == 2 ? v16 : w == 4 ? v32 : v64;
		if ((size_t) w > m->hlen) {
			mrv = NNG_EINVAL;
			if (got != (w == 2 ? 0xdeadULL : w == 4 ? 0xdeadbeefULL : 0xdeadbeefcafef00dULL)) {
				vf_violation("C17/einval-wrote-output", "%s: refused (rv %d) but the output variable now holds %llx", desc, rv, (unsigned long long) got);
				return false;
			}
		} else {
			if (front) { want = be_get(m->hdr, w); memmove(m->hdr, m->hdr + w, m->hlen - (size_t) w); }
			else want = be_get(m->hdr + m->hlen - w, w);
			m->hlen -= (size_t) w;
			if (rv == 0 && got != want) {
				vf_violation("C17/model/integer-value", "%s: got %llx want %llx", desc,
				    (unsigned long long) got, (unsigned long long) want);
				return false;
			}
		}
		break;
	}
	case OP_REALLOC:
		if (arg > BODY_MAX) return true;
		rv = nng_msg_realloc(msg, arg);
		if (arg > m->blen) { fam = F_REALLOC; pn = arg - m->blen; }
		if (rv == 0 && arg > m->blen) {
			// new bytes are unspecified: define them (application write)
			if (nng_msg_len(msg) == arg) {
				vf_fill((uint8_t *) nng_msg_body(msg) + m->blen, arg - m->blen, fillkey);
				vf_fill(m->body + m->blen, arg - m->blen, fillkey);
			}
		}
		m->blen = arg;
		break;
	case OP_CLEAR:
		nng_msg_clear(msg);
		m->blen = 0;
		break;
	case OP_HCLEAR:
		nng_msg_header_clear(msg);
		m->hlen = 0;
		break;
	case OP_RESERVE:
		if (arg > BODY_MAX) return true;
		rv = nng_msg_reserve(msg, arg);
		if (g0.ok && arg > g0.cap - g0.head) { fam = F_RESERVE; pn = arg - (g0.cap - g0.head); }
		if (rv == 0 && nng_msg_capacity(msg) < arg) {
			vf_violation("C17/reserve-capacity", "%s: capacity %zu after reserve", desc, nng_msg_capacity(msg));
			return false;
		}
		break;
	case OP_DUP: {
		nng_msg *d = NULL;
		rv = nng_msg_dup(&d, msg);
		if (rv != 0) break;
		if (!compare(d, m, "dup(copy)")) { nng_msg_free(d); return false; }
		// scribble on the original and grow it: the copy must not change
		if (nng_msg_len(msg)) memset(nng_msg_body(msg), 0x5a, nng_msg_len(msg));
		if (nng_msg_header_len(msg)) memset(nng_msg_header(msg), 0x5a, nng_msg_header_len(msg));
		(void) nng_msg_append(msg, "xyzzy", 5);
		(void) nng_msg_header_chop(msg, nng_msg_header_len(msg) ? 1 : 0);
		if (!compare(d, m, "dup(copy after original edited)")) {
			vf_violation("C17/dup-not-independent", "%s", desc);
			nng_msg_free(d); return false;
		}
		if (arg & 1) {
			// continue with the copy
			nng_msg_free(msg);
			*pmsg = msg = d;
		} else {
			// continue with the original: restore it through the API
			nng_msg_clear(msg); nng_msg_header_clear(msg);
			(void) nng_msg_append(msg, m->body, m->blen);
			(void) nng_msg_header_append(msg, m->hdr, m->hlen);
			// now edit the copy, the original must not change
			if (nng_msg_len(d)) memset(nng_msg_body(d), 0xa5, nng_msg_len(d));
			(void) nng_msg_insert(d, "plugh", 5);
			nng_msg_free(d);
		}
		break;
	}
	}
	if (rv != mrv) {
		vf_violation("C17/model/return-code", "%s: returned %d (%s), model %d",
		    desc, rv, nng_strerror(rv), mrv);
		return false;
	}
	vf_class("%s/%s/hdr%s/rv%d", opnames[op], lencls(m->blen), m->hlen == 0 ? "0" : m->hlen == HDR_MAX ? "full" : "some", rv);
	if (!compare(msg, m, desc)) return false;
	if (fam >= 0 && rv == 0) path_note(fam, pn, &g0, msg);
	return true;
}

static const size_t bias_sizes[] = { 0, 1, 2, 3, 4, 7, 8, 9, 15, 16, 17, 31, 32,
	33, 40, 63, 64, 65, 100, 127, 128, 255, 256, 511, 512, 1000, 1023, 1024,
	1025, 1500, 2047, 2048, 2049, 4095, 4096, 4097, 8192 };
#define NBIAS (sizeof(bias_sizes) / sizeof(bias_sizes[0]))

static size_t
pick_size(vf_rng *r, size_t cur)
{
	switch (vf_below(r, 6)) {
	case 0: return vf_below(r, 9);
	case 1: return bias_sizes[vf_below(r, NBIAS)];
	case 2: return cur;                  // exactly everything
	case 3: return cur + 1;              // one too many
	case 4: return cur ? cur - 1 : 0;
	default: return vf_below(r, 300);
	}
}

static nng_msg *
fresh(model *m, size_t sz, uint64_t key)
{
	nng_msg *msg;
	if (nng_msg_alloc(&msg, sz) != 0) vf_harness_fail("nng_msg_alloc(%zu)", sz);
	if (nng_msg_len(msg) != sz || nng_msg_header_len(msg) != 0) {
		vf_violation("C17/alloc-length", "alloc(%zu) gave len %zu header_len %zu", sz, nng_msg_len(msg), nng_msg_header_len(msg));
	}
	if (nng_msg_capacity(msg) < sz) {
		vf_violation("C17/capacity-below-length", "after alloc(%zu): capacity %zu", sz, nng_msg_capacity(msg));
	}
	geom g;
	geom_of(msg, &g);
	if (g.ok) {
		// "powers of two >= 1024 take the no-headroom path"
		vf_stat(g.head == 0 ? "path_alloc_nohead" : "path_alloc_head", 1);
		vf_class("path/alloc/%s/%s/%s", lencls(sz), offcls(g.head), tailcls(g.tail));
	} else {
		vf_stat("path_unknown", 1);
	}
	m->hlen = 0;
	m->blen = sz;
	vf_fill(m->body, sz, key);
	if (sz) memcpy(nng_msg_body(msg), m->body, sz);
	return msg;
}

// --- exhaustive mode: reduced alphabet of (op,arg,w)
typedef struct { int op; size_t arg; int w; } eop;
static const eop ealpha[] = {
	{ OP_APPEND, 1, 0 }, { OP_APPEND, 40, 0 }, { OP_APPEND, 1100, 0 },
	{ OP_INSERT, 1, 0 }, { OP_INSERT, 33, 0 }, { OP_INSERT, 700, 0 },
	{ OP_TRIM, 1, 0 }, { OP_TRIM, 36, 0 }, { OP_CHOP, 5, 0 },
	{ OP_INSERT_U, 0, 4 }, { OP_TRIM_U, 0, 4 }, { OP_APPEND_U, 0, 8 },
	{ OP_HAPPEND_U, 0, 4 }, { OP_HINSERT, 30, 0 }, { OP_HTRIM_U, 0, 4 },
	{ OP_REALLOC, 9, 0 }, { OP_RESERVE, 2048, 0 }, { OP_CLEAR, 0, 0 },
	{ OP_DUP, 1, 0 }, { OP_DUP, 0, 0 },
};
#define NEA ((int) (sizeof(ealpha) / sizeof(ealpha[0])))
static const size_t einit[] = { 0, 7, 1024 };

static void
run_exhaustive(int maxlen)
{
	model m;
	m_init(&m);
	long idx = 0;
	// shard: worker takes sequences whose index % nshards == shard
	long nshards = vf_nshards, shard = vf_shard;
	for (int len = 1; len <= maxlen; len++) {
		long total = 1;
		for (int i = 0; i < len; i++) total *= NEA;
		for (int ii = 0; ii < 3; ii++) {
			for (long s = 0; s < total; s++, idx++) {
				if ((idx % nshards) != shard || !vf_want_case(idx)) continue;
				long x = s;
				vf_case_begin(idx, "exh len=%d init=%zu seq#%ld", len, einit[ii], s);
				nng_msg *msg = fresh(&m, einit[ii], (uint64_t) idx);
				char seq[160]; size_t sl = 0; seq[0] = 0;
				for (int i = 0; i < len; i++) {
					const eop *e = &ealpha[x % NEA];
					x /= NEA;
					if (sl + 24 < sizeof(seq)) sl += (size_t) snprintf(seq + sl, sizeof(seq) - sl, "%s%s(%zu)", i ? "," : "", opnames[e->op], e->op >= OP_APPEND_U && e->op <= OP_HCHOP_U ? (size_t) e->w : e->arg);
					if (!apply(&msg, &m, e->op, e->arg, e->w, (uint64_t) idx * 31 + (uint64_t) i)) break;
				}
				if ((idx & 0x3fff) == 0) vf_sample("{\"init\":%zu,\"ops\":\"%s\"}", einit[ii], seq);
				nng_msg_free(msg);
				vf_stat("cases", 1);
				vf_stat("cases_exh", 1);
				if ((idx & 0xfff) == 0) vf_watchdog(120);
			}
		}
	}
	free(m.body);
}

static void
run_random(void)
{
	model  m;
	vf_rng r;
	m_init(&m);
	for (long c = 0; c < vf_cases; c++) {
		if (!vf_want_case(c)) continue;
		vf_rng_seed(&r, vf_seed, (uint64_t) c);
		size_t init = pick_size(&r, 0);
		if (vf_chance(&r, 1, 8)) init = (size_t) 1 << vf_range(&r, 10, 13);
		int nops = (int) vf_range(&r, 5, 60);
		vf_case_begin(c, "rand init=%zu nops=%d", init, nops);
		nng_msg *msg = fresh(&m, init, vf_rand(&r));
		char seq[400]; size_t sl = 0; seq[0] = 0;
		for (int i = 0; i < nops; i++) {
			int op = (int) vf_below(&r, OP_NOPS);
			int w  = 2 << vf_below(&r, 3);
			size_t arg;
			bool hdr = (op >= OP_HAPPEND && op <= OP_HCHOP);
			if (hdr) {
				arg = vf_chance(&r, 1, 3) ? (size_t) (HDR_MAX - m.hlen) + vf_below(&r, 3) : vf_below(&r, 70);
				if (arg > 0 && vf_chance(&r, 1, 2)) arg--;
				if (op == OP_HTRIM || op == OP_HCHOP) arg = vf_chance(&r, 1, 2) ? m.hlen + vf_below(&r, 2) : vf_below(&r, (uint32_t) m.hlen + 2);
			} else if (op == OP_TRIM || op == OP_CHOP) {
				arg = vf_chance(&r, 1, 3) ? pick_size(&r, m.blen) : vf_below(&r, (uint32_t) m.blen + 2);
			} else if (op == OP_REALLOC || op == OP_RESERVE) {
				arg = pick_size(&r, m.blen);
			} else {
				arg = pick_size(&r, m.blen);
				if (arg > 9000) arg = 9000;
			}
			if (m.blen > 40000 && (op == OP_APPEND || op == OP_INSERT)) { op = OP_TRIM; arg = m.blen / 2; }
			if (sl + 30 < sizeof(seq)) sl += (size_t) snprintf(seq + sl, sizeof(seq) - sl, "%s%s(%zu)", i ? "," : "", opnames[op], op >= OP_APPEND_U && op <= OP_HCHOP_U ? (size_t) w : arg);
			if (!apply(&msg, &m, op, arg, w, vf_rand(&r))) break;
		}
		if ((c & 0x3ff) == 0) vf_sample("{\"init\":%zu,\"ops\":\"%s\"}", init, seq);
		nng_msg_free(msg);
		vf_stat("cases", 1);
		vf_stat("cases_rand", 1);
		if ((c & 0xff) == 0) vf_watchdog(120);
	}
	free(m.body);
}

// --- huge mode: requests that cannot be satisfied.  Near SIZE_MAX (wrap of
// size_t arithmetic) and, against the 64 MiB allocation limit set above,
// around 2^27, 2^31, 2^32, 2^33 and 2^40 (a 32-bit intermediate in the chunk
// arithmetic shows at 2^32+k but not at 2^62+k).  Every such request must
// fail with NNG_ENOMEM and leave the message as it was (a "success" would
// claim a length or capacity that the storage cannot have); the accounting
// allocator refuses anything above 2^40 bytes, ASan anything above 64 MiB.
static const char *hops[] = { "realloc", "reserve", "append", "insert", "alloc" };

static void
huge_one(model *m, long c, size_t init, int pre, const char *basecls, size_t arg, int op)
{
	vf_case_begin(c, "huge init=%zu pre=%d %s(%zx)", init, pre, hops[op], arg);
	nng_msg *msg = fresh(m, init, (uint64_t) c);
	bool     ok  = true;
	// pre: 0 none, 1 trim 3 (more headroom), 2 insert 8 (less), 3 chop+realloc smaller
	if (pre == 1 && m->blen >= 3) ok = apply(&msg, m, OP_TRIM, 3, 0, 1);
	if (pre == 2) ok = apply(&msg, m, OP_INSERT, 8, 0, 2);
	if (pre == 3 && m->blen >= 2) ok = apply(&msg, m, OP_CHOP, 1, 0, 3) && apply(&msg, m, OP_REALLOC, m->blen / 2, 0, 4);
	int rv = 0;
	steps++;
	if (ok) {
		nng_msg *other = NULL;
		switch (op) {
		case 0: rv = nng_msg_realloc(msg, arg); break;
		case 1: rv = nng_msg_reserve(msg, arg); break;
		case 2: rv = nng_msg_append(msg, scratch, arg); break;
		case 3: rv = nng_msg_insert(msg, scratch, arg); break;
		case 4:
			rv = nng_msg_alloc(&other, arg);
			if (rv == 0) {
				vf_violation("C17/huge/alloc-succeeded", "nng_msg_alloc(%zx) returned 0 with len %zu capacity %zu", arg, nng_msg_len(other), nng_msg_capacity(other));
				nng_msg_free(other);
			}
			break;
		}
		if (rv != NNG_ENOMEM) {
			char key[64];
			snprintf(key, sizeof(key), "C17/huge/%s-returned-%d", hops[op], rv);
			vf_violation(key, "%s(%zx) on a message of %zu bytes (capacity %zu) returned %d (%s); length now %zu capacity %zu", hops[op], arg, m->blen, nng_msg_capacity(msg), rv, nng_strerror(rv), nng_msg_len(msg), nng_msg_capacity(msg));
		} else {
			vf_class("huge/%s/%s/pre%d/%s/enomem", hops[op], lencls(m->blen), pre, basecls);
			if (compare(msg, m, "huge request refused") && nng_msg_capacity(msg) < nng_msg_len(msg)) {
				vf_violation("C17/capacity-below-length", "after refused %s: capacity %zu < length %zu", hops[op], nng_msg_capacity(msg), nng_msg_len(msg));
			}
			// and the message still works
			(void) apply(&msg, m, OP_APPEND, 5, 0, 5);
		}
	}
	nng_msg_free(msg);
	vf_stat("cases", 1);
	vf_stat("cases_huge", 1);
}

static void
run_huge(void)
{
	static const size_t inits[] = { 0, 1, 7, 31, 32, 33, 64, 1000, 1024, 4096 };
	static const size_t below[] = { 0, 1, 2, 7, 8, 15, 16, 31, 32, 33, 47, 48, 63, 64, 65, 127, 128, 1023, 1024, 4095, 4096, 65535 };
	static const size_t minits[] = { 0, 33, 1024 };
	static const int    mbits[]  = { 27, 31, 32, 33, 40 };
	static const long   mdelta[] = { -1025, -33, -32, -1, 0, 1, 32, 33, 1024 };
	model m;
	long  c = 0;
	m_init(&m);
	for (size_t ii = 0; ii < sizeof(inits) / sizeof(inits[0]); ii++) {
		for (int pre = 0; pre < 4; pre++) {
			for (int base = 0; base < 3; base++) { // SIZE_MAX - k, SIZE_MAX/2 + 1 + k, 2^62 + k
				for (size_t bi = 0; bi < sizeof(below) / sizeof(below[0]); bi++) {
					for (int op = 0; op < 5; op++, c++) {
						if ((c % vf_nshards) != vf_shard || !vf_want_case(c)) continue;
						size_t k = below[bi];
						size_t arg = base == 0 ? SIZE_MAX - k : base == 1 ? SIZE_MAX / 2 + 1 + k : ((size_t) 1 << 62) + k;
						char   bc[16];
						snprintf(bc, sizeof(bc), "base%d", base);
						huge_one(&m, c, inits[ii], pre, bc, arg, op);
						vf_stat("huge_requests", 1);
					}
				}
			}
		}
		vf_watchdog(120);
	}
	// middle sizes: only meaningful when the allocation limit is really in force
	void *probe = nng_alloc((size_t) 1 << 27);
	if (probe != NULL) {
		nng_free(probe, (size_t) 1 << 27);
		vf_stat("huge_mid_no_limit", 1);
	} else {
		for (size_t ii = 0; ii < sizeof(minits) / sizeof(minits[0]); ii++) {
			for (int pre = 0; pre < 4; pre++) {
				for (size_t b = 0; b < sizeof(mbits) / sizeof(mbits[0]); b++) {
					for (size_t di = 0; di < sizeof(mdelta) / sizeof(mdelta[0]); di++) {
						for (int op = 0; op < 5; op++, c++) {
							if ((c % vf_nshards) != vf_shard || !vf_want_case(c)) continue;
							size_t arg = (size_t) ((long) ((size_t) 1 << mbits[b]) + mdelta[di]);
							char   bc[16];
							snprintf(bc, sizeof(bc), "2^%d%s", mbits[b], mdelta[di] < 0 ? "-" : mdelta[di] > 0 ? "+" : "");
							huge_one(&m, c, minits[ii], pre, bc, arg, op);
							vf_stat("huge_mid_requests", 1);
						}
					}
				}
			}
			vf_watchdog(120);
		}
	}
	free(m.body);
}

// --- alias mode: the source of an append / insert is a part of the message
// itself (nng_msg_append(m, nng_msg_body(m) + o, n) and friends).  The string
// model: the source bytes are taken before the edit.  The library's own
// nni_msg_pull_up does exactly this with the header as source, so it is driven
// here too (unique and shared message).
// A step that reads freed storage aborts under ASan; to keep going and to
// report it under this mode's own key family (C17/alias/...), the cases run
// in a forked child that streams one record per case through a pipe; when the
// child dies inside a case the parent reports that case and forks a new child
// behind it.  A correct library needs exactly one child.
enum {
	AK_APPEND_BODY, AK_INSERT_BODY, AK_APPEND_HDR, AK_INSERT_HDR, AK_HAPPEND_HDR, AK_HINSERT_HDR,
	AK_HAPPEND_BODY, AK_HINSERT_BODY, AK_PULLUP, AK_PULLUP_SHARED, AK_N
};
static const char *aknames[] = { "append-own-body", "insert-own-body", "append-own-header",
	"insert-own-header", "header_append-own-header", "header_insert-own-header",
	"header_append-own-body", "header_insert-own-body", "pull_up", "pull_up-shared" };
static const size_t ainit[]  = { 0, 7, 40, 100, 1024, 2048 };
static const size_t ahfill[] = { 0, 24, 40 };
#define A_NINIT 6
#define A_NPRE 9
#define A_NHF 3
#define A_NNS 10
#define A_NOS 3
#define A_TOTAL ((long) AK_N * A_NINIT * A_NPRE * A_NHF * A_NNS * A_NOS)

enum { AP_SETUP = 1, AP_OP, AP_DONE, AP_SKIP };
enum { AS_OK = 0, AS_RC, AS_DIFF, AS_HOOK, AS_ORIGINAL_CHANGED };
typedef struct {
	long idx;
	int  phase, kind, status, dcode, rv, mrv;
	char ppath[24], opath[24], lcls[12];
	char desc[120];
	char why[176];
} arec;

// Classes (kind/predicted path/length class) in which a call already died
// twice: the parent notes them, later children skip their remaining members
// (a sanitizer report costs ~0.2 s; nothing new is learnt from the 20th one).
#define A_MAXDEAD 256
static struct { char cls[64]; int n; } a_dead[A_MAXDEAD];
static int a_ndead;

static int
a_dead_count(const char *cls)
{
	for (int i = 0; i < a_ndead; i++) {
		if (!strcmp(a_dead[i].cls, cls)) return a_dead[i].n;
	}
	return 0;
}
static void
a_dead_note(const char *cls)
{
	for (int i = 0; i < a_ndead; i++) {
		if (!strcmp(a_dead[i].cls, cls)) { a_dead[i].n++; return; }
	}
	if (a_ndead < A_MAXDEAD) {
		snprintf(a_dead[a_ndead].cls, sizeof(a_dead[a_ndead].cls), "%s", cls);
		a_dead[a_ndead++].n = 1;
	}
}

static void
a_send(int fd, const arec *r)
{
	const char *p = (const char *) r;
	size_t      n = sizeof(*r);
	while (n > 0) {
		ssize_t w = write(fd, p, n);
		if (w <= 0) {
			if (w < 0 && errno == EINTR) continue;
			_exit(3);
		}
		p += w;
		n -= (size_t) w;
	}
}

// nth distinct value of a candidate list; 0 = slot is a duplicate / unusable
static size_t
a_slot(const size_t *cand, int ncand, int slot, size_t lo, size_t hi)
{
	if (slot >= ncand) return 0;
	size_t v = cand[slot];
	if (v < lo || v > hi) return 0;
	for (int i = 0; i < slot; i++) {
		if (cand[i] == v) return 0;
	}
	return v;
}

static const char *
a_predict(int fam, size_t n, const geom *g)
{
	if (!g->ok) return "unknown";
	if (fam == F_APPEND) return n <= g->tail ? "inplace" : g->head == 0 ? "regrow-off0" : "regrow-offnz";
	if (n <= g->head) return "headroom";
	if (g->len + n + 8 <= g->cap) return "split";
	return g->head == 0 ? "regrow-off0" : "regrow-offnz";
}

// runs in the child
static void
alias_case(long idx, int fd)
{
	static model   m;
	static uint8_t src_copy[BODY_MAX];
	arec           r;
	long           x = idx;
	int            oslot = (int) (x % A_NOS); x /= A_NOS;
	int            nslot = (int) (x % A_NNS); x /= A_NNS;
	int            hf    = (int) (x % A_NHF); x /= A_NHF;
	int            pre   = (int) (x % A_NPRE); x /= A_NPRE;
	int            ii    = (int) (x % A_NINIT); x /= A_NINIT;
	int            kind  = (int) x;
	bool           srcbody = kind == AK_APPEND_BODY || kind == AK_INSERT_BODY || kind == AK_HAPPEND_BODY || kind == AK_HINSERT_BODY;
	bool           dsthdr  = kind >= AK_HAPPEND_HDR && kind <= AK_HINSERT_BODY;
	bool           pullup  = kind >= AK_PULLUP;

	if (m.body == NULL) m_init(&m);
	// combinations that add nothing
	if ((kind == AK_APPEND_BODY || kind == AK_INSERT_BODY) && hf != 1) return; // header plays no role
	if ((kind == AK_HAPPEND_HDR || kind == AK_HINSERT_HDR) && (ii != 1 || pre != 0)) return; // body plays no role
	if ((kind == AK_HAPPEND_BODY || kind == AK_HINSERT_BODY) && (pre > 1 || ii < 2 || ii > 3)) return;
	if ((kind == AK_APPEND_HDR || kind == AK_INSERT_HDR) && hf == 0) return;
	if (pullup && (nslot != 0 || oslot != 0)) return;

	memset(&r, 0, sizeof(r));
	r.idx   = idx;
	r.kind  = kind;
	r.phase = AP_SETUP;
	a_send(fd, &r);
	alarm(120);

	long     v0  = vf_violations();
	nng_msg *msg = fresh(&m, ainit[ii], (uint64_t) idx);
	bool     ok  = true;
	if (ahfill[hf]) ok = apply(&msg, &m, OP_HAPPEND, ahfill[hf], 0, (uint64_t) idx + 1);
	switch (pre) { // shapes the storage: offset, slack, regrown, emptied
	case 1: if (m.blen >= 3) ok = ok && apply(&msg, &m, OP_TRIM, 3, 0, 1); break;
	case 2: if (m.blen >= 41) ok = ok && apply(&msg, &m, OP_TRIM, 40, 0, 2); break;
	case 3: if (m.blen >= 11) ok = ok && apply(&msg, &m, OP_CHOP, 5, 0, 3) && apply(&msg, &m, OP_CHOP, 5, 0, 3); break;
	case 4: ok = ok && apply(&msg, &m, OP_CHOP, m.blen / 2, 0, 4); break;
	case 5: ok = ok && apply(&msg, &m, OP_INSERT, 8, 0, 5); break;
	case 6: ok = ok && apply(&msg, &m, OP_INSERT, 40, 0, 6); break;
	case 7: ok = ok && apply(&msg, &m, OP_APPEND, 1100, 0, 7); break;
	case 8: ok = ok && apply(&msg, &m, OP_TRIM, m.blen, 0, 8) && apply(&msg, &m, OP_APPEND, 50, 0, 9); break;
	default: break;
	}
	if (!ok) { // an ordinary oracle fired during the setup; it has been reported
		r.phase = AP_SKIP;
		a_send(fd, &r);
		nng_msg_free(msg);
		return;
	}

	geom g0;
	geom_of(msg, &g0);
	size_t   L = m.blen, H = m.hlen, n = 0, o = 0;
	uint8_t *body = nng_msg_body(msg), *hdr = nng_msg_header(msg);
	size_t   S = srcbody ? L : H; // size of the source string
	if (!pullup) {
		size_t cand[A_NNS];
		int    nc = 0;
		if (kind == AK_APPEND_BODY || kind == AK_INSERT_BODY) {
			size_t smax = g0.ok && g0.cap >= L + 8 ? g0.cap - L - 8 : 0; // largest insert the slack split takes
			cand[nc++] = 1; cand[nc++] = 8; cand[nc++] = L / 2; cand[nc++] = L;
			if (g0.ok) {
				cand[nc++] = g0.head; cand[nc++] = g0.head + 1; cand[nc++] = g0.tail; cand[nc++] = g0.tail + 1;
				cand[nc++] = smax; cand[nc++] = smax + 1;
			}
		} else if (kind == AK_APPEND_HDR || kind == AK_INSERT_HDR) {
			cand[nc++] = H; cand[nc++] = 8; cand[nc++] = 1;
		} else {
			// header is the destination: up to and beyond its fixed capacity
			cand[nc++] = 1; cand[nc++] = 4; cand[nc++] = 8; cand[nc++] = H; cand[nc++] = HDR_MAX - H;
			cand[nc++] = HDR_MAX - H + 1; cand[nc++] = 24; cand[nc++] = 25;
		}
		n = a_slot(cand, nc, nslot, 1, S);
		if (n != 0) {
			size_t oc[A_NOS] = { 0, (S - n) / 2, S - n };
			o = a_slot(oc, A_NOS, oslot, 0, S) ;
			if (oslot != 0 && o == 0) n = 0;
		}
		if (n == 0) {
			r.phase = AP_SKIP;
			a_send(fd, &r);
			nng_msg_free(msg);
			return;
		}
	}

	const uint8_t *src = (srcbody ? body : hdr) + o;
	int            fam = (kind == AK_APPEND_BODY || kind == AK_APPEND_HDR) ? F_APPEND : F_INSERT;
	if (pullup) {
		bool room = g0.ok && g0.cap - L >= H;
		snprintf(r.ppath, sizeof(r.ppath), "%s", kind == AK_PULLUP_SHARED ? "copy-shared" : !g0.ok ? "unknown" : !room ? "copy" : H == 0 ? "inplace-nohdr" : a_predict(F_INSERT, H, &g0));
		n = H;
	} else if (dsthdr) {
		snprintf(r.ppath, sizeof(r.ppath), "%s", H + n > HDR_MAX ? "hdr-einval" : "hdr");
	} else {
		snprintf(r.ppath, sizeof(r.ppath), "%s", a_predict(fam, n, &g0));
	}
	snprintf(r.lcls, sizeof(r.lcls), "%s", lencls(L));
	snprintf(r.desc, sizeof(r.desc), "%s src=[%zu,+%zu) of %zu; body %zu hdr %zu head %zu tail %zu storage %zu",
	    aknames[kind], o, n, S, L, H, g0.head, g0.tail, g0.cap);
	{
		char cls[64];
		snprintf(cls, sizeof(cls), "%s/%s/%s", aknames[kind], r.ppath, r.lcls);
		if (a_dead_count(cls) >= 2) {
			r.phase  = AP_SKIP;
			r.status = 1; // skipped because its class is known to die
			a_send(fd, &r);
			nng_msg_free(msg);
			return;
		}
	}
	r.phase = AP_OP;
	a_send(fd, &r);

	// the model takes the source bytes first
	memcpy(src_copy, srcbody ? m.body + o : m.hdr + o, n);
	model    before = m; // (shares m.body: only lengths / header are used)
	nng_msg *orig   = NULL;
	nng_msg *given  = msg;
	steps++;
	switch (kind) {
	case AK_APPEND_BODY:
	case AK_APPEND_HDR:
		r.rv = nng_msg_append(msg, src, n);
		memcpy(m.body + m.blen, src_copy, n);
		m.blen += n;
		break;
	case AK_INSERT_BODY:
	case AK_INSERT_HDR:
		r.rv = nng_msg_insert(msg, src, n);
		memmove(m.body + n, m.body, m.blen);
		memcpy(m.body, src_copy, n);
		m.blen += n;
		break;
	case AK_HAPPEND_HDR:
	case AK_HAPPEND_BODY:
		r.rv = nng_msg_header_append(msg, src, n);
		if (H + n > HDR_MAX) r.mrv = NNG_EINVAL;
		else { memcpy(m.hdr + H, src_copy, n); m.hlen += n; }
		break;
	case AK_HINSERT_HDR:
	case AK_HINSERT_BODY:
		r.rv = nng_msg_header_insert(msg, src, n);
		if (H + n > HDR_MAX) r.mrv = NNG_EINVAL;
		else { memmove(m.hdr + n, m.hdr, H); memcpy(m.hdr, src_copy, n); m.hlen += n; }
		break;
	default: // pull_up: body := header + body, header := empty
		if (kind == AK_PULLUP_SHARED) { nni_msg_clone(msg); orig = msg; }
		msg = nni_msg_pull_up(msg);
		if (msg == NULL) vf_harness_fail("nni_msg_pull_up returned NULL");
		memmove(m.body + H, m.body, L);
		memcpy(m.body, src_copy, H);
		m.blen += H;
		m.hlen = 0;
		break;
	}
	if (r.rv != r.mrv) {
		r.status = AS_RC;
		snprintf(r.why, sizeof(r.why), "returned %d (%s), model %d", r.rv, nng_strerror(r.rv), r.mrv);
	} else if ((r.dcode = msg_diff(msg, &m, r.why, sizeof(r.why))) != D_OK) {
		r.status = AS_DIFF;
	}
	geom g1;
	geom_of(msg, &g1);
	if (pullup) {
		snprintf(r.opath, sizeof(r.opath), "%s", kind == AK_PULLUP_SHARED ? (msg != orig ? "copy-shared" : "inplace-shared!") : !g0.ok || !g1.ok ? "unknown" : msg != given ? "copy" : H == 0 ? "inplace-nohdr" : path_branch(F_INSERT, H, &g0, &g1));
	} else if (dsthdr) {
		snprintf(r.opath, sizeof(r.opath), "%s", r.rv == NNG_EINVAL ? "hdr-einval" : "hdr");
	} else {
		snprintf(r.opath, sizeof(r.opath), "%s", g0.ok && g1.ok ? path_branch(fam, n, &g0, &g1) : "unknown");
	}
	if (orig != NULL && r.status == AS_OK) {
		// the other holder's message must be what it was (and still alive)
		uint8_t *keep = m.body;
		model    old  = before;
		old.body      = malloc(BODY_MAX);
		memcpy(old.body, keep + H, L); // m.body now holds header+body
		old.blen = L;
		if (orig == msg) {
			r.status = AS_ORIGINAL_CHANGED;
			snprintf(r.why, sizeof(r.why), "pull_up edited a message that has another holder in place");
		} else if (msg_diff(orig, &old, r.why, sizeof(r.why)) != D_OK) {
			r.status = AS_ORIGINAL_CHANGED;
		}
		free(old.body);
	}
	if (orig != NULL && orig != msg) nng_msg_free(orig);
	// and the message is still usable
	if (r.status == AS_OK) {
		(void) apply(&msg, &m, OP_APPEND, 5, 0, 11);
		(void) apply(&msg, &m, OP_TRIM, 1, 0, 12);
	}
	nng_msg_free(msg);
	if (r.status == AS_OK && vf_violations() != v0) {
		r.status = AS_HOOK;
		snprintf(r.why, sizeof(r.why), "a storage hook or a follow-up step reported a violation (see its own key)");
	}
	r.phase = AP_DONE;
	a_send(fd, &r);
}

// What killed the child, in words that the driver's sanitizer parser ignores.
static void
alias_crash_text(int errfd, int wstatus, char *kind, size_t ksz, char *text, size_t tsz)
{
	static char buf[16384];
	ssize_t     n = pread(errfd, buf, sizeof(buf) - 1, 0);
	kind[0] = text[0] = 0;
	if (n < 0) n = 0;
	buf[n] = 0;
	char *a = strstr(buf, "AddressSanitizer: ");
	char *u = strstr(buf, "runtime error: ");
	if (a != NULL) {
		a += strlen("AddressSanitizer: ");
		size_t i = 0;
		while (a[i] && (a[i] == '-' || a[i] == '_' || (a[i] >= 'a' && a[i] <= 'z') || (a[i] >= 'A' && a[i] <= 'Z')) && i + 1 < ksz) { kind[i] = a[i]; i++; }
		kind[i] = 0;
	} else if (u != NULL) {
		snprintf(kind, ksz, "ubsan");
	} else if (strstr(buf, "panic: ") != NULL) {
		snprintf(kind, ksz, "panic");
	} else if (WIFSIGNALED(wstatus)) {
		snprintf(kind, ksz, "signal-%d", WTERMSIG(wstatus));
	} else {
		snprintf(kind, ksz, "exit-%d", WEXITSTATUS(wstatus));
	}
	// innermost frames of the first stack
	size_t tl = 0;
	int    frames = 0;
	for (char *p = strstr(buf, "    #0 "); p != NULL && frames < 5; frames++) {
		char *in = strstr(p, " in ");
		char *nl = strchr(p, '\n');
		if (in == NULL || nl == NULL || in > nl) break;
		in += 4;
		char *sp = in;
		while (sp < nl && *sp != ' ') sp++;
		if (tl + (size_t) (sp - in) + 4 < tsz) tl += (size_t) snprintf(text + tl, tsz - tl, "%s%.*s", frames ? " < " : "", (int) (sp - in), in);
		p = nl + 1;
		if (strncmp(p, "    #", 5) != 0) break;
	}
	if (u != NULL && tl + 100 < tsz) {
		char *nl = strchr(u, '\n');
		snprintf(text + tl, tsz - tl, " (%.*s)", nl ? (int) (nl - u > 90 ? 90 : nl - u) : 0, u + strlen("runtime error: "));
	}
}

static void
run_alias(void)
{
	long next = 0;
	long forks = 0;
	vf_msleep(50); // (the watchdog thread has long finished starting)
	vf_watchdog(600);
	while (next < A_TOTAL) {
		int  pfd[2];
		char tmpl[] = "/tmp/c17-alias-XXXXXX";
		int  errfd  = mkstemp(tmpl);
		if (errfd < 0 || pipe(pfd) != 0) vf_harness_fail("alias: mkstemp/pipe: %s", strerror(errno));
		unlink(tmpl);
		fflush(NULL);
		pid_t pid = fork();
		if (pid < 0) vf_harness_fail("alias: fork: %s", strerror(errno));
		if (pid == 0) {
			struct rlimit rl = { 0, 0 };
			signal(SIGABRT, SIG_DFL); // not the parent's crash record
			signal(SIGALRM, SIG_DFL);
			setrlimit(RLIMIT_CORE, &rl);
			dup2(errfd, 2);
			close(pfd[0]);
			alarm(120);
			// the library is started here, never in the parent: at the time of
			// the fork the parent has no thread that could hold an allocator lock
			vf_nng_init(2, 1, 1);
			geom_calibrate();
			for (long idx = next; idx < A_TOTAL; idx++) {
				if ((idx % vf_nshards) != vf_shard || !vf_want_case(idx)) continue;
				alias_case(idx, pfd[1]);
			}
			_exit(0);
		}
		forks++;
		close(pfd[1]);
		arec r, cur;
		bool pending = false;
		memset(&cur, 0, sizeof(cur));
		for (;;) {
			size_t got = 0;
			while (got < sizeof(r)) {
				ssize_t k = read(pfd[0], (char *) &r + got, sizeof(r) - got);
				if (k < 0 && errno == EINTR) continue;
				if (k <= 0) break;
				got += (size_t) k;
			}
			if (got < sizeof(r)) break;
			vf_watchdog(600);
			switch (r.phase) {
			case AP_SETUP:
				cur     = r;
				pending = true;
				vf_case_begin(r.idx, "alias %s (setting up)", aknames[r.kind]);
				break;
			case AP_OP:
				cur = r;
				vf_case_begin(r.idx, "alias %s", r.desc);
				break;
			case AP_SKIP:
				pending = false;
				vf_stat(r.status ? "alias_skipped_class_known_to_die" : "alias_slots_unused", 1);
				break;
			case AP_DONE:
				pending = false;
				vf_stat("cases", 1);
				vf_stat("cases_alias", 1);
				if (strcmp(r.ppath, r.opath) != 0) {
					vf_stat("alias_path_mispredicted", 1);
					if (vf_verbose) fprintf(stderr, "alias: predicted %s, took %s: %s\n", r.ppath, r.opath, r.desc);
				}
				vf_class("alias/%s/%s/%s/rv%d/%s", aknames[r.kind], r.opath, r.lcls, r.rv,
				    r.status == AS_OK ? "ok" : "bad");
				if ((r.idx % 257) == 0) vf_sample("{\"alias\":\"%s\",\"path\":\"%s\"}", r.desc, r.opath);
				if (r.status != AS_OK) {
					char key[128];
					snprintf(key, sizeof(key), "C17/alias/%s/%s/%s", aknames[r.kind], r.ppath,
					    r.status == AS_RC ? "return-code" : r.status == AS_DIFF ? dnames[r.dcode] : r.status == AS_HOOK ? "hook" : "original-changed");
					vf_violation(key, "%s: %s (path taken: %s)", r.desc, r.why, r.opath);
				}
				break;
			default:
				vf_harness_fail("alias: bad record from the child");
			}
		}
		close(pfd[0]);
		int ws = 0;
		while (waitpid(pid, &ws, 0) < 0 && errno == EINTR) {
		}
		if (pending) {
			// the child died inside case cur.idx
			char kind[48], text[400], key[160];
			alias_crash_text(errfd, ws, kind, sizeof(kind), text, sizeof(text));
			if (WIFSIGNALED(ws) && WTERMSIG(ws) == SIGALRM) {
				vf_harness_fail("alias: the child made no progress for 120 s in case %ld", cur.idx);
			}
			if (cur.phase == AP_SETUP) {
				snprintf(key, sizeof(key), "C17/alias/setup/%s", kind);
				vf_violation(key, "ordinary edits that prepare alias case %ld (%s) died: %s %s", cur.idx, aknames[cur.kind], kind, text);
			} else {
				snprintf(key, sizeof(key), "C17/alias/%s/%s/%s", aknames[cur.kind], cur.ppath, kind);
				vf_violation(key, "%s: the call died with a %s report [%s]", cur.desc, kind, text);
				vf_stat("cases", 1);
				vf_stat("cases_alias", 1);
				vf_stat("alias_died", 1);
				vf_class("alias/%s/%s/%s/died/bad", aknames[cur.kind], cur.ppath, cur.lcls);
				snprintf(key, sizeof(key), "%s/%s/%s", aknames[cur.kind], cur.ppath, cur.lcls);
				a_dead_note(key);
			}
			next = cur.idx + 1;
		} else if (WIFEXITED(ws) && WEXITSTATUS(ws) == 0) {
			next = A_TOTAL;
		} else {
			vf_harness_fail("alias: the child ended with status 0x%x outside a case", ws);
		}
		close(errfd);
		if (vf_only >= 0) break;
	}
	vf_stat("alias_children", forks);
}

int
main(int argc, char **argv)
{
	char key[32];
	vf_init(argc, argv);
	if (!strcmp(vf_mode, "alias")) {
		// forks; the children start the library themselves
		run_alias();
		return vf_finish();
	}
	vf_nng_init(2, 1, 1);
	geom_calibrate();
	if (!geom_on) vf_stat("path_observer_off", 1);
	if (!strcmp(vf_mode, "exh3")) run_exhaustive(3);
	else if (!strcmp(vf_mode, "exh4")) run_exhaustive(4);
	else if (!strcmp(vf_mode, "huge")) run_huge();
	else if (!strcmp(vf_mode, "rand") || !strcmp(vf_mode, "")) run_random();
	else vf_harness_fail("unknown mode '%s'", vf_mode);
	vf_stat("steps", steps);
	snprintf(key, sizeof(key), "steps_%.20s", !strncmp(vf_mode, "exh", 3) ? "exh" : !strcmp(vf_mode, "huge") ? "huge" : "rand");
	vf_stat(key, steps);
	vf_nng_fini("C17");
	return vf_finish();
}
