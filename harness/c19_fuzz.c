// C19, coverage-guided part: libFuzzer (flavor "fuzz": clang
// -fsanitize=fuzzer-no-link,address,undefined on libnng.a) drives byte
// strings into the same judge as harness/c19_url.c (reference predicate +
// canonicaliser, accessors, sprintf round trip, clone).  This file only adds
// the libFuzzer entry point, a seed corpus / dictionary written to a scratch
// directory under /verif/out, and LLVMFuzzerInitialize, which takes the vfh
// command line, replaces it by libFuzzer flags and registers the vfh report
// (the flavor links libFuzzer's own main, which ends with exit()).
// --cases N is the number of executions (-runs=N).
#define C19_NO_MAIN
#include "c19_url.c"

#include <dirent.h>
#include <sys/stat.h>

#define C19_CORPUS "/verif/corpus/C19"

static long f_execs;

int
LLVMFuzzerTestOneInput(const uint8_t *data, size_t size)
{
	static char buf[MAXIN];
	if (size > 700) {
		return 0;
	}
	memcpy(buf, data, size);
	buf[size] = 0; // an embedded NUL simply ends the string earlier
	long i = f_execs++;
	if ((i & 0xff) == 0) vf_watchdog(120);
	vf_case_begin(i, "fuzz: %s", esc(buf));
	bool acc = run_case(buf, "fuzz", NULL);
	if ((i & 0xffff) == 0x1234) vf_sample("{\"fuzz_input\":\"%s\",\"accepted\":%s}", esc(buf), acc ? "true" : "false");
	return 0;
}

static char f_dir[256];

static void
rm_rf(const char *dir)
{
	DIR *d = opendir(dir);
	if (d == NULL) return;
	struct dirent *e;
	while ((e = readdir(d)) != NULL) {
		char p[600];
		if (!strcmp(e->d_name, ".") || !strcmp(e->d_name, "..")) continue;
		snprintf(p, sizeof(p), "%s/%s", dir, e->d_name);
		struct stat st;
		if (lstat(p, &st) == 0 && S_ISDIR(st.st_mode)) rm_rf(p);
		else unlink(p);
	}
	closedir(d);
	rmdir(dir);
}

static void
write_file(const char *path, const char *data, size_t n)
{
	FILE *f = fopen(path, "w");
	if (f == NULL) vf_harness_fail("cannot write %s: %s", path, strerror(errno));
	fwrite(data, 1, n, f);
	fclose(f);
}

static void
finish(void)
{
	// libFuzzer's driver ends with exit(); report from here
	static bool done;
	if (done) return;
	done = true;
	vf_stat("fuzz_execs", f_execs);
	report_stats();
	endpoint_close();
	vf_nng_fini("C19");
	rm_rf(f_dir);
	(void) vf_finish();
	vacuity_guard();
}

int
LLVMFuzzerInitialize(int *argcp, char ***argvp)
{
	int    argc = *argcp;
	char **argv = *argvp;
	if (argc > 1 && argv[1][0] == '-' && argv[1][1] != '-') {
		// started by libFuzzer itself (inner process of -merge=1): keep
		// its flags, no vfh command line, no report
		char *self[] = { argv[0], "--out", "/dev/null", NULL };
		vf_init(3, self);
		vf_nng_init(1, 1, 1);
		endpoint_open();
		return 0;
	}
	vf_init(argc, argv);
	run_canaries();
	vf_nng_init(1, 1, 1);
	endpoint_open();
	// Corpus maintenance (not used by ./vf check):
	//   --mode grow:<dir>        fuzz with <dir> as the writable corpus
	//   --mode merge:<dst>,<src> libFuzzer -merge=1 of <src> into <dst>
	const char *grow = !strncmp(vf_mode, "grow:", 5) ? vf_mode + 5 : NULL;
	if (!strncmp(vf_mode, "merge:", 6)) {
		static char  dst[300], src[300];
		static char *ma[8];
		const char  *c = strchr(vf_mode + 6, ',');
		if (c == NULL) vf_harness_fail("--mode merge:<dst>,<src>");
		snprintf(dst, sizeof(dst), "%.*s", (int) (c - (vf_mode + 6)), vf_mode + 6);
		snprintf(src, sizeof(src), "%s", c + 1);
		ma[0] = argv[0];
		ma[1] = "-merge=1";
		ma[2] = "-max_len=640";
		ma[3] = "-detect_leaks=0";
		ma[4] = dst;
		ma[5] = src;
		ma[6] = NULL;
		*argcp = 6;
		*argvp = ma;
		return 0;
	}

	// scratch directories of runs that crashed (a sanitizer abort skips
	// finish()): remove those whose process is gone
	DIR *od = opendir("/verif/out");
	if (od != NULL) {
		struct dirent *e;
		while ((e = readdir(od)) != NULL) {
			long pid = 0;
			if (sscanf(e->d_name, "c19-fuzz.%ld.", &pid) == 1 && pid > 0 && kill((pid_t) pid, 0) != 0 && errno == ESRCH) {
				char old[300];
				snprintf(old, sizeof(old), "/verif/out/%s", e->d_name);
				rm_rf(old);
			}
		}
		closedir(od);
	}
	snprintf(f_dir, sizeof(f_dir), "/verif/out/c19-fuzz.%ld.%d", (long) getpid(), vf_shard);
	rm_rf(f_dir);
	if (mkdir("/verif/out", 0755) != 0 && errno != EEXIST) vf_harness_fail("mkdir /verif/out");
	if (mkdir(f_dir, 0755) != 0) vf_harness_fail("mkdir %s: %s", f_dir, strerror(errno));
	char p[400], corp[300], art[300], dict[300];
	snprintf(corp, sizeof(corp), "%s/corpus", f_dir);
	if (grow != NULL) snprintf(corp, sizeof(corp), "%s", grow);
	mkdir(corp, 0755);
	for (size_t i = 0; i < sizeof(corpus) / sizeof(corpus[0]); i++) {
		snprintf(p, sizeof(p), "%s/lit%03zu", corp, i);
		write_file(p, corpus[i], strlen(corpus[i]));
	}
	for (int i = 0; i < NSCHEMES; i++) {
		char u[700];
		int  n = snprintf(u, sizeof(u), "%s://User@Host.Example:8080/a/./b/../c//d/%%41%%2f%%c3%%a9?k=v&x=%%7e#frag", ref_schemes[i]);
		snprintf(p, sizeof(p), "%s/sch%02d", corp, i);
		write_file(p, u, (size_t) n);
		n = snprintf(u, sizeof(u), "%s://[fe80::1%%25lo]:65535/%0140d", ref_schemes[i], i);
		snprintf(p, sizeof(p), "%s/long%02d", corp, i);
		write_file(p, u, (size_t) n);
	}
	// dictionary: schemes, separators, escapes, UTF-8 boundary sequences
	snprintf(dict, sizeof(dict), "%s/dict", f_dir);
	FILE *df = fopen(dict, "w");
	if (df == NULL) vf_harness_fail("cannot write %s", dict);
	for (int i = 0; i < NSCHEMES; i++) fprintf(df, "\"%s://\"\n", ref_schemes[i]);
	static const char *const toks[] = { "://", "/../", "/./", "//", "/..", "/.", "%2e", "%2E%2E", "%2F", "%41", "%7e", "%00", "%25", "@", ":0", ":65535",
		":65536", ":+8", ":http", "[::1]", "[", "]", "?", "#", "%C3%A9", "%E0%A0%80", "%E0%9F%BF", "%ED%A0%80", "%ED%9F%BF", "%EF%BF%BF",
		"%F0%90%80%80", "%F0%8F%BF%BF", "%F4%8F%BF%BF", "%F4%90%80%80", "%C0%80", "%C2", "%80", "\\xc3\\xa9", "\\xe0\\xa0\\x80", "\\xed\\xa0\\x80",
		"\\xf4\\x90\\x80\\x80", "\\xff" };
	for (size_t i = 0; i < sizeof(toks) / sizeof(toks[0]); i++) fprintf(df, "\"%s\"\n", toks[i]);
	fclose(df);
	snprintf(art, sizeof(art), "-artifact_prefix=%s/", f_dir);

	char a_runs[64], a_seed[64], a_dict[320];
	snprintf(a_runs, sizeof(a_runs), "-runs=%ld", vf_cases > 0 ? vf_cases : 100000L);
	snprintf(a_seed, sizeof(a_seed), "-seed=%u", (unsigned) ((vf_seed ^ (vf_seed >> 32)) & 0x7fffffff) | 1u);
	snprintf(a_dict, sizeof(a_dict), "-dict=%s", dict);
	static char *fargv[] = { "-max_len=640", "-len_control=50", "-verbosity=0", "-print_final_stats=0",
		"-detect_leaks=0", "-handle_abrt=0", "-handle_segv=0", "-handle_bus=0", "-handle_ill=0", "-handle_fpe=0", "-handle_int=0",
		"-handle_term=0", "-timeout=100", "-rss_limit_mb=4096", NULL };
	// strdup: the argument strings must outlive this function
	static char *fa[40];
	int          fargc = 0;
	fa[fargc++] = argv[0];
	fa[fargc++] = strdup(a_runs);
	fa[fargc++] = strdup(a_seed);
	fa[fargc++] = strdup(a_dict);
	fa[fargc++] = strdup(art);
	for (int i = 0; fargv[i] != NULL; i++) fa[fargc++] = fargv[i];
	fa[fargc++] = strdup(corp);
	// committed seed corpus (read only: libFuzzer writes new units into the
	// first directory, the scratch one); found once by long -merge'd runs
	long nseed = 0;
	DIR *cd = opendir(C19_CORPUS);
	if (cd != NULL) {
		struct dirent *e;
		while ((e = readdir(cd)) != NULL) {
			if (e->d_name[0] != '.') nseed++;
		}
		closedir(cd);
		if (nseed > 0) fa[fargc++] = C19_CORPUS;
	}
	vf_stat("fuzz_committed_seed_files", nseed);
	fa[fargc] = NULL;
	atexit(finish);
	*argcp = fargc;
	*argvp = fa;
	return 0;
}
